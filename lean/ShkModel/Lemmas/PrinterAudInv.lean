import ShkModel.Lemmas.PrinterInv
/-! Helper lemmas for C10, part 7: the audience clauses keep `AudInv`. -/
set_option linter.unusedSimpArgs false
set_option linter.unusedVariables false
namespace Shk.Printer
open Shk.Story (Act)

theorem getMember_cases (c : Cfg) (n : String) :
    getMember c n ∈ c.members ∨ (getMember c n = { name := n } ∧ n ∉ c.members.map (·.name)) := by
  simp only [getMember, findMember]
  cases h : c.members.find? (·.name == n) with
  | some m => exact Or.inl (List.mem_of_find?_eq_some h)
  | none =>
    right
    refine ⟨rfl, ?_⟩
    intro hm
    obtain ⟨x, hx, hxn⟩ := List.mem_map.mp hm
    have := List.find?_eq_none.mp h x hx
    simp [hxn] at this

theorem varStatic_iff (c : Cfg) (v : Var) : VarStatic c c.members v ↔ VarOk c v := by
  cases v with
  | comp n => simp [VarStatic, VarOk, mem_definedVars]
  | sig a s => rfl

theorem chainOf_fresh (n : String) : chainOf { name := n } = [] := rfl
theorem freeOf_fresh (n : String) : freeOf { name := n } = [] := rfl

theorem nodup_insert_mid {α : Type} {A B C E : List α} (h : (A ++ B ++ C).Nodup) (hE : E.Nodup)
    (hfresh : ∀ v ∈ E, v ∉ A ++ B ++ C) : (A ++ (B ++ E) ++ C).Nodup := by
  simp only [List.append_assoc] at h hfresh ⊢
  rw [List.nodup_append] at h ⊢
  obtain ⟨hA, hBC, hdisj⟩ := h
  rw [List.nodup_append] at hBC
  obtain ⟨hB, hC, hBCd⟩ := hBC
  refine ⟨hA, ?_, ?_⟩
  · rw [List.nodup_append]
    refine ⟨hB, ?_, ?_⟩
    · rw [List.nodup_append]
      refine ⟨hE, hC, ?_⟩
      intro x hx y hy e
      subst e
      exact hfresh x hx (by simp [hy])
    · intro x hx y hy e
      subst e
      rcases List.mem_append.mp hy with hy | hy
      · exact hfresh x hy (by simp [hx])
      · exact hBCd x hx x hy rfl
  · intro x hx y hy e
    subst e
    simp only [List.mem_append] at hy
    rcases hy with hy | hy | hy
    · exact hdisj x hx x (by simp [hy]) rfl
    · exact hfresh x hy (by simp [hx])
    · exact hdisj x hx x (by simp [hy]) rfl

/-- the audience after a member was stored back with more clauses -/
theorem audStatic_put {c : Cfg} (hs : AudStatic c c.members) {n : String} {q1 : Member} (hn : q1.name = n)
    (h3 : q1.active = none → q1.assigns = [] ∧ q1.expects = none)
    {ex : List Assign} (hass : q1.assigns = (getMember c n).assigns ++ ex)
    (hexok : ∀ a ∈ ex, okAssign a = true ∧ a.var ∉ definedVars c) (hexnd : (ex.map (·.var)).Nodup)
    (hchain : ∀ x ∈ chainOf q1, x ∈ chainOf (getMember c n) ∨
      (∀ e, exOf x = some e → ∀ v ∈ e.vars, VarOk c v ∧ (isSig v = true → v ∈ q1.obs)))
    (hsub : ∀ v ∈ (getMember c n).obs, v ∈ q1.obs)
    (hobs : q1.obs.Nodup ∧ ∀ v ∈ q1.obs, v ∈ (getMember c n).obs ∨ VarOk c v) :
    AudStatic (putMember c q1) (putMember c q1).members := by
  have hT : ∀ v, v ∈ targetsOf c.members → v ∈ targetsOf (putMember c q1).members := fun v hv =>
    (mem_targets_put c n q1 hn ex hass v).mpr (Or.inl hv)
  have hvs : ∀ v, VarStatic c c.members v → VarStatic (putMember c q1) (putMember c q1).members v := by
    intro v hv
    cases v with
    | comp k =>
      rcases hv with h | h
      · exact Or.inl h
      · exact Or.inr (hT k h)
    | sig a s => exact hv
  have hvo : ∀ v, VarOk c v → VarStatic (putMember c q1) (putMember c q1).members v :=
    fun v hv => hvs v ((varStatic_iff c v).mpr hv)
  have hq0 := getMember_cases c n
  have hmem : ∀ x ∈ (putMember c q1).members, x = q1 ∨ x ∈ c.members := fun x hx => mem_putIn_sub hx
  refine ⟨?_, ?_, ?_, ?_, ?_, ?_⟩
  · -- names
    rw [names_put, hn]
    split
    · exact hs.names
    · rename_i hnot
      rw [List.nodup_append]
      refine ⟨hs.names, by simp, ?_⟩
      intro x hx y hy
      simp at hy; subst hy
      exact fun e => hnot (e ▸ hx)
  · intro x hx
    rcases hmem x hx with rfl | hx
    · exact h3
    · exact hs.m3 x hx
  · intro x hx cl hcl e he v hv
    rcases hmem x hx with rfl | hx
    · rcases hchain cl hcl with hold | hnew
      · rcases hq0 with hq | ⟨hq, _⟩
        · obtain ⟨h1, h2⟩ := hs.exVars _ hq cl hold e he v hv
          exact ⟨hvs v h1, fun hsg => hsub v (h2 hsg)⟩
        · rw [hq] at hold; cases hold
      · obtain ⟨h1, h2⟩ := hnew e he v hv
        exact ⟨hvo v h1, h2⟩
    · obtain ⟨h1, h2⟩ := hs.exVars x hx cl hcl e he v hv
      exact ⟨hvs v h1, h2⟩
  · -- targets
    refine ⟨?_, ?_⟩
    · rcases put_cases c n q1 hn with ⟨_, hg, hp⟩ | ⟨pre, old, post, h0, _, _, hg, hp⟩
      · rw [hp]
        rw [hg] at hass
        simp only [targetsOf, List.flatMap_append, List.flatMap_cons, List.flatMap_nil, List.append_nil]
        rw [hass]
        simp only [List.nil_append]
        rw [List.nodup_append]
        refine ⟨hs.targets.1, hexnd, ?_⟩
        intro x hx y hy e
        subst e
        obtain ⟨a, ha, rfl⟩ := List.mem_map.mp hy
        exact (hexok a ha).2 (mem_definedVars.mpr (Or.inr hx))
      · rw [hp]
        rw [hg] at hass
        have hold := hs.targets.1
        rw [h0] at hold
        simp only [targetsOf, List.flatMap_append, List.flatMap_cons] at hold ⊢
        rw [hass, List.map_append]
        have := nodup_insert_mid (A := List.flatMap (fun m => List.map (·.var) m.assigns) pre)
          (B := old.assigns.map (·.var)) (C := List.flatMap (fun m => List.map (·.var) m.assigns) post)
          (E := ex.map (·.var)) (by simpa using hold) hexnd ?_
        · simpa using this
        · intro v hv hin
          obtain ⟨a, ha, rfl⟩ := List.mem_map.mp hv
          apply (hexok a ha).2
          apply mem_definedVars.mpr
          right
          rw [h0]
          simp only [targetsOf, List.flatMap_append, List.flatMap_cons]
          simpa using hin
    · intro v hv
      rcases (mem_targets_put c n q1 hn ex hass v).mp hv with h | h
      · exact hs.targets.2 v h
      · obtain ⟨a, ha, rfl⟩ := List.mem_map.mp h
        exact fun hp => (hexok a ha).2 (mem_definedVars.mpr (Or.inl hp))
  · intro x hx
    rcases hmem x hx with rfl | hx
    · refine ⟨hobs.1, fun v hv => ?_⟩
      rcases hobs.2 v hv with h | h
      · rcases hq0 with hq | ⟨hq, _⟩
        · exact hvs v ((hs.obs _ hq).2 v h)
        · rw [hq] at h; cases h
      · exact hvo v h
    · exact ⟨(hs.obs x hx).1, fun v hv => hvs v ((hs.obs x hx).2 v hv)⟩
  · intro x hx a ha
    rcases hmem x hx with rfl | hx
    · rw [hass] at ha
      rcases List.mem_append.mp ha with ha | ha
      · rcases hq0 with hq | ⟨hq, _⟩
        · exact hs.assignOk _ hq a ha
        · rw [hq] at ha; cases ha
      · exact (hexok a ha).1
    · exact hs.assignOk x hx a ha

/-! ## the ranking after a member was stored back -/

/-- new clauses of member `n` come after everything there was; its `expects` clause comes last -/
def bumpRank (rk : String → AClause → Nat) (n : String) (old : List AClause) (K : Nat) :
    String → AClause → Nat :=
  fun n' x => if n' = n then (if isExpectsC x = true then K + 1 else if x ∈ old then rk n x else K)
    else rk n' x

theorem exists_bound (rk : String → AClause → Nat) : ∀ (ms : List Member),
    ∃ K, ∀ m ∈ ms, ∀ x ∈ canon m, rk m.name x < K := by
  have hone : ∀ (n : String) (l : List AClause), ∃ K, ∀ x ∈ l, rk n x < K := by
    intro n l
    induction l with
    | nil => exact ⟨0, by simp⟩
    | cons y l ih =>
      obtain ⟨K, hK⟩ := ih
      refine ⟨max K (rk n y + 1), fun x hx => ?_⟩
      rcases List.mem_cons.mp hx with rfl | hx
      · omega
      · have := hK x hx; omega
  intro ms
  induction ms with
  | nil => exact ⟨0, by simp⟩
  | cons m ms ih =>
    obtain ⟨K1, h1⟩ := ih
    obtain ⟨K2, h2⟩ := hone m.name (canon m)
    refine ⟨max K1 K2, fun x hx y hy => ?_⟩
    rcases List.mem_cons.mp hx with rfl | hx
    · have := h2 y hy; omega
    · have := h1 x hx y hy; omega

theorem mem_put_nodup {c : Cfg} (hnd : (c.members.map (·.name)).Nodup) {n : String} {q1 x : Member}
    (hn : q1.name = n) (hx : x ∈ (putMember c q1).members) : x = q1 ∨ (x ∈ c.members ∧ x.name ≠ n) := by
  rcases put_cases c n q1 hn with ⟨hnone, _, hp⟩ | ⟨pre, old, post, h0, hon, hpre, _, hp⟩
  · rw [hp] at hx
    rcases List.mem_append.mp hx with hx | hx
    · right
      refine ⟨hx, fun e => ?_⟩
      have := List.find?_eq_none.mp hnone x hx
      simp [e] at this
    · left; simpa using hx
  · rw [hp] at hx
    rw [h0] at hnd
    simp only [List.map_append, List.map_cons] at hnd
    rcases List.mem_append.mp hx with hx | hx
    · exact Or.inr ⟨by rw [h0]; exact List.mem_append_left _ hx, hpre x hx⟩
    · rcases List.mem_cons.mp hx with rfl | hx
      · exact Or.inl rfl
      · right
        refine ⟨by rw [h0]; exact List.mem_append_right _ (List.mem_cons_of_mem _ hx), fun e => ?_⟩
        have h2 := (List.nodup_cons.mp (List.nodup_append.mp hnd).2.1).1
        exact h2 (by rw [hon, ← e]; exact List.mem_map.mpr ⟨x, hx, rfl⟩)

theorem isExpectsC_assign (a : Assign) : isExpectsC (.assign a) = false := rfl

theorem chainHead_sub (m : Member) : ∀ x ∈ chainHead m, x ∈ canon m := by
  intro x hx
  exact List.mem_append_left _ (by rw [chainOf_eq]; exact List.mem_append_left _ hx)

theorem chainTail_exp (m : Member) : ∀ x ∈ chainTail m, isExpectsC x = true := by
  intro x hx
  simp only [chainTail] at hx
  cases hm : m.expects with
  | none => simp [hm] at hx
  | some y => obtain ⟨md, e⟩ := y; simp [hm] at hx; subst hx; rfl

theorem ranked_put {c : Cfg} {rk : String → AClause → Nat} {K : Nat} {n : String} {q1 : Member}
    {ex : List Assign}
    (hr : Ranked c.members rk) (hK : ∀ m ∈ c.members, ∀ x ∈ canon m, rk m.name x < K)
    (hnames : (c.members.map (·.name)).Nodup) (hne : ∀ m ∈ c.members, canon m ≠ [])
    (hm3 : ∀ m ∈ c.members, m.active = none → m.assigns = [] ∧ m.expects = none)
    (hn : q1.name = n)
    (hold : ∀ x ∈ canon (getMember c n), isExpectsC x = false → x ∈ canon q1)
    (hhead : ∃ newC, chainHead q1 = chainHead (getMember c n) ++ newC ∧ newC.length ≤ 1 ∧
      ∀ x ∈ newC, x ∉ canon (getMember c n) ∧ isExpectsC x = false)
    (huses_old : ∀ m ∈ c.members, ∀ x ∈ canon m, ∀ v ∈ uses x, v ∈ definedVars c)
    (huses_new : ∀ x ∈ canon q1, x ∉ canon (getMember c n) → ∀ v ∈ uses x, v ∈ definedVars c)
    (hass : q1.assigns = (getMember c n).assigns ++ ex) (hex : ∀ a ∈ ex, a.var ∉ definedVars c) :
    Ranked (putMember c q1).members (bumpRank rk n (canon (getMember c n)) K) := by
  have hq0 := getMember_cases c n
  have hq0n : (getMember c n).name = n := getMember_name c n
  have hmem : ∀ x ∈ (putMember c q1).members, x = q1 ∨ (x ∈ c.members ∧ x.name ≠ n) :=
    fun x hx => mem_put_nodup hnames hn hx
  -- ranks of the other members are unchanged
  have hother : ∀ {n' : String} (x : AClause), n' ≠ n → bumpRank rk n (canon (getMember c n)) K n' x = rk n' x := by
    intro n' x h; simp [bumpRank, h]
  -- ranks of member n
  have hnew_ge : ∀ x, K ≤ bumpRank rk n (canon (getMember c n)) K n x ∨
      (x ∈ canon (getMember c n) ∧ isExpectsC x = false ∧
        bumpRank rk n (canon (getMember c n)) K n x = rk n x) := by
    intro x
    simp only [bumpRank, if_true]
    by_cases h1 : isExpectsC x = true
    · simp [h1]
    · by_cases h2 : x ∈ canon (getMember c n)
      · right; simp [h1, h2]
      · left; simp [h1, h2]
  -- old ranks of member n are below K
  have hq0K : ∀ x ∈ canon (getMember c n), rk n x < K := by
    intro x hx
    rcases hq0 with hq | ⟨hq, _⟩
    · have := hK _ hq x hx; rwa [hq0n] at this
    · rw [hq] at hx; simp [canon, chainOf_fresh, freeOf_fresh] at hx
  have hge : ∀ x, x ∈ canon (getMember c n) → rk n x ≤ bumpRank rk n (canon (getMember c n)) K n x := by
    intro x hx
    rcases hnew_ge x with h | ⟨_, _, h⟩
    · have := hq0K x hx; omega
    · omega
  -- an old assign clause keeps its rank
  have hassign_old : ∀ a ∈ (getMember c n).assigns,
      bumpRank rk n (canon (getMember c n)) K n (.assign a) = rk n (.assign a) := by
    intro a ha
    have : AClause.assign a ∈ canon (getMember c n) := by
      refine List.mem_append_left _ ?_
      simp only [chainOf, List.mem_append, List.mem_map]
      exact Or.inl (Or.inr ⟨a, ha, rfl⟩)
    simp [bumpRank, isExpectsC, this]
  refine ⟨?_, ?_, ?_⟩
  · -- uses
    intro m hm x hx v hv m' hm' a ha hav
    -- the defining clause is an old one
    have hdef : (m' ∈ c.members ∧ m'.name ≠ n) ∨ (m' = q1 ∧ a ∈ (getMember c n).assigns) ∨
        (m' = q1 ∧ a ∈ ex) := by
      rcases hmem m' hm' with rfl | h
      · rw [hass] at ha
        rcases List.mem_append.mp ha with ha | ha
        · exact Or.inr (Or.inl ⟨rfl, ha⟩)
        · exact Or.inr (Or.inr ⟨rfl, ha⟩)
      · exact Or.inl h
    -- where the use sits
    have huse : (m ∈ c.members ∧ m.name ≠ n) ∨ (m = q1 ∧ x ∈ canon (getMember c n)) ∨
        (m = q1 ∧ x ∉ canon (getMember c n)) := by
      rcases hmem m hm with rfl | h
      · by_cases hx' : x ∈ canon (getMember c n)
        · exact Or.inr (Or.inl ⟨rfl, hx'⟩)
        · exact Or.inr (Or.inr ⟨rfl, hx'⟩)
      · exact Or.inl h
    have hvdef : v ∈ definedVars c := by
      rcases huse with ⟨h1, _⟩ | ⟨rfl, h1⟩ | ⟨rfl, h1⟩
      · exact huses_old m h1 x hx v hv
      · rcases hq0 with hq | ⟨hq, _⟩
        · exact huses_old _ hq x h1 v hv
        · rw [hq] at h1; simp [canon, chainOf_fresh, freeOf_fresh] at h1
      · exact huses_new x hx h1 v hv
    rcases hdef with ⟨hm'1, hm'2⟩ | ⟨rfl, ha0⟩ | ⟨rfl, haex⟩
    · rw [hother _ hm'2]
      rcases huse with ⟨h1, h2⟩ | ⟨rfl, h1⟩ | ⟨rfl, h1⟩
      · rw [hother _ h2]; exact hr.uses m h1 x hx v hv m' hm'1 a ha hav
      · rw [hn]
        rcases hq0 with hq | ⟨hq, _⟩
        · have := hr.uses _ hq x h1 v hv m' hm'1 a ha hav
          rw [hq0n] at this
          have := hge x h1; omega
        · rw [hq] at h1; simp [canon, chainOf_fresh, freeOf_fresh] at h1
      · rw [hn]
        have h3 : rk m'.name (.assign a) < K :=
          hK m' hm'1 _ (List.mem_append_left _ (by
            simp only [chainOf, List.mem_append, List.mem_map]; exact Or.inl (Or.inr ⟨a, ha, rfl⟩)))
        rcases hnew_ge x with h | ⟨h, _, _⟩
        · omega
        · exact absurd h h1
    · rw [hn, hassign_old a ha0]
      have hq : getMember c n ∈ c.members := by
        rcases hq0 with hq | ⟨hq, _⟩
        · exact hq
        · rw [hq] at ha0; cases ha0
      rcases huse with ⟨h1, h2⟩ | ⟨rfl, h1⟩ | ⟨rfl, h1⟩
      · rw [hother _ h2]
        have := hr.uses m h1 x hx v hv _ hq a ha0 hav
        rwa [hq0n] at this
      · rw [hn]
        have := hr.uses _ hq x h1 v hv _ hq a ha0 hav
        rw [hq0n] at this
        have := hge x h1; omega
      · rw [hn]
        have h3 : rk n (.assign a) < K := hq0K _ (List.mem_append_left _ (by
            simp only [chainOf, List.mem_append, List.mem_map]; exact Or.inl (Or.inr ⟨a, ha0, rfl⟩)))
        rcases hnew_ge x with h | ⟨h, _, _⟩
        · omega
        · exact absurd h h1
    · exact absurd (hav ▸ hvdef) (hex a haex)
  · -- chain
    intro m hm
    rcases hmem m hm with rfl | ⟨hm1, hm2⟩
    · rw [hn]
      obtain ⟨newC, hh, hlen, hnewC⟩ := hhead
      rw [chainOf_eq, hh, List.append_assoc]
      rw [List.pairwise_append]
      refine ⟨?_, ?_, ?_⟩
      · -- the old head keeps its ranks and its order
        rcases hq0 with hq | ⟨hq, _⟩
        · have hold2 := hr.chain _ hq
          rw [chainOf_eq, hq0n] at hold2
          have := (List.pairwise_append.mp hold2).1
          refine this.imp_of_mem ?_
          intro a b ha hb hab
          have ea : bumpRank rk n (canon (getMember c n)) K n a = rk n a := by
            simp [bumpRank, chainHead_noexp _ a ha, chainHead_sub _ a ha]
          have eb : bumpRank rk n (canon (getMember c n)) K n b = rk n b := by
            simp [bumpRank, chainHead_noexp _ b hb, chainHead_sub _ b hb]
          rw [ea, eb]; exact hab
        · rw [hq]; simp [chainHead]
      · rw [List.pairwise_append]
        refine ⟨?_, ?_, ?_⟩
        · cases newC with
          | nil => exact List.Pairwise.nil
          | cons y l =>
            cases l with
            | nil => exact List.pairwise_singleton _ _
            | cons _ _ => simp at hlen
        · cases hq1 : m.expects with
          | none => simp [chainTail, hq1]
          | some y => obtain ⟨md, e⟩ := y; simp [chainTail, hq1]
        · intro a ha b hb
          have ea : bumpRank rk n (canon (getMember c n)) K n a = K := by
            simp [bumpRank, (hnewC a ha).1, (hnewC a ha).2]
          have eb : bumpRank rk n (canon (getMember c n)) K n b = K + 1 := by
            simp [bumpRank, chainTail_exp _ b hb]
          omega
      · intro a ha b hb
        have ea : bumpRank rk n (canon (getMember c n)) K n a = rk n a := by
          simp [bumpRank, chainHead_noexp _ a ha, chainHead_sub _ a ha]
        have haK := hq0K a (chainHead_sub _ a ha)
        rcases List.mem_append.mp hb with hb | hb
        · have eb : bumpRank rk n (canon (getMember c n)) K n b = K := by
            simp [bumpRank, (hnewC b hb).1, (hnewC b hb).2]
          omega
        · have eb : bumpRank rk n (canon (getMember c n)) K n b = K + 1 := by
            simp [bumpRank, chainTail_exp _ b hb]
          omega
    · have := hr.chain m hm1
      refine this.imp ?_
      intro a b hab
      rw [hother _ hm2, hother _ hm2]; exact hab
  · -- first mentions
    -- a witness of member n that is not its expects clause
    have hwit : ∀ (mj : Member), (∃ c0 ∈ canon (getMember c n), ∀ d ∈ canon mj, rk n c0 < rk mj.name d) →
        getMember c n ∈ c.members →
        ∃ c0 ∈ canon (getMember c n), isExpectsC c0 = false ∧ ∀ d ∈ canon mj, rk n c0 < rk mj.name d := by
      intro mj ⟨c0, hc0, hlt⟩ hq
      by_cases he : isExpectsC c0 = true
      · -- use the first clause of the chain instead
        have hc0ch : c0 ∈ chainOf (getMember c n) := by
          rcases List.mem_append.mp hc0 with h | h
          · exact h
          · rcases free_kinds h with ⟨w, _, e⟩ | ⟨e, _⟩ | e <;> rw [e] at he
            · cases w <;> simp [watchClause, isExpectsC] at he
            · simp [isExpectsC] at he
            · simp [isExpectsC] at he
        have hact : (getMember c n).active.isSome = true := by
          cases hma : (getMember c n).active with
          | some _ => rfl
          | none =>
            obtain ⟨h1, h2⟩ := hm3 _ hq hma
            simp [chainOf, hma, h1, h2] at hc0ch
        cases hma : (getMember c n).active with
        | none => rw [hma] at hact; cases hact
        | some e0 =>
          have hch := hr.chain _ hq
          rw [hq0n] at hch
          have hfirst : chainOf (getMember c n) = .audits e0 :: (chainOf (getMember c n)).tail := by
            simp [chainOf, hma]
          rw [hfirst] at hch hc0ch
          have hne0 : c0 ≠ .audits e0 := by
            intro e; rw [e] at he; simp [isExpectsC] at he
          have hin : c0 ∈ (chainOf (getMember c n)).tail := by
            rcases List.mem_cons.mp hc0ch with h | h
            · exact absurd h hne0
            · exact h
          have hlt2 := (List.pairwise_cons.mp hch).1 c0 hin
          refine ⟨.audits e0, List.mem_append_left _ (by rw [hfirst]; exact List.mem_cons_self), rfl, ?_⟩
          intro d hd
          have := hlt d hd; omega
      · exact ⟨c0, hc0, by simpa using he, hlt⟩
    rcases put_cases c n q1 hn with ⟨hnone, hg, hp⟩ | ⟨pre, old, post, h0, hon, hpre, hg, hp⟩
    · -- a new member, at the end
      rw [hp, List.pairwise_append]
      refine ⟨?_, List.pairwise_singleton _ _, ?_⟩
      · refine hr.first.imp_of_mem ?_
        intro a b ha hb ⟨c0, hc0, hlt⟩
        have han : a.name ≠ n := by
          intro e
          have := List.find?_eq_none.mp hnone a ha
          simp [e] at this
        have hbn : b.name ≠ n := by
          intro e
          have := List.find?_eq_none.mp hnone b hb
          simp [e] at this
        refine ⟨c0, hc0, fun d hd => ?_⟩
        rw [hother _ han, hother _ hbn]; exact hlt d hd
      · intro a ha b hb
        simp at hb; subst hb
        have han : a.name ≠ n := by
          intro e
          have := List.find?_eq_none.mp hnone a ha
          simp [e] at this
        obtain ⟨c0, hc0⟩ : ∃ c0, c0 ∈ canon a := by
          cases hca : canon a with
          | nil => exact absurd hca (hne a ha)
          | cons y _ => exact ⟨y, by simp⟩
        refine ⟨c0, hc0, fun d hd => ?_⟩
        rw [hother _ han, hn]
        have h1 := hK a ha c0 hc0
        rcases hnew_ge d with h | ⟨h, _, _⟩
        · omega
        · rw [hg] at h; simp [canon, chainOf_fresh, freeOf_fresh] at h
    · -- an existing member, replaced in place
      have hqm : getMember c n ∈ c.members := by rw [hg, h0]; simp
      have hfirst := hr.first
      rw [h0] at hfirst hnames
      rw [hp]
      simp only [List.map_append, List.map_cons] at hnames
      have hpostn : ∀ x ∈ post, x.name ≠ n := by
        intro x hx e
        have h2 := (List.nodup_cons.mp (List.nodup_append.mp hnames).2.1).1
        exact h2 (by rw [hon, ← e]; exact List.mem_map.mpr ⟨x, hx, rfl⟩)
      rw [List.pairwise_append] at hfirst ⊢
      obtain ⟨hf1, hf2, hf3⟩ := hfirst
      rw [List.pairwise_cons] at hf2 ⊢
      refine ⟨?_, ⟨?_, ?_⟩, ?_⟩
      · refine hf1.imp_of_mem ?_
        intro a b ha hb ⟨c0, hc0, hlt⟩
        refine ⟨c0, hc0, fun d hd => ?_⟩
        rw [hother _ (hpre a ha), hother _ (hpre b hb)]; exact hlt d hd
      · -- member n against those after it
        intro b hb
        obtain ⟨c0, hc0, hne0, hlt⟩ := hwit b (by rw [hg]; rw [← hon]; exact hf2.1 b hb) hqm
        refine ⟨c0, hold c0 hc0 hne0, fun d hd => ?_⟩
        rw [hn, hother _ (hpostn b hb)]
        have : bumpRank rk n (canon (getMember c n)) K n c0 = rk n c0 := by
          simp [bumpRank, hne0, hc0]
        rw [this]; exact hlt d hd
      · refine hf2.2.imp_of_mem ?_
        intro a b ha hb ⟨c0, hc0, hlt⟩
        refine ⟨c0, hc0, fun d hd => ?_⟩
        rw [hother _ (hpostn a ha), hother _ (hpostn b hb)]; exact hlt d hd
      · intro a ha b hb
        rcases List.mem_cons.mp hb with rfl | hb
        · -- those before member n
          obtain ⟨c0, hc0, hlt⟩ := hf3 a ha old List.mem_cons_self
          refine ⟨c0, hc0, fun d hd => ?_⟩
          rw [hother _ (hpre a ha), hn]
          have h1 : rk a.name c0 < K := hK a (by rw [h0]; exact List.mem_append_left _ ha) c0 hc0
          rcases hnew_ge d with h | ⟨h, _, h2⟩
          · omega
          · rw [h2]
            have := hlt d (by rw [← hg]; exact h)
            rwa [hon] at this
        · obtain ⟨c0, hc0, hlt⟩ := hf3 a ha b (List.mem_cons_of_mem _ hb)
          refine ⟨c0, hc0, fun d hd => ?_⟩
          rw [hother _ (hpre a ha), hother _ (hpostn b hb)]; exact hlt d hd

/-! ## the audience invariant after a member was stored back -/

theorem uses_chain {x : AClause} {m : Member} (hx : x ∈ chainOf m) :
    ∃ e, exOf x = some e ∧ uses x = compVars e.vars := by
  rcases chain_kinds hx with ⟨e, rfl⟩ | ⟨a, rfl, _⟩ | ⟨md, e, rfl⟩
  · exact ⟨e, rfl, rfl⟩
  · exact ⟨a.ex, rfl, rfl⟩
  · exact ⟨e, rfl, rfl⟩

theorem uses_defined {c : Cfg} (hs : AudStatic c c.members) :
    ∀ m ∈ c.members, ∀ x ∈ canon m, ∀ v ∈ uses x, v ∈ definedVars c := by
  intro m hm x hx v hv
  rcases List.mem_append.mp hx with hx | hx
  · obtain ⟨e, he, hu⟩ := uses_chain hx
    rw [hu] at hv
    have := (hs.exVars m hm x hx e he (.comp v) (mem_compVars.mp hv)).1
    exact (varStatic_iff c (.comp v)).mp this
  · rcases free_kinds hx with ⟨w, hw, rfl⟩ | ⟨rfl, _⟩ | rfl
    · cases w with
      | comp k =>
        simp only [watchClause, uses, List.mem_singleton] at hv
        subst hv
        exact (varStatic_iff c (.comp v)).mp ((hs.obs m hm).2 _ hw)
      | sig a s => simp [watchClause, uses] at hv
    · simp [uses] at hv
    · simp [uses] at hv

theorem audInv_put {c : Cfg} (hinv : AudInv c) {n : String} {q1 : Member} (hn : q1.name = n)
    (h3 : q1.active = none → q1.assigns = [] ∧ q1.expects = none)
    {ex : List Assign} (hass : q1.assigns = (getMember c n).assigns ++ ex)
    (hexok : ∀ a ∈ ex, okAssign a = true ∧ a.var ∉ definedVars c) (hexnd : (ex.map (·.var)).Nodup)
    (hchain : ∀ x ∈ chainOf q1, x ∈ chainOf (getMember c n) ∨
      (∀ e, exOf x = some e → ∀ v ∈ e.vars, VarOk c v ∧ (isSig v = true → v ∈ q1.obs)))
    (hsub : ∀ v ∈ (getMember c n).obs, v ∈ q1.obs)
    (hobs : q1.obs.Nodup ∧ ∀ v ∈ q1.obs, v ∈ (getMember c n).obs ∨ VarOk c v)
    (hold : ∀ x ∈ canon (getMember c n), isExpectsC x = false → x ∈ canon q1)
    (hhead : ∃ newC, chainHead q1 = chainHead (getMember c n) ++ newC ∧ newC.length ≤ 1 ∧
      ∀ x ∈ newC, x ∉ canon (getMember c n) ∧ isExpectsC x = false)
    (huses_new : ∀ x ∈ canon q1, x ∉ canon (getMember c n) → ∀ v ∈ uses x, v ∈ definedVars c)
    (hne1 : canon q1 ≠ []) :
    AudInv (putMember c q1) := by
  obtain ⟨rk, hr⟩ := hinv.ranked
  obtain ⟨K, hK⟩ := exists_bound rk c.members
  refine ⟨audStatic_put hinv.static hn h3 hass hexok hexnd hchain hsub hobs, ?_, ?_⟩
  · intro m hm
    rcases mem_putIn_sub hm with rfl | hm
    · exact hne1
    · exact hinv.nonempty m hm
  · exact ⟨_, ranked_put hr hK hinv.static.names hinv.nonempty hinv.static.m3 hn hold hhead
      (uses_defined hinv.static) huses_new hass (fun a ha => (hexok a ha).2)⟩

/-- the clauses of a member whose observer part only gained variables -/
theorem free_grow {q0 q1 : Member} (hy : q1.ylabel = q0.ylabel) (hp : q1.noplot = q0.noplot)
    (hsub : ∀ v ∈ q0.obs, v ∈ q1.obs) :
    (∀ x ∈ freeOf q0, x ∈ freeOf q1) ∧
    (∀ x ∈ freeOf q1, x ∈ freeOf q0 ∨ ∃ v ∈ q1.obs, v ∉ q0.obs ∧ x = watchClause v) := by
  constructor
  · intro x hx
    simp only [freeOf, hy, hp, List.mem_append, List.mem_map] at hx ⊢
    rcases hx with (⟨v, hv, rfl⟩ | h) | h
    · exact Or.inl (Or.inl ⟨v, hsub v hv, rfl⟩)
    · exact Or.inl (Or.inr h)
    · exact Or.inr h
  · intro x hx
    simp only [freeOf, hy, hp, List.mem_append, List.mem_map] at hx ⊢
    rcases hx with (⟨v, hv, rfl⟩ | h) | h
    · by_cases hv0 : v ∈ q0.obs
      · exact Or.inl (Or.inl (Or.inl ⟨v, hv0, rfl⟩))
      · exact Or.inr ⟨v, hv, hv0, rfl⟩
    · exact Or.inl (Or.inl (Or.inr h))
    · exact Or.inl (Or.inr h)

theorem watch_not_chain {v : Var} {m : Member} : watchClause v ∉ chainOf m := by
  intro h
  rcases chain_kinds h with ⟨e, he⟩ | ⟨a, he, _⟩ | ⟨md, e, he⟩ <;> cases v <;> simp [watchClause] at he

theorem uses_watch_sig {v : Var} (h : isSig v = true) : uses (watchClause v) = [] := by
  cases v with
  | comp k => simp [isSig] at h
  | sig a s => rfl

/-! ## the elementary operations -/

theorem free_not_chainKind {m : Member} {x : AClause} (h : x ∈ freeOf m) :
    (∀ e, x ≠ .audits e) ∧ (∀ a, x ≠ .assign a) ∧ (∀ md e, x ≠ .expects md e) := by
  rcases free_kinds h with ⟨w, _, rfl⟩ | ⟨rfl, _⟩ | rfl
  · cases w <;> simp [watchClause]
  · simp
  · simp

theorem q0_facts {c : Cfg} (hs : AudStatic c c.members) (n : String) :
    (getMember c n).obs.Nodup ∧
    ((getMember c n).active = none → (getMember c n).assigns = [] ∧ (getMember c n).expects = none) ∧
    (∀ a ∈ (getMember c n).assigns, a.var ∈ definedVars c) := by
  rcases getMember_cases c n with hq | ⟨hq, _⟩
  · refine ⟨(hs.obs _ hq).1, hs.m3 _ hq, fun a ha => ?_⟩
    apply mem_definedVars.mpr; right
    simp only [targetsOf, List.mem_flatMap, List.mem_map]
    exact ⟨_, hq, a, ha, rfl⟩
  · rw [hq]; exact ⟨List.nodup_nil, fun _ => ⟨rfl, rfl⟩, fun a ha => by cases ha⟩

theorem addSigs_facts (c : Cfg) (obs : List Var) (vars : List Var) (hv : ∀ v ∈ vars, VarOk c v)
    (hnd : obs.Nodup) :
    (∀ v ∈ obs, v ∈ addSigs obs vars) ∧ (addSigs obs vars).Nodup ∧
    (∀ v ∈ addSigs obs vars, v ∈ obs ∨ VarOk c v) ∧
    (∀ v ∈ vars, isSig v = true → v ∈ addSigs obs vars) ∧
    (∀ v ∈ addSigs obs vars, v ∉ obs → isSig v = true) := by
  refine ⟨fun v h => (mem_addSigs vars obs).mpr (Or.inl h), nodup_addSigs vars obs hnd, ?_, ?_, ?_⟩
  · intro v h
    rcases (mem_addSigs vars obs).mp h with h | ⟨h, _⟩
    · exact Or.inl h
    · exact Or.inr (hv v h)
  · intro v h hs
    exact (mem_addSigs vars obs).mpr (Or.inr ⟨h, hs⟩)
  · intro v h hn
    rcases (mem_addSigs vars obs).mp h with h | ⟨_, h⟩
    · exact absurd h hn
    · exact h

theorem pAudits_inv {c c' : Cfg} {n : String} {e : Ex} (h : pAudits c n e = some c') :
    (getMember c n).active = none ∧ (∀ v ∈ e.vars, VarOk c v) ∧
    c' = putMember c { (getMember c n) with obs := addSigs (getMember c n).obs e.vars, active := some e } := by
  simp only [pAudits] at h
  cases ha : (getMember c n).active with
  | some x => simp [ha] at h
  | none =>
    simp only [ha] at h
    cases hc : checkEx c (getMember c n) e with
    | none => simp [hc] at h
    | some m =>
      simp only [hc] at h
      obtain ⟨h1, h2⟩ := checkVars_some c e.vars _ _ hc
      injection h with h
      exact ⟨rfl, h1, by rw [← h, h2]⟩

theorem comp_defined {c : Cfg} {vars : List Var} (hv : ∀ v ∈ vars, VarOk c v) :
    ∀ v ∈ compVars vars, v ∈ definedVars c := by
  intro v h
  exact hv (.comp v) (mem_compVars.mp h)

theorem audInv_pAudits {c c' : Cfg} {n : String} {e : Ex} (hinv : AudInv c)
    (h : pAudits c n e = some c') : AudInv c' := by
  obtain ⟨ha, hv, rfl⟩ := pAudits_inv h
  obtain ⟨hnd, hm3, _⟩ := q0_facts hinv.static n
  obtain ⟨hass0, hexp0⟩ := hm3 ha
  obtain ⟨f1, f2, f3, f4, f5⟩ := addSigs_facts c (getMember c n).obs e.vars hv hnd
  have hchain0 : chainOf (getMember c n) = [] := by simp [chainOf, ha, hass0, hexp0]
  have hfg := free_grow (q0 := getMember c n)
    (q1 := { (getMember c n) with obs := addSigs (getMember c n).obs e.vars, active := some e }) rfl rfl f1
  refine audInv_put hinv (getMember_name c n) (fun h => by cases h) (ex := []) (by simp) (by simp) (by simp)
    ?_ f1 ⟨f2, f3⟩ ?_ ⟨[.audits e], ?_, by simp, ?_⟩ ?_ ?_
  · intro x hx
    simp only [chainOf, hass0, hexp0, List.map_nil, List.append_nil, List.mem_singleton] at hx
    subst hx
    right
    intro e' he' v hv'
    injection he' with he'; subst he'
    exact ⟨hv v hv', f4 v hv'⟩
  · intro x hx _
    simp only [canon, hchain0, List.nil_append] at hx
    exact List.mem_append_right _ (hfg.1 x hx)
  · simp [chainHead, ha, hass0]
  · intro x hx
    simp at hx; subst hx
    refine ⟨?_, rfl⟩
    simp only [canon, hchain0, List.nil_append]
    intro hf
    exact (free_not_chainKind hf).1 e rfl
  · intro x hx hnot v hvu
    rcases List.mem_append.mp hx with hx | hx
    · simp only [chainOf, hass0, hexp0, List.map_nil, List.append_nil, List.mem_singleton] at hx
      subst hx
      exact comp_defined hv v hvu
    · rcases hfg.2 x hx with hx0 | ⟨w, hw, hwn, rfl⟩
      · exact absurd (List.mem_append_right _ hx0) hnot
      · rw [uses_watch_sig (f5 w hw hwn)] at hvu; cases hvu
  · simp [canon, chainOf]

theorem pAssign_inv {c c' : Cfg} {n : String} {a : Assign} (h : pAssign c n a = some c') :
    okAssign a = true ∧ (∀ v ∈ a.ex.vars, VarOk c v) ∧ a.var ∉ definedVars c ∧
    c' = putMember c { (getMember c n) with obs := addSigs (getMember c n).obs a.ex.vars,
                                            assigns := (getMember c n).assigns ++ [a] } := by
  simp only [pAssign] at h
  split at h
  · cases h
  · rename_i hok
    cases hc : checkEx c (getMember c n) a.ex with
    | none => simp [hc] at h
    | some m =>
      simp only [hc] at h
      split at h
      · cases h
      · rename_i hnew
        obtain ⟨h1, h2⟩ := checkVars_some c a.ex.vars _ _ hc
        injection h with h
        exact ⟨by simpa using hok, h1, by simpa using hnew, by rw [← h, h2]⟩

theorem chainOf_mem_of_assign {m : Member} {a : Assign} (h : a ∈ m.assigns) : AClause.assign a ∈ chainOf m := by
  simp only [chainOf, List.mem_append, List.mem_map]
  exact Or.inl (Or.inr ⟨a, h, rfl⟩)

theorem audInv_pAssign {c c' : Cfg} {n : String} {a : Assign} (hinv : AudInv c)
    (hact : (getMember c n).active.isSome = true) (h : pAssign c n a = some c') : AudInv c' := by
  obtain ⟨hok, hv, hnew, rfl⟩ := pAssign_inv h
  obtain ⟨hnd, hm3, hdefd⟩ := q0_facts hinv.static n
  obtain ⟨f1, f2, f3, f4, f5⟩ := addSigs_facts c (getMember c n).obs a.ex.vars hv hnd
  have hfg := free_grow (q0 := getMember c n)
    (q1 := { (getMember c n) with obs := addSigs (getMember c n).obs a.ex.vars,
                                  assigns := (getMember c n).assigns ++ [a] }) rfl rfl f1
  have hnotin : AClause.assign a ∉ canon (getMember c n) := by
    intro hin
    rcases List.mem_append.mp hin with hin | hin
    · exact hnew (hdefd a (assign_mem_chainOf hin))
    · exact (free_not_chainKind hin).2.1 a rfl
  obtain ⟨e0, he0⟩ : ∃ e0, (getMember c n).active = some e0 := by
    cases hx : (getMember c n).active with
    | none => rw [hx] at hact; cases hact
    | some e0 => exact ⟨e0, rfl⟩
  refine audInv_put hinv (getMember_name c n) (fun h => by simp [he0] at h) (ex := [a]) rfl
    (fun x hx => by simp at hx; subst hx; exact ⟨hok, hnew⟩) (by simp) ?_ f1 ⟨f2, f3⟩ ?_
    ⟨[.assign a], ?_, by simp, ?_⟩ ?_ ?_
  · intro x hx
    simp only [chainOf, List.map_append, List.map_cons, List.map_nil, List.mem_append, List.mem_cons,
      List.mem_map, List.not_mem_nil, or_false] at hx ⊢
    rcases hx with (hx | hx | hx) | hx
    · exact Or.inl (Or.inl (Or.inl hx))
    · exact Or.inl (Or.inl (Or.inr hx))
    · subst hx
      right
      intro e' he' v hv'
      injection he' with he'; subst he'
      exact ⟨hv v hv', f4 v hv'⟩
    · exact Or.inl (Or.inr hx)
  · intro x hx _
    rcases List.mem_append.mp hx with hx | hx
    · refine List.mem_append_left _ ?_
      simp only [chainOf, List.map_append, List.mem_append] at hx ⊢
      rcases hx with (hx | hx) | hx
      · exact Or.inl (Or.inl hx)
      · exact Or.inl (Or.inr (Or.inl hx))
      · exact Or.inr hx
    · exact List.mem_append_right _ (hfg.1 x hx)
  · simp [chainHead]
  · intro x hx
    simp at hx; subst hx
    exact ⟨hnotin, rfl⟩
  · intro x hx hnot v hvu
    rcases List.mem_append.mp hx with hx | hx
    · simp only [chainOf, List.map_append, List.map_cons, List.map_nil, List.mem_append, List.mem_cons,
        List.not_mem_nil, or_false] at hx
      rcases hx with (hx | hx | hx) | hx
      · exact absurd (List.mem_append_left _ (by simp only [chainOf, List.mem_append]; exact Or.inl (Or.inl hx))) hnot
      · exact absurd (List.mem_append_left _ (by simp only [chainOf, List.mem_append]; exact Or.inl (Or.inr hx))) hnot
      · subst hx; exact comp_defined hv v hvu
      · exact absurd (List.mem_append_left _ (by simp only [chainOf, List.mem_append]; exact Or.inr hx)) hnot
    · rcases hfg.2 x hx with hx0 | ⟨w, hw, hwn, rfl⟩
      · exact absurd (List.mem_append_right _ hx0) hnot
      · rw [uses_watch_sig (f5 w hw hwn)] at hvu; cases hvu
  · simp [canon, chainOf]

theorem pExpects_inv {c c' : Cfg} {n md : String} {e : Ex} (h : pExpects c n md e = some c') :
    (getMember c n).expects = none ∧ (∀ v ∈ e.vars, VarOk c v) ∧
    c' = putMember c { (getMember c n) with obs := addSigs (getMember c n).obs e.vars,
                                            expects := some (md, e) } := by
  simp only [pExpects] at h
  cases ha : (getMember c n).expects with
  | some x => simp [ha] at h
  | none =>
    simp only [ha] at h
    cases hc : checkEx c (getMember c n) e with
    | none => simp [hc] at h
    | some m =>
      simp only [hc] at h
      obtain ⟨h1, h2⟩ := checkVars_some c e.vars _ _ hc
      injection h with h
      exact ⟨rfl, h1, by rw [← h, h2]⟩

theorem audInv_pExpects {c c' : Cfg} {n md : String} {e : Ex} (hinv : AudInv c)
    (hact : (getMember c n).active.isSome = true) (h : pExpects c n md e = some c') : AudInv c' := by
  obtain ⟨hexp0, hv, rfl⟩ := pExpects_inv h
  obtain ⟨hnd, hm3, hdefd⟩ := q0_facts hinv.static n
  obtain ⟨f1, f2, f3, f4, f5⟩ := addSigs_facts c (getMember c n).obs e.vars hv hnd
  have hfg := free_grow (q0 := getMember c n)
    (q1 := { (getMember c n) with obs := addSigs (getMember c n).obs e.vars, expects := some (md, e) }) rfl rfl f1
  obtain ⟨e0, he0⟩ : ∃ e0, (getMember c n).active = some e0 := by
    cases hx : (getMember c n).active with
    | none => rw [hx] at hact; cases hact
    | some e0 => exact ⟨e0, rfl⟩
  have hnotin : AClause.expects md e ∉ canon (getMember c n) := by
    intro hin
    rcases List.mem_append.mp hin with hin | hin
    · simp only [chainOf, hexp0, List.append_nil, List.mem_append, List.mem_map] at hin
      rcases hin with hin | ⟨a, _, ha⟩
      · simp [he0] at hin
      · cases ha
    · exact (free_not_chainKind hin).2.2 md e rfl
  refine audInv_put hinv (getMember_name c n) (fun h => by simp [he0] at h) (ex := []) (by simp)
    (by simp) (by simp) ?_ f1 ⟨f2, f3⟩ ?_ ⟨[], by simp [chainHead], by simp, by simp⟩ ?_ ?_
  · intro x hx
    simp only [chainOf, hexp0, List.append_nil, List.mem_append, List.mem_singleton] at hx ⊢
    rcases hx with hx | hx
    · exact Or.inl hx
    · subst hx
      right
      intro e' he' v hv'
      injection he' with he'; subst he'
      exact ⟨hv v hv', f4 v hv'⟩
  · intro x hx _
    rcases List.mem_append.mp hx with hx | hx
    · refine List.mem_append_left _ ?_
      simp only [chainOf, hexp0, List.append_nil, List.mem_append] at hx ⊢
      exact Or.inl hx
    · exact List.mem_append_right _ (hfg.1 x hx)
  · intro x hx hnot v hvu
    rcases List.mem_append.mp hx with hx | hx
    · simp only [chainOf, List.mem_append, List.mem_singleton] at hx
      rcases hx with hx | hx
      · exfalso; apply hnot
        refine List.mem_append_left _ ?_
        simp only [chainOf, hexp0, List.append_nil, List.mem_append]
        exact hx
      · subst hx; exact comp_defined hv v hvu
    · rcases hfg.2 x hx with hx0 | ⟨w, hw, hwn, rfl⟩
      · exact absurd (List.mem_append_right _ hx0) hnot
      · rw [uses_watch_sig (f5 w hw hwn)] at hvu; cases hvu
  · simp [canon, chainOf]

/-- `watches`: one more observed variable -/
theorem audInv_addObs {c : Cfg} {n : String} {v : Var} (hinv : AudInv c) (hv : VarOk c v)
    (hu : ∀ k ∈ uses (watchClause v), k ∈ definedVars c) :
    AudInv (putMember c (addObs (getMember c n) v)) := by
  obtain ⟨hnd, hm3, hdefd⟩ := q0_facts hinv.static n
  have hch : chainOf (addObs (getMember c n) v) = chainOf (getMember c n) := by
    simp only [chainOf, addObs_active, addObs_assigns, addObs_expects]
  have hchh : chainHead (addObs (getMember c n) v) = chainHead (getMember c n) := by
    simp only [chainHead, addObs_active, addObs_assigns]
  have f1 : ∀ w ∈ (getMember c n).obs, w ∈ (addObs (getMember c n) v).obs := fun w hw => mem_addObs.mpr (Or.inl hw)
  have hfg := free_grow (q0 := getMember c n) (q1 := addObs (getMember c n) v)
    (addObs_ylabel _ _) (addObs_noplot _ _) f1
  refine audInv_put hinv (by rw [addObs_name]; exact getMember_name c n)
    (by rw [addObs_active, addObs_assigns, addObs_expects]; exact hm3) (ex := [])
    (by rw [addObs_assigns]; simp) (by simp) (by simp) ?_ f1 ⟨nodup_addObs v hnd, ?_⟩ ?_
    ⟨[], by rw [hchh]; simp, by simp, by simp⟩ ?_ ?_
  · intro x hx; rw [hch] at hx; exact Or.inl hx
  · intro w hw
    rcases mem_addObs.mp hw with h | rfl
    · exact Or.inl h
    · exact Or.inr hv
  · intro x hx _
    rcases List.mem_append.mp hx with hx | hx
    · exact List.mem_append_left _ (by rw [hch]; exact hx)
    · exact List.mem_append_right _ (hfg.1 x hx)
  · intro x hx hnot k hk
    rcases List.mem_append.mp hx with hx | hx
    · rw [hch] at hx; exact absurd (List.mem_append_left _ hx) hnot
    · rcases hfg.2 x hx with hx0 | ⟨w, hw, hwn, rfl⟩
      · exact absurd (List.mem_append_right _ hx0) hnot
      · rcases mem_addObs.mp hw with h | rfl
        · exact absurd h hwn
        · exact hu k hk
  · intro he
    have : watchClause v ∈ canon (addObs (getMember c n) v) := by
      refine List.mem_append_right _ ?_
      simp only [freeOf, List.mem_append, List.mem_map]
      exact Or.inl (Or.inl ⟨v, mem_addObs.mpr (Or.inr rfl), rfl⟩)
    rw [he] at this; cases this

theorem audInv_pWatchActor {c c' : Cfg} {n a s : String} (hinv : AudInv c)
    (h : pWatchActor c n a s = some c') : AudInv c' := by
  simp only [pWatchActor] at h
  cases h1 : findActor c a with
  | none => simp [h1] at h
  | some act =>
    simp only [h1] at h
    cases h2 : findRole c act.role with
    | none => simp [h2] at h
    | some r =>
      simp only [h2] at h
      split at h
      · rename_i h3
        injection h with h; subst h
        exact audInv_addObs hinv (v := .sig a s) ⟨act, r, h1, h2, h3⟩ (by simp [watchClause, uses])
      · cases h

theorem audInv_pWatchVar {c c' : Cfg} {n v : String} (hinv : AudInv c)
    (h : pWatchVar c n v = some c') : AudInv c' := by
  simp only [pWatchVar] at h
  split at h
  · rename_i hd
    injection h with h; subst h
    have hd' : v ∈ definedVars c := by simpa using hd
    exact audInv_addObs hinv (v := .comp v) hd' (by simp [watchClause, uses]; exact hd')
  · cases h

theorem audInv_pHelps {c : Cfg} {n : String} (hinv : AudInv c) :
    AudInv (putMember c { (getMember c n) with noplot := true }) := by
  obtain ⟨hnd, hm3, hdefd⟩ := q0_facts hinv.static n
  refine audInv_put hinv (getMember_name c n) hm3 (ex := []) (by simp) (by simp) (by simp)
    (fun x hx => Or.inl hx) (fun v hv => hv) ⟨hnd, fun v hv => Or.inl hv⟩ ?_
    ⟨[], by simp [chainHead], by simp, by simp⟩ ?_ ?_
  · intro x hx _
    rcases List.mem_append.mp hx with hx | hx
    · exact List.mem_append_left _ hx
    · refine List.mem_append_right _ ?_
      simp only [freeOf, List.mem_append, List.mem_map] at hx ⊢
      rcases hx with (hx | hx) | hx
      · exact Or.inl (Or.inl hx)
      · exact Or.inl (Or.inr hx)
      · right
        split at hx
        · simpa using hx
        · cases hx
  · intro x hx hnot k hk
    rcases List.mem_append.mp hx with hx | hx
    · exact absurd (List.mem_append_left _ hx) hnot
    · simp only [freeOf, List.mem_append, List.mem_map] at hx
      rcases hx with (hx | hx) | hx
      · exfalso; apply hnot; refine List.mem_append_right _ ?_
        simp only [freeOf, List.mem_append, List.mem_map]; exact Or.inl (Or.inl hx)
      · exfalso; apply hnot; refine List.mem_append_right _ ?_
        simp only [freeOf, List.mem_append, List.mem_map]; exact Or.inl (Or.inr hx)
      · simp at hx; subst hx; simp [uses] at hk
  · simp [canon, freeOf]

/-! ### `measures`: the label is replaced, its clause keeps its place -/

theorem chain_not_measures {m : Member} {a : AClause} (h : a ∈ chainOf m) : ∀ l', a ≠ .measures l' := by
  intro l' e
  subst e
  rcases chain_kinds h with ⟨_, h⟩ | ⟨_, h, _⟩ | ⟨_, _, h⟩ <;> cases h

def measRank (rk : String → AClause → Nat) (n l y0 : String) (K : Nat) : String → AClause → Nat :=
  fun n' x => if n' = n ∧ x = .measures l then (if y0 = "" then K else rk n (.measures y0)) else rk n' x

theorem canon_measures {q0 : Member} {l : String} (hl : l ≠ "") :
    (∀ x ∈ canon { q0 with ylabel := l }, x = .measures l ∨ (x ∈ canon q0 ∧ ∀ l', x ≠ .measures l')) ∧
    (∀ x ∈ canon q0, (x = .measures q0.ylabel ∧ q0.ylabel ≠ "") ∨ (x ∈ canon { q0 with ylabel := l } ∧ ∀ l', x ≠ .measures l')) ∧
    AClause.measures l ∈ canon { q0 with ylabel := l } := by
  refine ⟨?_, ?_, ?_⟩
  · intro x hx
    simp only [canon, chainOf, freeOf, hl, if_false, List.mem_append, List.mem_map, List.mem_singleton] at hx ⊢
    rcases hx with hx | (hx | hx) | hx
    · right
      refine ⟨Or.inl hx, fun l' e => ?_⟩
      subst e
      rcases hx with (hx | ⟨a, _, ha⟩) | hx
      · cases hm : q0.active <;> simp [hm] at hx
      · cases ha
      · cases hm : q0.expects with
        | none => simp [hm] at hx
        | some y => obtain ⟨md, e⟩ := y; simp [hm] at hx
    · right
      obtain ⟨w, hw, rfl⟩ := hx
      exact ⟨Or.inr (Or.inl (Or.inl ⟨w, hw, rfl⟩)), fun l' => watchClause_ne_measures w l'⟩
    · exact Or.inl hx
    · right
      refine ⟨Or.inr (Or.inr hx), fun l' e => ?_⟩
      subst e
      split at hx <;> simp at hx
  · intro x hx
    simp only [canon, chainOf, freeOf, hl, if_false, List.mem_append, List.mem_map, List.mem_singleton] at hx ⊢
    rcases hx with hx | (hx | hx) | hx
    · right
      refine ⟨Or.inl hx, fun l' e => ?_⟩
      subst e
      rcases hx with (hx | ⟨a, _, ha⟩) | hx
      · cases hm : q0.active <;> simp [hm] at hx
      · cases ha
      · cases hm : q0.expects with
        | none => simp [hm] at hx
        | some y => obtain ⟨md, e⟩ := y; simp [hm] at hx
    · right
      obtain ⟨w, hw, rfl⟩ := hx
      exact ⟨Or.inr (Or.inl (Or.inl ⟨w, hw, rfl⟩)), fun l' => watchClause_ne_measures w l'⟩
    · left
      split at hx
      · cases hx
      · rename_i hy; simp at hx; exact ⟨hx, hy⟩
    · right
      refine ⟨Or.inr (Or.inr hx), fun l' e => ?_⟩
      subst e
      split at hx <;> simp at hx
  · simp [canon, freeOf, hl]

theorem ranked_measures {c : Cfg} {rk : String → AClause → Nat} {K : Nat} {n l : String}
    (hr : Ranked c.members rk) (hK : ∀ m ∈ c.members, ∀ x ∈ canon m, rk m.name x < K)
    (hnames : (c.members.map (·.name)).Nodup) (hne : ∀ m ∈ c.members, canon m ≠ []) (hl : l ≠ "") :
    Ranked (putMember c { (getMember c n) with ylabel := l }).members
      (measRank rk n l (getMember c n).ylabel K) := by
  have hq0n : (getMember c n).name = n := getMember_name c n
  have hq1n : ({ (getMember c n) with ylabel := l } : Member).name = n := hq0n
  have hq0 := getMember_cases c n
  obtain ⟨hc1, hc2, hc3⟩ := canon_measures (q0 := getMember c n) hl
  have hmem := fun x hx => mem_put_nodup (q1 := { (getMember c n) with ylabel := l }) hnames hq1n (x := x) hx
  have hother : ∀ {n' : String} (x : AClause), n' ≠ n → measRank rk n l (getMember c n).ylabel K n' x = rk n' x := by
    intro n' x h; simp [measRank, h]
  have hsame : ∀ (x : AClause), (∀ l', x ≠ .measures l') → ∀ n', measRank rk n l (getMember c n).ylabel K n' x = rk n' x := by
    intro x h n'; simp [measRank, h l]
  -- the rank of the new clause
  have hmr : measRank rk n l (getMember c n).ylabel K n (.measures l) =
      if (getMember c n).ylabel = "" then K else rk n (.measures (getMember c n).ylabel) := by
    simp [measRank]
  -- chains are untouched
  have hch : chainOf ({ (getMember c n) with ylabel := l } : Member) = chainOf (getMember c n) := rfl
  have hass : ({ (getMember c n) with ylabel := l } : Member).assigns = (getMember c n).assigns := rfl
  -- an old clause of q0 that is not a measures clause is in c.members
  have hq0in : ∀ x ∈ canon (getMember c n), getMember c n ∈ c.members := by
    intro x hx
    rcases hq0 with hq | ⟨hq, _⟩
    · exact hq
    · rw [hq] at hx; simp [canon, chainOf_fresh, freeOf_fresh] at hx
  refine ⟨?_, ?_, ?_⟩
  · intro m hm x hx v hv m' hm' a ha hav
    rw [hsame (.assign a) (by intro l' e; cases e)]
    -- the defining member as an old one
    have hm'old : ∃ mo ∈ c.members, mo.name = m'.name ∧ a ∈ mo.assigns := by
      rcases hmem m' hm' with rfl | ⟨h, _⟩
      · rw [hass] at ha
        rcases hq0 with hq | ⟨hq, _⟩
        · exact ⟨_, hq, rfl, ha⟩
        · rw [hq] at ha; cases ha
      · exact ⟨m', h, rfl, ha⟩
    obtain ⟨mo, hmo, hmon, hao⟩ := hm'old
    rw [← hmon]
    rcases hmem m hm with rfl | ⟨h, h2⟩
    · rcases hc1 x hx with rfl | ⟨hx0, hnm⟩
      · simp [uses] at hv
      · rw [hsame x hnm]
        have := hr.uses _ (hq0in x hx0) x hx0 v hv mo hmo a hao hav
        exact this
    · rw [hother _ h2]
      exact hr.uses m h x hx v hv mo hmo a hao hav
  · intro m hm
    rcases hmem m hm with rfl | ⟨h, h2⟩
    · rw [hch]
      rcases hq0 with hq | ⟨hq, _⟩
      · refine (hr.chain _ hq).imp_of_mem ?_
        intro a b ha hb hab
        have hna : ∀ l', a ≠ .measures l' := chain_not_measures ha
        have hnb : ∀ l', b ≠ .measures l' := chain_not_measures hb
        rw [hsame a hna, hsame b hnb]; exact hab
      · rw [hq]; simp [chainOf]
    · refine (hr.chain m h).imp ?_
      intro a b hab
      rw [hother _ h2, hother _ h2]; exact hab
  · rcases put_cases c n _ hq1n with ⟨hnone, hg, hp⟩ | ⟨pre, old, post, h0, hon, hpre, hg, hp⟩
    · rw [hp, List.pairwise_append]
      refine ⟨?_, List.pairwise_singleton _ _, ?_⟩
      · refine hr.first.imp_of_mem ?_
        intro a b ha hb ⟨c0, hc0, hlt⟩
        have han : a.name ≠ n := by
          intro e; have := List.find?_eq_none.mp hnone a ha; simp [e] at this
        have hbn : b.name ≠ n := by
          intro e; have := List.find?_eq_none.mp hnone b hb; simp [e] at this
        refine ⟨c0, hc0, fun d hd => ?_⟩
        rw [hother _ han, hother _ hbn]; exact hlt d hd
      · intro a ha b hb
        simp at hb; subst hb
        have han : a.name ≠ n := by
          intro e; have := List.find?_eq_none.mp hnone a ha; simp [e] at this
        obtain ⟨c0, hc0⟩ : ∃ c0, c0 ∈ canon a := by
          cases hca : canon a with
          | nil => exact absurd hca (hne a ha)
          | cons y _ => exact ⟨y, by simp⟩
        refine ⟨c0, hc0, fun d hd => ?_⟩
        rw [hother _ han]
        have h1 := hK a ha c0 hc0
        rcases hc1 d hd with rfl | ⟨hd0, _⟩
        · simp only [hq1n, hq0n]
          rw [hmr, hg]; simp; exact h1
        · rw [hg] at hd0; simp [canon, chainOf_fresh, freeOf_fresh] at hd0
    · have hqm : getMember c n ∈ c.members := by rw [hg, h0]; simp
      have hfirst := hr.first
      rw [h0] at hfirst hnames
      rw [hp]
      simp only [List.map_append, List.map_cons] at hnames
      have hpostn : ∀ x ∈ post, x.name ≠ n := by
        intro x hx e
        have h2 := (List.nodup_cons.mp (List.nodup_append.mp hnames).2.1).1
        exact h2 (by rw [hon, ← e]; exact List.mem_map.mpr ⟨x, hx, rfl⟩)
      rw [List.pairwise_append] at hfirst ⊢
      obtain ⟨hf1, hf2, hf3⟩ := hfirst
      rw [List.pairwise_cons] at hf2 ⊢
      refine ⟨?_, ⟨?_, ?_⟩, ?_⟩
      · refine hf1.imp_of_mem ?_
        intro a b ha hb ⟨c0, hc0, hlt⟩
        refine ⟨c0, hc0, fun d hd => ?_⟩
        rw [hother _ (hpre a ha), hother _ (hpre b hb)]; exact hlt d hd
      · intro b hb
        obtain ⟨c0, hc0, hlt⟩ := hf2.1 b hb
        rw [← hg] at hc0
        rcases hc2 c0 hc0 with ⟨rfl, hy⟩ | ⟨hc0', hnm⟩
        · refine ⟨.measures l, hc3, fun d hd => ?_⟩
          simp only [hq1n, hq0n]
          rw [hmr, hother _ (hpostn b hb)]
          simp only [hy, if_false]
          have := hlt d hd
          rwa [hon] at this
        · refine ⟨c0, hc0', fun d hd => ?_⟩
          simp only [hq1n, hq0n]
          rw [hsame c0 hnm, hother _ (hpostn b hb)]
          have := hlt d hd
          rwa [hon] at this
      · refine hf2.2.imp_of_mem ?_
        intro a b ha hb ⟨c0, hc0, hlt⟩
        refine ⟨c0, hc0, fun d hd => ?_⟩
        rw [hother _ (hpostn a ha), hother _ (hpostn b hb)]; exact hlt d hd
      · intro a ha b hb
        rcases List.mem_cons.mp hb with rfl | hb
        · obtain ⟨c0, hc0, hlt⟩ := hf3 a ha old List.mem_cons_self
          refine ⟨c0, hc0, fun d hd => ?_⟩
          rw [hother _ (hpre a ha)]
          simp only [hq1n, hq0n]
          have h1 : rk a.name c0 < K := hK a (by rw [h0]; exact List.mem_append_left _ ha) c0 hc0
          rcases hc1 d hd with rfl | ⟨hd0, hnm⟩
          · rw [hmr]
            by_cases hy : (getMember c n).ylabel = ""
            · simp [hy]; exact h1
            · simp only [hy, if_false]
              have : AClause.measures (getMember c n).ylabel ∈ canon (getMember c n) := by
                simp [canon, freeOf, hy]
              have := hlt _ (by rw [← hg]; exact this)
              rwa [hon] at this
          · rw [hsame d hnm]
            have := hlt d (by rw [← hg]; exact hd0)
            rwa [hon] at this
        · obtain ⟨c0, hc0, hlt⟩ := hf3 a ha b (List.mem_cons_of_mem _ hb)
          refine ⟨c0, hc0, fun d hd => ?_⟩
          rw [hother _ (hpre a ha), hother _ (hpostn b hb)]; exact hlt d hd

theorem audInv_pMeasures {c c' : Cfg} {n l : String} (hinv : AudInv c) (h : pMeasures c n l = some c') :
    AudInv c' := by
  simp only [pMeasures] at h
  split at h
  · cases h
  · rename_i hl
    injection h with h; subst h
    obtain ⟨hnd, hm3, hdefd⟩ := q0_facts hinv.static n
    obtain ⟨rk, hr⟩ := hinv.ranked
    obtain ⟨K, hK⟩ := exists_bound rk c.members
    refine ⟨audStatic_put hinv.static (getMember_name c n) hm3 (ex := []) (by simp) (by simp) (by simp)
      (fun x hx => Or.inl hx) (fun v hv => hv) ⟨hnd, fun v hv => Or.inl hv⟩, ?_, ?_⟩
    · intro m hm
      rcases mem_putIn_sub hm with rfl | hm
      · simp [canon, freeOf, hl]
      · exact hinv.nonempty m hm
    · exact ⟨_, ranked_measures hr hK hinv.static.names hinv.nonempty hl⟩

end Shk.Printer
