import ShkModel.Lemmas.StopperClosers
/-! Every entry is about a call of the kind it says; workers are awaited; phase markers. -/
namespace Shk.Stopper

/-- entries (other than markers) carry the kind code of the call they are about -/
def EvKindInv (s : St) : Prop := ∀ e ∈ s.log, e.k ≠ .mark → ∃ t, s.threads[e.id]? = some t ∧ t.kind.code = e.c

theorem evkind_reach {cap : Nat} {s : St} (h : Reach cap s) : EvKindInv s := by
  induction h with
  | init => intro e he; cases he
  | spawn s k _ ih =>
    intro e he hm
    simp only [spawn] at he ⊢
    rcases List.mem_append.mp he with he | he
    · obtain ⟨t, h1, h2⟩ := ih e he hm
      exact ⟨t, by rw [List.getElem?_append_left (lt_length_of_getElem? h1)]; exact h1, h2⟩
    · simp at he; subst he
      exact ⟨{ kind := k }, by simp [St.ev], rfl⟩
  | step s s' i a hr hs ih =>
    have li := lists_reach hr
    obtain ⟨t, es, ht, hl, hsrc⟩ := evsSrc_step hs
    obtain ⟨t0, ht0, sm⟩ := listSum_step hs
    rw [ht] at ht0; cases ht0
    obtain ⟨t', hthr, hk, _⟩ := sm.thr
    have look : ∀ (c : Nat) (tc : Thread), s.threads[c]? = some tc → ∃ tc', s'.threads[c]? = some tc' ∧ tc'.kind = tc.kind := by
      intro c tc hc
      obtain ⟨tc', g1, g2, _⟩ := getElem?_set_kind (t' := t') ht hk hc
      exact ⟨tc', by rw [hthr]; exact g1, g2⟩
    intro e he hm
    rw [hl] at he
    rcases List.mem_append.mp he with he | he
    · obtain ⟨tc, h1, h2⟩ := ih e he hm
      obtain ⟨tc', g1, g2⟩ := look _ _ h1
      exact ⟨tc', g1, g2 ▸ h2⟩
    · rcases hsrc e he with ⟨h, hc⟩ | ⟨_, hc, h⟩ | ⟨_, hc, h⟩ | ⟨_, hc, h⟩
      · rcases hc with hc | hc
        · exact absurd hc hm
        · obtain ⟨tc', g1, g2⟩ := look _ _ ht
          exact ⟨tc', h ▸ g1, by rw [g2, hc]⟩
      · obtain ⟨tc, h1, h2, _⟩ := li.closers_thr _ h
        obtain ⟨tc', g1, g2⟩ := look _ _ h1
        exact ⟨tc', g1, by rw [g2, h2, hc]; rfl⟩
      · obtain ⟨tc, h1, h2⟩ := li.q_thr _ h
        obtain ⟨tc', g1, g2⟩ := look _ _ h1
        exact ⟨tc', g1, by rw [g2, h2, hc]; rfl⟩
      · obtain ⟨tc, h1, h2⟩ := li.s_thr _ h
        obtain ⟨tc', g1, g2⟩ := look _ _ h1
        exact ⟨tc', g1, by rw [g2, h2, hc]; rfl⟩

/-- once the effective Stop is past `stop.Wait()`, every worker whose RunWorker was seen to return while the
stop channel was open has returned -/
def WorkersInv (s : St) : Prop :=
  5 ≤ s.sp.rank → ∀ p ∈ s.log, p.k = .ret → p.c = 4 → p.s = false → has s.log .wEnd p.id = true

theorem countP_zero_not {α} {p : α → Bool} {l : List α} (h : l.countP p = 0) {a : α} (ha : a ∈ l) : p a = false := by
  have := List.countP_eq_zero.mp h a ha
  simpa using this

theorem workers_reach {cap : Nat} {s : St} (h : Reach cap s) : WorkersInv s := by
  induction h with
  | init => intro h5; simp [init] at h5
  | spawn s k hr ih =>
    intro h5 p hp hk hc hs
    have p5 : 5 ≤ s.sp.rank := h5
    have hsc : s.sClosed = true := by rw [(ph_reach hr).sclosed]; simp; omega
    simp only [spawn] at hp ⊢
    rcases List.mem_append.mp hp with hp | hp
    · rw [has_append, ih p5 p hp hk hc hs]; rfl
    · simp at hp; subst hp; simp [St.ev] at hk
  | step s s' i a hr hs ih =>
    have ph := ph_reach hr
    have m := mono_step hs ph
    obtain ⟨es, hl, hnews⟩ := m.news
    intro h5 p hp hk hc hps
    rw [hl] at hp ⊢
    by_cases p5 : 5 ≤ s.sp.rank
    · have hsc : s.sClosed = true := by rw [ph.sclosed]; simp; omega
      rcases List.mem_append.mp hp with hp | hp
      · rw [has_append, ih p5 p hp hk hc hps]; rfl
      · have := hnews p hp hsc
        rw [hps] at this; cases this
    · have hwg := m.wgate (by omega) h5
      rcases List.mem_append.mp hp with hp | hp
      · -- an old entry: its worker has called Done
        obtain ⟨t, ht, htk⟩ := evkind_reach hr p hp (by rw [hk]; decide)
        have ti := threads_reach hr p.id t ht
        have hkind : t.kind = .worker := code_inj (by rw [htk, hc]; rfl)
        have hret : t.ret = true := by rw [← ti.ret, ← hk]; exact has_of_mem hp
        have hnw : inWg t = false := by
          have := (cnt_reach hr).wg
          rw [hwg] at this
          exact countP_zero_not this.symm (List.mem_of_getElem? ht)
        have hable := ti.retable hret
        have hwd : wDone t = true := by
          obtain ⟨kind, pc, ret⟩ := t
          simp only [] at hkind; subst hkind
          cases pc <;> simp_all [retVal, inWg, wDone]
        rw [has_append, ti.we, hwd]; rfl
      · -- a new entry: the step that passes the wait has rank 4 before, so the stop channel was closed
        have hr4 : s.sp.rank = 4 ∨ s.sp.rank < 4 := by omega
        rcases hr4 with hr4 | hr4
        · have hsc : s.sClosed = true := by rw [ph.sclosed]; simp; omega
          have := hnews p hp hsc
          rw [hps] at this; cases this
        · have := m.rank1; omega

/-! ## phase markers -/

def phaseR (rank : Nat) (q : Bool) : Nat :=
  if rank = 6 then 5 else if rank = 5 then 4 else if rank = 4 then 3 else if rank = 3 then 2 else if q then 1 else 0

theorem phase_rank {s : St} (p : Ph s) : phase s = phaseR s.sp.rank s.quiescing := by
  have h := p.dclosed
  unfold phase phaseR
  cases hsp : s.sp <;> simp [hsp] at h ⊢ <;> simp [h]

theorem markSeq_cancelEvs (s : St) (ids : List Nat) (c : Nat) : markSeq (s.cancelEvs ids c) = [] :=
  markSeq_map_other ids _ .cancelled (fun _ => rfl) (by decide)

theorem markSeq_quiesceEvs (s : St) (who : Nat) : markSeq (s.quiesceEvs who) = if s.quiescing then [] else [0] := by
  unfold St.quiesceEvs
  rw [markSeq_append, markSeq_cancelEvs]
  split <;> simp [St.ev]

def MarksInv (s : St) : Prop := markSeq s.log = [0, 1, 2, 3, 4].take (phaseR s.sp.rank s.quiescing)

theorem marks_go {s s' : St} {i : Nat} {t : Thread} (h : goStep s i t = some s') (p : Ph s) (ih : MarksInv s) :
    MarksInv s' := by
  unfold MarksInv at ih ⊢
  have hq := p.quiescing
  have hidle := p.idle
  obtain ⟨kind, pc, ret⟩ := t
  go_cases h
  all_goals (
    simp only [St.upd, markSeq_append, markSeq_quiesceEvs, markSeq_cancelEvs, markSeq_cons, markSeq_nil, St.ev, ih]
    first
      | rfl
      | (simp; done)
      | (simp_all [phaseR]; done)
      | (cases hqq : s.quiescing <;> simp_all [phaseR] <;> omega)
      | (cases hqq : s.quiescing <;> simp_all [phaseR] <;>
          (have h5 : ¬ s.sp.rank = 5 := by omega
           have h4 : ¬ s.sp.rank = 4 := by omega
           have h3 : ¬ s.sp.rank = 3 := by omega
           have h6 : ¬ s.sp.rank = 6 := by omega
           simp [h3, h4, h5, h6])))

theorem marks_reach {cap : Nat} {s : St} (h : Reach cap s) : MarksInv s := by
  induction h with
  | init => simp [MarksInv, init, phaseR]
  | spawn s k _ ih =>
    unfold MarksInv at ih ⊢
    simp only [spawn, markSeq_append, markSeq_cons, markSeq_nil, St.ev, ih]
    simp
  | step s s' i a hr hs ih =>
    obtain ⟨t, ht, ⟨_, hg⟩ | ⟨_, hg⟩ | ⟨_, hg⟩⟩ := step_elim hs
    · exact marks_go hg (ph_reach hr) ih
    · obtain ⟨v, _, _, rfl⟩ := retStep_elim hg
      unfold MarksInv at ih ⊢
      simp only [St.upd, markSeq_append, markSeq_cons, markSeq_nil, St.ev, ih]
      simp
    · unfold MarksInv at ih ⊢
      obtain ⟨kind, pc, ret⟩ := t
      alt_cases hg
      all_goals (
        simp only [St.upd, markSeq_append, markSeq_cons, markSeq_nil, St.ev, ih]
        first | rfl | (simp; done))

/-- the markers of a reachable log are an initial segment of quiesceClosed, tasksDrained, stopClosed, workersDone, stoppedClosed -/
theorem marks_phase {cap : Nat} {s : St} (h : Reach cap s) : markSeq s.log = [0, 1, 2, 3, 4].take (phase s) := by
  rw [phase_rank (ph_reach h)]; exact marks_reach h

end Shk.Stopper
