import ShkModel.Model.Retry
/-! Helper lemmas for C17: rational arithmetic of the back-off band, run/trace algebra. Core only. -/
namespace Shk.Retry

/-- option sets for which the band statement is meaningful: nothing negative. -/
structure Valid (o : Opts) : Prop where
  initial : 0 ≤ o.initial
  maxB : 0 ≤ o.maxB
  mult : 0 ≤ o.mult
  rand : 0 ≤ o.rand

theorem backoff_eq_spec (o : Opts) (n : Nat) : backoff o n = specBackoff o n := by
  simp only [backoff, specBackoff, Rat.min_def]
  by_cases h : o.maxB < o.initial * o.mult ^ n
  · have : ¬ o.initial * o.mult ^ n ≤ o.maxB := Rat.not_le.mpr h
    simp [h, this]
  · have : o.initial * o.mult ^ n ≤ o.maxB := Rat.not_lt.mp h
    simp [h, this]

theorem backoff_nonneg {o : Opts} (hv : Valid o) (n : Nat) : 0 ≤ backoff o n := by
  simp only [backoff]
  split
  · exact hv.maxB
  · exact Rat.mul_nonneg hv.initial (Rat.pow_nonneg hv.mult)

theorem backoff_le_max (o : Opts) (n : Nat) : backoff o n ≤ o.maxB := by
  simp only [backoff]
  split
  · exact Rat.le_refl
  · rename_i h; exact Rat.not_lt.mp h

/-- the arithmetic core: `b - r b ≤ b - r b + u (2 r b + 1) < b + r b + 1` for `u ∈ [0,1)` -/
theorem band_arith (b r u : Rat) (hb : 0 ≤ b) (hr : 0 ≤ r) (hu0 : 0 ≤ u) (hu1 : u < 1) :
    b - r * b ≤ b - r * b + u * (2 * (r * b) + 1) ∧
    b - r * b + u * (2 * (r * b) + 1) < b + r * b + 1 := by
  have hrb : 0 ≤ r * b := Rat.mul_nonneg hr hb
  have hd : 0 < 2 * (r * b) + 1 := by grind
  have h1 : 0 ≤ u * (2 * (r * b) + 1) := Rat.mul_nonneg hu0 (by grind)
  have h2 : 0 < (1 - u) * (2 * (r * b) + 1) := Rat.mul_pos (by grind) hd
  constructor
  · grind
  · grind

theorem truncNs_of_nonneg {x : Rat} (h : 0 ≤ x) : truncNs x = x.floor := by
  simp only [truncNs]
  have : ¬ x < 0 := Rat.not_lt.mpr h
  simp [this]

theorem run_append (o : Opts) (s : St) (a b : List Op) :
    run o s (a ++ b) = ((run o (run o s a).1 b).1, (run o s a).2 ++ (run o (run o s a).1 b).2) := by
  induction a generalizing s with
  | nil => simp [run]
  | cons x xs ih => simp [run, ih]

theorem yields_append (a b : List Out) : yields (a ++ b) = yields a + yields b := by
  simp [yields]

theorem yields_cons (x : Out) (l : List Out) :
    yields (x :: l) = x.isYield.toNat + yields l := by
  simp only [yields, List.filter_cons]
  cases x.isYield <;> simp <;> omega

/-! ### case lemmas for `next` / `nextCh` (the branches of the Go code, one per lemma) -/

theorem next_fresh (o : Opts) (a : Nat) (c x : Bool) (wd : Nat) (w : Wait) :
    next o ⟨a, true, c, x, wd⟩ w = (⟨a, false, c, x, wd⟩, .yieldNow) := by
  simp [next]

theorem next_done (o : Opts) (a : Nat) (c x : Bool) (wd : Nat) (w : Wait)
    (h : 0 < o.maxRetries ∧ o.maxRetries ≤ (a : Int)) :
    next o ⟨a, false, c, x, wd⟩ w = (⟨a, false, c, x, wd⟩, .done) := by
  simp [next, h]

theorem next_halted (o : Opts) (a : Nat) (c x : Bool) (wd : Nat) (w : Wait)
    (h : ¬ (0 < o.maxRetries ∧ o.maxRetries ≤ (a : Int))) (hs : (c || x) = true) :
    next o ⟨a, false, c, x, wd⟩ w = (⟨a, false, c, x, wd⟩, .halted) := by
  simp only [next, Bool.false_eq_true, if_false, h, St.stopped, hs, if_true]

theorem next_elapses (o : Opts) (a : Nat) (wd : Nat) (u : Rat)
    (h : ¬ (0 < o.maxRetries ∧ o.maxRetries ≤ (a : Int))) :
    next o ⟨a, false, false, false, wd⟩ (.elapses u) = (⟨a + 1, false, false, false, wd + 1⟩, .yieldAfter a u) := by
  simp only [next, Bool.false_eq_true, if_false, h, St.stopped, Bool.or_self]

theorem next_closerFires (o : Opts) (a : Nat) (wd : Nat)
    (h : ¬ (0 < o.maxRetries ∧ o.maxRetries ≤ (a : Int))) :
    next o ⟨a, false, false, false, wd⟩ .closerFires = (⟨a, false, true, false, wd⟩, .halted) := by
  simp only [next, Bool.false_eq_true, if_false, h, St.stopped, Bool.or_self]

theorem next_ctxFires (o : Opts) (a : Nat) (wd : Nat)
    (h : ¬ (0 < o.maxRetries ∧ o.maxRetries ≤ (a : Int))) :
    next o ⟨a, false, false, false, wd⟩ .ctxFires = (⟨a, false, false, true, wd⟩, .halted) := by
  simp only [next, Bool.false_eq_true, if_false, h, St.stopped, Bool.or_self]

theorem nextCh_fresh (o : Opts) (a : Nat) (c x : Bool) (wd : Nat) (u : Rat) :
    nextCh o ⟨a, true, c, x, wd⟩ u = (⟨a, false, c, x, wd⟩, .chClosed) := by
  simp [nextCh]

theorem nextCh_nil (o : Opts) (a : Nat) (c x : Bool) (wd : Nat) (u : Rat)
    (h : 0 < o.maxRetries ∧ o.maxRetries ≤ (a : Int)) :
    nextCh o ⟨a, false, c, x, wd⟩ u = (⟨a + 1, false, c, x, wd⟩, .chNil) := by
  simp only [nextCh, Bool.false_eq_true, if_false, h, and_self, if_true]

theorem nextCh_timer (o : Opts) (a : Nat) (c x : Bool) (wd : Nat) (u : Rat)
    (h : ¬ (0 < o.maxRetries ∧ o.maxRetries ≤ (a : Int))) :
    nextCh o ⟨a, false, c, x, wd⟩ u = (⟨a + 1, false, c, x, wd + 1⟩, .chTimer a u) := by
  simp only [nextCh, Bool.false_eq_true, if_false, h]

theorem reset_live (a : Nat) (r : Bool) (wd : Nat) : reset ⟨a, r, false, false, wd⟩ = ⟨0, true, false, false, 0⟩ := by
  simp [reset, St.stopped]

theorem reset_stopped (a : Nat) (r c x : Bool) (wd : Nat) (h : (c || x) = true) :
    reset ⟨a, r, c, x, wd⟩ = ⟨a, r, c, x, wd⟩ := by
  simp [reset, St.stopped, h]

/-! ### attempt budget -/

theorem yields_le_budget (o : Opts) (m : Nat) (ho : o.maxRetries = (m : Int)) (hm : 0 < m)
    (ops : List Op) (hnr : ∀ op ∈ ops, op ≠ Op.reset) (s : St) :
    yields (run o s ops).2 ≤ s.isReset.toNat + (m - s.attempt) := by
  induction ops generalizing s with
  | nil => simp [run, yields]
  | cons op ops ih =>
    have ih' := ih (fun x hx => hnr x (List.mem_cons_of_mem _ hx))
    have hop : op ≠ Op.reset := hnr op (List.mem_cons_self)
    simp only [run, yields_cons]
    obtain ⟨a, r, c, x, wd⟩ := s
    cases op with
    | reset => exact absurd rfl hop
    | close =>
      have := ih' ⟨a, r, true, x, wd⟩
      simp only [step, Out.isYield] at this ⊢
      cases r <;> simp at this ⊢ <;> omega
    | cancel =>
      have := ih' ⟨a, r, c, true, wd⟩
      simp only [step, Out.isYield] at this ⊢
      cases r <;> simp at this ⊢ <;> omega
    | next w =>
      simp only [step]
      cases r with
      | true =>
        simp only [next_fresh]
        have := ih' ⟨a, false, c, x, wd⟩
        simp [Out.isYield] at this ⊢; omega
      | false =>
        by_cases hd : 0 < o.maxRetries ∧ o.maxRetries ≤ (a : Int)
        · simp only [next_done _ _ _ _ _ _ hd]
          have := ih' ⟨a, false, c, x, wd⟩
          simp [Out.isYield] at this ⊢; omega
        · by_cases hs : (c || x) = true
          · simp only [next_halted _ _ _ _ _ _ hd hs]
            have := ih' ⟨a, false, c, x, wd⟩
            simp [Out.isYield] at this ⊢; omega
          · have hc : c = false := by cases c <;> simp_all
            have hx : x = false := by cases x <;> simp_all
            subst hc hx
            rw [ho] at hd
            cases w with
            | elapses u =>
              simp only [next_elapses _ _ _ _ (by rw [ho]; exact hd)]
              have := ih' ⟨a + 1, false, false, false, wd + 1⟩
              simp [Out.isYield] at this ⊢; omega
            | closerFires =>
              simp only [next_closerFires _ _ _ (by rw [ho]; exact hd)]
              have := ih' ⟨a, false, true, false, wd⟩
              simp [Out.isYield] at this ⊢; omega
            | ctxFires =>
              simp only [next_ctxFires _ _ _ (by rw [ho]; exact hd)]
              have := ih' ⟨a, false, false, true, wd⟩
              simp [Out.isYield] at this ⊢; omega
    | nextCh u =>
      simp only [step]
      cases r with
      | true =>
        simp only [nextCh_fresh]
        have := ih' ⟨a, false, c, x, wd⟩
        simp [Out.isYield] at this ⊢; omega
      | false =>
        by_cases hd : 0 < o.maxRetries ∧ o.maxRetries ≤ (a : Int)
        · simp only [nextCh_nil _ _ _ _ _ _ hd]
          have := ih' ⟨a + 1, false, c, x, wd⟩
          simp [Out.isYield] at this ⊢; omega
        · simp only [nextCh_timer _ _ _ _ _ _ hd]
          have := ih' ⟨a + 1, false, c, x, wd + 1⟩
          rw [ho] at hd
          simp [Out.isYield] at this ⊢; omega


/-! ### the band -/

theorem retryInExact_band (o : Opts) (hv : Valid o) (n : Nat) (u : Rat) (hu0 : 0 ≤ u) (hu1 : u < 1) :
    bandLo o n ≤ retryInExact o n u ∧ retryInExact o n u < bandHi o n := by
  simp only [bandLo, bandHi, retryInExact, ← backoff_eq_spec]
  exact band_arith _ _ u (backoff_nonneg hv n) hv.rand hu0 hu1

theorem retryIn_band (o : Opts) (hv : Valid o) (hr1 : o.rand ≤ 1) (n : Nat) (u : Rat)
    (hu0 : 0 ≤ u) (hu1 : u < 1) :
    (bandLo o n).floor ≤ retryIn o n u ∧ bandLo o n - 1 < (retryIn o n u : Rat) ∧
    (retryIn o n u : Rat) < bandHi o n := by
  have hb := retryInExact_band o hv n u hu0 hu1
  have hlo : 0 ≤ bandLo o n := by
    simp only [bandLo, ← backoff_eq_spec]
    have h1 : 0 ≤ (1 - o.rand) * backoff o n := Rat.mul_nonneg (by grind) (backoff_nonneg hv n)
    grind
  have hx : 0 ≤ retryInExact o n u := Rat.le_trans hlo hb.1
  simp only [retryIn, truncNs_of_nonneg hx]
  have h1 := Rat.floor_le (retryInExact o n u)
  have h2 := Rat.lt_floor_add_one (retryInExact o n u)
  refine ⟨Rat.floor_monotone hb.1, ?_, ?_⟩
  · have : ((retryInExact o n u).floor + 1 : Int) = ((retryInExact o n u).floor : Rat) + 1 := by
      simp [Rat.intCast_add]
    grind
  · grind


/-! ### schedule invariant -/

/-- `attempt` equals the number of waits since the last effective Reset, unless `NextCh` has run
the counter past the bound (then nothing is yielded any more). -/
def SchedInv (o : Opts) (s : St) : Prop :=
  s.waited ≤ s.attempt ∧ (s.attempt ≠ s.waited → 0 < o.maxRetries ∧ o.maxRetries < (s.attempt : Int))

theorem schedInv_start (o : Opts) (c x : Bool) : SchedInv o (start c x) := by
  cases c <;> cases x <;> simp [SchedInv, start, reset, St.stopped]

theorem schedInv_step (o : Opts) (s : St) (op : Op) (h : SchedInv o s) : SchedInv o (step o s op).1 := by
  obtain ⟨attempt, isReset, closed, cancelled, waited⟩ := s
  simp only [SchedInv] at h
  cases op with
  | reset => simp only [step, reset]; split <;> simp_all [SchedInv]
  | close => simpa [step, SchedInv] using h
  | cancel => simpa [step, SchedInv] using h
  | next w =>
    simp only [step, next]
    split
    · simpa [SchedInv] using h
    · split
      · simpa [SchedInv] using h
      · split
        · simpa [SchedInv] using h
        · rename_i h1 h2 h3
          cases w <;> simp only [SchedInv] <;> (try exact h)
          constructor
          · omega
          · intro hne
            have : attempt ≠ waited := by omega
            have := h.2 this
            omega
  | nextCh u =>
    simp only [step, nextCh]
    split
    · simpa [SchedInv] using h
    · split
      · rename_i h1 h2
        simp only [SchedInv]
        constructor
        · omega
        · intro _; exact ⟨h2.1, by omega⟩
      · rename_i h1 h2
        simp only [SchedInv]
        constructor
        · omega
        · intro hne
          have : attempt ≠ waited := by omega
          have := h.2 this
          omega

theorem schedInv_run (o : Opts) (s : St) (ops : List Op) (h : SchedInv o s) : SchedInv o (run o s ops).1 := by
  induction ops generalizing s with
  | nil => simpa [run] using h
  | cons op ops ih => simpa [run] using ih _ (schedInv_step o s op h)


theorem stopped_step (o : Opts) (s : St) (op : Op) (hs : s.stopped = true) :
    (step o s op).1.stopped = true := by
  obtain ⟨a, r, c, x, wd⟩ := s
  have hs' : (c || x) = true := by simpa [St.stopped] using hs
  cases op with
  | reset => simp [step, reset_stopped _ _ _ _ _ hs', St.stopped, hs']
  | close => simp [step, St.stopped]
  | cancel => simp [step, St.stopped]
  | next w =>
    cases r with
    | true => simpa [step, next_fresh, St.stopped] using hs'
    | false =>
      by_cases hd : 0 < o.maxRetries ∧ o.maxRetries ≤ (a : Int)
      · simpa [step, next_done _ _ _ _ _ _ hd, St.stopped] using hs'
      · simpa [step, next_halted _ _ _ _ _ _ hd hs', St.stopped] using hs'
  | nextCh u =>
    cases r with
    | true => simpa [step, nextCh_fresh, St.stopped] using hs'
    | false =>
      by_cases hd : 0 < o.maxRetries ∧ o.maxRetries ≤ (a : Int)
      · simpa [step, nextCh_nil _ _ _ _ _ _ hd, St.stopped] using hs'
      · simpa [step, nextCh_timer _ _ _ _ _ _ hd, St.stopped] using hs'


/-! ### simulation with the monitor -/

/-- simulation between the loop and the monitor of the property.  Third alternative of the last
clause: the attempts are used up (`NextCh` keeps counting after it has returned nil). -/
def Sim (o : Opts) (s : St) (m : Mon) : Prop :=
  m.stopped = s.stopped ∧ m.fresh = s.isReset ∧
  (s.isReset = true → s.attempt = 0 ∧ m.k = 0) ∧
  (s.isReset = false → m.k = s.attempt + 1 ∨ s.stopped = true ∨
    (0 < o.maxRetries ∧ o.maxRetries + 1 ≤ (m.k : Int) ∧ o.maxRetries ≤ (s.attempt : Int)))

theorem sim_start (o : Opts) (c x : Bool) : Sim o (start c x) (Mon.init (c || x)) := by
  cases c <;> cases x <;> simp [Sim, start, reset, St.stopped, Mon.init]

theorem lowerNs_zero (o : Opts) (k : Nat) : lowerNs o 0 (k + 1) = (bandLo o k).floor := by
  have : bandLo o k * (1 - 0) = bandLo o k := by grind
  simp [lowerNs, this]

/-- one operation of the loop against the lenient monitor; `NextCh` only while nothing has fired
(it leaves watching the closer / context to its caller). -/
theorem sim_step (o : Opts) (hv : Valid o) (hr1 : o.rand ≤ 1) (s : St) (m : Mon) (i : Nat) (op : Op)
    (hs : Sim o s m) (hnc : ∀ u, op = Op.nextCh u → s.stopped = false ∧ 0 ≤ u ∧ u < 1)
    (hu : ∀ u, op = Op.next (.elapses u) → 0 ≤ u ∧ u < 1) :
    ∃ m' j, Sim o (step o s op).1 m' ∧
      ∀ rest, monRun o 0 true m i (evsOf o s op ++ rest) = monRun o 0 true m' j rest := by
  obtain ⟨a, r, c, x, wd⟩ := s
  obtain ⟨k, st, fr, fi⟩ := m
  obtain ⟨h1, h2, h3, h4⟩ := hs
  simp only [St.stopped] at h1 h2 h3 h4
  have h2' : r = fr := h2.symm
  subst h1 h2'
  cases op with
  | nextCh u =>
    obtain ⟨hlive, hu0, hu1⟩ := hnc u rfl
    have hc' : c = false := by cases c <;> simp_all [St.stopped]
    have hx' : x = false := by cases x <;> simp_all [St.stopped]
    subst hc' hx'
    cases r with
    | true =>
      obtain ⟨ha, hk⟩ := h3 rfl
      subst ha hk
      refine ⟨⟨1, false, false, false⟩, i + 1, ?_, fun rest => ?_⟩
      · simp [step, nextCh_fresh, Sim, St.stopped]
      · have : ¬ ((0 : Int) < o.maxRetries ∧ o.maxRetries + 1 ≤ 0) := by omega
        simp [evsOf, nextCh_fresh, monRun, monBad, monStep, this, Out.delay]
    | false =>
      have h4' := h4 rfl
      by_cases hd : 0 < o.maxRetries ∧ o.maxRetries ≤ (a : Int)
      · refine ⟨⟨k, false, false, fi⟩, i + 1, ?_, fun rest => ?_⟩
        · simp only [step, nextCh_nil _ _ _ _ _ _ hd]
          refine ⟨rfl, rfl, by simp, fun _ => Or.inr (Or.inr ?_)⟩
          rcases h4' with h | h | h
          · (try simp only at h ⊢); omega
          · simp at h
          · (try simp only at h ⊢); omega
        · have : (0 : Int) < o.maxRetries ∧ o.maxRetries + 1 ≤ (k : Int) := by
            rcases h4' with h | h | h
            · omega
            · simp at h
            · exact ⟨h.1, h.2.1⟩
          simp [evsOf, nextCh_nil _ _ _ _ _ _ hd, monRun, monBad, monStep, this]
      · have hk : k = a + 1 := by
          rcases h4' with h | h | h
          · exact h
          · simp at h
          · exact absurd ⟨h.1, h.2.2⟩ hd
        subst hk
        refine ⟨⟨a + 2, false, false, false⟩, i + 1, ?_, fun rest => ?_⟩
        · simp [step, nextCh_timer _ _ _ _ _ _ hd, Sim, St.stopped]
        · have hle := (retryIn_band o hv hr1 a u hu0 hu1).1
          have h2 : ¬ (retryIn o a u < lowerNs o 0 (a + 1)) := by
            rw [lowerNs_zero]; omega
          simp [evsOf, nextCh_timer _ _ _ _ _ _ hd, monRun, monBad, monStep, h2, hd, Out.delay]
  | close =>
    refine ⟨⟨k, true, r, fi⟩, i + 1, ?_, fun rest => by simp [evsOf, monRun, monBad, monStep]⟩
    refine ⟨by simp [step, St.stopped], rfl, h3, fun h => Or.inr (Or.inl (by simp [step, St.stopped]))⟩
  | cancel =>
    refine ⟨⟨k, true, r, fi⟩, i + 1, ?_, fun rest => by simp [evsOf, monRun, monBad, monStep]⟩
    refine ⟨by simp [step, St.stopped], rfl, h3, fun h => Or.inr (Or.inl (by simp [step, St.stopped]))⟩
  | reset =>
    by_cases hst : (c || x) = true
    · refine ⟨⟨k, (c || x), r, fi⟩, i + 1, ?_, fun rest => by simp [evsOf, monRun, monBad, monStep, hst]⟩
      simp only [step, reset_stopped _ _ _ _ _ hst]
      exact ⟨rfl, rfl, h3, h4⟩
    · have hc' : c = false := by cases c <;> simp_all
      have hx' : x = false := by cases x <;> simp_all
      subst hc' hx'
      refine ⟨⟨0, false, true, fi⟩, i + 1, ?_, fun rest => by simp [evsOf, monRun, monBad, monStep]⟩
      simp [step, reset_live, Sim, St.stopped]
  | next w =>
    cases r with
    | true =>
      obtain ⟨ha, hk⟩ := h3 rfl
      subst ha hk
      refine ⟨⟨1, (c || x), false, false⟩, i + 1, ?_, fun rest => ?_⟩
      · simp [step, next_fresh, Sim, St.stopped]
      · have : ¬ ((0 : Int) < o.maxRetries ∧ o.maxRetries + 1 ≤ 0) := by omega
        simp [evsOf, next_fresh, monRun, monBad, monStep, this]
    | false =>
      have h4' := h4 rfl
      by_cases hd : 0 < o.maxRetries ∧ o.maxRetries ≤ (a : Int)
      · refine ⟨⟨k, (c || x), false, fi⟩, i + 1, ?_, fun rest => ?_⟩
        · simp only [step, next_done _ _ _ _ _ _ hd]
          exact ⟨rfl, rfl, h3, h4⟩
        · by_cases hst : (c || x) = true
          · simp [evsOf, next_done _ _ _ _ _ _ hd, monRun, monBad, monStep, hst]
          · have : (0 : Int) < o.maxRetries ∧ o.maxRetries + 1 ≤ (k : Int) := by
              rcases h4' with h | h | h
              · omega
              · exact absurd h hst
              · exact ⟨h.1, h.2.1⟩
            simp [evsOf, next_done _ _ _ _ _ _ hd, monRun, monBad, monStep, hst, this]
      · by_cases hst : (c || x) = true
        · refine ⟨⟨k, (c || x), false, fi⟩, i + 1, ?_, fun rest => ?_⟩
          · simp only [step, next_halted _ _ _ _ _ _ hd hst]
            exact ⟨rfl, rfl, h3, h4⟩
          · simp [evsOf, next_halted _ _ _ _ _ _ hd hst, monRun, monBad, monStep, hst, St.stopped]
        · have hc' : c = false := by cases c <;> simp_all
          have hx' : x = false := by cases x <;> simp_all
          subst hc' hx'
          have hk : k = a + 1 := by
            rcases h4' with h | h | h
            · exact h
            · simp at h
            · exact absurd ⟨h.1, h.2.2⟩ hd
          subst hk
          cases w with
          | closerFires =>
            refine ⟨⟨a + 1, true, false, fi⟩, i + 2, ?_, fun rest => ?_⟩
            · simp [step, next_closerFires _ _ _ hd, Sim, St.stopped]
            · simp [evsOf, next_closerFires _ _ _ hd, monRun, monBad, monStep, St.stopped]
          | ctxFires =>
            refine ⟨⟨a + 1, true, false, fi⟩, i + 2, ?_, fun rest => ?_⟩
            · simp [step, next_ctxFires _ _ _ hd, Sim, St.stopped]
            · simp [evsOf, next_ctxFires _ _ _ hd, monRun, monBad, monStep, St.stopped]
          | elapses u =>
            obtain ⟨hu0, hu1⟩ := hu u rfl
            refine ⟨⟨a + 2, false, false, false⟩, i + 1, ?_, fun rest => ?_⟩
            · simp [step, next_elapses _ _ _ _ hd, Sim, St.stopped]
            · have hle := (retryIn_band o hv hr1 a u hu0 hu1).1
              have h2 : ¬ (retryIn o a u < lowerNs o 0 (a + 1)) := by
                rw [lowerNs_zero]; omega
              simp [evsOf, next_elapses _ _ _ _ hd, monRun, monBad, monStep, h2, hd]

/-- operations during which nothing fires -/
def LiveOp : Op → Prop
  | .next (.elapses _) | .nextCh _ | .reset => True
  | _ => False

theorem live_step (o : Opts) (s : St) (op : Op) (hl : s.stopped = false) (hop : LiveOp op) :
    (step o s op).1.stopped = false := by
  obtain ⟨a, r, c, x, wd⟩ := s
  have hc' : c = false := by cases c <;> simp_all [St.stopped]
  have hx' : x = false := by cases x <;> simp_all [St.stopped]
  subst hc' hx'
  cases op with
  | close => exact absurd hop (by simp [LiveOp])
  | cancel => exact absurd hop (by simp [LiveOp])
  | reset => simp [step, reset_live, St.stopped]
  | nextCh u =>
    cases r with
    | true => simp [step, nextCh_fresh, St.stopped]
    | false =>
      by_cases hd : 0 < o.maxRetries ∧ o.maxRetries ≤ (a : Int)
      · simp [step, nextCh_nil _ _ _ _ _ _ hd, St.stopped]
      · simp [step, nextCh_timer _ _ _ _ _ _ hd, St.stopped]
  | next w =>
    cases w with
    | closerFires => exact absurd hop (by simp [LiveOp])
    | ctxFires => exact absurd hop (by simp [LiveOp])
    | elapses u =>
      cases r with
      | true => simp [step, next_fresh, St.stopped]
      | false =>
        by_cases hd : 0 < o.maxRetries ∧ o.maxRetries ≤ (a : Int)
        · simp [step, next_done _ _ _ _ _ _ hd, St.stopped]
        · simp [step, next_elapses _ _ _ _ hd, St.stopped]

theorem live_evs_no_stop (o : Opts) (s : St) (op : Op) (hl : s.stopped = false) (hop : LiveOp op) :
    Ev.stop ∉ evsOf o s op := by
  obtain ⟨a, r, c, x, wd⟩ := s
  have hc' : c = false := by cases c <;> simp_all [St.stopped]
  have hx' : x = false := by cases x <;> simp_all [St.stopped]
  subst hc' hx'
  cases op with
  | close => exact absurd hop (by simp [LiveOp])
  | cancel => exact absurd hop (by simp [LiveOp])
  | reset => simp [evsOf]
  | nextCh u =>
    cases r with
    | true => simp [evsOf, nextCh_fresh]
    | false =>
      by_cases hd : 0 < o.maxRetries ∧ o.maxRetries ≤ (a : Int)
      · simp [evsOf, nextCh_nil _ _ _ _ _ _ hd]
      · simp [evsOf, nextCh_timer _ _ _ _ _ _ hd]
  | next w =>
    cases w with
    | closerFires => exact absurd hop (by simp [LiveOp])
    | ctxFires => exact absurd hop (by simp [LiveOp])
    | elapses u =>
      cases r with
      | true => simp [evsOf, next_fresh]
      | false =>
        by_cases hd : 0 < o.maxRetries ∧ o.maxRetries ≤ (a : Int)
        · simp [evsOf, next_done _ _ _ _ _ _ hd]
        · simp [evsOf, next_elapses _ _ _ _ hd]

theorem live_trace_no_stop (o : Opts) (s : St) (ops : List Op) (hl : s.stopped = false)
    (hop : ∀ op ∈ ops, LiveOp op) : Ev.stop ∉ trace o s ops := by
  induction ops generalizing s with
  | nil => simp [trace]
  | cons op ops ih =>
    simp only [trace, List.mem_append, not_or]
    exact ⟨live_evs_no_stop o s op hl (hop op List.mem_cons_self),
      ih _ (live_step o s op hl (hop op List.mem_cons_self)) (fun x hx => hop x (List.mem_cons_of_mem _ hx))⟩

/-- while nothing has fired the strict and the lenient monitor are the same -/
theorem monRun_strict_of_live (o : Opts) (sl : Rat) (m : Mon) (i : Nat) (es : List Ev)
    (hm : m.stopped = false) (hes : Ev.stop ∉ es) :
    monRun o sl false m i es = monRun o sl true m i es := by
  induction es generalizing m i with
  | nil => simp [monRun]
  | cons e es ih =>
    obtain ⟨k, st, fr, fi⟩ := m
    simp only at hm; subst hm
    have hne : e ≠ Ev.stop := fun h => hes (by simp [h])
    have hes' : Ev.stop ∉ es := fun h => hes (List.mem_cons_of_mem _ h)
    have hb : monBad o sl false ⟨k, false, fr, fi⟩ e = monBad o sl true ⟨k, false, fr, fi⟩ e := by
      cases e <;> simp [monBad]
    have hst : (monStep ⟨k, false, fr, fi⟩ e).stopped = false := by
      cases e <;> simp_all [monStep]
    simp only [monRun, hb]
    cases monBad o sl true ⟨k, false, fr, fi⟩ e with
    | some c => rfl
    | none => exact ih _ _ hst hes'

/-! ### WithMaxAttempts loop -/

/-- the repaired loop: whatever `Next` does, the guard `calls < n` bounds the calls. -/
theorem wmaLoop_spec (o : Opts) (n : Int) (env : List (Wait × Bool)) (s : St) (calls : Nat)
    (hc : (calls : Int) ≤ n) :
    ((wmaLoop o n s calls env).calls : Int) ≤ n ∧ calls ≤ (wmaLoop o n s calls env).calls ∧
    ((wmaLoop o n s calls env).result = some true ↔ (wmaLoop o n s calls env).succeeded = true) ∧
    (n - calls < env.length → (wmaLoop o n s calls env).result ≠ none) := by
  induction env generalizing s calls with
  | nil =>
    simp only [wmaLoop, List.length_nil]
    exact ⟨hc, Nat.le_refl _, by simp, by omega⟩
  | cons e env ih =>
    obtain ⟨w, ok⟩ := e
    simp only [wmaLoop, List.length_cons]
    by_cases hg : (calls : Int) < n ∧ (next o s w).2.isYield = true
    · simp only [hg, and_self, if_true]
      cases ok with
      | true => simp; omega
      | false =>
        simp only [Bool.false_eq_true, if_false]
        have := ih (next o s w).1 (calls + 1) (by omega)
        refine ⟨this.1, by omega, this.2.2.1, fun h => this.2.2.2 (by omega)⟩
    · simp only [hg, if_false]
      exact ⟨hc, Nat.le_refl _, by simp, by simp⟩

/-- with an immediate attempt pending and `n ≥ 1`, a loop that has returned made at least one call -/
theorem wmaLoop_calls_pos (o : Opts) (n : Int) (hn : 1 ≤ n) (a : Nat) (c x : Bool) (wd : Nat)
    (e : Wait × Bool) (env : List (Wait × Bool)) :
    1 ≤ (wmaLoop o n ⟨a, true, c, x, wd⟩ 0 (e :: env)).calls := by
  obtain ⟨w, ok⟩ := e
  have hg : ((0 : Nat) : Int) < n ∧ (next o ⟨a, true, c, x, wd⟩ w).2.isYield = true := by
    simp [next_fresh, Out.isYield]; omega
  simp only [wmaLoop, hg, and_self, if_true]
  cases ok with
  | true => simp
  | false =>
    simp only [Bool.false_eq_true, if_false]
    exact (wmaLoop_spec o n env _ 1 (by omega)).2.1

end Shk.Retry
