import ShkModel.Lemmas.PrinterStep
/-! Helper lemmas for C10, part 9: the pieces put together. -/
set_option linter.unusedSimpArgs false
set_option linter.unusedVariables false
namespace Shk.Printer
open Shk.Story (Act)

theorem audStatic_congr {c c' : Cfg} {ms : List Member} (ha : c'.actors = c.actors) (hr : c'.roles = c.roles)
    (hs : AudStatic c ms) : AudStatic c' ms := by
  have hv : ∀ v, VarStatic c ms v → VarStatic c' ms v := by
    intro v h
    cases v with
    | comp k => exact h
    | sig a s => exact (sigOk_congr ha hr a s).mpr h
  exact ⟨hs.names, hs.m3, fun m hm x hx e he v hvv => ⟨hv v (hs.exVars m hm x hx e he v hvv).1,
    (hs.exVars m hm x hx e he v hvv).2⟩, hs.targets,
    fun m hm => ⟨(hs.obs m hm).1, fun v hvv => hv v ((hs.obs m hm).2 v hvv)⟩, hs.assignOk⟩

/-- what is printed in front of the audience loads to the roles, cast and script of `c` -/
theorem load_head {mt : String → Act → Bool} {c : Cfg} (hinv : Inv mt c) :
    ∃ c8, loadFrom mt Cfg.init (printHead c) = some c8 ∧
      c8.titles = c.titles ∧ c8.authors = c.authors ∧ c8.attn = c.attn ∧ c8.roles = c.roles ∧
      c8.actors = c.actors ∧ c8.tempo = c.tempo ∧ c8.scenes = c.scenes ∧ c8.story = c.story ∧
      effRepeat c8 = effRepeat c ∧ c8.members = [] := by
  have h := hinv.head
  -- stage by stage
  let c3 : Cfg := { Cfg.init with titles := c.titles, authors := c.authors, attn := c.attn }
  let c4 : Cfg := { c3 with roles := c.roles }
  let c5 : Cfg := { c4 with actors := c.actors }
  let c6 : Cfg := { c5 with tempo := c.tempo }
  let c7 : Cfg := { c6 with scenes := c.scenes }
  have e3 : loadFrom mt Cfg.init (c.titles.map Clause.title ++ c.authors.map Clause.author ++
      c.attn.map Clause.attention) = some c3 := by
    rw [loadFrom_append, loadFrom_append, load_titles]
    simp only [Option.bind_some]
    rw [load_authors]
    simp only [Option.bind_some]
    rw [load_attn]
    simp [c3, Cfg.init]
  have e4 : loadFrom mt c3 (c.roles.map printRole) = some c4 := by
    rw [load_roles mt c.roles c3 (by simpa [c3, Cfg.init] using h.roleNames) h.roles]
    simp [c4, c3, Cfg.init]
  have e5 : loadFrom mt c4 (c.actors.map printActor) = some c5 := by
    rw [load_cast mt c.actors c4 (by simpa [c4, c3, Cfg.init] using h.actorNames) ?_]
    · simp [c5, c4, c3, Cfg.init]
    · intro a ha
      obtain ⟨r, hr⟩ := h.actorRole a ha
      exact ⟨r, hr⟩
  have e6 : loadFrom mt c5 [Clause.tempo c.tempo] = some c6 := by simp [loadFrom, step, c6]
  have e7 : loadFrom mt c6 (c.scenes.flatMap printScene) = some c7 := by
    have hg : Grows c c6 := ⟨⟨[], by simp [c6, c5, c4]⟩, ⟨[], by simp [c6, c5]⟩⟩
    have := load_scenes mt c6 c.scenes [] (by simpa using h.sceneChars) (fun s hs => hg.sceneOk (h.scenes s hs))
    simpa [c7, c6, c5, c4, c3, Cfg.init] using this
  obtain ⟨c8, e8, hf, hst, hrep1, hrep2⟩ := load_story mt c h.story h.rep c7 rfl rfl rfl
  have f1 : c8.titles = c.titles := by rw [hf]
  have f2 : c8.authors = c.authors := by rw [hf]
  have f3 : c8.attn = c.attn := by rw [hf]
  have f4 : c8.roles = c.roles := by rw [hf]
  have f5 : c8.actors = c.actors := by rw [hf]
  have f6 : c8.tempo = c.tempo := by rw [hf]
  have f7 : c8.scenes = c.scenes := by rw [hf]
  have f8 : c8.members = [] := by rw [hf]; rfl
  refine ⟨c8, ?_, f1, f2, f3, f4, f5, f6, f7, hst, ?_, f8⟩
  · simp only [printHead]
    rw [loadFrom_append, loadFrom_append, loadFrom_append, loadFrom_append, loadFrom_append, e3]
    simp only [Option.bind_some, e4, e5, e6, e7, e8]
  · simp only [effRepeat, hst]
    by_cases hne : c.story = []
    · simp [hne]
    · simp only [hne, if_false]
      cases hr : c.repFrom with
      | none => rw [hrep2 hne hr]
      | some re =>
        obtain ⟨r1, r2, r3, r4⟩ := hrep1 hne re hr
        rw [r1]; simp only [r2, r3, r4]

theorem names_of_meq0 : ∀ {ms qs : List Member}, All₂ MEq0 ms qs → qs.map (·.name) = ms.map (·.name) := by
  intro ms qs h
  induction h with
  | nil => rfl
  | cons hab _ ih => simp [hab.name, ih]

theorem names_of_equiv : ∀ {ms qs : List Member}, All₂ Member.Equiv ms qs → qs.map (·.name) = ms.map (·.name) := by
  intro ms qs h
  induction h with
  | nil => rfl
  | cons hab _ ih => simp [hab.name, ih]

/-- the printed configuration, with the audience clauses as a second parse sees them, loads to
the same configuration -/
theorem reload_of_inv {mt : String → Act → Bool} {c : Cfg} (hinv : Inv mt c)
    {A' : List (String × AClause)} (hA : All₂ KEquiv (sched c.members) A') :
    ∃ c', load mt (printWith c A') = some c' ∧ Cfg.Equiv c c' := by
  obtain ⟨c8, e8, t1, t2, t3, t4, t5, t6, t7, t8, t9, t10⟩ := load_head hinv
  obtain ⟨rk, hrk⟩ := hinv.aud.ranked
  have hst : AudStatic c8 c.members := audStatic_congr t5 t4 hinv.aud.static
  obtain ⟨qs, eA, hqs⟩ := aud_reload mt hst t10 hinv.aud.nonempty hrk hA
  have hnd : (([] : List Member) ++ qs).map (·.name) |>.Nodup := by
    simp only [List.nil_append, names_of_meq0 hqs]; exact hinv.aud.static.names
  obtain ⟨qs', eI, hqs'⟩ := load_interp mt c8 c.members qs [] hqs hnd
  refine ⟨{ c8 with members := qs' }, ?_, ?_⟩
  · simp only [load, printWith]
    rw [loadFrom_append, loadFrom_append, e8]
    simp only [Option.bind_some, eA]
    simpa using eI
  · exact ⟨t1.symm, t2.symm, t3.symm, t4.symm, t5.symm, t6.symm, t7.symm, t8.symm, by
      simp only [effRepeat] at t9 ⊢; exact t9.symm, hqs'⟩

end Shk.Printer
