import ShkModel.Model.Preproc
/-! Lemmas about the `~name~` scanner and the parameter table (used by Props/C20). -/
namespace Shk.Preproc

/-- a parameter name as `\w+` sees it -/
def WordName (w : Bytes) : Prop := w ≠ [] ∧ ∀ c ∈ w, isWord c = true

/-- a match of `~\w+~` starts at the head of `t` -/
def StartsOcc (t : Bytes) : Prop := ∃ w r, WordName w ∧ t = tilde :: w ++ tilde :: r

/-- `Decomp s segs`: `segs` is the decomposition of `s` that `ReplaceAllStringFunc` walks through —
at every position, if a match starts there it is taken (and scanning resumes behind its closing
`~`), otherwise one byte is copied. -/
def Decomp : Bytes → List Seg → Prop
  | s, [] => s = []
  | s, .occ w :: segs => WordName w ∧ ∃ r, s = tilde :: w ++ tilde :: r ∧ Decomp r segs
  | s, .lit c :: segs => ∃ rest, s = c :: rest ∧ ¬ StartsOcc s ∧ Decomp rest segs

theorem tilde_not_word : isWord tilde = false := by decide

theorem scanAux_skip (a b : Bytes) : scanAux (a ++ b) a.length = scanAux b 0 := by
  induction a with
  | nil => rfl
  | cons x a ih => simpa [scanAux] using ih

theorem takeWhile_word (w r : Bytes) (hw : ∀ c ∈ w, isWord c = true) :
    (w ++ tilde :: r).takeWhile isWord = w ∧ (w ++ tilde :: r).dropWhile isWord = tilde :: r := by
  induction w with
  | nil => simp [tilde_not_word]
  | cons x w ih =>
    have hx : isWord x = true := hw x (by simp)
    have := ih (fun c hc => hw c (by simp [hc]))
    simp [hx, this]

theorem mem_takeWhile_true (p : Nat → Bool) : ∀ (l : Bytes) (x : Nat), x ∈ l.takeWhile p → p x = true := by
  intro l
  induction l with
  | nil => intro x hx; simp at hx
  | cons a l ih =>
    intro x hx
    by_cases ha : p a = true
    · simp only [List.takeWhile, ha] at hx
      cases hx with
      | head => exact ha
      | tail _ h => exact ih x h
    · have : p a = false := by simpa using ha
      simp [List.takeWhile, this] at hx

theorem matchAt_of_word (w r : Bytes) (hw : WordName w) : matchAt (w ++ tilde :: r) = some w := by
  obtain ⟨hne, hall⟩ := hw
  have h := takeWhile_word w r hall
  unfold matchAt
  rw [h.2, h.1]
  cases w with
  | nil => exact absurd rfl hne
  | cons x w => simp

theorem matchAt_some {t w : Bytes} (h : matchAt t = some w) :
    WordName w ∧ ∃ r, t = w ++ tilde :: r := by
  unfold matchAt at h
  have hsplit : t.takeWhile isWord ++ t.dropWhile isWord = t := List.takeWhile_append_dropWhile
  cases hd : t.dropWhile isWord with
  | nil => rw [hd] at h; simp at h
  | cons c r =>
    rw [hd] at h
    simp only at h
    split at h
    · rename_i hc
      simp only [Bool.and_eq_true, beq_iff_eq, Bool.not_eq_true', List.isEmpty_eq_false_iff] at hc
      injection h with h
      subst h
      refine ⟨⟨hc.2, fun x hx => ?_⟩, r, ?_⟩
      · exact mem_takeWhile_true isWord t x hx
      · rw [← hc.1, ← hd, hsplit]
    · cases h

theorem word_split_unique {w w' r r' : Bytes} (hw : ∀ c ∈ w, isWord c = true)
    (hw' : ∀ c ∈ w', isWord c = true) (h : w ++ tilde :: r = w' ++ tilde :: r') : w = w' ∧ r = r' := by
  have a := takeWhile_word w r hw
  have b := takeWhile_word w' r' hw'
  rw [h] at a
  constructor
  · rw [← a.1, b.1]
  · have := a.2.symm.trans b.2
    simpa using this

theorem scan_cons_occ (w r : Bytes) (hw : WordName w) :
    scan (tilde :: w ++ tilde :: r) = Seg.occ w :: scan r := by
  have h1 : scanAux (w ++ tilde :: r) (w.length + 1) = scanAux r 0 := by
    have := scanAux_skip (w ++ [tilde]) r
    simpa using this
  show scanAux (tilde :: (w ++ tilde :: r)) 0 = _
  simp only [scanAux, beq_self_eq_true, if_true, matchAt_of_word w r hw, h1]
  rfl

theorem scan_cons_lit (c : Nat) (rest : Bytes) (h : ¬ StartsOcc (c :: rest)) :
    scan (c :: rest) = Seg.lit c :: scan rest := by
  show scanAux (c :: rest) 0 = _
  unfold scanAux
  split
  · rename_i hc
    have hc' : c = tilde := by simpa using hc
    cases hm : matchAt rest with
    | none => rfl
    | some w =>
      exfalso
      obtain ⟨hw, r, hr⟩ := matchAt_some hm
      exact h ⟨w, r, hw, by rw [hc', hr]; rfl⟩
  · rfl

/-- the scanner produces the decomposition -/
theorem scan_decomp : ∀ (n : Nat) (s : Bytes), s.length ≤ n → Decomp s (scan s) := by
  intro n
  induction n with
  | zero =>
    intro s hs
    have : s = [] := List.eq_nil_of_length_eq_zero (Nat.le_zero.mp hs)
    subst this
    show Decomp [] []
    rfl
  | succ n ih =>
    intro s hs
    cases s with
    | nil => show Decomp [] []; rfl
    | cons c rest =>
      by_cases hso : StartsOcc (c :: rest)
      · obtain ⟨w, r, hw, heq⟩ := hso
        rw [heq, scan_cons_occ w r hw]
        refine ⟨hw, r, rfl, ih r ?_⟩
        have hl : (c :: rest).length = (tilde :: w ++ tilde :: r).length := by rw [heq]
        simp at hl hs
        omega
      · rw [scan_cons_lit c rest hso]
        exact ⟨rest, rfl, hso, ih rest (by simp at hs; omega)⟩

/-- the decomposition is unique -/
theorem decomp_unique : ∀ (segs : List Seg) (s : Bytes), Decomp s segs → segs = scan s := by
  intro segs
  induction segs with
  | nil =>
    intro s h
    have : s = [] := h
    subst this
    rfl
  | cons sg segs ih =>
    intro s h
    cases sg with
    | lit c =>
      obtain ⟨rest, hs, hno, hd⟩ := h
      subst hs
      rw [scan_cons_lit c rest hno, ← ih rest hd]
    | occ w =>
      obtain ⟨hw, r, hs, hd⟩ := h
      subst hs
      rw [scan_cons_occ w r hw, ← ih r hd]

theorem decomp_render : ∀ (segs : List Seg) (s : Bytes), Decomp s segs → segs.flatMap Seg.render = s := by
  intro segs
  induction segs with
  | nil => intro s h; have : s = [] := h; subst this; rfl
  | cons sg segs ih =>
    intro s h
    cases sg with
    | lit c =>
      obtain ⟨rest, hs, _, hd⟩ := h
      subst hs
      simp [List.flatMap_cons, Seg.render, ih rest hd]
    | occ w =>
      obtain ⟨_, r, hs, hd⟩ := h
      subst hs
      simp [List.flatMap_cons, Seg.render, ih r hd]

/-! ### the table -/

theorem lookup_append (a b : Table) (n : Bytes) :
    lookup (a ++ b) n = match lookup a n with
      | some v => some v
      | none => lookup b n := by
  induction a with
  | nil => rfl
  | cons p a ih =>
    obtain ⟨k, v⟩ := p
    simp only [List.cons_append, lookup]
    split
    · rfl
    · exact ih

theorem lookup_define (t : Table) (n v m : Bytes) :
    lookup (define t n v) m = lookup (t ++ [(n, v)]) m := by
  unfold define
  cases h : lookup t n with
  | none => rfl
  | some x =>
    simp only
    rw [lookup_append]
    cases hm : lookup t m with
    | some y => rfl
    | none =>
      simp only [lookup]
      split
      · rename_i hnm
        subst hnm
        rw [h] at hm
        cases hm
      · rfl

theorem lookup_congr_append {a a' : Table} (b : Table) (m : Bytes)
    (h : lookup a m = lookup a' m) : lookup (a ++ b) m = lookup (a' ++ b) m := by
  rw [lookup_append, lookup_append, h]

theorem lookup_foldl_define (ps : List (Bytes × Bytes)) :
    ∀ (t : Table) (m : Bytes),
      lookup (ps.foldl (fun t p => define t p.1 p.2) t) m = lookup (t ++ ps) m := by
  induction ps with
  | nil => intro t m; simp
  | cons p ps ih =>
    intro t m
    simp only [List.foldl_cons]
    rw [ih]
    have := lookup_congr_append ps m (lookup_define t p.1 p.2 m)
    rw [this]
    simp

end Shk.Preproc
