import ShkModel.Lemmas.PrinterHead
import ShkModel.Lemmas.PrinterInterp
/-! Helper lemmas for C10, part 6: what every loaded configuration satisfies (`Inv`), clause by
clause. -/
set_option linter.unusedSimpArgs false
set_option linter.unusedVariables false
namespace Shk.Printer
open Shk.Story (Act)

/-- the roles, cast and script of a loaded configuration -/
structure HeadInv (mt : String → Act → Bool) (c : Cfg) : Prop where
  roleNames : (c.roles.map (·.name)).Nodup
  roles : ∀ r ∈ c.roles, RoleOk r
  actorNames : (c.actors.map (·.name)).Nodup
  actorRole : ∀ a ∈ c.actors, ∃ r, findRole c a.role = some r
  sceneChars : (c.scenes.map (·.ch)).Nodup
  scenes : ∀ s ∈ c.scenes, SceneOk c s
  story : StoryOk c
  rep : ∀ re, c.repFrom = some re → c.repAct = firstMatch mt re c.story

/-- … and its audience -/
structure AudInv (c : Cfg) : Prop where
  static : AudStatic c c.members
  nonempty : ∀ m ∈ c.members, canon m ≠ []
  ranked : ∃ rk, Ranked c.members rk

structure Inv (mt : String → Act → Bool) (c : Cfg) : Prop where
  head : HeadInv mt c
  aud : AudInv c

/-! ## lookups in lists that only grow -/

theorem find_append_stable {α : Type} (p : α → Bool) (l l' : List α) {x : α} (h : l.find? p = some x) :
    (l ++ l').find? p = some x := by
  rw [List.find?_append, h]; rfl

theorem find_of_mem_nodup {α : Type} [DecidableEq α] {β : Type} [DecidableEq β] (key : α → β) :
    ∀ (l : List α) (x : α), (l.map key).Nodup → x ∈ l → l.find? (fun y => key y == key x) = some x := by
  intro l
  induction l with
  | nil => intro x _ h; cases h
  | cons y l ih =>
    intro x hnd hx
    simp only [List.map_cons, List.nodup_cons] at hnd
    rcases List.mem_cons.mp hx with rfl | hx
    · simp [List.find?_cons]
    · have : (key y == key x) = false := by
        simp only [beq_eq_false_iff_ne, ne_eq]
        intro e
        exact hnd.1 (e ▸ List.mem_map.mpr ⟨x, hx, rfl⟩)
      simp only [List.find?_cons, this]
      exact ih x hnd.2 hx

theorem findRole_mem {c : Cfg} {n : String} {r : Role} (h : findRole c n = some r) :
    r ∈ c.roles ∧ r.name = n := by
  simp only [findRole] at h
  exact ⟨List.mem_of_find?_eq_some h, by simpa using List.find?_some h⟩

theorem findActor_mem {c : Cfg} {n : String} {a : Actor} (h : findActor c n = some a) :
    a ∈ c.actors ∧ a.name = n := by
  simp only [findActor] at h
  exact ⟨List.mem_of_find?_eq_some h, by simpa using List.find?_some h⟩

theorem findRole_of_mem {c : Cfg} (hnd : (c.roles.map (·.name)).Nodup) {r : Role} (h : r ∈ c.roles) :
    findRole c r.name = some r := find_of_mem_nodup (fun x : Role => x.name) c.roles r hnd h

theorem findActor_of_mem {c : Cfg} (hnd : (c.actors.map (·.name)).Nodup) {a : Actor} (h : a ∈ c.actors) :
    findActor c a.name = some a := find_of_mem_nodup (fun x : Actor => x.name) c.actors a hnd h

/-- `c'` has the roles and actors of `c` and possibly more at the end -/
structure Grows (c c' : Cfg) : Prop where
  roles : ∃ l, c'.roles = c.roles ++ l
  actors : ∃ l, c'.actors = c.actors ++ l

theorem Grows.findRole {c c' : Cfg} (h : Grows c c') {n : String} {r : Role}
    (hr : findRole c n = some r) : findRole c' n = some r := by
  obtain ⟨l, hl⟩ := h.roles
  simp only [Shk.Printer.findRole, hl] at hr ⊢
  exact find_append_stable _ _ _ hr

theorem Grows.findActor {c c' : Cfg} (h : Grows c c') {n : String} {a : Actor}
    (ha : findActor c n = some a) : findActor c' n = some a := by
  obtain ⟨l, hl⟩ := h.actors
  simp only [Shk.Printer.findActor, hl] at ha ⊢
  exact find_append_stable _ _ _ ha

theorem Grows.sigOk {c c' : Cfg} (h : Grows c c') {a s : String} (hs : SigOk c a s) : SigOk c' a s := by
  obtain ⟨act, r, h1, h2, h3⟩ := hs
  exact ⟨act, r, h.findActor h1, h.findRole h2, h3⟩

theorem Grows.sceneOk {c c' : Cfg} (h : Grows c c') {s : Scene} (hs : SceneOk c s) : SceneOk c' s := by
  obtain ⟨h1, h2, h3⟩ := hs
  refine ⟨h1, h2, fun e he => ?_⟩
  obtain ⟨a, r, ha, hr, hact⟩ := h3 e he
  exact ⟨a, r, h.findActor ha, h.findRole hr, hact⟩

theorem Grows.refl (c : Cfg) : Grows c c := ⟨⟨[], by simp⟩, ⟨[], by simp⟩⟩

theorem audStatic_grows {c c' : Cfg} (h : Grows c c') (hm : c'.members = c.members)
    (hs : AudStatic c c.members) : AudStatic c' c'.members := by
  rw [hm]
  have hv : ∀ v, VarStatic c c.members v → VarStatic c' c.members v := by
    intro v hv
    cases v with
    | comp n => exact hv
    | sig a s => exact h.sigOk hv
  exact ⟨hs.names, hs.m3, fun m hm c hc e he v hvv => ⟨hv v (hs.exVars m hm c hc e he v hvv).1,
    (hs.exVars m hm c hc e he v hvv).2⟩, hs.targets, fun m hm => ⟨(hs.obs m hm).1, fun v hvv => hv v ((hs.obs m hm).2 v hvv)⟩,
    hs.assignOk⟩

theorem audInv_grows {c c' : Cfg} (h : Grows c c') (hm : c'.members = c.members) (hs : AudInv c) : AudInv c' :=
  ⟨audStatic_grows h hm hs.static, by rw [hm]; exact hs.nonempty, by rw [hm]; exact hs.ranked⟩

/-! ## roles -/

theorem ritem_ok {r r' : Role} {it : RItem} (h : ritem r it = some r')
    (ha : (r.actions.map (·.1)).Nodup) (hs : (r.sigs.map (·.name)).Nodup) :
    (r'.actions.map (·.1)).Nodup ∧ (r'.sigs.map (·.name)).Nodup ∧ r'.name = r.name := by
  cases it with
  | action n cmd =>
    simp only [ritem] at h
    split at h
    · cases h
    · rename_i hn
      injection h with h; subst h
      refine ⟨?_, hs, rfl⟩
      simp only [List.map_append, List.map_cons, List.map_nil]
      rw [List.nodup_append]
      refine ⟨ha, by simp, ?_⟩
      intro x hx y hy
      simp at hy; subst hy
      intro e; subst e
      obtain ⟨z, hz, hze⟩ := List.mem_map.mp hx
      simp only [Bool.not_eq_true, List.any_eq_false, beq_iff_eq] at hn
      exact hn z hz hze
  | spotlight cmd => simp only [ritem] at h; injection h with h; subst h; exact ⟨ha, hs, rfl⟩
  | cleanup cmd => simp only [ritem] at h; injection h with h; subst h; exact ⟨ha, hs, rfl⟩
  | signal s =>
    simp only [ritem] at h
    split at h
    · cases h
    · rename_i hn
      injection h with h; subst h
      refine ⟨ha, ?_, rfl⟩
      simp only [List.map_append, List.map_cons, List.map_nil]
      rw [List.nodup_append]
      refine ⟨hs, by simp, ?_⟩
      intro x hx y hy
      simp at hy; subst hy
      intro e; subst e
      obtain ⟨z, hz, hze⟩ := List.mem_map.mp hx
      simp only [Bool.not_eq_true, List.any_eq_false, beq_iff_eq] at hn
      exact hn z hz hze

theorem ritems_ok : ∀ (items : List RItem) {r r' : Role}, ritems r items = some r' →
    (r.actions.map (·.1)).Nodup → (r.sigs.map (·.name)).Nodup →
    (r'.actions.map (·.1)).Nodup ∧ (r'.sigs.map (·.name)).Nodup ∧ r'.name = r.name := by
  intro items
  induction items with
  | nil => intro r r' h ha hs; simp [ritems] at h; subst h; exact ⟨ha, hs, rfl⟩
  | cons it items ih =>
    intro r r' h ha hs
    simp only [ritems] at h
    cases h1 : ritem r it with
    | none => simp [h1] at h
    | some r1 =>
      simp only [h1] at h
      obtain ⟨a1, s1, n1⟩ := ritem_ok h1 ha hs
      obtain ⟨a2, s2, n2⟩ := ih h a1 s1
      exact ⟨a2, s2, by rw [n2, n1]⟩

theorem headInv_fields {mt : String → Act → Bool} {c c' : Cfg} (h : HeadInv mt c)
    (h1 : c'.roles = c.roles) (h2 : c'.actors = c.actors) (h3 : c'.scenes = c.scenes)
    (h4 : c'.story = c.story) (h5 : c'.repFrom = c.repFrom) (h6 : c'.repAct = c.repAct) : HeadInv mt c' := by
  have hg : Grows c c' := ⟨⟨[], by simp [h1]⟩, ⟨[], by simp [h2]⟩⟩
  have hsd : sceneDefined c' = sceneDefined c := by funext ch; simp [sceneDefined, h3]
  refine ⟨by rw [h1]; exact h.roleNames, by rw [h1]; exact h.roles, by rw [h2]; exact h.actorNames, ?_,
    by rw [h3]; exact h.sceneChars, ?_, ?_, ?_⟩
  · rw [h2]; intro a ha
    obtain ⟨r, hr⟩ := h.actorRole a ha
    exact ⟨r, hg.findRole hr⟩
  · rw [h3]; intro s hs; exact hg.sceneOk (h.scenes s hs)
  · have : tblOf c' = tblOf c := by funext ch; simp [tblOf, hsd]
    simp only [StoryOk, this, h4]; exact h.story
  · rw [h5, h6, h4]; exact h.rep

theorem audInv_fields {c c' : Cfg} (h : AudInv c) (h1 : c'.roles = c.roles) (h2 : c'.actors = c.actors)
    (h3 : c'.members = c.members) : AudInv c' :=
  audInv_grows ⟨⟨[], by simp [h1]⟩, ⟨[], by simp [h2]⟩⟩ h3 h

theorem inv_stepRole {mt : String → Act → Bool} {c c' : Cfg} {name : String} {ext : Option String}
    {items : List RItem} (hinv : Inv mt c) (h : stepRole c name ext items = some c') : Inv mt c' := by
  simp only [stepRole] at h
  split at h
  · cases h
  · rename_i hnew
    cases hb : roleBase c name ext with
    | none => simp [hb] at h
    | some base =>
      simp only [hb] at h
      cases hi : ritems base items with
      | none => simp [hi] at h
      | some r =>
        simp only [hi] at h
        split at h
        · cases h
        · rename_i hsp
          injection h with h
          subst h
          -- the template is fine
          have hbase : (base.actions.map (·.1)).Nodup ∧ (base.sigs.map (·.name)).Nodup ∧ base.name = name := by
            cases ext with
            | none => simp [roleBase] at hb; subst hb; simp
            | some p =>
              simp only [roleBase] at hb
              cases hp : findRole c p with
              | none => simp [hp] at hb
              | some pr =>
                simp only [hp] at hb
                injection hb with hb; subst hb
                obtain ⟨hmem, _⟩ := findRole_mem hp
                obtain ⟨a, s, _⟩ := hinv.head.roles pr hmem
                exact ⟨a, s, rfl⟩
          obtain ⟨ra, rs, rn⟩ := ritems_ok items hi hbase.1 hbase.2.1
          have hrname : r.name = name := by rw [rn, hbase.2.2]
          have hrok : RoleOk r := by
            refine ⟨ra, rs, fun hne hsp' => ?_⟩
            apply hsp
            have : r.sigs.isEmpty = false := by cases hr : r.sigs <;> simp_all
            simp [this, hsp']
          have hg : Grows c { c with roles := c.roles ++ [r] } := ⟨⟨[r], rfl⟩, ⟨[], by simp⟩⟩
          refine ⟨⟨?_, ?_, hinv.head.actorNames, ?_, hinv.head.sceneChars, ?_, ?_, hinv.head.rep⟩,
            audInv_grows hg rfl hinv.aud⟩
          · simp only [List.map_append, List.map_cons, List.map_nil]
            rw [List.nodup_append]
            refine ⟨hinv.head.roleNames, by simp, ?_⟩
            intro x hx y hy
            simp at hy; subst hy
            intro e
            obtain ⟨z, hz, hze⟩ := List.mem_map.mp hx
            simp only [Bool.not_eq_true, List.any_eq_false, beq_iff_eq] at hnew
            exact hnew z hz (by rw [hze, e, hrname])
          · intro x hx
            rcases List.mem_append.mp hx with hx | hx
            · exact hinv.head.roles x hx
            · simp at hx; subst hx; exact hrok
          · intro a ha
            obtain ⟨r', hr'⟩ := hinv.head.actorRole a ha
            exact ⟨r', hg.findRole hr'⟩
          · intro s hs; exact hg.sceneOk (hinv.head.scenes s hs)
          · exact hinv.head.story

/-! ## cast -/

theorem inv_addActor {mt : String → Act → Bool} {c c' : Cfg} {a : Actor} (hinv : Inv mt c)
    (hr : ∃ r, findRole c a.role = some r) (h : addActor c a = some c') : Inv mt c' := by
  simp only [addActor] at h
  split at h
  · cases h
  · rename_i hnew
    injection h with h; subst h
    have hg : Grows c { c with actors := c.actors ++ [a] } := ⟨⟨[], by simp⟩, ⟨[a], rfl⟩⟩
    refine ⟨⟨hinv.head.roleNames, hinv.head.roles, ?_, ?_, hinv.head.sceneChars, ?_, hinv.head.story,
      hinv.head.rep⟩, audInv_grows hg rfl hinv.aud⟩
    · simp only [List.map_append, List.map_cons, List.map_nil]
      rw [List.nodup_append]
      refine ⟨hinv.head.actorNames, by simp, ?_⟩
      intro x hx y hy
      simp at hy; subst hy
      intro e
      obtain ⟨z, hz, hze⟩ := List.mem_map.mp hx
      simp only [Bool.not_eq_true, List.any_eq_false, beq_iff_eq] at hnew
      exact hnew z hz (by rw [hze, e])
    · intro x hx
      rcases List.mem_append.mp hx with hx | hx
      · exact hinv.head.actorRole x hx
      · simp at hx; subst hx; exact hr
    · intro s hs; exact hg.sceneOk (hinv.head.scenes s hs)

theorem addActor_roles {c c' : Cfg} {a : Actor} (h : addActor c a = some c') : c'.roles = c.roles := by
  simp only [addActor] at h
  split at h
  · cases h
  · injection h with h; subst h; rfl

theorem inv_addMany {mt : String → Act → Bool} (base role env : String) : ∀ (k i : Nat) (c c' : Cfg),
    Inv mt c → (∃ r, findRole c role = some r) → addMany base role env i k c = some c' → Inv mt c' := by
  intro k
  induction k with
  | zero => intro i c c' hinv _ h; simp [addMany] at h; subst h; exact hinv
  | succ k ih =>
    intro i c c' hinv hr h
    rw [addMany] at h
    split at h
    · rename_i c1 h1
      have hinv1 := inv_addActor hinv hr h1
      have hr1 : ∃ r, findRole c1 role = some r := by
        obtain ⟨r, hr⟩ := hr
        exact ⟨r, by simp only [findRole, addActor_roles h1] at hr ⊢; exact hr⟩
      exact ih (i + 1) c1 c' hinv1 hr1 h
    · cases h

theorem inv_stepCast {mt : String → Act → Bool} {c c' : Cfg} {name : String} {mul : Option Nat}
    {role env : String} (hinv : Inv mt c) (h : stepCast c name mul role env = some c') : Inv mt c' := by
  simp only [stepCast] at h
  cases mul with
  | none =>
    simp only at h
    cases hr : findRole c role with
    | none => simp [hr] at h
    | some r =>
      simp only [hr] at h
      have hrn := (findRole_mem hr).2
      exact inv_addActor hinv ⟨r, by simp only [hrn]; exact hr⟩ h
  | some n =>
    simp only at h
    cases hr : (findRole c role).or (findRole c (singular role)) with
    | none => simp [hr] at h
    | some r =>
      simp only [hr] at h
      have hmem : r ∈ c.roles := by
        cases h1 : findRole c role with
        | some x => rw [h1] at hr; simp at hr; subst hr; exact (findRole_mem h1).1
        | none => rw [h1] at hr; simp at hr; exact (findRole_mem hr).1
      exact inv_addMany name r.name env n 0 c c' hinv ⟨r, findRole_of_mem hinv.head.roleNames hmem⟩ h

/-! ## scenes -/

theorem mem_upsert {f : Scene → Scene} {ch : Char} {x : Scene} : ∀ {l : List Scene},
    x ∈ upsertScene f ch l → x ∈ l ∨ (∃ y ∈ l, y.ch = ch ∧ x = f y) ∨
      (ch ∉ l.map (·.ch) ∧ x = f (blankScene ch)) := by
  intro l
  induction l with
  | nil => intro h; simp [upsertScene] at h; exact Or.inr (Or.inr ⟨by simp, h⟩)
  | cons s l ih =>
    intro h
    simp only [upsertScene] at h
    split at h
    · rename_i hs
      rcases List.mem_cons.mp h with rfl | h
      · exact Or.inr (Or.inl ⟨s, List.mem_cons_self, hs, rfl⟩)
      · exact Or.inl (List.mem_cons_of_mem _ h)
    · rename_i hs
      rcases List.mem_cons.mp h with rfl | h
      · exact Or.inl List.mem_cons_self
      · rcases ih h with h1 | ⟨y, hy, hyc, rfl⟩ | ⟨h1, rfl⟩
        · exact Or.inl (List.mem_cons_of_mem _ h1)
        · exact Or.inr (Or.inl ⟨y, List.mem_cons_of_mem _ hy, hyc, rfl⟩)
        · refine Or.inr (Or.inr ⟨?_, rfl⟩)
          simp only [List.map_cons, List.mem_cons, not_or]
          exact ⟨fun e => hs e.symm, h1⟩

theorem chars_upsert {f : Scene → Scene} (hf : ∀ y, (f y).ch = y.ch) (ch : Char) : ∀ (l : List Scene),
    (upsertScene f ch l).map (·.ch) =
      if ch ∈ l.map (·.ch) then l.map (·.ch) else l.map (·.ch) ++ [ch] := by
  intro l
  induction l with
  | nil => simp [upsertScene, hf, blankScene]
  | cons s l ih =>
    simp only [upsertScene]
    split
    · rename_i hs; simp [hf, hs]
    · rename_i hs
      have : ¬ ch = s.ch := fun e => hs e.symm
      simp only [List.map_cons, ih, List.mem_cons, this, false_or]
      split <;> simp

theorem nodup_chars_upsert {f : Scene → Scene} (hf : ∀ y, (f y).ch = y.ch) (ch : Char) (l : List Scene)
    (h : (l.map (·.ch)).Nodup) : ((upsertScene f ch l).map (·.ch)).Nodup := by
  rw [chars_upsert hf]
  split
  · exact h
  · rename_i hn
    rw [List.nodup_append]
    refine ⟨h, by simp, ?_⟩
    intro x hx y hy
    simp at hy; subst hy
    exact fun e => hn (e ▸ hx)

theorem sceneDefined_upsert {f : Scene → Scene} (hf : ∀ y, (f y).ch = y.ch) (c : Cfg) (ch x : Char) :
    sceneDefined c x = true → sceneDefined { c with scenes := upsertScene f ch c.scenes } x = true := by
  intro h
  simp only [sceneDefined, List.any_eq_true, beq_iff_eq] at h ⊢
  obtain ⟨s, hs, hsx⟩ := h
  have : x ∈ (upsertScene f ch c.scenes).map (·.ch) := by
    rw [chars_upsert hf]
    split
    · exact List.mem_map.mpr ⟨s, hs, hsx⟩
    · exact List.mem_append_left _ (List.mem_map.mpr ⟨s, hs, hsx⟩)
  obtain ⟨y, hy, hyx⟩ := List.mem_map.mp this
  exact ⟨y, hy, hyx⟩

theorem storyOk_mono {c c' : Cfg} (hs : c'.story = c.story)
    (hd : ∀ x, sceneDefined c x = true → sceneDefined c' x = true) (h : StoryOk c) : StoryOk c' := by
  obtain ⟨h1, h2⟩ := h
  refine ⟨?_, by rw [hs]; exact h2⟩
  rw [hs]
  apply Shk.Story.ValidStory.mono _ h1
  intro ch hch
  simp only [tblOf] at hch ⊢
  cases hx : sceneDefined c ch with
  | true => simp [hd ch hx]
  | false => simp [hx] at hch

/-- a scene clause: the scene `ch` becomes `f (its old value)` -/
theorem inv_upsert {mt : String → Act → Bool} {c : Cfg} (hinv : Inv mt c) (f : Scene → Scene) (ch : Char)
    (hf : ∀ y, (f y).ch = y.ch)
    (hok : ∀ y, y.ch = ch → (y ∈ c.scenes ∨ y = blankScene ch) → Shk.Story.isShort ch = true →
      (y ∈ c.scenes → SceneOk c y) → SceneOk c (f y))
    (hch : Shk.Story.isShort ch = true) :
    Inv mt { c with scenes := upsertScene f ch c.scenes } := by
  refine ⟨⟨hinv.head.roleNames, hinv.head.roles, hinv.head.actorNames, hinv.head.actorRole, ?_, ?_, ?_,
    hinv.head.rep⟩, audInv_fields hinv.aud rfl rfl rfl⟩
  · exact nodup_chars_upsert hf ch c.scenes hinv.head.sceneChars
  · intro x hx
    have hso : ∀ y, SceneOk c y → SceneOk { c with scenes := upsertScene f ch c.scenes } y := fun y hy => hy
    rcases mem_upsert hx with h | ⟨y, hy, hyc, rfl⟩ | ⟨_, rfl⟩
    · exact hso x (hinv.head.scenes x h)
    · exact hso _ (hok y hyc (Or.inl hy) hch (fun _ => hinv.head.scenes y hy))
    · refine hso _ (hok (blankScene ch) rfl (Or.inr rfl) hch ?_)
      intro hmem; exact hinv.head.scenes _ hmem
  · exact storyOk_mono (c := c) (c' := { c with scenes := upsertScene f ch c.scenes }) rfl
      (sceneDefined_upsert hf c ch) hinv.head.story

theorem selectActors_spec {c : Cfg} (hnd : (c.actors.map (·.name)).Nodup) {t : Target} {r : Role}
    {as : List Actor} (h : selectActors c t = some (r, as)) :
    ∀ x ∈ as, findActor c x.name = some x ∧ findRole c x.role = some r := by
  cases t with
  | every ro =>
    simp only [selectActors] at h
    cases hr : findRole c ro with
    | none => simp [hr] at h
    | some r0 =>
      simp only [hr, Option.some.injEq, Prod.mk.injEq] at h
      obtain ⟨rfl, rfl⟩ := h
      intro x hx
      obtain ⟨hx1, hx2⟩ := List.mem_filter.mp hx
      have : x.role = ro := by simpa using hx2
      exact ⟨findActor_of_mem hnd hx1, by rw [this]; exact hr⟩
  | actor n =>
    simp only [selectActors] at h
    cases ha : findActor c n with
    | none => simp [ha] at h
    | some a =>
      simp only [ha] at h
      cases hr : findRole c a.role with
      | none => simp [hr] at h
      | some r0 =>
        simp only [hr, Option.some.injEq, Prod.mk.injEq] at h
        obtain ⟨rfl, rfl⟩ := h
        intro x hx
        simp at hx; subst hx
        obtain ⟨hm, hn⟩ := findActor_mem ha
        exact ⟨by rw [hn]; exact ha, hr⟩

theorem inv_entails {mt : String → Act → Bool} {c c' : Cfg} {ch : Char} {t : Target} {actions : List String}
    (hinv : Inv mt c) (h : step mt c (.entails ch t actions) = some c') : Inv mt c' := by
  simp only [step] at h
  split at h
  · cases h
  · rename_i hch
    have hch' : Shk.Story.isShort ch = true := by simpa using hch
    cases hs : selectActors c t with
    | none => simp [hs] at h
    | some ra =>
      obtain ⟨r, as⟩ := ra
      cases as with
      | nil => simp [hs] at h; subst h; exact hinv
      | cons a as =>
        simp only [hs] at h
        split at h
        · rename_i hact
          injection h with h; subst h
          have hspec := selectActors_spec hinv.head.actorNames hs
          refine inv_upsert hinv _ ch (fun y => rfl) ?_ hch'
          intro y hy hmem _ hyok
          refine ⟨by simp [addEntails, hy, hch'], Or.inl (by simp [addEntails]), ?_⟩
          intro e he
          simp only [addEntails, List.mem_append, List.mem_map] at he
          rcases he with he | ⟨nm, hnm, rfl⟩
          · rcases hmem with hm | rfl
            · exact (hyok hm).2.2 e he
            · simp [blankScene] at he
          · obtain ⟨x, hx, rfl⟩ := hnm
            obtain ⟨h1, h2⟩ := hspec x hx
            exact ⟨x, r, h1, h2, hact⟩
        · cases h

theorem inv_mood {mt : String → Act → Bool} {c c' : Cfg} {ch : Char} {starts : Bool} {m : String}
    (hinv : Inv mt c) (h : step mt c (.mood ch starts m) = some c') : Inv mt c' := by
  simp only [step] at h
  split at h
  · cases h
  · rename_i hc
    simp only [Bool.or_eq_true, Bool.not_eq_true', beq_iff_eq, not_or, Bool.not_eq_false] at hc
    injection h with h; subst h
    refine inv_upsert hinv _ ch (fun y => by simp only [setMood]; split <;> rfl) ?_ hc.1
    intro y hy hmem _ hyok
    have hent : (setMood starts m y).entails = y.entails := by simp only [setMood]; split <;> rfl
    have hchy : (setMood starts m y).ch = y.ch := by simp only [setMood]; split <;> rfl
    refine ⟨by rw [hchy, hy]; exact hc.1, ?_, ?_⟩
    · cases starts <;> simp [setMood, hc.2]
    · rw [hent]
      intro e he
      rcases hmem with hm | rfl
      · exact (hyok hm).2.2 e he
      · simp [blankScene] at he

/-! ## the storyline -/

theorem isShort_not_space {x : Char} (h : Shk.Story.isShort x = true) : Shk.Story.isPlain x = true := by
  have hlt : x.toNat < 128 := by
    simp only [Shk.Story.isShort, Bool.or_eq_true, Bool.and_eq_true, decide_eq_true_eq] at h
    have e1 : ('z' : Char).toNat = 122 := by decide
    have e2 : ('Z' : Char).toNat = 90 := by decide
    have e3 : ('9' : Char).toNat = 57 := by decide
    rcases h with (⟨_, h⟩ | ⟨_, h⟩) | ⟨_, h⟩
    · have : x.val.toNat ≤ ('z' : Char).val.toNat := UInt32.le_iff_toNat_le.mp h
      have e : x.toNat = x.val.toNat := rfl
      have e' : ('z' : Char).val.toNat = 122 := by decide
      omega
    · have : x.val.toNat ≤ ('Z' : Char).val.toNat := UInt32.le_iff_toNat_le.mp h
      have e : x.toNat = x.val.toNat := rfl
      have e' : ('Z' : Char).val.toNat = 90 := by decide
      omega
    · have : x.val.toNat ≤ ('9' : Char).val.toNat := UInt32.le_iff_toNat_le.mp h
      have e : x.toNat = x.val.toNat := rfl
      have e' : ('9' : Char).val.toNat = 57 := by decide
      omega
  have hsp : Shk.Story.isSpace x = false := by
    cases hs : Shk.Story.isSpace x with
    | false => rfl
    | true =>
      exfalso
      simp only [Shk.Story.isSpace, Bool.or_eq_true, beq_iff_eq] at hs
      rcases hs with ((((rfl | rfl) | rfl) | rfl) | rfl) | rfl <;> revert h <;> decide
  simp [Shk.Story.isPlain, hsp, hlt]

theorem piece_ne_nil {s1 s2 : List Char} (h : s1 ≠ []) : Shk.Story.piece s1 s2 ≠ [] := by
  unfold Shk.Story.piece
  by_cases h1 : s1 = ['.']
  · simp only [h1, if_true]
    by_cases h2 : s2 ≠ []
    · rw [if_pos h2]; exact h2
    · rw [if_neg h2]; simp
  · simp only [h1, if_false]
    intro h3
    exact h (List.append_eq_nil_iff.mp h3).1

theorem comb_ne_nil (c : Char) (a b : List Char) : Shk.Story.comb (c :: a) b ≠ [] := by
  rw [Shk.Story.comb]
  intro h
  have h1 := (List.append_eq_nil_iff.mp h).1
  exact piece_ne_nil (by simp [Shk.Story.extract]) h1

theorem combineStory_props {P : List Char → Prop} (hcomb : ∀ a b, P a → P b → P (Shk.Story.comb a b)) :
    ∀ (s1 s2 : List Act), (∀ a ∈ s1, P a) → (∀ b ∈ s2, P b) → ∀ x ∈ Shk.Story.combineStory s1 s2, P x := by
  intro s1
  induction s1 with
  | nil => intro s2 _ h2 x hx; simp [Shk.Story.combineStory] at hx; exact h2 x hx
  | cons a s1 ih =>
    intro s2 h1 h2 x hx
    cases s2 with
    | nil => simp [Shk.Story.combineStory] at hx; exact h1 x (by simpa using hx)
    | cons b s2 =>
      simp only [Shk.Story.combineStory, List.mem_cons] at hx
      rcases hx with rfl | hx
      · exact hcomb a b (h1 a (by simp)) (h2 b (by simp))
      · exact ih s2 (fun y hy => h1 y (by simp [hy])) (fun y hy => h2 y (by simp [hy])) x hx

/-- the acts a `storyline` / `edit` clause yields -/
theorem validate_storyOk {mt : String → Act → Bool} {c : Cfg} (hinv : Inv mt c) {text : List Char}
    {acts : List Act} (h : Shk.Story.validate (sceneDefined c) text = .ok acts) :
    Shk.Story.ValidStory (tblOf c) acts ∧ ∀ a ∈ acts, a ≠ [] ∧ ∀ x ∈ a, Shk.Story.isPlain x = true := by
  rw [← defd_tblOf] at h
  have hv := Shk.Story.validate_valid h
  refine ⟨hv, fun a ha => ?_⟩
  obtain ⟨hacts, _⟩ := (Shk.Story.validate_iff _ _ _).mp h
  rw [hacts] at ha
  refine ⟨(Shk.Story.mem_writtenActs ha).1, fun x hx => ?_⟩
  rw [← hacts] at ha
  rcases ((hv a ha).2 x hx).2 with rfl | rfl | hd
  · decide
  · decide
  · apply isShort_not_space
    simp only [tblOf] at hd
    cases hsd : sceneDefined c x with
    | false => simp [hsd] at hd
    | true =>
      simp only [sceneDefined, List.any_eq_true, beq_iff_eq] at hsd
      obtain ⟨s, hs, rfl⟩ := hsd
      exact (hinv.head.scenes s hs).1

theorem inv_story {mt : String → Act → Bool} {c : Cfg} (hinv : Inv mt c) (st : List Act)
    (hst : Shk.Story.ValidStory (tblOf c) st ∧ ∀ a ∈ st, a ≠ [] ∧ ∀ x ∈ a, Shk.Story.isPlain x = true) :
    Inv mt (updateRepeat mt { c with story := st }) := by
  have hhead : HeadInv mt { c with story := st, repAct := (updateRepeat mt { c with story := st }).repAct } := by
    refine ⟨hinv.head.roleNames, hinv.head.roles, hinv.head.actorNames, hinv.head.actorRole,
      hinv.head.sceneChars, hinv.head.scenes, hst, ?_⟩
    intro re hre
    simp only [updateRepeat]
    have : c.repFrom = some re := hre
    simp [this]
  have heq : updateRepeat mt { c with story := st } =
      { c with story := st, repAct := (updateRepeat mt { c with story := st }).repAct } := by
    simp only [updateRepeat]
    cases c.repFrom <;> rfl
  rw [heq]
  exact ⟨hhead, audInv_fields hinv.aud rfl rfl rfl⟩

theorem inv_storyline {mt : String → Act → Bool} {c c' : Cfg} {text : List Char}
    (hinv : Inv mt c) (h : step mt c (.storyline text) = some c') : Inv mt c' := by
  simp only [step] at h
  cases hv : Shk.Story.validate (sceneDefined c) text with
  | error e => simp [hv] at h
  | ok acts =>
    simp only [hv] at h
    injection h with h; subst h
    obtain ⟨h1, h2⟩ := validate_storyOk hinv hv
    refine inv_story hinv _ ⟨Shk.Story.combineStory_valid _ _ hinv.head.story.1 h1, ?_⟩
    refine combineStory_props (P := fun a => a ≠ [] ∧ ∀ x ∈ a, Shk.Story.isPlain x = true) ?_ _ _
      hinv.head.story.2 h2
    intro a b ha hb
    refine ⟨?_, fun x hx => ?_⟩
    · cases a with
      | nil => exact absurd rfl ha.1
      | cons c a => exact comb_ne_nil c a b
    · rcases Shk.Story.mem_comb a b hx with h | h | rfl | rfl
      · exact ha.2 x h
      · exact hb.2 x h
      · decide
      · decide

theorem inv_edit {mt : String → Act → Bool} {c c' : Cfg} {f : List Char → List Char}
    (hinv : Inv mt c) (h : step mt c (.edit f) = some c') : Inv mt c' := by
  simp only [step] at h
  cases hv : Shk.Story.validate (sceneDefined c) (f (Shk.Story.joinSp c.story)) with
  | error e => simp [hv] at h
  | ok acts =>
    simp only [hv] at h
    injection h with h; subst h
    exact inv_story hinv _ (validate_storyOk hinv hv)

theorem inv_repeatFrom {mt : String → Act → Bool} {c : Cfg} (re : String) (hinv : Inv mt c) :
    Inv mt (updateRepeat mt { c with repFrom := some re }) := by
  simp only [updateRepeat]
  exact ⟨⟨hinv.head.roleNames, hinv.head.roles, hinv.head.actorNames, hinv.head.actorRole,
    hinv.head.sceneChars, hinv.head.scenes, hinv.head.story, fun re' h => by
      injection h with h; subst h; rfl⟩, audInv_fields hinv.aud rfl rfl rfl⟩

end Shk.Printer
