import ShkModel.Model.Escape
/-! Helper lemmas for the `escapeNl` round trip (C10). -/
namespace Shk.Escape
open Shk.Preproc Shk.Reader

theorem endsBackslash_snoc (c : Bytes) (b : Nat) : endsBackslash (c ++ [b]) = (b == 92) := by
  simp [endsBackslash]

theorem endsBackslash_append_cons (c : Bytes) (b : Nat) (t : Bytes) :
    endsBackslash (c ++ b :: t) = endsBackslash (b :: t) := by
  unfold endsBackslash
  rw [List.getLast?_append]
  cases h : (b :: t).getLast? with
  | none => simp at h
  | some x => simp

theorem endsBackslash_nl_cons (t : Bytes) : endsBackslash (10 :: t) = endsBackslash t := by
  cases t with
  | nil => simp [endsBackslash]
  | cons x xs => simp [endsBackslash, List.getLast?_cons_cons]

theorem fin_nl (c t : Bytes) : fin (c ++ 10 :: t) = fin t := by
  unfold fin; rw [endsBackslash_append_cons, endsBackslash_nl_cons]

/-- the reader joins the physical lines of an escaped text back into the text -/
theorem gather_escape (tail : Bytes) (bad : Bool) (rest : List Bytes) :
    ∀ (t cur acc : Bytes) (k : Nat),
      gather tail bad acc (splitNl cur (escBody t ++ fin (cur ++ t)) ++ rest) k
        = .line (acc ++ cur ++ t ++ fin (cur ++ t)) rest (k + nls t + 1) false := by
  intro t
  induction t with
  | nil =>
    intro cur acc k
    simp only [escBody, List.nil_append, List.append_nil, nls, Nat.add_zero]
    unfold fin
    by_cases h : endsBackslash cur = true
    · simp [h, splitNl, gather, endsBackslash_snoc, List.append_assoc]
    · simp [h, splitNl, gather]
  | cons b t ih =>
    intro cur acc k
    by_cases hb : b = 10
    · subst hb
      have : escBody (10 :: t) = 92 :: 10 :: escBody t := by simp [escBody]
      rw [this, fin_nl]
      have h2 : splitNl cur (92 :: 10 :: escBody t ++ fin t) = (cur ++ [92]) :: splitNl [] (escBody t ++ fin ([] ++ t)) := by
        simp [splitNl]
      rw [h2, List.cons_append]
      unfold gather
      rw [if_pos (by simp [endsBackslash_snoc])]
      have h3 : acc ++ (cur ++ [92]).dropLast ++ [10] = acc ++ cur ++ [10] := by simp
      rw [h3, ih [] (acc ++ cur ++ [10]) (k + 1)]
      simp [nls, List.append_assoc]; omega
    · have : escBody (b :: t) = b :: escBody t := by simp [escBody, hb]
      rw [this]
      have h2 : splitNl cur (b :: escBody t ++ fin (cur ++ b :: t)) = splitNl (cur ++ [b]) (escBody t ++ fin ((cur ++ [b]) ++ t)) := by
        simp [splitNl, hb]
      rw [h2, ih (cur ++ [b]) acc k]
      simp [nls, hb, List.append_assoc]

end Shk.Escape

namespace Shk.Escape
open Shk.Preproc Shk.Reader

theorem splitNl_prefix (pre : Bytes) (h : 10 ∉ pre) : ∀ (cur x : Bytes),
    splitNl cur (pre ++ x) = splitNl (cur ++ pre) x := by
  induction pre with
  | nil => intro cur x; simp
  | cons b p ih =>
    intro cur x
    have hb : b ≠ 10 := fun e => h (by simp [e])
    have hp : 10 ∉ p := fun e => h (by simp [e])
    simp only [List.cons_append, splitNl, hb, if_false]
    rw [ih hp]; simp [List.append_assoc]

theorem nls_prefix (pre : Bytes) (h : 10 ∉ pre) (t : Bytes) : nls (pre ++ t) = nls t := by
  induction pre with
  | nil => simp
  | cons b p ih =>
    have hb : b ≠ 10 := fun e => h (by simp [e])
    have hp : 10 ∉ p := fun e => h (by simp [e])
    simp [nls, hb, ih hp]

theorem fin_prefix (pre t : Bytes) (h : t ≠ [] ∨ endsBackslash pre = false) : fin (pre ++ t) = fin t := by
  cases t with
  | nil =>
    cases h with
    | inl h => exact absurd rfl h
    | inr h => simp [fin, h, show endsBackslash [] = false from rfl]
  | cons b t => unfold fin; rw [endsBackslash_append_cons]

end Shk.Escape
