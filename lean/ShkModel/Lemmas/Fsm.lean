import ShkModel.Model.Fsm
/-! Helper lemmas for C01: the implementation monitors compute `disappointed` / `endsGood`;
certificate soundness; each spec monitor computes the plain meaning. Code-independent. -/
namespace Shk
open Table

theorem implMon_run (T : Table) (s : Nat) (bad : Bool) (l : List Bool) :
    (implMon T).run (s, bad) l = (bad || (T.period s l).any Rep.isBad) := by
  induction l generalizing s bad with
  | nil => simp [Mon.run, implMon, Table.period]
  | cons b l ih =>
    simp only [Mon.run, Table.period, List.any_cons]
    have := ih (T.fire s (lbl b)).1 (bad || (T.fire s (lbl b)).2.isBad)
    simp only [implMon] at this ⊢
    rw [this, Bool.or_assoc]

theorem implMon_spec (T : Table) (l : List Bool) :
    (implMon T).run (implMon T).init l = T.disappointed l := by
  have := implMon_run T T.start false l
  simpa [Table.disappointed, implMon] using this

theorem period_ne_nil (T : Table) (s : Nat) (l : List Bool) : T.period s l ≠ [] := by
  cases l <;> simp [Table.period]

theorem period_getLast (T : Table) (s : Nat) (b : Bool) (l : List Bool) :
    (T.period s (b :: l)).getLast? = (T.period (T.fire s (lbl b)).1 l).getLast? := by
  simp only [Table.period]
  rw [List.getLast?_cons_of_ne_nil (period_ne_nil T _ l)]

theorem implEndMon_run (T : Table) (s : Nat) (bad : Bool) (l : List Bool) :
    (implEndMon T).run (s, bad) l =
      (!(bad || (T.period s l).any Rep.isBad) && !((T.period s l).getLast? == some Rep.good)) := by
  induction l generalizing s bad with
  | nil =>
    simp only [Mon.run, implEndMon, Table.period, List.any_cons, List.any_nil, Bool.or_false,
      List.getLast?_singleton]
    cases (T.fire s 2).2 <;> simp [Rep.isGood, Rep.isBad]
  | cons b l ih =>
    have h := ih (T.fire s (lbl b)).1 (bad || (T.fire s (lbl b)).2.isBad)
    simp only [Mon.run]
    rw [period_getLast]
    simp only [Table.period, List.any_cons]
    simp only [implEndMon] at h ⊢
    rw [h, Bool.or_assoc]

theorem implEndMon_spec (T : Table) (l : List Bool) :
    (implEndMon T).run (implEndMon T).init l = (!T.disappointed l && !T.endsGood l) := by
  have := implEndMon_run T T.start false l
  simpa [Table.disappointed, Table.endsGood, implEndMon] using this

theorem cert_sound {σ τ} [BEq σ] [BEq τ] [LawfulBEq σ] [LawfulBEq τ]
    (a : Mon σ) (b : Mon τ) (c : List (σ × τ)) (h : certOk a b c = true) :
    ∀ l, a.run a.init l = b.run b.init l := by
  simp only [certOk, Bool.and_eq_true] at h
  obtain ⟨h0, hall⟩ := h
  have key : ∀ (l : List Bool) (s : σ) (t : τ), (s, t) ∈ c → a.run s l = b.run t l := by
    intro l
    induction l with
    | nil =>
      intro s t hm
      have := List.all_eq_true.mp hall (s, t) hm
      simp at this
      simpa [Mon.run] using this.1.1
    | cons x xs ih =>
      intro s t hm
      have := List.all_eq_true.mp hall (s, t) hm
      simp at this
      cases x with
      | true => exact ih _ _ this.1.2
      | false => exact ih _ _ this.2
  intro l
  exact key l _ _ (by simpa using h0)

theorem equiv_sound {σ τ} [BEq σ] [BEq τ] [LawfulBEq σ] [LawfulBEq τ]
    (a : Mon σ) (b : Mon τ) (h : equivCheck a b = true) :
    ∀ l, a.run a.init l = b.run b.init l :=
  cert_sound a b _ (by simpa [equivCheck] using h)

/-- the monitor that never complains -/
def specFalse : Mon Unit := ⟨(), fun _ _ => (), fun _ => false⟩

theorem specFalse_run (l : List Bool) : specFalse.run () l = false := by
  induction l with
  | nil => rfl
  | cons b l ih => simpa [Mon.run, specFalse] using ih

/-! ### spec monitors compute the meaning (output = "violates") -/

theorem specAlways_run (v : Bool) (l : List Bool) : specAlways.run v l = (v || !(l.all id)) := by
  induction l generalizing v with
  | nil => simp [Mon.run, specAlways]
  | cons b l ih =>
    simp only [Mon.run, specAlways] at ih ⊢
    rw [ih]; cases v <;> cases b <;> simp

theorem specNever_run (v : Bool) (l : List Bool) : specNever.run v l = (v || !(l.all not)) := by
  induction l generalizing v with
  | nil => simp [Mon.run, specNever]
  | cons b l ih =>
    simp only [Mon.run, specNever] at ih ⊢
    rw [ih]; cases v <;> cases b <;> simp

theorem specNotAlways_run (v : Bool) (l : List Bool) :
    specNotAlways.run v l = !(v || l.any not) := by
  induction l generalizing v with
  | nil => simp [Mon.run, specNotAlways]
  | cons b l ih =>
    simp only [Mon.run, specNotAlways] at ih ⊢
    rw [ih]; cases v <;> cases b <;> simp

theorem specEventually_run (v : Bool) (l : List Bool) :
    specEventually.run v l = !(v || l.any id) := by
  induction l generalizing v with
  | nil => simp [Mon.run, specEventually]
  | cons b l ih =>
    simp only [Mon.run, specEventually] at ih ⊢
    rw [ih]; cases v <;> cases b <;> simp

theorem Mon.run_nil {σ} (a : Mon σ) (s : σ) : a.run s [] = a.out s := rfl
theorem Mon.run_cons {σ} (a : Mon σ) (s : σ) (b : Bool) (l : List Bool) :
    a.run s (b :: l) = a.run (a.step s b) l := rfl

theorem sAE_step (s : Nat) (b : Bool) : specAlwaysEventually.step s b = if b then 1 else 2 := rfl
theorem sAE_out (s : Nat) : specAlwaysEventually.out s = (s != 1) := rfl

theorem specAlwaysEventually_run (s : Nat) (l : List Bool) :
    specAlwaysEventually.run s l = !((l.getLast?).getD (s == 1)) := by
  induction l generalizing s with
  | nil => simp [Mon.run_nil, sAE_out, bne]
  | cons b l ih =>
    rw [Mon.run_cons, ih, sAE_step]
    cases l with
    | nil => cases b <;> simp
    | cons c l =>
      have : ∀ (d : Bool), ((c :: l).getLast?).getD d = (c :: l).getLast (by simp) := by
        intro d; rw [List.getLast?_eq_some_getLast (by simp)]; rfl
      rw [List.getLast?_cons_cons, this, this]

theorem sEA_step0 (b : Bool) : specEventuallyAlways.step 0 b = if b then 1 else 0 := rfl
theorem sEA_step1 (b : Bool) : specEventuallyAlways.step 1 b = if b then 1 else 2 := rfl
theorem sEA_step2 (b : Bool) : specEventuallyAlways.step 2 b = 2 := rfl
theorem sEA_out (s : Nat) : specEventuallyAlways.out s = (s != 1) := rfl

theorem specEventuallyAlways_run2 (l : List Bool) : specEventuallyAlways.run 2 l = true := by
  induction l with
  | nil => simp [Mon.run_nil, sEA_out]
  | cons b l ih => rw [Mon.run_cons, sEA_step2, ih]

theorem specEventuallyAlways_run1 (l : List Bool) : specEventuallyAlways.run 1 l = !(l.all id) := by
  induction l with
  | nil => simp [Mon.run_nil, sEA_out]
  | cons b l ih =>
    rw [Mon.run_cons, sEA_step1]
    cases b with
    | true => simpa using ih
    | false => simpa using specEventuallyAlways_run2 l

theorem specEventuallyAlways_run0 (l : List Bool) :
    specEventuallyAlways.run 0 l = !(meaning .eventuallyAlways l) := by
  induction l with
  | nil => simp [Mon.run_nil, sEA_out, meaning]
  | cons b l ih =>
    rw [Mon.run_cons, sEA_step0]
    cases b with
    | true => simp [meaning, specEventuallyAlways_run1]
    | false => simpa [meaning] using ih

theorem sC_step (k n : Nat) (b : Bool) :
    (specCount k).step n b = if b then min (n+1) (k+1) else n := rfl
theorem sC_out (k n : Nat) : (specCount k).out n = (n != k) := rfl

theorem specCount_run (k n : Nat) (l : List Bool) (hn : n ≤ k + 1) :
    (specCount k).run n l = (min (n + l.count true) (k + 1) != k) := by
  induction l generalizing n with
  | nil => rw [Mon.run_nil, sC_out]; simp; congr 1; omega
  | cons b l ih =>
    rw [Mon.run_cons, sC_step]
    cases b with
    | true =>
      rw [if_pos rfl, ih _ (by omega)]
      simp only [List.count_cons_self]
      congr 1; omega
    | false =>
      rw [if_neg (by simp), ih _ hn]
      simp

theorem sAMO_step (n : Nat) (b : Bool) :
    specAtMostOnce.step n b = if b then min (n+1) 2 else n := rfl
theorem sAMO_out (n : Nat) : specAtMostOnce.out n = (n == 2) := rfl

theorem specAtMostOnce_run (n : Nat) (l : List Bool) (hn : n ≤ 2) :
    specAtMostOnce.run n l = (min (n + l.count true) 2 == 2) := by
  induction l generalizing n with
  | nil =>
    rw [Mon.run_nil, sAMO_out]
    have : min (n + List.count true ([] : List Bool)) 2 = n := by simp; omega
    rw [this]
  | cons b l ih =>
    rw [Mon.run_cons, sAMO_step]
    cases b with
    | true =>
      rw [if_pos rfl, ih _ (by omega)]
      simp only [List.count_cons_self]
      congr 1; omega
    | false =>
      rw [if_neg (by simp), ih _ hn]
      simp

theorem min_bne_eq (c k : Nat) : (min c (k + 1) != k) = !(c == k) := by
  by_cases h : c = k
  · subst h
    have : min c (c + 1) = c := by omega
    rw [this]; rfl
  · have h0 : min c (k + 1) ≠ k := by omega
    have h1 : (min c (k + 1) != k) = true := bne_iff_ne.mpr h0
    have h2 : (c == k) = false := beq_false_of_ne h
    rw [h1, h2]; rfl

theorem min_two_beq (c : Nat) : (min c 2 == 2) = !(decide (c ≤ 1)) := by
  by_cases h : c ≤ 1
  · have h0 : min c 2 ≠ 2 := by omega
    rw [beq_false_of_ne h0, decide_eq_true h]; rfl
  · have h0 : min c 2 = 2 := by omega
    rw [h0, decide_eq_false h]; rfl

end Shk
