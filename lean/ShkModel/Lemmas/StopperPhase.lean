import ShkModel.Lemmas.StopperBal
/-! What steps never undo; facts tied to finished Quiesce / Stop calls; cancel functions; closers; workers; markers. -/
namespace Shk.Stopper

def AllEv (P : Ev → Prop) (es : List Ev) : Prop := ∀ e ∈ es, P e
theorem allEv_nil {P} : AllEv P [] := by intro e he; cases he
theorem allEv_append {P} {a b : List Ev} (ha : AllEv P a) (hb : AllEv P b) : AllEv P (a ++ b) := by
  intro e he
  rcases List.mem_append.mp he with he | he
  · exact ha e he
  · exact hb e he
theorem allEv_single {P} {e : Ev} (h : P e) : AllEv P [e] := by
  intro e' he; simp at he; subst he; exact h
theorem allEv_cancelEvs {P} {s0 : St} {ids : List Nat} {c : Nat} (h : ∀ x, P (s0.ev .cancelled x c 0)) :
    AllEv P (s0.cancelEvs ids c) := by
  intro e he
  obtain ⟨x, _, rfl⟩ := List.mem_map.mp he
  exact h x

theorem has_cancelEvs_self (s : St) (ids : List Nat) (c : Nat) (i : Nat) :
    has (s.cancelEvs ids c) .cancelled i = decide (i ∈ ids) :=
  has_map_self ids _ .cancelled i (fun _ => rfl) (fun _ => rfl)

theorem has_quiesceEvs_self (s : St) (who i : Nat) (h : i ∈ s.qCancels) : has (s.quiesceEvs who) .cancelled i = true := by
  unfold St.quiesceEvs
  rw [has_append, has_cancelEvs_self]; simp [h]

/-- what a step never undoes -/
structure Mono (s s' : St) : Prop where
  q : s.quiescing = true → s'.quiescing = true
  sc : s.sClosed = true → s'.sClosed = true
  dc : s.dClosed = true → s'.dClosed = true
  tasks0 : s.quiescing = true → s.numTasks = 0 → s'.numTasks = 0
  rank : s.sp.rank ≤ s'.sp.rank
  news : ∃ es, s'.log = s.log ++ es ∧ AllEv (fun e => s.sClosed = true → e.s = true) es
  qfire : s'.quiescing = s.quiescing ∨ (∀ c ∈ s.qCancels, has s'.log .cancelled c = true)
  sfire : s'.sClosed = s.sClosed ∨ (∀ c ∈ s.sCancels, has s'.log .cancelled c = true)
  wgate : s.sp.rank < 5 → 5 ≤ s'.sp.rank → s.wg = 0
  rank1 : s'.sp.rank ≤ s.sp.rank + 1

macro "news_finish" : tactic =>
  `(tactic| (
    try simp only [St.upd, St.quiesceEvs]
    repeat' (apply allEv_append)
    all_goals first
      | exact allEv_nil
      | (apply allEv_single; simp [St.ev]; done)
      | (apply allEv_cancelEvs; intro x; simp [St.ev]; done)
      | (split <;> first | exact allEv_nil | (apply allEv_single; simp [St.ev]; done))))

theorem mono_go {s s' : St} {i : Nat} {t : Thread} (h : goStep s i t = some s') (p : Ph s) : Mono s s' := by
  have hidle := p.idle
  obtain ⟨kind, pc, ret⟩ := t
  go_cases h
  all_goals (
    refine ⟨?_, ?_, ?_, ?_, ?_, ⟨_, rfl, by news_finish⟩, ?_, ?_, ?_, ?_⟩
    all_goals (simp_all [St.upd] <;> first | done | omega | skip)
    all_goals first
      | (right; intro c hc; simp [has_quiesceEvs_self _ _ _ hc]; done)
      | (right; intro c hc; simp [has_cancelEvs_self, hc]; done)
      | skip)

theorem mono_step {s s' : St} {i : Nat} {a : Act} (h : step s i a = some s') (p : Ph s) : Mono s s' := by
  obtain ⟨t, ht, ⟨_, hg⟩ | ⟨_, hg⟩ | ⟨_, hg⟩⟩ := step_elim h
  · exact mono_go hg p
  · obtain ⟨v, _, _, rfl⟩ := retStep_elim hg
    refine ⟨fun h => h, fun h => h, fun h => h, fun _ h => h, Nat.le_refl _, ⟨_, rfl, allEv_single ?_⟩, Or.inl rfl, Or.inl rfl, ?_, Nat.le_succ _⟩
    · simp [St.ev]
    · intro h1 h2; simp only [St.upd] at h2; omega
  · obtain ⟨kind, pc, ret⟩ := t
    alt_cases hg
    all_goals (
      refine ⟨fun h => h, fun h => h, fun h => h, fun _ h => h, Nat.le_refl _, ⟨_, rfl, by news_finish⟩, Or.inl rfl, Or.inl rfl, ?_, Nat.le_succ _⟩
      intro h1 h2; simp only [St.upd] at h2; omega)

theorem mono_spawn (s : St) (k : Kind) : Mono s (spawn s k) :=
  ⟨fun h => h, fun h => h, fun h => h, fun _ h => h, Nat.le_refl _,
    ⟨_, rfl, allEv_single (by simp [St.ev])⟩, Or.inl rfl, Or.inl rfl, by intro h1 h2; simp only [spawn] at h2; omega, Nat.le_succ _⟩

end Shk.Stopper
