import ShkModel.Model.Story
/-! Helper lemmas for C06 (storyline merge, validation, compilation). -/
namespace Shk.Story

/-! ## Well-formed acts and the implementation's own view of columns -/

def scenes (u : List Char) : List Char := u.filter fun c => c != '+' && c != '.'

/-- columns as `extractAction` cuts them -/
def cols : List Char → List (List Char)
  | [] => []
  | c :: a => scenes (extract (c :: a)).1 :: cols (extract (c :: a)).2
termination_by a => a.length
decreasing_by exact extract_len c a

/-- `(+d)*` -/
inductive IsTail : List Char → Prop
  | nil : IsTail []
  | cons (d : Char) (m : List Char) : d ≠ '+' → IsTail m → IsTail ('+' :: d :: m)

/-- a well-formed act: a sequence of units `c(+d)*` with `c, d ≠ '+'` -/
inductive Wf : List Char → Prop
  | nil : Wf []
  | cons (c : Char) (m a : List Char) : c ≠ '+' → IsTail m → Wf a → Wf (c :: (m ++ a))

theorem Wf.head_ne {a : List Char} (h : Wf a) : ∀ x r, a = x :: r → x ≠ '+' := by
  cases h with
  | nil => intro x r h; cases h
  | cons c m a hc _ _ => intro x r h; injection h with h1 _; subst h1; exact hc

theorem more_append {m : List Char} (hm : IsTail m) (rest : List Char)
    (hr : ∀ x r, rest = x :: r → x ≠ '+') : more (m ++ rest) = (m, rest) := by
  induction hm with
  | nil =>
    cases rest with
    | nil => simp [more]
    | cons x r =>
      have hx := hr x r rfl
      simp only [List.nil_append]
      unfold more
      split
      · rename_i heq; injection heq with h1 _; exact absurd h1.symm (by simpa using hx.symm) |> False.elim
      · rfl
  | cons d m hd _ ih =>
    simp only [List.cons_append, more, ih]

theorem extract_unit (c : Char) {m : List Char} (hm : IsTail m) (rest : List Char)
    (hr : ∀ x r, rest = x :: r → x ≠ '+') : extract (c :: (m ++ rest)) = (c :: m, rest) := by
  simp [extract, more_append hm rest hr]

theorem cols_unit (c : Char) {m : List Char} (hm : IsTail m) {rest : List Char} (hw : Wf rest) :
    cols (c :: (m ++ rest)) = scenes (c :: m) :: cols rest := by
  rw [cols, extract_unit c hm rest hw.head_ne]

theorem IsTail.append {m n : List Char} (hm : IsTail m) (hn : IsTail n) : IsTail (m ++ n) := by
  induction hm with
  | nil => simpa
  | cons d m hd _ ih => exact IsTail.cons d _ hd ih

theorem scenes_append (a b : List Char) : scenes (a ++ b) = scenes a ++ scenes b := by
  simp [scenes]

/-- the merged unit: again a unit, and it denotes the union -/
theorem piece_unit (c1 : Char) {m1 : List Char} (h1 : c1 ≠ '+') (t1 : IsTail m1)
    (u2 : List Char) (h2 : u2 = [] ∨ ∃ c2 m2, u2 = c2 :: m2 ∧ c2 ≠ '+' ∧ IsTail m2) :
    ∃ c m, piece (c1 :: m1) u2 = c :: m ∧ c ≠ '+' ∧ IsTail m ∧
      scenes (c :: m) = scenes (c1 :: m1) ++ scenes u2 := by
  rcases h2 with rfl | ⟨c2, m2, rfl, hc2, t2⟩
  · by_cases hd : c1 :: m1 = ['.']
    · refine ⟨'.', [], ?_, by decide, IsTail.nil, ?_⟩
      · simp [piece, hd]
      · rw [hd]; simp [scenes]
    · refine ⟨c1, m1, ?_, h1, t1, ?_⟩
      · simp [piece, hd]
      · simp [scenes]
  · by_cases hd : c1 :: m1 = ['.']
    · refine ⟨c2, m2, ?_, hc2, t2, ?_⟩
      · simp [piece, hd]
      · rw [hd]; simp [scenes]
    · by_cases hd2 : c2 :: m2 = ['.']
      · refine ⟨c1, m1, ?_, h1, t1, ?_⟩
        · simp [piece, hd, hd2]
        · rw [hd2]; simp [scenes]
      · refine ⟨c1, m1 ++ '+' :: c2 :: m2, ?_, h1, t1.append (IsTail.cons c2 m2 hc2 t2), ?_⟩
        · simp [piece, hd, hd2]
        · rw [← List.cons_append, scenes_append]
          congr 1

theorem Wf.unit_or_nil {b : List Char} (h : Wf b) :
    (b = [] ∧ extract b = ([], [])) ∨
    ∃ c m b', b = c :: (m ++ b') ∧ c ≠ '+' ∧ IsTail m ∧ Wf b' ∧ extract b = (c :: m, b') := by
  cases h with
  | nil => left; simp [extract]
  | cons c m a hc hm ha => right; exact ⟨c, m, a, rfl, hc, hm, ha, extract_unit c hm a ha.head_ne⟩

theorem comb_wf_cols {a : List Char} (ha : Wf a) : ∀ {b : List Char}, Wf b →
    Wf (comb a b) ∧ cols (comb a b) = zipLong (cols a) (cols b) := by
  induction ha with
  | nil => intro b hb; simp [comb, cols, zipLong, hb]
  | cons c m a' hc hm ha' ih =>
    intro b hb
    have e1 := extract_unit c hm a' ha'.head_ne
    rw [comb, e1]
    rcases hb.unit_or_nil with ⟨rfl, e2⟩ | ⟨c2, m2, b', rfl, hc2, hm2, hb', e2⟩
    · rw [e2]
      obtain ⟨pc, pm, hp, hpc, hpm, hps⟩ := piece_unit c hc hm [] (Or.inl rfl)
      obtain ⟨hw, hcols⟩ := ih Wf.nil
      rw [hp, List.cons_append]
      refine ⟨Wf.cons pc pm _ hpc hpm hw, ?_⟩
      rw [cols_unit pc hpm hw, hps, hcols, cols_unit c hm ha']
      simp [cols, scenes, zipLong]
      cases cols a' <;> simp [zipLong]
    · rw [e2]
      obtain ⟨pc, pm, hp, hpc, hpm, hps⟩ :=
        piece_unit c hc hm (c2 :: m2) (Or.inr ⟨c2, m2, rfl, hc2, hm2⟩)
      obtain ⟨hw, hcols⟩ := ih hb'
      rw [hp, List.cons_append]
      refine ⟨Wf.cons pc pm _ hpc hpm hw, ?_⟩
      rw [cols_unit pc hpm hw, hps, hcols, cols_unit c hm ha', cols_unit c2 hm2 hb']
      simp [zipLong]

/-! ## The specification's columns agree with the implementation's on well-formed acts -/

theorem scenes_cons {c : Char} (hc : c ≠ '+') (m : List Char) :
    scenes (c :: m) = position c ++ scenes m := by
  by_cases hd : c = '.'
  · subst hd; simp [scenes, position]
  · simp [scenes, position, hc, hd]

theorem scenes_plus (m : List Char) : scenes ('+' :: m) = scenes m := by
  simp [scenes]

theorem Wf.no_plus_head {a : List Char} (h : Wf a) : ∀ r, a = '+' :: r → False :=
  fun r e => h.head_ne '+' r e rfl

theorem columns_unit (c : Char) (hc : c ≠ '+') {m : List Char} (hm : IsTail m) {rest : List Char}
    (hw : Wf rest) : columns (c :: (m ++ rest)) = scenes (c :: m) :: columns rest := by
  induction hm generalizing c with
  | nil =>
    simp only [List.nil_append]
    rw [scenes_cons hc, columns.eq_3 c rest hw.no_plus_head]
    simp [scenes]
  | cons d m hd _ ih =>
    simp only [List.cons_append]
    rw [columns, ih d hd, scenes_cons hc, scenes_plus]

theorem cols_eq_columns {a : List Char} (ha : Wf a) : cols a = columns a := by
  induction ha with
  | nil => simp [cols, columns]
  | cons c m a hc hm ha ih => rw [cols_unit c hm ha, columns_unit c hc hm ha, ih]


/-! ## Storylines, validation -/

theorem combineStory_wf_cols : ∀ (s1 s2 : List Act), (∀ a ∈ s1, Wf a) → (∀ b ∈ s2, Wf b) →
    (∀ x ∈ combineStory s1 s2, Wf x) ∧
    (combineStory s1 s2).map cols = zipActs (s1.map cols) (s2.map cols) := by
  intro s1
  induction s1 with
  | nil => intro s2 _ h2; simpa [combineStory, zipActs] using h2
  | cons a s1 ih =>
    intro s2 h1 h2
    cases s2 with
    | nil => simpa [combineStory, zipActs] using h1
    | cons b s2 =>
      have ha := h1 a (by simp)
      have hb := h2 b (by simp)
      obtain ⟨hw, hc⟩ := ih s2 (fun x hx => h1 x (by simp [hx])) (fun x hx => h2 x (by simp [hx]))
      obtain ⟨w1, c1⟩ := comb_wf_cols ha hb
      constructor
      · intro x hx
        simp only [combineStory, List.mem_cons] at hx
        rcases hx with rfl | hx
        · exact w1
        · exact hw x hx
      · simp only [combineStory, List.map_cons, zipActs, c1, hc]

/-! validation -/

inductive Good : List Char → Prop
  | nil : Good []
  | plus (d : Char) (l : List Char) : d ≠ '+' → Good l → Good ('+' :: d :: l)
  | char (c : Char) (l : List Char) : c ≠ '+' → Good l → Good (c :: l)

theorem Good.split {l : List Char} (h : Good l) : ∃ m a, l = m ++ a ∧ IsTail m ∧ Wf a := by
  induction h with
  | nil => exact ⟨[], [], rfl, IsTail.nil, Wf.nil⟩
  | plus d l hd _ ih =>
    obtain ⟨m, a, rfl, hm, ha⟩ := ih
    exact ⟨'+' :: d :: m, a, rfl, IsTail.cons d m hd hm, ha⟩
  | char c l hc _ ih =>
    obtain ⟨m, a, rfl, hm, ha⟩ := ih
    exact ⟨[], c :: (m ++ a), rfl, IsTail.nil, Wf.cons c m a hc hm ha⟩

theorem wf_of_good {c : Char} {l : List Char} (hc : c ≠ '+') (h : Good l) : Wf (c :: l) := by
  obtain ⟨m, a, rfl, hm, ha⟩ := h.split
  exact Wf.cons c m a hc hm ha

theorem IsTail.good {m : List Char} (hm : IsTail m) {a : List Char} (ha : Good a) : Good (m ++ a) := by
  induction hm with
  | nil => simpa
  | cons d m hd _ ih => exact Good.plus d _ hd ih

theorem Wf.good {a : List Char} (h : Wf a) : Good a := by
  induction h with
  | nil => exact Good.nil
  | cons c m a hc hm _ ih => exact Good.char c _ hc (hm.good ih)

theorem good_of_wf_cons {c : Char} {l : List Char} (h : Wf (c :: l)) : c ≠ '+' ∧ Good l := by
  cases h with
  | cons c m a hc hm ha => exact ⟨hc, hm.good ha.good⟩

def okChar (defd : Char → Bool) (c : Char) : Prop := c = ' ' ∨ c = '.' ∨ c = '+' ∨ defd c = true

theorem checkFrom_sound (defd : Char → Bool) : ∀ (l : List Char) (prev : Option Char),
    checkFrom defd prev l = none →
    (∀ c ∈ l, okChar defd c) ∧
    (prev ≠ none → prev ≠ some '+' → Good l) ∧
    ((prev = none ∨ prev = some '+') → l = [] ∨ ∃ c l', l = c :: l' ∧ c ≠ '+' ∧ Good l') := by
  intro l
  induction l with
  | nil => intro prev _; exact ⟨by simp, fun _ _ => Good.nil, fun _ => Or.inl rfl⟩
  | cons c rest ih =>
    intro prev h
    rw [checkFrom] at h
    by_cases hp : c = '+'
    · subst hp
      simp only [show ¬ ('+' = ' ' ∨ '+' = '.') by decide, if_false, if_true] at h
      split at h
      · cases h
      · rename_i hprev
        split at h
        · cases h
        · rename_i hrest
          split at h
          · cases h
          · rename_i hpp
            obtain ⟨hok, _, h2⟩ := ih (some '+') h
            refine ⟨?_, ?_, ?_⟩
            · intro x hx
              simp only [List.mem_cons] at hx
              rcases hx with rfl | hx
              · exact Or.inr (Or.inr (Or.inl rfl))
              · exact hok x hx
            · intro _ _
              rcases h2 (Or.inr rfl) with hnil | ⟨d, l', rfl, hd, hg⟩
              · exact absurd hnil hrest
              · exact Good.plus d l' hd hg
            · intro hor
              rcases hor with h0 | h0
              · exact absurd h0 hprev
              · exact absurd h0 hpp
    · have hrec : checkFrom defd (some c) rest = none ∧ okChar defd c := by
        by_cases h1 : c = ' ' ∨ c = '.'
        · simp only [h1, if_true] at h
          exact ⟨h, by rcases h1 with h1 | h1 <;> simp [okChar, h1]⟩
        · simp only [h1, hp, if_false] at h
          split at h
          · rename_i hd; exact ⟨h, Or.inr (Or.inr (Or.inr hd))⟩
          · cases h
      obtain ⟨hok, h1, _⟩ := ih (some c) hrec.1
      have hg : Good rest := h1 (by simp) (by simpa using hp)
      refine ⟨?_, fun _ _ => Good.char c rest hp hg, fun _ => Or.inr ⟨c, rest, rfl, hp, hg⟩⟩
      intro x hx
      simp only [List.mem_cons] at hx
      rcases hx with rfl | hx
      · exact hrec.2
      · exact hok x hx


/-! ## Compilation -/

def ValidChars (tbl : Table) (a : List Char) : Prop :=
  ∀ c ∈ a, c ≠ '_' ∧ (c = '.' ∨ c = '+' ∨ (tbl c).isSome = true)

/-- the specification's view of a table entry (an undefined scene entails nothing) -/
def specD (tbl : Table) (c : Char) : Spec := (tbl c).getD {}

def absorbL (tbl : Table) (p : Pending) (l : List Char) : Pending :=
  l.foldl (fun p c => absorb p ((specOf tbl c).getD {})) p

def unitChars (u : List Char) : List Char := u.filter (· ≠ '+')

theorem absorbL_nil (tbl : Table) (p : Pending) : absorbL tbl p [] = p := rfl
theorem absorbL_cons (tbl : Table) (p : Pending) (c : Char) (l : List Char) :
    absorbL tbl p (c :: l) = absorbL tbl (absorb p ((specOf tbl c).getD {})) l := rfl

theorem unitChars_cons {c : Char} (hc : c ≠ '+') (l : List Char) :
    unitChars (c :: l) = c :: unitChars l := by simp [unitChars, hc]
theorem unitChars_plus (l : List Char) : unitChars ('+' :: l) = unitChars l := by simp [unitChars]

theorem absorb_nop (p : Pending) : absorb p {} = p := by
  cases p; simp [absorb, linesOf]

theorem specOf_valid {tbl : Table} {c : Char}
    (h : c ≠ '_' ∧ (c = '.' ∨ c = '+' ∨ (tbl c).isSome = true)) (hc : c ≠ '+') :
    ∃ sc, specOf tbl c = some sc := by
  by_cases hd : c = '.'
  · exact ⟨{}, by simp [specOf, hd]⟩
  · rcases h.2 with h | h | h
    · exact absurd h hd
    · exact absurd h hc
    · obtain ⟨sc, hsc⟩ := Option.isSome_iff_exists.mp h
      exact ⟨sc, by simp [specOf, hd, hsc]⟩

theorem compileAct_unit (tbl : Table) (tempo : Nat) {m : List Char} (hm : IsTail m)
    {rest : List Char} (hr : ∀ r, rest = '+' :: r → False) :
    ∀ (c : Char) (p : Pending) (now : Nat), c ≠ '+' → ValidChars tbl (c :: m) →
      compileAct tbl tempo now p (c :: (m ++ rest)) =
        (compileAct tbl tempo (now + tempo) Pending.empty rest).map
          (closeGroup now (absorbL tbl p (unitChars (c :: m))) ++ ·) := by
  induction hm with
  | nil =>
    intro c p now hc hv
    have hcv := hv c (by simp)
    obtain ⟨sc, hsc⟩ := specOf_valid hcv hc
    simp only [List.nil_append]
    rw [compileAct.eq_3 _ _ _ _ _ _ hr]
    simp [hc, hcv.1, hsc, unitChars, absorbL_cons, absorbL_nil]
  | cons d m hd _ ih =>
    intro c p now hc hv
    have hcv := hv c (by simp)
    obtain ⟨sc, hsc⟩ := specOf_valid hcv hc
    simp only [List.cons_append]
    rw [compileAct.eq_2]
    simp only [hc, hcv.1, or_self, if_false, hsc]
    rw [ih d (absorb p sc) now hd (fun x hx => hv x (by
      simp only [List.mem_cons] at hx ⊢; exact Or.inr (Or.inr hx)))]
    rw [unitChars_cons hc, unitChars_plus, absorbL_cons, hsc]
    rfl

theorem absorbL_dot (tbl : Table) (l : List Char) : ∀ p, absorbL tbl p l = absorbL tbl p (l.filter (· ≠ '.')) := by
  induction l with
  | nil => intro p; rfl
  | cons c l ih =>
    intro p
    by_cases hd : c = '.'
    · subst hd
      rw [absorbL_cons, ih]
      simp [specOf, absorb_nop]
    · rw [absorbL_cons, ih]
      simp [hd, absorbL_cons]

theorem unitChars_scenes (u : List Char) : (unitChars u).filter (· ≠ '.') = scenes u := by
  simp [unitChars, scenes, List.filter_filter]
  congr 1
  funext c
  by_cases h1 : c = '+' <;> by_cases h2 : c = '.' <;> simp [h1, h2]

theorem scenes_no_dot (u : List Char) : ∀ c ∈ scenes u, c ≠ '.' := by
  intro c hc
  simp [scenes] at hc
  exact hc.2.2

theorem specOf_nodot (tbl : Table) {c : Char} (h : c ≠ '.') : (specOf tbl c).getD {} = specD tbl c := by
  simp [specOf, h, specD]

theorem startOf_eq (tbl : Table) (c : Char) : startOf tbl c = (specD tbl c).moodStart := by
  simp only [startOf, specD]; cases tbl c <;> rfl
theorem endOf_eq (tbl : Table) (c : Char) : endOf tbl c = (specD tbl c).moodEnd := by
  simp only [endOf, specD]; cases tbl c <;> rfl
theorem entailsOf_eq (tbl : Table) (c : Char) : entailsOf tbl c = (specD tbl c).entails := by
  simp only [entailsOf, specD]; cases tbl c <;> rfl

theorem absorbL_spec (tbl : Table) (col : List Char) (hnd : ∀ c ∈ col, c ≠ '.') : ∀ p,
    (absorbL tbl p col).moodStart =
      (if p.moodStart ≠ "" then p.moodStart else (firstStart tbl col).getD "") ∧
    (absorbL tbl p col).moodEnd = (lastEnd tbl col).getD p.moodEnd ∧
    (absorbL tbl p col).lines = p.lines ++ col.flatMap (fun c => linesOf (specD tbl c)) := by
  induction col with
  | nil => intro p; simp [absorbL_nil, firstStart, lastEnd]
  | cons c col ih =>
    intro p
    have hc : c ≠ '.' := hnd c (by simp)
    obtain ⟨i1, i2, i3⟩ := ih (fun x hx => hnd x (by simp [hx])) (absorb p (specD tbl c))
    simp only [absorbL_cons, specOf_nodot tbl hc]
    refine ⟨?_, ?_, ?_⟩
    · rw [i1]
      simp only [firstStart, List.map_cons, List.find?_cons, startOf_eq, absorb]
      by_cases h1 : p.moodStart = "" <;> by_cases h2 : (specD tbl c).moodStart = "" <;> simp [h1, h2]
    · rw [i2]
      simp only [lastEnd, List.map_cons, List.reverse_cons, List.find?_append, endOf_eq, absorb]
      cases List.find? (fun x => decide (x ≠ "")) (List.map (endOf tbl) col).reverse with
      | some v => simp
      | none =>
        by_cases h2 : (specD tbl c).moodEnd = "" <;> simp [h2]
    · rw [i3]; simp [absorb]


theorem lines_perf_aux (es : List (String × List String)) :
    ((es.map lineOf).filter (fun l => !l.steps.isEmpty)).filterMap linePerf =
      (es.map (fun e => (e.1, e.2.map splitMark))).filter (fun l => !l.2.isEmpty) ∧
    ((es.map lineOf).filter (fun l => !l.steps.isEmpty)).flatMap lineMoods = [] := by
  induction es with
  | nil => simp
  | cons e es ih =>
    obtain ⟨n, as⟩ := e
    cases as with
    | nil => simpa [lineOf] using ih
    | cons a as =>
      simp only [List.map_cons, lineOf, List.isEmpty_cons, Bool.not_false, List.filter_cons_of_pos,
        List.filterMap_cons, linePerf, List.flatMap_cons, lineMoods]
      simp [ih.1, ih.2]

theorem linesOf_perf (sc : Spec) : (linesOf sc).filterMap linePerf =
    (sc.entails.map (fun e => (e.1, e.2.map splitMark))).filter (fun l => !l.2.isEmpty) :=
  (lines_perf_aux sc.entails).1

theorem linesOf_moods (sc : Spec) : (linesOf sc).flatMap lineMoods = [] :=
  (lines_perf_aux sc.entails).2

theorem col_lines_perf (tbl : Table) (col : List Char) :
    (col.flatMap (fun c => linesOf (specD tbl c))).filterMap linePerf = performers tbl col ∧
    (col.flatMap (fun c => linesOf (specD tbl c))).flatMap lineMoods = [] := by
  induction col with
  | nil => simp [performers]
  | cons c col ih =>
    simp only [List.flatMap_cons, List.filterMap_append, List.flatMap_append, linesOf_perf,
      linesOf_moods, ih.1, ih.2, performers, entailsOf_eq]
    simp

theorem effectsOf_moodScene (w : Nat) (m : String) : effectsOf (moodScene w m) = [Effect.mood m] := by
  simp [effectsOf, moodScene, lineMoods, linePerf]

theorem effectsOf_lines (w : Nat) (lines : List Line) (hm : lines.flatMap lineMoods = []) :
    effectsOf ⟨w, lines⟩ = if (lines.filterMap linePerf).isEmpty then []
      else [Effect.perform (lines.filterMap linePerf)] := by
  simp [effectsOf, hm]

theorem moodScene_wait (w : Nat) (m : String) : (moodScene w m).waitUntil = w := rfl

theorem flatten_closeGroup (now t : Nat) (h : t ≤ now) (p : Pending)
    (hm : p.lines.flatMap lineMoods = []) (rest : List Scene) :
    ∃ t', t' ≤ now ∧ flattenFrom t (closeGroup now p ++ rest) =
      (if p.moodStart ≠ "" then [(now, Effect.mood p.moodStart)] else []) ++
      (if (p.lines.filterMap linePerf).isEmpty then []
        else [(now, Effect.perform (p.lines.filterMap linePerf))]) ++
      (if p.moodEnd ≠ "" then [(now, Effect.mood p.moodEnd)] else []) ++
      flattenFrom t' rest := by
  have m1 : max t now = now := Nat.max_eq_right h
  have m2 : max now now = now := Nat.max_self now
  have m3 : max now 0 = now := Nat.max_eq_left (Nat.zero_le now)
  obtain ⟨ms, me, lines⟩ := p
  simp only at hm
  cases hl : lines with
  | nil =>
    by_cases h1 : ms = "" <;> by_cases h2 : me = ""
    · exact ⟨t, h, by simp [closeGroup, h1, h2]⟩
    · exact ⟨now, Nat.le_refl _, by
        simp [closeGroup, flattenFrom, effectsOf_moodScene, moodScene_wait, h1, h2, m1]⟩
    · exact ⟨now, Nat.le_refl _, by
        simp [closeGroup, flattenFrom, effectsOf_moodScene, moodScene_wait, h1, h2, m1]⟩
    · exact ⟨now, Nat.le_refl _, by
        simp [closeGroup, flattenFrom, effectsOf_moodScene, moodScene_wait, h1, h2, m1, m2]⟩
  | cons l ls =>
    rw [hl] at hm
    refine ⟨now, Nat.le_refl _, ?_⟩
    by_cases h1 : ms = "" <;> by_cases h2 : me = "" <;>
    by_cases h3 : (List.filterMap linePerf (l :: ls)).isEmpty = true <;>
    simp [closeGroup, flattenFrom, effectsOf_moodScene, moodScene_wait, effectsOf_lines _ _ hm,
      h1, h2, h3, m1, m2, m3]


theorem optList {α : Type} (o : Option String) (f : String → α) (h : ∀ m, o = some m → m ≠ "") :
    o.toList.map f = if o.getD "" ≠ "" then [f (o.getD "")] else [] := by
  cases o with
  | none => simp
  | some m => simp [h m rfl]

theorem firstStart_ne (tbl : Table) (col : List Char) (m : String) :
    firstStart tbl col = some m → m ≠ "" := by
  intro h
  have := List.find?_some h
  simpa using this

theorem lastEnd_ne (tbl : Table) (col : List Char) (m : String) :
    lastEnd tbl col = some m → m ≠ "" := by
  intro h
  have := List.find?_some h
  simpa using this

theorem ValidChars.cons_append {tbl : Table} {c : Char} {m a : List Char}
    (h : ValidChars tbl (c :: (m ++ a))) : ValidChars tbl (c :: m) ∧ ValidChars tbl a := by
  constructor
  · intro x hx
    apply h x
    simp only [List.mem_cons, List.mem_append] at hx ⊢
    rcases hx with hx | hx
    · exact Or.inl hx
    · exact Or.inr (Or.inl hx)
  · intro x hx
    apply h x
    simp only [List.mem_cons, List.mem_append]
    exact Or.inr (Or.inr hx)

theorem compileAct_denotes (tbl : Table) (tempo : Nat) {a : List Char} (ha : Wf a) :
    ValidChars tbl a → ∀ k t, t ≤ k * tempo →
    ∃ scs, compileAct tbl tempo (k * tempo) Pending.empty a = some scs ∧
      flattenFrom t scs = denoteCols tbl tempo k (cols a) := by
  induction ha with
  | nil =>
    intro _ k t h
    refine ⟨_, by rw [compileAct], ?_⟩
    simp [flattenFrom, effectsOf, cols, denoteCols, Nat.max_eq_right h]
  | cons c m a' hc hm ha' ih =>
    intro hv k t h
    obtain ⟨hv1, hv2⟩ := hv.cons_append
    rw [compileAct_unit tbl tempo hm ha'.no_plus_head c _ _ hc hv1]
    rw [absorbL_dot, unitChars_scenes]
    obtain ⟨s1, s2, s3⟩ := absorbL_spec tbl (scenes (c :: m)) (scenes_no_dot _) Pending.empty
    obtain ⟨p1, p2⟩ := col_lines_perf tbl (scenes (c :: m))
    have hlines : (absorbL tbl Pending.empty (scenes (c :: m))).lines.flatMap lineMoods = [] := by
      rw [s3]; simpa [Pending.empty] using p2
    have hk : k * tempo + tempo = (k + 1) * tempo := (Nat.succ_mul k tempo).symm
    rw [hk]
    obtain ⟨scs0, e0, _⟩ := ih hv2 (k + 1) 0 (Nat.zero_le _)
    rw [e0]
    refine ⟨_, rfl, ?_⟩
    obtain ⟨t', ht', hf⟩ := flatten_closeGroup (k * tempo) t h _ hlines scs0
    rw [hf]
    obtain ⟨scs1, e1, f1⟩ := ih hv2 (k + 1) t' (by rw [← hk]; omega)
    rw [e0] at e1
    injection e1 with e1
    subst e1
    rw [f1, cols_unit c hm ha', denoteCols]
    rw [optList _ _ (firstStart_ne tbl _), optList _ _ (lastEnd_ne tbl _)]
    rw [s1, s2, s3]
    simp only [Pending.empty, p1, List.nil_append, ne_eq, not_true_eq_false, if_false]
    by_cases hz : (lastEnd tbl (scenes (c :: m))).getD "" = "" <;> simp [hz]


/-- a storyline the compiler accepts: well-formed acts over defined scenes, no `_` -/
def ValidStory (tbl : Table) (story : List Act) : Prop := ∀ a ∈ story, Wf a ∧ ValidChars tbl a

theorem compile_denotes_cols (tbl : Table) (tempo : Nat) : ∀ (story : List Act), ValidStory tbl story →
    ∃ play, compile tbl tempo story = some play ∧
      play.map flatten = story.map (fun a => denoteAct tbl tempo (columns a)) := by
  intro story
  induction story with
  | nil => intro _; exact ⟨[], rfl, rfl⟩
  | cons a rest ih =>
    intro hv
    obtain ⟨ha, hva⟩ := hv a (by simp)
    obtain ⟨play, e, f⟩ := ih (fun x hx => hv x (by simp [hx]))
    obtain ⟨scs, e1, f1⟩ := compileAct_denotes tbl tempo ha hva 0 0 (Nat.zero_le _)
    rw [Nat.zero_mul] at e1
    refine ⟨scs :: play, by simp [compile, e1, e], ?_⟩
    simp [flatten, f1, f, denoteAct, cols_eq_columns ha]

/-! splitSp, trim -/

theorem mem_consHead {c : Char} {ps : List (List Char)} {p : List Char} (h : p ∈ consHead c ps) :
    (∃ q, p = c :: q ∧ (q ∈ ps ∨ (ps = [] ∧ q = []))) ∨ p ∈ ps := by
  cases ps with
  | nil => left; simp [consHead] at h; exact ⟨[], h, Or.inr ⟨rfl, rfl⟩⟩
  | cons q qs =>
    simp only [consHead, List.mem_cons] at h
    rcases h with h | h
    · left; exact ⟨q, h, Or.inl (by simp)⟩
    · right; simp [h]

theorem splitSp_no_space : ∀ (l : List Char) (p : List Char), p ∈ splitSp l → ' ' ∉ p := by
  intro l
  induction l with
  | nil => intro p hp; simp [splitSp] at hp; simp [hp]
  | cons c rest ih =>
    intro p hp
    rw [splitSp] at hp
    split at hp
    · simp only [List.mem_cons] at hp
      rcases hp with rfl | hp
      · simp
      · exact ih p hp
    · rename_i hc
      rcases mem_consHead hp with ⟨q, rfl, hq | ⟨_, rfl⟩⟩ | hp
      · have := ih q hq
        simp only [List.mem_cons, not_or]
        exact ⟨fun h => hc h.symm, this⟩
      · simp only [List.mem_cons, List.not_mem_nil, or_false]
        exact fun h => hc h.symm
      · exact ih p hp

theorem mem_dropSpaces {len : List Char → Nat} {c : Char} : ∀ (f : Nat) (p : List Char), c ∈ dropSpaces len f p → c ∈ p
  | 0, _, h => h
  | f + 1, p, h => by
    simp only [dropSpaces] at h
    split at h
    · exact h
    · exact List.mem_of_mem_drop (mem_dropSpaces f _ h)

theorem mem_trim {c : Char} {p : List Char} (h : c ∈ trim p) : c ∈ p := by
  simp only [trim, List.mem_reverse] at h
  have h1 := mem_dropSpaces _ _ h
  exact mem_dropSpaces _ _ (List.mem_reverse.mp h1)

theorem mem_cleanPart {c : Char} {p : List Char} (h : c ∈ cleanPart p) : c ∈ p ∧ c ≠ '_' := by
  simp only [cleanPart, List.mem_filter, decide_eq_true_eq] at h
  exact ⟨mem_trim h.1, h.2⟩

theorem validateParts_ok (defd : Char → Bool) : ∀ (ps : List (List Char)) (acts : List Act),
    validateParts defd ps = .ok acts ↔
      (acts = (ps.map cleanPart).filter (· ≠ []) ∧ ∀ a ∈ acts, checkFrom defd none a = none) := by
  intro ps
  induction ps with
  | nil => intro acts; simp [validateParts]; intro h; simp [h]
  | cons p ps ih =>
    intro acts
    rw [validateParts]
    by_cases he : cleanPart p = []
    · simp [he, ih]
    · simp only [he, if_false, List.map_cons, ne_eq, not_false_eq_true, decide_true, List.filter_cons_of_pos]
      cases hc : checkFrom defd none (cleanPart p) with
      | some e =>
        simp only []
        constructor
        · intro h; cases h
        · rintro ⟨rfl, h2⟩
          have := h2 (cleanPart p) (by simp)
          rw [hc] at this; cases this
      | none =>
        simp only []
        cases hv : validateParts defd ps with
        | error e =>
          simp only []
          constructor
          · intro h; cases h
          · rintro ⟨rfl, h2⟩
            have := (ih _).mpr ⟨rfl, fun a ha => h2 a (List.mem_cons_of_mem _ (by simpa using ha))⟩
            rw [hv] at this; cases this
        | ok acts' =>
          simp only []
          obtain ⟨r1, r2⟩ := (ih acts').mp hv
          constructor
          · intro h
            injection h with h
            subst h
            refine ⟨by rw [r1], ?_⟩
            intro a ha
            simp only [List.mem_cons] at ha
            rcases ha with rfl | ha
            · exact hc
            · exact r2 a ha
          · rintro ⟨rfl, _⟩
            rw [r1]


theorem checkFrom_nonplus (defd : Char → Bool) (prev : Option Char) {c : Char} (rest : List Char)
    (hc : c ≠ '+') (hok : okChar defd c) :
    checkFrom defd prev (c :: rest) = checkFrom defd (some c) rest := by
  rw [checkFrom]
  by_cases h1 : c = ' ' ∨ c = '.'
  · simp [h1]
  · simp only [h1, hc, if_false]
    rcases hok with h | h | h | h
    · exact absurd (Or.inl h) h1
    · exact absurd (Or.inr h) h1
    · exact absurd h hc
    · simp [h]

theorem checkFrom_complete (defd : Char → Bool) {l : List Char} (hg : Good l) :
    (∀ c ∈ l, okChar defd c) → ∀ prev, prev ≠ none → prev ≠ some '+' →
      checkFrom defd prev l = none := by
  induction hg with
  | nil => intro _ prev _ _; rfl
  | plus d l hd _ ih =>
    intro hok prev h1 h2
    rw [checkFrom]
    simp only [show ¬ ('+' = ' ' ∨ '+' = '.') by decide, if_false, if_true, h1, h2]
    simp only [show ¬ (d :: l = []) by simp, if_false]
    rw [checkFrom_nonplus defd _ l hd (hok d (by simp))]
    exact ih (fun c hc => hok c (by simp [hc])) (some d) (by simp) (by simpa using hd)
  | char c l hc _ ih =>
    intro hok prev _ _
    rw [checkFrom_nonplus defd _ l hc (hok c (by simp))]
    exact ih (fun x hx => hok x (by simp [hx])) (some c) (by simp) (by simpa using hc)

/-- what the check loop accepts, for a part without blanks -/
theorem checkFrom_none_iff (defd : Char → Bool) (a : List Char) (hsp : ' ' ∉ a) :
    checkFrom defd none a = none ↔ (Wf a ∧ ∀ c ∈ a, c = '.' ∨ c = '+' ∨ defd c = true) := by
  constructor
  · intro h
    obtain ⟨hok, _, h2⟩ := checkFrom_sound defd a none h
    constructor
    · rcases h2 (Or.inl rfl) with rfl | ⟨c, l', rfl, hc, hg⟩
      · exact Wf.nil
      · exact wf_of_good hc hg
    · intro c hc
      rcases hok c hc with h | h
      · subst h; exact absurd hc hsp
      · exact h
  · rintro ⟨hw, hok⟩
    have hok' : ∀ c ∈ a, okChar defd c := fun c hc => Or.inr (hok c hc)
    cases a with
    | nil => rfl
    | cons c l =>
      obtain ⟨hc, hg⟩ := good_of_wf_cons hw
      rw [checkFrom_nonplus defd _ l hc (hok' c (by simp))]
      exact checkFrom_complete defd hg (fun x hx => hok' x (by simp [hx])) (some c) (by simp)
        (by simpa using hc)

/-! the boolean reading of well-formedness -/

theorem noPP_cons_ne {x : Char} (hx : x ≠ '+') (r : List Char) :
    noPlusPlus (x :: r) = noPlusPlus r := noPlusPlus.eq_2 _ _ (fun _ h _ => hx h)

theorem noPP_plus_ne {y : Char} (hy : y ≠ '+') (r : List Char) :
    noPlusPlus ('+' :: y :: r) = noPlusPlus (y :: r) :=
  noPlusPlus.eq_2 _ _ (fun _ _ h => by injection h with h _; exact hy h)

theorem good_bool {l : List Char} (h : Good l) : l.getLast? ≠ some '+' ∧ noPlusPlus l = true := by
  induction h with
  | nil => simp [noPlusPlus]
  | plus d l hd _ ih =>
    constructor
    · rw [List.getLast?_cons_cons]
      cases l with
      | nil => simpa using hd
      | cons x r => rw [List.getLast?_cons_cons]; exact ih.1
    · rw [noPP_plus_ne hd, noPP_cons_ne hd]; exact ih.2
  | char c l hc _ ih =>
    constructor
    · cases l with
      | nil => simpa using hc
      | cons x r => rw [List.getLast?_cons_cons]; exact ih.1
    · rw [noPP_cons_ne hc]; exact ih.2

theorem bool_good : ∀ (l : List Char), l.getLast? ≠ some '+' → noPlusPlus l = true → Good l := by
  intro l
  induction l with
  | nil => intro _ _; exact Good.nil
  | cons x r ih =>
    intro h1 h2
    by_cases hx : x = '+'
    · subst hx
      cases r with
      | nil => simp at h1
      | cons y r' =>
        have hy : y ≠ '+' := by
          intro hy; subst hy; simp [noPlusPlus] at h2
        rw [noPP_plus_ne hy] at h2
        rw [List.getLast?_cons_cons] at h1
        have hg := ih h1 h2
        cases hg with
        | plus d l hd hg' => exact absurd rfl hy
        | char c l hc hg' => exact Good.plus y r' hy hg'
    · rw [noPP_cons_ne hx] at h2
      cases r with
      | nil => exact Good.char x [] hx Good.nil
      | cons y r' =>
        rw [List.getLast?_cons_cons] at h1
        exact Good.char x _ hx (ih h1 h2)

theorem good_iff (l : List Char) : Good l ↔ (l.getLast? ≠ some '+' ∧ noPlusPlus l = true) :=
  ⟨good_bool, fun h => bool_good l h.1 h.2⟩

theorem wf_iff (a : List Char) :
    Wf a ↔ (a.head? ≠ some '+' ∧ a.getLast? ≠ some '+' ∧ noPlusPlus a = true) := by
  cases a with
  | nil => simp [noPlusPlus]; exact Wf.nil
  | cons c l =>
    constructor
    · intro h
      obtain ⟨hc, hg⟩ := good_of_wf_cons h
      have := (good_iff (c :: l)).mp (Good.char c l hc hg)
      exact ⟨by simpa using hc, this.1, this.2⟩
    · rintro ⟨h0, h1, h2⟩
      have hc : c ≠ '+' := by simpa using h0
      have hg := (good_iff (c :: l)).mpr ⟨h1, h2⟩
      cases hg with
      | plus d l' hd hg' => exact absurd rfl hc
      | char c' l' _ hg' => exact wf_of_good hc hg'

theorem validAct_iff (defd : Char → Bool) (a : List Char) :
    validAct defd a = true ↔ (Wf a ∧ ∀ c ∈ a, c = '.' ∨ c = '+' ∨ defd c = true) := by
  rw [wf_iff]
  simp only [validAct, Bool.and_eq_true, bne_iff_ne, ne_eq, List.all_eq_true, Bool.or_eq_true,
    beq_iff_eq, and_assoc, or_assoc]


/-! ## Clauses -/

theorem writtenActs_eq (text : List Char) :
    writtenActs text = ((splitSp text).map cleanPart).filter (· ≠ []) := rfl

theorem clauseCols_eq (text : List Char) : clauseCols text = (writtenActs text).map columns := rfl

theorem validate_iff (defd : Char → Bool) (text : List Char) (acts : List Act) :
    validate defd text = .ok acts ↔
      (acts = writtenActs text ∧ ∀ a ∈ acts, validAct defd a = true) := by
  rw [validate, validateParts_ok]
  constructor
  · rintro ⟨rfl, h⟩
    refine ⟨rfl, fun a ha => ?_⟩
    have hsp : ' ' ∉ a := by
      simp only [List.mem_filter, List.mem_map] at ha
      obtain ⟨⟨p, hp, rfl⟩, _⟩ := ha
      exact fun hc => splitSp_no_space text p hp (mem_cleanPart hc).1
    exact (validAct_iff defd a).mpr ((checkFrom_none_iff defd a hsp).mp (h a ha))
  · rintro ⟨rfl, h⟩
    refine ⟨rfl, fun a ha => ?_⟩
    have hsp : ' ' ∉ a := by
      simp only [writtenActs_eq, List.mem_filter, List.mem_map] at ha
      obtain ⟨⟨p, hp, rfl⟩, _⟩ := ha
      exact fun hc => splitSp_no_space text p hp (mem_cleanPart hc).1
    exact (checkFrom_none_iff defd a hsp).mpr ((validAct_iff defd a).mp (h a ha))

theorem mem_writtenActs {text : List Char} {a : Act} (h : a ∈ writtenActs text) :
    a ≠ [] ∧ ' ' ∉ a ∧ '_' ∉ a := by
  simp only [writtenActs_eq, List.mem_filter, List.mem_map, decide_eq_true_eq] at h
  obtain ⟨⟨p, hp, rfl⟩, hne⟩ := h
  exact ⟨hne, fun hc => splitSp_no_space text p hp (mem_cleanPart hc).1,
    fun hc => (mem_cleanPart hc).2 rfl⟩

theorem validate_valid {tbl : Table} {text : List Char} {acts : List Act}
    (h : validate (defd tbl) text = .ok acts) : ValidStory tbl acts := by
  obtain ⟨rfl, hv⟩ := (validate_iff _ _ _).mp h
  intro a ha
  obtain ⟨hw, hc⟩ := (validAct_iff _ a).mp (hv a ha)
  refine ⟨hw, fun c hca => ⟨fun e => (mem_writtenActs ha).2.2 (e ▸ hca), ?_⟩⟩
  simpa [defd] using hc c hca

/-! merging keeps the characters -/

theorem more_eq (l : List Char) : (more l).1 ++ (more l).2 = l := by
  fun_induction more l with
  | case1 d rest ih => simp [ih]
  | case2 rest h => simp

theorem extract_eq (l : List Char) : (extract l).1 ++ (extract l).2 = l := by
  cases l with
  | nil => rfl
  | cons c rest => simp [extract, more_eq]

theorem mem_piece {x : Char} {s1 s2 : List Char} (h : x ∈ piece s1 s2) :
    x ∈ s1 ∨ x ∈ s2 ∨ x = '+' ∨ x = '.' := by
  unfold piece at h
  split at h
  · split at h
    · exact Or.inr (Or.inl h)
    · simp at h; exact Or.inr (Or.inr (Or.inr h))
  · simp only [List.mem_append] at h
    rcases h with h | h
    · exact Or.inl h
    · split at h
      · simp only [List.mem_cons] at h
        rcases h with h | h
        · exact Or.inr (Or.inr (Or.inl h))
        · exact Or.inr (Or.inl h)
      · simp at h

theorem mem_comb {x : Char} : ∀ (a b : List Char), x ∈ comb a b →
    x ∈ a ∨ x ∈ b ∨ x = '+' ∨ x = '.' := by
  intro a b
  fun_induction comb a b with
  | case1 b => intro h; exact Or.inr (Or.inl h)
  | case2 c a b ih =>
    intro h
    simp only [List.mem_append] at h
    have e1 := extract_eq (c :: a)
    have e2 := extract_eq b
    rcases h with h | h
    · rcases mem_piece h with h | h | h | h
      · left; rw [← e1]; exact List.mem_append_left _ h
      · right; left; rw [← e2]; exact List.mem_append_left _ h
      · exact Or.inr (Or.inr (Or.inl h))
      · exact Or.inr (Or.inr (Or.inr h))
    · rcases ih h with h | h | h | h
      · left; rw [← e1]; exact List.mem_append_right _ h
      · right; left; rw [← e2]; exact List.mem_append_right _ h
      · exact Or.inr (Or.inr (Or.inl h))
      · exact Or.inr (Or.inr (Or.inr h))

theorem comb_validChars {tbl : Table} {a b : List Char} (ha : ValidChars tbl a)
    (hb : ValidChars tbl b) : ValidChars tbl (comb a b) := by
  intro x hx
  rcases mem_comb a b hx with h | h | h | h
  · exact ha x h
  · exact hb x h
  · subst h; exact ⟨by decide, Or.inr (Or.inl rfl)⟩
  · subst h; exact ⟨by decide, Or.inl rfl⟩

theorem combineStory_valid {tbl : Table} : ∀ (s1 s2 : List Act), ValidStory tbl s1 →
    ValidStory tbl s2 → ValidStory tbl (combineStory s1 s2) := by
  intro s1
  induction s1 with
  | nil => intro s2 _ h2; simpa [combineStory] using h2
  | cons a s1 ih =>
    intro s2 h1 h2
    cases s2 with
    | nil => simpa [combineStory] using h1
    | cons b s2 =>
      intro x hx
      simp only [combineStory, List.mem_cons] at hx
      rcases hx with rfl | hx
      · exact ⟨(comb_wf_cols (h1 a (by simp)).1 (h2 b (by simp)).1).1,
          comb_validChars (h1 a (by simp)).2 (h2 b (by simp)).2⟩
      · exact ih s2 (fun y hy => h1 y (by simp [hy])) (fun y hy => h2 y (by simp [hy])) x hx

theorem map_cols_eq_columns {s : List Act} (h : ∀ a ∈ s, Wf a) : s.map cols = s.map columns :=
  List.map_congr_left fun a ha => cols_eq_columns (h a ha)

theorem combineStory_columns {s1 s2 : List Act} (h1 : ∀ a ∈ s1, Wf a) (h2 : ∀ b ∈ s2, Wf b) :
    (combineStory s1 s2).map columns = zipActs (s1.map columns) (s2.map columns) := by
  obtain ⟨hw, hc⟩ := combineStory_wf_cols s1 s2 h1 h2
  rw [← map_cols_eq_columns hw, hc, map_cols_eq_columns h1, map_cols_eq_columns h2]

/-! the table only grows -/

theorem ValidChars.mono {t1 t2 : Table} (h : ∀ c, (t1 c).isSome = true → (t2 c).isSome = true)
    {a : List Char} (hv : ValidChars t1 a) : ValidChars t2 a := by
  intro c hc
  obtain ⟨h1, h2⟩ := hv c hc
  refine ⟨h1, ?_⟩
  rcases h2 with h2 | h2 | h2
  · exact Or.inl h2
  · exact Or.inr (Or.inl h2)
  · exact Or.inr (Or.inr (h c h2))

theorem ValidStory.mono {t1 t2 : Table} (h : ∀ c, (t1 c).isSome = true → (t2 c).isSome = true)
    {s : List Act} (hv : ValidStory t1 s) : ValidStory t2 s :=
  fun a ha => ⟨(hv a ha).1, (hv a ha).2.mono h⟩

theorem upsert_mono (tbl : Table) (c : Char) (f : Spec → Spec) :
    ∀ c', (tbl c').isSome = true → (upsert tbl c f c').isSome = true := by
  intro c' h
  simp only [upsert]
  split
  · rfl
  · exact h

theorem step_valid (cfg : Cfg) (st st' : St) (cl : Clause) (h : step cfg st cl = some st')
    (hv : ValidStory st.table st.story) : ValidStory st'.table st'.story := by
  cases cl with
  | entails c t actions =>
    simp only [step] at h
    split at h
    · cases h
    · split at h
      · cases h
      · injection h with h; subst h; exact hv
      · split at h
        · injection h with h; subst h; dsimp only; exact ValidStory.mono (upsert_mono st.table c _) hv
        · cases h
  | mood c starts m =>
    simp only [step] at h
    split at h
    · cases h
    · split at h
      · cases h
      · injection h with h; subst h; dsimp only; exact ValidStory.mono (upsert_mono st.table c _) hv
  | storyline text =>
    simp only [step] at h
    split at h
    · rename_i acts hval
      injection h with h; subst h
      exact combineStory_valid _ _ hv (validate_valid hval)
    · cases h
  | edit f =>
    simp only [step] at h
    split at h
    · rename_i acts hval
      injection h with h; subst h
      exact validate_valid hval
    · cases h

theorem runFrom_valid (cfg : Cfg) : ∀ (cls : List Clause) (st st' : St),
    runFrom cfg st cls = some st' → ValidStory st.table st.story → ValidStory st'.table st'.story := by
  intro cls
  induction cls with
  | nil => intro st st' h hv; simp only [runFrom] at h; injection h with h; subst h; exact hv
  | cons cl rest ih =>
    intro st st' h hv
    simp only [runFrom] at h
    split at h
    · rename_i st1 h1
      exact ih st1 st' h (step_valid cfg st st1 cl h1 hv)
    · cases h


theorem step_storyline {cfg : Cfg} {st st' : St} {t : List Char}
    (h : step cfg st (.storyline t) = some st') :
    st'.table = st.table ∧ validate (defd st.table) t = .ok (writtenActs t) ∧
      st'.story = combineStory st.story (writtenActs t) := by
  simp only [step] at h
  split at h
  · rename_i acts hval
    injection h with h; subst h
    obtain ⟨rfl, _⟩ := (validate_iff _ _ _).mp hval
    exact ⟨rfl, hval, rfl⟩
  · cases h

theorem step_storyline_cols {cfg : Cfg} {st st' : St} {t : List Char}
    (hv : ValidStory st.table st.story) (h : step cfg st (.storyline t) = some st') :
    st'.story.map columns = zipActs (st.story.map columns) (clauseCols t) := by
  obtain ⟨_, hval, hs⟩ := step_storyline h
  rw [hs, clauseCols_eq]
  exact combineStory_columns (fun a ha => (hv a ha).1) (fun b hb => (validate_valid hval b hb).1)

theorem step_other_story {cfg : Cfg} {st st' : St} {cl : Clause} (h : step cfg st cl = some st')
    (h1 : ∀ t, cl ≠ .storyline t) (h2 : ∀ f, cl ≠ .edit f) : st'.story = st.story := by
  cases cl with
  | entails c t actions =>
    simp only [step] at h
    split at h
    · cases h
    · split at h
      · cases h
      · injection h with h; subst h; rfl
      · split at h
        · injection h with h; subst h; rfl
        · cases h
  | mood c starts m =>
    simp only [step] at h
    split at h
    · cases h
    · split at h
      · cases h
      · injection h with h; subst h; rfl
  | storyline t => exact absurd rfl (h1 t)
  | edit f => exact absurd rfl (h2 f)

theorem runFrom_cols (cfg : Cfg) : ∀ (cls : List Clause) (st st' : St), noEdit cls = true →
    ValidStory st.table st.story → runFrom cfg st cls = some st' →
    st'.story.map columns = unionCols (st.story.map columns) (storyTexts cls) := by
  intro cls
  induction cls with
  | nil => intro st st' _ _ h; simp only [runFrom] at h; injection h with h; subst h; rfl
  | cons cl rest ih =>
    intro st st' hne hv h
    simp only [runFrom] at h
    split at h
    · rename_i st1 h1
      have hv1 := step_valid cfg st st1 cl h1 hv
      cases cl with
      | storyline t =>
        rw [ih st1 st' (by simpa [noEdit] using hne) hv1 h, step_storyline_cols hv h1]
        rfl
      | edit f => simp [noEdit] at hne
      | entails c t actions =>
        rw [ih st1 st' (by simpa [noEdit] using hne) hv1 h,
          step_other_story h1 (fun _ => by simp) (fun _ => by simp)]
        rfl
      | mood c s m =>
        rw [ih st1 st' (by simpa [noEdit] using hne) hv1 h,
          step_other_story h1 (fun _ => by simp) (fun _ => by simp)]
        rfl
    · cases h

/-! the scene table is what the clauses say -/

theorem selectActors_eq {cfg : Cfg} {t : Target} {r : String} {as : List String}
    (h : selectActors cfg t = some (r, as)) : as = actorsOf cfg t := by
  cases t with
  | every r' =>
    simp only [selectActors] at h
    split at h
    · injection h with h; injection h with _ h; exact h.symm
    · cases h
  | actor n =>
    simp only [selectActors] at h
    split at h
    · injection h with h; injection h with _ h; exact h.symm
    · cases h

theorem tableAfter_nil (cfg : Cfg) (t0 : Table) (c : Char) : tableAfter cfg t0 [] c = t0 c := by
  simp only [tableAfter, specDefined, specEntails, specMood, Bool.or_false, List.append_nil]
  cases t0 c <;> simp

theorem step_table {cfg : Cfg} {st st' : St} {cl : Clause} (h : step cfg st cl = some st')
    (rest : List Clause) (c : Char) :
    tableAfter cfg st'.table rest c = tableAfter cfg st.table (cl :: rest) c := by
  cases cl with
  | storyline t =>
    obtain ⟨ht, _, _⟩ := step_storyline h
    simp [tableAfter, ht, specDefined, specEntails, specMood]
  | edit f =>
    simp only [step] at h
    split at h
    · injection h with h; subst h
      simp [tableAfter, specDefined, specEntails, specMood]
    · cases h
  | mood c' s m =>
    simp only [step] at h
    split at h
    · cases h
    · split at h
      · cases h
      · injection h with h; subst h
        by_cases hc : c = c'
        · subst hc
          cases s <;> simp [tableAfter, upsert, specDefined, specEntails, specMood]
        · have hc' : ¬ c' = c := fun e => hc e.symm
          simp [tableAfter, upsert, specDefined, specEntails, specMood, hc, hc']
  | entails c' t actions =>
    simp only [step] at h
    split at h
    · cases h
    · split at h
      · cases h
      · rename_i r hsel
        injection h with h; subst h
        have := selectActors_eq hsel
        simp [tableAfter, specDefined, specEntails, specMood, ← this]
      · rename_i r a as hsel
        split at h
        · injection h with h; subst h
          have := selectActors_eq hsel
          by_cases hc : c = c'
          · subst hc
            simp [tableAfter, upsert, specDefined, specEntails, specMood, ← this]
          · have hc' : ¬ c' = c := fun e => hc e.symm
            simp [tableAfter, upsert, specDefined, specEntails, specMood, hc, hc']
        · cases h

theorem runFrom_table (cfg : Cfg) : ∀ (cls : List Clause) (st st' : St),
    runFrom cfg st cls = some st' → ∀ c, st'.table c = tableAfter cfg st.table cls c := by
  intro cls
  induction cls with
  | nil =>
    intro st st' h c
    simp only [runFrom] at h; injection h with h; subst h
    exact (tableAfter_nil cfg _ c).symm
  | cons cl rest ih =>
    intro st st' h c
    simp only [runFrom] at h
    split at h
    · rename_i st1 h1
      rw [ih st1 st' h c, step_table h1]
    · cases h


end Shk.Story
