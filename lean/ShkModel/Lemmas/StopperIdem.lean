import ShkModel.Lemmas.StopperFinal
/-! At most one Stop call is effective; runnable schedules (for non-vacuity examples). -/
namespace Shk.Stopper

structure ActiveInv (s : St) : Prop where
  le1 : s.threads.countP activeStop ≤ 1
  none : s.stopCalled = false → s.threads.countP activeStop = 0

theorem active_go {s s' : St} {i : Nat} {t : Thread} (ht : s.threads[i]? = some t)
    (h : goStep s i t = some s') (c : ActiveInv s) : ActiveInv s' := by
  obtain ⟨c1, c2⟩ := c
  have k1 := fun n => countP_set' activeStop s.threads i t n ht
  have p1 : activeStop t = true → 0 < s.threads.countP activeStop := fun hl =>
    List.countP_pos_iff.mpr ⟨t, List.mem_of_getElem? ht, hl⟩
  generalize s.threads.countP activeStop = N at *
  obtain ⟨kind, pc, ret⟩ := t
  go_cases h
  all_goals (constructor <;> simp [St.upd, k1, activeStop] at p1 ⊢ <;> (try simp_all) <;> omega)

theorem active_reach {cap : Nat} {s : St} (h : Reach cap s) : ActiveInv s := by
  induction h with
  | init => constructor <;> simp [init]
  | spawn s k _ ih =>
    obtain ⟨c1, c2⟩ := ih
    have e : (s.threads ++ [({ kind := k } : Thread)]).countP activeStop = s.threads.countP activeStop := by
      simp [List.countP_append, activeStop]
    constructor <;> simp only [spawn, e] <;> assumption
  | step s s' i a _ hs ih =>
    obtain ⟨t, ht, ⟨_, hg⟩ | ⟨_, hg⟩ | ⟨_, hg⟩⟩ := step_elim hs
    · exact active_go ht hg ih
    · obtain ⟨v, _, _, rfl⟩ := retStep_elim hg
      obtain ⟨c1, c2⟩ := ih
      have k1 := countP_set' activeStop s.threads i t { t with ret := true } ht
      rw [show activeStop { t with ret := true } = activeStop t from rfl] at k1
      constructor <;> simp only [St.upd, k1]
      · omega
      · intro h; have := c2 h; omega
    · obtain ⟨c1, c2⟩ := ih
      have k1 := fun n => countP_set' activeStop s.threads i t n ht
      obtain ⟨kind, pc, ret⟩ := t
      generalize s.threads.countP activeStop = N at *
      alt_cases hg
      all_goals (constructor <;> simp [St.upd, k1, activeStop] <;> assumption)

/-! ### runnable schedules -/

inductive Sched
  | call (k : Kind)
  | go (i : Nat)
  | ret (i : Nat)
  | alt (i : Nat)

def runSched : St → List Sched → Option St
  | s, [] => some s
  | s, .call k :: r => runSched (spawn s k) r
  | s, .go i :: r => (step s i .go).bind fun s' => runSched s' r
  | s, .ret i :: r => (step s i .ret).bind fun s' => runSched s' r
  | s, .alt i :: r => (step s i .alt).bind fun s' => runSched s' r

theorem reach_run {cap : Nat} {s s' : St} (h : Reach cap s) (l : List Sched) (hr : runSched s l = some s') : Reach cap s' := by
  induction l generalizing s with
  | nil => simp [runSched] at hr; exact hr ▸ h
  | cons x xs ih =>
    cases x with
    | call k => exact ih (Reach.spawn s k h) hr
    | go i =>
      simp only [runSched] at hr
      cases hs : step s i .go with
      | none => simp [hs] at hr
      | some s1 => simp [hs] at hr; exact ih (Reach.step s s1 i .go h hs) hr
    | ret i =>
      simp only [runSched] at hr
      cases hs : step s i .ret with
      | none => simp [hs] at hr
      | some s1 => simp [hs] at hr; exact ih (Reach.step s s1 i .ret h hs) hr
    | alt i =>
      simp only [runSched] at hr
      cases hs : step s i .alt with
      | none => simp [hs] at hr
      | some s1 => simp [hs] at hr; exact ih (Reach.step s s1 i .alt h hs) hr

open Sched in
/-- a schedule that exercises everything (used by the non-vacuity example of C15) -/
def demo : List Sched :=
  [call .atask, call (.ltask true), call .worker, call .closer, call .wcq, call .wcs,
   go 0, go 1, go 1, go 2, go 3, go 4, go 5, ret 0, ret 2, ret 3,
   call .stop, go 6, go 6,            -- Stop: stopCalled, quiescing
   call .task, go 7, ret 7,           -- late RunTask: refused
   go 0, go 0, go 1, go 1,            -- bodies run
   go 0, go 1, go 1,                  -- postlude / release / postlude
   go 6, go 6,                        -- drained, stop channel closed
   go 2, go 2, go 2,                  -- worker runs and is done
   go 6, go 6, go 6,                  -- wait passed, closer called, stopped
   call .closer, go 8, go 8, ret 8,   -- late closer: called at once
   go 6, ret 6]

theorem demo_runs : (runSched (init 1) demo).isSome = true := by decide
def demoEnd : St := (runSched (init 1) demo).get demo_runs

open Sched in
/-- Stop runs to the end, then RunWorker is called -/
def lateWorker : List Sched := [call .stop, go 0, go 0, go 0, go 0, go 0, go 0, go 0, call .worker, go 1, go 1]
theorem late_runs : (runSched (init 1) lateWorker).isSome = true := by decide
def lateEnd : St := (runSched (init 1) lateWorker).get late_runs

end Shk.Stopper
