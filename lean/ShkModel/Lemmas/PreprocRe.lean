import ShkModel.Lemmas.Template
import ShkModel.Model.Preproc
import ShkModel.Gen.ClauseRe
/-! Helper lemmas tying the byte scanner of `Model/Preproc.lean` to the regenerated `Gen.preprocRe`. -/
namespace Shk.PreprocRe
open Shk.Preproc Shk.Re Shk.Tpl

def WCls : List (Nat × Nat) := [(48, 57), (65, 90), (95, 95), (97, 122)]

theorem wcls_isWord (n : Nat) : inRanges WCls n = isWord n := by
  rw [Bool.eq_iff_iff]
  simp only [inRanges, WCls, isWord, List.any_cons, List.any_nil, Bool.or_false, Bool.or_eq_true,
    Bool.and_eq_true, decide_eq_true_eq, beq_iff_eq]
  omega

theorem preprocRe_shape : Gen.preprocRe = .cat (.chr 126) (.cat (.plus true (.cls WCls)) (.chr 126)) := by decide

theorem isWord_ne_tilde (n : Nat) (h : isWord n = true) : (n == 126) = false := by
  simp only [isWord, Bool.or_eq_true, Bool.and_eq_true, decide_eq_true_eq, beq_iff_eq] at h
  simp; omega

end Shk.PreprocRe

namespace Shk.PreprocRe
open Shk.Preproc Shk.Re Shk.Tpl

def isWordC (ch : Char) : Bool := isWord ch.toNat

theorem mem_takeWhile_p {p : Char → Bool} {l : List Char} {x : Char} (h : x ∈ l.takeWhile p) : p x = true := by
  have := List.all_takeWhile (p := p) (l := l)
  rw [List.all_eq_true] at this
  exact this x h

theorem matchAt_map (t : List Char) :
    matchAt (t.map Char.toNat) =
      match t.dropWhile isWordC with
      | c :: _ => if c.toNat == tilde && !(t.takeWhile isWordC).isEmpty then some ((t.takeWhile isWordC).map Char.toNat) else none
      | [] => none := by
  unfold matchAt
  have h1 : (t.map Char.toNat).dropWhile isWord = (t.dropWhile isWordC).map Char.toNat := by
    rw [List.dropWhile_map]; rfl
  have h2 : (t.map Char.toNat).takeWhile isWord = (t.takeWhile isWordC).map Char.toNat := by
    rw [List.takeWhile_map]; rfl
  rw [h1, h2]
  cases t.dropWhile isWordC with
  | nil => rfl
  | cons c r => simp

end Shk.PreprocRe
