import ShkModel.Lemmas.PrinterAudInv
/-! Helper lemmas for C10, part 8: every clause keeps the invariant; so does `load`. -/
set_option linter.unusedSimpArgs false
set_option linter.unusedVariables false
namespace Shk.Printer
open Shk.Story (Act)

/-- the audience clauses leave roles, cast and script alone -/
structure SameHead (c c' : Cfg) : Prop where
  roles : c'.roles = c.roles
  actors : c'.actors = c.actors
  scenes : c'.scenes = c.scenes
  story : c'.story = c.story
  repFrom : c'.repFrom = c.repFrom
  repAct : c'.repAct = c.repAct

theorem SameHead.refl (c : Cfg) : SameHead c c := ⟨rfl, rfl, rfl, rfl, rfl, rfl⟩

theorem SameHead.trans {a b c : Cfg} (h1 : SameHead a b) (h2 : SameHead b c) : SameHead a c :=
  ⟨h2.roles.trans h1.roles, h2.actors.trans h1.actors, h2.scenes.trans h1.scenes, h2.story.trans h1.story,
   h2.repFrom.trans h1.repFrom, h2.repAct.trans h1.repAct⟩

theorem sameHead_put (c : Cfg) (m : Member) : SameHead c (putMember c m) := ⟨rfl, rfl, rfl, rfl, rfl, rfl⟩

theorem sameHead_pAudits {c c' : Cfg} {n : String} {e : Ex} (h : pAudits c n e = some c') : SameHead c c' := by
  obtain ⟨_, _, rfl⟩ := pAudits_inv h; exact sameHead_put _ _

theorem sameHead_pAssign {c c' : Cfg} {n : String} {a : Assign} (h : pAssign c n a = some c') : SameHead c c' := by
  obtain ⟨_, _, _, rfl⟩ := pAssign_inv h; exact sameHead_put _ _

theorem sameHead_pExpects {c c' : Cfg} {n md : String} {e : Ex} (h : pExpects c n md e = some c') :
    SameHead c c' := by
  obtain ⟨_, _, rfl⟩ := pExpects_inv h; exact sameHead_put _ _

theorem sameHead_pWatchActor {c c' : Cfg} {n a s : String} (h : pWatchActor c n a s = some c') :
    SameHead c c' := by
  simp only [pWatchActor] at h
  cases h1 : findActor c a with
  | none => simp [h1] at h
  | some act =>
    simp only [h1] at h
    cases h2 : findRole c act.role with
    | none => simp [h2] at h
    | some r =>
      simp only [h2] at h
      split at h
      · injection h with h; subst h; exact sameHead_put _ _
      · cases h

theorem getMember_put_name (c : Cfg) (m : Member) (n : String) (h : m.name = n) :
    getMember (putMember c m) n = m := by subst h; exact getMember_put_same c m

theorem pAudits_member {c c' : Cfg} {n : String} {e : Ex} (h : pAudits c n e = some c') :
    (getMember c' n).active = some e ∧ (getMember c' n).expects = (getMember c n).expects := by
  obtain ⟨_, _, rfl⟩ := pAudits_inv h
  have hq := getMember_put_name c
    { (getMember c n) with obs := addSigs (getMember c n).obs e.vars, active := some e } n (getMember_name c n)
  dsimp only at hq ⊢
  rw [hq]
  exact ⟨rfl, rfl⟩

/-- the pair of facts carried through the audience clauses -/
def Good (mt : String → Act → Bool) (c c' : Cfg) : Prop := AudInv c' ∧ SameHead c c'

theorem good_needCond {c c' : Cfg} {n : String} (hinv : AudInv c) (h : needCond c n = some c') :
    AudInv c' ∧ SameHead c c' ∧ (getMember c' n).active.isSome = true := by
  simp only [needCond] at h
  cases ha : (getMember c n).active with
  | some x =>
    simp only [ha] at h
    injection h with h; subst h
    exact ⟨hinv, SameHead.refl _, by rw [ha]; rfl⟩
  | none =>
    simp only [ha] at h
    refine ⟨audInv_pAudits hinv h, sameHead_pAudits h, ?_⟩
    rw [(pAudits_member h).1]; rfl

theorem good_likeCond {c c' : Cfg} {n : String} {tg : Member} (hinv : AudInv c)
    (h : likeCond c n tg = some c') :
    AudInv c' ∧ SameHead c c' ∧ (getMember c' n).active.isSome = true ∧
      ((getMember c n).expects = none → (getMember c' n).expects = none) := by
  simp only [likeCond] at h
  cases ha : (getMember c n).active with
  | some x =>
    simp only [ha] at h
    injection h with h; subst h
    exact ⟨hinv, SameHead.refl _, by rw [ha]; rfl, fun h => h⟩
  | none =>
    simp only [ha] at h
    cases hta : tg.active with
    | none => simp [hta] at h
    | some ta =>
      simp only [hta] at h
      refine ⟨audInv_pAudits hinv h, sameHead_pAudits h, ?_, ?_⟩
      · rw [(pAudits_member h).1]; rfl
      · intro he
        rw [(pAudits_member h).2]; exact he

theorem good_watchAll (n s : String) : ∀ (as : List String) (c c' : Cfg), AudInv c →
    watchAll n s as c = some c' → AudInv c' ∧ SameHead c c' := by
  intro as
  induction as with
  | nil => intro c c' hinv h; simp [watchAll] at h; subst h; exact ⟨hinv, SameHead.refl _⟩
  | cons a as ih =>
    intro c c' hinv h
    simp only [watchAll] at h
    cases h1 : pWatchActor c n a s with
    | none => simp [h1] at h
    | some c1 =>
      simp only [h1] at h
      obtain ⟨h2, h3⟩ := ih c1 c' (audInv_pWatchActor hinv h1) h
      exact ⟨h2, (sameHead_pWatchActor h1).trans h3⟩

theorem good_stepAud {c c' : Cfg} {n : String} {cl : AClause} (hinv : AudInv c)
    (h : stepAud c n cl = some c') : AudInv c' ∧ SameHead c c' := by
  cases cl with
  | audits e => exact ⟨audInv_pAudits hinv h, sameHead_pAudits h⟩
  | assign a =>
    simp only [stepAud] at h
    cases h1 : needCond c n with
    | none => simp [h1] at h
    | some c1 =>
      simp only [h1] at h
      obtain ⟨i1, s1, a1⟩ := good_needCond hinv h1
      exact ⟨audInv_pAssign i1 a1 h, s1.trans (sameHead_pAssign h)⟩
  | expects md e =>
    simp only [stepAud] at h
    cases h1 : needCond c n with
    | none => simp [h1] at h
    | some c1 =>
      simp only [h1] at h
      obtain ⟨i1, s1, a1⟩ := good_needCond hinv h1
      exact ⟨audInv_pExpects i1 a1 h, s1.trans (sameHead_pExpects h)⟩
  | expectsLike t =>
    simp only [stepAud] at h
    cases h0 : findMember c t with
    | none => simp [h0] at h
    | some tg =>
      simp only [h0] at h
      cases h1 : tg.expects with
      | none => simp [h1] at h
      | some x =>
        obtain ⟨md, te⟩ := x
        simp only [h1] at h
        cases h2 : (getMember c n).expects with
        | some y => simp [h2] at h
        | none =>
          simp only [h2] at h
          cases h3 : likeCond c n tg with
          | none => simp [h3] at h
          | some c1 =>
            simp only [h3] at h
            obtain ⟨i1, s1, a1, _⟩ := good_likeCond hinv h3
            exact ⟨audInv_pExpects i1 a1 h, s1.trans (sameHead_pExpects h)⟩
  | watchSig t s =>
    cases t with
    | actor a => exact ⟨audInv_pWatchActor hinv h, sameHead_pWatchActor h⟩
    | every r =>
      simp only [stepAud] at h
      cases h1 : findRole c r with
      | none => simp [h1] at h
      | some ro =>
        simp only [h1] at h
        exact good_watchAll n s _ c c' hinv h
  | watchVar v =>
    refine ⟨audInv_pWatchVar hinv h, ?_⟩
    simp only [stepAud, pWatchVar] at h
    split at h
    · injection h with h; subst h; exact sameHead_put _ _
    · cases h
  | measures l =>
    refine ⟨audInv_pMeasures hinv h, ?_⟩
    simp only [stepAud, pMeasures] at h
    split at h
    · cases h
    · injection h with h; subst h; exact sameHead_put _ _
  | onlyHelps =>
    simp only [stepAud, pHelps] at h
    injection h with h; subst h
    exact ⟨audInv_pHelps hinv, sameHead_put _ _⟩

/-! ## interpretation clauses -/

/-- `g` only touches the interpretation -/
structure KeepsClauses (g : Member → Member) : Prop where
  name : ∀ m, (g m).name = m.name
  active : ∀ m, (g m).active = m.active
  assigns : ∀ m, (g m).assigns = m.assigns
  expects : ∀ m, (g m).expects = m.expects
  obs : ∀ m, (g m).obs = m.obs
  ylabel : ∀ m, (g m).ylabel = m.ylabel
  noplot : ∀ m, (g m).noplot = m.noplot

theorem keeps_setFoul (good : Bool) (f : Foul) : KeepsClauses (setFoul good f) := by
  refine ⟨?_, ?_, ?_, ?_, ?_, ?_, ?_⟩ <;> intro m <;> simp only [setFoul] <;> split <;> rfl

theorem keeps_ite {g : Member → Member} (h : KeepsClauses g) (p : Member → Prop) [DecidablePred p] :
    KeepsClauses (fun x => if p x then g x else x) := by
  refine ⟨?_, ?_, ?_, ?_, ?_, ?_, ?_⟩ <;> intro m <;> by_cases hp : p m <;>
    simp [hp, h.name, h.active, h.assigns, h.expects, h.obs, h.ylabel, h.noplot]

theorem KeepsClauses.chainOf {g : Member → Member} (h : KeepsClauses g) (m : Member) :
    chainOf (g m) = chainOf m := by
  simp only [Shk.Printer.chainOf, h.active, h.assigns, h.expects]

theorem KeepsClauses.freeOf {g : Member → Member} (h : KeepsClauses g) (m : Member) :
    freeOf (g m) = freeOf m := by
  simp only [Shk.Printer.freeOf, h.obs, h.ylabel, h.noplot]

theorem KeepsClauses.canon {g : Member → Member} (h : KeepsClauses g) (m : Member) :
    canon (g m) = canon m := by
  simp only [Shk.Printer.canon, h.chainOf, h.freeOf]

theorem audInv_map {c : Cfg} {g : Member → Member} (hg : KeepsClauses g) (hinv : AudInv c) :
    AudInv { c with members := c.members.map g } := by
  have hT : targetsOf (c.members.map g) = targetsOf c.members := by
    simp only [targetsOf, List.flatMap_map, hg.assigns]
  have hv : ∀ v, VarStatic c c.members v → VarStatic { c with members := c.members.map g } (c.members.map g) v := by
    intro v h
    cases v with
    | comp k => simpa [VarStatic, hT] using h
    | sig a s => exact h
  obtain ⟨rk, hr⟩ := hinv.ranked
  refine ⟨⟨?_, ?_, ?_, ?_, ?_, ?_⟩, ?_, ⟨rk, ?_, ?_, ?_⟩⟩
  · simp only [List.map_map]
    have : (fun x : Member => x.name) ∘ g = fun x => x.name := by funext m; exact hg.name m
    rw [this]; exact hinv.static.names
  · intro m hm
    obtain ⟨m0, hm0, rfl⟩ := List.mem_map.mp hm
    rw [hg.active, hg.assigns, hg.expects]; exact hinv.static.m3 m0 hm0
  · intro m hm x hx e he v hvv
    obtain ⟨m0, hm0, rfl⟩ := List.mem_map.mp hm
    rw [hg.chainOf] at hx
    obtain ⟨h1, h2⟩ := hinv.static.exVars m0 hm0 x hx e he v hvv
    exact ⟨hv v h1, by rw [hg.obs]; exact h2⟩
  · simp only [hT]; exact hinv.static.targets
  · intro m hm
    obtain ⟨m0, hm0, rfl⟩ := List.mem_map.mp hm
    rw [hg.obs]
    exact ⟨(hinv.static.obs m0 hm0).1, fun v hvv => hv v ((hinv.static.obs m0 hm0).2 v hvv)⟩
  · intro m hm a ha
    obtain ⟨m0, hm0, rfl⟩ := List.mem_map.mp hm
    rw [hg.assigns] at ha
    exact hinv.static.assignOk m0 hm0 a ha
  · intro m hm
    obtain ⟨m0, hm0, rfl⟩ := List.mem_map.mp hm
    rw [hg.canon]; exact hinv.nonempty m0 hm0
  · intro m hm x hx v hvv m' hm' a ha hav
    obtain ⟨m0, hm0, rfl⟩ := List.mem_map.mp hm
    obtain ⟨m1, hm1, rfl⟩ := List.mem_map.mp hm'
    rw [hg.canon] at hx
    rw [hg.assigns] at ha
    rw [hg.name, hg.name]
    exact hr.uses m0 hm0 x hx v hvv m1 hm1 a ha hav
  · intro m hm
    obtain ⟨m0, hm0, rfl⟩ := List.mem_map.mp hm
    rw [hg.chainOf, hg.name]; exact hr.chain m0 hm0
  · rw [List.pairwise_map]
    refine hr.first.imp ?_
    intro a b ⟨c0, hc0, hlt⟩
    refine ⟨c0, by rw [hg.canon]; exact hc0, fun d hd => ?_⟩
    rw [hg.canon] at hd
    rw [hg.name, hg.name]; exact hlt d hd

theorem putIn_eq_map {m q : Member} (hq : q.name = m.name) : ∀ (l : List Member), m ∈ l →
    (l.map (·.name)).Nodup → putIn q l = l.map fun x => if x.name = m.name then q else x := by
  intro l
  induction l with
  | nil => intro h; cases h
  | cons y l ih =>
    intro hm hnd
    simp only [List.map_cons, List.nodup_cons] at hnd
    by_cases hy : y.name = m.name
    · have hyq : y.name = q.name := by rw [hy, hq]
      -- nobody else has this name
      have hrest : l.map (fun x => if x.name = m.name then q else x) = l := by
        have : ∀ x ∈ l, (fun x : Member => if x.name = m.name then q else x) x = id x := by
          intro x hx
          have : x.name ≠ m.name := by
            intro e
            exact hnd.1 (by rw [hy, ← e]; exact List.mem_map.mpr ⟨x, hx, rfl⟩)
          simp [this]
        rw [List.map_congr_left this, List.map_id]
      simp only [putIn, hyq, if_true, List.map_cons, hrest, hq]
    · have hyq : ¬ y.name = q.name := by rw [hq]; exact hy
      have hml : m ∈ l := by
        rcases List.mem_cons.mp hm with rfl | h
        · exact absurd rfl hy
        · exact h
      simp only [putIn, hyq, if_false, List.map_cons, hy]
      rw [ih hml hnd.2]

theorem good_stepInterp {c c' : Cfg} {cl : IClause} (hinv : AudInv c) (h : stepInterp c cl = some c') :
    AudInv c' ∧ SameHead c c' := by
  cases cl with
  | ignoreAll good =>
    simp only [stepInterp] at h
    injection h with h; subst h
    exact ⟨audInv_map (keeps_setFoul good .ignore) hinv, ⟨rfl, rfl, rfl, rfl, rfl, rfl⟩⟩
  | set mode t good =>
    simp only [stepInterp] at h
    cases hf : findMember c t with
    | none => simp [hf] at h
    | some m =>
      simp only [hf] at h
      injection h with h; subst h
      have hmem : m ∈ c.members := List.mem_of_find?_eq_some hf
      have hk := keeps_setFoul good mode
      have heq : putMember c (setFoul good mode m) =
          { c with members := c.members.map fun x => if x.name = m.name then setFoul good mode x else x } := by
        simp only [putMember]
        rw [putIn_eq_map (hk.name m) c.members hmem hinv.static.names]
        congr 1
        apply List.map_congr_left
        intro x hx
        by_cases hxn : x.name = m.name
        · -- the same name: the same member
          have : x = m := by
            have h1 := find_of_mem_nodup (fun y : Member => y.name) c.members x hinv.static.names hx
            have h2 := find_of_mem_nodup (fun y : Member => y.name) c.members m hinv.static.names hmem
            simp only [hxn] at h1
            rw [h1] at h2
            injection h2
          simp [hxn, this]
        · simp [hxn]
      rw [heq]
      refine ⟨audInv_map (g := fun x => if x.name = m.name then setFoul good mode x else x) ?_ hinv,
        ⟨rfl, rfl, rfl, rfl, rfl, rfl⟩⟩
      exact keeps_ite hk _

/-! ## every clause, every configuration -/

theorem inv_of_good {mt : String → Act → Bool} {c c' : Cfg} (hinv : Inv mt c)
    (h : AudInv c' ∧ SameHead c c') : Inv mt c' :=
  ⟨headInv_fields hinv.head h.2.roles h.2.actors h.2.scenes h.2.story h.2.repFrom h.2.repAct, h.1⟩

theorem inv_step {mt : String → Act → Bool} {c c' : Cfg} {cl : Clause} (hinv : Inv mt c)
    (h : step mt c cl = some c') : Inv mt c' := by
  cases cl with
  | title s =>
    simp only [step] at h; injection h with h; subst h
    exact ⟨headInv_fields hinv.head rfl rfl rfl rfl rfl rfl, audInv_fields hinv.aud rfl rfl rfl⟩
  | author s =>
    simp only [step] at h; injection h with h; subst h
    exact ⟨headInv_fields hinv.head rfl rfl rfl rfl rfl rfl, audInv_fields hinv.aud rfl rfl rfl⟩
  | attention s =>
    simp only [step] at h; injection h with h; subst h
    exact ⟨headInv_fields hinv.head rfl rfl rfl rfl rfl rfl, audInv_fields hinv.aud rfl rfl rfl⟩
  | role name ext items => exact inv_stepRole hinv h
  | cast name mul role env => exact inv_stepCast hinv h
  | tempo ns =>
    simp only [step] at h; injection h with h; subst h
    exact ⟨headInv_fields hinv.head rfl rfl rfl rfl rfl rfl, audInv_fields hinv.aud rfl rfl rfl⟩
  | entails ch t actions => exact inv_entails hinv h
  | mood ch starts m => exact inv_mood hinv h
  | storyline text => exact inv_storyline hinv h
  | edit f => exact inv_edit hinv h
  | repeatFrom re =>
    simp only [step] at h; injection h with h; subst h
    exact inv_repeatFrom re hinv
  | repeatTime d =>
    simp only [step] at h; injection h with h; subst h
    exact ⟨headInv_fields hinv.head rfl rfl rfl rfl rfl rfl, audInv_fields hinv.aud rfl rfl rfl⟩
  | repeatCount k =>
    simp only [step] at h; injection h with h; subst h
    exact ⟨headInv_fields hinv.head rfl rfl rfl rfl rfl rfl, audInv_fields hinv.aud rfl rfl rfl⟩
  | aud n cl => exact inv_of_good hinv (good_stepAud hinv.aud h)
  | interp cl => exact inv_of_good hinv (good_stepInterp hinv.aud h)

theorem inv_init (mt : String → Act → Bool) : Inv mt Cfg.init := by
  refine ⟨⟨List.nodup_nil, by simp [Cfg.init], List.nodup_nil, by simp [Cfg.init], List.nodup_nil,
    by simp [Cfg.init], ⟨by intro a ha; simp [Cfg.init] at ha, by intro a ha; simp [Cfg.init] at ha⟩,
    by intro re h; simp [Cfg.init] at h⟩, ⟨⟨List.nodup_nil, by simp [Cfg.init], by simp [Cfg.init], ?_,
    by simp [Cfg.init], by simp [Cfg.init]⟩, by simp [Cfg.init], ⟨fun _ _ => 0, by simp [Cfg.init],
    by simp [Cfg.init], by simp [Cfg.init]⟩⟩⟩
  simp [Cfg.init, targetsOf]

theorem inv_loadFrom {mt : String → Act → Bool} : ∀ (l : List Clause) (c c' : Cfg), Inv mt c →
    loadFrom mt c l = some c' → Inv mt c' := by
  intro l
  induction l with
  | nil => intro c c' hinv h; simp [loadFrom] at h; subst h; exact hinv
  | cons x l ih =>
    intro c c' hinv h
    simp only [loadFrom] at h
    cases hs : step mt c x with
    | none => simp [hs] at h
    | some c1 =>
      simp only [hs] at h
      exact ih c1 c' (inv_step hinv hs) h

theorem inv_load {mt : String → Act → Bool} {l : List Clause} {c : Cfg} (h : load mt l = some c) :
    Inv mt c := inv_loadFrom l Cfg.init c (inv_init mt) h

end Shk.Printer
