import ShkModel.Model.Paths
/-! Helper lemmas for C12/C13: the algebra of `filepath.Clean`. -/
namespace Shk.Paths
variable {α : Type}

/-- a stack of the relative mode never holds an empty or `.` component -/
def Good (st : List (Comp α)) : Prop := ∀ c ∈ st, c ≠ Comp.empty ∧ c ≠ Comp.dot

theorem good_nil : Good ([] : List (Comp α)) := by intro c h; cases h

theorem good_step (ab : Bool) (st : List (Comp α)) (c : Comp α) (h : Good st) : Good (step ab st c) := by
  cases c with
  | empty => exact h
  | dot => exact h
  | nm a =>
    intro x hx
    simp only [step, List.mem_cons] at hx
    rcases hx with rfl | hx
    · exact ⟨nofun, nofun⟩
    · exact h x hx
  | up =>
    cases st with
    | nil =>
      cases ab
      · intro x hx
        simp only [step, Bool.false_eq_true, if_false, List.mem_cons, List.not_mem_nil, or_false] at hx
        subst hx
        exact ⟨nofun, nofun⟩
      · intro x hx
        simp [step] at hx
    | cons t r =>
      have hr : Good r := fun x hx => h x (List.mem_cons_of_mem _ hx)
      cases t with
      | up =>
        intro x hx
        simp only [step, List.mem_cons] at hx
        rcases hx with rfl | rfl | hx
        · exact ⟨nofun, nofun⟩
        · exact ⟨nofun, nofun⟩
        · exact hr x hx
      | empty => exact hr
      | dot => exact hr
      | nm a => exact hr

theorem good_fold (ab : Bool) (y : List (Comp α)) : ∀ st, Good st → Good (y.foldl (step ab) st) := by
  induction y with
  | nil => intro st h; exact h
  | cons c y ih => intro st h; exact ih _ (good_step ab st c h)

/-- replaying one more component: cleaning the (relative) cleaned prefix gives the same stack -/
theorem fold_step_rel (a : Bool) (S T : List (Comp α)) (c : Comp α) (hT : Good T) :
    (step false T c).reverse.foldl (step a) S = step a (T.reverse.foldl (step a) S) c := by
  cases c with
  | empty => rfl
  | dot => rfl
  | nm x => simp [step, List.foldl_append]
  | up =>
    cases T with
    | nil => simp [step]
    | cons t r =>
      cases t with
      | up => simp [step, List.foldl_append]
      | nm x => simp [step, List.foldl_append]
      | empty => exact absurd rfl (hT Comp.empty (List.mem_cons_self)).1
      | dot => exact absurd rfl (hT Comp.dot (List.mem_cons_self)).2

theorem fold_clean_rel_gen (a : Bool) (S : List (Comp α)) (y : List (Comp α)) :
    ∀ T, Good T → (T.reverse ++ y).foldl (step a) S = (y.foldl (step false) T).reverse.foldl (step a) S := by
  induction y with
  | nil => intro T _; simp
  | cons c y ih =>
    intro T hT
    rw [List.foldl_cons, ← ih (step false T c) (good_step false T c hT)]
    rw [List.foldl_append, List.foldl_append, List.foldl_cons, fold_step_rel a S T c hT]

/-- `Clean(x + "/" + Clean(y)) = Clean(x + "/" + y)` at the level of stacks, for a relative `y` -/
theorem fold_clean_rel (a : Bool) (S : List (Comp α)) (y : List (Comp α)) :
    (cleanComps false y).foldl (step a) S = y.foldl (step a) S := by
  have := fold_clean_rel_gen a S y [] good_nil
  simpa [cleanComps] using this.symm

/-- names are pushed -/
theorem fold_names (a : Bool) (ns : List α) : ∀ S : List (Comp α),
    (names ns).foldl (step a) S = (names ns).reverse ++ S := by
  induction ns with
  | nil => intro S; rfl
  | cons n ns ih =>
    intro S
    simp only [names, List.map_cons, List.foldl_cons, step, List.reverse_cons, List.append_assoc,
      List.singleton_append] at *
    rw [ih]

/-- in absolute mode the stack only ever holds names -/
theorem abs_stack_names (y : List (Comp α)) : ∀ ms : List α,
    ∃ ns : List α, y.foldl (step true) (names ms) = names ns := by
  induction y with
  | nil => intro ms; exact ⟨ms, rfl⟩
  | cons c y ih =>
    intro ms
    cases c with
    | empty => exact ih ms
    | dot => exact ih ms
    | nm a => exact ih (a :: ms)
    | up =>
      cases ms with
      | nil => exact ih []
      | cons m r => exact ih r

theorem names_reverse (ns : List α) : (names ns).reverse = names ns.reverse := by
  simp [names]

theorem names_append (a b : List α) : names (a ++ b) = names a ++ names b := by
  simp [names]

/-- cleaning an absolute path that is already a list of names changes nothing -/
theorem cleanComps_names (a : Bool) (ns : List α) : cleanComps a (names ns) = names ns := by
  simp [cleanComps, fold_names]


/-- the stack reached after walking the current directory and then `o` (or `o` alone when absolute) -/
def base (cwd : List α) (o : P α) : List (Comp α) :=
  if o.abs then o.comps.foldl (step true) [] else (names cwd ++ o.comps).foldl (step true) []

theorem base_names (cwd : List α) (o : P α) : ∃ ns : List α, base cwd o = names ns := by
  unfold base
  split
  · exact abs_stack_names o.comps []
  · rw [List.foldl_append, fold_names, List.append_nil, names_reverse]
    exact abs_stack_names o.comps _

theorem cleanComps_idem_abs (y : List (Comp α)) : cleanComps true (cleanComps true y) = cleanComps true y := by
  obtain ⟨ns, h⟩ := abs_stack_names y ([] : List α)
  have h' : y.foldl (step true) [] = names ns := h
  simp only [cleanComps, h', names_reverse]
  rw [fold_names, List.append_nil, names_reverse, List.reverse_reverse, names_reverse]

theorem absolutize_abs (cwd : List α) (p : P α) : (absolutize cwd p).abs = true := by
  unfold absolutize
  split
  · simpa [clean]
  · rfl

theorem absolutize_comps (cwd : List α) (o : P α) : (absolutize cwd o).comps = (base cwd o).reverse := by
  unfold absolutize base
  split <;> rename_i h
  · simp [clean, cleanComps, h]
  · simp [clean, cleanComps]

/-- `Abs(Join(o, more…))` continues the walk of `o` with `more` -/
theorem absolutize_join_comps (cwd : List α) (o : P α) (more : List (Comp α)) :
    (absolutize cwd (join o more)).comps = (more.foldl (step true) (base cwd o)).reverse := by
  unfold absolutize base join
  by_cases h : o.abs = true
  · simp only [clean, h, if_true]
    rw [cleanComps_idem_abs]
    simp [cleanComps, List.foldl_append]
  · have h' : o.abs = false := by cases hb : o.abs <;> simp_all
    simp only [clean, h', Bool.false_eq_true, if_false]
    have e := fold_clean_rel true ((names cwd).foldl (step true) []) (o.comps ++ more)
    simp only [cleanComps] at e
    simp only [cleanComps, List.foldl_append] at e ⊢
    rw [e]


/-- cleaning twice reaches the same stack -/
theorem fold_cleanComps (ab : Bool) (y : List (Comp α)) :
    (cleanComps ab y).foldl (step ab) [] = y.foldl (step ab) [] := by
  cases ab
  · exact fold_clean_rel false [] y
  · obtain ⟨ms, hms⟩ := abs_stack_names y ([] : List α)
    have hms' : y.foldl (step true) [] = names ms := hms
    simp only [cleanComps, hms', names_reverse]
    rw [fold_names, List.append_nil, names_reverse, List.reverse_reverse]

/-- `Join(Join(q, a), b) = Join(q, a, b)` -/
theorem join_join (q : P α) (m1 m2 : List (Comp α)) : join (join q m1) m2 = join q (m1 ++ m2) := by
  simp only [join, clean, P.mk.injEq, true_and]
  simp only [cleanComps, List.foldl_append]
  have := fold_cleanComps q.abs (q.comps ++ m1)
  simp only [cleanComps, List.foldl_append] at this
  rw [this]

/-- the recorded range after any number of `expandTimeRange` calls brackets every recorded time -/
theorem record_brackets (ts : List Int) :
    ∀ (lo hi : Int), lo ≤ hi →
      ∃ lo' hi', ts.foldl expand (some (lo, hi)) = some (lo', hi') ∧ lo' ≤ lo ∧ hi ≤ hi' ∧ lo' ≤ hi' ∧
        ∀ t ∈ ts, lo' ≤ t ∧ t ≤ hi' := by
  induction ts with
  | nil => intro lo hi h; exact ⟨lo, hi, rfl, Int.le_refl _, Int.le_refl _, h, by intro t ht; cases ht⟩
  | cons a ts ih =>
    intro lo hi h
    simp only [List.foldl_cons, expand]
    obtain ⟨lo', hi', e, h1, h2, h3, h4⟩ := ih (if a < lo then a else lo) (if a > hi then a else hi)
      (by split <;> split <;> omega)
    refine ⟨lo', hi', e, ?_, ?_, h3, ?_⟩
    · split at h1 <;> omega
    · split at h2 <;> omega
    · intro t ht
      rcases List.mem_cons.mp ht with rfl | ht
      · constructor
        · split at h1 <;> omega
        · split at h2 <;> omega
      · exact h4 t ht


end Shk.Paths
