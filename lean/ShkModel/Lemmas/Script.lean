import ShkModel.Model.Script
/-! Helper lemmas for C13: association lists of roles. -/
namespace Shk.Script

theorem lookup_append_new {β : Type} (k : String) (v : β) (l : List (String × β)) (h : lookup k l = none) :
    lookup k (l ++ [(k, v)]) = some v := by
  induction l with
  | nil => simp [lookup]
  | cons x l ih =>
    obtain ⟨k', v'⟩ := x
    simp only [lookup, List.cons_append] at h ⊢
    split
    · rename_i e; simp [e] at h
    · rename_i e; simp only [e, if_false] at h; exact ih h

theorem lookup_append_other {β : Type} (k k' : String) (v : β) (l : List (String × β)) (h : k' ≠ k) :
    lookup k (l ++ [(k', v)]) = lookup k l := by
  induction l with
  | nil => simp [lookup, h]
  | cons x l ih =>
    obtain ⟨k'', v'⟩ := x
    simp only [lookup, List.cons_append]
    split
    · rfl
    · exact ih

theorem addActions_eq (acc more res : List (String × String)) (h : addActions acc more = some res) :
    res = acc ++ more := by
  induction more generalizing acc with
  | nil => simp [addActions] at h; simp [h]
  | cons x more ih =>
    obtain ⟨n, c⟩ := x
    simp only [addActions] at h
    split at h
    · cases h
    · have := ih _ h
      simp [this]


theorem fileOf_append {β : Type} (k : String) (l1 l2 : List (String × β)) :
    fileOf k (l1 ++ l2) = match fileOf k l2 with
      | some x => some x
      | none => fileOf k l1 := by
  induction l1 with
  | nil => cases h : fileOf k l2 <;> simp [fileOf, h]
  | cons x l1 ih =>
    obtain ⟨k', v⟩ := x
    simp only [List.cons_append, fileOf, ih]
    cases h : fileOf k l2 <;> simp

theorem fileOf_none_of_not_mem {β : Type} (k : String) (l : List (String × β))
    (h : ∀ x ∈ l, x.1 ≠ k) : fileOf k l = none := by
  induction l with
  | nil => rfl
  | cons x l ih =>
    obtain ⟨k', v⟩ := x
    have h1 : k' ≠ k := h (k', v) List.mem_cons_self
    have h2 := ih (fun y hy => h y (List.mem_cons_of_mem _ hy))
    simp [fileOf, h2, h1]

/-- with distinct names, the file of an action holds that action's script -/
theorem fileOf_map_of_mem {β : Type} (f : String × String → β) (acts : List (String × String))
    (hu : (acts.map Prod.fst).Nodup) (n c : String) (hm : (n, c) ∈ acts) :
    fileOf n (acts.map fun x => (x.1, f x)) = some (f (n, c)) := by
  induction acts with
  | nil => cases hm
  | cons x acts ih =>
    obtain ⟨n', c'⟩ := x
    simp only [List.map_cons, List.nodup_cons] at hu
    rcases List.mem_cons.mp hm with e | hm'
    · cases e
      have : fileOf n (acts.map fun x => (x.1, f x)) = none := by
        apply fileOf_none_of_not_mem
        intro y hy
        obtain ⟨z, hz, rfl⟩ := List.mem_map.mp hy
        intro e
        exact hu.1 (List.mem_map.mpr ⟨z, hz, e⟩)
      simp [fileOf, this]
    · simp [fileOf, ih hu.2 hm']

theorem lookup_none_not_mem {β : Type} (k : String) (l : List (String × β)) (h : (lookup k l).isSome = false) :
    k ∉ l.map Prod.fst := by
  induction l with
  | nil => simp
  | cons x r ih =>
    obtain ⟨k', v⟩ := x
    simp only [lookup] at h
    split at h
    · simp at h
    · rename_i hne
      simp only [List.map_cons, List.mem_cons, not_or]
      exact ⟨fun e => hne e.symm, ih h⟩

theorem lookup_some_mem {β : Type} (k : String) (v : β) (l : List (String × β)) (h : lookup k l = some v) :
    (k, v) ∈ l := by
  induction l with
  | nil => simp [lookup] at h
  | cons x r ih =>
    obtain ⟨k', v'⟩ := x
    simp only [lookup] at h
    split at h
    · rename_i e
      cases h; subst e; exact List.mem_cons_self
    · exact List.mem_cons_of_mem _ (ih h)

/-- the parser never lets a role hold two actions of one name -/
theorem addActions_nodup (acc more res : List (String × String)) (hacc : (acc.map Prod.fst).Nodup)
    (h : addActions acc more = some res) : (res.map Prod.fst).Nodup := by
  induction more generalizing acc with
  | nil => simp [addActions] at h; subst h; exact hacc
  | cons x r ih =>
    obtain ⟨n, c⟩ := x
    simp only [addActions] at h
    split at h
    · cases h
    · rename_i hn
      have hn' : (lookup n acc).isSome = false := by simpa using hn
      refine ih (acc ++ [(n, c)]) ?_ h
      rw [List.map_append, List.nodup_append]
      refine ⟨hacc, by simp, ?_⟩
      intro a ha b hb
      simp at hb; subst hb
      intro e; subst e
      exact lookup_none_not_mem _ _ hn' ha

end Shk.Script
