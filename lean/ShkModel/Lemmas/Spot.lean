import ShkModel.Model.Spot
/-!
# Lemmas for C08: `detectLine` (the model of `detectSignals`) against the denotation `pointsOf`

Core only.  The property theorems are in `ShkModel/Props/C08.lean`.
-/
namespace Shk.Spot
open Shk Shk.Aud

deriving instance DecidableEq for SigDef

/-! ## Definitions used by the statements -/

/-- all the calls of `detectSignals` for the lines of one actor, in order: the delta state is
threaded through, the emitted events are concatenated in emission order. -/
def detectAll (epoch : Rat) (sigs : List SigDef) (hasSink : String → Bool) (actor : String) :
    Lasts → List (List Char) → Lasts × List Emitted
  | lasts, [] => (lasts, [])
  | lasts, l :: ls =>
    ((detectAll epoch sigs hasSink actor (detectLine epoch sigs hasSink actor lasts l).1 ls).1,
     (detectLine epoch sigs hasSink actor lasts l).2 ++
       (detectAll epoch sigs hasSink actor (detectLine epoch sigs hasSink actor lasts l).1 ls).2)

/-- the lines of several actors of one role, interleaved in any way (`hasSink actor signal`) -/
def detectMulti (epoch : Rat) (sigs : List SigDef) (hasSink : String → String → Bool) :
    Lasts → List (String × List Char) → Lasts × List Emitted
  | lasts, [] => (lasts, [])
  | lasts, al :: als =>
    ((detectMulti epoch sigs hasSink (detectLine epoch sigs (hasSink al.1) al.1 lasts al.2).1 als).1,
     (detectLine epoch sigs (hasSink al.1) al.1 lasts al.2).2 ++
       (detectMulti epoch sigs hasSink (detectLine epoch sigs (hasSink al.1) al.1 lasts al.2).1 als).2)

/-- is this a sample of signal `name` of actor `actor`? -/
def isKey (actor name : String) (s : Sample) : Bool := s.v == (⟨actor, name⟩ : VarName)

/-- the samples of signal `name` of actor `actor` in a list of emitted events, flattened in
emission order, each with the time stamp of the event that carries it -/
def samplesOf (actor name : String) (evs : List Emitted) : List (Stamp × Sample) :=
  evs.flatMap fun e => (e.samples.filter (isKey actor name)).map fun s => (e.stamp, s)

/-- the sample that `detectSignals` must emit for a point of signal `sd` of `actor` -/
def Point.toSample (actor : String) (sd : SigDef) (p : Point) : Stamp × Sample :=
  (p.stamp, ⟨sd.typ, ⟨actor, sd.name⟩, .sc p.val⟩)

/-- the delta state (`last` argument of `pointsOf`) after a list of lines -/
def lastAfter (epoch : Rat) (sd : SigDef) : Rat → List (List Char) → Rat
  | last, [] => last
  | last, l :: ls => lastAfter epoch sd (sampleOf epoch sd last l).1 ls

/-- one iteration of the loop over the role's signals in `detectLine` -/
def detStep (epoch : Rat) (hasSink : String → Bool) (actor : String) (line : List Char)
    (acc : Lasts × List Emitted) (sd : SigDef) : Lasts × List Emitted :=
  if !hasSink sd.name then acc else
  match matchSig epoch sd line with
  | none => acc
  | some (none, _) => acc
  | some (some st, v) =>
    match sd.typ with
    | .event => (acc.1, addTo st (some ⟨.event, ⟨actor, sd.name⟩, .sc (.str (String.ofList v))⟩) acc.2)
    | .scalar =>
      match parseFloat v with
      | some x => (acc.1, addTo st (some ⟨.scalar, ⟨actor, sd.name⟩, .sc (.num x)⟩) acc.2)
      | none => acc
    | .delta =>
      match parseFloat v with
      | some x => (acc.1.set (actor, sd.name) x,
                   addTo st (some ⟨.delta, ⟨actor, sd.name⟩, .sc (.num (x - acc.1.get (actor, sd.name)))⟩) acc.2)
      | none => acc

theorem detectLine_eq (epoch : Rat) (sigs : List SigDef) (hasSink : String → Bool) (actor : String)
    (lasts : Lasts) (line : List Char) :
    detectLine epoch sigs hasSink actor lasts line =
      ((sigs.foldl (detStep epoch hasSink actor line) (lasts, [])).1,
       (sigs.foldl (detStep epoch hasSink actor line) (lasts, [])).2.foldr insertEv []) := rfl

/-! ## `pointsOf` and `lastAfter` -/

theorem pointsOf_cons (epoch : Rat) (sd : SigDef) (last : Rat) (l : List Char) (ls : List (List Char)) :
    pointsOf epoch sd last (l :: ls) =
      (sampleOf epoch sd last l).2.toList ++ pointsOf epoch sd (sampleOf epoch sd last l).1 ls := by
  rw [pointsOf]
  rcases h : sampleOf epoch sd last l with ⟨a, _ | p⟩ <;> simp

theorem pointsOf_append (epoch : Rat) (sd : SigDef) (last : Rat) (a b : List (List Char)) :
    pointsOf epoch sd last (a ++ b) =
      pointsOf epoch sd last a ++ pointsOf epoch sd (lastAfter epoch sd last a) b := by
  induction a generalizing last with
  | nil => simp [pointsOf, lastAfter]
  | cons l ls ih => simp [pointsOf_cons, lastAfter, ih]

theorem lastAfter_append (epoch : Rat) (sd : SigDef) (last : Rat) (a b : List (List Char)) :
    lastAfter epoch sd last (a ++ b) = lastAfter epoch sd (lastAfter epoch sd last a) b := by
  induction a generalizing last with
  | nil => simp [lastAfter]
  | cons l ls ih => simp [lastAfter, ih]

/-! ## The delta state -/

theorem Lasts.get_set_same (l : Lasts) (k : String × String) (v : Rat) : (l.set k v).get k = v := by
  simp [Lasts.get, Lasts.set]

theorem lookup_filter_ne (l : Lasts) (k k' : String × String) (h : k ≠ k') :
    List.lookup k (l.filter (·.1 != k')) = List.lookup k l := by
  induction l with
  | nil => rfl
  | cons x xs ih =>
    rcases x with ⟨kx, vx⟩
    by_cases hx : kx = k'
    · subst hx
      have : (k == kx) = false := by simpa using h
      simp [List.filter, List.lookup, this, ih]
    · have h1 : (kx != k') = true := by simpa using hx
      simp only [List.filter, h1, List.lookup]
      rw [ih]

theorem Lasts.get_set_other (l : Lasts) (k k' : String × String) (v : Rat) (h : k ≠ k') :
    (l.set k' v).get k = l.get k := by
  have : (k == k') = false := by simpa using h
  simp [Lasts.get, Lasts.set, List.lookup, this, lookup_filter_ne l k k' h]

/-! ## `addTo`: regroups, never drops or duplicates -/

def stamps (evs : List Emitted) : List Stamp := evs.map (·.stamp)

theorem addTo_cons_ne (st : Stamp) (s : Option Sample) (x : Emitted) (xs : List Emitted)
    (h : x.stamp ≠ st) : addTo st s (x :: xs) = x :: addTo st s xs := by
  have h1 : (x.stamp == st) = false := by simpa using h
  unfold addTo
  simp only [List.any_cons, h1, Bool.false_or, List.map_cons]
  split <;> simp

theorem map_id_of_notMem (st : Stamp) (s : Option Sample) (xs : List Emitted) (h : st ∉ stamps xs) :
    xs.map (fun e => if e.stamp == st then { e with samples := e.samples ++ s.toList } else e) = xs := by
  induction xs with
  | nil => rfl
  | cons y ys ih =>
    simp only [stamps, List.map_cons, List.mem_cons, not_or] at h
    have h1 : (y.stamp == st) = false := by simpa using fun e => h.1 e.symm
    simp only [List.map_cons, h1]
    rw [ih (by simpa [stamps] using h.2)]
    rfl

theorem addTo_cons_eq (st : Stamp) (s : Option Sample) (x : Emitted) (xs : List Emitted)
    (h : x.stamp = st) (hn : st ∉ stamps xs) :
    addTo st s (x :: xs) = { x with samples := x.samples ++ s.toList } :: xs := by
  have h1 : (x.stamp == st) = true := by simpa using h
  unfold addTo
  simp only [List.any_cons, h1, Bool.true_or, if_true, List.map_cons]
  rw [map_id_of_notMem st s xs hn]

theorem stamps_addTo (st : Stamp) (s : Option Sample) (evs : List Emitted) :
    stamps (addTo st s evs) = if st ∈ stamps evs then stamps evs else stamps evs ++ [st] := by
  unfold addTo
  by_cases ha : evs.any (·.stamp == st)
  · have hm : st ∈ stamps evs := by
      simp only [List.any_eq_true, beq_iff_eq] at ha
      obtain ⟨e, he, rfl⟩ := ha
      exact List.mem_map.2 ⟨e, he, rfl⟩
    rw [if_pos hm]
    simp only [ha, if_true, stamps, List.map_map]
    apply List.map_congr_left
    intro e _
    simp only [Function.comp]
    split <;> rfl
  · have hm : st ∉ stamps evs := by
      intro hm
      obtain ⟨e, he, h⟩ := List.mem_map.1 hm
      exact ha (List.any_eq_true.2 ⟨e, he, by simpa using h⟩)
    rw [if_neg hm]
    simp [ha, stamps]

theorem nodup_addTo (st : Stamp) (s : Option Sample) (evs : List Emitted) (h : (stamps evs).Nodup) :
    (stamps (addTo st s evs)).Nodup := by
  rw [stamps_addTo]
  split
  · exact h
  · rename_i hm
    rw [List.nodup_append]
    refine ⟨h, by simp, ?_⟩
    intro a ha b hb
    simp only [List.mem_singleton] at hb
    subst hb
    intro e; subst e; exact hm ha

theorem samplesOf_nil (a n : String) : samplesOf a n [] = [] := rfl

theorem samplesOf_cons (a n : String) (e : Emitted) (evs : List Emitted) :
    samplesOf a n (e :: evs) =
      ((e.samples.filter (isKey a n)).map fun s => (e.stamp, s)) ++ samplesOf a n evs := by
  simp [samplesOf]

theorem samplesOf_append (a n : String) (e1 e2 : List Emitted) :
    samplesOf a n (e1 ++ e2) = samplesOf a n e1 ++ samplesOf a n e2 := by
  simp [samplesOf]

theorem samplesOf_map_other (a n : String) (st : Stamp) (s : Option Sample) (evs : List Emitted)
    (h : s.toList.filter (isKey a n) = []) :
    samplesOf a n (evs.map fun e =>
      if e.stamp == st then { e with samples := e.samples ++ s.toList } else e) = samplesOf a n evs := by
  induction evs with
  | nil => rfl
  | cons x xs ih =>
    simp only [List.map_cons, samplesOf_cons, ih]
    congr 1
    split <;> simp [h]

/-- adding nothing, or a sample of another variable, leaves the samples of `(a, n)` alone -/
theorem samplesOf_addTo_other (a n : String) (st : Stamp) (s : Option Sample) (evs : List Emitted)
    (h : s.toList.filter (isKey a n) = []) : samplesOf a n (addTo st s evs) = samplesOf a n evs := by
  unfold addTo
  split
  · exact samplesOf_map_other a n st s evs h
  · simp [samplesOf_append, samplesOf_cons, samplesOf_nil, h]

/-- adding a sample of `(a, n)` to events with distinct stamps that hold none yet: exactly that one,
under its own stamp -/
theorem samplesOf_addTo_key (a n : String) (st : Stamp) (s : Sample) (evs : List Emitted)
    (hk : isKey a n s = true) (hnd : (stamps evs).Nodup) (h0 : samplesOf a n evs = []) :
    samplesOf a n (addTo st (some s) evs) = [(st, s)] := by
  induction evs with
  | nil => simp [addTo, samplesOf, hk]
  | cons x xs ih =>
    simp only [stamps, List.map_cons, List.nodup_cons] at hnd
    rw [samplesOf_cons, List.append_eq_nil_iff] at h0
    by_cases hx : x.stamp = st
    · rw [addTo_cons_eq st _ x xs hx (by simpa [stamps, hx] using hnd.1), samplesOf_cons, h0.2]
      have h1 : x.samples.filter (isKey a n) = [] := by simpa using h0.1
      simp [List.filter_append, h1, hk, hx]
    · rw [addTo_cons_ne st _ x xs hx, samplesOf_cons, h0.1, ih hnd.2 h0.2]
      rfl

/-! ## `insertEv`: reorders whole events -/

theorem insertEv_perm (e : Emitted) (evs : List Emitted) : (insertEv e evs).Perm (e :: evs) := by
  induction evs with
  | nil => exact List.Perm.refl _
  | cons x xs ih =>
    unfold insertEv
    split
    · exact (List.Perm.cons x ih).trans (List.Perm.swap e x xs)
    · exact List.Perm.refl _

theorem sort_perm (evs : List Emitted) : (evs.foldr insertEv []).Perm evs := by
  induction evs with
  | nil => exact List.Perm.refl _
  | cons x xs ih => exact (insertEv_perm x _).trans (List.Perm.cons x ih)

/-- sorting keeps the samples of a variable when there is at most one of them -/
theorem samplesOf_sort (a n : String) (evs : List Emitted) (h : (samplesOf a n evs).length ≤ 1) :
    samplesOf a n (evs.foldr insertEv []) = samplesOf a n evs := by
  have hp : (samplesOf a n (evs.foldr insertEv [])).Perm (samplesOf a n evs) :=
    List.Perm.flatMap_right _ (sort_perm evs)
  match hs : samplesOf a n evs, h with
  | [], _ => rw [hs] at hp; exact List.perm_nil.1 hp
  | [x], _ => rw [hs] at hp; exact List.perm_singleton.1 hp

/-! ## One signal of the loop -/

section step
variable (epoch : Rat) (hasSink : String → Bool) (actor : String) (line : List Char)

theorem detStep_nodup (acc : Lasts × List Emitted) (sd : SigDef) (h : (stamps acc.2).Nodup) :
    (stamps (detStep epoch hasSink actor line acc sd).2).Nodup := by
  unfold detStep
  repeat' split
  all_goals first | exact h | exact nodup_addTo _ _ _ h

theorem isKey_iff (a n : String) (s : Sample) : isKey a n s = true ↔ s.v = ⟨a, n⟩ := by
  simp [isKey]

/-- a signal with another name, or of another actor, touches neither the delta state nor the
samples of `(a, n)` -/
theorem detStep_other (a n : String) (acc : Lasts × List Emitted) (sd : SigDef)
    (h : (actor, sd.name) ≠ (a, n)) :
    (detStep epoch hasSink actor line acc sd).1.get (a, n) = acc.1.get (a, n) ∧
    samplesOf a n (detStep epoch hasSink actor line acc sd).2 = samplesOf a n acc.2 := by
  have hk : ∀ (t : Typ) (v : Val),
      (some (⟨t, ⟨actor, sd.name⟩, v⟩ : Sample)).toList.filter (isKey a n) = [] := by
    intro t v
    have : isKey a n ⟨t, ⟨actor, sd.name⟩, v⟩ = false := by
      simp only [isKey, beq_eq_false_iff_ne, ne_eq, VarName.mk.injEq, not_and]
      intro h1 h2; exact h (by rw [h1, h2])
    simp [this]
  have hn : (none : Option Sample).toList.filter (isKey a n) = [] := rfl
  unfold detStep
  repeat' split
  all_goals first
    | exact ⟨rfl, rfl⟩
    | exact ⟨rfl, samplesOf_addTo_other a n _ _ _ (hk _ _)⟩
    | exact ⟨rfl, samplesOf_addTo_other a n _ _ _ hn⟩
    | exact ⟨Lasts.get_set_other _ _ _ _ (Ne.symm h), samplesOf_addTo_other a n _ _ _ (hk _ _)⟩

/-- a signal without a sink is skipped -/
theorem detStep_nosink (acc : Lasts × List Emitted) (sd : SigDef) (h : hasSink sd.name = false) :
    detStep epoch hasSink actor line acc sd = acc := by
  simp [detStep, h]

/-- the watched signal itself: the delta state and the emitted sample are those of `sampleOf` -/
theorem detStep_key (acc : Lasts × List Emitted) (sd : SigDef) (hs : hasSink sd.name = true)
    (hnd : (stamps acc.2).Nodup) (h0 : samplesOf actor sd.name acc.2 = []) :
    (detStep epoch hasSink actor line acc sd).1.get (actor, sd.name) =
      (sampleOf epoch sd (acc.1.get (actor, sd.name)) line).1 ∧
    samplesOf actor sd.name (detStep epoch hasSink actor line acc sd).2 =
      (sampleOf epoch sd (acc.1.get (actor, sd.name)) line).2.toList.map (Point.toSample actor sd) := by
  have hn : (none : Option Sample).toList.filter (isKey actor sd.name) = [] := rfl
  have hk : ∀ (t : Typ) (v : Val), isKey actor sd.name ⟨t, ⟨actor, sd.name⟩, v⟩ = true := by
    intro t v; simp [isKey]
  unfold detStep sampleOf
  simp only [hs, Bool.not_true, Bool.false_eq_true, if_false]
  rcases hm : matchSig epoch sd line with _ | ⟨_ | st, v⟩
  · exact ⟨rfl, by simpa using h0⟩
  · exact ⟨rfl, by simpa using h0⟩
  · simp only []
    cases ht : sd.typ with
    | event =>
      refine ⟨by first | rfl | trivial, ?_⟩
      simp only []
      rw [samplesOf_addTo_key _ _ _ _ _ (hk _ _) hnd h0]; simp [Point.toSample, ht]
    | scalar =>
      cases parseFloat v with
      | none => exact ⟨by first | rfl | trivial, by simp only []; rw [h0]; rfl⟩
      | some x =>
        refine ⟨by first | rfl | trivial, ?_⟩
        simp only []
        rw [samplesOf_addTo_key _ _ _ _ _ (hk _ _) hnd h0]; simp [Point.toSample, ht]
    | delta =>
      cases parseFloat v with
      | none => exact ⟨by first | rfl | trivial, by simp only []; rw [h0]; rfl⟩
      | some x =>
        refine ⟨Lasts.get_set_same _ _ _, ?_⟩
        simp only []
        rw [samplesOf_addTo_key _ _ _ _ _ (hk _ _) hnd h0]; simp [Point.toSample, ht]

end step

/-! ## The loop over the role's signals, and one call of `detectSignals` -/

section fold
variable (epoch : Rat) (hasSink : String → Bool) (actor : String) (line : List Char)

theorem foldl_nodup (sigs : List SigDef) (acc : Lasts × List Emitted) (h : (stamps acc.2).Nodup) :
    (stamps (sigs.foldl (detStep epoch hasSink actor line) acc).2).Nodup := by
  induction sigs generalizing acc with
  | nil => exact h
  | cons x xs ih => exact ih _ (detStep_nodup epoch hasSink actor line acc x h)

/-- signals of another name or actor, or without a sink, touch neither the delta state nor the
samples of `(a, n)` -/
theorem foldl_other (a n : String) (sigs : List SigDef) (acc : Lasts × List Emitted)
    (h : ∀ sd ∈ sigs, (actor, sd.name) ≠ (a, n) ∨ hasSink sd.name = false) :
    (sigs.foldl (detStep epoch hasSink actor line) acc).1.get (a, n) = acc.1.get (a, n) ∧
    samplesOf a n (sigs.foldl (detStep epoch hasSink actor line) acc).2 = samplesOf a n acc.2 := by
  induction sigs generalizing acc with
  | nil => exact ⟨rfl, rfl⟩
  | cons x xs ih =>
    have hx := h x (List.mem_cons_self ..)
    have ht := ih (detStep epoch hasSink actor line acc x) fun sd hsd => h sd (List.mem_cons_of_mem _ hsd)
    simp only [List.foldl_cons]
    rcases hx with hx | hx
    · have := detStep_other epoch hasSink actor line a n acc x hx
      exact ⟨ht.1.trans this.1, ht.2.trans this.2⟩
    · rw [detStep_nosink epoch hasSink actor line acc x hx] at ht ⊢
      exact ht

theorem foldl_key (sd : SigDef) (sigs : List SigDef) (acc : Lasts × List Emitted)
    (hs : hasSink sd.name = true) (hu : sigs.filter (fun x => x.name == sd.name) = [sd])
    (hnd : (stamps acc.2).Nodup) (h0 : samplesOf actor sd.name acc.2 = []) :
    (sigs.foldl (detStep epoch hasSink actor line) acc).1.get (actor, sd.name) =
      (sampleOf epoch sd (acc.1.get (actor, sd.name)) line).1 ∧
    samplesOf actor sd.name (sigs.foldl (detStep epoch hasSink actor line) acc).2 =
      (sampleOf epoch sd (acc.1.get (actor, sd.name)) line).2.toList.map (Point.toSample actor sd) := by
  induction sigs generalizing acc with
  | nil => simp at hu
  | cons x xs ih =>
    simp only [List.foldl_cons]
    by_cases hx : x.name = sd.name
    · have h1 : (x.name == sd.name) = true := by simpa using hx
      simp only [List.filter_cons, h1, if_true] at hu
      have hxe : x = sd := (List.cons.inj hu).1
      have hrest : xs.filter (fun x => x.name == sd.name) = [] := (List.cons.inj hu).2
      subst hxe
      have hk := detStep_key epoch hasSink actor line acc x hs hnd h0
      have ho := foldl_other epoch hasSink actor line actor x.name xs
        (detStep epoch hasSink actor line acc x) (by
          intro y hy
          left
          have := (List.filter_eq_nil_iff.1 hrest) y hy
          intro e
          exact this (by simpa using (Prod.mk.inj e).2))
      exact ⟨ho.1.trans hk.1, ho.2.trans hk.2⟩
    · have h1 : (x.name == sd.name) = false := by simpa using hx
      simp only [List.filter_cons, h1, Bool.false_eq_true, if_false] at hu
      have ho := detStep_other epoch hasSink actor line actor sd.name acc x
        (by intro e; exact hx (Prod.mk.inj e).2)
      have := ih (detStep epoch hasSink actor line acc x) hu
        (detStep_nodup epoch hasSink actor line acc x hnd) (ho.2.trans h0)
      rw [ho.1] at this
      exact this

end fold

theorem toList_map_length_le {α β : Type} (o : Option α) (f : α → β) : (o.toList.map f).length ≤ 1 := by
  cases o <;> simp

/-- **one line, one watched signal**: `detectSignals` advances the delta state of the signal as
`sampleOf` does and emits exactly the sample of the point `sampleOf` denotes (none if none) -/
theorem detectLine_key (epoch : Rat) (sigs : List SigDef) (hasSink : String → Bool) (actor : String)
    (lasts : Lasts) (line : List Char) (sd : SigDef) (hs : hasSink sd.name = true)
    (hu : sigs.filter (fun x => x.name == sd.name) = [sd]) :
    (detectLine epoch sigs hasSink actor lasts line).1.get (actor, sd.name) =
      (sampleOf epoch sd (lasts.get (actor, sd.name)) line).1 ∧
    samplesOf actor sd.name (detectLine epoch sigs hasSink actor lasts line).2 =
      (sampleOf epoch sd (lasts.get (actor, sd.name)) line).2.toList.map (Point.toSample actor sd) := by
  have h := foldl_key epoch hasSink actor line sd sigs (lasts, []) hs hu (by simp [stamps]) rfl
  rw [detectLine_eq]
  refine ⟨h.1, ?_⟩
  rw [samplesOf_sort _ _ _ (by rw [h.2]; exact toList_map_length_le _ _)]
  exact h.2

/-- **one line, any other variable** (another actor, a signal the role does not have, or one
without a sink): nothing is emitted for it, its delta state stays -/
theorem detectLine_other (epoch : Rat) (sigs : List SigDef) (hasSink : String → Bool) (actor : String)
    (lasts : Lasts) (line : List Char) (a n : String)
    (h : ∀ sd ∈ sigs, (actor, sd.name) ≠ (a, n) ∨ hasSink sd.name = false) :
    (detectLine epoch sigs hasSink actor lasts line).1.get (a, n) = lasts.get (a, n) ∧
    samplesOf a n (detectLine epoch sigs hasSink actor lasts line).2 = [] := by
  have h := foldl_other epoch hasSink actor line a n sigs (lasts, []) h
  rw [detectLine_eq]
  refine ⟨h.1, ?_⟩
  have h2 : samplesOf a n (sigs.foldl (detStep epoch hasSink actor line) (lasts, [])).2 = [] := h.2
  rw [samplesOf_sort _ _ _ (by rw [h2]; exact Nat.zero_le _)]
  exact h2

/-! ## All the lines -/

theorem detectAll_key (epoch : Rat) (sigs : List SigDef) (hasSink : String → Bool) (actor : String)
    (sd : SigDef) (hs : hasSink sd.name = true)
    (hu : sigs.filter (fun x => x.name == sd.name) = [sd]) (lasts : Lasts) (lines : List (List Char)) :
    (detectAll epoch sigs hasSink actor lasts lines).1.get (actor, sd.name) =
      lastAfter epoch sd (lasts.get (actor, sd.name)) lines ∧
    samplesOf actor sd.name (detectAll epoch sigs hasSink actor lasts lines).2 =
      (pointsOf epoch sd (lasts.get (actor, sd.name)) lines).map (Point.toSample actor sd) := by
  induction lines generalizing lasts with
  | nil => exact ⟨rfl, rfl⟩
  | cons l ls ih =>
    have h1 := detectLine_key epoch sigs hasSink actor lasts l sd hs hu
    have h2 := ih (detectLine epoch sigs hasSink actor lasts l).1
    rw [h1.1] at h2
    simp only [detectAll, lastAfter, pointsOf_cons, samplesOf_append, List.map_append]
    exact ⟨h2.1, by rw [h1.2, h2.2]⟩

theorem detectAll_other (epoch : Rat) (sigs : List SigDef) (hasSink : String → Bool) (actor : String)
    (a n : String) (h : ∀ sd ∈ sigs, (actor, sd.name) ≠ (a, n) ∨ hasSink sd.name = false)
    (lasts : Lasts) (lines : List (List Char)) :
    (detectAll epoch sigs hasSink actor lasts lines).1.get (a, n) = lasts.get (a, n) ∧
    samplesOf a n (detectAll epoch sigs hasSink actor lasts lines).2 = [] := by
  induction lines generalizing lasts with
  | nil => exact ⟨rfl, rfl⟩
  | cons l ls ih =>
    have h1 := detectLine_other epoch sigs hasSink actor lasts l a n h
    have h2 := ih (detectLine epoch sigs hasSink actor lasts l).1
    simp only [detectAll, samplesOf_append]
    exact ⟨h2.1.trans h1.1, by rw [h1.2, h2.2]; rfl⟩

/-- the lines of actor `a` among interleaved lines of several actors -/
def linesOf (a : String) (als : List (String × List Char)) : List (List Char) :=
  (als.filter fun al => al.1 == a).map (·.2)

theorem detectMulti_key (epoch : Rat) (sigs : List SigDef) (hasSink : String → String → Bool)
    (a : String) (sd : SigDef) (hs : hasSink a sd.name = true)
    (hu : sigs.filter (fun x => x.name == sd.name) = [sd]) (lasts : Lasts)
    (als : List (String × List Char)) :
    (detectMulti epoch sigs hasSink lasts als).1.get (a, sd.name) =
      lastAfter epoch sd (lasts.get (a, sd.name)) (linesOf a als) ∧
    samplesOf a sd.name (detectMulti epoch sigs hasSink lasts als).2 =
      (pointsOf epoch sd (lasts.get (a, sd.name)) (linesOf a als)).map (Point.toSample a sd) := by
  induction als generalizing lasts with
  | nil => exact ⟨rfl, rfl⟩
  | cons al als ih =>
    have h2 := ih (detectLine epoch sigs (hasSink al.1) al.1 lasts al.2).1
    by_cases ha : al.1 = a
    · have h1 := detectLine_key epoch sigs (hasSink al.1) al.1 lasts al.2 sd (by rw [ha]; exact hs) hu
      rw [ha] at h1 h2
      rw [h1.1] at h2
      have hl : linesOf a (al :: als) = al.2 :: linesOf a als := by simp [linesOf, ha]
      simp only [detectMulti, hl, lastAfter, pointsOf_cons, samplesOf_append, List.map_append, ha]
      exact ⟨h2.1, by rw [h1.2, h2.2]⟩
    · have h1 := detectLine_other epoch sigs (hasSink al.1) al.1 lasts al.2 a sd.name
        (fun y _ => Or.inl fun e => ha (Prod.mk.inj e).1)
      rw [h1.1] at h2
      have hl : linesOf a (al :: als) = linesOf a als := by simp [linesOf, ha]
      simp only [detectMulti, hl, samplesOf_append]
      exact ⟨h2.1, by rw [h1.2, h2.2]; rfl⟩

/-- names unique in the role ⇒ the filter form of uniqueness used above -/
theorem filter_name_of_nodup (sigs : List SigDef) (sd : SigDef) (hm : sd ∈ sigs)
    (hn : (sigs.map (·.name)).Nodup) : sigs.filter (fun x => x.name == sd.name) = [sd] := by
  induction sigs with
  | nil => cases hm
  | cons x xs ih =>
    simp only [List.map_cons, List.nodup_cons] at hn
    rcases List.mem_cons.1 hm with rfl | hm'
    · simp only [List.filter_cons, beq_self_eq_true, if_true]
      congr 1
      apply List.filter_eq_nil_iff.2
      intro y hy hyn
      exact hn.1 (List.mem_map.2 ⟨y, hy, by simpa using hyn⟩)
    · have hx : x.name ≠ sd.name := fun e => hn.1 (List.mem_map.2 ⟨sd, hm', e.symm⟩)
      have h1 : (x.name == sd.name) = false := by simpa using hx
      simp only [List.filter_cons, h1, Bool.false_eq_true, if_false]
      exact ih hm' hn.2

/-! ## Values: raw readings, deltas -/

/-- the raw reading of a line for a numeric signal: time stamp and parsed number, when the line
matches the pattern and both captures are accepted by their parsers -/
def rawOf (epoch : Rat) (sd : SigDef) (line : List Char) : Option (Stamp × Rat) :=
  match matchSig epoch sd line with
  | some (some st, v) => (parseFloat v).map fun x => (st, x)
  | _ => none

/-- the text reading of a line for an event signal -/
def textOf (epoch : Rat) (sd : SigDef) (line : List Char) : Option (Stamp × String) :=
  match matchSig epoch sd line with
  | some (some st, v) => some (st, String.ofList v)
  | _ => none

/-- successive differences, the first one against `last` -/
def diffs : Rat → List (Stamp × Rat) → List Point
  | _, [] => []
  | last, (st, x) :: r => ⟨st, .num (x - last)⟩ :: diffs x r

theorem sampleOf_event (epoch : Rat) (sd : SigDef) (last : Rat) (line : List Char) (h : sd.typ = .event) :
    sampleOf epoch sd last line =
      (last, (textOf epoch sd line).map fun r => ⟨r.1, .str r.2⟩) := by
  unfold sampleOf textOf
  rcases matchSig epoch sd line with _ | ⟨_ | st, v⟩ <;> simp [h]

theorem sampleOf_scalar (epoch : Rat) (sd : SigDef) (last : Rat) (line : List Char) (h : sd.typ = .scalar) :
    sampleOf epoch sd last line =
      (last, (rawOf epoch sd line).map fun r => ⟨r.1, .num r.2⟩) := by
  unfold sampleOf rawOf
  rcases matchSig epoch sd line with _ | ⟨_ | st, v⟩ <;> simp [h]
  cases parseFloat v <;> simp

theorem sampleOf_delta (epoch : Rat) (sd : SigDef) (last : Rat) (line : List Char) (h : sd.typ = .delta) :
    sampleOf epoch sd last line =
      (match rawOf epoch sd line with | some r => r.2 | none => last,
       (rawOf epoch sd line).map fun r => ⟨r.1, .num (r.2 - last)⟩) := by
  unfold sampleOf rawOf
  rcases matchSig epoch sd line with _ | ⟨_ | st, v⟩ <;> simp [h]
  cases parseFloat v <;> simp

theorem pointsOf_event (epoch : Rat) (sd : SigDef) (last : Rat) (lines : List (List Char))
    (h : sd.typ = .event) :
    pointsOf epoch sd last lines =
      (lines.filterMap (textOf epoch sd)).map fun r => ⟨r.1, .str r.2⟩ := by
  induction lines with
  | nil => rfl
  | cons l ls ih =>
    rw [pointsOf_cons, sampleOf_event _ _ _ _ h, List.filterMap_cons]
    simp only [ih]
    cases textOf epoch sd l <;> simp

theorem pointsOf_scalar (epoch : Rat) (sd : SigDef) (last : Rat) (lines : List (List Char))
    (h : sd.typ = .scalar) :
    pointsOf epoch sd last lines =
      (lines.filterMap (rawOf epoch sd)).map fun r => ⟨r.1, .num r.2⟩ := by
  induction lines with
  | nil => rfl
  | cons l ls ih =>
    rw [pointsOf_cons, sampleOf_scalar _ _ _ _ h, List.filterMap_cons]
    simp only [ih]
    cases rawOf epoch sd l <;> simp

theorem pointsOf_delta (epoch : Rat) (sd : SigDef) (last : Rat) (lines : List (List Char))
    (h : sd.typ = .delta) :
    pointsOf epoch sd last lines = diffs last (lines.filterMap (rawOf epoch sd)) := by
  induction lines generalizing last with
  | nil => rfl
  | cons l ls ih =>
    rw [pointsOf_cons, sampleOf_delta _ _ _ _ h, List.filterMap_cons]
    simp only [ih]
    rcases rawOf epoch sd l with _ | ⟨st, x⟩ <;> simp [diffs]

theorem diffs_length (last : Rat) (raws : List (Stamp × Rat)) : (diffs last raws).length = raws.length := by
  induction raws generalizing last with
  | nil => rfl
  | cons r rs ih => simp [diffs, ih]

/-- the k-th difference is rawₖ − rawₖ₋₁, with raw₋₁ = `last` -/
theorem diffs_getElem? (last : Rat) (raws : List (Stamp × Rat)) (k : Nat) :
    (diffs last raws)[k]? =
      raws[k]?.map fun r => ⟨r.1, .num (r.2 - ((last :: raws.map (·.2))[k]?).getD 0)⟩ := by
  induction raws generalizing last k with
  | nil => simp [diffs]
  | cons r rs ih =>
    rcases r with ⟨st, x⟩
    cases k with
    | zero => simp [diffs]
    | succ k => simp only [diffs, List.getElem?_cons_succ, ih, List.map_cons]

/-! ## The shape of a matching line -/

theorem matchTagged_some (name : String) (cs v : List Char) (h : matchTagged name cs = some v) :
    cs = name.toList ++ '=' :: v ∧ v ≠ [] ∧ v.all (fun c => !isSp c) = true := by
  unfold matchTagged at h
  simp only [] at h
  split at h
  · rename_i hp
    split at h
    · rename_i hv
      cases h
      have hp' : cs.take (name.toList ++ ['=']).length = name.toList ++ ['='] := by simpa using hp
      refine ⟨?_, ?_, ?_⟩
      · have := List.take_append_drop (name.toList ++ ['=']).length cs
        rw [hp'] at this
        simpa using this.symm
      · intro he; rw [he] at hv; simp at hv
      · simp only [Bool.and_eq_true] at hv; exact hv.2
    · cases h
  · cases h

/-! ## Every emitted sample is well-formed -/

/-- all samples carried by the events satisfy `P` -/
def AllSamples (P : Sample → Prop) (evs : List Emitted) : Prop := ∀ e ∈ evs, ∀ s ∈ e.samples, P s

theorem allSamples_addTo (P : Sample → Prop) (st : Stamp) (s : Option Sample) (evs : List Emitted)
    (h : AllSamples P evs) (hs : ∀ x, s = some x → P x) : AllSamples P (addTo st s evs) := by
  unfold addTo
  split
  · intro e he x hx
    obtain ⟨e0, he0, rfl⟩ := List.mem_map.1 he
    split at hx
    · simp only [List.mem_append, Option.mem_toList] at hx
      rcases hx with hx | hx
      · exact h e0 he0 x hx
      · exact hs x hx
    · exact h e0 he0 x hx
  · intro e he x hx
    rcases List.mem_append.1 he with he | he
    · exact h e he x hx
    · simp only [List.mem_singleton] at he
      subst he
      exact hs x (by simpa using hx)

theorem allSamples_perm (P : Sample → Prop) (a b : List Emitted) (hp : a.Perm b) (h : AllSamples P b) :
    AllSamples P a := fun e he => h e (hp.mem_iff.1 he)

theorem detStep_wf (P : Sample → Prop) (epoch : Rat) (hasSink : String → Bool) (actor : String)
    (line : List Char) (acc : Lasts × List Emitted) (sd : SigDef) (h : AllSamples P acc.2)
    (hP : hasSink sd.name = true → ∀ sc : Sc, sc ≠ .nil → P ⟨sd.typ, ⟨actor, sd.name⟩, .sc sc⟩) :
    AllSamples P (detStep epoch hasSink actor line acc sd).2 := by
  unfold detStep
  split
  · exact h
  · rename_i hsk
    have hsk' : hasSink sd.name = true := by simpa using hsk
    have hn : ∀ x : Sample, (none : Option Sample) = some x → P x := fun _ e => by cases e
    rcases matchSig epoch sd line with _ | ⟨_ | st, v⟩
    · exact h
    · exact h
    · simp only []
      cases ht : sd.typ with
      | event =>
        simp only []
        refine allSamples_addTo _ _ _ _ h fun y hy => ?_
        cases hy
        have := hP hsk' (.str (String.ofList v)) (by simp)
        rwa [ht] at this
      | scalar =>
        cases parseFloat v with
        | none => exact h
        | some x =>
          simp only []
          refine allSamples_addTo _ _ _ _ h fun y hy => ?_
          cases hy
          have := hP hsk' (.num x) (by simp)
          rwa [ht] at this
      | delta =>
        cases parseFloat v with
        | none => exact h
        | some x =>
          simp only []
          refine allSamples_addTo _ _ _ _ h fun y hy => ?_
          cases hy
          have := hP hsk' (.num (x - acc.1.get (actor, sd.name))) (by simp)
          rwa [ht] at this

/-- every sample that `detectSignals` emits belongs to the actor, to a signal of the role that
has a sink, carries that signal's type and a non-nil value -/
theorem detectLine_wf (epoch : Rat) (sigs : List SigDef) (hasSink : String → Bool) (actor : String)
    (lasts : Lasts) (line : List Char) :
    AllSamples (fun s => s.val.isNil = false ∧ s.v.actor = actor ∧
        ∃ sd ∈ sigs, hasSink sd.name = true ∧ s.v.sig = sd.name ∧ s.typ = sd.typ)
      (detectLine epoch sigs hasSink actor lasts line).2 := by
  rw [detectLine_eq]
  dsimp only
  refine allSamples_perm _ _ _ (sort_perm _) ?_
  suffices H : ∀ (pre : List SigDef) (acc : Lasts × List Emitted),
      AllSamples (fun s => s.val.isNil = false ∧ s.v.actor = actor ∧
        ∃ sd ∈ pre ++ sigs, hasSink sd.name = true ∧ s.v.sig = sd.name ∧ s.typ = sd.typ) acc.2 →
      AllSamples (fun s => s.val.isNil = false ∧ s.v.actor = actor ∧
        ∃ sd ∈ pre ++ sigs, hasSink sd.name = true ∧ s.v.sig = sd.name ∧ s.typ = sd.typ)
        (sigs.foldl (detStep epoch hasSink actor line) acc).2 by
    exact H [] (lasts, []) (fun e he => by cases he)
  induction sigs with
  | nil => intro pre acc h; exact h
  | cons x xs ih =>
    intro pre acc h
    simp only [List.foldl_cons]
    have := ih (pre ++ [x]) (detStep epoch hasSink actor line acc x)
    simp only [List.append_assoc, List.singleton_append] at this
    apply this
    have hx : x ∈ pre ++ x :: xs := by simp
    refine detStep_wf _ epoch hasSink actor line acc x h fun hsk sc hsc => ?_
    refine ⟨?_, rfl, x, hx, hsk, rfl, rfl⟩
    cases sc <;> simp_all [Val.isNil]

end Shk.Spot
