import ShkModel.Model.Audition
/-!
# What the audit loop does to `vals`, `activated` and the wake flags (helper lemmas for C11)
-/
namespace Shk.AudVals
open Shk Shk.Aud

/-! ## `setVar` -/

theorem setVar_nil (c : Cfg) (s : St) (ts : Rat) (typ : Typ) (v : VarName) (val : Val) (cc : Bool)
    (h : val.isNil = true) : setVar c s ts typ v val cc = s := by simp [setVar, h]

theorem setVar_vals (c : Cfg) (s : St) (ts : Rat) (typ : Typ) (v : VarName) (val : Val) (cc : Bool)
    (h : val.isNil = false) (w : VarName) :
    (setVar c s ts typ v val cc).vals w = if w = v then val else s.vals w := by
  unfold setVar; rw [h]; simp only [Bool.false_eq_true, if_false]; split <;> rfl

theorem setVar_activated (c : Cfg) (s : St) (ts : Rat) (typ : Typ) (v : VarName) (val : Val)
    (cc : Bool) (h : val.isNil = false) (w : VarName) :
    (setVar c s ts typ v val cc).activated w = if w = v then true else s.activated w := by
  unfold setVar; rw [h]; simp only [Bool.false_eq_true, if_false]; split <;> rfl

theorem setVar_abort (c : Cfg) (s : St) (ts : Rat) (typ : Typ) (v : VarName) (val : Val) (cc : Bool) :
    (setVar c s ts typ v val cc).abort = s.abort := by
  simp only [setVar]; split
  · rfl
  · split <;> rfl

/-- the wake flags after an assignment: every auditor that mentions the variable is woken -/
theorem setVar_woke (c : Cfg) (s : St) (ts : Rat) (typ : Typ) (v : VarName) (val : Val) (cc : Bool)
    (h : val.isNil = false) (w : Member) (hw : w ∈ c.members) (hm : v ∈ w.mentions)
    (ha : w.isAuditor = true) : ((setVar c s ts typ v val cc).aud w.name).activated = true := by
  have hmem : w ∈ c.watchers v := by
    simp only [Cfg.watchers, List.mem_filter]; exact ⟨hw, by simpa using hm⟩
  have hne : (c.watchers v).isEmpty = false := by
    cases hl : c.watchers v with
    | nil => rw [hl] at hmem; cases hmem
    | cons _ _ => rfl
  have hany : ((c.watchers v).any fun w' => w'.name = w.name && w'.isAuditor) = true :=
    List.any_eq_true.2 ⟨w, hmem, by simp [ha]⟩
  unfold setVar; rw [h, hne]; simp only [Bool.false_eq_true, if_false]; rw [if_pos hany]

/-! ## extension of a state: nothing is de-activated, nothing outside `T` is re-assigned -/

structure Ext (T : VarName → Prop) (s s' : St) : Prop where
  act : ∀ w, s.activated w = true → s'.activated w = true
  woke : ∀ n, (s.aud n).activated = true → (s'.aud n).activated = true
  vals : ∀ w, ¬ T w → s'.vals w = s.vals w

theorem Ext.refl (T : VarName → Prop) (s : St) : Ext T s s := ⟨fun _ h => h, fun _ h => h, fun _ _ => rfl⟩

theorem Ext.trans {T : VarName → Prop} {a b c : St} (h1 : Ext T a b) (h2 : Ext T b c) : Ext T a c :=
  ⟨fun w h => h2.act w (h1.act w h), fun n h => h2.woke n (h1.woke n h),
   fun w h => (h2.vals w h).trans (h1.vals w h)⟩

theorem setVar_ext (T : VarName → Prop) (c : Cfg) (s : St) (ts : Rat) (typ : Typ) (v : VarName)
    (val : Val) (cc : Bool) (hT : T v) : Ext T s (setVar c s ts typ v val cc) := by
  cases h : val.isNil with
  | true => rw [setVar_nil _ _ _ _ _ _ _ h]; exact Ext.refl T s
  | false =>
    refine ⟨?_, ?_, ?_⟩
    · intro w hw; rw [setVar_activated _ _ _ _ _ _ _ h]; split <;> simp [hw]
    · intro n hn
      unfold setVar; rw [h]; simp only [Bool.false_eq_true, if_false]; split
      · exact hn
      · simp only []; split
        · rfl
        · exact hn
    · intro w hw
      rw [setVar_vals _ _ _ _ _ _ _ h, if_neg]
      intro e; subst e; exact hw hT

theorem abort_ext (T : VarName → Prop) (s : St) (e : Option Abort) : Ext T s { s with abort := e } :=
  ⟨fun _ h => h, fun _ h => h, fun _ _ => rfl⟩

theorem emit_ext (T : VarName → Prop) (s : St) (o : Out) : Ext T s (s.emit o) :=
  ⟨fun _ h => h, fun _ h => h, fun _ _ => rfl⟩

/-- `setAud` with a record that keeps the wake flag -/
theorem setAud_ext (T : VarName → Prop) (s : St) (n : String) (a : AudSt)
    (h : a.activated = (s.aud n).activated) : Ext T s (setAud s n a) := by
  refine ⟨fun _ h => h, ?_, fun _ _ => rfl⟩
  intro m hm
  simp only [setAud]; split
  · rename_i e; subst e; rw [h]; exact hm
  · exact hm

theorem assignOne_ext (T : VarName → Prop) (c : Cfg) (ts : Rat) (s : St) (a : Assign)
    (hT : T ⟨"", a.target⟩) : Ext T s (assignOne c ts s a) := by
  unfold assignOne
  repeat' split
  all_goals first
    | exact Ext.refl T s
    | exact abort_ext T s _
    | exact setVar_ext T c s ts _ _ _ _ hT

theorem assignAll_ext (T : VarName → Prop) (c : Cfg) (ts : Rat) (s : St) (as : List Assign)
    (hT : ∀ a ∈ as, T ⟨"", a.target⟩) : Ext T s (assignAll c ts s as) := by
  induction as generalizing s with
  | nil => exact Ext.refl T s
  | cons a as ih =>
    simp only [assignAll, List.foldl_cons]
    exact (assignOne_ext T c ts s a (hT a (by simp))).trans
      (ih (assignOne c ts s a) (fun b hb => hT b (by simp [hb])))

theorem fireExpect_ext (T : VarName → Prop) (s : St) (ts : Rat) (name : String) (tb : Table)
    (lbl : Nat) : Ext T s (fireExpect s ts name tb lbl) := by
  unfold fireExpect
  exact (setAud_ext T s name { s.aud name with fsm := (tb.fire (s.aud name).fsm lbl).1 } rfl).trans
    (emit_ext T _ _)

theorem checkExpect_ext (T : VarName → Prop) (s : St) (ts : Rat) (m : Member) :
    Ext T s (checkExpect s ts m) := by
  unfold checkExpect
  repeat' split
  all_goals first
    | exact Ext.refl T s
    | exact abort_ext T s _
    | exact emit_ext T s _
    | exact fireExpect_ext T s ts _ _ _

theorem setAud_emit_ext (T : VarName → Prop) (s : St) (n : String) (a : AudSt) (o : Out)
    (h : a.activated = (s.aud n).activated) : Ext T s ((setAud s n a).emit o) :=
  (setAud_ext T s n a h).trans (emit_ext T _ _)

theorem startPeriod_ext (T : VarName → Prop) (s : St) (m : Member) : Ext T s (startPeriod s m) := by
  unfold startPeriod; exact setAud_emit_ext T s _ _ _ rfl

theorem endPeriod_ext (T : VarName → Prop) (s : St) (ts : Rat) (m : Member) :
    Ext T s (endPeriod s ts m) := by
  unfold endPeriod
  split
  · exact Ext.refl T s
  · unfold stopPeriod endJudge
    cases m.expect with
    | none => exact setAud_emit_ext T s _ _ _ rfl
    | some p =>
      exact (fireExpect_ext T s ts m.name p.1 2).trans (setAud_emit_ext T _ _ _ _ rfl)

theorem visit_ext (T : VarName → Prop) (c : Cfg) (final : Bool) (ts : Rat) (s : St) (m : Member)
    (hT : ∀ a ∈ m.assigns, T ⟨"", a.target⟩) : Ext T s (visit c final ts s m) := by
  unfold visit
  repeat' split
  all_goals first
    | exact Ext.refl T s
    | exact abort_ext T s _
    | exact ((startPeriod_ext T s m).trans (assignAll_ext T c ts _ _ hT)).trans (checkExpect_ext T _ ts m)
    | exact (assignAll_ext T c ts _ _ hT).trans (checkExpect_ext T _ ts m)
    | exact ((assignAll_ext T c ts _ _ hT).trans (checkExpect_ext T _ ts m)).trans (endPeriod_ext T _ ts m)

/-- one member's turn in `round` -/
def roundStep (c : Cfg) (final : Bool) (ts : Rat) (st : St) (m : Member) : St :=
  if visited final st m then visit c final ts st m else st

theorem round_eq (c : Cfg) (final : Bool) (ts : Rat) (samples : List Sample) (s : St) :
    round c final ts samples s =
      if s.abort.isSome then s else c.members.foldl (roundStep c final ts) (beginRound c ts samples s) :=
  rfl

theorem roundStep_ext (T : VarName → Prop) (c : Cfg) (final : Bool) (ts : Rat) (s : St) (m : Member)
    (hT : ∀ a ∈ m.assigns, T ⟨"", a.target⟩) : Ext T s (roundStep c final ts s m) := by
  unfold roundStep; split
  · exact visit_ext T c final ts s m hT
  · exact Ext.refl T s

theorem roundFold_ext (T : VarName → Prop) (c : Cfg) (final : Bool) (ts : Rat) (s : St)
    (ms : List Member) (hT : ∀ m ∈ ms, ∀ a ∈ m.assigns, T ⟨"", a.target⟩) :
    Ext T s (ms.foldl (roundStep c final ts) s) := by
  induction ms generalizing s with
  | nil => exact Ext.refl T s
  | cons m ms ih =>
    simp only [List.foldl_cons]
    exact (roundStep_ext T c final ts s m (hT m (by simp))).trans
      (ih _ (fun m' hm' => hT m' (by simp [hm'])))

/-! ## the head of a round -/

theorem setVar_vals_ne (c : Cfg) (s : St) (ts : Rat) (typ : Typ) (v : VarName) (val : Val) (cc : Bool)
    (w : VarName) (h : w ≠ v) : (setVar c s ts typ v val cc).vals w = s.vals w :=
  (setVar_ext (· = v) c s ts typ v val cc rfl).vals w h

theorem samples_vals (c : Cfg) (ts : Rat) (samples : List Sample) (s : St) (w : VarName)
    (h : ∀ x ∈ samples, x.v ≠ w) :
    (samples.foldl (fun st x =>
      if x.val.isNil then st else
      (setVar c st ts x.typ x.v x.val false).emit (.obs ts x.typ x.v x.val)) s).vals w = s.vals w := by
  induction samples generalizing s with
  | nil => rfl
  | cons x xs ih =>
    simp only [List.foldl_cons]
    rw [ih _ (fun y hy => h y (by simp [hy]))]
    split
    · rfl
    · exact setVar_vals_ne c s ts x.typ x.v x.val false w (Ne.symm (h x (by simp)))

theorem beginRound_vals (c : Cfg) (ts : Rat) (samples : List Sample) (s : St) (w : VarName)
    (ht : w ≠ ⟨"", "t"⟩) (hm : w ≠ ⟨"", "mood"⟩) (hmt : w ≠ ⟨"", "moodt"⟩)
    (hs : ∀ x ∈ samples, x.v ≠ w) : (beginRound c ts samples s).vals w = s.vals w := by
  simp only [beginRound]
  rw [samples_vals c ts samples _ w hs, setVar_vals_ne _ _ _ _ _ _ _ _ hmt,
    setVar_vals_ne _ _ _ _ _ _ _ _ hm, setVar_vals_ne _ _ _ _ _ _ _ _ ht]

end Shk.AudVals
