import ShkModel.Lemmas.Reader
/-! The loop of `parseCfg` around `readLine`: what a finished run guarantees, and the potential
argument for termination (used by Props/C09). -/
namespace Shk.Reader
open Shk.Preproc

variable {σ : Type}

/-- what a finished run guarantees -/
def OutSpec (P : Parser σ) (fs : FS) : Outcome σ → Prop
  | .panic => False
  | .error d => DiagOK fs d ∧
      (d.kind = .clause →
        ∃ s' body tail bad raw rest k eof, fs d.file = .file body tail bad ∧
          clauseAt body tail bad d.line = .line raw rest k eof ∧
          P.classify s' (trimSpace raw) = .reject ∧ LineStart body d.line)
  | _ => True

theorem run_spec (P : Parser σ) (fs : FS) (ipath : List Name) :
    ∀ (n : Nat) (st : List Frame) (s : σ), Inv fs st → OutSpec P fs (run P fs ipath n st s) := by
  intro n
  induction n with
  | zero => intro st s _; exact True.intro
  | succ n ih =>
    intro st s hinv
    have hsp := readLine_spec (fs := fs) 0 ipath (P.params s) st hinv
    show OutSpec P fs (runG false P fs ipath (n + 1) st s)
    unfold runG
    cases hrl : readLineG false fs ipath (P.params s) st with
    | stop => exact True.intro
    | panic => rw [show readLine fs ipath (P.params s) st = .panic from hrl] at hsp; exact hsp
    | err d =>
      rw [show readLine fs ipath (P.params s) st = .err d from hrl] at hsp
      exact ⟨hsp.1, fun hk => absurd hk hsp.2⟩
    | skip st' =>
      rw [show readLine fs ipath (P.params s) st = .skip st' from hrl] at hsp
      exact ih st' s hsp.1
    | clause text line r below =>
      rw [show readLine fs ipath (P.params s) st = .clause text line r below from hrl] at hsp
      obtain ⟨hinv', _, d, hw, hd, hfile, hline, _, _, body, tail, bad, raw, rest, k, eof, hfs, hcl, htext⟩ := hsp
      simp only
      cases hc : P.classify s text with
      | accept s' => exact ih _ s' hinv'
      | abort => exact True.intro
      | reject =>
        simp only [hw]
        refine ⟨hd, fun _ => ⟨s, body, tail, bad, raw, rest, k, eof, ?_, ?_, ?_, ?_⟩⟩
        · rw [hfile]; exact hfs
        · rw [hline]; exact hcl
        · rw [← htext.1]; exact hc
        · rw [hline]; exact htext.2

theorem run_finishes (P : Parser σ) (fs : FS) (ipath : List Name) (L : Nat) (hs : Small L fs) :
    ∀ (n : Nat) (st : List Frame) (s : σ), Inv fs st → phi L st < n →
      run P fs ipath n st s ≠ .running := by
  intro n
  induction n with
  | zero => intro st s _ h; omega
  | succ n ih =>
    intro st s hinv hphi
    have hsp := readLine_spec (fs := fs) L ipath (P.params s) st hinv
    show runG false P fs ipath (n + 1) st s ≠ .running
    unfold runG
    cases hrl : readLineG false fs ipath (P.params s) st with
    | stop => simp
    | panic => simp
    | err d => simp
    | skip st' =>
      rw [show readLine fs ipath (P.params s) st = .skip st' from hrl] at hsp
      exact ih st' s hsp.1 (by have := hsp.2.1 hs; omega)
    | clause text line r below =>
      rw [show readLine fs ipath (P.params s) st = .clause text line r below from hrl] at hsp
      simp only
      cases hc : P.classify s text with
      | accept s' => exact ih _ s' hsp.1 (by have := hsp.2.1 hs; omega)
      | abort => simp
      | reject => simp only; split <;> simp

theorem load_inv {fs : FS} {ipath : List Name} {main cand : Name} {b : List Bytes} {t : Bytes}
    {bad : Bool} (h : search false fs main ipath = .hit cand b t bad) :
    Inv fs [newFrame cand b t bad] := by
  obtain ⟨_, _, _, _, _, _, hf⟩ := search_hit _ h
  exact ⟨by simp, new_ok hf, by simp⟩

theorem load_spec (P : Parser σ) (fs : FS) (ipath : List Name) (main : Name) (n : Nat) (s : σ) :
    OutSpec P fs (load P fs ipath main n s) := by
  show OutSpec P fs (loadG false P fs ipath main n s)
  unfold loadG
  cases h : search false fs main ipath with
  | hit cand b t bad => exact run_spec P fs ipath n _ s (load_inv h)
  | notFound => exact True.intro
  | openErr c => exact True.intro
  | isDir c => exact True.intro

end Shk.Reader
