import ShkModel.Lemmas.Stopper
/-! Counting and phase invariants of the stopper model. -/
namespace Shk.Stopper

/-- the counters count -/
structure Cnt (s : St) : Prop where
  tasks : s.numTasks = s.threads.countP inTask
  wg : s.wg = s.threads.countP inWg
  sem : s.sem = s.threads.countP holdsSem

/-- the global flags follow the position of the effective Stop -/
structure Ph (s : St) : Prop where
  sclosed : s.sClosed = decide (4 ≤ s.sp.rank)
  dclosed : s.dClosed = decide (s.sp.rank = 6)
  quiescing : 2 ≤ s.sp.rank → s.quiescing = true
  drained : 3 ≤ s.sp.rank → s.numTasks = 0
  idle : s.stopCalled = false → s.sp = .idle
  called : 1 ≤ s.sp.rank → s.stopCalled = true
  semcap : s.sem ≤ s.cap

theorem cnt_go {s s' : St} {i : Nat} {t : Thread} (ht : s.threads[i]? = some t)
    (h : goStep s i t = some s') (c : Cnt s) : Cnt s' := by
  obtain ⟨c1, c2, c3⟩ := c
  have k1 := fun n => countP_set' inTask s.threads i t n ht
  have k2 := fun n => countP_set' inWg s.threads i t n ht
  have k3 := fun n => countP_set' holdsSem s.threads i t n ht
  generalize s.threads.countP inTask = N1 at *
  generalize s.threads.countP inWg = N2 at *
  generalize s.threads.countP holdsSem = N3 at *
  obtain ⟨kind, pc, ret⟩ := t
  go_cases h
  all_goals (
    constructor <;> simp [St.upd, k1, k2, k3, inTask, inWg, holdsSem, Kind.isLimited] <;> omega)

theorem ph_go {s s' : St} {i : Nat} {t : Thread}
    (h : goStep s i t = some s') (c : Ph s) : Ph s' := by
  obtain ⟨c1, c2, c3, c4, c5, c6, c7⟩ := c
  obtain ⟨kind, pc, ret⟩ := t
  go_cases h
  all_goals (
    constructor <;> simp only [St.upd] <;> first | assumption | (simp_all; done) | (simp_all; omega) | (simp_all))

theorem cnt_step {s s' : St} {i : Nat} {a : Act} (h : step s i a = some s') (c : Cnt s) : Cnt s' := by
  obtain ⟨t, ht, ⟨_, hg⟩ | ⟨_, hg⟩ | ⟨_, hg⟩⟩ := step_elim h
  clear h
  · exact cnt_go ht hg c
  · obtain ⟨v, _, _, rfl⟩ := retStep_elim hg
    obtain ⟨c1, c2, c3⟩ := c
    have k1 := countP_set' inTask s.threads i t { t with ret := true } ht
    have k2 := countP_set' inWg s.threads i t { t with ret := true } ht
    have k3 := countP_set' holdsSem s.threads i t { t with ret := true } ht
    rw [show inTask { t with ret := true } = inTask t from rfl] at k1
    rw [show inWg { t with ret := true } = inWg t from rfl] at k2
    rw [show holdsSem { t with ret := true } = holdsSem t from rfl] at k3
    constructor <;> simp only [St.upd, k1, k2, k3] <;> omega
  · obtain ⟨c1, c2, c3⟩ := c
    have k1 := fun n => countP_set' inTask s.threads i t n ht
    have k2 := fun n => countP_set' inWg s.threads i t n ht
    have k3 := fun n => countP_set' holdsSem s.threads i t n ht
    obtain ⟨kind, pc, ret⟩ := t
    alt_cases hg
    all_goals (
      constructor <;> simp [St.upd, k1, k2, k3, inTask, inWg, holdsSem, Kind.isLimited] at * <;> omega)

theorem ph_step {s s' : St} {i : Nat} {a : Act} (h : step s i a = some s') (c : Ph s) : Ph s' := by
  obtain ⟨t, ht, ⟨_, hg⟩ | ⟨_, hg⟩ | ⟨_, hg⟩⟩ := step_elim h
  clear h
  · exact ph_go hg c
  · obtain ⟨v, _, _, rfl⟩ := retStep_elim hg
    obtain ⟨c1, c2, c3, c4, c5, c6, c7⟩ := c
    constructor <;> (try simp only [St.upd]) <;> assumption
  · obtain ⟨c1, c2, c3, c4, c5, c6, c7⟩ := c
    obtain ⟨kind, pc, ret⟩ := t
    alt_cases hg
    all_goals (constructor <;> (try simp only [St.upd]) <;> assumption)

theorem cnt_reach {cap : Nat} {s : St} (h : Reach cap s) : Cnt s := by
  induction h with
  | init => constructor <;> simp [init]
  | spawn s k _ ih =>
    obtain ⟨c1, c2, c3⟩ := ih
    constructor <;> simp [spawn, inTask, inWg, holdsSem, List.countP_append] <;> assumption
  | step s s' i a _ hs ih => exact cnt_step hs ih

theorem ph_reach {cap : Nat} {s : St} (h : Reach cap s) : Ph s := by
  induction h with
  | init => constructor <;> simp [init]
  | spawn s k _ ih =>
    obtain ⟨c1, c2, c3, c4, c5, c6, c7⟩ := ih
    constructor <;> simp only [spawn] <;> assumption
  | step s s' i a _ hs ih => exact ph_step hs ih

theorem cap_reach {cap : Nat} {s : St} (h : Reach cap s) : s.cap = cap := by
  induction h with
  | init => rfl
  | spawn s k _ ih => exact ih
  | step s s' i a _ hs ih =>
    obtain ⟨t, ht, ⟨_, hg⟩ | ⟨_, hg⟩ | ⟨_, hg⟩⟩ := step_elim hs
    · clear hs
      obtain ⟨kind, pc, ret⟩ := t
      go_cases hg
      all_goals ((try simp only [St.upd]) <;> exact ih)
    · obtain ⟨v, _, _, rfl⟩ := retStep_elim hg
      exact ih
    · clear hs
      obtain ⟨kind, pc, ret⟩ := t
      alt_cases hg
      all_goals ((try simp only [St.upd]) <;> exact ih)

end Shk.Stopper
