import ShkModel.Lemmas.Spot
import ShkModel.Lemmas.AudObs
/-!
# Lemmas for C08: lines → `detectSignals` → audit loop → observations (the composition)

Core only.
-/
namespace Shk.Spot
open Shk Shk.Aud

/-- the time of an event on the play's clock: the reception time of the line for `ts_now` -/
def timeOf (recv : Rat) : Stamp → Rat
  | .now => recv
  | .at q => q

/-- an emitted event as the audit loop receives it -/
def toEv (recv : Rat) (e : Emitted) : Ev := .sig (timeOf recv e.stamp) e.samples

/-- the audit events for the lines of one actor, each line with its reception time
(the composition used by the driver `pipelineReq`) -/
def pipeEvs (epoch : Rat) (sigs : List SigDef) (hasSink : String → Bool) (actor : String) :
    Lasts → List (Rat × List Char) → List Ev
  | _, [] => []
  | lasts, tl :: tls =>
    (detectLine epoch sigs hasSink actor lasts tl.2).2.map (toEv tl.1) ++
      pipeEvs epoch sigs hasSink actor (detectLine epoch sigs hasSink actor lasts tl.2).1 tls

/-- **specification of the rows** of one signal of one actor: time and value of each data point,
one per matching parsable line, in line order -/
def rowsOf (epoch : Rat) (sd : SigDef) : Rat → List (Rat × List Char) → List (Rat × Sc)
  | _, [] => []
  | last, tl :: tls =>
    ((sampleOf epoch sd last tl.2).2.toList.map fun p => (timeOf tl.1 p.stamp, p.val)) ++
      rowsOf epoch sd (sampleOf epoch sd last tl.2).1 tls

/-- the rows are the points, with the reception time filled in -/
theorem rowsOf_vals (epoch : Rat) (sd : SigDef) (last : Rat) (tls : List (Rat × List Char)) :
    (rowsOf epoch sd last tls).map (·.2) = (pointsOf epoch sd last (tls.map (·.2))).map (·.val) := by
  induction tls generalizing last with
  | nil => rfl
  | cons tl tls ih =>
    simp only [rowsOf, List.map_cons, pointsOf_cons, List.map_append, ih, List.map_map]
    rfl

/-- the observation of variable `v` in an output item: time, type, value -/
def obsAt (v : VarName) : Out → Option (Rat × Typ × Val)
  | .obs ts typ w val => if w = v then some (ts, typ, val) else none
  | _ => none

/-- the observations of variable `v` in an output list -/
def rowsFor (v : VarName) (out : List Out) : List (Rat × Typ × Val) := out.filterMap (obsAt v)

theorem rowsFor_sigObs (v : VarName) (hv : v.actor ≠ "") (out : List Out) :
    rowsFor v (sigObs out) = rowsFor v out := by
  induction out with
  | nil => rfl
  | cons o os ih =>
    simp only [rowsFor, sigObs, List.filter_cons] at ih ⊢
    split
    · simp only [List.filterMap_cons, ih]
    · rename_i hn
      rw [ih]
      have : obsAt v o = none := by
        cases o with
        | obs ts typ w val =>
          simp only [obsAt]
          split
          · rename_i hw
            subst hw
            exact absurd (by simpa [isSigObs] using hv) hn
          · rfl
        | _ => rfl
      simp [this]

theorem rowsFor_append (v : VarName) (a b : List Out) :
    rowsFor v (a ++ b) = rowsFor v a ++ rowsFor v b := by
  simp [rowsFor]

/-- forwarding the samples of well-formed events: the observations of `[a n]` are its samples -/
theorem rowsFor_events (a n : String) (recv : Rat) (evs : List Emitted)
    (hw : AllSamples (fun s => s.val.isNil = false ∧ s.v.actor ≠ "") evs) :
    rowsFor ⟨a, n⟩ ((evs.map (toEv recv)).flatMap Ev.fwd) =
      (samplesOf a n evs).map fun x => (timeOf recv x.1, x.2.typ, x.2.val) := by
  induction evs with
  | nil => rfl
  | cons e es ih =>
    have hw' : AllSamples (fun s => s.val.isNil = false ∧ s.v.actor ≠ "") es :=
      fun e' he' => hw e' (List.mem_cons_of_mem _ he')
    simp only [List.map_cons, List.flatMap_cons, rowsFor_append, ih hw', samplesOf_cons, List.map_append]
    congr 1
    have he := hw e (List.mem_cons_self ..)
    simp only [toEv, Ev.fwd]
    generalize e.samples = ss at he
    induction ss with
    | nil => rfl
    | cons s ss ihs =>
      have hs := he s (List.mem_cons_self ..)
      have := ihs fun x hx => he x (List.mem_cons_of_mem _ hx)
      simp only [fwd, rowsFor] at this ⊢
      simp only [List.filter_cons, hs.1, Bool.not_false, Bool.true_and, bne_iff_ne, ne_eq, hs.2,
        not_false_eq_true, if_true, List.map_cons, List.filterMap_cons]
      by_cases hk : s.v = ⟨a, n⟩
      · simp [Sample.obs, obsAt, hk, isKey, this]
      · simp [Sample.obs, obsAt, hk, isKey, this]

theorem pipeEvs_rows (epoch : Rat) (sigs : List SigDef) (hasSink : String → Bool) (actor : String)
    (hact : actor ≠ "") (sd : SigDef) (hs : hasSink sd.name = true)
    (hu : sigs.filter (fun x => x.name == sd.name) = [sd]) (lasts : Lasts)
    (tls : List (Rat × List Char)) :
    rowsFor ⟨actor, sd.name⟩ ((pipeEvs epoch sigs hasSink actor lasts tls).flatMap Ev.fwd) =
      (rowsOf epoch sd (lasts.get (actor, sd.name)) tls).map fun r => (r.1, sd.typ, Val.sc r.2) := by
  induction tls generalizing lasts with
  | nil => rfl
  | cons tl tls ih =>
    have hk := detectLine_key epoch sigs hasSink actor lasts tl.2 sd hs hu
    have hw : AllSamples (fun s => s.val.isNil = false ∧ s.v.actor ≠ "")
        (detectLine epoch sigs hasSink actor lasts tl.2).2 := fun e he s hs' => by
      have := detectLine_wf epoch sigs hasSink actor lasts tl.2 e he s hs'
      exact ⟨this.1, by rw [this.2.1]; exact hact⟩
    simp only [pipeEvs, rowsOf, List.flatMap_append, rowsFor_append, List.map_append]
    rw [ih, hk.1, rowsFor_events actor sd.name tl.1 _ hw, hk.2]
    simp only [List.map_map]
    rfl

end Shk.Spot
