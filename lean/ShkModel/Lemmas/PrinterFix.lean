import ShkModel.Lemmas.PrinterMain
/-! Helper lemmas for C10, part 10: printing two equivalent configurations gives the same text
up to the order of each observer's `watches` clauses. -/
set_option linter.unusedSimpArgs false
set_option linter.unusedVariables false
namespace Shk.Printer
open Shk.Story (Act)

/-! ## "the same up to watches" on tagged audience clauses -/

def nonW (k : String × AClause) : Bool := !isWatchA k.2
def eraseK (k : String × AClause) : String × AClause := (k.1, eraseA k.2)
def wOf (m : String) (a : List (String × AClause)) : List AClause :=
  (a.filter fun k => decide (k.1 = m) && isWatchA k.2).map (·.2)

structure KSame (a b : List (String × AClause)) : Prop where
  rest : (a.filter nonW).map eraseK = (b.filter nonW).map eraseK
  watches : ∀ m, (wOf m a).Perm (wOf m b)
  len : a.length = b.length

theorem KSame.nil : KSame [] [] := ⟨rfl, fun _ => List.Perm.refl _, rfl⟩

theorem KSame.append {a b a' b' : List (String × AClause)} (h1 : KSame a a') (h2 : KSame b b') :
    KSame (a ++ b) (a' ++ b') := by
  refine ⟨?_, ?_, ?_⟩
  · simp only [List.filter_append, List.map_append, h1.rest, h2.rest]
  · intro m
    simp only [wOf, List.filter_append, List.map_append]
    exact (h1.watches m).append (h2.watches m)
  · simp [h1.len, h2.len]

theorem equiv_cases {x y : AClause} (h : x.Equiv y) :
    (∃ e e', x = .audits e ∧ y = .audits e' ∧ e.Equiv e') ∨
    (∃ a a', x = .assign a ∧ y = .assign a' ∧ a.Equiv a') ∨
    (∃ md e e', x = .expects md e ∧ y = .expects md e' ∧ e.Equiv e') ∨
    (x = y ∧ exOf x = none) := by
  cases x with
  | audits e => cases y with
    | audits e' => exact Or.inl ⟨e, e', rfl, rfl, h⟩
    | _ => cases h
  | assign a => cases y with
    | assign a' => exact Or.inr (Or.inl ⟨a, a', rfl, rfl, h⟩)
    | _ => cases h
  | expects md e => cases y with
    | expects md' e' =>
      obtain ⟨h1, h2⟩ : md = md' ∧ e.Equiv e' := h
      subst h1
      exact Or.inr (Or.inr (Or.inl ⟨md, e, e', rfl, rfl, h2⟩))
    | _ => cases h
  | expectsLike t => exact Or.inr (Or.inr (Or.inr ⟨h, rfl⟩))
  | watchSig t s => exact Or.inr (Or.inr (Or.inr ⟨h, rfl⟩))
  | watchVar v => exact Or.inr (Or.inr (Or.inr ⟨h, rfl⟩))
  | measures l => exact Or.inr (Or.inr (Or.inr ⟨h, rfl⟩))
  | onlyHelps => exact Or.inr (Or.inr (Or.inr ⟨h, rfl⟩))

theorem eraseA_equiv {x y : AClause} (h : x.Equiv y) : eraseA x = eraseA y := by
  rcases equiv_cases h with ⟨e, e', rfl, rfl, he⟩ | ⟨a, a', rfl, rfl, ha⟩ | ⟨md, e, e', rfl, rfl, he⟩ | ⟨rfl, _⟩
  · simp [eraseA, he.1]
  · obtain ⟨h1, h2, h3⟩ := ha
    have h4 := h3.1
    cases a; cases a'; simp_all [eraseA]
  · simp [eraseA, he.1]
  · rfl

theorem isWatchA_equiv {x y : AClause} (h : x.Equiv y) : isWatchA x = isWatchA y := by
  rcases equiv_cases h with ⟨e, e', rfl, rfl, he⟩ | ⟨a, a', rfl, rfl, ha⟩ | ⟨md, e, e', rfl, rfl, he⟩ | ⟨rfl, _⟩ <;> rfl

theorem mem_compVars_perm {a b : List Var} (h : a.Perm b) (v : String) : v ∈ compVars a ↔ v ∈ compVars b := by
  rw [mem_compVars, mem_compVars]; exact h.mem_iff

theorem uses_equiv {x y : AClause} (h : x.Equiv y) (v : String) : v ∈ uses x ↔ v ∈ uses y := by
  rcases equiv_cases h with ⟨e, e', rfl, rfl, he⟩ | ⟨a, a', rfl, rfl, ha⟩ | ⟨md, e, e', rfl, rfl, he⟩ | ⟨rfl, _⟩
  · exact mem_compVars_perm he.2 v
  · exact mem_compVars_perm ha.2.2.2 v
  · exact mem_compVars_perm he.2 v
  · exact Iff.rfl

theorem ready_equiv {x y : AClause} (h : x.Equiv y) (undef : List String) : ready undef x = ready undef y := by
  have key : ready undef x = true ↔ ready undef y = true := by
    simp only [ready, List.all_eq_true, Bool.not_eq_true', List.contains_eq_mem, decide_eq_false_iff_not]
    constructor
    · intro hh v hv; exact hh v ((uses_equiv h v).mpr hv)
    · intro hh v hv; exact hh v ((uses_equiv h v).mp hv)
  cases hx : ready undef x <;> cases hy : ready undef y <;> simp_all

theorem defines_equiv {x y : AClause} (h : x.Equiv y) : defines x = defines y := by
  rcases equiv_cases h with ⟨e, e', rfl, rfl, he⟩ | ⟨a, a', rfl, rfl, ha⟩ | ⟨md, e, e', rfl, rfl, he⟩ | ⟨rfl, _⟩
  · rfl
  · simp [defines, ha.1]
  · rfl
  · rfl

theorem afterPrint_equiv {x y : AClause} (h : x.Equiv y) (undef : List String) :
    afterPrint undef x = afterPrint undef y := by
  simp only [afterPrint, defines_equiv h]

/-! ## the scheduler on two equivalent audiences -/

def FreeEq (f f' : List AClause) : Prop :=
  f.filter (fun x => !isWatchA x) = f'.filter (fun x => !isWatchA x) ∧
  (f.filter isWatchA).Perm (f'.filter isWatchA)

structure PendEq (p p' : Pend) : Prop where
  name : p.name = p'.name
  mentioned : p.mentioned = p'.mentioned
  chain : All₂ AClause.Equiv p.chain p'.chain
  chainNW : ∀ x ∈ p.chain, isWatchA x = false
  free : FreeEq p.free p'.free

def tag (n : String) (l : List AClause) : List (String × AClause) := l.map fun c => (n, c)

theorem length_filter_split {α : Type} (p : α → Bool) : ∀ l : List α,
    l.length = (l.filter p).length + (l.filter fun x => !p x).length := by
  intro l
  induction l with
  | nil => rfl
  | cons x l ih => cases h : p x <;> simp [List.filter_cons, h, ih] <;> omega

theorem FreeEq.length {f f' : List AClause} (h : FreeEq f f') : f.length = f'.length := by
  rw [length_filter_split isWatchA f, length_filter_split isWatchA f', h.1, h.2.length_eq]

theorem FreeEq.filter {f f' : List AClause} (h : FreeEq f f') (p : AClause → Bool) :
    FreeEq (f.filter p) (f'.filter p) := by
  refine ⟨?_, ?_⟩
  · rw [List.filter_filter, List.filter_filter]
    have e : ∀ l : List AClause, l.filter (fun a => (!isWatchA a) && p a) = (l.filter fun a => !isWatchA a).filter p := by
      intro l; rw [List.filter_filter]; congr 1; funext a; exact Bool.and_comm _ _
    rw [e f, e f', h.1]
  · rw [List.filter_filter, List.filter_filter]
    have e : ∀ l : List AClause, l.filter (fun a => isWatchA a && p a) = (l.filter isWatchA).filter p := by
      intro l; rw [List.filter_filter]; congr 1; funext a; exact Bool.and_comm _ _
    rw [e f, e f']
    exact h.2.filter p

theorem all2_equiv_length {l l' : List AClause} (h : All₂ AClause.Equiv l l') : l.length = l'.length :=
  h.length_eq

theorem all2_nw {l l' : List AClause} (h : All₂ AClause.Equiv l l') (hn : ∀ x ∈ l, isWatchA x = false) :
    ∀ x ∈ l', isWatchA x = false := by
  induction h with
  | nil => intro x hx; cases hx
  | cons hab _ ih =>
    intro x hx
    rcases List.mem_cons.mp hx with rfl | hx
    · rw [← isWatchA_equiv hab]; exact hn _ List.mem_cons_self
    · exact ih (fun y hy => hn y (List.mem_cons_of_mem _ hy)) x hx

theorem tag_chain {n : String} {l l' : List AClause} (h : All₂ AClause.Equiv l l')
    (hn : ∀ x ∈ l, isWatchA x = false) : KSame (tag n l) (tag n l') := by
  have hn' := all2_nw h hn
  have f1 : ∀ (l : List AClause), (∀ x ∈ l, isWatchA x = false) → (tag n l).filter nonW = tag n l := by
    intro l hl
    apply List.filter_eq_self.mpr
    intro k hk
    obtain ⟨x, hx, rfl⟩ := List.mem_map.mp hk
    simp [nonW, hl x hx]
  have f2 : ∀ (m : String) (l : List AClause), (∀ x ∈ l, isWatchA x = false) → wOf m (tag n l) = [] := by
    intro m l hl
    simp only [wOf, List.map_eq_nil_iff]
    apply List.filter_eq_nil_iff.mpr
    intro k hk
    obtain ⟨x, hx, rfl⟩ := List.mem_map.mp hk
    simp [hl x hx]
  refine ⟨?_, ?_, ?_⟩
  · rw [f1 l hn, f1 l' hn']
    simp only [tag, List.map_map]
    exact h.map_eq fun a b hab => by simp [eraseK, eraseA_equiv hab]
  · intro m; rw [f2 m l hn, f2 m l' hn']
  · simp [tag, h.length_eq]

theorem tag_free {n : String} {f f' : List AClause} (h : FreeEq f f') : KSame (tag n f) (tag n f') := by
  have f1 : ∀ l : List AClause, (tag n l).filter nonW = tag n (l.filter fun x => !isWatchA x) := by
    intro l; simp only [tag, List.filter_map]; rfl
  have f2 : ∀ (m : String) (l : List AClause), wOf m (tag n l) = if n = m then l.filter isWatchA else [] := by
    intro m l
    simp only [wOf, tag, List.filter_map, List.map_map]
    by_cases hnm : n = m
    · simp only [hnm, if_true]
      have : ((fun k : String × AClause => decide (k.1 = m) && isWatchA k.2) ∘ fun c => (m, c)) = isWatchA := by
        funext c; simp
      rw [this]
      simp [Function.comp_def]
    · simp only [hnm, if_false, List.map_eq_nil_iff]
      apply List.filter_eq_nil_iff.mpr
      intro c _
      simp [hnm]
  refine ⟨?_, ?_, ?_⟩
  · rw [f1, f1, h.1]
  · intro m
    rw [f2, f2]
    split
    · exact h.2
    · exact List.Perm.refl _
  · simp [tag, h.length]

theorem takeChain_sim : ∀ {ch ch' : List AClause}, All₂ AClause.Equiv ch ch' → ∀ (undef : List String),
    All₂ AClause.Equiv (takeChain undef ch).1 (takeChain undef ch').1 ∧
    All₂ AClause.Equiv (takeChain undef ch).2.1 (takeChain undef ch').2.1 ∧
    (takeChain undef ch).2.2 = (takeChain undef ch').2.2 := by
  intro ch ch' h
  induction h with
  | nil => intro undef; exact ⟨.nil, .nil, rfl⟩
  | @cons a b l l' hab hrest ih =>
    intro undef
    simp only [takeChain, ← ready_equiv hab undef]
    by_cases hr : ready undef a = true
    · simp only [hr, if_true, ← afterPrint_equiv hab undef]
      obtain ⟨h1, h2, h3⟩ := ih (afterPrint undef a)
      exact ⟨.cons hab h1, h2, h3⟩
    · simp only [hr]
      exact ⟨.nil, .cons hab hrest, rfl⟩

theorem takeChain_sub (undef : List String) : ∀ (ch : List AClause),
    (∀ x ∈ (takeChain undef ch).1, x ∈ ch) ∧ (∀ x ∈ (takeChain undef ch).2.1, x ∈ ch) := by
  intro ch
  induction ch generalizing undef with
  | nil => simp [takeChain]
  | cons c cs ih =>
    by_cases hr : ready undef c = true
    · simp only [takeChain, hr, if_true]
      obtain ⟨h1, h2⟩ := ih (afterPrint undef c)
      refine ⟨fun x hx => ?_, fun x hx => List.mem_cons_of_mem _ (h2 x hx)⟩
      rcases List.mem_cons.mp hx with rfl | hx
      · exact List.mem_cons_self
      · exact List.mem_cons_of_mem _ (h1 x hx)
    · simp [takeChain, hr]

theorem visit_sim {p p' : Pend} (h : PendEq p p') (undef : List String) :
    KSame (tag p.name (visit undef p).1) (tag p'.name (visit undef p').1) ∧
    PendEq (visit undef p).2.1 (visit undef p').2.1 ∧ (visit undef p).2.2 = (visit undef p').2.2 := by
  obtain ⟨h1, h2, h3⟩ := takeChain_sim h.chain undef
  obtain ⟨s1, s2⟩ := takeChain_sub undef p.chain
  have hf := h.free.filter (ready (takeChain undef p.chain).2.2)
  have hf' := h.free.filter (fun c => !ready (takeChain undef p.chain).2.2 c)
  have ks : KSame (tag p.name ((takeChain undef p.chain).1 ++ p.free.filter (ready (takeChain undef p.chain).2.2)))
      (tag p'.name ((takeChain undef p'.chain).1 ++ p'.free.filter (ready (takeChain undef p'.chain).2.2))) := by
    rw [← h.name, ← h3]
    simp only [tag, List.map_append]
    exact KSame.append (tag_chain h1 fun x hx => h.chainNW x (s1 x hx)) (tag_free hf)
  refine ⟨by simpa [visit] using ks, ⟨h.name, ?_, ?_, ?_, ?_⟩, by simpa [visit] using h3⟩
  · simp only [visit, h.mentioned]
    have := ks.len
    simp only [tag, List.length_map] at this
    cases hA : ((takeChain undef p.chain).1 ++ p.free.filter (ready (takeChain undef p.chain).2.2)) with
    | nil =>
      rw [hA] at this
      have hB : ((takeChain undef p'.chain).1 ++ p'.free.filter (ready (takeChain undef p'.chain).2.2)) = [] :=
        List.eq_nil_of_length_eq_zero (by simpa using this.symm)
      simp [hB]
    | cons x l =>
      rw [hA] at this
      cases hB : ((takeChain undef p'.chain).1 ++ p'.free.filter (ready (takeChain undef p'.chain).2.2)) with
      | nil => rw [hB] at this; simp at this
      | cons _ _ => simp
  · simpa [visit] using h2
  · intro x hx
    simp only [visit] at hx
    exact h.chainNW x (s2 x hx)
  · simp only [visit, ← h3]; exact hf'

theorem sweep_sim : ∀ {ps ps' : List Pend}, All₂ PendEq ps ps' → ∀ (undef : List String),
    KSame (sweep undef ps).1 (sweep undef ps').1 ∧ All₂ PendEq (sweep undef ps).2.1 (sweep undef ps').2.1 ∧
    (sweep undef ps).2.2 = (sweep undef ps').2.2 := by
  intro ps ps' h
  induction h with
  | nil => intro undef; exact ⟨KSame.nil, .nil, rfl⟩
  | @cons p p' l l' hab hrest ih =>
    intro undef
    obtain ⟨v1, v2, v3⟩ := visit_sim hab undef
    simp only [sweep, ← v2.mentioned]
    by_cases hm : (visit undef p).2.1.mentioned = true
    · simp only [hm, Bool.not_true, Bool.false_eq_true, if_false, ← v3]
      obtain ⟨i1, i2, i3⟩ := ih (visit undef p).2.2
      refine ⟨KSame.append (by simpa [tag] using v1) i1, .cons v2 i2, i3⟩
    · have hm' : (visit undef p).2.1.mentioned = false := by simpa using hm
      simp only [hm', Bool.not_false, if_true]
      exact ⟨KSame.nil, .cons hab hrest, trivial⟩

theorem leftover_sim : ∀ {ps ps' : List Pend}, All₂ PendEq ps ps' → KSame (leftover ps) (leftover ps') := by
  intro ps ps' h
  induction h with
  | nil => exact KSame.nil
  | @cons p p' l l' hab _ ih =>
    rw [leftover_cons, leftover_cons, List.map_append, List.map_append, List.append_assoc, List.append_assoc]
    have h1 := tag_chain (n := p.name) hab.chain hab.chainNW
    have h2 := tag_free (n := p.name) hab.free
    rw [← hab.name]
    exact KSame.append (by simpa [tag] using h1) (KSame.append (by simpa [tag] using h2) ih)

theorem schedLoop_sim : ∀ (fuel : Nat) (undef : List String) {ps ps' : List Pend}, All₂ PendEq ps ps' →
    KSame (schedLoop fuel undef ps) (schedLoop fuel undef ps') := by
  intro fuel
  induction fuel with
  | zero => intro undef ps ps' h; exact leftover_sim h
  | succ k ih =>
    intro undef ps ps' h
    obtain ⟨s1, s2, s3⟩ := sweep_sim h undef
    simp only [schedLoop]
    have hemp : (sweep undef ps).1.isEmpty = (sweep undef ps').1.isEmpty := by
      have := s1.len
      cases hA : (sweep undef ps).1 <;> cases hB : (sweep undef ps').1 <;> simp_all
    rw [← hemp, ← s3]
    cases (sweep undef ps).1.isEmpty with
    | true => exact leftover_sim s2
    | false => exact KSame.append s1 (ih _ s2)

/-! ## from equivalent members -/

theorem All₂.map₂ {α β γ δ : Type} {R : α → β → Prop} {S : γ → δ → Prop} {f : α → γ} {g : β → δ}
    (hfg : ∀ a b, R a b → S (f a) (g b)) {l : List α} {l' : List β} (h : All₂ R l l') :
    All₂ S (l.map f) (l'.map g) := by
  induction h with
  | nil => exact .nil
  | cons hab _ ih => exact .cons (hfg _ _ hab) ih

theorem All₂.filter₂ {α β : Type} {R : α → β → Prop} {p : α → Bool} {q : β → Bool}
    (hpq : ∀ a b, R a b → p a = q b) {l : List α} {l' : List β} (h : All₂ R l l') :
    All₂ R (l.filter p) (l'.filter q) := by
  induction h with
  | nil => exact .nil
  | @cons a b l l' hab _ ih =>
    simp only [List.filter_cons, ← hpq a b hab]
    cases p a
    · exact ih
    · exact .cons hab ih

theorem chainOf_equiv {m m' : Member} (h : Member.Equiv m m') :
    All₂ AClause.Equiv (chainOf m) (chainOf m') ∧ ∀ x ∈ chainOf m, isWatchA x = false := by
  refine ⟨?_, ?_⟩
  · simp only [chainOf]
    refine All₂.append (All₂.append ?_ ?_) ?_
    · have := h.active
      cases ha : m.active <;> cases hb : m'.active <;> rw [ha, hb] at this
      · exact .nil
      · exact this.elim
      · exact this.elim
      · exact .cons this .nil
    · exact All₂.map₂ (S := AClause.Equiv) (f := AClause.assign) (g := AClause.assign) (fun a b hab => hab) h.assigns
    · have := h.expects
      cases ha : m.expects <;> cases hb : m'.expects <;> rw [ha, hb] at this
      · exact .nil
      · exact this.elim
      · exact this.elim
      · rename_i x y; obtain ⟨md, e⟩ := x; obtain ⟨md', e'⟩ := y
        exact .cons this .nil
  · intro x hx
    rcases chain_kinds hx with ⟨e, rfl⟩ | ⟨a, rfl, _⟩ | ⟨md, e, rfl⟩ <;> rfl

theorem isWatchA_watchClause (v : Var) : isWatchA (watchClause v) = true := by cases v <;> rfl

theorem freeOf_equiv {m m' : Member} (h : Member.Equiv m m') : FreeEq (freeOf m) (freeOf m') := by
  have hw : ∀ l : List Var, (l.map watchClause).filter isWatchA = l.map watchClause := by
    intro l
    apply List.filter_eq_self.mpr
    intro x hx
    obtain ⟨v, _, rfl⟩ := List.mem_map.mp hx
    exact isWatchA_watchClause v
  have hnw : ∀ l : List Var, (l.map watchClause).filter (fun x => !isWatchA x) = [] := by
    intro l
    apply List.filter_eq_nil_iff.mpr
    intro x hx
    obtain ⟨v, _, rfl⟩ := List.mem_map.mp hx
    simp [isWatchA_watchClause v]
  refine ⟨?_, ?_⟩
  · simp only [freeOf, List.filter_append, hnw, List.nil_append, h.ylabel, h.noplot]
  · simp only [freeOf, List.filter_append, hw, h.ylabel, h.noplot]
    have e1 : ∀ l : String, (if l = "" then ([] : List AClause) else [AClause.measures l]).filter isWatchA = [] := by
      intro l; split <;> simp [isWatchA]
    have e2 : ∀ b : Bool, (if b = true then [AClause.onlyHelps] else ([] : List AClause)).filter isWatchA = [] := by
      intro b; split <;> simp [isWatchA]
    rw [e1, e2]
    simp only [List.append_nil]
    exact h.obs.map watchClause

theorem pendOf_equiv {m m' : Member} (h : Member.Equiv m m') : PendEq (pendOf m) (pendOf m') :=
  ⟨h.name, rfl, (chainOf_equiv h).1, (chainOf_equiv h).2, freeOf_equiv h⟩

theorem pendEq_nonempty {p p' : Pend} (h : PendEq p p') :
    (!(p.chain ++ p.free).isEmpty) = (!(p'.chain ++ p'.free).isEmpty) := by
  have h1 := h.chain.length_eq
  have h2 := h.free.length
  cases hA : p.chain ++ p.free with
  | nil =>
    have : (p'.chain ++ p'.free).length = 0 := by
      have : (p.chain ++ p.free).length = 0 := by rw [hA]; rfl
      simp only [List.length_append] at this ⊢; omega
    rw [List.eq_nil_of_length_eq_zero this]
  | cons x l =>
    have : (p'.chain ++ p'.free).length ≠ 0 := by
      have : (p.chain ++ p.free).length ≠ 0 := by rw [hA]; simp
      simp only [List.length_append] at this ⊢; omega
    cases hB : p'.chain ++ p'.free with
    | nil => rw [hB] at this; simp at this
    | cons _ _ => rfl

theorem targetsOf_equiv : ∀ {ms ms' : List Member}, All₂ Member.Equiv ms ms' → targetsOf ms = targetsOf ms' := by
  intro ms ms' h
  induction h with
  | nil => rfl
  | @cons m m' l l' hab _ ih =>
    simp only [targetsOf, List.flatMap_cons] at ih ⊢
    rw [ih]
    congr 1
    exact hab.assigns.map_eq fun a b hab' => hab'.1

theorem sched_sim {ms ms' : List Member} (h : All₂ Member.Equiv ms ms') : KSame (sched ms) (sched ms') := by
  have hp : All₂ PendEq (pendsOf ms) (pendsOf ms') :=
    All₂.filter₂ (fun a b hab => pendEq_nonempty hab) (All₂.map₂ (fun a b hab => pendOf_equiv hab) h)
  have hc : clauseCount (pendsOf ms) = clauseCount (pendsOf ms') := (leftover_sim hp).len
  simp only [sched, hc, targetsOf_equiv h]
  exact schedLoop_sim _ _ hp

/-! ## the whole text -/

theorem watchesOf_append (m : String) (a b : List Clause) :
    watchesOf m (a ++ b) = watchesOf m a ++ watchesOf m b := by
  induction a with
  | nil => rfl
  | cons x a ih =>
    cases x <;> simp only [List.cons_append, watchesOf, ih]
    split <;> simp

theorem watchesOf_aud (m : String) (a : List (String × AClause)) :
    watchesOf m (a.map fun k => Clause.aud k.1 k.2) = wOf m a := by
  induction a with
  | nil => rfl
  | cons k a ih =>
    simp only [List.map_cons, watchesOf, ih, wOf, List.filter_cons]
    split <;> simp

def noAud : Clause → Bool
  | .aud _ _ => false
  | _ => true

theorem watchesOf_noAud (m : String) : ∀ (l : List Clause), (∀ x ∈ l, noAud x = true) → watchesOf m l = [] := by
  intro l
  induction l with
  | nil => intro _; rfl
  | cons x l ih =>
    intro h
    have hx := h x List.mem_cons_self
    have hr := ih fun y hy => h y (List.mem_cons_of_mem _ hy)
    cases x with
    | aud n c => simp [noAud] at hx
    | _ => simpa [watchesOf] using hr

theorem filter_notWatch_aud (a : List (String × AClause)) :
    ((a.map fun k => Clause.aud k.1 k.2).filter notWatch).map eraseC =
      ((a.filter nonW).map eraseK).map fun k => Clause.aud k.1 k.2 := by
  induction a with
  | nil => rfl
  | cons k a ih =>
    cases hw : isWatchA k.2 with
    | true => simp only [List.map_cons, List.filter_cons, notWatch, nonW, hw, Bool.not_true, Bool.false_eq_true,
        if_false]; exact ih
    | false => simp only [List.map_cons, List.filter_cons, notWatch, nonW, hw, Bool.not_false, if_true,
        List.map_cons, ih, eraseC, eraseK]

theorem sameText_of {pre post : List Clause} {a b : List (String × AClause)} (h : KSame a b)
    (hpre : ∀ x ∈ pre, noAud x = true) (hpost : ∀ x ∈ post, noAud x = true) :
    SameText (pre ++ a.map (fun k => Clause.aud k.1 k.2) ++ post)
      (pre ++ b.map (fun k => Clause.aud k.1 k.2) ++ post) := by
  refine ⟨?_, ?_⟩
  · simp only [List.filter_append, List.map_append, filter_notWatch_aud, h.rest]
  · intro m
    simp only [watchesOf_append, watchesOf_aud, watchesOf_noAud m pre hpre, watchesOf_noAud m post hpost,
      List.nil_append, List.append_nil]
    exact h.watches m

theorem printHead_noAud (c : Cfg) : ∀ x ∈ printHead c, noAud x = true := by
  intro x hx
  simp only [printHead, List.mem_append, List.mem_map, List.mem_flatMap, List.mem_singleton] at hx
  rcases hx with ((((((⟨_, _, rfl⟩ | ⟨_, _, rfl⟩) | ⟨_, _, rfl⟩) | ⟨_, _, rfl⟩) | ⟨_, _, rfl⟩) | rfl) | ⟨s, _, hs⟩) | hx
  · rfl
  · rfl
  · rfl
  · rfl
  · rfl
  · rfl
  · simp only [printScene, List.mem_append, List.mem_map] at hs
    rcases hs with (⟨_, _, rfl⟩ | hs) | hs
    · rfl
    · split at hs <;> simp at hs; subst hs; rfl
    · split at hs <;> simp at hs; subst hs; rfl
  · simp only [printStory] at hx
    split at hx
    · cases hx
    · rcases List.mem_cons.mp hx with rfl | hx
      · rfl
      · cases hr : c.repFrom with
        | none => simp [hr] at hx
        | some re => simp [hr] at hx; rcases hx with rfl | rfl | rfl <;> rfl

theorem printInterp_noAud (ms : List Member) : ∀ x ∈ printInterp ms, noAud x = true := by
  intro x hx
  simp only [printInterp, List.mem_flatMap] at hx
  obtain ⟨m, _, hm⟩ := hx
  cases he : m.expects with
  | none => simp [he] at hm
  | some y => simp [he] at hm; rcases hm with rfl | rfl <;> rfl

theorem printHead_equiv {c c' : Cfg} (h : Cfg.Equiv c c') : printHead c = printHead c' := by
  have hs : printStory c = printStory c' := by
    have hr := h.repeat_
    simp only [printStory, effRepeat, ← h.story] at hr ⊢
    by_cases hne : c.story = []
    · simp [hne]
    · simp only [hne, if_false] at hr ⊢
      cases h1 : c.repFrom <;> cases h2 : c'.repFrom <;> simp [h1, h2] at hr ⊢
      obtain ⟨r1, _, r3, r4⟩ := hr
      exact ⟨r1, r3, r4⟩
  simp only [printHead, h.titles, h.authors, h.attn, h.roles, h.actors, h.tempo, h.scenes, hs]

theorem printInterp_equiv : ∀ {ms ms' : List Member}, All₂ Member.Equiv ms ms' → printInterp ms = printInterp ms' := by
  intro ms ms' h
  induction h with
  | nil => rfl
  | @cons m m' l l' hab _ ih =>
    simp only [printInterp, List.flatMap_cons] at ih ⊢
    rw [ih]
    congr 1
    have := hab.expects
    cases h1 : m.expects with
    | none =>
      cases h2 : m'.expects with
      | none => rfl
      | some y => rw [h1, h2] at this; exact this.elim
    | some x =>
      cases h2 : m'.expects with
      | none => rw [h1, h2] at this; exact this.elim
      | some y =>
        obtain ⟨hb, hg⟩ := hab.foul (by rw [h1]; rfl)
        simp [hb, hg, hab.name]

/-- printing two equivalent configurations: the same text up to the order of each observer's
`watches` clauses -/
theorem sameText_print {c c' : Cfg} (h : Cfg.Equiv c c') : SameText (print c) (print c') := by
  simp only [print, printWith, ← printHead_equiv h, ← printInterp_equiv h.members]
  exact sameText_of (sched_sim h.members) (printHead_noAud c) (printInterp_noAud c.members)

/-! ## the decided form of `SameText` -/

theorem Clause.beq_sound {a b : Clause} (h : a.beq b = true) : a = b := by
  cases a <;> cases b <;> simp [Clause.beq] at h <;> first | (cases h) | skip
  all_goals simp_all

theorem clausesBeq_sound : ∀ {a b : List Clause}, clausesBeq a b = true → a = b := by
  intro a
  induction a with
  | nil => intro b h; cases b <;> simp [clausesBeq] at h ⊢
  | cons x a ih =>
    intro b h
    cases b with
    | nil => simp [clausesBeq] at h
    | cons y b =>
      simp only [clausesBeq, Bool.and_eq_true] at h
      rw [Clause.beq_sound h.1, ih h.2]

theorem watchesOf_not_mentioned (m : String) : ∀ (l : List Clause), m ∉ membersIn l → watchesOf m l = [] := by
  intro l
  induction l with
  | nil => intro _; rfl
  | cons x l ih =>
    intro h
    cases x with
    | aud n c =>
      simp only [membersIn, List.mem_cons, not_or] at h
      have : ¬ n = m := fun e => h.1 e.symm
      simp [watchesOf, this, ih h.2]
    | _ => simpa [watchesOf, membersIn] using ih (by simpa [membersIn] using h)

theorem sameText_sound {a b : List Clause} (h : sameText a b = true) : SameText a b := by
  simp only [sameText, Bool.and_eq_true, List.all_eq_true] at h
  refine ⟨clausesBeq_sound h.1, fun m => ?_⟩
  by_cases hm : m ∈ membersIn a ++ membersIn b
  · exact List.isPerm_iff.mp (h.2 m hm)
  · simp only [List.mem_append, not_or] at hm
    rw [watchesOf_not_mentioned m a hm.1, watchesOf_not_mentioned m b hm.2]

/-! ## parameters -/

theorem lookup_defineAll : ∀ (l tbl : List (String × String)) (n : String),
    lookupP (defineAll tbl l) n = (lookupP tbl n).or (lookupP l n) := by
  intro l
  induction l with
  | nil => intro tbl n; simp [defineAll, lookupP]
  | cons x l ih =>
    intro tbl n
    obtain ⟨k, v⟩ := x
    simp only [defineAll]
    rw [ih]
    by_cases hk : tbl.any (·.1 == k) = true
    · simp only [hk, if_true]
      cases ht : lookupP tbl n with
      | some y => simp
      | none =>
        -- n is not in tbl, k is: so k ≠ n
        have hkn : (k == n) = false := by
          simp only [lookupP, Option.map_eq_none_iff, List.find?_eq_none] at ht
          simp only [List.any_eq_true, beq_iff_eq] at hk
          obtain ⟨y, hy, hyk⟩ := hk
          have := ht y hy
          simp only [beq_iff_eq] at this
          simp only [beq_eq_false_iff_ne, ne_eq]
          exact fun e => this (by rw [hyk, e])
        simp [lookupP, List.find?_cons, hkn]
    · simp only [hk, Bool.false_eq_true, if_false]
      have hk' : ∀ y ∈ tbl, ¬ y.1 = k := by
        simp only [Bool.not_eq_true, List.any_eq_false, beq_iff_eq] at hk
        exact hk
      simp only [lookupP, List.find?_append, List.find?_cons, List.find?_nil]
      cases hf : tbl.find? (·.1 == n) with
      | some y => simp
      | none =>
        by_cases hkn : (k == n) = true
        · simp [hkn]
        · simp [hkn]

end Shk.Printer
