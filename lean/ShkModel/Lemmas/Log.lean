import ShkModel.Model.Log
/-! Helper lemmas for C16 (digits, the header parser on formatted entries, the tokenizer). -/
namespace Shk.Log
set_option linter.unusedSimpArgs false

/-! ## digits -/

theorem digit_cases (d : Nat) (h : d < 10) :
    d = 0 ∨ d = 1 ∨ d = 2 ∨ d = 3 ∨ d = 4 ∨ d = 5 ∨ d = 6 ∨ d = 7 ∨ d = 8 ∨ d = 9 := by omega

theorem digitVal_digitChar (d : Nat) (h : d < 10) : digitVal (digitChar d) = d := by
  rcases digit_cases d h with h | h | h | h | h | h | h | h | h | h <;> subst h <;> decide

theorem isDigit_digitChar (d : Nat) (h : d < 10) : isDigit (digitChar d) = true := by
  rcases digit_cases d h with h | h | h | h | h | h | h | h | h | h <;> subst h <;> decide

theorem isDigit_ne {c : Char} (h : isDigit c = true) :
    c ≠ '\n' ∧ c ≠ ' ' ∧ c ≠ ':' ∧ c ≠ 'I' ∧ c ≠ 'W' ∧ c ≠ 'E' ∧ c ≠ 'F' := by
  refine ⟨?_, ?_, ?_, ?_, ?_, ?_, ?_⟩ <;> intro hc <;> subst hc <;> revert h <;> decide

theorem sevOf_digit (c : Char) (h : isDigit c = true) (l : List Char) : sevOf (c :: l) = none := by
  obtain ⟨_, _, _, h1, h2, h3, h4⟩ := isDigit_ne h
  simp [sevOf, h1, h2, h3, h4]

theorem toFixed_digits (w n : Nat) : ∀ c ∈ toFixed w n, isDigit c = true := by
  induction w generalizing n with
  | zero => simp [toFixed]
  | succ w ih =>
    intro c hc
    simp only [toFixed, List.mem_append, List.mem_singleton] at hc
    rcases hc with hc | hc
    · exact ih _ c hc
    · subst hc; exact isDigit_digitChar _ (Nat.mod_lt _ (by decide))

theorem toDecF_digits (f n : Nat) : ∀ c ∈ toDecF f n, isDigit c = true := by
  induction f generalizing n with
  | zero =>
    intro c hc
    simp only [toDecF, List.mem_singleton] at hc
    subst hc; exact isDigit_digitChar _ (Nat.mod_lt _ (by decide))
  | succ f ih =>
    intro c hc
    simp only [toDecF] at hc
    split at hc
    · rename_i h
      simp only [List.mem_singleton] at hc
      subst hc; exact isDigit_digitChar _ h
    · simp only [List.mem_append, List.mem_singleton] at hc
      rcases hc with hc | hc
      · exact ih _ c hc
      · subst hc; exact isDigit_digitChar _ (Nat.mod_lt _ (by decide))

theorem toDec_digits (n : Nat) : ∀ c ∈ toDec n, isDigit c = true := toDecF_digits n n

theorem toDecF_ne_nil (f n : Nat) : toDecF f n ≠ [] := by
  cases f with
  | zero => simp [toDecF]
  | succ f => simp only [toDecF]; split <;> simp

theorem toDec_ne_nil (n : Nat) : toDec n ≠ [] := toDecF_ne_nil n n

theorem digitsVal_append (acc : Nat) (a b : List Char) :
    digitsVal acc (a ++ b) = digitsVal (digitsVal acc a) b := by
  induction a generalizing acc with
  | nil => rfl
  | cons c a ih => exact ih (acc * 10 + digitVal c)

theorem digitsVal_single (acc : Nat) (c : Char) : digitsVal acc [c] = acc * 10 + digitVal c := rfl

theorem digitsVal_toDecF (f n acc : Nat) (h : n ≤ f) :
    digitsVal acc (toDecF f n) = acc * 10 ^ (toDecF f n).length + n := by
  induction f generalizing n acc with
  | zero =>
    have : n = 0 := by omega
    subst this
    show digitsVal acc [digitChar (0 % 10)] = acc * 10 ^ 1 + 0
    rw [digitsVal_single, digitVal_digitChar _ (by decide)]
  | succ f ih =>
    simp only [toDecF]
    split
    · rename_i h10
      rw [digitsVal_single, digitVal_digitChar _ h10]; simp
    · rename_i h10
      have hm : n % 10 < 10 := Nat.mod_lt _ (by decide)
      rw [digitsVal_append, ih (n / 10) acc (by omega), digitsVal_single, digitVal_digitChar _ hm]
      simp only [List.length_append, List.length_singleton, Nat.pow_succ]
      have := Nat.div_add_mod n 10
      rw [Nat.add_mul, Nat.mul_assoc]
      omega

theorem digitsVal_toDec (n : Nat) : digitsVal 0 (toDec n) = n := by
  have := digitsVal_toDecF n n 0 (Nat.le_refl n)
  simpa [toDec] using this

theorem toFixed_length (w n : Nat) : (toFixed w n).length = w := by
  induction w generalizing n with
  | zero => rfl
  | succ w ih => simp [toFixed, ih]

theorem digitsVal_toFixed (w n acc : Nat) :
    digitsVal acc (toFixed w n) = acc * 10 ^ w + n % 10 ^ w := by
  induction w generalizing n acc with
  | zero =>
    show acc = acc * 10 ^ 0 + n % 10 ^ 0
    simp [Nat.mod_one]
  | succ w ih =>
    have hm : n % 10 < 10 := Nat.mod_lt _ (by decide)
    simp only [toFixed]
    rw [digitsVal_append, ih, digitsVal_single, digitVal_digitChar _ hm]
    have h1 : n % 10 ^ (w + 1) = (n / 10 % 10 ^ w) * 10 + n % 10 := by
      rw [Nat.pow_succ, Nat.mul_comm, Nat.mod_mul]; omega
    rw [h1, Nat.pow_succ, Nat.add_mul, Nat.mul_assoc]; omega

theorem parseFixed_digits (ds : List Char) (acc : Nat) (rest : List Char)
    (hd : ∀ c ∈ ds, isDigit c = true) :
    parseFixed ds.length acc (ds ++ rest) = some (digitsVal acc ds, rest) := by
  induction ds generalizing acc with
  | nil => rfl
  | cons c ds ih =>
    have hc : isDigit c = true := hd c (by simp)
    simp only [List.length_cons, List.cons_append, parseFixed, hc, if_true]
    exact ih _ (fun x hx => hd x (by simp [hx]))

/-- `\d{w}` on a fixed-width field holding a value below `10^w` -/
theorem parseFixed_toFixed (w n : Nat) (rest : List Char) (h : n < 10 ^ w) :
    parseFixed w 0 (toFixed w n ++ rest) = some (n, rest) := by
  have := parseFixed_digits (toFixed w n) 0 rest (toFixed_digits w n)
  rw [toFixed_length, digitsVal_toFixed] at this
  rw [this]; simp [Nat.mod_eq_of_lt h]

theorem parseFixed_toFixed2 (n : Nat) (h : n < 100) (rest : List Char) :
    parseFixed 2 0 (toFixed 2 n ++ rest) = some (n, rest) :=
  parseFixed_toFixed 2 n rest (by simpa using h)

theorem parseFixed_toFixed6 (n : Nat) (h : n < 1000000) (rest : List Char) :
    parseFixed 6 0 (toFixed 6 n ++ rest) = some (n, rest) :=
  parseFixed_toFixed 6 n rest (by simpa using h)

/-! ## span -/

theorem span_loop_eq (p : Char → Bool) (l acc : List Char) :
    List.span.loop p l acc = (acc.reverse ++ l.takeWhile p, l.dropWhile p) := by
  induction l generalizing acc with
  | nil => simp [List.span.loop]
  | cons c l ih =>
    simp only [List.span.loop]
    split
    · rename_i h; rw [ih]; simp [List.takeWhile_cons, List.dropWhile_cons, h]
    · rename_i h; simp [List.dropWhile_cons, h]

theorem span_eq (p : Char → Bool) (l : List Char) : l.span p = (l.takeWhile p, l.dropWhile p) := by
  simp [List.span, span_loop_eq]

theorem span_append_stop (p : Char → Bool) (xs rest : List Char) (hx : ∀ x ∈ xs, p x = true)
    (hr : ∀ c r, rest = c :: r → p c = false) : (xs ++ rest).span p = (xs, rest) := by
  rw [span_eq, List.takeWhile_append_of_pos hx, List.dropWhile_append_of_pos hx]
  cases rest with
  | nil => simp
  | cons c r => simp [List.takeWhile_cons, List.dropWhile_cons, hr c r rfl]

theorem span_digits_colon (f Z : List Char) :
    (f ++ ':' :: Z).span isDigit = (f.takeWhile isDigit, f.dropWhile isDigit ++ ':' :: Z) := by
  rw [span_eq]
  induction f with
  | nil =>
    have : isDigit ':' = false := by decide
    simp [List.takeWhile_cons, List.dropWhile_cons, this]
  | cons c f ih =>
    cases hc : isDigit c
    · simp [List.takeWhile_cons, List.dropWhile_cons, hc]
    · simp only [List.cons_append, List.takeWhile_cons, List.dropWhile_cons, hc, if_true]
      simp only [Prod.mk.injEq] at ih ⊢
      exact ⟨by rw [ih.1], ih.2⟩

/-! ## the header parser on a formatted header -/

def rawTime (e : Entry) : RawTime :=
  ⟨e.year - 2000, e.month, e.day, e.hour, e.minute, e.second, '.', e.micro⟩

theorem matchTime_fmtTime (e : Entry) (rest : List Char)
    (hy : e.year - 2000 < 100) (hmo : e.month < 100) (hd : e.day < 100) (hh : e.hour < 100)
    (hmi : e.minute < 100) (hs : e.second < 100) (hus : e.micro < 1000000) :
    matchTime (fmtTime e ++ rest) = some (rawTime e, rest) := by
  have p2 : ∀ n, n < 100 → ∀ r, parseFixed 2 0 (toFixed 2 n ++ r) = some (n, r) :=
    fun n h r => parseFixed_toFixed2 n h r
  have hdot : ¬ ('.' = '\n') := by decide
  simp only [fmtTime, List.append_assoc, List.cons_append]
  unfold matchTime
  rw [p2 _ hy]
  simp only []
  rw [p2 _ hmo]
  simp only []
  rw [p2 _ hd]
  simp only [lit, if_true]
  rw [p2 _ hh]
  simp only [if_true]
  rw [p2 _ hmi]
  simp only [if_true]
  rw [p2 _ hs]
  simp only [anyNotNL, if_neg hdot]
  rw [parseFixed_toFixed6 _ hus]
  rfl

theorem fileLine_fmt (f : List Char) (n : Nat) (rest : List Char) (hf : f ≠ [])
    (hc : ∀ x ∈ f, x ≠ ':') (hr : ∀ c r, rest = c :: r → isDigit c = false) :
    fileLine (f ++ ':' :: (toDec n ++ rest)) = some (f, toDec n, rest) := by
  have h1 : (f ++ ':' :: (toDec n ++ rest)).span (fun c => c != ':') = (f, ':' :: (toDec n ++ rest)) := by
    apply span_append_stop
    · intro x hx; simpa using hc x hx
    · intro c r h; simp only [List.cons.injEq] at h; simp [← h.1]
  have h2 : (toDec n ++ rest).span isDigit = (toDec n, rest) :=
    span_append_stop _ _ _ (toDec_digits n) hr
  obtain ⟨c, cs, hcs⟩ := List.exists_cons_of_ne_nil hf
  obtain ⟨d, ds, hds⟩ := List.exists_cons_of_ne_nil (toDec_ne_nil n)
  unfold fileLine
  rw [h1]
  subst hcs
  simp only [h2]
  rw [hds]

theorem gidFileLine_some (g : Nat) (f : List Char) (n : Nat) (rest : List Char) (hf : f ≠ [])
    (hc : ∀ x ∈ f, x ≠ ':') (hr : ∀ c r, rest = c :: r → isDigit c = false) :
    gidFileLine (toDec g ++ ' ' :: (f ++ ':' :: (toDec n ++ rest))) = some (toDec g, f, toDec n, rest) := by
  have h1 : (toDec g ++ ' ' :: (f ++ ':' :: (toDec n ++ rest))).span isDigit
      = (toDec g, ' ' :: (f ++ ':' :: (toDec n ++ rest))) := by
    apply span_append_stop _ _ _ (toDec_digits g)
    intro c r h; simp only [List.cons.injEq] at h; rw [← h.1]; decide
  obtain ⟨d, ds, hds⟩ := List.exists_cons_of_ne_nil (toDec_ne_nil g)
  unfold gidFileLine
  rw [h1, hds]
  simp only [fileLine_fmt f n rest hf hc hr]

theorem gidFileLine_none (f : List Char) (n : Nat) (rest : List Char) (hf : f ≠ [])
    (hc : ∀ x ∈ f, x ≠ ':') (hg : noGidLook f = true)
    (hr : ∀ c r, rest = c :: r → isDigit c = false) :
    gidFileLine (f ++ ':' :: (toDec n ++ rest)) = some ([], f, toDec n, rest) := by
  unfold gidFileLine
  split
  · rename_i g gs r heq
    exfalso
    rw [span_digits_colon] at heq
    simp only [Prod.mk.injEq] at heq
    obtain ⟨h1, h2⟩ := heq
    unfold noGidLook at hg
    rw [span_eq, h1] at hg
    cases hd : f.dropWhile isDigit with
    | nil => rw [hd] at h2; simp at h2
    | cons x xs =>
      rw [hd] at h2 hg
      simp only [List.cons_append, List.cons.injEq] at h2
      rw [h2.1] at hg
      simp at hg
  · simp only [fileLine_fmt f n rest hf hc hr]

def gidDigitsOf (e : Entry) : List Char := if e.gid > 0 then toDec e.gid.toNat else []

def hdrOf (e : Entry) : Hdr := ⟨e.sev, rawTime e, gidDigitsOf e, e.file, toDec e.line.toNat⟩

theorem sevOf_sevChar (s : Int) (l : List Char) (h1 : 1 ≤ s) (h4 : s ≤ 4) :
    sevOf (sevChar s :: l) = some (s, l) := by
  have : s = 1 ∨ s = 2 ∨ s = 3 ∨ s = 4 := by omega
  rcases this with h | h | h | h <;> subst h <;> simp [sevOf, sevChar] <;> decide

theorem matchHdr_fmtPre (e : Entry) (rest : List Char)
    (hs1 : 1 ≤ e.sev) (hs4 : e.sev ≤ 4)
    (hy : e.year - 2000 < 100) (hmo : e.month < 100) (hd : e.day < 100) (hh : e.hour < 100)
    (hmi : e.minute < 100) (hs : e.second < 100) (hus : e.micro < 1000000)
    (hf : e.file ≠ []) (hc : ∀ x ∈ e.file, x ≠ ':') (hg : e.gid > 0 ∨ noGidLook e.file = true)
    (hr : ∀ c r, rest = c :: r → isDigit c = false) :
    matchHdr (fmtPre e ++ rest) = some (hdrOf e, rest) := by
  unfold matchHdr
  simp only [fmtPre, List.cons_append, List.append_assoc, sevOf_sevChar _ _ hs1 hs4,
    matchTime_fmtTime e _ hy hmo hd hh hmi hs hus, lit, if_true]
  by_cases hgid : e.gid > 0
  · simp only [fmtLoc, hgid, if_true, List.append_assoc, List.cons_append, List.nil_append,
      gidFileLine_some _ _ _ _ hf hc hr, hdrOf, gidDigitsOf]
  · have hg' : noGidLook e.file = true := by rcases hg with h | h; exact absurd h hgid; exact h
    simp only [fmtLoc, hgid, if_false, List.append_assoc, List.cons_append, List.nil_append,
      gidFileLine_none _ _ _ hf hc hg' hr, hdrOf, gidDigitsOf]

/-! ## white space -/

theorem dropWhile_head_false (p : Char → Bool) (r : List Char) (x : Char) (h : r.head? = some x)
    (hx : p x = false) : r.dropWhile p = r := by
  cases r with
  | nil => rfl
  | cons c cs =>
    simp only [List.head?_cons, Option.some.injEq] at h
    subst h
    simp [List.dropWhile_cons, hx]

theorem trim_body (m : List Char) (h : msgOk m = true) : trim (' ' :: ' ' :: (m ++ ['\n'])) = m := by
  have hsp : isSpace ' ' = true := by decide
  have hnl : isSpace '\n' = true := by decide
  cases m with
  | nil => decide
  | cons c cs =>
    simp only [msgOk, List.head?_cons, Bool.and_eq_true, Bool.not_eq_true'] at h
    obtain ⟨⟨_, hc⟩, hl⟩ := h
    have hlast : ∃ x, (c :: cs).getLast? = some x ∧ isSpace x = false := by
      cases hg : (c :: cs).getLast? with
      | none => simp at hg
      | some x => rw [hg] at hl; exact ⟨x, rfl, by simpa using hl⟩
    obtain ⟨x, hx1, hx2⟩ := hlast
    have hrev : (c :: cs).reverse.head? = some x := by rw [List.head?_reverse]; exact hx1
    have h1 : (' ' :: ' ' :: ((c :: cs) ++ ['\n'])).dropWhile isSpace = (c :: cs) ++ ['\n'] := by
      simp [List.dropWhile_cons, hsp, hc]
    have h2 : (['\n'].reverse ++ (c :: cs).reverse).dropWhile isSpace = (c :: cs).reverse := by
      simp only [List.reverse_singleton, List.singleton_append, List.dropWhile_cons, hnl, if_true]
      exact dropWhile_head_false _ _ x hrev hx2
    unfold trim
    rw [h1, List.reverse_append, h2, List.reverse_reverse]

/-! ## searching for the next header -/

theorem findFrom_skip (i : Nat) (xs R : List Char) (hx : ∀ c ∈ xs, c ≠ '\n') :
    findFrom i false (xs ++ '\n' :: R) = findFrom (i + xs.length + 1) true R := by
  induction xs generalizing i with
  | nil => simp [findFrom]
  | cons c xs ih =>
    have hc : (c == '\n') = false := by simpa using hx c (by simp)
    simp only [List.cons_append, findFrom, Bool.false_and, hc]
    rw [if_neg (by simp), ih (i + 1) (fun y hy => hx y (by simp [hy]))]
    congr 1
    simp only [List.length_cons]; omega

theorem findFrom_nil (i : Nat) (b : Bool) : findFrom i b [] = none := rfl

theorem findFrom_hit (i : Nat) (X : List Char) (hne : X ≠ []) (h : (matchHdr X).isSome = true) :
    findFrom i true X = some i := by
  cases X with
  | nil => exact absurd rfl hne
  | cons c l => simp [findFrom, h]

/-! ## formatted entries -/

/-- a formatted entry without its first character and its final newline -/
def body (e : Entry) : List Char := fmtTime e ++ (' ' :: (fmtLoc e ++ (' ' :: ' ' :: e.msg)))

structure WF (e : Entry) : Prop where
  s1 : 1 ≤ e.sev
  s4 : e.sev ≤ 4
  y0 : 2000 ≤ e.year
  y1 : e.year ≤ 2068
  mo0 : 1 ≤ e.month
  mo1 : e.month ≤ 12
  d0 : 1 ≤ e.day
  d1 : e.day ≤ daysIn e.month e.year
  hh : e.hour < 24
  mi : e.minute < 60
  ss : e.second < 60
  us : e.micro < 1000000
  g0 : 0 ≤ e.gid
  g1 : e.gid ≤ maxInt64
  l0 : 0 ≤ e.line
  l1 : e.line ≤ maxInt64
  fne : e.file ≠ []
  fcolon : ∀ x ∈ e.file, x ≠ ':'
  fnl : ∀ x ∈ e.file, x ≠ '\n'
  fgid : e.gid > 0 ∨ noGidLook e.file = true
  mnl : ∀ x ∈ e.msg, x ≠ '\n'
  mok : msgOk e.msg = true

theorem wf_WF (e : Entry) (h : wf e = true) : WF e := by
  simp only [wf, fileOk, Bool.and_eq_true, decide_eq_true_eq, Bool.or_eq_true, Bool.not_eq_true'] at h
  obtain ⟨⟨⟨⟨⟨⟨⟨⟨⟨⟨⟨⟨⟨⟨⟨⟨⟨h1, h2⟩, h3⟩, h4⟩, h5⟩, h6⟩, h7⟩, h8⟩, h9⟩, h10⟩, h11⟩, h12⟩, h13⟩, h14⟩, h15⟩, h16⟩, ⟨⟨⟨f1, f2⟩, f3⟩, f4⟩⟩, hm⟩ := h
  have hm' := hm
  simp only [msgOk, Bool.and_eq_true, Bool.not_eq_true'] at hm'
  refine ⟨h1, h2, h3, h4, h5, h6, h7, h8, h9, h10, h11, h12, h13, h14, h15, h16, ?_, ?_, ?_, f4, ?_, hm⟩
  · intro hn; simp [hn] at f1
  · intro x hx hn; subst hn; simp [hx] at f2
  · intro x hx hn; subst hn; simp [hx] at f3
  · intro x hx hn; subst hn; simp [hx] at hm'

theorem daysIn_le (m y : Nat) : daysIn m y ≤ 31 := by
  unfold daysIn; split
  · split <;> omega
  · split <;> omega

theorem format_eq (e : Entry) (h : WF e) : format e = sevChar e.sev :: (body e ++ ['\n']) := by
  have : e.msg.getLast? ≠ some '\n' := by
    intro hl
    exact h.mnl '\n' (List.mem_of_getLast? hl) rfl
  simp [format, fmtPre, body, this]

theorem format_eq' (e : Entry) (h : WF e) :
    format e = fmtPre e ++ (' ' :: ' ' :: (e.msg ++ ['\n'])) := by
  have : e.msg.getLast? ≠ some '\n' := by
    intro hl
    exact h.mnl '\n' (List.mem_of_getLast? hl) rfl
  simp [format, this]

theorem format_length (e : Entry) (h : WF e) : (format e).length = (body e).length + 2 := by
  rw [format_eq e h]; simp

theorem toFixed_two (n : Nat) : toFixed 2 n = [digitChar (n / 10 % 10), digitChar (n % 10)] := by
  simp [toFixed]

theorem body_cons (e : Entry) : ∃ d t, body e = d :: t ∧ isDigit d = true := by
  unfold body fmtTime
  rw [toFixed_two]
  exact ⟨_, _, rfl, isDigit_digitChar _ (Nat.mod_lt _ (by decide))⟩

theorem nonl_append {A B : List Char} (ha : ∀ c ∈ A, c ≠ '\n') (hb : ∀ c ∈ B, c ≠ '\n') :
    ∀ c ∈ A ++ B, c ≠ '\n' := by
  intro c hc
  rcases List.mem_append.mp hc with h | h
  · exact ha c h
  · exact hb c h

theorem nonl_cons {x : Char} {A : List Char} (hx : x ≠ '\n') (ha : ∀ c ∈ A, c ≠ '\n') :
    ∀ c ∈ x :: A, c ≠ '\n' := by
  intro c hc
  rcases List.mem_cons.mp hc with h | h
  · rw [h]; exact hx
  · exact ha c h

theorem nl_not_mem_body (e : Entry) (h : WF e) : ∀ c ∈ body e, c ≠ '\n' := by
  have D : ∀ w n, ∀ c ∈ toFixed w n, c ≠ '\n' := fun w n c hc => (isDigit_ne (toFixed_digits w n c hc)).1
  have T : ∀ n, ∀ c ∈ toDec n, c ≠ '\n' := fun n c hc => (isDigit_ne (toDec_digits n c hc)).1
  have h1 : (' ' : Char) ≠ '\n' := by decide
  have h2 : (':' : Char) ≠ '\n' := by decide
  have h3 : ('.' : Char) ≠ '\n' := by decide
  have hgid : ∀ x ∈ (if e.gid > 0 then toDec e.gid.toNat ++ [' '] else []), x ≠ '\n' := by
    intro x hx
    split at hx
    · exact nonl_append (T _) (nonl_cons h1 (by simp)) x hx
    · simp at hx
  have t6 := nonl_cons h3 (D 6 e.micro)
  have t5 := nonl_append (D 2 e.second) t6
  have t4 := nonl_append (D 2 e.minute) (nonl_cons h2 t5)
  have t3 := nonl_append (D 2 e.hour) (nonl_cons h2 t4)
  have t2 := nonl_append (D 2 e.day) (nonl_cons h1 t3)
  have t1 := nonl_append (D 2 e.month) t2
  have t0 := nonl_append (D 2 (e.year - 2000)) t1
  have l1 := nonl_append h.fnl (nonl_cons h2 (T e.line.toNat))
  have l0 := nonl_append hgid l1
  have b := nonl_append t0 (nonl_cons h1 (nonl_append l0 (nonl_cons h1 (nonl_cons h1 h.mnl))))
  unfold body fmtTime fmtLoc
  exact b

theorem matchHdr_digit (d : Char) (t : List Char) (h : isDigit d = true) : matchHdr (d :: t) = none := by
  unfold matchHdr; rw [sevOf_digit d h]

theorem matchHdr_format (e : Entry) (h : WF e) (R : List Char) :
    matchHdr (format e ++ R) = some (hdrOf e, ' ' :: ' ' :: (e.msg ++ ['\n']) ++ R) := by
  have hd := daysIn_le e.month e.year
  have hy : e.year - 2000 < 100 := by have := h.y1; omega
  have hmo : e.month < 100 := by have := h.mo1; omega
  have hdd : e.day < 100 := by have := h.d1; omega
  have hh : e.hour < 100 := by have := h.hh; omega
  have hmi : e.minute < 100 := by have := h.mi; omega
  have hs : e.second < 100 := by have := h.ss; omega
  have hr : ∀ c r, (' ' :: ' ' :: (e.msg ++ ['\n']) ++ R) = c :: r → isDigit c = false := by
    intro c r hc
    simp only [List.cons_append, List.cons.injEq] at hc
    rw [← hc.1]; decide
  have := matchHdr_fmtPre e _ h.s1 h.s4 hy hmo hdd hh hmi hs h.us h.fne h.fcolon h.fgid hr
  rw [format_eq' e h, List.append_assoc]
  exact this

theorem format_ne_nil (e : Entry) : format e ≠ [] := by simp [format, fmtPre]

theorem findFrom_body_next (e : Entry) (h : WF e) (X : List Char) (hne : X ≠ [])
    (hX : (matchHdr X).isSome = true) :
    findFrom 0 true (body e ++ '\n' :: X) = some ((body e).length + 1) := by
  obtain ⟨d, t, hb, hd⟩ := body_cons e
  have hnl := nl_not_mem_body e h
  rw [hb] at hnl ⊢
  have hdn : (d == '\n') = false := by simpa using hnl d (by simp)
  simp only [List.cons_append, findFrom, matchHdr_digit d _ hd, Option.isSome_none, Bool.and_false, hdn]
  rw [if_neg (by simp), findFrom_skip _ _ _ (fun c hc => hnl c (by simp [hc])), findFrom_hit _ _ hne hX]
  simp only [List.length_cons]; congr 1; omega

theorem findFrom_body_end (e : Entry) (h : WF e) :
    findFrom 0 true (body e ++ ['\n']) = none := by
  obtain ⟨d, t, hb, hd⟩ := body_cons e
  have hnl := nl_not_mem_body e h
  rw [hb] at hnl ⊢
  have hdn : (d == '\n') = false := by simpa using hnl d (by simp)
  simp only [List.cons_append, findFrom, matchHdr_digit d _ hd, Option.isSome_none, Bool.and_false, hdn]
  rw [if_neg (by simp), findFrom_skip _ _ _ (fun c hc => hnl c (by simp [hc])), findFrom_nil]

/-! ## one token, decoded -/

theorem decodeToken_format (e : Entry) (h : WF e) : decodeToken (format e) = .entry e := by
  have hm := matchHdr_format e h []
  simp only [List.append_nil] at hm
  have hf : findFrom 0 true (format e) = some 0 :=
    findFrom_hit 0 _ (format_ne_nil e) (by rw [hm]; rfl)
  have hyy : e.year - 2000 < 69 := by have := h.y1; omega
  have hyear : 2000 + (e.year - 2000) = e.year := by have := h.y0; omega
  have htime : timeOk (rawTime e) = true := by
    have hyr : (if e.year - 2000 ≥ 69 then 1900 + (e.year - 2000) else 2000 + (e.year - 2000)) = e.year := by
      rw [if_neg (by omega)]; exact hyear
    have a1 := h.mo0; have a2 := h.mo1; have a3 := h.d0; have a4 := h.d1
    have a5 := h.hh; have a6 := h.mi; have a7 := h.ss
    show (decide (1 ≤ e.month) && decide (e.month ≤ 12) && decide (1 ≤ e.day) &&
      decide (e.day ≤ daysIn e.month (if e.year - 2000 ≥ 69 then 1900 + (e.year - 2000) else 2000 + (e.year - 2000))) &&
      decide (e.hour < 24) && decide (e.minute < 60) && decide (e.second < 60) && ('.' == '.' || '.' == ',')) = true
    rw [hyr]
    simp [a1, a2, a3, a4, a5, a6, a7]
  have hgv : digitsVal 0 (gidDigitsOf e) = e.gid.toNat := by
    unfold gidDigitsOf
    split
    · exact digitsVal_toDec _
    · rename_i hg; have := h.g0
      have : e.gid = 0 := by omega
      rw [this]; rfl
  have hlv : digitsVal 0 (toDec e.line.toNat) = e.line.toNat := digitsVal_toDec _
  have hg1 : ¬ (e.gid.toNat > maxInt64) := by have := h.g1; have := h.g0; omega
  have hl1 : ¬ (e.line.toNat > maxInt64) := by have := h.l1; have := h.l0; omega
  have hyr : (if e.year - 2000 ≥ 69 then 1900 + (e.year - 2000) else 2000 + (e.year - 2000)) = e.year := by
    rw [if_neg (by omega)]; exact hyear
  have e1 : Int.ofNat e.gid.toNat = e.gid := Int.toNat_of_nonneg h.g0
  have e2 : Int.ofNat e.line.toNat = e.line := Int.toNat_of_nonneg h.l0
  unfold decodeToken
  rw [hf]
  simp only [List.drop_zero, hm]
  show (if (!timeOk (rawTime e)) = true then TokRes.err
        else if digitsVal 0 (gidDigitsOf e) > maxInt64 then TokRes.err
        else if digitsVal 0 (toDec e.line.toNat) > maxInt64 then TokRes.err
        else TokRes.entry {
          sev := e.sev,
          year := if e.year - 2000 ≥ 69 then 1900 + (e.year - 2000) else 2000 + (e.year - 2000),
          month := e.month, day := e.day, hour := e.hour, minute := e.minute, second := e.second,
          micro := e.micro, gid := Int.ofNat (digitsVal 0 (gidDigitsOf e)), file := e.file,
          line := Int.ofNat (digitsVal 0 (toDec e.line.toNat)),
          msg := trim (' ' :: ' ' :: (e.msg ++ ['\n'])) }) = TokRes.entry e
  rw [htime, hgv, hlv, hyr, trim_body _ h.mok, e1, e2]
  simp only [Bool.not_true, Bool.false_eq_true, if_false, if_neg hg1, if_neg hl1]

/-! ## the tokenizer on a concatenation of formatted entries -/

theorem tokAux_nil (cap fuel : Nat) (t : Bool) : tokAux cap fuel t [] = [] := by
  cases fuel <;> simp [tokAux]

theorem tokAux_last (cap fuel : Nat) (e : Entry) (h : WF e) (hcap : (format e).length ≤ cap) :
    tokAux cap (fuel + 1) false (format e) = [format e] := by
  have htake : (format e).take cap = format e := List.take_of_length_le hcap
  have hdrop : (format e).drop cap = [] := List.drop_of_length_le hcap
  have hne : (format e).isEmpty = false := by simp [format_ne_nil]
  have hfind : findFrom 0 true ((format e).take cap).tail = none := by
    rw [htake, format_eq e h]; exact findFrom_body_end e h
  rw [tokAux]
  simp only [hne, Bool.false_eq_true, if_false, hfind]
  split
  · rfl
  · rw [htake, hdrop, tokAux_nil]

theorem tokAux_cons (cap fuel : Nat) (e e' : Entry) (h : WF e) (h' : WF e') (R : List Char)
    (hcap : (format e).length + (format e').length ≤ cap) :
    tokAux cap (fuel + 1) false (format e ++ (format e' ++ R)) =
      format e :: tokAux cap fuel false (format e' ++ R) := by
  have hne : (format e ++ (format e' ++ R)).isEmpty = false := by simp [format_ne_nil]
  have hwin : (format e ++ (format e' ++ R)).take cap =
      format e ++ (format e' ++ R.take (cap - (format e).length - (format e').length)) := by
    rw [List.take_append, List.take_of_length_le (by omega)]
    congr 1
    rw [List.take_append, List.take_of_length_le (by omega)]
  have hfind : findFrom 0 true ((format e ++ (format e' ++ R)).take cap).tail
      = some ((body e).length + 1) := by
    rw [hwin, format_eq e h]
    simp only [List.cons_append, List.tail_cons, List.append_assoc, List.nil_append]
    apply findFrom_body_next e h
    · simp [format_ne_nil]
    · rw [matchHdr_format e' h']; rfl
  have hlen := format_length e h
  rw [tokAux]
  simp only [hne, Bool.false_eq_true, if_false, hfind]
  have hl : (body e).length + 1 + 1 = (format e).length := by omega
  rw [hl, List.take_left' rfl, List.drop_left' rfl]

def allWF (es : List Entry) : Prop := ∀ e ∈ es, WF e

theorem flatMap_length_ge (es : List Entry) : es.length ≤ (es.flatMap format).length := by
  induction es with
  | nil => simp
  | cons e es ih =>
    have : (format e).length ≥ 1 := by
      cases hf : format e with
      | nil => exact absurd hf (format_ne_nil e)
      | cons _ _ => simp
    simp only [List.flatMap_cons, List.length_append, List.length_cons]
    omega

theorem tokAux_concat (cap : Nat) (es : List Entry) (fuel : Nat) (hw : allWF es)
    (hfit : fits cap es = true) (hfuel : es.length ≤ fuel) :
    tokAux cap fuel false (es.flatMap format) = es.map format := by
  induction es generalizing fuel with
  | nil => simp [tokAux_nil]
  | cons e es ih =>
    cases fuel with
    | zero => simp at hfuel
    | succ fuel =>
      have he : WF e := hw e (by simp)
      cases es with
      | nil =>
        simp only [fits, decide_eq_true_eq] at hfit
        simp only [List.flatMap_cons, List.flatMap_nil, List.append_nil, List.map_cons, List.map_nil]
        exact tokAux_last cap fuel e he hfit
      | cons e' es =>
        have he' : WF e' := hw e' (by simp)
        simp only [fits, Bool.and_eq_true, decide_eq_true_eq] at hfit
        have ih' := ih fuel (fun x hx => hw x (by simp [hx])) hfit.2 (by simpa using hfuel)
        simp only [List.flatMap_cons, List.map_cons] at ih' ⊢
        rw [tokAux_cons cap fuel e e' he he' _ hfit.1, ih']

theorem decodeToks_formats (es : List Entry) (hw : allWF es) :
    decodeToks (es.map format) = (es, false) := by
  induction es with
  | nil => rfl
  | cons e es ih =>
    simp only [List.map_cons, decodeToks, decodeToken_format e (hw e (by simp)),
      ih (fun x hx => hw x (by simp [hx])), pushE]

theorem decode_concat_WF (cap : Nat) (es : List Entry) (hw : allWF es) (hfit : fits cap es = true) :
    decode cap (es.flatMap format) = (es, false) := by
  unfold decode tokens
  rw [tokAux_concat cap es _ hw hfit (by have := flatMap_length_ge es; omega)]
  exact decodeToks_formats es hw

/-! ## rotation -/

section Rotation
variable {α : Type} (size : α → Nat)

theorem userMsgs_hdrs (st : Nat) (hdrs : List α) :
    userMsgs ({ stamp := st, items := hdrs.map (fun h => ⟨true, h⟩) } : LFile α) = [] := by
  simp [userMsgs, List.filter_eq_nil_iff]

theorem readBack_rotate (s : Rot α) (now : Nat) (hdrs : List α) :
    readBack (rotate size s now hdrs) = readBack s := by
  simp [readBack, rotate, userMsgs_hdrs]

theorem rotate_files_ne (s : Rot α) (now : Nat) (hdrs : List α) : (rotate size s now hdrs).files ≠ [] := by
  simp [rotate]

theorem readBack_append (s : Rot α) (m : α) (h : s.files ≠ []) :
    readBack (append size s m) = readBack s ++ [m] := by
  obtain ⟨files, nb, last⟩ := s
  cases files with
  | nil => exact absurd rfl h
  | cons f fs => simp [readBack, append, userMsgs, List.filter_append]

theorem readBack_sbWrite (max : Nat) (s : Rot α) (w : Wr α) (h : s.files ≠ []) :
    readBack (sbWrite size max s w) = readBack s ++ [w.msg] := by
  unfold sbWrite
  split
  · rw [readBack_append size _ _ (rotate_files_ne size _ _ _), readBack_rotate]
  · rw [readBack_append size _ _ h]

theorem readBack_write (max : Nat) (s : Rot α) (w : Wr α) :
    readBack (write size max s w) = readBack s ++ [w.msg] := by
  unfold write
  split
  · rw [readBack_sbWrite size max _ _ (rotate_files_ne size _ _ _), readBack_rotate]
  · rename_i h
    rw [readBack_sbWrite size max _ _ (by intro hn; simp [hn] at h)]

/-! ### stamps -/

/-- newest first: stamps strictly decrease, and none exceeds `lastRotation` -/
def Stamped (s : Rot α) : Prop :=
  (s.files.map (·.stamp)).Pairwise (· > ·) ∧ ∀ f ∈ s.files, f.stamp ≤ s.last

theorem stamped_rotate (s : Rot α) (now : Nat) (hdrs : List α) (h : Stamped s) :
    Stamped (rotate size s now hdrs) := by
  obtain ⟨h1, h2⟩ := h
  refine ⟨?_, ?_⟩
  · simp only [rotate, List.map_cons, List.pairwise_cons]
    refine ⟨?_, h1⟩
    intro a ha
    simp only [List.mem_map] at ha
    obtain ⟨f, hf, rfl⟩ := ha
    have := h2 f hf
    split <;> omega
  · intro f hf
    simp only [rotate, List.mem_cons] at hf
    rcases hf with hf | hf
    · subst hf; simp [rotate]
    · have := h2 f hf
      simp only [rotate]
      split <;> omega

theorem stamped_append (s : Rot α) (m : α) (h : Stamped s) : Stamped (append size s m) := by
  obtain ⟨files, nb, last⟩ := s
  cases files with
  | nil => simpa [append] using h
  | cons f fs =>
    obtain ⟨h1, h2⟩ := h
    refine ⟨by simpa [append] using h1, ?_⟩
    intro g hg
    simp only [append, List.mem_cons] at hg
    rcases hg with hg | hg
    · subst hg; exact h2 f (by simp)
    · exact h2 g (by simp [hg])

theorem stamped_write (max : Nat) (s : Rot α) (w : Wr α) (h : Stamped s) :
    Stamped (write size max s w) := by
  unfold write sbWrite
  split <;> split <;>
    first
      | exact stamped_append size _ _ (stamped_rotate size _ _ _ (stamped_rotate size _ _ _ h))
      | exact stamped_append size _ _ (stamped_rotate size _ _ _ h)
      | exact stamped_append size _ _ h

end Rotation

/-! ## garbage collection -/

theorem gcGo_all_false (b : Nat) (sum : Nat) (l : List Nat) (h : b ≤ sum) :
    gcGo b sum l = List.replicate l.length false := by
  induction l generalizing sum with
  | nil => rfl
  | cons s r ih =>
    have : ¬ (sum + s < b) := by omega
    simp [gcGo, this, ih (sum + s) (by omega), List.replicate_succ]

theorem gcGo_prefix (b : Nat) (sum : Nat) (l : List Nat) :
    ∃ k, k ≤ l.length ∧ gcGo b sum l = List.replicate k true ++ List.replicate (l.length - k) false := by
  induction l generalizing sum with
  | nil => exact ⟨0, by simp, rfl⟩
  | cons s r ih =>
    by_cases h : sum + s < b
    · obtain ⟨k, hk, he⟩ := ih (sum + s)
      refine ⟨k + 1, by simp; omega, ?_⟩
      simp [gcGo, h, he, List.replicate_succ]
    · refine ⟨0, by simp, ?_⟩
      have := gcGo_all_false b (sum + s) r (by omega)
      simp [gcGo, h, this, List.replicate_succ]

theorem gcKeep_prefix (b : Nat) (l : List Nat) (hl : l ≠ []) :
    ∃ k, 1 ≤ k ∧ k ≤ l.length ∧
      gcKeep b l = List.replicate k true ++ List.replicate (l.length - k) false := by
  cases l with
  | nil => exact absurd rfl hl
  | cons s r =>
    obtain ⟨k, hk, he⟩ := gcGo_prefix b s r
    refine ⟨k + 1, by omega, by simp; omega, ?_⟩
    simp [gcKeep, he, List.replicate_succ]

theorem gcGo_get (b : Nat) (sum : Nat) (l : List Nat) (j : Nat) (hj : j < l.length) :
    (gcGo b sum l)[j]? = some (decide (sum + (l.take (j + 1)).sum < b)) := by
  induction l generalizing sum j with
  | nil => simp at hj
  | cons s r ih =>
    cases j with
    | zero => simp [gcGo]
    | succ j =>
      simp only [List.length_cons] at hj
      simp only [gcGo, List.getElem?_cons_succ, List.take_succ_cons, List.sum_cons]
      rw [ih (sum + s) j (by omega)]
      congr 1
      exact decide_eq_decide.mpr (by omega)

theorem keepBy_prefix {β : Type} (l : List β) (k : Nat) (hk : k ≤ l.length) :
    keepBy l (List.replicate k true ++ List.replicate (l.length - k) false) = l.take k := by
  induction l generalizing k with
  | nil => cases k <;> simp [keepBy]
  | cons x xs ih =>
    cases k with
    | zero =>
      simp only [List.replicate_zero, List.nil_append, List.length_cons, Nat.sub_zero, List.take_zero]
      rw [List.replicate_succ]
      simp only [keepBy, Bool.false_eq_true, if_false]
      have := ih 0 (by simp)
      simpa using this
    | succ k =>
      simp only [List.length_cons] at hk
      have h1 : xs.length + 1 - (k + 1) = xs.length - k := by omega
      simp only [List.length_cons, h1, List.replicate_succ, List.cons_append, keepBy, if_true,
        List.take_succ_cons]
      rw [ih k (by omega)]

section RotGc
variable {α : Type} (size : α → Nat)

theorem gc_files_take (b : Nat) (s : Rot α) (h : s.files ≠ []) :
    ∃ k, 1 ≤ k ∧ (gc size b s).files = s.files.take k := by
  have hne : s.files.map (fileSize size) ≠ [] := by simpa using h
  obtain ⟨k, k1, k2, he⟩ := gcKeep_prefix b (s.files.map (fileSize size)) hne
  refine ⟨k, k1, ?_⟩
  simp only [gc, he]
  simp only [List.length_map] at k2 ⊢
  exact keepBy_prefix s.files k k2

theorem gc_files_nil (b : Nat) (s : Rot α) (h : s.files = []) : (gc size b s).files = [] := by
  simp [gc, h, gcKeep, keepBy]

theorem readBack_gc_suffix (b : Nat) (s : Rot α) : readBack (gc size b s) <:+ readBack s := by
  by_cases h : s.files = []
  · simp [readBack, gc_files_nil size b s h, h]
  · obtain ⟨k, _, hk⟩ := gc_files_take size b s h
    have hsplit : s.files = s.files.take k ++ s.files.drop k := (List.take_append_drop k s.files).symm
    unfold readBack
    rw [hk]
    conv => rhs; rw [hsplit]
    rw [List.reverse_append, List.flatMap_append]
    exact List.suffix_append _ _

theorem stamped_gc (b : Nat) (s : Rot α) (h : Stamped s) : Stamped (gc size b s) := by
  by_cases hn : s.files = []
  · have := gc_files_nil size b s hn
    refine ⟨by rw [this]; simp, by rw [this]; simp⟩
  · obtain ⟨k, _, hk⟩ := gc_files_take size b s hn
    obtain ⟨h1, h2⟩ := h
    refine ⟨?_, ?_⟩
    · rw [hk, List.map_take]
      exact h1.sublist (List.take_sublist _ _)
    · intro f hf
      rw [hk] at hf
      exact h2 f (List.mem_of_mem_take hf)

theorem gc_head (b : Nat) (s : Rot α) : (gc size b s).files.head? = s.files.head? := by
  by_cases hn : s.files = []
  · rw [gc_files_nil size b s hn, hn]
  · obtain ⟨k, k1, hk⟩ := gc_files_take size b s hn
    rw [hk]
    cases hs : s.files with
    | nil => exact absurd hs hn
    | cons f fs =>
      obtain ⟨k', rfl⟩ : ∃ k', k = k' + 1 := ⟨k - 1, by omega⟩
      simp

theorem run_cons (max : Nat) (s : Rot α) (o : Op α) (os : List (Op α)) :
    run size max s (o :: os) = run size max (step size max s o) os := rfl

theorem stamped_run (max : Nat) (s : Rot α) (ops : List (Op α)) (h : Stamped s) :
    Stamped (run size max s ops) := by
  induction ops generalizing s with
  | nil => exact h
  | cons o os ih =>
    rw [run_cons]
    apply ih
    cases o with
    | write w => exact stamped_write size max s w h
    | gc b => exact stamped_gc size b s h

theorem readBack_run_suffix (max : Nat) (s : Rot α) (ops : List (Op α)) (pre : List α)
    (h : readBack s <:+ pre) : readBack (run size max s ops) <:+ pre ++ writesOf ops := by
  induction ops generalizing s pre with
  | nil => simpa [run, writesOf] using h
  | cons o os ih =>
    rw [run_cons]
    cases o with
    | write w =>
      have h' : readBack (step size max s (.write w)) <:+ pre ++ [w.msg] := by
        simp only [step, readBack_write]
        obtain ⟨p, hp⟩ := h
        exact ⟨p, by rw [← hp, List.append_assoc]⟩
      have := ih _ _ h'
      simpa [writesOf, List.append_assoc] using this
    | gc b =>
      have h' : readBack (step size max s (.gc b)) <:+ pre :=
        List.IsSuffix.trans (readBack_gc_suffix size b s) h
      simpa [writesOf] using ih _ _ h'

theorem readBack_run_writes (max : Nat) (s : Rot α) (ws : List (Wr α)) :
    readBack (run size max s (ws.map Op.write)) = readBack s ++ ws.map (·.msg) := by
  induction ws generalizing s with
  | nil => simp [run]
  | cons w ws ih =>
    simp only [List.map_cons, run, List.foldl_cons, step]
    have := ih (write size max s w)
    simp only [run] at this
    rw [this, readBack_write, List.append_assoc]
    rfl

/-- the open file ends with message `m` -/
def HeadEnds (s : Rot α) (m : α) : Prop := ∃ f fs pre, s.files = f :: fs ∧ userMsgs f = pre ++ [m]

theorem headEnds_append (s : Rot α) (m : α) (h : s.files ≠ []) : HeadEnds (append size s m) m := by
  obtain ⟨files, nb, last⟩ := s
  cases files with
  | nil => exact absurd rfl h
  | cons f fs =>
    exact ⟨_, fs, userMsgs f, rfl, by simp [userMsgs, List.filter_append]⟩

theorem headEnds_write (max : Nat) (s : Rot α) (w : Wr α) : HeadEnds (write size max s w) w.msg := by
  unfold write sbWrite
  split <;> split
  · exact headEnds_append size _ _ (rotate_files_ne size _ _ _)
  · exact headEnds_append size _ _ (rotate_files_ne size _ _ _)
  · exact headEnds_append size _ _ (rotate_files_ne size _ _ _)
  · rename_i h _
    exact headEnds_append size _ _ (by intro hn; simp [hn] at h)

theorem headEnds_gc (b : Nat) (s : Rot α) (m : α) (h : HeadEnds s m) : HeadEnds (gc size b s) m := by
  obtain ⟨f, fs, pre, hf, hu⟩ := h
  have hh := gc_head size b s
  rw [hf] at hh
  cases hg : (gc size b s).files with
  | nil => rw [hg] at hh; simp at hh
  | cons g gs =>
    rw [hg] at hh
    simp only [List.head?_cons, Option.some.injEq] at hh
    subst hh
    exact ⟨g, gs, pre, hg, hu⟩

theorem headEnds_readBack (s : Rot α) (m : α) (h : HeadEnds s m) : (readBack s).getLast? = some m := by
  obtain ⟨f, fs, pre, hf, hu⟩ := h
  simp [readBack, hf, hu]

theorem run_append (max : Nat) (s : Rot α) (a b : List (Op α)) :
    run size max s (a ++ b) = run size max (run size max s a) b := by
  simp [run, List.foldl_append]

theorem headEnds_run_gcs (max : Nat) (s : Rot α) (m : α) (bounds : List Nat) (h : HeadEnds s m) :
    HeadEnds (run size max s (bounds.map Op.gc)) m := by
  induction bounds generalizing s with
  | nil => exact h
  | cons b bs ih =>
    rw [List.map_cons, run_cons]
    exact ih _ (headEnds_gc size b s m h)

end RotGc

end Shk.Log
