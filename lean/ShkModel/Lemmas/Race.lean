import ShkModel.Model.Race
/-! Lemmas for C14: what the checker's graph functions mean for the thread instances of an
execution, and the happens-before consequences of the `pre` / `post` / `sep` facts. -/
namespace Shk.Race

variable {T : Table} {pol : Nat → Option Discipline}

theorem hb_lt {tr : Trace} {i j : Nat} (h : HB tr i j) : i < j := by
  induction h with
  | po _ _ h => exact h
  | fork _ _ h => exact h
  | join _ _ h => exact h
  | lock _ _ _ _ h => exact h
  | chan _ _ h => exact h
  | trans _ _ ih₁ ih₂ => exact Nat.lt_trans ih₁ ih₂

theorem At.inj {tr : Trace} {i : Nat} {t u : Tid} {a b : Act} (h₁ : At tr i t a) (h₂ : At tr i u b) :
    t = u ∧ a = b := by
  unfold At at h₁ h₂
  rw [h₁] at h₂
  cases h₂
  exact ⟨rfl, rfl⟩

/-- there is one thread instance of a `single` root -/
theorem single_sound (ex : Exec T pol) : ∀ (f r : Nat), single T f r = true →
    ∀ t u, Active ex.tr t → Active ex.tr u → ex.rootOf t = r → ex.rootOf u = r → t = u := by
  intro f
  induction f with
  | zero => intro r h; simp [single] at h
  | succ f ih =>
    intro r h t u hat hau ht hu
    by_cases hr : r = 0
    · subst hr; exact ex.mainUnique t u hat hau ht hu
    · simp only [single, Bool.or_eq_true, beq_iff_eq, hr, false_or] at h
      cases hR : T.roots[r]? with
      | none => simp [hR] at h
      | some R =>
        simp only [hR, Bool.and_eq_true, Bool.not_eq_true'] at h
        obtain ⟨⟨ho, hm⟩, hp⟩ := h
        obtain ⟨pt, hpt⟩ := ex.hasParent t hat (by rw [ht]; exact hr)
        obtain ⟨pu, hpu⟩ := ex.hasParent u hau (by rw [hu]; exact hr)
        have hapt : Active ex.tr pt := by
          obtain ⟨k, hk⟩ := ex.forkExists t pt hpt
          exact ⟨k, _, hk⟩
        have hapu : Active ex.tr pu := by
          obtain ⟨k, hk⟩ := ex.forkExists u pu hpu
          exact ⟨k, _, hk⟩
        have h1 := ex.parTyped t pt hpt
        have h2 := ex.parTyped u pu hpu
        rw [ht] at h1; rw [hu] at h2
        simp only [Table.parents, hR] at h1 h2
        match hps : R.parents, hp with
        | [p], hp =>
          rw [hps] at h1 h2
          simp at h1 h2
          have := ih p hp pt pu hapt hapu h1 h2
          subst this
          exact ex.onceSem t u pt R hpt hpu (by rw [ht, hu]) (by rw [ht]; exact hR) ho hm
        | [], hp => simp at hp
        | _ :: _ :: _, hp => simp at hp

/-- every instance of `r` descends from an instance of `w` -/
theorem under_sound (ex : Exec T pol) (w : Nat) : ∀ (f r : Nat), under T w f r = true →
    ∀ u, Active ex.tr u → ex.rootOf u = r → ∃ t, ex.rootOf t = w ∧ Anc ex.par u t := by
  intro f
  induction f with
  | zero => intro r h; simp [under] at h
  | succ f ih =>
    intro r h u hau hu
    simp only [under, Bool.and_eq_true, bne_iff_ne, ne_eq, List.all_eq_true, Bool.or_eq_true, beq_iff_eq] at h
    obtain ⟨hr, hall⟩ := h
    obtain ⟨p, hp⟩ := ex.hasParent u hau (by rw [hu]; exact hr)
    have hap : Active ex.tr p := by
      obtain ⟨k, hk⟩ := ex.forkExists u p hp
      exact ⟨k, _, hk⟩
    have hpt := ex.parTyped u p hp
    rw [hu] at hpt
    rcases hall _ hpt with h | h
    · exact ⟨p, h, .base hp⟩
    · obtain ⟨t, ht, ha⟩ := ih _ h p hap rfl
      exact ⟨t, ht, .step hp ha⟩

/-- no instance of `r` is an instance of `c` or below one -/
theorem cannotReach_sound (ex : Exec T pol) (c : Nat) : ∀ (f r : Nat), cannotReach T c f r = true →
    ∀ u c₀, ex.rootOf u = r → ex.rootOf c₀ = c → ¬ (u = c₀ ∨ Anc ex.par u c₀) := by
  intro f
  induction f with
  | zero => intro r h; simp [cannotReach] at h
  | succ f ih =>
    intro r h u c₀ hu hc
    simp only [cannotReach, Bool.and_eq_true, bne_iff_ne, ne_eq, List.all_eq_true] at h
    obtain ⟨hr, hall⟩ := h
    rintro (rfl | ha)
    · exact hr (hu.symm.trans hc)
    · cases ha with
      | base hp =>
        have hpt := ex.parTyped u c₀ hp
        rw [hu, hc] at hpt
        exact ih c (hall _ hpt) c₀ c₀ hc hc (Or.inl rfl)
      | step hp ha' =>
        have hpt := ex.parTyped u _ hp
        rw [hu] at hpt
        exact ih _ (hall _ hpt) _ c₀ rfl hc (Or.inr ha')

/-- the first step of a descent -/
theorem anc_first {par : Tid → Option Tid} {u t : Tid} (h : Anc par u t) :
    ∃ c, par c = some t ∧ (u = c ∨ Anc par u c) := by
  induction h with
  | base hp => exact ⟨_, hp, Or.inl rfl⟩
  | step hp _ ih =>
    obtain ⟨c, hc, h⟩ := ih
    refine ⟨c, hc, Or.inr ?_⟩
    rcases h with rfl | h
    · exact .base hp
    · exact .step hp h


/-- an event of a thread that precedes the fork of child `c` happens before everything `c`
and its descendants do -/
theorem before_fork (ex : Exec T pol) {i k : Nat} {t c : Tid} {a : Act}
    (hi : At ex.tr i t a) (hk : At ex.tr k t (.fork c)) (hik : i < k) :
    ∀ u, (u = c ∨ Anc ex.par u c) → ∀ j b, At ex.tr j u b → HB ex.tr i j := by
  have hc : ∀ j b, At ex.tr j c b → HB ex.tr i j := fun j b hj =>
    .trans (.po hi hk hik) (.fork hk hj (ex.forkFirst k t c j b hk hj))
  intro u hu
  rcases hu with rfl | ha
  · exact hc
  · induction ha with
    | base hp =>
      intro j b hj
      obtain ⟨k', hk'⟩ := ex.forkExists _ _ hp
      exact .trans (hc k' _ hk') (.fork hk' hj (ex.forkFirst _ _ _ _ _ hk' hj))
    | step hp _ ih =>
      intro j b hj
      obtain ⟨k', hk'⟩ := ex.forkExists _ _ hp
      exact .trans (ih hk hc k' _ hk') (.fork hk' hj (ex.forkFirst _ _ _ _ _ hk' hj))

/-- `settled`: when `c₀` (root `c`) gives its end signal, every instance of `r` below it has
given its own, and that happened before -/
theorem settled_sound (ex : Exec T pol) (c : Nat) : ∀ (f r : Nat), settled T c f r = true →
    ∀ u c₀ d, ex.rootOf u = r → ex.rootOf c₀ = c → (u = c₀ ∨ Anc ex.par u c₀) →
      At ex.tr d c₀ .done → ∃ du, At ex.tr du u .done ∧ (du = d ∨ HB ex.tr du d) := by
  intro f
  induction f with
  | zero => intro r h; simp [settled] at h
  | succ f ih =>
    intro r h u c₀ d hu hc hd hdone
    rcases hd with rfl | ha
    · exact ⟨d, hdone, Or.inl rfl⟩
    · simp only [settled, List.all_eq_true, Bool.or_eq_true, Bool.and_eq_true] at h
      -- the parent of u is c₀ or below it
      have key : ∃ p, ex.par u = some p ∧ (p = c₀ ∨ Anc ex.par p c₀) := by
        cases ha with
        | base hp => exact ⟨_, hp, Or.inl rfl⟩
        | step hp ha' => exact ⟨_, hp, Or.inr ha'⟩
      obtain ⟨p, hp, hpc⟩ := key
      have hpt := ex.parTyped u p hp
      rw [hu] at hpt
      rcases h _ hpt with hno | ⟨hj, hs⟩
      · exact absurd hpc (cannotReach_sound ex c _ _ hno p c₀ rfl hc)
      · obtain ⟨dp, hdp, hord⟩ := ih _ hs p c₀ d rfl hc hpc hdone
        simp only [jbd] at hj
        cases hR : T.roots[r]? with
        | none => simp [hR] at hj
        | some R =>
          simp only [hR, Bool.and_eq_true, List.contains_iff_mem] at hj
          obtain ⟨k, hk, hjoin⟩ := ex.jbdSem u p R dp hp (by rw [hu]; exact hR) hj.1 hj.2 hdp
          obtain ⟨du, hdu, hdone'⟩ := ex.joinObs k p u hjoin
          refine ⟨du, hdone', Or.inr ?_⟩
          have h1 : HB ex.tr du dp := .trans (.join hdone' hjoin hdu) (.po hjoin hdp hk)
          rcases hord with rfl | h2
          · exact h1
          · exact .trans h1 h2

/-- an access that precedes its thread's end signal, in a settled thread below child `c₀` of `t`,
happens before whatever `t` does after joining `c₀` -/
theorem after_join (ex : Exec T pol) {i j k : Nat} {t c₀ u : Tid} {a : Act} {y : Access} {o : Nat}
    (hi : At ex.tr i t a) (hk : At ex.tr k t (.join c₀)) (hki : k < i)
    (hj : At ex.tr j u (.acc y o)) (hpre : y.preDone = true)
    (hu : u = c₀ ∨ Anc ex.par u c₀) (hs : settled T (ex.rootOf c₀) T.roots.length (ex.rootOf u) = true) :
    HB ex.tr j i := by
  obtain ⟨d, hdk, hd⟩ := ex.joinObs k t c₀ hk
  obtain ⟨du, hdu, hord⟩ := settled_sound ex _ _ _ hs u c₀ d rfl rfl hu hd
  have h1 : HB ex.tr j du := .po hj hdu (ex.preDoneSem j u y o du hj hpre hdu)
  have h2 : HB ex.tr d i := .trans (.join hd hk hdk) (.po hk hi hki)
  rcases hord with rfl | h
  · exact .trans h1 h2
  · exact .trans h1 (.trans h h2)


theorem parents_lt {r p : Nat} (h : p ∈ T.parents r) : r < T.roots.length := by
  unfold Table.parents at h
  cases hR : T.roots[r]? with
  | none => simp [hR] at h
  | some R =>
    have := List.getElem?_eq_some_iff.mp hR
    exact this.1

/-- `downOk`: an access of the single instance of an ancestor root is ordered with an access of
any instance of a root below it -/
theorem downOk_sound (ex : Exec T pol) {i j : Nat} {t u : Tid} {x y : Access} {o o' : Nat}
    (hi : At ex.tr i t (.acc x o)) (hj : At ex.tr j u (.acc y o'))
    (h : downOk T x y = true) : HB ex.tr i j ∨ HB ex.tr j i := by
  have hx := (ex.typed i t x o hi).2
  have hy := (ex.typed j u y o' hj).2
  simp only [downOk, Bool.and_eq_true, List.all_eq_true, List.mem_range, Bool.or_eq_true,
    Bool.not_eq_true'] at h
  obtain ⟨⟨hs, hu⟩, hall⟩ := h
  obtain ⟨t', ht', ha⟩ := under_sound ex _ _ _ hu u ⟨j, _, hj⟩ hy.symm
  have hat' : Active ex.tr t' := by
    obtain ⟨c, hc, _⟩ := anc_first ha
    obtain ⟨k, hk⟩ := ex.forkExists c t' hc
    exact ⟨k, _, hk⟩
  have : t' = t := single_sound ex _ _ hs t' t hat' ⟨i, _, hi⟩ ht' hx.symm
  subst this
  obtain ⟨c, hc, hdesc⟩ := anc_first ha
  have hpt := ex.parTyped c t' hc
  have hlt := parents_lt hpt
  rcases hall _ hlt with (hnc | hno) | hrel
  · simp only [isChildOf, hx] at hnc
    have : (T.parents (ex.rootOf c)).contains (ex.rootOf t') = true := List.contains_iff_mem.mpr hpt
    rw [this] at hnc
    cases hnc
  · exact absurd hdesc (cannotReach_sound ex _ _ _ hno u c hy.symm rfl)
  · have hsem := ex.relSem i t' x o c hi hc
    cases hr : x.relTo (ex.rootOf c) with
    | pre =>
      rw [hr] at hsem
      obtain ⟨k, hk⟩ := ex.forkExists c t' hc
      exact Or.inl (before_fork ex hi hk (hsem k hk) u hdesc j _ hj)
    | mid => rw [hr] at hrel; simp at hrel
    | post =>
      rw [hr] at hsem hrel
      simp only [Bool.and_eq_true] at hrel
      obtain ⟨k, hki, hk⟩ := hsem
      exact Or.inr (after_join ex hi hk hki hj hrel.1 hdesc (by rw [← hy]; exact hrel.2))
    | sep =>
      rw [hr] at hsem hrel
      simp only [Bool.and_eq_true] at hrel
      rcases hsem with hpre | ⟨k, hki, hk⟩
      · obtain ⟨k, hk⟩ := ex.forkExists c t' hc
        exact Or.inl (before_fork ex hi hk (hpre k hk) u hdesc j _ hj)
      · exact Or.inr (after_join ex hi hk hki hj hrel.1 hdesc (by rw [← hy]; exact hrel.2))

/-- `pairOk`: the two accesses are both atomic, or by the same thread, or ordered -/
theorem pairOk_sound (ex : Exec T pol) {i j : Nat} {t u : Tid} {x y : Access} {o o' : Nat}
    (hi : At ex.tr i t (.acc x o)) (hj : At ex.tr j u (.acc y o'))
    (h : pairOk T x y = true) :
    (x.atomic = true ∧ y.atomic = true) ∨ t = u ∨ HB ex.tr i j ∨ HB ex.tr j i := by
  simp only [pairOk, Bool.or_eq_true, Bool.and_eq_true, beq_iff_eq] at h
  rcases h with (((h | h) | h) | h) | h
  · exact Or.inl h
  · simp only [commonLock, List.any_eq_true, List.contains_iff_mem] at h
    obtain ⟨m, hm, hm'⟩ := h
    by_cases hij : i = j
    · subst hij
      exact Or.inr (Or.inl (At.inj hi hj).1)
    · rcases Nat.lt_or_gt_of_ne hij with hlt | hlt
      · exact Or.inr (Or.inr (Or.inl (.lock hi hj hm hm' hlt)))
      · exact Or.inr (Or.inr (Or.inr (.lock hj hi hm' hm hlt)))
  · have hx := (ex.typed i t x o hi).2
    have hy := (ex.typed j u y o' hj).2
    exact Or.inr (Or.inl (single_sound ex _ _ h.2 t u ⟨i, _, hi⟩ ⟨j, _, hj⟩ hx.symm (by rw [← hy, ← h.1])))
  · exact Or.inr (Or.inr (downOk_sound ex hi hj h))
  · exact Or.inr (Or.inr ((downOk_sound ex hj hi h).symm))


/-- depth one: a `preDone` access of child `c` happens before what the parent does after joining `c` -/
theorem after_join_child (ex : Exec T pol) {i j k : Nat} {t c : Tid} {a : Act} {y : Access} {o : Nat}
    (hi : At ex.tr i t a) (hk : At ex.tr k t (.join c)) (hki : k < i)
    (hj : At ex.tr j c (.acc y o)) (hpre : y.preDone = true) : HB ex.tr j i := by
  obtain ⟨d, hdk, hd⟩ := ex.joinObs k t c hk
  exact .trans (.po hj hd (ex.preDoneSem j c y o d hj hpre hd)) (.trans (.join hd hk hdk) (.po hk hi hki))

theorem mem_accsAt (hg : groupsOk T = true) {a : Access} {l : Nat} (h : a ∈ T.accs) (hl : a.loc = l) :
    a ∈ accsAt T l ∧ l < T.nlocs := by
  simp only [Table.accs, List.mem_flatten] at h
  obtain ⟨g, hg', ha⟩ := h
  obtain ⟨k, hk, rfl⟩ := List.getElem_of_mem hg'
  simp only [groupsOk, List.all_eq_true, List.mem_range, beq_iff_eq] at hg
  have hk' : k < T.nlocs := hk
  have hat : accsAt T k = T.groups[k] := by
    unfold accsAt
    rw [List.getElem?_eq_getElem hk]
    rfl
  have := hg k hk' a (by rw [hat]; exact ha)
  rw [this] at hl
  subst hl
  exact ⟨by rw [hat]; exact ha, hk'⟩

/-- owner instance against the goroutine it forked -/
theorem fam_parent_child (ex : Exec T pol) (hg : groupsOk T = true) {l : Nat} {owners : List Nat} (hf : famOk T l owners = true)
    {i j : Nat} {w u : Tid} {x y : Access} {o o' : Nat}
    (hi : At ex.tr i w (.acc x o)) (hj : At ex.tr j u (.acc y o'))
    (hxl : x.loc = l) (hyl : y.loc = l) (hw : ex.rootOf w ∈ owners) (hp : ex.par u = some w) :
    HB ex.tr i j ∨ HB ex.tr j i := by
  obtain ⟨hxa, hx⟩ := ex.typed i w x o hi
  obtain ⟨hya, hy⟩ := ex.typed j u y o' hj
  simp only [famOk, Bool.and_eq_true, List.all_eq_true, List.mem_filter, Bool.not_eq_true',
    Bool.or_eq_true, and_imp] at hf
  obtain ⟨⟨⟨hown, _⟩, hkid⟩, hrel⟩ := hf
  have hpt := ex.parTyped u w hp
  -- the child's root is not an owner root
  have hyo : owners.contains y.root = false := by
    cases hc : owners.contains y.root with
    | false => rfl
    | true =>
      have := hown y.root (List.contains_iff_mem.mp hc) (ex.rootOf w) (by rw [hy]; exact hpt)
      rw [List.contains_iff_mem.mpr hw] at this
      cases this
  have hyk := hkid y (mem_accsAt hg hya hyl).1 hyo
  have hxr := hrel x (mem_accsAt hg hxa hxl).1
  rw [hx, List.contains_iff_mem.mpr hw] at hxr
  have hne := (hxr.resolve_left (by simp)) y (mem_accsAt hg hya hyl).1 hyo
  have hsem := ex.relSem i w x o u hi hp
  rw [← hy] at hsem
  cases hr : x.relTo y.root with
  | mid => rw [hr] at hne; simp at hne
  | pre =>
    rw [hr] at hsem
    obtain ⟨k, hk⟩ := ex.forkExists u w hp
    exact Or.inl (before_fork ex hi hk (hsem k hk) u (Or.inl rfl) j _ hj)
  | post =>
    rw [hr] at hsem
    obtain ⟨k, hki, hk⟩ := hsem
    exact Or.inr (after_join_child ex hi hk hki hj hyk.1)
  | sep =>
    rw [hr] at hsem
    rcases hsem with hpre | ⟨k, hki, hk⟩
    · obtain ⟨k, hk⟩ := ex.forkExists u w hp
      exact Or.inl (before_fork ex hi hk (hpre k hk) u (Or.inl rfl) j _ hj)
    · exact Or.inr (after_join_child ex hi hk hki hj hyk.1)

/-- two goroutines forked one after the other by the same owner instance -/
theorem fam_siblings (ex : Exec T pol) (hg : groupsOk T = true) {l : Nat} {owners : List Nat} (hf : famOk T l owners = true)
    {i j : Nat} {w t u : Tid} {x y : Access} {o o' : Nat}
    (hi : At ex.tr i t (.acc x o)) (hj : At ex.tr j u (.acc y o'))
    (hxl : x.loc = l) (hyl : y.loc = l) (hw : ex.rootOf w ∈ owners)
    (hpt : ex.par t = some w) (hpu : ex.par u = some w) (htu : t ≠ u) :
    HB ex.tr i j ∨ HB ex.tr j i := by
  obtain ⟨hxa, hx⟩ := ex.typed i t x o hi
  obtain ⟨hya, hy⟩ := ex.typed j u y o' hj
  simp only [famOk, Bool.and_eq_true, List.all_eq_true, List.mem_filter, Bool.not_eq_true',
    Bool.or_eq_true, and_imp, beq_iff_eq] at hf
  obtain ⟨⟨⟨hown, hsame⟩, hkid⟩, _⟩ := hf
  have notOwner : ∀ (v : Tid) (z : Access), z.root = ex.rootOf v → ex.par v = some w →
      owners.contains z.root = false := by
    intro v z hz hpv
    cases hc : owners.contains z.root with
    | false => rfl
    | true =>
      have := hown z.root (List.contains_iff_mem.mp hc) (ex.rootOf w) (by rw [hz]; exact ex.parTyped v w hpv)
      rw [List.contains_iff_mem.mpr hw] at this
      cases this
  have hxo := notOwner t x hx hpt
  have hyo := notOwner u y hy hpu
  have hroot : x.root = y.root := by
    rcases hsame x (mem_accsAt hg hxa hxl).1 hxo y (mem_accsAt hg hya hyl).1 hyo with h | h
    · exact h
    · have h1 := ex.parTyped t w hpt
      have h2 := ex.parTyped u w hpu
      rw [← hx] at h1; rw [← hy] at h2
      have := h _ h1
      rw [List.contains_iff_mem.mpr h2] at this
      cases this
  have hxk := hkid x (mem_accsAt hg hxa hxl).1 hxo
  have hyk := hkid y (mem_accsAt hg hya hyl).1 hyo
  cases hR : T.roots[x.root]? with
  | none => rw [hR] at hxk; simp at hxk
  | some R =>
    simp only [hR, Bool.and_eq_true, Bool.not_eq_true'] at hxk
    have hRt : T.roots[ex.rootOf t]? = some R := by rw [← hx]; exact hR
    have hsr : ex.rootOf t = ex.rootOf u := by rw [← hx, ← hy]; exact hroot
    rcases ex.seqSem t u w R htu hpt hpu hsr hRt hxk.2.1.1.1 hxk.2.1.1.2 with
      ⟨k, k', hk, hk', hlt⟩ | ⟨k, k', hk, hk', hlt⟩
    · obtain ⟨d, hdk, hd⟩ := ex.joinObs k w t hk
      refine Or.inl (.trans (.po hi hd (ex.preDoneSem i t x o d hi hxk.1 hd)) (.trans (.join hd hk hdk) ?_))
      exact .trans (.po hk hk' hlt) (.fork hk' hj (ex.forkFirst _ _ _ _ _ hk' hj))
    · obtain ⟨d, hdk, hd⟩ := ex.joinObs k w u hk
      refine Or.inr (.trans (.po hj hd (ex.preDoneSem j u y o' d hj hyk.1 hd)) (.trans (.join hd hk hdk) ?_))
      exact .trans (.po hk hk' hlt) (.fork hk' hi (ex.forkFirst _ _ _ _ _ hk' hi))

end Shk.Race
