import ShkModel.Lemmas.StopperThr
/-! The registered closers and cancel functions. -/
namespace Shk.Stopper

/-- how one step changes the call list and the three registries -/
structure ListSum (s s' : St) (i : Nat) (t : Thread) : Prop where
  thr : ∃ t', s'.threads = s.threads.set i t' ∧ t'.kind = t.kind ∧ (t.pc ≠ .init → t'.pc ≠ .init) ∧
    (t.kind = .closer → t.pc = .done → t'.pc = .done) ∧
    (t.kind = .closer → t'.pc = .init ∨ t'.pc = .cImm → t.pc = .init ∨ t.pc = .cImm)
  closers : s'.closers = s.closers ∨
    (s'.closers = s.closers ++ [i] ∧ t.kind = .closer ∧ (t.pc = .init ∨ t.pc = .cImm) ∧
      ∀ t', s'.threads = s.threads.set i t' → t'.pc = .done)
  qc : s'.qCancels = s.qCancels ∨ (s'.qCancels = s.qCancels ++ [i] ∧ t.kind = .wcq) ∨ s'.qCancels = s.qCancels.erase i
  sc : s'.sCancels = s.sCancels ∨ (s'.sCancels = s.sCancels ++ [i] ∧ t.kind = .wcs) ∨ s'.sCancels = s.sCancels.erase i

theorem set_inj_of_lt {α} {l : List α} {i : Nat} {a b : α} (hi : i < l.length) (h : l.set i a = l.set i b) : a = b := by
  have h1 : (l.set i a)[i]? = some a := by simp [hi]
  rw [h] at h1
  simp [hi] at h1
  exact h1.symm

theorem listSum_go {s s' : St} {i : Nat} {t : Thread} (ht : s.threads[i]? = some t) (h : goStep s i t = some s') :
    ListSum s s' i t := by
  have hi := lt_length_of_getElem? ht
  obtain ⟨kind, pc, ret⟩ := t
  go_cases h
  all_goals (
    refine ⟨⟨_, rfl, rfl, by simp, by simp, by simp⟩, ?_, ?_, ?_⟩ <;> simp [St.upd]
    try (intro t' ht'; have := set_inj_of_lt hi ht'; subst this; rfl))

theorem listSum_alt {s s' : St} {i : Nat} {t : Thread} (h : altStep s i t = some s') :
    ListSum s s' i t := by
  obtain ⟨kind, pc, ret⟩ := t
  alt_cases h
  all_goals (refine ⟨⟨_, rfl, rfl, by simp, by simp, by simp⟩, ?_, ?_, ?_⟩ <;> simp [St.upd])

theorem listSum_ret {s : St} {i : Nat} {t : Thread} (es : List Ev) :
    ListSum s (s.upd i { t with ret := true } es) i t :=
  ⟨⟨_, rfl, rfl, fun h => h, fun _ h => h, fun _ h => h⟩, Or.inl rfl, Or.inl rfl, Or.inl rfl⟩

theorem listSum_step {s s' : St} {i : Nat} {a : Act} (h : step s i a = some s') :
    ∃ t, s.threads[i]? = some t ∧ ListSum s s' i t := by
  obtain ⟨t, ht, ⟨_, hg⟩ | ⟨_, hg⟩ | ⟨_, hg⟩⟩ := step_elim h
  · exact ⟨t, ht, listSum_go ht hg⟩
  · obtain ⟨v, _, _, rfl⟩ := retStep_elim hg
    exact ⟨t, ht, listSum_ret _⟩
  · exact ⟨t, ht, listSum_alt hg⟩

/-- where the entries appended by a step of call `i` come from -/
def EvSrc (s : St) (i : Nat) (t : Thread) (e : Ev) : Prop :=
  (e.id = i ∧ (e.k = .mark ∨ e.c = t.kind.code)) ∨ (e.k = .closer ∧ e.c = 5 ∧ e.id ∈ s.closers) ∨
  (e.k = .cancelled ∧ e.c = 6 ∧ e.id ∈ s.qCancels) ∨ (e.k = .cancelled ∧ e.c = 7 ∧ e.id ∈ s.sCancels)

def EvsSrc (s : St) (i : Nat) (t : Thread) (es : List Ev) : Prop := ∀ e ∈ es, EvSrc s i t e

theorem evsSrc_nil {s i t} : EvsSrc s i t [] := by intro e he; cases he
theorem evsSrc_append {s i t} {a b : List Ev} (ha : EvsSrc s i t a) (hb : EvsSrc s i t b) : EvsSrc s i t (a ++ b) := by
  intro e he
  rcases List.mem_append.mp he with he | he
  · exact ha e he
  · exact hb e he
theorem evsSrc_single {s i t} {e : Ev} (h : EvSrc s i t e) : EvsSrc s i t [e] := by
  intro e' he; simp at he; subst he; exact h
theorem evsSrc_cancelQ {s : St} {s0 : St} {i t} : EvsSrc s i t (s0.cancelEvs s.qCancels 6) := by
  intro e he
  obtain ⟨c, hc, rfl⟩ := List.mem_map.mp he
  exact Or.inr (Or.inr (Or.inl ⟨rfl, rfl, hc⟩))
theorem evsSrc_cancelS {s : St} {s0 : St} {i t} : EvsSrc s i t (s0.cancelEvs s.sCancels 7) := by
  intro e he
  obtain ⟨c, hc, rfl⟩ := List.mem_map.mp he
  exact Or.inr (Or.inr (Or.inr ⟨rfl, rfl, hc⟩))

macro "evsrc_finish" : tactic =>
  `(tactic| (
    try simp only [St.upd, St.quiesceEvs]
    repeat' (apply evsSrc_append)
    all_goals first
      | exact evsSrc_nil
      | exact evsSrc_cancelQ
      | exact evsSrc_cancelS
      | (apply evsSrc_single; simp [St.ev, EvSrc]; done)
      | (apply evsSrc_single; exact Or.inr (Or.inl ⟨rfl, rfl, List.mem_of_getElem? (by assumption)⟩))
      | (split <;> first | exact evsSrc_nil | (apply evsSrc_single; simp [St.ev, EvSrc]; done))))

theorem evsSrc_go {s s' : St} {i : Nat} {t : Thread} (h : goStep s i t = some s') :
    ∃ es, s'.log = s.log ++ es ∧ EvsSrc s i t es := by
  obtain ⟨kind, pc, ret⟩ := t
  go_cases h
  all_goals (refine ⟨_, rfl, ?_⟩; evsrc_finish)

theorem evsSrc_alt {s s' : St} {i : Nat} {t : Thread} (h : altStep s i t = some s') :
    ∃ es, s'.log = s.log ++ es ∧ EvsSrc s i t es := by
  obtain ⟨kind, pc, ret⟩ := t
  alt_cases h
  all_goals (refine ⟨_, rfl, ?_⟩; evsrc_finish)

theorem evsSrc_step {s s' : St} {i : Nat} {a : Act} (h : step s i a = some s') :
    ∃ t es, s.threads[i]? = some t ∧ s'.log = s.log ++ es ∧ EvsSrc s i t es := by
  obtain ⟨t, ht, ⟨_, hg⟩ | ⟨_, hg⟩ | ⟨_, hg⟩⟩ := step_elim h
  · obtain ⟨es, h1, h2⟩ := evsSrc_go hg
    exact ⟨t, es, ht, h1, h2⟩
  · obtain ⟨v, _, _, rfl⟩ := retStep_elim hg
    exact ⟨t, _, ht, rfl, evsSrc_single (Or.inl ⟨rfl, Or.inr rfl⟩)⟩
  · obtain ⟨es, h1, h2⟩ := evsSrc_alt hg
    exact ⟨t, es, ht, h1, h2⟩

/-- the registries hold what they should -/
structure ListsInv (s : St) : Prop where
  nodup : s.closers.Nodup
  closers_thr : ∀ c ∈ s.closers, ∃ t, s.threads[c]? = some t ∧ t.kind = .closer ∧ t.pc = .done
  q_thr : ∀ c ∈ s.qCancels, ∃ t, s.threads[c]? = some t ∧ t.kind = .wcq
  s_thr : ∀ c ∈ s.sCancels, ∃ t, s.threads[c]? = some t ∧ t.kind = .wcs
  fresh : ∀ j t, s.threads[j]? = some t → t.kind = .closer → (t.pc = .init ∨ t.pc = .cImm) → j ∉ s.closers

theorem getElem?_set_kind {l : List Thread} {i c : Nat} {t t' tc : Thread} (ht : l[i]? = some t) (hk : t'.kind = t.kind)
    (hc : l[c]? = some tc) : ∃ tc', (l.set i t')[c]? = some tc' ∧ tc'.kind = tc.kind ∧ (c ≠ i → tc' = tc) ∧ (c = i → tc' = t' ∧ tc = t) := by
  by_cases hci : c = i
  · subst hci
    have hl := lt_length_of_getElem? ht
    rw [ht] at hc; cases hc
    exact ⟨t', by simp [hl], hk, fun h => absurd rfl h, fun _ => ⟨rfl, rfl⟩⟩
  · refine ⟨tc, ?_, rfl, fun _ => rfl, fun h => absurd h hci⟩
    rw [List.getElem?_set_ne (fun e => hci e.symm)]; exact hc

theorem lists_step {s s' : St} {i : Nat} {t : Thread} (ht : s.threads[i]? = some t) (sm : ListSum s s' i t)
    (ih : ListsInv s) : ListsInv s' := by
  obtain ⟨⟨t', hthr, hk, hni, hcd, hci⟩, hcl, hq, hs⟩ := sm
  obtain ⟨n1, n2, n3, n4, n5⟩ := ih
  have lookup : ∀ c tc, s.threads[c]? = some tc →
      ∃ tc', s'.threads[c]? = some tc' ∧ tc'.kind = tc.kind ∧ (c ≠ i → tc' = tc) ∧ (c = i → tc' = t' ∧ tc = t) := by
    intro c tc hc; rw [hthr]; exact getElem?_set_kind ht hk hc
  have closers_old : ∀ c ∈ s.closers, ∃ t, s'.threads[c]? = some t ∧ t.kind = .closer ∧ t.pc = .done := by
    intro c hc
    obtain ⟨tc, h1, h2, h3⟩ := n2 c hc
    obtain ⟨tc', g1, g2, g3, g4⟩ := lookup c tc h1
    refine ⟨tc', g1, g2 ▸ h2, ?_⟩
    by_cases hci' : c = i
    · obtain ⟨rfl, rfl⟩ := g4 hci'
      exact hcd h2 h3
    · rw [g3 hci']; exact h3
  refine ⟨?_, ?_, ?_, ?_, ?_⟩
  · rcases hcl with h | ⟨h, hkc, hpc, _⟩
    · rw [h]; exact n1
    · rw [h]
      refine List.nodup_append.mpr ⟨n1, (by simp), ?_⟩
      intro a ha b hb
      simp at hb; subst hb
      intro hab; subst hab
      exact n5 a t ht hkc hpc ha
  · intro c hc
    rcases hcl with h | ⟨h, hkc, hpc, hdone⟩
    · rw [h] at hc; exact closers_old c hc
    · rw [h] at hc
      rcases List.mem_append.mp hc with hc | hc
      · exact closers_old c hc
      · simp at hc; subst hc
        have hl := lt_length_of_getElem? ht
        exact ⟨t', by rw [hthr]; simp [hl], hk ▸ hkc, hdone t' hthr⟩
  · intro c hc
    have : c ∈ s.qCancels ∨ (c = i ∧ t.kind = .wcq) := by
      rcases hq with h | ⟨h, hk'⟩ | h
      · rw [h] at hc; exact Or.inl hc
      · rw [h] at hc
        rcases List.mem_append.mp hc with hc | hc
        · exact Or.inl hc
        · simp at hc; exact Or.inr ⟨hc, hk'⟩
      · rw [h] at hc; exact Or.inl (List.mem_of_mem_erase hc)
    rcases this with hc | ⟨rfl, hk'⟩
    · obtain ⟨tc, h1, h2⟩ := n3 c hc
      obtain ⟨tc', g1, g2, _⟩ := lookup c tc h1
      exact ⟨tc', g1, g2 ▸ h2⟩
    · have hl := lt_length_of_getElem? ht
      exact ⟨t', by rw [hthr]; simp [hl], hk ▸ hk'⟩
  · intro c hc
    have : c ∈ s.sCancels ∨ (c = i ∧ t.kind = .wcs) := by
      rcases hs with h | ⟨h, hk'⟩ | h
      · rw [h] at hc; exact Or.inl hc
      · rw [h] at hc
        rcases List.mem_append.mp hc with hc | hc
        · exact Or.inl hc
        · simp at hc; exact Or.inr ⟨hc, hk'⟩
      · rw [h] at hc; exact Or.inl (List.mem_of_mem_erase hc)
    rcases this with hc | ⟨rfl, hk'⟩
    · obtain ⟨tc, h1, h2⟩ := n4 c hc
      obtain ⟨tc', g1, g2, _⟩ := lookup c tc h1
      exact ⟨tc', g1, g2 ▸ h2⟩
    · have hl := lt_length_of_getElem? ht
      exact ⟨t', by rw [hthr]; simp [hl], hk ▸ hk'⟩
  · intro j tj hj hkj hpj
    rw [hthr] at hj
    rcases getElem?_set_cases _ _ _ _ _ hj with ⟨rfl, rfl, _⟩ | ⟨hne, hj⟩
    · have hold := n5 j t ht (hk ▸ hkj) (hci (hk ▸ hkj) hpj)
      rcases hcl with h | ⟨h, _, _, hdone⟩
      · rw [h]; exact hold
      · have := hdone tj hthr
        rcases hpj with hpj | hpj <;> rw [this] at hpj <;> cases hpj
    · have hold := n5 j tj hj hkj hpj
      rcases hcl with h | ⟨h, _⟩
      · rw [h]; exact hold
      · rw [h]; intro hm
        rcases List.mem_append.mp hm with hm | hm
        · exact hold hm
        · simp at hm; exact hne hm

theorem lists_reach {cap : Nat} {s : St} (h : Reach cap s) : ListsInv s := by
  induction h with
  | init => refine ⟨List.nodup_nil, ?_, ?_, ?_, ?_⟩ <;> simp [init]
  | spawn s k _ ih =>
    obtain ⟨n1, n2, n3, n4, n5⟩ := ih
    have look : ∀ (c : Nat) (tc : Thread), s.threads[c]? = some tc → (s.threads ++ [({ kind := k } : Thread)])[c]? = some tc := by
      intro c tc hc
      rw [List.getElem?_append_left (lt_length_of_getElem? hc)]; exact hc
    refine ⟨n1, ?_, ?_, ?_, ?_⟩
    · intro c hc; obtain ⟨t, h1, h2⟩ := n2 c hc; exact ⟨t, look c t h1, h2⟩
    · intro c hc; obtain ⟨t, h1, h2⟩ := n3 c hc; exact ⟨t, look c t h1, h2⟩
    · intro c hc; obtain ⟨t, h1, h2⟩ := n4 c hc; exact ⟨t, look c t h1, h2⟩
    · intro j tj hj hkj hpj
      simp only [spawn] at hj ⊢
      by_cases hlt : j < s.threads.length
      · rw [List.getElem?_append_left hlt] at hj
        exact n5 j tj hj hkj hpj
      · intro hm
        obtain ⟨t, h1, _⟩ := n2 j hm
        exact hlt (lt_length_of_getElem? h1)
  | step s s' i a _ hs ih =>
    obtain ⟨t, ht, sm⟩ := listSum_step hs
    exact lists_step ht sm ih

theorem threads_length_step {s s' : St} {i : Nat} {a : Act} (h : step s i a = some s') :
    s'.threads.length = s.threads.length := by
  obtain ⟨t, ht, sm⟩ := listSum_step h
  obtain ⟨t', hthr, _⟩ := sm.thr
  rw [hthr]; simp

theorem ids_reach {cap : Nat} {s : St} (h : Reach cap s) : IdsInv s := by
  induction h with
  | init => intro e he; cases he
  | spawn s k _ ih =>
    intro e he
    simp only [spawn] at he ⊢
    rcases List.mem_append.mp he with he | he
    · have := ih e he; simp; omega
    · simp at he; subst he; simp [St.ev]
  | step s s' i a hr hs ih =>
    have li := lists_reach hr
    obtain ⟨t, es, ht, hl, hsrc⟩ := evsSrc_step hs
    intro e he
    rw [threads_length_step hs]
    rw [hl] at he
    rcases List.mem_append.mp he with he | he
    · exact ih e he
    · rcases hsrc e he with ⟨h, _⟩ | ⟨_, _, h⟩ | ⟨_, _, h⟩ | ⟨_, _, h⟩
      · rw [h]; exact lt_length_of_getElem? ht
      · obtain ⟨t, h1, _⟩ := li.closers_thr _ h; exact lt_length_of_getElem? h1
      · obtain ⟨t, h1, _⟩ := li.q_thr _ h; exact lt_length_of_getElem? h1
      · obtain ⟨t, h1, _⟩ := li.s_thr _ h; exact lt_length_of_getElem? h1

theorem threads_reach {cap : Nat} {s : St} (h : Reach cap s) : ThreadsInv s := by
  induction h with
  | init => intro j t hj; simp [init] at hj
  | spawn s k hr ih => exact threads_spawn (ids_reach hr) ih
  | step s s' i a hr hs ih => exact threads_step hs (flags_reach hr) ih

end Shk.Stopper
