import ShkModel.Lemmas.StopperLog
/-! Agreement between each call's program counter and the log entries about it. -/
namespace Shk.Stopper

/-- what the log says about call `i` matches its program counter -/
structure TInv (l : List Ev) (i : Nat) (t : Thread) : Prop where
  call : ∃ e, callOf l i = some e ∧ e.c = t.kind.code ∧ (wasAccepted t = true → e.q = false)
  ret : has l .ret i = t.ret
  retv : ∀ v, hasV l .ret i v = true → v = retCode t.pc
  retable : t.ret = true → (retVal t.kind t.pc).isSome = true
  bs : has l .bodyStart i = started t
  be : has l .bodyEnd i = bodyDone t
  ws : has l .wStart i = wStarted t
  we : has l .wEnd i = wDone t

def ThreadsInv (s : St) : Prop := ∀ j t, s.threads[j]? = some t → TInv s.log j t

/-- entries that say nothing about call `j` as far as `TInv` is concerned -/
def Foreign (es : List Ev) (j : Nat) : Prop :=
  ∀ e ∈ es, e.id ≠ j ∨ e.k = .closer ∨ e.k = .cancelled ∨ e.k = .mark ∨ e.k = .fin

theorem has_foreign {es : List Ev} {j : Nat} (h : Foreign es j) (k : EK)
    (hk : k ≠ .closer ∧ k ≠ .cancelled ∧ k ≠ .mark ∧ k ≠ .fin) : has es k j = false := by
  apply Bool.eq_false_iff.mpr
  intro hh
  obtain ⟨e, he, hek, hid⟩ := exists_of_has hh
  rcases h e he with h | h | h | h | h
  · exact h hid
  · exact hk.1 (hek ▸ h)
  · exact hk.2.1 (hek ▸ h)
  · exact hk.2.2.1 (hek ▸ h)
  · exact hk.2.2.2 (hek ▸ h)

theorem hasV_foreign {es : List Ev} {j : Nat} (h : Foreign es j) (k : EK) (v : Nat)
    (hk : k ≠ .closer ∧ k ≠ .cancelled ∧ k ≠ .mark ∧ k ≠ .fin) : hasV es k j v = false := by
  apply Bool.eq_false_iff.mpr
  intro hh
  have := has_of_hasV hh
  rw [has_foreign h k hk] at this
  cases this

theorem tinv_frame {l es : List Ev} {j : Nat} {t : Thread} (h : TInv l j t) (hf : Foreign es j) :
    TInv (l ++ es) j t := by
  obtain ⟨⟨e, h1, h1'⟩, h2, h3, h4, h5, h6, h7, h8⟩ := h
  refine ⟨⟨e, callOf_append_of_some h1 es, h1'⟩, ?_, ?_, h4, ?_, ?_, ?_, ?_⟩
  · rw [has_append, has_foreign hf _ (by decide), h2]; simp
  · intro v hv
    rw [hasV_append, hasV_foreign hf _ _ (by decide)] at hv
    exact h3 v (by simpa using hv)
  · rw [has_append, has_foreign hf _ (by decide), h5]; simp
  · rw [has_append, has_foreign hf _ (by decide), h6]; simp
  · rw [has_append, has_foreign hf _ (by decide), h7]; simp
  · rw [has_append, has_foreign hf _ (by decide), h8]; simp

theorem foreign_nil (j : Nat) : Foreign [] j := by intro e he; cases he
theorem foreign_append {a b : List Ev} {j : Nat} (ha : Foreign a j) (hb : Foreign b j) : Foreign (a ++ b) j := by
  intro e he
  rcases List.mem_append.mp he with he | he
  · exact ha e he
  · exact hb e he
theorem foreign_single {e : Ev} {j : Nat} (h : e.id ≠ j ∨ e.k = .closer ∨ e.k = .cancelled ∨ e.k = .mark ∨ e.k = .fin) :
    Foreign [e] j := by
  intro e' he; simp at he; subst he; exact h
theorem foreign_map {ids : List Nat} {f : Nat → Ev} {j : Nat}
    (h : ∀ c, (f c).k = .closer ∨ (f c).k = .cancelled ∨ (f c).k = .mark ∨ (f c).k = .fin) : Foreign (ids.map f) j := by
  intro e he
  obtain ⟨c, _, rfl⟩ := List.mem_map.mp he
  exact Or.inr (h c)

/-- the entries appended by a step of call `i` are foreign to every other call -/
macro "foreign_finish" : tactic =>
  `(tactic| (
    try simp only [St.upd, St.quiesceEvs]
    repeat' (apply foreign_append)
    all_goals first
      | exact foreign_nil _
      | (apply foreign_single; simp [St.ev]; done)
      | (apply foreign_single; simp [St.ev]; assumption)
      | (apply foreign_map; intro c; simp [St.ev]; done)
      | (unfold St.cancelEvs; apply foreign_map; intro c; simp [St.ev]; done)
      | (split <;> first | exact foreign_nil _ | (apply foreign_single; simp [St.ev]; done))))

theorem foreign_go {s s' : St} {i j : Nat} {t : Thread} (h : goStep s i t = some s') (hj : j ≠ i) :
    ∃ es, s'.log = s.log ++ es ∧ Foreign es j := by
  obtain ⟨kind, pc, ret⟩ := t
  have hj' : ¬ i = j := fun e => hj e.symm
  go_cases h
  all_goals (refine ⟨_, rfl, ?_⟩; foreign_finish)

/-! entries made from the cancel lists say nothing of other kinds -/

theorem has_cancelMap (s : St) (ids : List Nat) (c : Nat) (k : EK) (i : Nat) (hk : k ≠ .cancelled) :
    has (s.cancelEvs ids c) k i = false :=
  has_map_other ids _ k .cancelled i (fun _ => rfl) (fun e => hk e.symm)

theorem hasV_cancelMap (s : St) (ids : List Nat) (c : Nat) (k : EK) (i v : Nat) (hk : k ≠ .cancelled) :
    hasV (s.cancelEvs ids c) k i v = false :=
  hasV_map_other ids _ k .cancelled i v (fun _ => rfl) (fun e => hk e.symm)

theorem has_quiesceEvs (s : St) (who : Nat) (k : EK) (i : Nat) (hk : k ≠ .cancelled) (hm : k ≠ .mark) :
    has (s.quiesceEvs who) k i = false := by
  unfold St.quiesceEvs
  rw [has_append, has_cancelMap s _ _ k i hk]
  split
  · rfl
  · simp [St.ev]; intro h; exact absurd h.symm hm

theorem hasV_quiesceEvs (s : St) (who : Nat) (k : EK) (i v : Nat) (hk : k ≠ .cancelled) (hm : k ≠ .mark) :
    hasV (s.quiesceEvs who) k i v = false := by
  apply Bool.eq_false_iff.mpr
  intro hh
  have := has_of_hasV hh
  rw [has_quiesceEvs s who k i hk hm] at this
  cases this

macro "tinv_finish" : tactic =>
  `(tactic| (
    simp_all [has_quiesceEvs, hasV_quiesceEvs, has_cancelMap, hasV_cancelMap, St.ev, started, bodyDone, wStarted, wDone,
      wasAccepted, retCode, retVal, Kind.isTask]))

theorem tinv_own_go {s s' : St} {i : Nat} {t : Thread} (h : goStep s i t = some s')
    (ih : TInv s.log i t) (fl : FlagsInv s) : ∃ t', s'.threads = s.threads.set i t' ∧ TInv s'.log i t' := by
  obtain ⟨⟨e, h1, h1c, h1q⟩, h2, h3, h4, h5, h6, h7, h8⟩ := ih
  have hq : e.q = true → s.quiescing = true := (fl e (callOf_mem h1).1).1
  have hv0 : has s.log .ret i = false → ∀ v, hasV s.log .ret i v = false := by
    intro h0 v
    apply Bool.eq_false_iff.mpr
    intro hh
    rw [has_of_hasV hh] at h0; cases h0
  obtain ⟨kind, pc, ret⟩ := t
  go_cases h
  all_goals (
    refine ⟨_, rfl, ?_⟩
    simp only [St.upd]
    refine ⟨⟨e, callOf_append_of_some h1 _, ?_, ?_⟩, ?_, ?_, ?_, ?_, ?_, ?_, ?_⟩)
  all_goals (first
    | assumption
    | (simp [*, has_quiesceEvs, hasV_quiesceEvs, has_cancelMap, hasV_cancelMap, St.ev, started, bodyDone, wStarted, wDone,
        wasAccepted, retCode, retVal, Kind.isTask]; done)
    | (simp [*, has_quiesceEvs, hasV_quiesceEvs, has_cancelMap, hasV_cancelMap, St.ev, started, bodyDone, wStarted, wDone,
        wasAccepted, retCode, retVal, Kind.isTask]; decide)
    | (intro v hv
       simp [has_quiesceEvs, hasV_quiesceEvs, has_cancelMap, hasV_cancelMap, St.ev, retCode] at hv ⊢
       have h3' := h3 v hv
       simp [retCode] at h3'
       first | exact h3' | (simp_all [retVal]; done))
    | tinv_finish)

theorem retVal_code {k : Kind} {pc : Pc} {v : Nat} (h : retVal k pc = some v) : v = retCode pc := by
  cases k with
  | ltask w => cases w <;> cases pc <;> simp [retVal, retCode] at h ⊢ <;> omega
  | _ => cases pc <;> simp [retVal, retCode] at h ⊢ <;> omega

theorem hasV_false_of_has {l : List Ev} {k : EK} {i : Nat} (h : has l k i = false) (v : Nat) : hasV l k i v = false := by
  apply Bool.eq_false_iff.mpr
  intro hh
  rw [has_of_hasV hh] at h; cases h

theorem has_single_other {e : Ev} {k : EK} {i : Nat} (h : e.k ≠ k) : has [e] k i = false := by
  simp [has]; intro hk; exact absurd hk h

theorem tinv_own_ret {s : St} {i : Nat} {t : Thread} {v : Nat} (hr : t.ret = false) (hv : retVal t.kind t.pc = some v)
    (ih : TInv s.log i t) : TInv (s.log ++ [s.ev .ret i t.kind.code v]) i { t with ret := true } := by
  obtain ⟨⟨e, h1, h1c, h1q⟩, h2, h3, h4, h5, h6, h7, h8⟩ := ih
  rw [hr] at h2
  refine ⟨⟨e, callOf_append_of_some h1 _, h1c, h1q⟩, ?_, ?_, ?_, ?_, ?_, ?_, ?_⟩
  · simp [St.ev]
  · intro v' hv'
    simp [St.ev, hasV_false_of_has h2] at hv'
    rw [← hv']; exact retVal_code hv
  · intro _; simp [hv]
  · rw [has_append, has_single_other (by simp [St.ev]), Bool.or_false]; exact h5
  · rw [has_append, has_single_other (by simp [St.ev]), Bool.or_false]; exact h6
  · rw [has_append, has_single_other (by simp [St.ev]), Bool.or_false]; exact h7
  · rw [has_append, has_single_other (by simp [St.ev]), Bool.or_false]; exact h8

theorem tinv_own_alt {s s' : St} {i : Nat} {t : Thread} (h : altStep s i t = some s')
    (ih : TInv s.log i t) : ∃ t', s'.threads = s.threads.set i t' ∧ TInv s'.log i t' := by
  obtain ⟨⟨e, h1, h1c, h1q⟩, h2, h3, h4, h5, h6, h7, h8⟩ := ih
  have hv0 : has s.log .ret i = false → ∀ v, hasV s.log .ret i v = false := fun h0 v => hasV_false_of_has h0 v
  obtain ⟨kind, pc, ret⟩ := t
  alt_cases h
  all_goals (
    refine ⟨_, rfl, ?_⟩
    simp only [St.upd]
    refine ⟨⟨e, callOf_append_of_some h1 _, ?_, ?_⟩, ?_, ?_, ?_, ?_, ?_, ?_, ?_⟩)
  all_goals (first
    | assumption
    | (simp [*, St.ev, started, bodyDone, wStarted, wDone, wasAccepted, retCode, retVal, Kind.isTask]; done)
    | (simp [*, St.ev, started, bodyDone, wStarted, wDone, wasAccepted, retCode, retVal, Kind.isTask]; decide)
    | (intro v hv
       simp [St.ev, retCode] at hv ⊢
       have h3' := h3 v hv
       simp [retCode] at h3'
       first | exact h3' | (simp_all [retVal]; done))
    | tinv_finish)

theorem foreign_alt {s s' : St} {i j : Nat} {t : Thread} (h : altStep s i t = some s') (hj : j ≠ i) :
    ∃ es, s'.log = s.log ++ es ∧ Foreign es j := by
  obtain ⟨kind, pc, ret⟩ := t
  have hj' : ¬ i = j := fun e => hj e.symm
  alt_cases h
  all_goals (refine ⟨_, rfl, ?_⟩; foreign_finish)

theorem threads_step {s s' : St} {i : Nat} {a : Act} (h : step s i a = some s') (fl : FlagsInv s)
    (ih : ThreadsInv s) : ThreadsInv s' := by
  obtain ⟨t, ht, ⟨_, hg⟩ | ⟨_, hg⟩ | ⟨_, hg⟩⟩ := step_elim h
  · obtain ⟨t', hthr, hown⟩ := tinv_own_go hg (ih i t ht) fl
    intro j tj hj
    rw [hthr] at hj
    rcases getElem?_set_cases _ _ _ _ _ hj with ⟨rfl, rfl, _⟩ | ⟨hne, hj⟩
    · exact hown
    · obtain ⟨es, hl, hf⟩ := foreign_go hg hne
      rw [hl]; exact tinv_frame (ih j tj hj) hf
  · obtain ⟨v, hr, hv, rfl⟩ := retStep_elim hg
    intro j tj hj
    simp only [St.upd] at hj ⊢
    rcases getElem?_set_cases _ _ _ _ _ hj with ⟨rfl, rfl, _⟩ | ⟨hne, hj⟩
    · exact tinv_own_ret hr hv (ih j t ht)
    · refine tinv_frame (ih j tj hj) (foreign_single (Or.inl ?_))
      simp [St.ev]; exact fun e => hne e.symm
  · obtain ⟨t', hthr, hown⟩ := tinv_own_alt hg (ih i t ht)
    intro j tj hj
    rw [hthr] at hj
    rcases getElem?_set_cases _ _ _ _ _ hj with ⟨rfl, rfl, _⟩ | ⟨hne, hj⟩
    · exact hown
    · obtain ⟨es, hl, hf⟩ := foreign_alt hg hne
      rw [hl]; exact tinv_frame (ih j tj hj) hf

/-- every `call` entry is about an existing call: needed to see that a new call's number is fresh -/
def IdsInv (s : St) : Prop := ∀ e ∈ s.log, e.id < s.threads.length

theorem threads_spawn {s : St} {k : Kind} (ids : IdsInv s) (ih : ThreadsInv s) : ThreadsInv (spawn s k) := by
  intro j tj hj
  simp only [spawn] at hj ⊢
  by_cases hlt : j < s.threads.length
  · rw [List.getElem?_append_left hlt] at hj
    refine tinv_frame (ih j tj hj) (foreign_single (Or.inl ?_))
    simp [St.ev]; omega
  · have hnc : has s.log .call j = false := by
      apply Bool.eq_false_iff.mpr
      intro hh
      obtain ⟨e, he, _, hid⟩ := exists_of_has hh
      have := ids e he
      omega
    have hno : ∀ k', has s.log k' j = false := by
      intro k'
      apply Bool.eq_false_iff.mpr
      intro hh
      obtain ⟨e, he, _, hid⟩ := exists_of_has hh
      have := ids e he
      omega
    rw [List.getElem?_append_right (by omega)] at hj
    have hj0 : j = s.threads.length := by
      by_cases h0 : j - s.threads.length = 0
      · omega
      · have : ([({ kind := k } : Thread)])[j - s.threads.length]? = none := by
          apply List.getElem?_eq_none; simp; omega
        rw [this] at hj; cases hj
    subst hj0
    simp at hj; subst hj
    refine ⟨⟨s.ev .call s.threads.length k.code 0, ?_, rfl, by simp [wasAccepted]⟩, ?_, ?_, by simp, ?_, ?_, ?_, ?_⟩
    · rw [callOf_append_of_none (callOf_none_of_not_has hnc)]
      simp [callOf, St.ev]
    · simp [hno, St.ev]
    · intro v hv
      simp [hasV_false_of_has (hno _), St.ev] at hv
    · simp [hno, St.ev, started]
    · simp [hno, St.ev, bodyDone]
    · simp [hno, St.ev, wStarted]
    · simp [hno, St.ev, wDone]

end Shk.Stopper
