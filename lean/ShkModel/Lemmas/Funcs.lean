import ShkModel.Lemmas.Collect
/-!
# The array functions against their specification (helper lemmas for C11)
-/
namespace Shk.Funcs
open Shk Shk.FuncSpec Shk.Sort Shk.Collect

/-! ## the boolean specification predicates mean what they say -/

theorem isSortedAsc_iff (l : List Rat) : isSortedAsc l = true ↔ l.Pairwise (· ≤ ·) := by
  induction l with
  | nil => simp [isSortedAsc]
  | cons a t ih =>
    cases t with
    | nil => simp [isSortedAsc]
    | cons b r =>
      simp only [isSortedAsc, Bool.and_eq_true, decide_eq_true_eq, ih]
      constructor
      · rintro ⟨hab, hp⟩
        refine List.Pairwise.cons ?_ hp
        intro x hx
        rcases List.mem_cons.1 hx with rfl | hx
        · exact hab
        · exact Rat.le_trans hab (List.rel_of_pairwise_cons hp hx)
      · intro hp
        exact ⟨List.rel_of_pairwise_cons hp (by simp), hp.tail⟩

theorem perm_of_count {a b : List Rat} (hl : a.length = b.length)
    (hc : ∀ x ∈ a, a.count x = b.count x) : a.Perm b := by
  induction a generalizing b with
  | nil =>
    have : b = [] := List.length_eq_zero_iff.1 (by simpa using hl.symm)
    subst this; exact .refl _
  | cons x a ih =>
    have hx : x ∈ b := by
      have := hc x (by simp)
      rw [List.count_cons_self] at this
      exact List.count_pos_iff.1 (by omega)
    have hb : b.Perm (x :: b.erase x) := List.perm_cons_erase hx
    refine (List.Perm.cons x (ih ?_ ?_)).trans hb.symm
    · have := hb.length_eq; simp at this hl; omega
    · intro y hy
      have h1 := hc y (by simp [hy])
      by_cases hyx : y = x
      · subst hyx
        rw [List.count_cons_self] at h1
        rw [List.count_erase_self]; omega
      · rw [List.count_cons_of_ne (Ne.symm hyx)] at h1
        rw [List.count_erase_of_ne hyx]; exact h1

theorem sameElems_iff (a b : List Rat) : sameElems a b = true ↔ a.Perm b := by
  constructor
  · intro h
    simp only [sameElems, Bool.and_eq_true, beq_iff_eq, List.all_eq_true] at h
    exact perm_of_count h.1 h.2
  · intro h
    simp only [sameElems, Bool.and_eq_true, beq_iff_eq, List.all_eq_true]
    exact ⟨h.length_eq, fun x _ => h.count_eq x⟩

/-! ## `numsOf` -/

theorem numsOf_def (l : List Sc) : numsOf l = (nonNil l).mapM Sc.numOf := rfl

@[simp] theorem numsOf_nil : numsOf [] = some [] := rfl

theorem numsOf_cons_nil (l : List Sc) : numsOf (Sc.nil :: l) = numsOf l := by
  simp [numsOf, nonNil_cons_nil]

theorem numsOf_cons_str (s : String) (l : List Sc) : numsOf (Sc.str s :: l) = none := by
  simp [numsOf, nonNil_cons (x := .str s) (by simp), Sc.numOf]

theorem numsOf_cons_num {x : Sc} {v : Rat} (h : x.numOf = some v) (l : List Sc) :
    numsOf (x :: l) = (numsOf l).map (v :: ·) := by
  have hx : x ≠ .nil := by intro e; subst e; simp [Sc.numOf] at h
  simp only [numsOf, nonNil_cons hx, List.mapM_cons, h]
  cases List.mapM Sc.numOf (nonNil l) <;> rfl

theorem numOf_cases (x : Sc) : x = .nil ∨ (∃ s, x = .str s) ∨ ∃ v, x.numOf = some v := by
  cases x <;> simp [Sc.numOf]

/-- the numeric view of the elements, when it exists, has one entry per non-nil element -/
theorem numsOf_length {l : List Sc} {ns : List Rat} (h : numsOf l = some ns) :
    ns.length = (nonNil l).length := by
  induction l generalizing ns with
  | nil => simp at h; subst h; rfl
  | cons x l ih =>
    rcases numOf_cases x with rfl | ⟨s, rfl⟩ | ⟨v, hv⟩
    · rw [numsOf_cons_nil] at h; rw [nonNil_cons_nil]; exact ih h
    · rw [numsOf_cons_str] at h; cases h
    · have hx : x ≠ .nil := by intro e; subst e; simp [Sc.numOf] at hv
      rw [numsOf_cons_num hv] at h
      cases hl : numsOf l with
      | none => simp [hl] at h
      | some ns' => simp [hl] at h; subst h; simp [nonNil_cons hx, ih hl]

theorem numsOf_eq_numsOfAll {l : List Sc} {ns : List Rat} (h : numsOf l = some ns) :
    numsOfAll l = ns := by
  induction l generalizing ns with
  | nil => simp at h; subst h; rfl
  | cons x l ih =>
    rcases numOf_cases x with rfl | ⟨s, rfl⟩ | ⟨v, hv⟩
    · rw [numsOf_cons_nil] at h; simpa [numsOfAll, nonNil_cons_nil] using ih h
    · rw [numsOf_cons_str] at h; cases h
    · have hx : x ≠ .nil := by intro e; subst e; simp [Sc.numOf] at hv
      rw [numsOf_cons_num hv] at h
      cases hl : numsOf l with
      | none => simp [hl] at h
      | some ns' =>
        simp [hl] at h; subst h
        have := ih hl
        simp only [numsOfAll] at this ⊢
        simp [nonNil_cons hx, hv, this]

/-- `numsOf` succeeds exactly on the string-free lists -/
theorem numsOf_isSome_iff (l : List Sc) : (numsOf l).isSome = true ↔ ∀ x ∈ l, Sc.isStr x = false := by
  induction l with
  | nil => simp
  | cons x l ih =>
    rcases numOf_cases x with rfl | ⟨s, rfl⟩ | ⟨v, hv⟩
    · rw [numsOf_cons_nil, ih]; simp [Sc.isStr]
    · rw [numsOf_cons_str]; simp [Sc.isStr]
    · rw [numsOf_cons_num hv, Option.isSome_map, ih]
      have : Sc.isStr x = false := by cases x <;> simp_all [Sc.isStr, Sc.numOf]
      simp [this]

/-! ## sum -/

theorem foldl_add (a : Rat) (l : List Rat) : l.foldl (· + ·) a = a + l.foldr (· + ·) 0 := by
  induction l generalizing a with
  | nil => simp [Rat.add_zero]
  | cons x l ih => simp only [List.foldl_cons, List.foldr_cons, ih, Rat.add_assoc]

theorem ratSum_eq (l : List Rat) : ratSum l = l.foldr (· + ·) 0 := by
  rw [ratSum, foldl_add, Rat.zero_add]

/-! ## min / max -/

theorem foldl_min_mem (n : Rat) (l : List Rat) : l.foldl min n ∈ n :: l := by
  induction l generalizing n with
  | nil => simp
  | cons x l ih =>
    have := ih (min n x)
    simp only [List.foldl_cons, List.mem_cons] at this ⊢
    rcases this with h | h
    · rw [h, Rat.min_def]; split <;> simp
    · exact .inr (.inr h)

theorem foldl_min_le_init (n : Rat) (l : List Rat) : l.foldl min n ≤ n := by
  induction l generalizing n with
  | nil => exact Rat.le_refl
  | cons x l ih =>
    refine Rat.le_trans (ih (min n x)) ?_
    rw [Rat.min_def]; split
    · exact Rat.le_refl
    · rename_i h; exact Rat.le_of_lt (Rat.not_le.1 h)

theorem foldl_min_le (n : Rat) (l : List Rat) : ∀ x ∈ n :: l, l.foldl min n ≤ x := by
  induction l generalizing n with
  | nil => simp
  | cons y l ih =>
    intro x hx
    simp only [List.foldl_cons]
    have hmn : min n y ≤ n ∧ min n y ≤ y := by
      rw [Rat.min_def]; split
      · rename_i h; exact ⟨Rat.le_refl, h⟩
      · rename_i h; exact ⟨Rat.le_of_lt (Rat.not_le.1 h), Rat.le_refl⟩
    simp only [List.mem_cons] at hx
    rcases hx with rfl | rfl | hx
    · exact Rat.le_trans (foldl_min_le_init _ l) hmn.1
    · exact Rat.le_trans (foldl_min_le_init _ l) hmn.2
    · exact ih _ x (by simp [hx])

theorem foldl_max_mem (n : Rat) (l : List Rat) : l.foldl max n ∈ n :: l := by
  induction l generalizing n with
  | nil => simp
  | cons x l ih =>
    have := ih (max n x)
    simp only [List.foldl_cons, List.mem_cons] at this ⊢
    rcases this with h | h
    · rw [h, Rat.max_def]; split <;> simp
    · exact .inr (.inr h)

theorem foldl_max_ge_init (n : Rat) (l : List Rat) : n ≤ l.foldl max n := by
  induction l generalizing n with
  | nil => exact Rat.le_refl
  | cons x l ih =>
    refine Rat.le_trans ?_ (ih (max n x))
    rw [Rat.max_def]; split
    · assumption
    · exact Rat.le_refl

theorem foldl_max_ge (n : Rat) (l : List Rat) : ∀ x ∈ n :: l, x ≤ l.foldl max n := by
  induction l generalizing n with
  | nil => simp
  | cons y l ih =>
    intro x hx
    simp only [List.foldl_cons]
    have hmn : n ≤ max n y ∧ y ≤ max n y := by
      rw [Rat.max_def]; split
      · rename_i h; exact ⟨h, Rat.le_refl⟩
      · rename_i h; exact ⟨Rat.le_refl, Rat.le_of_lt (Rat.not_le.1 h)⟩
    simp only [List.mem_cons] at hx
    rcases hx with rfl | rfl | hx
    · exact Rat.le_trans hmn.1 (foldl_max_ge_init _ l)
    · exact Rat.le_trans hmn.2 (foldl_max_ge_init _ l)
    · exact ih _ x (by simp [hx])

/-! ## median -/

/-- what `callFn "med"` computes from the sorted list -/
def medOf (s : List Rat) : Rat :=
  if s.length % 2 == 1 then s.getD ((s.length - 1) / 2) 0
  else (s.getD (s.length / 2 - 1) 0 + s.getD (s.length / 2) 0) / 2

theorem isMedian_medOf (ns : List Rat) (h : ns ≠ []) : isMedian (medOf (sortAsc ns)) ns = true := by
  have hlen : 0 < (sortAsc ns).length := by
    rw [sortAsc_length]; exact List.length_pos_iff.2 h
  simp only [isMedian, medOf]
  generalize sortAsc ns = s at hlen
  by_cases hp : s.length % 2 = 1
  · have hb : (s.length - 1) / 2 < s.length := by omega
    simp [hp, List.getD_eq_getElem?_getD, List.getElem?_eq_getElem hb]
  · have hb1 : s.length / 2 - 1 < s.length := by omega
    have hb2 : s.length / 2 < s.length := by omega
    simp [hp, List.getD_eq_getElem?_getD, List.getElem?_eq_getElem hb1, List.getElem?_eq_getElem hb2]

/-! ## sorted -/

theorem rank_of_numOf {x : Sc} {v : Rat} (h : x.numOf = some v) : x.rank = 1 := by
  cases x <;> simp_all [Sc.numOf, Sc.rank]

theorem scLess_num {x y : Sc} {a b : Rat} (hx : x.numOf = some a) (hy : y.numOf = some b) :
    scLess x y = decide (a < b) := by
  simp [scLess, rank_of_numOf hx, rank_of_numOf hy, hx, hy]

theorem scLess_nil_right (y : Sc) : scLess y .nil = false := by
  cases y <;> simp [scLess, Sc.rank, Sc.numOf]

theorem scLess_nil_left {x : Sc} {v : Rat} (hx : x.numOf = some v) : scLess .nil x = true := by
  cases x <;> simp_all [scLess, Sc.rank, Sc.numOf]

theorem scLess_str_left (s : String) {x : Sc} {v : Rat} (hx : x.numOf = some v) :
    scLess (.str s) x = false := by
  cases x <;> simp_all [scLess, Sc.rank, Sc.numOf]

theorem insertSc_nil (l : List Sc) : insertSc .nil l = .nil :: l := by
  cases l with
  | nil => rfl
  | cons y ys => simp [insertSc, scLess_nil_right]

/-- on the numeric view, `insertSc` is `insertAsc` -/
theorem numsOf_insertSc {x : Sc} {v : Rat} (hx : x.numOf = some v) (l : List Sc) :
    numsOf (insertSc x l) = (numsOf l).map (insertAsc v) := by
  induction l with
  | nil => simp [insertSc, numsOf_cons_num hx, insertAsc]
  | cons y ys ih =>
    rcases numOf_cases y with rfl | ⟨s, rfl⟩ | ⟨w, hw⟩
    · simp [insertSc, scLess_nil_left hx, numsOf_cons_nil, ih]
    · simp [insertSc, scLess_str_left s hx, numsOf_cons_str, numsOf_cons_num hx]
    · simp only [insertSc, scLess_num hw hx, decide_eq_true_eq]
      split
      · rename_i hlt
        rw [numsOf_cons_num hw, ih, numsOf_cons_num hw]
        cases numsOf ys with
        | none => rfl
        | some t => simp [insertAsc, Rat.not_le.2 hlt]
      · rename_i hlt
        rw [numsOf_cons_num hx, numsOf_cons_num hw]
        cases numsOf ys with
        | none => rfl
        | some t => simp [insertAsc, Rat.not_lt.1 hlt]

theorem sortSc_cons (x : Sc) (l : List Sc) : sortSc (x :: l) = insertSc x (sortSc l) := rfl

/-- on string-free input the numeric view of `sorted` is the ascending sort of the numeric view -/
theorem numsOf_sortSc {l : List Sc} {ns : List Rat} (h : numsOf l = some ns) :
    numsOf (sortSc l) = some (sortAsc ns) := by
  induction l generalizing ns with
  | nil => simp at h; subst h; rfl
  | cons x l ih =>
    rcases numOf_cases x with rfl | ⟨s, rfl⟩ | ⟨v, hv⟩
    · rw [numsOf_cons_nil] at h; rw [sortSc_cons, insertSc_nil, numsOf_cons_nil]; exact ih h
    · rw [numsOf_cons_str] at h; cases h
    · rw [numsOf_cons_num hv] at h
      cases hl : numsOf l with
      | none => simp [hl] at h
      | some ns' =>
        simp [hl] at h; subst h
        rw [sortSc_cons, numsOf_insertSc hv, ih hl]; rfl

theorem insertSc_perm (x : Sc) (l : List Sc) : (insertSc x l).Perm (x :: l) := by
  induction l with
  | nil => simp [insertSc]
  | cons y ys ih =>
    simp only [insertSc]; split
    · exact (List.Perm.cons y ih).trans (List.Perm.swap x y ys)
    · exact .refl _

/-- `sorted` returns a permutation of its arguments (nils and strings included) -/
theorem sortSc_perm (l : List Sc) : (sortSc l).Perm l := by
  induction l with
  | nil => exact .refl _
  | cons x xs ih => rw [sortSc_cons]; exact (insertSc_perm x _).trans (ih.cons x)

end Shk.Funcs
