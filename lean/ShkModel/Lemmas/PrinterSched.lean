import ShkModel.Lemmas.PrinterBasic
/-! Helper lemmas for C10, part 2: the order in which `printCfg` emits the audience clauses
(`sched`) as a sequence of single emissions, each of which is allowed at its time. -/
set_option linter.unusedSimpArgs false
set_option linter.unusedVariables false
namespace Shk.Printer

/-- One clause is printed: it belongs to a member all of whose predecessors have been
mentioned, it is the first of the member's auditor clauses or any of its other clauses, and the
variables it uses are defined. -/
inductive Emits : List String → List Pend → String → AClause → List String → List Pend → Prop
  | chain (undef : List String) (pre : List Pend) (p : Pend) (post : List Pend) (c : AClause)
      (rest : List AClause) :
      (∀ q ∈ pre, q.mentioned = true) → p.chain = c :: rest → ready undef c = true →
      Emits undef (pre ++ p :: post) p.name c (afterPrint undef c)
        (pre ++ ⟨p.name, rest, p.free, true⟩ :: post)
  | free (undef : List String) (pre : List Pend) (p : Pend) (post : List Pend) (f1 : List AClause)
      (c : AClause) (f2 : List AClause) :
      (∀ q ∈ pre, q.mentioned = true) → p.free = f1 ++ c :: f2 → ready undef c = true →
      defines c = none →
      Emits undef (pre ++ p :: post) p.name c undef
        (pre ++ ⟨p.name, p.chain, f1 ++ f2, true⟩ :: post)

/-- a sequence of emissions -/
inductive Run : List String → List Pend → List (String × AClause) → List String → List Pend → Prop
  | nil (u : List String) (ps : List Pend) : Run u ps [] u ps
  | cons {u ps n c u1 ps1 o u2 ps2} : Emits u ps n c u1 ps1 → Run u1 ps1 o u2 ps2 →
      Run u ps ((n, c) :: o) u2 ps2

theorem Run.append {u ps o1 u1 ps1 o2 u2 ps2} (h1 : Run u ps o1 u1 ps1) (h2 : Run u1 ps1 o2 u2 ps2) :
    Run u ps (o1 ++ o2) u2 ps2 := by
  induction h1 with
  | nil => exact h2
  | cons he _ ih => exact Run.cons he (ih h2)

theorem Run.single {u ps n c u1 ps1} (h : Emits u ps n c u1 ps1) : Run u ps [(n, c)] u1 ps1 :=
  Run.cons h (Run.nil _ _)

/-! ### `takeChain` -/

theorem takeChain_run (pre post : List Pend) (hpre : ∀ q ∈ pre, q.mentioned = true)
    (n : String) (fr : List AClause) :
    ∀ (ch : List AClause) (undef : List String) (b : Bool),
      Run undef (pre ++ ⟨n, ch, fr, b⟩ :: post)
        ((takeChain undef ch).1.map fun c => (n, c))
        (takeChain undef ch).2.2
        (pre ++ ⟨n, (takeChain undef ch).2.1, fr, b || !(takeChain undef ch).1.isEmpty⟩ :: post) := by
  intro ch
  induction ch with
  | nil => intro undef b; simp [takeChain]; exact Run.nil _ _
  | cons c cs ih =>
    intro undef b
    by_cases hr : ready undef c = true
    · have h1 := Emits.chain undef pre ⟨n, c :: cs, fr, b⟩ post c cs hpre rfl hr
      have h2 := ih (afterPrint undef c) true
      simp only [takeChain, hr, if_true]
      simp only [List.map_cons, List.isEmpty_cons, Bool.not_false, Bool.or_true]
      simp only [Bool.true_or] at h2
      exact Run.cons h1 h2
    · simp only [takeChain, hr]
      simp
      exact Run.nil _ _

/-! ### the other clauses of a member -/

theorem free_run (pre post : List Pend) (hpre : ∀ q ∈ pre, q.mentioned = true)
    (n : String) (ch : List AClause) (u : List String) :
    ∀ (todo done : List AClause) (b : Bool), (∀ c ∈ todo, defines c = none) →
      Run u (pre ++ ⟨n, ch, done ++ todo, b⟩ :: post)
        ((todo.filter (ready u)).map fun c => (n, c)) u
        (pre ++ ⟨n, ch, done ++ todo.filter (fun c => !ready u c),
                 b || !(todo.filter (ready u)).isEmpty⟩ :: post) := by
  intro todo
  induction todo with
  | nil => intro done b _; simp; exact Run.nil _ _
  | cons c cs ih =>
    intro done b hd
    have hdc : defines c = none := hd c List.mem_cons_self
    have hd' : ∀ x ∈ cs, defines x = none := fun x hx => hd x (List.mem_cons_of_mem _ hx)
    by_cases hr : ready u c = true
    · have h1 := Emits.free u pre ⟨n, ch, done ++ c :: cs, b⟩ post done c cs hpre rfl hr hdc
      have h2 := ih done true hd'
      simp only [List.filter_cons, hr, if_true, List.map_cons, Bool.not_true, List.isEmpty_cons,
        Bool.not_false, Bool.or_true]
      simp only [Bool.true_or] at h2
      simp only [Bool.false_eq_true, if_false]
      exact Run.cons h1 h2
    · have hr' : ready u c = false := by simpa using hr
      have h2 := ih (done ++ [c]) b hd'
      simp only [List.append_assoc, List.singleton_append] at h2
      simp only [List.filter_cons, hr', Bool.false_eq_true, if_false, Bool.not_false, if_true]
      exact h2

/-! ### one member's turn, one pass -/

theorem visit_run (pre post : List Pend) (hpre : ∀ q ∈ pre, q.mentioned = true)
    (undef : List String) (m : Pend) (hfree : ∀ c ∈ m.free, defines c = none) :
    Run undef (pre ++ m :: post) ((visit undef m).1.map fun c => (m.name, c)) (visit undef m).2.2
      (pre ++ (visit undef m).2.1 :: post) := by
  obtain ⟨n, ch, fr, b⟩ := m
  have h1 := takeChain_run pre post hpre n fr ch undef b
  have h2 := free_run pre post hpre n (takeChain undef ch).2.1 (takeChain undef ch).2.2 fr []
    (b || !(takeChain undef ch).1.isEmpty) hfree
  have h := Run.append h1 h2
  simp only [List.nil_append] at h
  simp only [visit, List.map_append]
  have hflag : (b || !(takeChain undef ch).1.isEmpty ||
        !(List.filter (ready (takeChain undef ch).2.2) fr).isEmpty) =
      (b || !((takeChain undef ch).1 ++ List.filter (ready (takeChain undef ch).2.2) fr).isEmpty) := by
    cases b <;> cases (takeChain undef ch).1 <;> simp
  rw [hflag] at h
  exact h

theorem visit_name (undef : List String) (m : Pend) : (visit undef m).2.1.name = m.name := rfl

theorem visit_free_defines (undef : List String) (m : Pend) (hfree : ∀ c ∈ m.free, defines c = none) :
    ∀ c ∈ (visit undef m).2.1.free, defines c = none := by
  intro c hc
  simp only [visit] at hc
  exact hfree c (List.mem_filter.mp hc).1

theorem sweep_run : ∀ (ps : List Pend) (pre : List Pend) (undef : List String),
    (∀ q ∈ pre, q.mentioned = true) → (∀ p ∈ ps, ∀ c ∈ p.free, defines c = none) →
    Run undef (pre ++ ps) (sweep undef ps).1 (sweep undef ps).2.2 (pre ++ (sweep undef ps).2.1) := by
  intro ps
  induction ps with
  | nil => intro pre undef _ _; simp [sweep]; exact Run.nil _ _
  | cons m ms ih =>
    intro pre undef hpre hfree
    have hv := visit_run pre ms hpre undef m (hfree m List.mem_cons_self)
    simp only [sweep]
    by_cases hm : (visit undef m).2.1.mentioned = true
    · simp only [hm, Bool.not_true, Bool.false_eq_true, if_false]
      have hpre' : ∀ q ∈ pre ++ [(visit undef m).2.1], q.mentioned = true := by
        intro q hq
        rcases List.mem_append.mp hq with hq | hq
        · exact hpre q hq
        · simp only [List.mem_singleton] at hq; rw [hq]; exact hm
      have h2 := ih (pre ++ [(visit undef m).2.1]) (visit undef m).2.2 hpre'
        (fun p hp => hfree p (List.mem_cons_of_mem _ hp))
      simp only [List.append_assoc, List.singleton_append] at h2
      exact Run.append hv h2
    · have hm' : (visit undef m).2.1.mentioned = false := by simpa using hm
      simp only [hm', Bool.not_false, if_true]
      exact Run.nil _ _

/-! ### the loop -/

def FreeOk (ps : List Pend) : Prop := ∀ p ∈ ps, ∀ c ∈ p.free, defines c = none

theorem Emits.freeOk {u ps n c u1 ps1} (h : Emits u ps n c u1 ps1) (hf : FreeOk ps) : FreeOk ps1 := by
  cases h with
  | chain pre p post c rest hpre hc hr =>
    intro q hq x hx
    rcases List.mem_append.mp hq with hq | hq
    · exact hf q (List.mem_append_left _ hq) x hx
    · rcases List.mem_cons.mp hq with rfl | hq
      · exact hf p (List.mem_append_right _ List.mem_cons_self) x hx
      · exact hf q (List.mem_append_right _ (List.mem_cons_of_mem _ hq)) x hx
  | free pre p post f1 c f2 hpre hc hr hd =>
    intro q hq x hx
    rcases List.mem_append.mp hq with hq | hq
    · exact hf q (List.mem_append_left _ hq) x hx
    · rcases List.mem_cons.mp hq with rfl | hq
      · refine hf p (List.mem_append_right _ List.mem_cons_self) x ?_
        rw [hc]
        simp only [List.mem_append, List.mem_cons] at hx ⊢
        rcases hx with hx | hx
        · exact Or.inl hx
        · exact Or.inr (Or.inr hx)
      · exact hf q (List.mem_append_right _ (List.mem_cons_of_mem _ hq)) x hx

theorem Run.freeOk {u ps o u1 ps1} (h : Run u ps o u1 ps1) (hf : FreeOk ps) : FreeOk ps1 := by
  induction h with
  | nil => exact hf
  | cons he _ ih => exact ih (he.freeOk hf)

theorem leftover_append (a b : List Pend) : leftover (a ++ b) = leftover a ++ leftover b := by
  simp [leftover, List.flatMap_append]

theorem leftover_cons (p : Pend) (b : List Pend) :
    leftover (p :: b) = (p.chain ++ p.free).map (fun c => (p.name, c)) ++ leftover b := by
  simp [leftover, List.flatMap_cons]

theorem Emits.count {u ps n c u1 ps1} (h : Emits u ps n c u1 ps1) :
    clauseCount ps = clauseCount ps1 + 1 := by
  cases h with
  | chain pre p post c rest hpre hc hr =>
    simp only [clauseCount, leftover_append, leftover_cons, List.length_append, List.length_map, hc,
      List.length_cons]
    omega
  | free pre p post f1 c f2 hpre hc hr hd =>
    simp only [clauseCount, leftover_append, leftover_cons, List.length_append, List.length_map, hc,
      List.length_cons]
    omega

theorem Run.count {u ps o u1 ps1} (h : Run u ps o u1 ps1) :
    clauseCount ps = clauseCount ps1 + o.length := by
  induction h with
  | nil => simp
  | cons he _ ih => rw [he.count, ih]; simp; omega

theorem Run.nil_inv {u ps u1 ps1} (h : Run u ps [] u1 ps1) : u1 = u ∧ ps1 = ps := by
  cases h; exact ⟨rfl, rfl⟩

theorem sweep_run0 (undef : List String) (ps : List Pend) (hf : FreeOk ps) :
    Run undef ps (sweep undef ps).1 (sweep undef ps).2.2 (sweep undef ps).2.1 := by
  have := sweep_run ps [] undef (by simp) hf
  simpa using this

/-- with enough fuel the loop is a sequence of allowed emissions that ends where a pass prints
nothing; what is left there is appended as it is -/
theorem schedLoop_spec : ∀ (fuel : Nat) (undef : List String) (ps : List Pend), FreeOk ps →
    clauseCount ps < fuel →
    ∃ o1 u' ps', schedLoop fuel undef ps = o1 ++ leftover ps' ∧ Run undef ps o1 u' ps' ∧
      (sweep u' ps').1 = [] := by
  intro fuel
  induction fuel with
  | zero => intro _ _ _ h; omega
  | succ k ih =>
    intro undef ps hf hc
    have hr := sweep_run0 undef ps hf
    simp only [schedLoop]
    by_cases ho : (sweep undef ps).1.isEmpty = true
    · simp only [ho, if_true]
      have ho' : (sweep undef ps).1 = [] := by simpa using ho
      rw [ho'] at hr
      obtain ⟨h1, h2⟩ := hr.nil_inv
      refine ⟨[], undef, ps, ?_, Run.nil _ _, ho'⟩
      simp [h2]
    · have ho' : (sweep undef ps).1.isEmpty = false := by simpa using ho
      simp only [ho', Bool.false_eq_true, if_false]
      have hcnt := hr.count
      have hlen : 0 < (sweep undef ps).1.length := by
        cases h : (sweep undef ps).1 with
        | nil => simp [h] at ho'
        | cons _ _ => simp
      obtain ⟨o1, u', ps', h1, h2, h3⟩ := ih (sweep undef ps).2.2 (sweep undef ps).2.1 (hr.freeOk hf) (by omega)
      refine ⟨(sweep undef ps).1 ++ o1, u', ps', ?_, Run.append hr h2, h3⟩
      rw [h1, List.append_assoc]

/-! ### a pass that prints nothing: no emission is allowed -/

theorem takeChain_nil_undef (undef : List String) (ch : List AClause)
    (h : (takeChain undef ch).1 = []) : (takeChain undef ch).2.2 = undef := by
  cases ch with
  | nil => rfl
  | cons c cs =>
    by_cases hr : ready undef c = true
    · simp [takeChain, hr] at h
    · simp [takeChain, hr]

theorem visit_nil (undef : List String) (m : Pend) (h : (visit undef m).1 = []) :
    (visit undef m).2.2 = undef ∧ (takeChain undef m.chain).1 = [] ∧
      m.free.filter (ready undef) = [] := by
  simp only [visit, List.append_eq_nil_iff] at h
  have h1 := takeChain_nil_undef undef m.chain h.1
  refine ⟨by simpa [visit] using h1, h.1, ?_⟩
  rw [← h1]; exact h.2

theorem sweep_nil_visit : ∀ (pre : List Pend) (undef : List String) (p : Pend) (post : List Pend),
    (∀ q ∈ pre, q.mentioned = true) → (sweep undef (pre ++ p :: post)).1 = [] →
    (visit undef p).1 = [] := by
  intro pre
  induction pre with
  | nil =>
    intro undef p post _ h
    simp only [List.nil_append, sweep] at h
    by_cases hm : (visit undef p).2.1.mentioned = true
    · simp only [hm, Bool.not_true, Bool.false_eq_true, if_false, List.append_eq_nil_iff,
        List.map_eq_nil_iff] at h
      exact h.1
    · have hm' : (visit undef p).2.1.mentioned = false := by simpa using hm
      simp only [visit, Bool.or_eq_false_iff, Bool.not_eq_false'] at hm'
      simpa [visit] using hm'.2
  | cons q pre ih =>
    intro undef p post hpre h
    have hq : q.mentioned = true := hpre q List.mem_cons_self
    have hqm : (visit undef q).2.1.mentioned = true := by simp [visit, hq]
    simp only [List.cons_append, sweep, hqm, Bool.not_true, Bool.false_eq_true, if_false,
      List.append_eq_nil_iff, List.map_eq_nil_iff] at h
    have hu := (visit_nil undef q h.1).1
    rw [hu] at h
    exact ih undef p post (fun x hx => hpre x (List.mem_cons_of_mem _ hx)) h.2

theorem no_emits_of_stuck {undef : List String} {ps : List Pend} (h : (sweep undef ps).1 = [])
    {n c u1 ps1} (he : Emits undef ps n c u1 ps1) : False := by
  cases he with
  | chain pre p post c rest hpre hc hr =>
    have hv := visit_nil undef p (sweep_nil_visit pre undef p post hpre h)
    have := hv.2.1
    rw [hc] at this
    simp [takeChain, hr] at this
  | free pre p post f1 c f2 hpre hc hr hd =>
    have hv := visit_nil undef p (sweep_nil_visit pre undef p post hpre h)
    have := hv.2.2
    rw [hc] at this
    have hmem : c ∈ List.filter (ready undef) (f1 ++ c :: f2) :=
      List.mem_filter.mpr ⟨by simp, hr⟩
    rw [this] at hmem
    simp at hmem

/-! ### nothing is left: the order in which the clauses were given is a witness -/

/-- all the clauses printed for a member -/
def canon (m : Member) : List AClause := chainOf m ++ freeOf m

/-- A ranking of the printed clauses (think: the time at which the parser saw what each of them
prints) under which every use comes after the definitions, the auditor clauses of a member are
in their printing order, and members are first mentioned in their order. -/
structure Ranked (ms : List Member) (rk : String → AClause → Nat) : Prop where
  uses : ∀ m ∈ ms, ∀ c ∈ canon m, ∀ v ∈ uses c, ∀ m' ∈ ms, ∀ a ∈ m'.assigns, a.var = v →
    rk m'.name (.assign a) < rk m.name c
  chain : ∀ m ∈ ms, List.Pairwise (fun x y => rk m.name x < rk m.name y) (chainOf m)
  first : List.Pairwise
    (fun mi mj => ∃ c ∈ canon mi, ∀ d ∈ canon mj, rk mi.name c < rk mj.name d) ms

/-- what is pending for a member, against the member -/
def PAlign (m : Member) (p : Pend) : Prop :=
  p.name = m.name ∧ (∃ done, chainOf m = done ++ p.chain) ∧ (∀ c ∈ p.free, c ∈ freeOf m) ∧
  (p.mentioned = false → p.chain = chainOf m ∧ p.free = freeOf m)

structure PInv (ms : List Member) (undef : List String) (ps : List Pend) : Prop where
  align : All₂ PAlign ms ps
  undefSub : ∀ v ∈ undef, ∃ p ∈ ps, ∃ a, AClause.assign a ∈ p.chain ∧ a.var = v

theorem All₂.split_right {α β : Type} {R : α → β → Prop} {l : List α} {pre : List β} {p : β}
    {post : List β} (h : All₂ R l (pre ++ p :: post)) :
    ∃ lpre m lpost, l = lpre ++ m :: lpost ∧ All₂ R lpre pre ∧ R m p ∧ All₂ R lpost post := by
  obtain ⟨a₁, a₂, rfl, h₁, h₂⟩ := All₂.of_append_right h
  cases h₂ with
  | cons hmp hrest => exact ⟨a₁, _, _, rfl, h₁, hmp, hrest⟩

theorem All₂.mem_right {α β : Type} {R : α → β → Prop} {l : List α} {l' : List β}
    (h : All₂ R l l') {b : β} (hb : b ∈ l') : ∃ a ∈ l, R a b := by
  induction h with
  | nil => cases hb
  | cons hab _ ih =>
    rcases List.mem_cons.mp hb with rfl | hb
    · exact ⟨_, List.mem_cons_self, hab⟩
    · obtain ⟨a, ha, hr⟩ := ih hb
      exact ⟨a, List.mem_cons_of_mem _ ha, hr⟩

theorem mem_leftover {n : String} {c : AClause} {ps : List Pend} :
    (n, c) ∈ leftover ps ↔ ∃ p ∈ ps, p.name = n ∧ c ∈ p.chain ++ p.free := by
  simp only [leftover, List.mem_flatMap, List.mem_map, Prod.mk.injEq]
  constructor
  · rintro ⟨p, hp, x, hx, rfl, rfl⟩; exact ⟨p, hp, rfl, hx⟩
  · rintro ⟨p, hp, rfl, hx⟩; exact ⟨p, hp, c, hx, rfl, rfl⟩

theorem exists_min {α : Type} (f : α → Nat) : ∀ (l : List α), l ≠ [] → ∃ x ∈ l, ∀ y ∈ l, f x ≤ f y := by
  intro l
  induction l with
  | nil => intro h; exact absurd rfl h
  | cons a l ih =>
    intro _
    cases l with
    | nil => exact ⟨a, List.mem_cons_self, fun y hy => by simp at hy; rw [hy]; exact Nat.le_refl _⟩
    | cons b l' =>
      obtain ⟨x, hx, hmin⟩ := ih (by simp)
      by_cases h : f a ≤ f x
      · refine ⟨a, List.mem_cons_self, fun y hy => ?_⟩
        rcases List.mem_cons.mp hy with rfl | hy
        · exact Nat.le_refl _
        · exact Nat.le_trans h (hmin y hy)
      · refine ⟨x, List.mem_cons_of_mem _ hx, fun y hy => ?_⟩
        rcases List.mem_cons.mp hy with rfl | hy
        · omega
        · exact hmin y hy

theorem assign_mem_chainOf {m : Member} {a : Assign} (h : AClause.assign a ∈ chainOf m) :
    a ∈ m.assigns := by
  simp only [chainOf, List.mem_append, List.mem_map] at h
  rcases h with (h | h) | h
  · cases hm : m.active <;> simp [hm] at h
  · obtain ⟨x, hx, he⟩ := h
    injection he with he; rw [← he]; exact hx
  · cases hm : m.expects with
    | none => simp [hm] at h
    | some x => obtain ⟨md, e⟩ := x; simp [hm] at h

theorem free_defines {m : Member} {c : AClause} (h : c ∈ freeOf m) : defines c = none := by
  simp only [freeOf, List.mem_append, List.mem_map] at h
  rcases h with (⟨v, _, rfl⟩ | h) | h
  · cases v <;> rfl
  · split at h
    · cases h
    · simp at h; rw [h]; rfl
  · split at h
    · simp at h; rw [h]; rfl
    · cases h

/-- as long as something is pending, something may be printed -/
theorem exists_emits {ms : List Member} {rk : String → AClause → Nat} {undef : List String}
    {ps : List Pend} (hr : Ranked ms rk) (hinv : PInv ms undef ps)
    (hleft : leftover ps ≠ []) : ∃ n c u1 ps1, Emits undef ps n c u1 ps1 := by
  obtain ⟨⟨n, c⟩, hmem, hmin⟩ := exists_min (fun k : String × AClause => rk k.1 k.2) (leftover ps) hleft
  obtain ⟨p, hp, hpn, hc⟩ := mem_leftover.mp hmem
  obtain ⟨pre, post, rfl⟩ := List.append_of_mem hp
  obtain ⟨mpre, m, mpost, rfl, hapre, ⟨hname, ⟨done, hdone⟩, hfree, hunm⟩, hapost⟩ := hinv.align.split_right
  have hmn : m.name = n := by rw [← hname, hpn]
  have hm_mem : m ∈ mpre ++ m :: mpost := List.mem_append_right _ List.mem_cons_self
  -- the clause belongs to the member
  have hcanon : c ∈ canon m := by
    rcases List.mem_append.mp hc with h | h
    · exact List.mem_append_left _ (by rw [hdone]; exact List.mem_append_right _ h)
    · exact List.mem_append_right _ (hfree c h)
  -- every member in front has been mentioned
  have hpre : ∀ q ∈ pre, q.mentioned = true := by
    intro q hq
    cases hqm : q.mentioned with
    | true => rfl
    | false =>
      exfalso
      obtain ⟨mq, hmq, ⟨hqn, _, _, hqu⟩⟩ := hapre.mem_right hq
      obtain ⟨hqc, hqf⟩ := hqu hqm
      have hpw := (List.pairwise_append.mp hr.first).2.2 mq hmq m List.mem_cons_self
      obtain ⟨cq, hcq, hlt⟩ := hpw
      have hcq' : (mq.name, cq) ∈ leftover (pre ++ p :: post) :=
        mem_leftover.mpr ⟨q, List.mem_append_left _ hq, hqn, by rw [hqc, hqf]; exact hcq⟩
      have h1 := hmin _ hcq'
      have h2 := hlt c hcanon
      simp only at h1
      rw [hmn] at h2
      omega
  -- the variables it uses are defined
  have hready : ready undef c = true := by
    simp only [ready, List.all_eq_true, Bool.not_eq_true', List.contains_eq_mem, decide_eq_false_iff_not]
    intro v hv hvu
    obtain ⟨p2, hp2, a2, ha2, hv2⟩ := hinv.undefSub v hvu
    obtain ⟨m2, hm2, ⟨hn2, ⟨done2, hdone2⟩, _, _⟩⟩ := hinv.align.mem_right hp2
    have ha2' : a2 ∈ m2.assigns := assign_mem_chainOf (by rw [hdone2]; exact List.mem_append_right _ ha2)
    have hlt := hr.uses m hm_mem c hcanon v hv m2 hm2 a2 ha2' hv2
    have hk : (m2.name, AClause.assign a2) ∈ leftover (pre ++ p :: post) :=
      mem_leftover.mpr ⟨p2, hp2, hn2, List.mem_append_left _ ha2⟩
    have h1 := hmin _ hk
    simp only at h1
    rw [hmn] at hlt
    omega
  rcases List.mem_append.mp hc with hcc | hcf
  · -- an auditor clause: it is the first one
    cases hch : p.chain with
    | nil => rw [hch] at hcc; cases hcc
    | cons h rest =>
      have hhc : h = c := by
        rw [hch] at hcc
        rcases List.mem_cons.mp hcc with e | hrest
        · exact e.symm
        · exfalso
          have hpw := hr.chain m hm_mem
          rw [hdone, hch] at hpw
          have hlt := (List.pairwise_cons.mp (List.pairwise_append.mp hpw).2.1).1 c hrest
          have hk : (n, h) ∈ leftover (pre ++ p :: post) :=
            mem_leftover.mpr ⟨p, hp, hpn, List.mem_append_left _ (by rw [hch]; exact List.mem_cons_self)⟩
          have h1 := hmin _ hk
          simp only at h1
          rw [hmn] at hlt
          omega
      subst hhc
      exact ⟨_, _, _, _, Emits.chain undef pre p post h rest hpre hch hready⟩
  · obtain ⟨f1, f2, hsplit⟩ := List.append_of_mem hcf
    exact ⟨_, _, _, _, Emits.free undef pre p post f1 c f2 hpre hsplit hready (free_defines (hfree c hcf))⟩

theorem Emits.pinv {ms : List Member} {u ps n c u1 ps1} (h : Emits u ps n c u1 ps1)
    (hinv : PInv ms u ps) : PInv ms u1 ps1 := by
  cases h with
  | chain pre p post c rest hpre hc hr =>
    obtain ⟨mpre, m, mpost, rfl, hapre, ⟨hname, ⟨done, hdone⟩, hfree, hunm⟩, hapost⟩ := hinv.align.split_right
    refine ⟨All₂.append hapre (.cons ⟨hname, ⟨done ++ [c], ?_⟩, hfree, ?_⟩ hapost), ?_⟩
    · rw [hdone, hc]; simp
    · intro hf; cases hf
    · intro v hv
      have hv' : v ∈ u ∧ (∀ a, c = .assign a → v ≠ a.var) := by
        cases c <;> simp [afterPrint, defines] at hv <;> first | exact ⟨hv, by intro a ha; cases ha⟩ | skip
        rename_i a
        exact ⟨hv.1, by intro a' ha'; injection ha' with ha'; rw [← ha']; exact hv.2⟩
      obtain ⟨p2, hp2, a2, ha2, hv2⟩ := hinv.undefSub v hv'.1
      rcases List.mem_append.mp hp2 with hp2 | hp2
      · exact ⟨p2, List.mem_append_left _ hp2, a2, ha2, hv2⟩
      · rcases List.mem_cons.mp hp2 with rfl | hp2
        · refine ⟨_, List.mem_append_right _ List.mem_cons_self, a2, ?_, hv2⟩
          rw [hc] at ha2
          rcases List.mem_cons.mp ha2 with e | ha2
          · exact absurd hv2.symm (hv'.2 a2 e.symm)
          · exact ha2
        · exact ⟨p2, List.mem_append_right _ (List.mem_cons_of_mem _ hp2), a2, ha2, hv2⟩
  | free pre p post f1 c f2 hpre hc hr hd =>
    obtain ⟨mpre, m, mpost, rfl, hapre, ⟨hname, ⟨done, hdone⟩, hfree, hunm⟩, hapost⟩ := hinv.align.split_right
    refine ⟨All₂.append hapre (.cons ⟨hname, ⟨done, hdone⟩, ?_, ?_⟩ hapost), ?_⟩
    · intro x hx
      apply hfree; rw [hc]
      simp only [List.mem_append, List.mem_cons] at hx ⊢
      rcases hx with hx | hx
      · exact Or.inl hx
      · exact Or.inr (Or.inr hx)
    · intro hf; cases hf
    · intro v hv
      obtain ⟨p2, hp2, a2, ha2, hv2⟩ := hinv.undefSub v hv
      rcases List.mem_append.mp hp2 with hp2 | hp2
      · exact ⟨p2, List.mem_append_left _ hp2, a2, ha2, hv2⟩
      · rcases List.mem_cons.mp hp2 with rfl | hp2
        · exact ⟨_, List.mem_append_right _ List.mem_cons_self, a2, ha2, hv2⟩
        · exact ⟨p2, List.mem_append_right _ (List.mem_cons_of_mem _ hp2), a2, ha2, hv2⟩

theorem Run.pinv {ms : List Member} {u ps o u1 ps1} (h : Run u ps o u1 ps1) (hinv : PInv ms u ps) :
    PInv ms u1 ps1 := by
  induction h with
  | nil => exact hinv
  | cons he _ ih => exact ih (he.pinv hinv)

theorem pinv_init (ms : List Member) : PInv ms (targetsOf ms) (ms.map pendOf) := by
  refine ⟨?_, ?_⟩
  · induction ms with
    | nil => exact .nil
    | cons m ms ih => exact .cons ⟨rfl, ⟨[], rfl⟩, fun c hc => hc, fun _ => ⟨rfl, rfl⟩⟩ ih
  · intro v hv
    simp only [targetsOf, List.mem_flatMap, List.mem_map] at hv
    obtain ⟨m, hm, a, ha, rfl⟩ := hv
    refine ⟨pendOf m, List.mem_map.mpr ⟨m, hm, rfl⟩, a, ?_, rfl⟩
    simp only [pendOf, chainOf, List.mem_append, List.mem_map]
    exact Or.inl (Or.inr ⟨a, ha, rfl⟩)

theorem freeOk_init (ms : List Member) : FreeOk (ms.map pendOf) := by
  intro p hp c hc
  obtain ⟨m, _, rfl⟩ := List.mem_map.mp hp
  exact free_defines hc

theorem pendsOf_eq {ms : List Member} (hne : ∀ m ∈ ms, canon m ≠ []) : pendsOf ms = ms.map pendOf := by
  simp only [pendsOf]
  apply List.filter_eq_self.mpr
  intro p hp
  obtain ⟨m, hm, rfl⟩ := List.mem_map.mp hp
  have := hne m hm
  simp only [pendOf, canon] at this ⊢
  cases h : chainOf m ++ freeOf m with
  | nil => exact absurd h this
  | cons _ _ => rfl

/-- `sched` is a complete sequence of allowed emissions -/
theorem sched_run {ms : List Member} {rk : String → AClause → Nat} (hr : Ranked ms rk)
    (hne : ∀ m ∈ ms, canon m ≠ []) :
    ∃ u' ps', Run (targetsOf ms) (ms.map pendOf) (sched ms) u' ps' ∧ leftover ps' = [] := by
  have hp := pendsOf_eq hne
  obtain ⟨o1, u', ps', h1, h2, h3⟩ := schedLoop_spec (clauseCount (ms.map pendOf) + 1) (targetsOf ms)
    (ms.map pendOf) (freeOk_init ms) (Nat.lt_succ_self _)
  have hinv := h2.pinv (pinv_init ms)
  have hempty : leftover ps' = [] := by
    cases hl : leftover ps' with
    | nil => rfl
    | cons k l =>
      exfalso
      obtain ⟨n, c, u1, ps1, he⟩ := exists_emits hr hinv (by rw [hl]; simp)
      exact no_emits_of_stuck h3 he
  refine ⟨u', ps', ?_, hempty⟩
  simp only [sched, hp, h1, hempty, List.append_nil]
  exact h2

end Shk.Printer
