import ShkModel.Model.Prompt
/-! Helper lemmas for C04 / C05 (the prompter over an abstract clock).

Structure: one block per level of the model (`runLine`, `runScene`, `runScenes`, `loop`), each with
the same kinds of facts — unfolding equations, identity and time bounds of the records, the
order / barrier predicates, what a non-tolerated failure implies, what success implies. -/
namespace Shk.Prompt

/-! ## Vocabulary -/

/-- a failure that is not tolerated -/
def Rec.bad (r : Rec) : Prop := r.ok = false ∧ r.failOk = false

instance (r : Rec) : Decidable r.bad := by unfold Rec.bad; infer_instance

/-- same act occurrence, scene and line -/
def Pos.sameLine (p q : Pos) : Prop := p.actOcc = q.actOcc ∧ p.scene = q.scene ∧ p.line = q.line

/-- propositional form of `lineOrderOk` -/
def LO (rs : List Rec) : Prop :=
  ∀ r ∈ rs, ∀ q ∈ rs, r.pos.sameLine q.pos → r.pos.step < q.pos.step → r.stop ≤ q.start

/-- propositional form of `barrierOk` -/
def BO (rs : List Rec) : Prop :=
  ∀ r ∈ rs, ∀ q ∈ rs, r.pos.groupBefore q.pos = true → r.stop ≤ q.start

/-- every record lies in the time window `[t, e]` -/
def Bnd (t e : Nat) (rs : List Rec) : Prop :=
  ∀ r ∈ rs, t ≤ r.start ∧ r.start ≤ r.stop ∧ r.stop ≤ e

/-- nothing in `rs` comes after `r`: no record of a later group, no later step of `r`'s line -/
def NoLater (r : Rec) (rs : List Rec) : Prop :=
  ∀ q ∈ rs, r.pos.groupBefore q.pos = false ∧ (r.pos.sameLine q.pos → q.pos.step ≤ r.pos.step)

theorem lineOrderOk_iff (rs : List Rec) : lineOrderOk rs = true ↔ LO rs := by
  simp only [lineOrderOk, LO, Pos.sameLine, List.all_eq_true, Bool.or_eq_true, Bool.not_eq_true',
    Bool.and_eq_false_iff, decide_eq_true_eq, decide_eq_false_iff_not, beq_eq_false_iff_ne]
  constructor
  · intro h r hr q hq hs hlt
    rcases h r hr q hq with h | h
    · rcases h with ((h | h) | h) | h
      · exact absurd hs.1 h
      · exact absurd hs.2.1 h
      · exact absurd hs.2.2 h
      · exact absurd hlt h
    · exact h
  · intro h r hr q hq
    by_cases h1 : r.pos.actOcc = q.pos.actOcc
    · by_cases h2 : r.pos.scene = q.pos.scene
      · by_cases h3 : r.pos.line = q.pos.line
        · by_cases h4 : r.pos.step < q.pos.step
          · exact Or.inr (h r hr q hq ⟨h1, h2, h3⟩ h4)
          · exact Or.inl (Or.inr h4)
        · exact Or.inl (Or.inl (Or.inr h3))
      · exact Or.inl (Or.inl (Or.inl (Or.inr h2)))
    · exact Or.inl (Or.inl (Or.inl (Or.inl h1)))

theorem barrierOk_iff (rs : List Rec) : barrierOk rs = true ↔ BO rs := by
  simp only [barrierOk, BO, List.all_eq_true, Bool.or_eq_true, Bool.not_eq_true', decide_eq_true_eq]
  constructor
  · intro h r hr q hq hg
    rcases h r hr q hq with h | h
    · rw [hg] at h; cases h
    · exact h
  · intro h r hr q hq
    cases hg : r.pos.groupBefore q.pos
    · exact Or.inl rfl
    · exact Or.inr (h r hr q hq hg)

theorem groupBefore_iff (p q : Pos) :
    p.groupBefore q = true ↔ (p.actOcc < q.actOcc ∨ (p.actOcc = q.actOcc ∧ p.scene < q.scene)) := by
  simp [Pos.groupBefore]

theorem groupBefore_false_iff (p q : Pos) :
    p.groupBefore q = false ↔ (q.actOcc < p.actOcc ∨ (p.actOcc = q.actOcc ∧ q.scene ≤ p.scene)) := by
  rw [← Bool.not_eq_true, groupBefore_iff]; omega

/-- `LO` of a concatenation whose two halves share no line -/
theorem LO_append {xs ys : List Rec} (hx : LO xs) (hy : LO ys)
    (hxy : ∀ r ∈ xs, ∀ q ∈ ys, ¬ r.pos.sameLine q.pos) : LO (xs ++ ys) := by
  intro r hr q hq hs hlt
  rcases List.mem_append.mp hr with hr | hr <;> rcases List.mem_append.mp hq with hq | hq
  · exact hx r hr q hq hs hlt
  · exact absurd hs (hxy r hr q hq)
  · exact absurd ⟨hs.1.symm, hs.2.1.symm, hs.2.2.symm⟩ (hxy q hq r hr)
  · exact hy r hr q hq hs hlt

/-- `BO` of a concatenation: everything in the first half ends before `m`, everything in the
second half starts after `m`, and no record of the second half is in a group before one of the
first half -/
theorem BO_append {xs ys : List Rec} {m : Nat} (hx : BO xs) (hy : BO ys)
    (hxm : ∀ r ∈ xs, r.stop ≤ m) (hym : ∀ q ∈ ys, m ≤ q.start)
    (hyx : ∀ r ∈ ys, ∀ q ∈ xs, r.pos.groupBefore q.pos = false) : BO (xs ++ ys) := by
  intro r hr q hq hg
  rcases List.mem_append.mp hr with hr | hr <;> rcases List.mem_append.mp hq with hq | hq
  · exact hx r hr q hq hg
  · exact Nat.le_trans (hxm r hr) (hym q hq)
  · rw [hyx r hr q hq] at hg; cases hg
  · exact hy r hr q hq hg

theorem Bnd.mono {t t' e e' : Nat} {rs : List Rec} (h : Bnd t e rs) (ht : t' ≤ t) (he : e ≤ e') :
    Bnd t' e' rs := fun r hr => by have := h r hr; omega

theorem Bnd.append {t e : Nat} {xs ys : List Rec} (hx : Bnd t e xs) (hy : Bnd t e ys) :
    Bnd t e (xs ++ ys) := fun r hr => by
  rcases List.mem_append.mp hr with hr | hr
  · exact hx r hr
  · exact hy r hr

/-! ## `runLine` -/

/-- the record `runLine` writes for step `k` when the previous step ended at `t` -/
def mkRec (env : Env) (ao a sc ln : Nat) (actor : String) (k t : Nat) (st : Step) : Rec :=
  { pos := ⟨ao, a, sc, ln, k⟩, actor := actor, action := st.action,
    start := t + (env.occ ⟨ao, a, sc, ln, k⟩).jitter,
    stop := t + (env.occ ⟨ao, a, sc, ln, k⟩).jitter + (env.occ ⟨ao, a, sc, ln, k⟩).dur,
    ok := (env.occ ⟨ao, a, sc, ln, k⟩).ok, failOk := st.failOk }

section line
variable (env : Env) (ao a sc ln : Nat) (actor : String)

@[simp] theorem runLine_nil (k t : Nat) : runLine env ao a sc ln actor k t [] = ([], t, true) := by
  simp [runLine]

theorem runLine_cons_bad (k t : Nat) (st : Step) (rest : List Step)
    (h : (mkRec env ao a sc ln actor k t st).bad) :
    runLine env ao a sc ln actor k t (st :: rest) =
      ([mkRec env ao a sc ln actor k t st], (mkRec env ao a sc ln actor k t st).stop, false) := by
  have h1 : (env.occ ⟨ao, a, sc, ln, k⟩).ok = false := h.1
  have h2 : st.failOk = false := h.2
  simp [runLine, mkRec, h1, h2]

theorem runLine_cons_go (k t : Nat) (st : Step) (rest : List Step)
    (h : ¬ (mkRec env ao a sc ln actor k t st).bad) :
    runLine env ao a sc ln actor k t (st :: rest) =
      (mkRec env ao a sc ln actor k t st ::
          (runLine env ao a sc ln actor (k + 1) (mkRec env ao a sc ln actor k t st).stop rest).1,
        (runLine env ao a sc ln actor (k + 1) (mkRec env ao a sc ln actor k t st).stop rest).2.1,
        (runLine env ao a sc ln actor (k + 1) (mkRec env ao a sc ln actor k t st).stop rest).2.2) := by
  have h' : ¬ ((env.occ ⟨ao, a, sc, ln, k⟩).ok = false ∧ st.failOk = false) := h
  have : (!(env.occ ⟨ao, a, sc, ln, k⟩).ok && !st.failOk) = false := by
    cases h1 : (env.occ ⟨ao, a, sc, ln, k⟩).ok <;> cases h2 : st.failOk <;> simp_all
  simp [runLine, mkRec, this]

theorem runLine_head (k t : Nat) (st : Step) (rest : List Step) :
    mkRec env ao a sc ln actor k t st ∈ (runLine env ao a sc ln actor k t (st :: rest)).1 := by
  by_cases h : (mkRec env ao a sc ln actor k t st).bad
  · rw [runLine_cons_bad _ _ _ _ _ _ _ _ _ _ h]; simp
  · rw [runLine_cons_go _ _ _ _ _ _ _ _ _ _ h]; simp

/-- a line never ends before it started -/
theorem runLine_le (k t : Nat) (steps : List Step) :
    t ≤ (runLine env ao a sc ln actor k t steps).2.1 := by
  induction steps generalizing k t with
  | nil => simp
  | cons st rest ih =>
    by_cases h : (mkRec env ao a sc ln actor k t st).bad
    · rw [runLine_cons_bad _ _ _ _ _ _ _ _ _ _ h]; simp [mkRec]; omega
    · rw [runLine_cons_go _ _ _ _ _ _ _ _ _ _ h]
      have := ih (k + 1) (mkRec env ao a sc ln actor k t st).stop
      simp only [mkRec] at this ⊢; omega

/-- everything known about one record of a line -/
structure LineRec (k t e : Nat) (steps : List Step) (r : Rec) : Prop where
  pos : r.pos = ⟨ao, a, sc, ln, r.pos.step⟩
  step_ge : k ≤ r.pos.step
  step : ∃ st, steps[r.pos.step - k]? = some st ∧ r.action = st.action ∧ r.failOk = st.failOk
  actor : r.actor = actor
  start_ge : t ≤ r.start
  stop_le : r.stop ≤ e
  dur : r.stop = r.start + (env.occ r.pos).dur
  ok : r.ok = (env.occ r.pos).ok

theorem runLine_rec (k t : Nat) (steps : List Step) :
    ∀ r ∈ (runLine env ao a sc ln actor k t steps).1,
      LineRec env ao a sc ln actor k t (runLine env ao a sc ln actor k t steps).2.1 steps r := by
  induction steps generalizing k t with
  | nil => simp
  | cons st rest ih =>
    have hm : ∀ e, (mkRec env ao a sc ln actor k t st).stop ≤ e →
        LineRec env ao a sc ln actor k t e (st :: rest) (mkRec env ao a sc ln actor k t st) := by
      intro e he
      refine ⟨rfl, Nat.le_refl _, ⟨st, by simp [mkRec], rfl, rfl⟩, rfl, by simp [mkRec], he, rfl, rfl⟩
    by_cases h : (mkRec env ao a sc ln actor k t st).bad
    · rw [runLine_cons_bad _ _ _ _ _ _ _ _ _ _ h]
      intro r hr
      simp only [List.mem_singleton] at hr
      subst hr
      exact hm _ (Nat.le_refl _)
    · rw [runLine_cons_go _ _ _ _ _ _ _ _ _ _ h]
      intro r hr
      have hle := runLine_le env ao a sc ln actor (k + 1) (mkRec env ao a sc ln actor k t st).stop rest
      rcases List.mem_cons.mp hr with hr | hr
      · subst hr; exact hm _ hle
      · have := ih (k + 1) (mkRec env ao a sc ln actor k t st).stop r hr
        have hst : t ≤ (mkRec env ao a sc ln actor k t st).stop := by simp only [mkRec]; omega
        obtain ⟨st', h1, h2, h3⟩ := this.step
        refine ⟨this.pos, by have := this.step_ge; omega, ⟨st', ?_, h2, h3⟩, this.actor,
          Nat.le_trans hst this.start_ge, this.stop_le, this.dur, this.ok⟩
        have hk : r.pos.step - k = (r.pos.step - (k + 1)) + 1 := by have := this.step_ge; omega
        rw [hk, List.getElem?_cons_succ]; exact h1

theorem runLine_bnd (k t : Nat) (steps : List Step) :
    Bnd t (runLine env ao a sc ln actor k t steps).2.1 (runLine env ao a sc ln actor k t steps).1 := by
  intro r hr
  have := runLine_rec env ao a sc ln actor k t steps r hr
  have h1 := this.start_ge; have h2 := this.stop_le; have h3 := this.dur
  omega

/-- steps of a line run one after the other, in the listed order -/
theorem runLine_order (k t : Nat) (steps : List Step) :
    ∀ r ∈ (runLine env ao a sc ln actor k t steps).1, ∀ q ∈ (runLine env ao a sc ln actor k t steps).1,
      r.pos.step < q.pos.step → r.stop ≤ q.start := by
  induction steps generalizing k t with
  | nil => simp
  | cons st rest ih =>
    by_cases h : (mkRec env ao a sc ln actor k t st).bad
    · rw [runLine_cons_bad _ _ _ _ _ _ _ _ _ _ h]
      intro r hr q hq hlt
      simp only [List.mem_singleton] at hr hq
      subst hr hq
      exact absurd hlt (Nat.lt_irrefl _)
    · rw [runLine_cons_go _ _ _ _ _ _ _ _ _ _ h]
      intro r hr q hq hlt
      have hrec := runLine_rec env ao a sc ln actor (k + 1) (mkRec env ao a sc ln actor k t st).stop rest
      rcases List.mem_cons.mp hr with hr | hr <;> rcases List.mem_cons.mp hq with hq | hq
      · subst hr hq; exact absurd hlt (Nat.lt_irrefl _)
      · subst hr; exact (hrec q hq).start_ge
      · subst hq
        have := (hrec r hr).step_ge
        simp only [mkRec] at hlt; omega
      · exact ih _ _ r hr q hq hlt

/-- a non-tolerated failure ends the line: the line reports an error and the failed step is its last -/
theorem runLine_bad (k t : Nat) (steps : List Step) :
    ∀ r ∈ (runLine env ao a sc ln actor k t steps).1, r.bad →
      (runLine env ao a sc ln actor k t steps).2.2 = false ∧
      ∀ q ∈ (runLine env ao a sc ln actor k t steps).1, q.pos.step ≤ r.pos.step := by
  induction steps generalizing k t with
  | nil => simp
  | cons st rest ih =>
    by_cases h : (mkRec env ao a sc ln actor k t st).bad
    · rw [runLine_cons_bad _ _ _ _ _ _ _ _ _ _ h]
      intro r hr _
      simp only [List.mem_singleton] at hr
      subst hr
      exact ⟨rfl, fun q hq => by simp only [List.mem_singleton] at hq; subst hq; exact Nat.le_refl _⟩
    · rw [runLine_cons_go _ _ _ _ _ _ _ _ _ _ h]
      intro r hr hb
      have hrec := runLine_rec env ao a sc ln actor (k + 1) (mkRec env ao a sc ln actor k t st).stop rest
      rcases List.mem_cons.mp hr with hr | hr
      · subst hr; exact absurd hb h
      · obtain ⟨h1, h2⟩ := ih _ _ r hr hb
        refine ⟨h1, fun q hq => ?_⟩
        rcases List.mem_cons.mp hq with hq | hq
        · subst hq
          have := (hrec r hr).step_ge
          simp only [mkRec]; omega
        · exact h2 q hq

/-- a line reports an error only if one of its actions failed without being tolerated -/
theorem runLine_fail (k t : Nat) (steps : List Step)
    (hf : (runLine env ao a sc ln actor k t steps).2.2 = false) :
    ∃ r ∈ (runLine env ao a sc ln actor k t steps).1, r.bad := by
  induction steps generalizing k t with
  | nil => simp at hf
  | cons st rest ih =>
    by_cases h : (mkRec env ao a sc ln actor k t st).bad
    · rw [runLine_cons_bad _ _ _ _ _ _ _ _ _ _ h]
      exact ⟨_, List.mem_singleton.mpr rfl, h⟩
    · rw [runLine_cons_go _ _ _ _ _ _ _ _ _ _ h] at hf ⊢
      obtain ⟨r, hr, hb⟩ := ih _ _ hf
      exact ⟨r, List.mem_cons_of_mem _ hr, hb⟩

/-- after a step that did not fail, or whose failure is tolerated, the next step is performed -/
theorem runLine_next (k t : Nat) (steps : List Step) :
    ∀ r ∈ (runLine env ao a sc ln actor k t steps).1, ¬ r.bad → r.pos.step + 1 < k + steps.length →
      ∃ q ∈ (runLine env ao a sc ln actor k t steps).1, q.pos = { r.pos with step := r.pos.step + 1 } := by
  induction steps generalizing k t with
  | nil => simp
  | cons st rest ih =>
    by_cases h : (mkRec env ao a sc ln actor k t st).bad
    · rw [runLine_cons_bad _ _ _ _ _ _ _ _ _ _ h]
      intro r hr hnb
      simp only [List.mem_singleton] at hr
      subst hr; exact absurd h hnb
    · rw [runLine_cons_go _ _ _ _ _ _ _ _ _ _ h]
      intro r hr hnb hlt
      rcases List.mem_cons.mp hr with hr | hr
      · subst hr
        cases rest with
        | nil => simp [mkRec] at hlt
        | cons st' rest' =>
          exact ⟨_, List.mem_cons_of_mem _ (runLine_head env ao a sc ln actor _ _ st' rest'), rfl⟩
      · obtain ⟨q, hq, hp⟩ := ih _ _ r hr hnb (by simp only [List.length_cons] at hlt; omega)
        exact ⟨q, List.mem_cons_of_mem _ hq, hp⟩

/-- a line that succeeds performed each of its steps exactly once, in order -/
theorem runLine_ok_pos (k t : Nat) (steps : List Step)
    (hok : (runLine env ao a sc ln actor k t steps).2.2 = true) :
    (runLine env ao a sc ln actor k t steps).1.map (·.pos) =
      (List.range' k steps.length).map (fun i => (⟨ao, a, sc, ln, i⟩ : Pos)) := by
  induction steps generalizing k t with
  | nil => simp
  | cons st rest ih =>
    by_cases h : (mkRec env ao a sc ln actor k t st).bad
    · rw [runLine_cons_bad _ _ _ _ _ _ _ _ _ _ h] at hok; cases hok
    · rw [runLine_cons_go _ _ _ _ _ _ _ _ _ _ h] at hok ⊢
      simp only [List.map_cons, List.length_cons, List.range'_succ]
      rw [ih _ _ hok]; rfl

end line

/-- the records of a line depend only on the environment's decisions for that very line -/
theorem runLine_congr (env env' : Env) (ao a sc ln : Nat) (actor : String)
    (h : ∀ i, env.occ ⟨ao, a, sc, ln, i⟩ = env'.occ ⟨ao, a, sc, ln, i⟩) (k t : Nat) (steps : List Step) :
    runLine env ao a sc ln actor k t steps = runLine env' ao a sc ln actor k t steps := by
  induction steps generalizing k t with
  | nil => simp
  | cons st rest ih =>
    have hm : mkRec env ao a sc ln actor k t st = mkRec env' ao a sc ln actor k t st := by
      simp [mkRec, h k]
    by_cases hb : (mkRec env ao a sc ln actor k t st).bad
    · rw [runLine_cons_bad _ _ _ _ _ _ _ _ _ _ hb, runLine_cons_bad _ _ _ _ _ _ _ _ _ _ (hm ▸ hb), hm]
    · rw [runLine_cons_go _ _ _ _ _ _ _ _ _ _ hb, runLine_cons_go _ _ _ _ _ _ _ _ _ _ (hm ▸ hb), hm, ih]

/-! ## `runScene` -/

section scene
variable (env : Env) (ao a sc : Nat)

@[simp] theorem runScene_nil (t ln : Nat) : runScene env ao a sc t ln [] = ([], t, true) := by
  simp [runScene]

theorem runScene_cons (t ln : Nat) (l : Line) (rest : List Line) :
    runScene env ao a sc t ln (l :: rest) =
      ((runLine env ao a sc ln l.actor 0 t l.steps).1 ++ (runScene env ao a sc t (ln + 1) rest).1,
       max (runLine env ao a sc ln l.actor 0 t l.steps).2.1 (runScene env ao a sc t (ln + 1) rest).2.1,
       (runLine env ao a sc ln l.actor 0 t l.steps).2.2 && (runScene env ao a sc t (ln + 1) rest).2.2) := by
  simp [runScene]

theorem runScene_le (t ln : Nat) (lines : List Line) :
    t ≤ (runScene env ao a sc t ln lines).2.1 := by
  induction lines generalizing ln with
  | nil => simp
  | cons l rest ih => rw [runScene_cons]; have := ih (ln + 1); simp only []; omega

theorem runScene_bnd (t ln : Nat) (lines : List Line) :
    Bnd t (runScene env ao a sc t ln lines).2.1 (runScene env ao a sc t ln lines).1 := by
  induction lines generalizing ln with
  | nil => intro r hr; simp at hr
  | cons l rest ih =>
    rw [runScene_cons]
    exact Bnd.append ((runLine_bnd env ao a sc ln l.actor 0 t l.steps).mono (Nat.le_refl _) (by simp only []; omega))
      ((ih (ln + 1)).mono (Nat.le_refl _) (by simp only []; omega))

/-- where a record of a scene comes from: the line with its number, run from the scene's start;
and all the records of that line are in the scene's trace -/
theorem runScene_src (t ln : Nat) (lines : List Line) :
    ∀ r ∈ (runScene env ao a sc t ln lines).1, ln ≤ r.pos.line ∧ ∃ l, lines[r.pos.line - ln]? = some l ∧
      r ∈ (runLine env ao a sc r.pos.line l.actor 0 t l.steps).1 ∧
      ∀ q ∈ (runLine env ao a sc r.pos.line l.actor 0 t l.steps).1, q ∈ (runScene env ao a sc t ln lines).1 := by
  induction lines generalizing ln with
  | nil => simp
  | cons l rest ih =>
    rw [runScene_cons]
    intro r hr
    rcases List.mem_append.mp hr with hr | hr
    · have hl : r.pos.line = ln := by
        have := (runLine_rec env ao a sc ln l.actor 0 t l.steps r hr).pos
        rw [this]
      refine ⟨by omega, l, by simp [hl], hl ▸ hr, fun q hq => List.mem_append_left _ (hl ▸ hq)⟩
    · obtain ⟨h1, l', h2, h3, h4⟩ := ih (ln + 1) r hr
      refine ⟨by omega, l', ?_, h3, fun q hq => List.mem_append_right _ (h4 q hq)⟩
      have : r.pos.line - ln = (r.pos.line - (ln + 1)) + 1 := by omega
      rw [this, List.getElem?_cons_succ]; exact h2

/-- identity of the records of a scene -/
theorem runScene_ids (t ln : Nat) (lines : List Line) :
    ∀ r ∈ (runScene env ao a sc t ln lines).1,
      r.pos.actOcc = ao ∧ r.pos.act = a ∧ r.pos.scene = sc ∧ ln ≤ r.pos.line := by
  intro r hr
  obtain ⟨h1, l, _, h3, _⟩ := runScene_src env ao a sc t ln lines r hr
  have := (runLine_rec env ao a sc r.pos.line l.actor 0 t l.steps r h3).pos
  refine ⟨?_, ?_, ?_, h1⟩ <;> rw [this]

theorem runScene_LO (t ln : Nat) (lines : List Line) : LO (runScene env ao a sc t ln lines).1 := by
  induction lines generalizing ln with
  | nil => intro r hr; simp at hr
  | cons l rest ih =>
    rw [runScene_cons]
    refine LO_append ?_ (ih (ln + 1)) ?_
    · intro r hr q hq _ hlt
      exact runLine_order env ao a sc ln l.actor 0 t l.steps r hr q hq hlt
    · intro r hr q hq hs
      have h1 := (runLine_rec env ao a sc ln l.actor 0 t l.steps r hr).pos
      have h2 := (runScene_ids env ao a sc t (ln + 1) rest q hq).2.2.2
      have h3 : r.pos.line = ln := by rw [h1]
      have := hs.2.2
      omega

theorem runScene_BO (t ln : Nat) (lines : List Line) : BO (runScene env ao a sc t ln lines).1 := by
  intro r hr q hq hg
  have h1 := runScene_ids env ao a sc t ln lines r hr
  have h2 := runScene_ids env ao a sc t ln lines q hq
  rw [groupBefore_iff] at hg
  omega

/-- a non-tolerated failure makes the scene fail, and the failed step is the last one of its line -/
theorem runScene_bad (t ln : Nat) (lines : List Line) :
    ∀ r ∈ (runScene env ao a sc t ln lines).1, r.bad →
      (runScene env ao a sc t ln lines).2.2 = false ∧
      ∀ q ∈ (runScene env ao a sc t ln lines).1, r.pos.line = q.pos.line → q.pos.step ≤ r.pos.step := by
  induction lines generalizing ln with
  | nil => simp
  | cons l rest ih =>
    rw [runScene_cons]
    intro r hr hb
    have hx : ∀ x ∈ (runLine env ao a sc ln l.actor 0 t l.steps).1, x.pos.line = ln := by
      intro x hx
      have := (runLine_rec env ao a sc ln l.actor 0 t l.steps x hx).pos
      rw [this]
    have hy : ∀ y ∈ (runScene env ao a sc t (ln + 1) rest).1, ln + 1 ≤ y.pos.line :=
      fun y hy => (runScene_ids env ao a sc t (ln + 1) rest y hy).2.2.2
    rcases List.mem_append.mp hr with hr | hr
    · obtain ⟨h1, h2⟩ := runLine_bad env ao a sc ln l.actor 0 t l.steps r hr hb
      refine ⟨by simp [h1], fun q hq hl => ?_⟩
      rcases List.mem_append.mp hq with hq | hq
      · exact h2 q hq
      · have := hx r hr; have := hy q hq; omega
    · obtain ⟨h1, h2⟩ := ih (ln + 1) r hr hb
      refine ⟨by simp [h1], fun q hq hl => ?_⟩
      rcases List.mem_append.mp hq with hq | hq
      · have := hx q hq; have := hy r hr; omega
      · exact h2 q hq hl

/-- a scene fails only if one of its actions failed without being tolerated -/
theorem runScene_fail (t ln : Nat) (lines : List Line)
    (hf : (runScene env ao a sc t ln lines).2.2 = false) :
    ∃ r ∈ (runScene env ao a sc t ln lines).1, r.bad := by
  induction lines generalizing ln with
  | nil => simp at hf
  | cons l rest ih =>
    rw [runScene_cons] at hf ⊢
    simp only [Bool.and_eq_false_iff] at hf
    rcases hf with hf | hf
    · obtain ⟨r, hr, hb⟩ := runLine_fail env ao a sc ln l.actor 0 t l.steps hf
      exact ⟨r, List.mem_append_left _ hr, hb⟩
    · obtain ⟨r, hr, hb⟩ := ih (ln + 1) hf
      exact ⟨r, List.mem_append_right _ hr, hb⟩

/-- positions of the lines `lines`, numbered from `ln`, of scene `sc` (as in `actPositions`) -/
def linesPositions (sc : Nat) (lines : List Line) (ln : Nat) : List (Nat × Nat × Nat) :=
  (lines.zipIdx ln).flatMap fun (l, ln) => (List.range l.steps.length).map fun k => (sc, ln, k)

theorem linesPositions_nil (ln : Nat) : linesPositions sc [] ln = [] := rfl

theorem linesPositions_cons (l : Line) (rest : List Line) (ln : Nat) :
    linesPositions sc (l :: rest) ln =
      (List.range l.steps.length).map (fun k => (sc, ln, k)) ++ linesPositions sc rest (ln + 1) := by
  simp [linesPositions, List.zipIdx_cons, List.flatMap_cons]

/-- a scene that succeeds performed every step of every line exactly once -/
theorem runScene_ok_pos (t ln : Nat) (lines : List Line)
    (hok : (runScene env ao a sc t ln lines).2.2 = true) :
    (runScene env ao a sc t ln lines).1.map (·.pos) =
      (linesPositions sc lines ln).map (fun p => (⟨ao, a, p.1, p.2.1, p.2.2⟩ : Pos)) := by
  induction lines generalizing ln with
  | nil => simp [linesPositions_nil]
  | cons l rest ih =>
    rw [runScene_cons] at hok ⊢
    simp only [Bool.and_eq_true] at hok
    rw [linesPositions_cons, List.map_append, List.map_append, ih (ln + 1) hok.2,
      runLine_ok_pos env ao a sc ln l.actor 0 t l.steps hok.1, List.range_eq_range']
    simp [List.map_map, Function.comp_def]

/-- **distinct lines run concurrently**: the records of line `ln + i` within a scene are exactly
those of `runLine` started at the scene's start -/
theorem runScene_filter (t ln : Nat) (lines : List Line) (i : Nat) (l : Line) (hl : lines[i]? = some l) :
    (runScene env ao a sc t ln lines).1.filter (fun r => r.pos.line == ln + i) =
      (runLine env ao a sc (ln + i) l.actor 0 t l.steps).1 := by
  induction lines generalizing ln i with
  | nil => simp at hl
  | cons l0 rest ih =>
    rw [runScene_cons, List.filter_append]
    have hx : ∀ x ∈ (runLine env ao a sc ln l0.actor 0 t l0.steps).1, x.pos.line = ln := by
      intro x hx
      have := (runLine_rec env ao a sc ln l0.actor 0 t l0.steps x hx).pos
      rw [this]
    have hy : ∀ y ∈ (runScene env ao a sc t (ln + 1) rest).1, ln + 1 ≤ y.pos.line :=
      fun y hy => (runScene_ids env ao a sc t (ln + 1) rest y hy).2.2.2
    cases i with
    | zero =>
      simp only [List.getElem?_cons_zero, Option.some.injEq] at hl
      subst hl
      have h1 : (runLine env ao a sc ln l0.actor 0 t l0.steps).1.filter (fun r => r.pos.line == ln + 0) =
          (runLine env ao a sc ln l0.actor 0 t l0.steps).1 :=
        List.filter_eq_self.mpr (fun x hx' => by simp [hx x hx'])
      have h2 : (runScene env ao a sc t (ln + 1) rest).1.filter (fun r => r.pos.line == ln + 0) = [] :=
        List.filter_eq_nil_iff.mpr (fun y hy' => by have := hy y hy'; simp; omega)
      rw [h1, h2, List.append_nil]; rfl
    | succ i =>
      simp only [List.getElem?_cons_succ] at hl
      have h1 : (runLine env ao a sc ln l0.actor 0 t l0.steps).1.filter (fun r => r.pos.line == ln + (i + 1)) = [] :=
        List.filter_eq_nil_iff.mpr (fun x hx' => by have := hx x hx'; simp; omega)
      have h3 : ln + (i + 1) = ln + 1 + i := by omega
      rw [h1, List.nil_append, h3]
      exact ih (ln + 1) i hl

end scene

/-! ## `runScenes` -/

/-- start of scene `sc` (given the end `t` of the previous scene): not before `waitUntil` after the
act's start, plus whatever delay the OS adds -/
def sceneStart (env : Env) (ao t0 sc t : Nat) (s : Scene) : Nat :=
  max t (t0 + s.waitUntil) + env.sceneJitter ao sc

section scenes
variable (env : Env) (ao a t0 : Nat)

@[simp] theorem runScenes_nil (sc t : Nat) : runScenes env ao a t0 sc t [] = ([], t, true) := by
  simp [runScenes]

theorem runScenes_cons_fail (sc t : Nat) (s : Scene) (rest : List Scene)
    (hf : (runScene env ao a sc (sceneStart env ao t0 sc t s) 0 s.lines).2.2 = false) :
    runScenes env ao a t0 sc t (s :: rest) =
      ((runScene env ao a sc (sceneStart env ao t0 sc t s) 0 s.lines).1,
       (runScene env ao a sc (sceneStart env ao t0 sc t s) 0 s.lines).2.1, false) := by
  cases hl : s.lines with
  | nil => rw [hl] at hf; simp at hf
  | cons l ls =>
    rw [hl] at hf
    simp only [sceneStart] at hf
    simp [runScenes, hl, sceneStart, hf]

theorem runScenes_cons_ok (sc t : Nat) (s : Scene) (rest : List Scene)
    (hok : (runScene env ao a sc (sceneStart env ao t0 sc t s) 0 s.lines).2.2 = true) :
    runScenes env ao a t0 sc t (s :: rest) =
      ((runScene env ao a sc (sceneStart env ao t0 sc t s) 0 s.lines).1 ++
        (runScenes env ao a t0 (sc + 1) (runScene env ao a sc (sceneStart env ao t0 sc t s) 0 s.lines).2.1 rest).1,
       (runScenes env ao a t0 (sc + 1) (runScene env ao a sc (sceneStart env ao t0 sc t s) 0 s.lines).2.1 rest).2.1,
       (runScenes env ao a t0 (sc + 1) (runScene env ao a sc (sceneStart env ao t0 sc t s) 0 s.lines).2.1 rest).2.2) := by
  cases hl : s.lines with
  | nil => simp [runScenes, hl, sceneStart]
  | cons l ls =>
    rw [hl] at hok
    simp only [sceneStart] at hok
    simp [runScenes, hl, sceneStart, hok]

theorem sceneStart_ge (sc t : Nat) (s : Scene) :
    t ≤ sceneStart env ao t0 sc t s ∧ t0 + s.waitUntil ≤ sceneStart env ao t0 sc t s := by
  simp only [sceneStart]; omega

theorem runScenes_le (sc t : Nat) (scenes : List Scene) :
    t ≤ (runScenes env ao a t0 sc t scenes).2.1 := by
  induction scenes generalizing sc t with
  | nil => simp
  | cons s rest ih =>
    have h1 := (sceneStart_ge env ao t0 sc t s).1
    have h2 := runScene_le env ao a sc (sceneStart env ao t0 sc t s) 0 s.lines
    cases hx : (runScene env ao a sc (sceneStart env ao t0 sc t s) 0 s.lines).2.2 with
    | false => rw [runScenes_cons_fail _ _ _ _ _ _ _ _ hx]; simp only []; omega
    | true =>
      rw [runScenes_cons_ok _ _ _ _ _ _ _ _ hx]
      have := ih (sc + 1) (runScene env ao a sc (sceneStart env ao t0 sc t s) 0 s.lines).2.1
      simp only []; omega

theorem runScenes_bnd (sc t : Nat) (scenes : List Scene) :
    Bnd t (runScenes env ao a t0 sc t scenes).2.1 (runScenes env ao a t0 sc t scenes).1 := by
  induction scenes generalizing sc t with
  | nil => intro r hr; simp at hr
  | cons s rest ih =>
    have h1 := (sceneStart_ge env ao t0 sc t s).1
    have h2 := runScene_le env ao a sc (sceneStart env ao t0 sc t s) 0 s.lines
    have hb := runScene_bnd env ao a sc (sceneStart env ao t0 sc t s) 0 s.lines
    cases hx : (runScene env ao a sc (sceneStart env ao t0 sc t s) 0 s.lines).2.2 with
    | false => rw [runScenes_cons_fail _ _ _ _ _ _ _ _ hx]; exact hb.mono h1 (Nat.le_refl _)
    | true =>
      rw [runScenes_cons_ok _ _ _ _ _ _ _ _ hx]
      have h3 := runScenes_le env ao a t0 (sc + 1) (runScene env ao a sc (sceneStart env ao t0 sc t s) 0 s.lines).2.1 rest
      exact Bnd.append (hb.mono h1 h3) ((ih (sc + 1) _).mono (by omega) (Nat.le_refl _))

/-- where a record of an act comes from -/
theorem runScenes_src (sc t : Nat) (scenes : List Scene) :
    ∀ r ∈ (runScenes env ao a t0 sc t scenes).1, sc ≤ r.pos.scene ∧ r.pos.actOcc = ao ∧ r.pos.act = a ∧
      ∃ s l t1, scenes[r.pos.scene - sc]? = some s ∧ s.lines[r.pos.line]? = some l ∧
        t0 + s.waitUntil ≤ t1 ∧
        r ∈ (runLine env ao a r.pos.scene r.pos.line l.actor 0 t1 l.steps).1 ∧
        ∀ q ∈ (runLine env ao a r.pos.scene r.pos.line l.actor 0 t1 l.steps).1,
          q ∈ (runScenes env ao a t0 sc t scenes).1 := by
  induction scenes generalizing sc t with
  | nil => simp
  | cons s rest ih =>
    have hsrc : ∀ r ∈ (runScene env ao a sc (sceneStart env ao t0 sc t s) 0 s.lines).1, ∀ tr : List Rec,
        (∀ q ∈ (runScene env ao a sc (sceneStart env ao t0 sc t s) 0 s.lines).1, q ∈ tr) →
        sc ≤ r.pos.scene ∧ r.pos.actOcc = ao ∧ r.pos.act = a ∧
        ∃ s' l t1, (s :: rest)[r.pos.scene - sc]? = some s' ∧ s'.lines[r.pos.line]? = some l ∧
          t0 + s'.waitUntil ≤ t1 ∧
          r ∈ (runLine env ao a r.pos.scene r.pos.line l.actor 0 t1 l.steps).1 ∧
          ∀ q ∈ (runLine env ao a r.pos.scene r.pos.line l.actor 0 t1 l.steps).1, q ∈ tr := by
      intro r hr tr htr
      obtain ⟨hao, hact, hsc, _⟩ := runScene_ids env ao a sc _ 0 s.lines r hr
      obtain ⟨_, l, h2, h3, h4⟩ := runScene_src env ao a sc _ 0 s.lines r hr
      refine ⟨by omega, hao, hact, s, l, sceneStart env ao t0 sc t s, by simp [hsc], by simpa using h2,
        (sceneStart_ge env ao t0 sc t s).2, hsc ▸ h3, fun q hq => htr q (h4 q (hsc ▸ hq))⟩
    cases hx : (runScene env ao a sc (sceneStart env ao t0 sc t s) 0 s.lines).2.2 with
    | false =>
      rw [runScenes_cons_fail _ _ _ _ _ _ _ _ hx]
      intro r hr
      exact hsrc r hr _ (fun q hq => hq)
    | true =>
      rw [runScenes_cons_ok _ _ _ _ _ _ _ _ hx]
      intro r hr
      rcases List.mem_append.mp hr with hr | hr
      · exact hsrc r hr _ (fun q hq => List.mem_append_left _ hq)
      · obtain ⟨h1, hao, hact, s', l, t1, h2, h3, h4, h5, h6⟩ := ih (sc + 1) _ r hr
        refine ⟨by omega, hao, hact, s', l, t1, ?_, h3, h4, h5, fun q hq => List.mem_append_right _ (h6 q hq)⟩
        have : r.pos.scene - sc = (r.pos.scene - (sc + 1)) + 1 := by omega
        rw [this, List.getElem?_cons_succ]; exact h2

theorem runScenes_ids (sc t : Nat) (scenes : List Scene) :
    ∀ r ∈ (runScenes env ao a t0 sc t scenes).1,
      r.pos.actOcc = ao ∧ r.pos.act = a ∧ sc ≤ r.pos.scene := by
  intro r hr
  obtain ⟨h1, h2, h3, _⟩ := runScenes_src env ao a t0 sc t scenes r hr
  exact ⟨h2, h3, h1⟩

theorem runScenes_LO (sc t : Nat) (scenes : List Scene) : LO (runScenes env ao a t0 sc t scenes).1 := by
  induction scenes generalizing sc t with
  | nil => intro r hr; simp at hr
  | cons s rest ih =>
    cases hx : (runScene env ao a sc (sceneStart env ao t0 sc t s) 0 s.lines).2.2 with
    | false => rw [runScenes_cons_fail _ _ _ _ _ _ _ _ hx]; exact runScene_LO env ao a sc _ 0 s.lines
    | true =>
      rw [runScenes_cons_ok _ _ _ _ _ _ _ _ hx]
      refine LO_append (runScene_LO env ao a sc _ 0 s.lines) (ih (sc + 1) _) ?_
      intro r hr q hq hs
      have h1 := (runScene_ids env ao a sc _ 0 s.lines r hr).2.2.1
      have h2 := (runScenes_ids env ao a t0 (sc + 1) _ rest q hq).2.2
      have := hs.2.1
      omega

theorem runScenes_BO (sc t : Nat) (scenes : List Scene) : BO (runScenes env ao a t0 sc t scenes).1 := by
  induction scenes generalizing sc t with
  | nil => intro r hr; simp at hr
  | cons s rest ih =>
    cases hx : (runScene env ao a sc (sceneStart env ao t0 sc t s) 0 s.lines).2.2 with
    | false => rw [runScenes_cons_fail _ _ _ _ _ _ _ _ hx]; exact runScene_BO env ao a sc _ 0 s.lines
    | true =>
      rw [runScenes_cons_ok _ _ _ _ _ _ _ _ hx]
      refine BO_append (m := (runScene env ao a sc (sceneStart env ao t0 sc t s) 0 s.lines).2.1)
        (runScene_BO env ao a sc _ 0 s.lines) (ih (sc + 1) _) ?_ ?_ ?_
      · intro r hr; exact (runScene_bnd env ao a sc _ 0 s.lines r hr).2.2
      · intro q hq; exact (runScenes_bnd env ao a t0 (sc + 1) _ rest q hq).1
      · intro r hr q hq
        have h1 := runScene_ids env ao a sc _ 0 s.lines q hq
        have h2 := runScenes_ids env ao a t0 (sc + 1) _ rest r hr
        rw [groupBefore_false_iff]
        omega

/-- a non-tolerated failure makes the act fail; no later scene is started -/
theorem runScenes_bad (sc t : Nat) (scenes : List Scene) :
    ∀ r ∈ (runScenes env ao a t0 sc t scenes).1, r.bad →
      (runScenes env ao a t0 sc t scenes).2.2 = false ∧
      ∀ q ∈ (runScenes env ao a t0 sc t scenes).1, q.pos.scene ≤ r.pos.scene ∧
        (r.pos.scene = q.pos.scene → r.pos.line = q.pos.line → q.pos.step ≤ r.pos.step) := by
  induction scenes generalizing sc t with
  | nil => simp
  | cons s rest ih =>
    have hxs := runScene_ids env ao a sc (sceneStart env ao t0 sc t s) 0 s.lines
    cases hx : (runScene env ao a sc (sceneStart env ao t0 sc t s) 0 s.lines).2.2 with
    | false =>
      rw [runScenes_cons_fail _ _ _ _ _ _ _ _ hx]
      intro r hr hb
      obtain ⟨_, h2⟩ := runScene_bad env ao a sc _ 0 s.lines r hr hb
      refine ⟨rfl, fun q hq => ⟨?_, fun _ hl => h2 q hq hl⟩⟩
      have := (hxs r hr).2.2.1; have := (hxs q hq).2.2.1; omega
    | true =>
      rw [runScenes_cons_ok _ _ _ _ _ _ _ _ hx]
      intro r hr hb
      rcases List.mem_append.mp hr with hr | hr
      · have := (runScene_bad env ao a sc _ 0 s.lines r hr hb).1
        rw [hx] at this; cases this
      · obtain ⟨h1, h2⟩ := ih (sc + 1) _ r hr hb
        refine ⟨h1, fun q hq => ?_⟩
        rcases List.mem_append.mp hq with hq | hq
        · have h3 := (hxs q hq).2.2.1
          have h4 := (runScenes_ids env ao a t0 (sc + 1) _ rest r hr).2.2
          exact ⟨by omega, fun h => by omega⟩
        · exact h2 q hq

theorem runScenes_fail (sc t : Nat) (scenes : List Scene)
    (hf : (runScenes env ao a t0 sc t scenes).2.2 = false) :
    ∃ r ∈ (runScenes env ao a t0 sc t scenes).1, r.bad := by
  induction scenes generalizing sc t with
  | nil => simp at hf
  | cons s rest ih =>
    cases hx : (runScene env ao a sc (sceneStart env ao t0 sc t s) 0 s.lines).2.2 with
    | false =>
      rw [runScenes_cons_fail _ _ _ _ _ _ _ _ hx]
      exact runScene_fail env ao a sc _ 0 s.lines hx
    | true =>
      rw [runScenes_cons_ok _ _ _ _ _ _ _ _ hx] at hf ⊢
      obtain ⟨r, hr, hb⟩ := ih (sc + 1) _ hf
      exact ⟨r, List.mem_append_right _ hr, hb⟩

/-- `actPositions` for scenes numbered from `sc` -/
def scenesPositions (scenes : List Scene) (sc : Nat) : List (Nat × Nat × Nat) :=
  (scenes.zipIdx sc).flatMap fun (s, sc) => linesPositions sc s.lines 0

theorem actPositions_eq (act : Act) : actPositions act = scenesPositions act 0 := rfl

theorem scenesPositions_cons (s : Scene) (rest : List Scene) (sc : Nat) :
    scenesPositions (s :: rest) sc = linesPositions sc s.lines 0 ++ scenesPositions rest (sc + 1) := by
  simp [scenesPositions, List.zipIdx_cons, List.flatMap_cons]

/-- an act that succeeds performed every action of every scene exactly once -/
theorem runScenes_ok_pos (sc t : Nat) (scenes : List Scene)
    (hok : (runScenes env ao a t0 sc t scenes).2.2 = true) :
    (runScenes env ao a t0 sc t scenes).1.map (·.pos) =
      (scenesPositions scenes sc).map (fun p => (⟨ao, a, p.1, p.2.1, p.2.2⟩ : Pos)) := by
  induction scenes generalizing sc t with
  | nil => simp [scenesPositions]
  | cons s rest ih =>
    cases hx : (runScene env ao a sc (sceneStart env ao t0 sc t s) 0 s.lines).2.2 with
    | false => rw [runScenes_cons_fail _ _ _ _ _ _ _ _ hx] at hok; cases hok
    | true =>
      rw [runScenes_cons_ok _ _ _ _ _ _ _ _ hx] at hok ⊢
      rw [scenesPositions_cons, List.map_append, List.map_append, ih (sc + 1) _ hok,
        runScene_ok_pos env ao a sc _ 0 s.lines hx]

end scenes

/-! ## `loop` -/

/-- one act occurrence: the scenes of act `j`, the act starting at `t + actJitter` -/
def actRun (env : Env) (ao j t : Nat) (act : Act) : List Rec × Nat × Bool :=
  runScenes env ao j (t + env.actJitter ao) 0 (t + env.actJitter ao) act

/-- the last act of a play with a `repeat` clause has just ended -/
def atEnd (play : Play) (rp : Repeat) (j : Nat) : Bool := rp.fromAct > 0 && j + 1 == play.length

/-- `doRepeat = false` -/
def stops (env : Env) (rp : Repeat) (nrep : Nat) : Bool :=
  (rp.count > 0 && (nrep + 1 : Int) ≥ rp.count) || (rp.hasTimeout && env.timedOut nrep)

/-- the graph of `loop` together with `actOccs`: one constructor per way through the loop body -/
inductive LoopStep (env : Env) (play : Play) (rp : Repeat) :
    Nat → Nat → Nat → Nat → Nat → List Rec × Bool × Bool → List (Nat × Nat × Nat) → Prop
  | zero (j ao nrep t : Nat) : LoopStep env play rp 0 j ao nrep t ([], true, false) []
  | none (fuel j ao nrep t : Nat) : play[j]? = none →
      LoopStep env play rp (fuel + 1) j ao nrep t ([], true, true) []
  | fail (fuel j ao nrep t : Nat) (act : Act) : play[j]? = some act →
      (actRun env ao j t act).2.2 = false →
      LoopStep env play rp (fuel + 1) j ao nrep t ((actRun env ao j t act).1, false, true)
        [(ao, j, t + env.actJitter ao)]
  | stop (fuel j ao nrep t : Nat) (act : Act) : play[j]? = some act →
      (actRun env ao j t act).2.2 = true → atEnd play rp j = true → stops env rp nrep = true →
      LoopStep env play rp (fuel + 1) j ao nrep t ((actRun env ao j t act).1, true, true)
        [(ao, j, t + env.actJitter ao)]
  | jump (fuel j ao nrep t : Nat) (act : Act) (res : List Rec × Bool × Bool) (occs : List (Nat × Nat × Nat)) :
      play[j]? = some act →
      (actRun env ao j t act).2.2 = true → atEnd play rp j = true → stops env rp nrep = false →
      LoopStep env play rp fuel (rp.fromAct - 1) (ao + 1) (nrep + 1) (actRun env ao j t act).2.1 res occs →
      LoopStep env play rp (fuel + 1) j ao nrep t ((actRun env ao j t act).1 ++ res.1, res.2.1, res.2.2)
        ((ao, j, t + env.actJitter ao) :: occs)
  | next (fuel j ao nrep t : Nat) (act : Act) (res : List Rec × Bool × Bool) (occs : List (Nat × Nat × Nat)) :
      play[j]? = some act →
      (actRun env ao j t act).2.2 = true → atEnd play rp j = false →
      LoopStep env play rp fuel (j + 1) (ao + 1) nrep (actRun env ao j t act).2.1 res occs →
      LoopStep env play rp (fuel + 1) j ao nrep t ((actRun env ao j t act).1 ++ res.1, res.2.1, res.2.2)
        ((ao, j, t + env.actJitter ao) :: occs)

theorem loopStep (env : Env) (play : Play) (rp : Repeat) (fuel : Nat) : ∀ j ao nrep t,
    LoopStep env play rp fuel j ao nrep t (loop env play rp fuel j ao nrep t)
      (actOccs env play rp fuel j ao nrep t) := by
  induction fuel with
  | zero => intro j ao nrep t; simp only [loop, actOccs]; exact .zero j ao nrep t
  | succ fuel ih =>
    intro j ao nrep t
    cases hj : play[j]? with
    | none => simp only [loop, actOccs, hj]; exact .none fuel j ao nrep t hj
    | some act =>
      cases hx : (actRun env ao j t act).2.2 with
      | false =>
        have hx' := hx; simp only [actRun] at hx'
        have h1 : loop env play rp (fuel + 1) j ao nrep t = ((actRun env ao j t act).1, false, true) := by
          simp [loop, hj, actRun, hx']
        have h2 : actOccs env play rp (fuel + 1) j ao nrep t = [(ao, j, t + env.actJitter ao)] := by
          simp [actOccs, hj, hx']
        rw [h1, h2]; exact .fail fuel j ao nrep t act hj hx
      | true =>
        have hx' := hx; simp only [actRun] at hx'
        cases he : atEnd play rp j with
        | false =>
          have he' := he; simp only [atEnd] at he'
          have h1 : loop env play rp (fuel + 1) j ao nrep t =
              ((actRun env ao j t act).1 ++ (loop env play rp fuel (j + 1) (ao + 1) nrep (actRun env ao j t act).2.1).1,
               (loop env play rp fuel (j + 1) (ao + 1) nrep (actRun env ao j t act).2.1).2.1,
               (loop env play rp fuel (j + 1) (ao + 1) nrep (actRun env ao j t act).2.1).2.2) := by
            simp only [loop, hj, actRun, hx', he']; simp
          have h2 : actOccs env play rp (fuel + 1) j ao nrep t =
              (ao, j, t + env.actJitter ao) :: actOccs env play rp fuel (j + 1) (ao + 1) nrep (actRun env ao j t act).2.1 := by
            simp only [actOccs, hj, actRun, hx', he']; simp
          rw [h1, h2]; exact .next fuel j ao nrep t act _ _ hj hx he (ih _ _ _ _)
        | true =>
          have he' := he; simp only [atEnd] at he'
          cases hs : stops env rp nrep with
          | true =>
            have hs' := hs; simp only [stops] at hs'
            have h1 : loop env play rp (fuel + 1) j ao nrep t = ((actRun env ao j t act).1, true, true) := by
              simp only [loop, hj, actRun, hx', he', hs']; simp
            have h2 : actOccs env play rp (fuel + 1) j ao nrep t = [(ao, j, t + env.actJitter ao)] := by
              simp only [actOccs, hj, hx', he', hs']; simp
            rw [h1, h2]; exact .stop fuel j ao nrep t act hj hx he hs
          | false =>
            have hs' := hs; simp only [stops] at hs'
            have h1 : loop env play rp (fuel + 1) j ao nrep t =
                ((actRun env ao j t act).1 ++
                  (loop env play rp fuel (rp.fromAct - 1) (ao + 1) (nrep + 1) (actRun env ao j t act).2.1).1,
                 (loop env play rp fuel (rp.fromAct - 1) (ao + 1) (nrep + 1) (actRun env ao j t act).2.1).2.1,
                 (loop env play rp fuel (rp.fromAct - 1) (ao + 1) (nrep + 1) (actRun env ao j t act).2.1).2.2) := by
              simp only [loop, hj, actRun, hx', he', hs']; simp
            have h2 : actOccs env play rp (fuel + 1) j ao nrep t =
                (ao, j, t + env.actJitter ao) ::
                  actOccs env play rp fuel (rp.fromAct - 1) (ao + 1) (nrep + 1) (actRun env ao j t act).2.1 := by
              simp only [actOccs, hj, actRun, hx', he', hs']; simp
            rw [h1, h2]; exact .jump fuel j ao nrep t act _ _ hj hx he hs (ih _ _ _ _)

/-! ### one act occurrence -/

theorem startIn_cons (o : Nat × Nat × Nat) (occs : List (Nat × Nat × Nat)) (a : Nat) :
    startIn (o :: occs) a = if o.1 = a then o.2.2 else startIn occs a := by
  by_cases h : o.1 = a
  · simp [startIn, h]
  · have : (o.1 == a) = false := by simpa using h
    simp [startIn, this, h]

theorem actRun_le (env : Env) (ao j t : Nat) (act : Act) :
    t + env.actJitter ao ≤ (actRun env ao j t act).2.1 :=
  runScenes_le env ao j (t + env.actJitter ao) 0 (t + env.actJitter ao) act

theorem actRun_rec (env : Env) (ao j t : Nat) (act : Act) :
    ∀ r ∈ (actRun env ao j t act).1, r.pos.actOcc = ao ∧ r.pos.act = j ∧
      t + env.actJitter ao ≤ r.start ∧ r.start ≤ r.stop ∧ r.stop ≤ (actRun env ao j t act).2.1 := by
  intro r hr
  have h1 := runScenes_ids env ao j (t + env.actJitter ao) 0 (t + env.actJitter ao) act r hr
  have h2 := runScenes_bnd env ao j (t + env.actJitter ao) 0 (t + env.actJitter ao) act r hr
  exact ⟨h1.1, h1.2.1, h2.1, h2.2.1, h2.2.2⟩

/-- `r` stems from a line of the script: line `r.pos.line` of scene `r.pos.scene` of act `r.pos.act`,
run as a whole (`runLine`) from a time `t1` that is at least `waitUntil` after the start `t0` of
the act occurrence; all the records of that run are in `tr` -/
def Src (env : Env) (play : Play) (occs : List (Nat × Nat × Nat)) (tr : List Rec) (r : Rec) : Prop :=
  ∃ act s l t0 t1, play[r.pos.act]? = some act ∧ act[r.pos.scene]? = some s ∧
    s.lines[r.pos.line]? = some l ∧ (r.pos.actOcc, r.pos.act, t0) ∈ occs ∧ t0 + s.waitUntil ≤ t1 ∧
    r ∈ (runLine env r.pos.actOcc r.pos.act r.pos.scene r.pos.line l.actor 0 t1 l.steps).1 ∧
    ∀ q ∈ (runLine env r.pos.actOcc r.pos.act r.pos.scene r.pos.line l.actor 0 t1 l.steps).1, q ∈ tr

theorem Src.mono {env : Env} {play : Play} {occs occs' : List (Nat × Nat × Nat)} {tr tr' : List Rec}
    {r : Rec} (h : Src env play occs tr r) (ho : ∀ o ∈ occs, o ∈ occs') (ht : ∀ q ∈ tr, q ∈ tr') :
    Src env play occs' tr' r := by
  obtain ⟨act, s, l, t0, t1, h1, h2, h3, h4, h5, h6, h7⟩ := h
  exact ⟨act, s, l, t0, t1, h1, h2, h3, ho _ h4, h5, h6, fun q hq => ht q (h7 q hq)⟩

theorem actRun_src (env : Env) (play : Play) (ao j t : Nat) (act : Act) (hj : play[j]? = some act) :
    ∀ r ∈ (actRun env ao j t act).1,
      Src env play [(ao, j, t + env.actJitter ao)] (actRun env ao j t act).1 r := by
  intro r hr
  obtain ⟨_, hao, hact, s, l, t1, h2, h3, h4, h5, h6⟩ :=
    runScenes_src env ao j (t + env.actJitter ao) 0 (t + env.actJitter ao) act r hr
  refine ⟨act, s, l, t + env.actJitter ao, t1, by rw [hact]; exact hj, by simpa using h2, h3,
    by simp [hao, hact], h4, ?_, ?_⟩
  · rw [hao, hact]; exact h5
  · rw [hao, hact]; exact h6

/-! ### invariants of the loop, by induction on its graph -/

section loop
variable {env : Env} {play : Play} {rp : Repeat}
variable {fuel j ao nrep t : Nat} {res : List Rec × Bool × Bool} {occs : List (Nat × Nat × Nat)}

/-- records carry an act-occurrence number ≥ the current one and start after the current time -/
theorem LoopStep.bnd (h : LoopStep env play rp fuel j ao nrep t res occs) :
    ∀ r ∈ res.1, ao ≤ r.pos.actOcc ∧ t ≤ r.start ∧ r.start ≤ r.stop := by
  induction h with
  | zero => simp
  | none => simp
  | fail fuel j ao nrep t act _ _ =>
    intro r hr; have := actRun_rec env ao j t act r hr; omega
  | stop fuel j ao nrep t act _ _ _ _ =>
    intro r hr; have := actRun_rec env ao j t act r hr; omega
  | jump fuel j ao nrep t act res occs _ _ _ _ _ ih =>
    intro r hr
    rcases List.mem_append.mp hr with hr | hr
    · have := actRun_rec env ao j t act r hr; omega
    · have := ih r hr; have := actRun_le env ao j t act; omega
  | next fuel j ao nrep t act res occs _ _ _ _ ih =>
    intro r hr
    rcases List.mem_append.mp hr with hr | hr
    · have := actRun_rec env ao j t act r hr; omega
    · have := ih r hr; have := actRun_le env ao j t act; omega

/-- the recorded act occurrences: numbered from the current one, started after the current time,
and `startIn` finds each of them -/
theorem LoopStep.occs_bnd (h : LoopStep env play rp fuel j ao nrep t res occs) :
    ∀ o ∈ occs, ao ≤ o.1 ∧ t ≤ o.2.2 ∧ startIn occs o.1 = o.2.2 := by
  induction h with
  | zero => simp
  | none => simp
  | fail fuel j ao nrep t act _ _ =>
    intro o ho; simp only [List.mem_singleton] at ho; subst ho
    simp [startIn]
  | stop fuel j ao nrep t act _ _ _ _ =>
    intro o ho; simp only [List.mem_singleton] at ho; subst ho
    simp [startIn]
  | jump fuel j ao nrep t act res occs _ _ _ _ _ ih =>
    intro o ho
    rcases List.mem_cons.mp ho with ho | ho
    · subst ho; simp [startIn]
    · obtain ⟨h1, h2, h3⟩ := ih o ho
      have := actRun_le env ao j t act
      refine ⟨by omega, by omega, ?_⟩
      rw [startIn_cons, if_neg (by simp only []; omega)]; exact h3
  | next fuel j ao nrep t act res occs _ _ _ _ ih =>
    intro o ho
    rcases List.mem_cons.mp ho with ho | ho
    · subst ho; simp [startIn]
    · obtain ⟨h1, h2, h3⟩ := ih o ho
      have := actRun_le env ao j t act
      refine ⟨by omega, by omega, ?_⟩
      rw [startIn_cons, if_neg (by simp only []; omega)]; exact h3

/-- a later act occurrence starts after every action of an earlier one has ended; and act
occurrences start in the order of their numbers -/
theorem LoopStep.occs_mono (h : LoopStep env play rp fuel j ao nrep t res occs) :
    (∀ r ∈ res.1, ∀ o ∈ occs, r.pos.actOcc < o.1 → r.stop ≤ o.2.2) ∧
    (∀ o ∈ occs, ∀ o' ∈ occs, o.1 < o'.1 → o.2.2 ≤ o'.2.2) := by
  induction h with
  | zero => simp
  | none => simp
  | fail fuel j ao nrep t act _ _ =>
    refine ⟨fun r hr o ho hlt => ?_, fun o ho o' ho' hlt => ?_⟩
    · simp only [List.mem_singleton] at ho; subst ho
      have := actRun_rec env ao j t act r hr; simp only [] at hlt; omega
    · simp only [List.mem_singleton] at ho ho'; subst ho ho'; omega
  | stop fuel j ao nrep t act _ _ _ _ =>
    refine ⟨fun r hr o ho hlt => ?_, fun o ho o' ho' hlt => ?_⟩
    · simp only [List.mem_singleton] at ho; subst ho
      have := actRun_rec env ao j t act r hr; simp only [] at hlt; omega
    · simp only [List.mem_singleton] at ho ho'; subst ho ho'; omega
  | jump fuel j ao nrep t act res occs _ _ _ _ hrec ih =>
    have hle := actRun_le env ao j t act
    refine ⟨fun r hr o ho hlt => ?_, fun o ho o' ho' hlt => ?_⟩
    · rcases List.mem_append.mp hr with hr | hr <;> rcases List.mem_cons.mp ho with ho | ho
      · subst ho; have := actRun_rec env ao j t act r hr; simp only [] at hlt; omega
      · have := actRun_rec env ao j t act r hr; have := hrec.occs_bnd o ho; omega
      · subst ho; have := hrec.bnd r hr; simp only [] at hlt; omega
      · exact ih.1 r hr o ho hlt
    · rcases List.mem_cons.mp ho with ho | ho <;> rcases List.mem_cons.mp ho' with ho' | ho'
      · subst ho ho'; omega
      · subst ho; have := hrec.occs_bnd o' ho'; simp only []; omega
      · subst ho'; have := hrec.occs_bnd o ho; simp only [] at hlt; omega
      · exact ih.2 o ho o' ho' hlt
  | next fuel j ao nrep t act res occs _ _ _ hrec ih =>
    have hle := actRun_le env ao j t act
    refine ⟨fun r hr o ho hlt => ?_, fun o ho o' ho' hlt => ?_⟩
    · rcases List.mem_append.mp hr with hr | hr <;> rcases List.mem_cons.mp ho with ho | ho
      · subst ho; have := actRun_rec env ao j t act r hr; simp only [] at hlt; omega
      · have := actRun_rec env ao j t act r hr; have := hrec.occs_bnd o ho; omega
      · subst ho; have := hrec.bnd r hr; simp only [] at hlt; omega
      · exact ih.1 r hr o ho hlt
    · rcases List.mem_cons.mp ho with ho | ho <;> rcases List.mem_cons.mp ho' with ho' | ho'
      · subst ho ho'; omega
      · subst ho; have := hrec.occs_bnd o' ho'; simp only []; omega
      · subst ho'; have := hrec.occs_bnd o ho; simp only [] at hlt; omega
      · exact ih.2 o ho o' ho' hlt

private theorem lo_step {x y : List Rec} {ao : Nat} (hx : LO x) (hy : LO y)
    (hxa : ∀ r ∈ x, r.pos.actOcc = ao) (hya : ∀ r ∈ y, ao + 1 ≤ r.pos.actOcc) : LO (x ++ y) :=
  LO_append hx hy (fun r hr q hq hs => by have := hxa r hr; have := hya q hq; have := hs.1; omega)

theorem LoopStep.lo (h : LoopStep env play rp fuel j ao nrep t res occs) : LO res.1 := by
  induction h with
  | zero => intro r hr; simp at hr
  | none => intro r hr; simp at hr
  | fail fuel j ao nrep t act _ _ => exact runScenes_LO env ao j _ 0 _ act
  | stop fuel j ao nrep t act _ _ _ _ => exact runScenes_LO env ao j _ 0 _ act
  | jump fuel j ao nrep t act res occs _ _ _ _ hrec ih =>
    exact lo_step (ao := ao) (runScenes_LO env ao j _ 0 _ act) ih
      (fun r hr => (actRun_rec env ao j t act r hr).1) (fun r hr => (hrec.bnd r hr).1)
  | next fuel j ao nrep t act res occs _ _ _ hrec ih =>
    exact lo_step (ao := ao) (runScenes_LO env ao j _ 0 _ act) ih
      (fun r hr => (actRun_rec env ao j t act r hr).1) (fun r hr => (hrec.bnd r hr).1)

private theorem bo_step {x y : List Rec} {ao m : Nat} (hx : BO x) (hy : BO y)
    (hxa : ∀ r ∈ x, r.pos.actOcc = ao ∧ r.stop ≤ m)
    (hya : ∀ r ∈ y, ao + 1 ≤ r.pos.actOcc ∧ m ≤ r.start) : BO (x ++ y) :=
  BO_append (m := m) hx hy (fun r hr => (hxa r hr).2) (fun q hq => (hya q hq).2)
    (fun r hr q hq => by
      rw [groupBefore_false_iff]; have := hxa q hq; have := hya r hr; omega)

theorem LoopStep.bo (h : LoopStep env play rp fuel j ao nrep t res occs) : BO res.1 := by
  induction h with
  | zero => intro r hr; simp at hr
  | none => intro r hr; simp at hr
  | fail fuel j ao nrep t act _ _ => exact runScenes_BO env ao j _ 0 _ act
  | stop fuel j ao nrep t act _ _ _ _ => exact runScenes_BO env ao j _ 0 _ act
  | jump fuel j ao nrep t act res occs _ _ _ _ hrec ih =>
    exact bo_step (ao := ao) (m := (actRun env ao j t act).2.1) (runScenes_BO env ao j _ 0 _ act) ih
      (fun r hr => by have := actRun_rec env ao j t act r hr; omega)
      (fun r hr => by have := hrec.bnd r hr; omega)
  | next fuel j ao nrep t act res occs _ _ _ hrec ih =>
    exact bo_step (ao := ao) (m := (actRun env ao j t act).2.1) (runScenes_BO env ao j _ 0 _ act) ih
      (fun r hr => by have := actRun_rec env ao j t act r hr; omega)
      (fun r hr => by have := hrec.bnd r hr; omega)

private theorem src_step {x y : List Rec} {o : Nat × Nat × Nat} {occs : List (Nat × Nat × Nat)}
    (hx : ∀ r ∈ x, Src env play [o] x r) (hy : ∀ r ∈ y, Src env play occs y r) :
    ∀ r ∈ x ++ y, Src env play (o :: occs) (x ++ y) r := by
  intro r hr
  rcases List.mem_append.mp hr with hr | hr
  · exact (hx r hr).mono (fun o' ho' => by simp only [List.mem_singleton] at ho'; subst ho'; simp)
      (fun q hq => List.mem_append_left _ hq)
  · exact (hy r hr).mono (fun o' ho' => List.mem_cons_of_mem _ ho') (fun q hq => List.mem_append_right _ hq)

theorem LoopStep.src (h : LoopStep env play rp fuel j ao nrep t res occs) :
    ∀ r ∈ res.1, Src env play occs res.1 r := by
  induction h with
  | zero => simp
  | none => simp
  | fail fuel j ao nrep t act hj _ => exact actRun_src env play ao j t act hj
  | stop fuel j ao nrep t act hj _ _ _ => exact actRun_src env play ao j t act hj
  | jump fuel j ao nrep t act res occs hj _ _ _ _ ih => exact src_step (actRun_src env play ao j t act hj) ih
  | next fuel j ao nrep t act res occs hj _ _ _ ih => exact src_step (actRun_src env play ao j t act hj) ih

theorem actRun_bad (env : Env) (ao j t : Nat) (act : Act) :
    ∀ r ∈ (actRun env ao j t act).1, r.bad →
      (actRun env ao j t act).2.2 = false ∧ NoLater r (actRun env ao j t act).1 := by
  intro r hr hb
  obtain ⟨h1, h2⟩ := runScenes_bad env ao j _ 0 _ act r hr hb
  refine ⟨h1, fun q hq => ?_⟩
  have hr' := actRun_rec env ao j t act r hr
  have hq' := actRun_rec env ao j t act q hq
  obtain ⟨h3, h4⟩ := h2 q hq
  refine ⟨?_, fun hs => h4 hs.2.1 hs.2.2⟩
  rw [groupBefore_false_iff]; omega

private theorem bad_step {x y : List Rec} {ao : Nat} {r : Rec}
    (hxa : ∀ q ∈ x, q.pos.actOcc = ao) (hr : ao + 1 ≤ r.pos.actOcc) (hy : NoLater r y) :
    NoLater r (x ++ y) := by
  intro q hq
  rcases List.mem_append.mp hq with hq | hq
  · have := hxa q hq
    refine ⟨?_, fun hs => ?_⟩
    · rw [groupBefore_false_iff]; omega
    · have := hs.1; omega
  · exact hy q hq

/-- a non-tolerated failure: the play reports an error, and nothing later is performed -/
theorem LoopStep.bad (h : LoopStep env play rp fuel j ao nrep t res occs) :
    ∀ r ∈ res.1, r.bad → res.2.1 = false ∧ NoLater r res.1 := by
  induction h with
  | zero => simp
  | none => simp
  | fail fuel j ao nrep t act _ _ =>
    intro r hr hb; exact ⟨rfl, (actRun_bad env ao j t act r hr hb).2⟩
  | stop fuel j ao nrep t act _ hok _ _ =>
    intro r hr hb; have := (actRun_bad env ao j t act r hr hb).1; rw [hok] at this; cases this
  | jump fuel j ao nrep t act res occs _ hok _ _ hrec ih =>
    intro r hr hb
    rcases List.mem_append.mp hr with hr | hr
    · have := (actRun_bad env ao j t act r hr hb).1; rw [hok] at this; cases this
    · obtain ⟨h1, h2⟩ := ih r hr hb
      exact ⟨h1, bad_step (fun q hq => (actRun_rec env ao j t act q hq).1) (hrec.bnd r hr).1 h2⟩
  | next fuel j ao nrep t act res occs _ hok _ hrec ih =>
    intro r hr hb
    rcases List.mem_append.mp hr with hr | hr
    · have := (actRun_bad env ao j t act r hr hb).1; rw [hok] at this; cases this
    · obtain ⟨h1, h2⟩ := ih r hr hb
      exact ⟨h1, bad_step (fun q hq => (actRun_rec env ao j t act q hq).1) (hrec.bnd r hr).1 h2⟩

/-- the play reports an error only if some action failed without being tolerated -/
theorem LoopStep.failed (h : LoopStep env play rp fuel j ao nrep t res occs) :
    res.2.1 = false → ∃ r ∈ res.1, r.bad := by
  induction h with
  | zero => simp
  | none => simp
  | fail fuel j ao nrep t act _ hf => intro _; exact runScenes_fail env ao j _ 0 _ act hf
  | stop fuel j ao nrep t act _ _ _ _ => simp
  | jump fuel j ao nrep t act res occs _ _ _ _ _ ih =>
    intro hf; obtain ⟨r, hr, hb⟩ := ih hf; exact ⟨r, List.mem_append_right _ hr, hb⟩
  | next fuel j ao nrep t act res occs _ _ _ _ ih =>
    intro hf; obtain ⟨r, hr, hb⟩ := ih hf; exact ⟨r, List.mem_append_right _ hr, hb⟩

theorem actRun_ok_pos (env : Env) (play : Play) (ao j t : Nat) (act : Act) (hj : play[j]? = some act)
    (hok : (actRun env ao j t act).2.2 = true) :
    (actRun env ao j t act).1.map (·.pos) =
      (actPositions (play[j]?.getD [])).map (fun p => (⟨ao, j, p.1, p.2.1, p.2.2⟩ : Pos)) := by
  rw [hj, Option.getD_some, actPositions_eq]
  exact runScenes_ok_pos env ao j _ 0 _ act hok

/-- as long as no error is reported, the trace consists of the complete acts of `occs`, in order -/
theorem LoopStep.ok_pos (h : LoopStep env play rp fuel j ao nrep t res occs) :
    res.2.1 = true → res.1.map (·.pos) = expectedFrom play (occs.map (·.2.1)) ao := by
  induction h with
  | zero => intro _; rfl
  | none => intro _; rfl
  | fail fuel j ao nrep t act _ _ => intro h; cases h
  | stop fuel j ao nrep t act hj hok _ _ =>
    intro _; simp [expectedFrom, actRun_ok_pos env play ao j t act hj hok]
  | jump fuel j ao nrep t act res occs hj hok _ _ _ ih =>
    intro h
    simp only [List.map_append, List.map_cons, expectedFrom, ih h, actRun_ok_pos env play ao j t act hj hok]
  | next fuel j ao nrep t act res occs hj hok _ _ ih =>
    intro h
    simp only [List.map_append, List.map_cons, expectedFrom, ih h, actRun_ok_pos env play ao j t act hj hok]

/-! ### the repeat bookkeeping -/

/-- the acts played again after one jump back to `fromAct` -/
def repActs (play : Play) (rp : Repeat) : List Nat :=
  List.range' (rp.fromAct - 1) (play.length - (rp.fromAct - 1))

theorem atEnd_true {j : Nat} (h : atEnd play rp j = true) : 0 < rp.fromAct ∧ j + 1 = play.length := by
  simpa [atEnd] using h

theorem atEnd_false {j : Nat} (h : atEnd play rp j = false) : rp.fromAct = 0 ∨ j + 1 ≠ play.length := by
  simp only [atEnd, Bool.and_eq_false_iff, decide_eq_false_iff_not, beq_eq_false_iff_ne] at h
  omega

theorem stops_false {nrep : Nat} (h : stops env rp nrep = false) :
    ¬ (0 < rp.count ∧ rp.count ≤ (nrep : Int) + 1) ∧ ¬ (rp.hasTimeout = true ∧ env.timedOut nrep = true) := by
  simp only [stops, Bool.or_eq_false_iff, Bool.and_eq_false_iff, decide_eq_false_iff_not] at h
  refine ⟨fun hh => ?_, fun hh => ?_⟩
  · rcases h.1 with h1 | h1
    · exact h1 hh.1
    · exact h1 hh.2
  · rcases h.2 with h1 | h1
    · rw [hh.1] at h1; cases h1
    · rw [hh.2] at h1; cases h1

theorem stops_true_noTimeout {nrep : Nat} (hto : rp.hasTimeout = false) (h : stops env rp nrep = true) :
    0 < rp.count ∧ rp.count ≤ (nrep : Int) + 1 := by
  simpa [stops, hto] using h

theorem some_lt {j : Nat} {act : Act} (hj : play[j]? = some act) : j < play.length := by
  obtain ⟨h, _⟩ := List.getElem?_eq_some_iff.mp hj; exact h

/-- shape of a complete, successful run: the rest of the first pass, then `m` whole repetitions -/
theorem LoopStep.shape (h : LoopStep env play rp fuel j ao nrep t res occs) :
    res.2.1 = true → res.2.2 = true →
    ∃ m, occs.map (·.2.1) = List.range' j (play.length - j) ++ (List.replicate m (repActs play rp)).flatten ∧
      (rp.fromAct = 0 → m = 0) ∧ (1 ≤ rp.count → ((nrep + m + 1 : Nat) : Int) ≤ rp.count ∨ m = 0) := by
  induction h with
  | zero => intro _ h; cases h
  | none fuel j ao nrep t hj =>
    intro _ _
    have : play.length ≤ j := by simpa using hj
    exact ⟨0, by simp [Nat.sub_eq_zero_of_le this], fun _ => rfl, fun _ => Or.inr rfl⟩
  | fail => intro h; cases h
  | stop fuel j ao nrep t act hj _ he _ =>
    intro _ _
    have := atEnd_true he
    have h1 : play.length - j = 1 := by omega
    exact ⟨0, by simp [h1], fun _ => rfl, fun _ => Or.inr rfl⟩
  | jump fuel j ao nrep t act res occs hj _ he hs _ ih =>
    intro h1 h2
    obtain ⟨m, hm, _, hc⟩ := ih h1 h2
    have hae := atEnd_true he
    have h3 : play.length - j = 1 := by omega
    refine ⟨m + 1, ?_, fun h0 => by omega, fun hcnt => Or.inl ?_⟩
    · simp only [List.map_cons, hm, h3, List.replicate_succ, List.flatten_cons, repActs]
      simp
    · have := (stops_false hs).1
      rcases hc hcnt with hc | hc
      · omega
      · omega
  | next fuel j ao nrep t act res occs hj _ he _ ih =>
    intro h1 h2
    obtain ⟨m, hm, h0, hc⟩ := ih h1 h2
    have hlt := some_lt hj
    have h3 : play.length - j = (play.length - (j + 1)) + 1 := by omega
    refine ⟨m, ?_, h0, hc⟩
    simp only [List.map_cons, hm, h3, List.range'_succ]
    simp

/-- … and with `repeat N times` (no time limit) the number of repetitions is determined -/
theorem LoopStep.shapeN (h : LoopStep env play rp fuel j ao nrep t res occs) {N : Nat}
    (hfa : 0 < rp.fromAct) (hto : rp.hasTimeout = false) (hN : rp.count = (N : Int)) (hN1 : 1 ≤ N) :
    (j < play.length ∨ play.length ≤ rp.fromAct - 1) → res.2.1 = true → res.2.2 = true →
    occs.map (·.2.1) =
      List.range' j (play.length - j) ++ (List.replicate (N - 1 - nrep) (repActs play rp)).flatten := by
  induction h with
  | zero => intro _ _ h; cases h
  | none fuel j ao nrep t hj =>
    intro hinv _ _
    have : play.length ≤ j := by simpa using hj
    have h2 : play.length - (rp.fromAct - 1) = 0 := by omega
    simp [Nat.sub_eq_zero_of_le this, repActs, h2]
  | fail => intro _ h; cases h
  | stop fuel j ao nrep t act hj _ he hs =>
    intro _ _ _
    have := atEnd_true he
    have h1 : play.length - j = 1 := by omega
    have h2 := stops_true_noTimeout hto hs
    have h3 : N - 1 - nrep = 0 := by omega
    simp [h1, h3]
  | jump fuel j ao nrep t act res occs hj _ he hs _ ih =>
    intro _ h1 h2
    have hm := ih (by omega) h1 h2
    have hae := atEnd_true he
    have h3 : play.length - j = 1 := by omega
    have h4 := (stops_false hs).1
    have h5 : N - 1 - nrep = (N - 1 - (nrep + 1)) + 1 := by omega
    simp only [List.map_cons, hm, h3, h5, List.replicate_succ, List.flatten_cons, repActs]
    simp
  | next fuel j ao nrep t act res occs hj _ he _ ih =>
    intro _ h1 h2
    have hlt := some_lt hj
    have hae := atEnd_false he
    have hm := ih (by omega) h1 h2
    have h3 : play.length - j = (play.length - (j + 1)) + 1 := by omega
    simp only [List.map_cons, hm, h3, List.range'_succ]
    simp

/-- with `repeat N times` (with or without a time limit) the loop ends by itself within the stated
fuel -/
theorem LoopStep.finishes (h : LoopStep env play rp fuel j ao nrep t res occs) {N : Nat}
    (hfa : 0 < rp.fromAct) (hN : rp.count = (N : Int)) (h1 : 1 ≤ N) :
    (play.length - j) + (N - 1 - nrep) * (play.length - rp.fromAct + 1) + 1 ≤ fuel → res.2.2 = true := by
  induction h with
  | zero => intro h; omega
  | none => intro _; rfl
  | fail => intro _; rfl
  | stop => intro _; rfl
  | jump fuel j ao nrep t act res occs hj _ he hs _ ih =>
    intro hf
    apply ih
    have hae := atEnd_true he
    have h4 := (stops_false hs).1
    have h5 : N - 1 - nrep = (N - 1 - (nrep + 1)) + 1 := by omega
    rw [h5, Nat.succ_mul] at hf
    generalize (N - 1 - (nrep + 1)) * (play.length - rp.fromAct + 1) = P at hf ⊢
    omega
  | next fuel j ao nrep t act res occs hj _ he _ ih =>
    intro hf
    apply ih
    have hlt := some_lt hj
    generalize (N - 1 - nrep) * (play.length - rp.fromAct + 1) = P at hf ⊢
    omega

/-- with `repeat 0 times` / `repeat always` (count ≤ 0) and no time limit the loop only ends on an
error -/
theorem LoopStep.never_finishes (h : LoopStep env play rp fuel j ao nrep t res occs)
    (hfa : 0 < rp.fromAct) (hle : rp.fromAct ≤ play.length) (hc : rp.count ≤ 0)
    (hto : rp.hasTimeout = false) :
    j < play.length → res.2.2 = true → res.2.1 = false := by
  induction h with
  | zero => intro _ h; cases h
  | none fuel j ao nrep t hj =>
    intro hlt _
    have : play.length ≤ j := by simpa using hj
    omega
  | fail => intro _ _; rfl
  | stop fuel j ao nrep t act hj _ he hs =>
    intro _ _
    have := stops_true_noTimeout hto hs
    omega
  | jump fuel j ao nrep t act res occs hj _ he hs _ ih =>
    intro _ h2; exact ih (by omega) h2
  | next fuel j ao nrep t act res occs hj _ he _ ih =>
    intro hlt h2
    have hae := atEnd_false he
    have := hfa
    exact ih (by omega) h2

end loop

/-! ## Counting: `actPositions`, `expectedActs`, `expectedFrom` -/

theorem linesPositions_mem_iff (sc : Nat) (lines : List Line) (ln : Nat) (p : Nat × Nat × Nat) :
    p ∈ linesPositions sc lines ln ↔
      p.1 = sc ∧ ln ≤ p.2.1 ∧ ∃ l, lines[p.2.1 - ln]? = some l ∧ p.2.2 < l.steps.length := by
  induction lines generalizing ln with
  | nil => simp [linesPositions_nil]
  | cons l rest ih =>
    rw [linesPositions_cons, List.mem_append, ih (ln + 1)]
    constructor
    · rintro (h | ⟨h1, h2, l', h3, h4⟩)
      · obtain ⟨k, hk, rfl⟩ := List.mem_map.mp h
        exact ⟨rfl, Nat.le_refl _, l, by simp, by simpa using hk⟩
      · refine ⟨h1, by omega, l', ?_, h4⟩
        have : p.2.1 - ln = (p.2.1 - (ln + 1)) + 1 := by omega
        rw [this, List.getElem?_cons_succ]; exact h3
    · rintro ⟨h1, h2, l', h3, h4⟩
      by_cases hln : p.2.1 = ln
      · left
        have : p.2.1 - ln = 0 := by omega
        rw [this] at h3
        simp only [List.getElem?_cons_zero, Option.some.injEq] at h3
        subst h3
        exact List.mem_map.mpr ⟨p.2.2, by simpa using h4, by rw [← h1, ← hln]⟩
      · right
        refine ⟨h1, by omega, l', ?_, h4⟩
        have : p.2.1 - ln = (p.2.1 - (ln + 1)) + 1 := by omega
        rw [this, List.getElem?_cons_succ] at h3; exact h3

theorem linesPositions_nodup (sc : Nat) (lines : List Line) (ln : Nat) :
    (linesPositions sc lines ln).Nodup := by
  induction lines generalizing ln with
  | nil => simp [linesPositions_nil]
  | cons l rest ih =>
    rw [linesPositions_cons, List.nodup_append]
    refine ⟨?_, ih (ln + 1), ?_⟩
    · exact List.Pairwise.map _ (fun a b hab h => hab (by simpa using h)) List.nodup_range
    · intro x hx y hy hxy
      obtain ⟨k, _, rfl⟩ := List.mem_map.mp hx
      have := ((linesPositions_mem_iff sc rest (ln + 1) y).mp hy).2.1
      rw [← hxy] at this
      simp only [] at this; omega

theorem scenesPositions_mem_iff (scenes : List Scene) (sc : Nat) (p : Nat × Nat × Nat) :
    p ∈ scenesPositions scenes sc ↔
      sc ≤ p.1 ∧ ∃ s l, scenes[p.1 - sc]? = some s ∧ s.lines[p.2.1]? = some l ∧ p.2.2 < l.steps.length := by
  induction scenes generalizing sc with
  | nil => simp [scenesPositions]
  | cons s rest ih =>
    rw [scenesPositions_cons, List.mem_append, ih (sc + 1), linesPositions_mem_iff]
    constructor
    · rintro (⟨h1, _, l, h3, h4⟩ | ⟨h1, s', l, h2, h3, h4⟩)
      · exact ⟨by omega, s, l, by simp [h1], by simpa using h3, h4⟩
      · refine ⟨by omega, s', l, ?_, h3, h4⟩
        have : p.1 - sc = (p.1 - (sc + 1)) + 1 := by omega
        rw [this, List.getElem?_cons_succ]; exact h2
    · rintro ⟨h1, s', l, h2, h3, h4⟩
      by_cases hsc : p.1 = sc
      · left
        have : p.1 - sc = 0 := by omega
        rw [this] at h2
        simp only [List.getElem?_cons_zero, Option.some.injEq] at h2
        subst h2
        exact ⟨hsc, Nat.zero_le _, l, by simpa using h3, h4⟩
      · right
        refine ⟨by omega, s', l, ?_, h3, h4⟩
        have : p.1 - sc = (p.1 - (sc + 1)) + 1 := by omega
        rw [this, List.getElem?_cons_succ] at h2; exact h2

theorem scenesPositions_nodup (scenes : List Scene) (sc : Nat) : (scenesPositions scenes sc).Nodup := by
  induction scenes generalizing sc with
  | nil => simp [scenesPositions]
  | cons s rest ih =>
    rw [scenesPositions_cons, List.nodup_append]
    refine ⟨linesPositions_nodup sc s.lines 0, ih (sc + 1), ?_⟩
    intro x hx y hy hxy
    have h1 := ((linesPositions_mem_iff sc s.lines 0 x).mp hx).1
    have h2 := ((scenesPositions_mem_iff rest (sc + 1) y).mp hy).1
    rw [← hxy] at h2; omega

/-- the positions of an act are exactly the steps of the lines of its scenes -/
theorem actPositions_mem_iff (act : Act) (sc ln k : Nat) :
    (sc, ln, k) ∈ actPositions act ↔
      ∃ s l, act[sc]? = some s ∧ s.lines[ln]? = some l ∧ k < l.steps.length := by
  rw [actPositions_eq, scenesPositions_mem_iff]; simp

theorem actPositions_nodup (act : Act) : (actPositions act).Nodup := by
  rw [actPositions_eq]; exact scenesPositions_nodup act 0

theorem count_actPositions {act : Act} {p : Nat × Nat × Nat} (h : p ∈ actPositions act) :
    (actPositions act).count p = 1 := by
  rw [(actPositions_nodup act).count]; simp [h]

theorem count_flatten_replicate (a m : Nat) (R : List Nat) :
    (List.replicate m R).flatten.count a = m * R.count a := by
  induction m with
  | zero => simp
  | succ m ih => rw [List.replicate_succ, List.flatten_cons, List.count_append, ih, Nat.succ_mul, Nat.add_comm]

/-- how often act `j` occurs in a complete run of `passes` passes -/
theorem count_expectedActs (play : Play) (rp : Repeat) (passes j : Nat) (hj : j < play.length)
    (hp : 1 ≤ passes) : (expectedActs play rp passes).count j = actMultiplicity play rp passes j := by
  simp only [expectedActs, actMultiplicity, List.count_append, List.count_range_1']
  by_cases hfa : rp.fromAct > 0
  · simp only [hfa, if_true, count_flatten_replicate, List.count_range_1', decide_true, Bool.true_and,
      decide_eq_true_eq]
    by_cases h2 : j + 1 ≥ rp.fromAct
    · have h3 : rp.fromAct - 1 ≤ j ∧ j < rp.fromAct - 1 + (play.length - (rp.fromAct - 1)) := by omega
      simp only [h2, h3, if_true, and_self]
      have : 0 ≤ j ∧ j < 0 + play.length := by omega
      simp only [this, and_self, if_true]; omega
    · have h3 : ¬ (rp.fromAct - 1 ≤ j ∧ j < rp.fromAct - 1 + (play.length - (rp.fromAct - 1))) := by omega
      have : 0 ≤ j ∧ j < 0 + play.length := by omega
      simp only [h2, h3, if_false, this, and_self, if_true]; omega
  · have : 0 ≤ j ∧ j < 0 + play.length := by omega
    simp [hfa, this, hj]

/-- the act sequence "first pass, then `m` repetitions" is `expectedActs` for `m + 1` passes -/
theorem expectedActs_shape {play : Play} {rp : Repeat} {m : Nat} (h0 : rp.fromAct = 0 → m = 0) :
    List.range' 0 (play.length - 0) ++ (List.replicate m (repActs play rp)).flatten =
      expectedActs play rp (m + 1) := by
  simp only [expectedActs, Nat.sub_zero, Nat.add_sub_cancel, repActs]
  by_cases hfa : rp.fromAct > 0
  · simp [hfa]
  · have : m = 0 := h0 (by omega)
    subst this; simp [hfa]

/-- the position test used in the multiplicity statements -/
def posIs (j sc ln k : Nat) (p : Pos) : Bool := p.act == j && p.scene == sc && p.line == ln && p.step == k

theorem countP_expectedFrom (play : Play) (acts : List Nat) (ao j sc ln k : Nat) :
    (expectedFrom play acts ao).countP (posIs j sc ln k) =
      acts.count j * (actPositions (play[j]?.getD [])).count (sc, ln, k) := by
  induction acts generalizing ao with
  | nil => simp [expectedFrom]
  | cons j' rest ih =>
    simp only [expectedFrom, List.countP_append, List.countP_map, ih, List.count_cons]
    by_cases hjj : j' = j
    · subst hjj
      have : List.countP (posIs j' sc ln k ∘ fun p : Nat × Nat × Nat => (⟨ao, j', p.1, p.2.1, p.2.2⟩ : Pos))
          (actPositions (play[j']?.getD [])) = (actPositions (play[j']?.getD [])).count (sc, ln, k) := by
        rw [List.count]
        apply List.countP_congr
        intro x _
        obtain ⟨x1, x2, x3⟩ := x
        simp [posIs, and_assoc]
      rw [this]
      simp only [beq_self_eq_true, if_true, Nat.add_mul, Nat.one_mul]; omega
    · have : List.countP (posIs j sc ln k ∘ fun p : Nat × Nat × Nat => (⟨ao, j', p.1, p.2.1, p.2.2⟩ : Pos))
          (actPositions (play[j']?.getD [])) = 0 := by
        rw [List.countP_eq_zero]
        intro x _
        simp [posIs, hjj]
      have hne : (j' == j) = false := by simpa using hjj
      rw [this, hne]; simp

/-! ## Statement vocabulary for the property files -/

/-- a record describes a step of the script and reports faithfully what the command experienced -/
structure WellFormed (env : Env) (play : Play) (r : Rec) : Prop where
  /-- start before stop -/
  order : r.start ≤ r.stop
  /-- the position is a position of the script, and actor / action / `?` mark are those of the script -/
  pos : ∃ act s l st, play[r.pos.act]? = some act ∧ act[r.pos.scene]? = some s ∧
    s.lines[r.pos.line]? = some l ∧ l.steps[r.pos.step]? = some st ∧
    r.actor = l.actor ∧ r.action = st.action ∧ r.failOk = st.failOk
  /-- recorded duration = the command's duration -/
  dur : r.stop = r.start + (env.occ r.pos).dur
  /-- recorded status = the command's exit status -/
  status : r.ok = (env.occ r.pos).ok

theorem Src.wellFormed {env : Env} {play : Play} {occs : List (Nat × Nat × Nat)} {tr : List Rec} {r : Rec}
    (h : Src env play occs tr r) : WellFormed env play r := by
  obtain ⟨act, s, l, t0, t1, h1, h2, h3, _, _, h6, _⟩ := h
  have hr := runLine_rec env _ _ _ _ l.actor 0 t1 l.steps r h6
  obtain ⟨st, hs1, hs2, hs3⟩ := hr.step
  have hd := hr.dur
  exact ⟨by omega, ⟨act, s, l, st, h1, h2, h3, by simpa using hs1, hr.actor, hs2, hs3⟩, hd, hr.ok⟩

theorem perform_step (env : Env) (play : Play) (rp : Repeat) (fuel : Nat) :
    LoopStep env play rp fuel 0 0 0 0 (perform env play rp fuel) (performOccs env play rp fuel) :=
  loopStep env play rp fuel 0 0 0 0

/-! ## A small concrete performance used by the non-vacuity examples

Two acts; act 1 has a scene with two concurrent lines (`a`: x, y? — `b`: z), a second scene 50
after the act's start whose tolerated action `y?` fails, and a mood-only scene at 100; act 2 has
one action and is repeated (`repeat 2 times` from act 2).  Commands of line `ln` take `10 + ln`;
step `k` of a line is delayed by `k`; each scene by 1, each act by 2. -/
namespace Ex

def env : Env :=
  ⟨fun p => ⟨p.step, 10 + p.line, !(p.scene == 1 && p.line == 0 && p.step == 1)⟩, fun _ _ => 1, fun _ => 2,
    fun _ => false⟩

def play : Play :=
  [[⟨0, [⟨"a", [⟨"x", false⟩, ⟨"y", true⟩]⟩, ⟨"b", [⟨"z", false⟩]⟩]⟩, ⟨50, [⟨"a", [⟨"x", false⟩, ⟨"y", true⟩]⟩]⟩,
    ⟨100, []⟩],
   [⟨0, [⟨"b", [⟨"z", false⟩]⟩]⟩, ⟨30, []⟩]]

def rp : Repeat := ⟨2, 2, false⟩

/-- the same play where the failing action `y` of act 1, scene 2 is *not* tolerated -/
def playStrict : Play :=
  [[⟨0, [⟨"a", [⟨"x", false⟩, ⟨"y", true⟩]⟩, ⟨"b", [⟨"z", false⟩]⟩]⟩, ⟨50, [⟨"a", [⟨"x", false⟩, ⟨"y", false⟩, ⟨"x", false⟩]⟩]⟩,
    ⟨100, []⟩],
   [⟨0, [⟨"b", [⟨"z", false⟩]⟩]⟩, ⟨30, []⟩]]

/-- the same play where the tolerated failing action `y?` is followed by a further step -/
def playTol : Play :=
  [[⟨0, [⟨"a", [⟨"x", false⟩, ⟨"y", true⟩]⟩, ⟨"b", [⟨"z", false⟩]⟩]⟩, ⟨50, [⟨"a", [⟨"x", false⟩, ⟨"y", true⟩, ⟨"x", false⟩]⟩]⟩,
    ⟨100, []⟩],
   [⟨0, [⟨"b", [⟨"z", false⟩]⟩]⟩, ⟨30, []⟩]]

/-- an environment that differs from `env` on every line 1 only: there commands start late, take
very long and fail -/
def envSlowB : Env := { env with occ := fun p => if p.line == 1 then ⟨7, 1000, false⟩ else env.occ p }

/-- a time limit on the repetition that strikes after the second pass -/
def envTimeout : Env := { env with timedOut := fun k => k ≥ 1 }

end Ex

/-- a line ends exactly when its last performed step stops (or at once, when it has no step) -/
theorem runLine_end_attained (env : Env) (ao a sc ln : Nat) (actor : String) (k t : Nat) (steps : List Step) :
    ((runLine env ao a sc ln actor k t steps).1 = [] ∧ (runLine env ao a sc ln actor k t steps).2.1 = t) ∨
    ∃ r ∈ (runLine env ao a sc ln actor k t steps).1, r.stop = (runLine env ao a sc ln actor k t steps).2.1 := by
  induction steps generalizing k t with
  | nil => left; simp [runLine]
  | cons st rest ih =>
    right
    simp only [runLine]
    split
    · exact ⟨_, List.mem_singleton.mpr rfl, rfl⟩
    · rcases ih (k + 1) (t + (env.occ ⟨ao, a, sc, ln, k⟩).jitter + (env.occ ⟨ao, a, sc, ln, k⟩).dur) with ⟨h1, h2⟩ | ⟨r, hr, he⟩
      · refine ⟨_, List.mem_cons_self, ?_⟩
        simp only [h2]
      · exact ⟨r, List.mem_cons_of_mem _ hr, he⟩

/-- the WaitGroup of a scene releases exactly when the last action of the scene stops -/
theorem runScene_end_attained (env : Env) (ao a sc t ln : Nat) (lines : List Line) :
    ((runScene env ao a sc t ln lines).1 = [] ∧ (runScene env ao a sc t ln lines).2.1 = t) ∨
    ∃ r ∈ (runScene env ao a sc t ln lines).1, r.stop = (runScene env ao a sc t ln lines).2.1 := by
  induction lines generalizing ln with
  | nil => left; simp [runScene]
  | cons l rest ih =>
    have hx := runLine_end_attained env ao a sc ln l.actor 0 t l.steps
    have hy := ih (ln + 1)
    have hxl := runLine_le env ao a sc ln l.actor 0 t l.steps
    have hyl := runScene_le env ao a sc t (ln + 1) rest
    simp only [runScene]
    rcases Nat.le_total (runLine env ao a sc ln l.actor 0 t l.steps).2.1 (runScene env ao a sc t (ln + 1) rest).2.1 with hle | hle
    · rw [Nat.max_eq_right hle]
      rcases hy with ⟨h1, h2⟩ | ⟨r, hr, he⟩
      · rcases hx with ⟨g1, g2⟩ | ⟨r, hr, he⟩
        · left; exact ⟨by rw [g1, h1]; rfl, h2⟩
        · right; exact ⟨r, List.mem_append_left _ hr, by omega⟩
      · right; exact ⟨r, List.mem_append_right _ hr, he⟩
    · rw [Nat.max_eq_left hle]
      rcases hx with ⟨g1, g2⟩ | ⟨r, hr, he⟩
      · rcases hy with ⟨h1, h2⟩ | ⟨r, hr, he⟩
        · left; exact ⟨by rw [g1, h1]; rfl, g2⟩
        · right; exact ⟨r, List.mem_append_right _ hr, by omega⟩
      · right; exact ⟨r, List.mem_append_left _ hr, he⟩

end Shk.Prompt
