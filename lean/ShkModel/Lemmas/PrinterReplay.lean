import ShkModel.Lemmas.PrinterSched
/-! Helper lemmas for C10, part 3: loading the audience clauses in the order of a complete
sequence of allowed emissions rebuilds the audience. -/
set_option linter.unusedSimpArgs false
set_option linter.unusedVariables false
namespace Shk.Printer
open Shk.Story (Act)

/-! ## `checkEx` in closed form -/

def isSig : Var → Bool
  | .sig _ _ => true
  | .comp _ => false

/-- the observer list after the signals of an expression were added -/
def addSigs : List Var → List Var → List Var
  | obs, [] => obs
  | obs, .comp _ :: rest => addSigs obs rest
  | obs, .sig a s :: rest => addSigs (if obs.contains (.sig a s) then obs else obs ++ [.sig a s]) rest

def SigOk (c : Cfg) (a s : String) : Prop :=
  ∃ act r, findActor c a = some act ∧ findRole c act.role = some r ∧ roleHasSig r s = true

def VarOk (c : Cfg) : Var → Prop
  | .comp n => n ∈ definedVars c
  | .sig a s => SigOk c a s

theorem checkVars_eq (c : Cfg) : ∀ (vs : List Var) (m : Member), (∀ v ∈ vs, VarOk c v) →
    checkVars c m vs = some { m with obs := addSigs m.obs vs } := by
  intro vs
  induction vs with
  | nil => intro m _; rfl
  | cons v vs ih =>
    intro m h
    have hv := h v List.mem_cons_self
    have hrest : ∀ x ∈ vs, VarOk c x := fun x hx => h x (List.mem_cons_of_mem _ hx)
    cases v with
    | comp n =>
      have : (definedVars c).contains n = true := by simpa [VarOk] using hv
      simp only [checkVars, checkVar, this, if_true, addSigs]
      exact ih m hrest
    | sig a s =>
      obtain ⟨act, r, h1, h2, h3⟩ := hv
      simp only [checkVars, checkVar, h1, h2, h3, if_true, addSigs]
      rw [ih _ hrest]
      simp only [addObs]
      split <;> rfl

theorem checkVars_some (c : Cfg) : ∀ (vs : List Var) (m m' : Member), checkVars c m vs = some m' →
    (∀ v ∈ vs, VarOk c v) ∧ m' = { m with obs := addSigs m.obs vs } := by
  intro vs
  induction vs with
  | nil => intro m m' h; simp [checkVars] at h; exact ⟨by simp, h.symm⟩
  | cons v vs ih =>
    intro m m' h
    simp only [checkVars] at h
    cases hv : checkVar c m v with
    | none => simp [hv] at h
    | some m1 =>
      simp only [hv] at h
      obtain ⟨h1, h2⟩ := ih m1 m' h
      cases v with
      | comp n =>
        simp only [checkVar] at hv
        split at hv
        · rename_i hd
          injection hv with hv; subst hv
          refine ⟨?_, by simpa [addSigs] using h2⟩
          intro x hx
          rcases List.mem_cons.mp hx with rfl | hx
          · simpa [VarOk] using hd
          · exact h1 x hx
        · cases hv
      | sig a s =>
        simp only [checkVar] at hv
        cases ha : findActor c a with
        | none => simp [ha] at hv
        | some act =>
          simp only [ha] at hv
          cases hr : findRole c act.role with
          | none => simp [hr] at hv
          | some r =>
            simp only [hr] at hv
            split at hv
            · rename_i hs
              injection hv with hv; subst hv
              refine ⟨?_, ?_⟩
              · intro x hx
                rcases List.mem_cons.mp hx with rfl | hx
                · exact ⟨act, r, ha, hr, hs⟩
                · exact h1 x hx
              · rw [h2]; simp only [addObs, addSigs]; split <;> rfl
            · cases hv

theorem mem_addSigs {x : Var} : ∀ (vs obs : List Var),
    x ∈ addSigs obs vs ↔ x ∈ obs ∨ (x ∈ vs ∧ isSig x = true) := by
  intro vs
  induction vs with
  | nil => intro obs; simp [addSigs]
  | cons v vs ih =>
    intro obs
    cases v with
    | comp n =>
      simp only [addSigs, ih, List.mem_cons]
      constructor
      · rintro (h | ⟨h, hs⟩)
        · exact Or.inl h
        · exact Or.inr ⟨Or.inr h, hs⟩
      · rintro (h | ⟨h | h, hs⟩)
        · exact Or.inl h
        · subst h; simp [isSig] at hs
        · exact Or.inr ⟨h, hs⟩
    | sig a s =>
      simp only [addSigs, ih, List.mem_cons]
      split
      · rename_i hc
        have hc' : Var.sig a s ∈ obs := by simpa using hc
        constructor
        · rintro (h | ⟨h, hs⟩)
          · exact Or.inl h
          · exact Or.inr ⟨Or.inr h, hs⟩
        · rintro (h | ⟨h | h, hs⟩)
          · exact Or.inl h
          · subst h; exact Or.inl hc'
          · exact Or.inr ⟨h, hs⟩
      · simp only [List.mem_append, List.mem_singleton]
        constructor
        · rintro ((h | h) | ⟨h, hs⟩)
          · exact Or.inl h
          · subst h; exact Or.inr ⟨Or.inl rfl, rfl⟩
          · exact Or.inr ⟨Or.inr h, hs⟩
        · rintro (h | ⟨h | h, hs⟩)
          · exact Or.inl (Or.inl h)
          · exact Or.inl (Or.inr h)
          · exact Or.inr ⟨h, hs⟩

theorem nodup_addSigs : ∀ (vs obs : List Var), obs.Nodup → (addSigs obs vs).Nodup := by
  intro vs
  induction vs with
  | nil => intro obs h; exact h
  | cons v vs ih =>
    intro obs h
    cases v with
    | comp n => exact ih obs h
    | sig a s =>
      simp only [addSigs]
      split
      · exact ih obs h
      · rename_i hc
        apply ih
        have hc' : Var.sig a s ∉ obs := by simpa using hc
        rw [List.nodup_append]
        refine ⟨h, by simp, ?_⟩
        intro x hx y hy
        simp at hy; subst hy
        exact fun e => hc' (e ▸ hx)

theorem nodup_addObs {m : Member} (v : Var) (h : m.obs.Nodup) : (addObs m v).obs.Nodup := by
  simp only [addObs]
  split
  · exact h
  · rename_i hc
    have hc' : v ∉ m.obs := by simpa using hc
    simp only
    rw [List.nodup_append]
    refine ⟨h, by simp, ?_⟩
    intro x hx y hy
    simp at hy; subst hy
    exact fun e => hc' (e ▸ hx)

theorem mem_addObs {m : Member} {v x : Var} : x ∈ (addObs m v).obs ↔ x ∈ m.obs ∨ x = v := by
  simp only [addObs]
  split
  · rename_i hc
    have hc' : v ∈ m.obs := by simpa using hc
    constructor
    · exact Or.inl
    · rintro (h | rfl)
      · exact h
      · exact hc'
  · simp

/-! ## the member that is being rebuilt -/

/-- the expression of an auditor clause -/
def exOf : AClause → Option Ex
  | .audits e => some e
  | .assign a => some a.ex
  | .expects _ e => some e
  | _ => none

def exSigs (c : AClause) : List Var :=
  match exOf c with
  | some e => e.vars.filter isSig
  | none => []

def chainSigs (l : List AClause) : List Var := l.flatMap exSigs

def assignsIn : List AClause → List Assign
  | [] => []
  | .assign a :: rest => a :: assignsIn rest
  | _ :: rest => assignsIn rest

def expectsIn : List AClause → Option (String × Ex)
  | [] => none
  | .expects md e :: _ => some (md, e)
  | _ :: rest => expectsIn rest

def ExpEquiv (x y : String × Ex) : Prop := x.1 = y.1 ∧ x.2.Equiv y.2

/-- the member `q` loaded so far against the original `m`, when the auditor clauses `doneC`
and the other clauses `doneF` have been read -/
structure QRel (m : Member) (doneC doneF : List AClause) (q : Member) : Prop where
  name : q.name = m.name
  bad : q.bad = .foulUpon
  good : q.good = .ignore
  active0 : doneC = [] → q.active = none
  active1 : doneC ≠ [] → m.active.isSome = true ∧ OptEquiv Ex.Equiv m.active q.active
  assigns : All₂ Assign.Equiv (assignsIn doneC) q.assigns
  expects : OptEquiv ExpEquiv (expectsIn doneC) q.expects
  obsNodup : q.obs.Nodup
  obs : ∀ v, v ∈ q.obs ↔ v ∈ chainSigs doneC ∨ watchClause v ∈ doneF
  ylabel : q.ylabel = if AClause.measures m.ylabel ∈ doneF then m.ylabel else ""
  noplot : q.noplot = decide (AClause.onlyHelps ∈ doneF)

/-- … together with what is still pending for it -/
def MRel (m : Member) (p : Pend) (q : Member) : Prop :=
  ∃ doneC doneF, chainOf m = doneC ++ p.chain ∧ (∀ x, x ∈ freeOf m ↔ x ∈ doneF ∨ x ∈ p.free) ∧
    QRel m doneC doneF q

theorem qrel_fresh (m : Member) : QRel m [] [] { name := m.name } where
  name := rfl
  bad := rfl
  good := rfl
  active0 := fun _ => rfl
  active1 := fun h => absurd rfl h
  assigns := .nil
  expects := trivial
  obsNodup := List.nodup_nil
  obs := by intro v; simp [chainSigs]
  ylabel := by simp
  noplot := by simp

theorem mrel_fresh (m : Member) : MRel m (pendOf m) { name := m.name } :=
  ⟨[], [], rfl, by intro x; simp [pendOf], qrel_fresh m⟩

/-! ## where a clause can sit in a member's chain -/

def chainHead (m : Member) : List AClause :=
  (match m.active with | some e => [AClause.audits e] | none => []) ++ m.assigns.map AClause.assign

def chainTail (m : Member) : List AClause :=
  match m.expects with | some (md, e) => [AClause.expects md e] | none => []

theorem chainOf_eq (m : Member) : chainOf m = chainHead m ++ chainTail m := by
  simp only [chainOf, chainHead, chainTail]
  cases m.expects with
  | none => rfl
  | some x => obtain ⟨md, e⟩ := x; rfl

def isExpectsC : AClause → Bool
  | .expects _ _ => true
  | _ => false

theorem chainHead_noexp (m : Member) : ∀ c ∈ chainHead m, isExpectsC c = false := by
  intro c hc
  simp only [chainHead, List.mem_append, List.mem_map] at hc
  rcases hc with hc | ⟨a, _, rfl⟩
  · cases hm : m.active with
    | none => simp [hm] at hc
    | some e => simp [hm] at hc; subst hc; rfl
  · rfl

theorem expectsIn_noexp : ∀ (l : List AClause), (∀ c ∈ l, isExpectsC c = false) → expectsIn l = none := by
  intro l
  induction l with
  | nil => intro _; rfl
  | cons c l ih =>
    intro h
    have hc := h c List.mem_cons_self
    cases c <;> simp [isExpectsC] at hc <;>
      exact ih (fun x hx => h x (List.mem_cons_of_mem _ hx))

theorem expectsIn_append_noexp : ∀ (l r : List AClause), (∀ c ∈ l, isExpectsC c = false) →
    expectsIn (l ++ r) = expectsIn r := by
  intro l
  induction l with
  | nil => intro r _; rfl
  | cons c l ih =>
    intro r h
    have hc := h c List.mem_cons_self
    cases c <;> simp [isExpectsC] at hc <;>
      exact ih r (fun x hx => h x (List.mem_cons_of_mem _ hx))

theorem assignsIn_append : ∀ (l r : List AClause), assignsIn (l ++ r) = assignsIn l ++ assignsIn r := by
  intro l
  induction l with
  | nil => intro r; rfl
  | cons c l ih => intro r; cases c <;> simp [assignsIn, ih]

theorem assignsIn_map (l : List Assign) : assignsIn (l.map AClause.assign) = l := by
  induction l with
  | nil => rfl
  | cons a l ih => simp [assignsIn, ih]

theorem assignsIn_chainOf (m : Member) : assignsIn (chainOf m) = m.assigns := by
  rw [chainOf_eq, assignsIn_append]
  simp only [chainHead, chainTail, assignsIn_append, assignsIn_map]
  cases m.active <;> cases m.expects <;> simp [assignsIn]

theorem expectsIn_chainOf (m : Member) : expectsIn (chainOf m) = m.expects := by
  rw [chainOf_eq, expectsIn_append_noexp _ _ (chainHead_noexp m)]
  simp only [chainTail]
  cases m.expects with
  | none => rfl
  | some x => obtain ⟨md, e⟩ := x; rfl

/-- an `expects` clause that is still pending is the last of the chain: none was read before -/
theorem split_expects {m : Member} {doneC rest : List AClause} {md : String} {e : Ex}
    (h : chainOf m = doneC ++ AClause.expects md e :: rest) :
    doneC = chainHead m ∧ rest = [] ∧ m.expects = some (md, e) := by
  rw [chainOf_eq] at h
  have hno := chainHead_noexp m
  rcases List.append_eq_append_iff.mp h with ⟨a', h1, h2⟩ | ⟨c', h1, h2⟩
  · -- doneC = chainHead m ++ a'
    cases a' with
    | nil =>
      simp only [List.nil_append] at h2
      simp only [chainTail] at h2
      cases hm : m.expects with
      | none => simp [hm] at h2
      | some x =>
        obtain ⟨md0, e0⟩ := x
        simp only [hm, List.cons.injEq, AClause.expects.injEq] at h2
        obtain ⟨⟨rfl, rfl⟩, hr⟩ := h2
        exact ⟨by simpa using h1, hr.symm, rfl⟩
    | cons y a'' =>
      exfalso
      simp only [chainTail] at h2
      cases hm : m.expects with
      | none => simp [hm] at h2
      | some x =>
        obtain ⟨md0, e0⟩ := x
        simp only [hm, List.cons_append, List.cons.injEq] at h2
        have := h2.2
        simp at this
  · cases c' with
    | nil =>
      simp only [List.nil_append] at h2
      simp only [chainTail] at h2
      cases hm : m.expects with
      | none => simp [hm] at h2
      | some x =>
        obtain ⟨md0, e0⟩ := x
        simp only [hm, List.cons.injEq, AClause.expects.injEq] at h2
        obtain ⟨⟨rfl, rfl⟩, hr⟩ := h2
        exact ⟨by simpa using h1.symm, hr, rfl⟩
    | cons y c'' =>
      exfalso
      simp only [List.cons_append, List.cons.injEq] at h2
      have hy : y = AClause.expects md e := h2.1.symm
      have : y ∈ chainHead m := by rw [h1]; simp
      have := hno y this
      rw [hy] at this
      simp [isExpectsC] at this

theorem chainOf_eq' (m : Member) : chainOf m =
    (match m.active with | some e => [AClause.audits e] | none => []) ++
      (m.assigns.map AClause.assign ++ chainTail m) := by
  rw [chainOf_eq, chainHead, List.append_assoc]

/-- an `audits` clause is the first of the chain -/
theorem split_audits {m : Member} {doneC rest : List AClause} {e : Ex}
    (h : chainOf m = doneC ++ AClause.audits e :: rest) : doneC = [] ∧ m.active = some e := by
  have hnot : ∀ x ∈ m.assigns.map AClause.assign ++ chainTail m, ∀ e', x ≠ AClause.audits e' := by
    intro x hx e' he
    subst he
    simp only [List.mem_append, List.mem_map, chainTail] at hx
    rcases hx with ⟨a, _, ha⟩ | hx
    · cases ha
    · cases hm : m.expects with
      | none => simp [hm] at hx
      | some y => obtain ⟨md, e2⟩ := y; simp [hm] at hx
  rw [chainOf_eq'] at h
  cases hm : m.active with
  | none =>
    simp only [hm, List.nil_append] at h
    have hmem : AClause.audits e ∈ doneC ++ AClause.audits e :: rest := by simp
    rw [← h] at hmem
    exact absurd rfl (hnot _ hmem e)
  | some e0 =>
    simp only [hm, List.cons_append, List.nil_append] at h
    cases doneC with
    | nil =>
      simp only [List.nil_append, List.cons.injEq, AClause.audits.injEq] at h
      exact ⟨rfl, by rw [h.1]⟩
    | cons d ds =>
      simp only [List.cons_append, List.cons.injEq] at h
      have hmem : AClause.audits e ∈ ds ++ AClause.audits e :: rest := by simp
      rw [← h.2] at hmem
      exact absurd rfl (hnot _ hmem e)

/-- any other auditor clause comes after the `audits` clause -/
theorem split_other {m : Member} (hm3 : m.active = none → m.assigns = [] ∧ m.expects = none)
    {doneC rest : List AClause} {c : AClause} (hc : ∀ e, c ≠ AClause.audits e)
    (h : chainOf m = doneC ++ c :: rest) : doneC ≠ [] ∧ m.active.isSome = true := by
  cases hm : m.active with
  | none =>
    obtain ⟨h1, h2⟩ := hm3 hm
    simp [chainOf, hm, h1, h2] at h
  | some e0 =>
    refine ⟨?_, rfl⟩
    rintro rfl
    simp only [chainOf, hm, List.nil_append, List.cons_append, List.cons.injEq] at h
    exact hc e0 h.1.symm

/-! ## closed forms of the elementary operations -/

theorem checkEx_eq (c : Cfg) (m : Member) (e : Ex) (h : ∀ v ∈ e.vars, VarOk c v) :
    checkEx c m e = some { m with obs := addSigs m.obs e.vars } := checkVars_eq c e.vars m h

theorem pAudits_eq {c : Cfg} {n : String} {e : Ex} (ha : (getMember c n).active = none)
    (hv : ∀ v ∈ e.vars, VarOk c v) :
    pAudits c n e = some (putMember c { (getMember c n) with
      obs := addSigs (getMember c n).obs e.vars, active := some e }) := by
  simp only [pAudits, ha, checkEx_eq c _ e hv]

theorem needCond_eq {c : Cfg} {n : String} {x : Ex} (ha : (getMember c n).active = some x) :
    needCond c n = some c := by
  simp only [needCond, ha]

theorem pAssign_eq {c : Cfg} {n : String} {a : Assign} (hok : okAssign a = true)
    (hv : ∀ v ∈ a.ex.vars, VarOk c v) (hnew : a.var ∉ definedVars c) :
    pAssign c n a = some (putMember c { (getMember c n) with
      obs := addSigs (getMember c n).obs a.ex.vars, assigns := (getMember c n).assigns ++ [a] }) := by
  have hnew' : (definedVars c).contains a.var = false := by simpa using hnew
  simp only [pAssign, hok, Bool.not_true, Bool.false_eq_true, if_false, checkEx_eq c _ a.ex hv, hnew']

theorem pExpects_eq {c : Cfg} {n md : String} {e : Ex} (he : (getMember c n).expects = none)
    (hv : ∀ v ∈ e.vars, VarOk c v) :
    pExpects c n md e = some (putMember c { (getMember c n) with
      obs := addSigs (getMember c n).obs e.vars, expects := some (md, e) }) := by
  simp only [pExpects, he, checkEx_eq c _ e hv]

theorem pWatchActor_eq {c : Cfg} {n a s : String} (h : SigOk c a s) :
    pWatchActor c n a s = some (putMember c (addObs (getMember c n) (.sig a s))) := by
  obtain ⟨act, r, h1, h2, h3⟩ := h
  simp only [pWatchActor, h1, h2, h3, if_true]

theorem pWatchVar_eq {c : Cfg} {n v : String} (h : v ∈ definedVars c) :
    pWatchVar c n v = some (putMember c (addObs (getMember c n) (.comp v))) := by
  have : (definedVars c).contains v = true := by simpa using h
  simp only [pWatchVar, this, if_true]

/-! ## the member list after an operation -/

theorem getMember_name (c : Cfg) (n : String) : (getMember c n).name = n := by
  simp only [getMember, findMember]
  cases h : c.members.find? (·.name == n) with
  | none => rfl
  | some m => simpa using List.find?_some h

theorem getMember_put_same (c : Cfg) (m : Member) : getMember (putMember c m) m.name = m := by
  simp only [getMember, findMember, putMember, find_putIn_same]

theorem getMember_put_other (c : Cfg) (m : Member) {n : String} (h : n ≠ m.name) :
    getMember (putMember c m) n = getMember c n := by
  simp only [getMember, findMember, putMember, find_putIn_other m h]

/-- the two ways a member is stored back -/
theorem put_cases (c : Cfg) (n : String) (q1 : Member) (hn : q1.name = n) :
    (c.members.find? (·.name == n) = none ∧ getMember c n = { name := n } ∧
      (putMember c q1).members = c.members ++ [q1]) ∨
    (∃ pre old post, c.members = pre ++ old :: post ∧ old.name = n ∧ (∀ x ∈ pre, x.name ≠ n) ∧
      getMember c n = old ∧ (putMember c q1).members = pre ++ q1 :: post) := by
  subst hn
  rcases putIn_decomp q1 c.members with ⟨h1, h2⟩ | ⟨pre, old, post, h0, h1, h2, h3, h4⟩
  · left
    exact ⟨h1, by simp [getMember, findMember, h1], by simp [putMember, h2]⟩
  · right
    exact ⟨pre, old, post, h0, h1, h2, by simp [getMember, findMember, h3], by simp [putMember, h4]⟩

theorem mem_definedVars {c : Cfg} {v : String} :
    v ∈ definedVars c ↔ v ∈ predefined ∨ v ∈ targetsOf c.members := by
  simp [definedVars, targetsOf]

/-- the variables defined after a member was stored back with `ex` more assignments -/
theorem mem_targets_put (c : Cfg) (n : String) (q1 : Member) (hn : q1.name = n) (ex : List Assign)
    (ha : q1.assigns = (getMember c n).assigns ++ ex) (v : String) :
    v ∈ targetsOf (putMember c q1).members ↔ v ∈ targetsOf c.members ∨ v ∈ ex.map (·.var) := by
  rcases put_cases c n q1 hn with ⟨_, hg, hp⟩ | ⟨pre, old, post, h0, _, _, hg, hp⟩
  · rw [hp]
    rw [hg] at ha
    simp only [targetsOf, List.flatMap_append, List.mem_append, List.flatMap_cons, List.flatMap_nil,
      List.append_nil, ha, List.nil_append]
  · rw [hp, h0]
    rw [hg] at ha
    simp only [targetsOf, List.flatMap_append, List.mem_append, List.flatMap_cons, ha, List.map_append]
    constructor
    · rintro (h | (h | h) | h)
      · exact Or.inl (Or.inl h)
      · exact Or.inl (Or.inr (Or.inl h))
      · exact Or.inr h
      · exact Or.inl (Or.inr (Or.inr h))
    · rintro ((h | h | h) | h)
      · exact Or.inl h
      · exact Or.inr (Or.inl (Or.inl h))
      · exact Or.inr (Or.inr h)
      · exact Or.inr (Or.inl (Or.inr h))

theorem names_put (c : Cfg) (q1 : Member) :
    (putMember c q1).members.map (·.name) =
      if q1.name ∈ c.members.map (·.name) then c.members.map (·.name)
      else c.members.map (·.name) ++ [q1.name] := by
  simp only [putMember, names_putIn]

theorem sigOk_congr {c c' : Cfg} (ha : c'.actors = c.actors) (hr : c'.roles = c.roles) (a s : String) :
    SigOk c' a s ↔ SigOk c a s := by
  simp only [SigOk, findActor, findRole, ha, hr]

/-! ## the invariant of the replay -/

def VarStatic (c0 : Cfg) (ms : List Member) : Var → Prop
  | .comp n => n ∈ predefined ∨ n ∈ targetsOf ms
  | .sig a s => SigOk c0 a s

/-- what the audience `ms` of a loaded configuration satisfies, against the configuration `c0`
(its roles and cast) in which it is loaded again -/
structure AudStatic (c0 : Cfg) (ms : List Member) : Prop where
  names : (ms.map (·.name)).Nodup
  m3 : ∀ m ∈ ms, m.active = none → m.assigns = [] ∧ m.expects = none
  exVars : ∀ m ∈ ms, ∀ c ∈ chainOf m, ∀ e, exOf c = some e → ∀ v ∈ e.vars,
    VarStatic c0 ms v ∧ (isSig v = true → v ∈ m.obs)
  targets : (targetsOf ms).Nodup ∧ ∀ v ∈ targetsOf ms, v ∉ predefined
  obs : ∀ m ∈ ms, m.obs.Nodup ∧ ∀ v ∈ m.obs, VarStatic c0 ms v
  assignOk : ∀ m ∈ ms, ∀ a ∈ m.assigns, okAssign a = true

/-- the variables whose definition is still to be printed -/
def pendVars (ps : List Pend) : List String := ps.flatMap fun p => (assignsIn p.chain).map (·.var)

def PRel (cur : Cfg) (m : Member) (p : Pend) : Prop :=
  p.name = m.name ∧ MRel m p (getMember cur m.name)

structure RInv (c0 : Cfg) (ms : List Member) (undef : List String) (ps : List Pend) (cur : Cfg) : Prop where
  fields : cur = { c0 with members := cur.members }
  names : cur.members.map (·.name) = (ps.filter (·.mentioned)).map (·.name)
  rel : All₂ (PRel cur) ms ps
  defd : ∀ v, v ∈ targetsOf cur.members ↔ (v ∈ targetsOf ms ∧ v ∉ undef)
  pendNodup : (pendVars ps).Nodup
  pend : ∀ v ∈ pendVars ps, v ∈ undef
  sorted : List.Pairwise (fun a b => b.mentioned = true → a.mentioned = true) ps

theorem All₂.mono_mem {α β : Type} {R R' : α → β → Prop} {l : List α} {l' : List β}
    (h : All₂ R l l') (hm : ∀ a ∈ l, ∀ b, R a b → R' a b) : All₂ R' l l' := by
  induction h with
  | nil => exact .nil
  | cons hab _ ih =>
    exact .cons (hm _ List.mem_cons_self _ hab)
      (ih fun a ha b hr => hm a (List.mem_cons_of_mem _ ha) b hr)

theorem All₂.names_eq {ms : List Member} {ps : List Pend} {R : Member → Pend → Prop}
    (h : All₂ R ms ps) (hn : ∀ m p, R m p → p.name = m.name) :
    ps.map (·.name) = ms.map (·.name) := by
  induction h with
  | nil => rfl
  | cons hab _ ih => simp [hn _ _ hab, ih]

theorem pendVars_append (a b : List Pend) : pendVars (a ++ b) = pendVars a ++ pendVars b := by
  simp [pendVars, List.flatMap_append]

theorem pendVars_cons (p : Pend) (b : List Pend) :
    pendVars (p :: b) = (assignsIn p.chain).map (·.var) ++ pendVars b := by
  simp [pendVars, List.flatMap_cons]

/-- the general step: member `p.name` is stored back as `q1`, nothing new is defined -/
theorem rinv_put_same {c0 : Cfg} {ms : List Member} {undef : List String} {pre post : List Pend}
    {p p' : Pend} {cur : Cfg} {mpre mpost : List Member} {m : Member}
    (hms : ms = mpre ++ m :: mpost) (hnod : (ms.map (·.name)).Nodup)
    (hinv : RInv c0 ms undef (pre ++ p :: post) cur)
    (hapre : All₂ (PRel cur) mpre pre) (hapost : All₂ (PRel cur) mpost post)
    (hname : p.name = m.name)
    (hpre : ∀ q ∈ pre, q.mentioned = true)
    (hp'n : p'.name = p.name) (hp'm : p'.mentioned = true)
    (hp'a : assignsIn p'.chain = assignsIn p.chain)
    (q1 : Member) (hq1n : q1.name = m.name)
    (hq1a : q1.assigns = (getMember cur m.name).assigns)
    (hrel : MRel m p' q1) :
    RInv c0 ms undef (pre ++ p' :: post) (putMember cur q1) := by
  subst hms
  have hnames_ps : (pre ++ p :: post).map (·.name) = (mpre ++ m :: mpost).map (·.name) :=
    hinv.rel.names_eq fun _ _ h => h.1
  -- names of the other members differ from m.name
  have hne_pre : ∀ x ∈ mpre, x.name ≠ m.name := by
    intro x hx e
    simp only [List.map_append, List.map_cons] at hnod
    have := (List.nodup_append.mp hnod).2.2 x.name (List.mem_map.mpr ⟨x, hx, rfl⟩) m.name (by simp)
    exact this e
  have hne_post : ∀ x ∈ mpost, x.name ≠ m.name := by
    intro x hx e
    simp only [List.map_append, List.map_cons] at hnod
    have h2 := (List.nodup_cons.mp (List.nodup_append.mp hnod).2.1).1
    exact h2 (e ▸ List.mem_map.mpr ⟨x, hx, rfl⟩)
  refine ⟨?_, ?_, ?_, ?_, ?_, ?_, ?_⟩
  · -- fields
    have := hinv.fields
    rw [this]
    simp [putMember]
  · -- names
    rw [names_put, hq1n]
    have hpre_f : pre.filter (·.mentioned) = pre := List.filter_eq_self.mpr hpre
    simp only [List.filter_append, List.filter_cons, hp'm, if_true, hpre_f, List.map_append, List.map_cons,
      hp'n, hname]
    rw [hinv.names]
    simp only [List.filter_append, List.filter_cons, hpre_f, List.map_append]
    cases hpm : p.mentioned with
    | true =>
      simp only [if_true, List.map_cons, hname, List.mem_append, List.mem_cons, true_or, or_true]
    | false =>
      simp only [Bool.false_eq_true, if_false]
      -- nothing after p is mentioned
      have hpost_f : post.filter (·.mentioned) = [] := by
        apply List.filter_eq_nil_iff.mpr
        intro b hb hbm
        have hs := (List.pairwise_append.mp hinv.sorted).2.1
        have := (List.pairwise_cons.mp hs).1 b hb hbm
        rw [hpm] at this; cases this
      rw [hpost_f]
      simp only [List.map_nil, List.append_nil]
      -- m.name is not among the names of pre
      have hnotin : m.name ∉ pre.map (·.name) := by
        have h1 : pre.map (·.name) = mpre.map (·.name) := hapre.names_eq fun _ _ h => h.1
        rw [h1]
        intro hmem
        obtain ⟨x, hx, hxe⟩ := List.mem_map.mp hmem
        exact hne_pre x hx hxe
      simp [hnotin]
  · -- rel
    have hother : ∀ (l : List Member) (l' : List Pend), (∀ x ∈ l, x.name ≠ m.name) →
        All₂ (PRel cur) l l' → All₂ (PRel (putMember cur q1)) l l' := by
      intro l l' hl h
      refine h.mono_mem fun a ha b hr => ⟨hr.1, ?_⟩
      rw [getMember_put_other cur q1 (by rw [hq1n]; exact hl a ha)]
      exact hr.2
    refine All₂.append (hother _ _ hne_pre hapre) (.cons ⟨by rw [hp'n, hname], ?_⟩ (hother _ _ hne_post hapost))
    have : getMember (putMember cur q1) m.name = q1 := by
      rw [← hq1n]; exact getMember_put_same cur q1
    rw [this]; exact hrel
  · -- defd
    intro v
    rw [mem_targets_put cur m.name q1 hq1n [] (by simpa using hq1a) v]
    simp only [List.map_nil, List.not_mem_nil, or_false]
    exact hinv.defd v
  · -- pendNodup
    have := hinv.pendNodup
    simp only [pendVars_append, pendVars_cons, hp'a] at this ⊢
    exact this
  · intro v hv
    apply hinv.pend
    simp only [pendVars_append, pendVars_cons, hp'a] at hv ⊢
    exact hv
  · -- sorted
    have hs := hinv.sorted
    rw [List.pairwise_append] at hs ⊢
    refine ⟨hs.1, ?_, ?_⟩
    · rw [List.pairwise_cons]
      exact ⟨fun b _ _ => hp'm, (List.pairwise_cons.mp hs.2.1).2⟩
    · intro a ha b hb hbm
      exact hpre a ha

/-- the step that defines a variable -/
theorem rinv_put_assign {c0 : Cfg} {ms : List Member} {undef : List String} {pre post : List Pend}
    {p : Pend} {cur : Cfg} {mpre mpost : List Member} {m : Member} {a a' : Assign} {rest : List AClause}
    (hms : ms = mpre ++ m :: mpost) (hnod : (ms.map (·.name)).Nodup)
    (hinv : RInv c0 ms undef (pre ++ p :: post) cur)
    (hapre : All₂ (PRel cur) mpre pre) (hapost : All₂ (PRel cur) mpost post)
    (hname : p.name = m.name)
    (hpre : ∀ q ∈ pre, q.mentioned = true)
    (hc : p.chain = .assign a :: rest) (hvar : a'.var = a.var) (ham : a ∈ m.assigns)
    (q1 : Member) (hq1n : q1.name = m.name)
    (hq1a : q1.assigns = (getMember cur m.name).assigns ++ [a'])
    (hrel : MRel m ⟨p.name, rest, p.free, true⟩ q1) :
    RInv c0 ms (undef.filter (· ≠ a.var)) (pre ++ ⟨p.name, rest, p.free, true⟩ :: post) (putMember cur q1) := by
  subst hms
  have hne_pre : ∀ x ∈ mpre, x.name ≠ m.name := by
    intro x hx e
    simp only [List.map_append, List.map_cons] at hnod
    have := (List.nodup_append.mp hnod).2.2 x.name (List.mem_map.mpr ⟨x, hx, rfl⟩) m.name (by simp)
    exact this e
  have hne_post : ∀ x ∈ mpost, x.name ≠ m.name := by
    intro x hx e
    simp only [List.map_append, List.map_cons] at hnod
    have h2 := (List.nodup_cons.mp (List.nodup_append.mp hnod).2.1).1
    exact h2 (e ▸ List.mem_map.mpr ⟨x, hx, rfl⟩)
  have hpv : pendVars (pre ++ p :: post) =
      pendVars pre ++ (a.var :: ((assignsIn rest).map (·.var) ++ pendVars post)) := by
    simp [pendVars_append, pendVars_cons, hc, assignsIn]
  have hpv' : pendVars (pre ++ ⟨p.name, rest, p.free, true⟩ :: post) =
      pendVars pre ++ ((assignsIn rest).map (·.var) ++ pendVars post) := by
    simp [pendVars_append, pendVars_cons]
  have hnd := hinv.pendNodup
  rw [hpv] at hnd
  have hnotin : a.var ∉ pendVars pre ++ ((assignsIn rest).map (·.var) ++ pendVars post) := by
    intro h
    rcases List.mem_append.mp h with h | h
    · exact (List.nodup_append.mp hnd).2.2 a.var h a.var (by simp) rfl
    · exact (List.nodup_cons.mp (List.nodup_append.mp hnd).2.1).1 h
  refine ⟨?_, ?_, ?_, ?_, ?_, ?_, ?_⟩
  · have := hinv.fields
    rw [this]
    simp [putMember]
  · rw [names_put, hq1n]
    have hpre_f : pre.filter (·.mentioned) = pre := List.filter_eq_self.mpr hpre
    simp only [List.filter_append, List.filter_cons, if_true, hpre_f, List.map_append, List.map_cons, hname]
    rw [hinv.names]
    simp only [List.filter_append, List.filter_cons, hpre_f, List.map_append]
    cases hpm : p.mentioned with
    | true =>
      simp only [if_true, List.map_cons, hname, List.mem_append, List.mem_cons, true_or, or_true]
    | false =>
      simp only [Bool.false_eq_true, if_false]
      have hpost_f : post.filter (·.mentioned) = [] := by
        apply List.filter_eq_nil_iff.mpr
        intro b hb hbm
        have hs := (List.pairwise_append.mp hinv.sorted).2.1
        have := (List.pairwise_cons.mp hs).1 b hb hbm
        rw [hpm] at this; cases this
      rw [hpost_f]
      simp only [List.map_nil, List.append_nil]
      have hnotin : m.name ∉ pre.map (·.name) := by
        have h1 : pre.map (·.name) = mpre.map (·.name) := hapre.names_eq fun _ _ h => h.1
        rw [h1]
        intro hmem
        obtain ⟨x, hx, hxe⟩ := List.mem_map.mp hmem
        exact hne_pre x hx hxe
      simp [hnotin]
  · have hother : ∀ (l : List Member) (l' : List Pend), (∀ x ∈ l, x.name ≠ m.name) →
        All₂ (PRel cur) l l' → All₂ (PRel (putMember cur q1)) l l' := by
      intro l l' hl h
      refine h.mono_mem fun a ha b hr => ⟨hr.1, ?_⟩
      rw [getMember_put_other cur q1 (by rw [hq1n]; exact hl a ha)]
      exact hr.2
    refine All₂.append (hother _ _ hne_pre hapre) (.cons ⟨hname, ?_⟩ (hother _ _ hne_post hapost))
    have : getMember (putMember cur q1) m.name = q1 := by
      rw [← hq1n]; exact getMember_put_same cur q1
    rw [this]; exact hrel
  · intro v
    rw [mem_targets_put cur m.name q1 hq1n [a'] hq1a v, hinv.defd v]
    simp only [List.map_cons, List.map_nil, List.mem_singleton, hvar, List.mem_filter, decide_eq_true_eq]
    have haT : a.var ∈ targetsOf (mpre ++ m :: mpost) := by
      simp only [targetsOf, List.mem_flatMap, List.mem_map]
      exact ⟨m, List.mem_append_right _ List.mem_cons_self, a, ham, rfl⟩
    constructor
    · rintro (⟨h1, h2⟩ | rfl)
      · exact ⟨h1, fun h => h2 h.1⟩
      · exact ⟨haT, fun h => h.2 rfl⟩
    · rintro ⟨h1, h2⟩
      by_cases hv : v = a.var
      · exact Or.inr hv
      · exact Or.inl ⟨h1, fun h => h2 ⟨h, hv⟩⟩
  · rw [hpv']
    have h1 := (List.nodup_append.mp hnd)
    rw [List.nodup_append]
    refine ⟨h1.1, (List.nodup_cons.mp h1.2.1).2, ?_⟩
    intro x hx y hy
    exact h1.2.2 x hx y (List.mem_cons_of_mem _ hy)
  · intro v hv
    rw [hpv'] at hv
    have hvold : v ∈ pendVars (pre ++ p :: post) := by
      rw [hpv]
      rcases List.mem_append.mp hv with h | h
      · exact List.mem_append_left _ h
      · exact List.mem_append_right _ (List.mem_cons_of_mem _ h)
    refine List.mem_filter.mpr ⟨hinv.pend v hvold, ?_⟩
    simp only [decide_eq_true_eq]
    rintro rfl
    exact hnotin hv
  · have hs := hinv.sorted
    rw [List.pairwise_append] at hs ⊢
    refine ⟨hs.1, ?_, ?_⟩
    · rw [List.pairwise_cons]
      exact ⟨fun b _ _ => rfl, (List.pairwise_cons.mp hs.2.1).2⟩
    · intro a ha b hb hbm
      exact hpre a ha

theorem mem_compVars {n : String} : ∀ {vs : List Var}, n ∈ compVars vs ↔ Var.comp n ∈ vs := by
  intro vs
  induction vs with
  | nil => simp [compVars]
  | cons v vs ih =>
    cases v with
    | comp k => simp [compVars, ih]
    | sig a s => simp [compVars, ih]

theorem varOk_of_static {c0 : Cfg} {ms : List Member} {undef : List String} {ps : List Pend} {cur : Cfg}
    (hinv : RInv c0 ms undef ps cur) {v : Var} (hv : VarStatic c0 ms v)
    (hr : ∀ n, v = .comp n → n ∉ undef) : VarOk cur v := by
  cases v with
  | comp n =>
    simp only [VarOk, mem_definedVars]
    rcases hv with h | h
    · exact Or.inl h
    · exact Or.inr ((hinv.defd n).mpr ⟨h, hr n rfl⟩)
  | sig a s =>
    have hf := hinv.fields
    have ha : cur.actors = c0.actors := by rw [hf]
    have hro : cur.roles = c0.roles := by rw [hf]
    exact (sigOk_congr ha hro a s).mpr hv

/-- the variables of the expression of a ready auditor clause are known where it is loaded -/
theorem exVars_ok {c0 : Cfg} {ms : List Member} {undef : List String} {ps : List Pend} {cur : Cfg}
    (hst : AudStatic c0 ms) (hinv : RInv c0 ms undef ps cur) {m : Member} (hm : m ∈ ms)
    {c : AClause} (hc : c ∈ chainOf m) {e e' : Ex} (he : exOf c = some e) (hu : uses c = compVars e.vars)
    (hr : ready undef c = true) (hee : e.Equiv e') : ∀ v ∈ e'.vars, VarOk cur v := by
  intro v hv
  have hv' : v ∈ e.vars := hee.2.mem_iff.mpr hv
  refine varOk_of_static hinv (hst.exVars m hm c hc e he v hv').1 ?_
  intro n hn
  subst hn
  simp only [ready, List.all_eq_true, Bool.not_eq_true', List.contains_eq_mem, decide_eq_false_iff_not] at hr
  exact hr n (by rw [hu]; exact mem_compVars.mpr hv')

theorem exSigs_equiv {e e' : Ex} (h : e.Equiv e') (v : Var) :
    v ∈ e'.vars ∧ isSig v = true ↔ v ∈ e.vars.filter isSig := by
  simp only [List.mem_filter]
  exact ⟨fun ⟨a, b⟩ => ⟨h.2.mem_iff.mpr a, b⟩, fun ⟨a, b⟩ => ⟨h.2.mem_iff.mp a, b⟩⟩

theorem chainSigs_append (a b : List AClause) : chainSigs (a ++ b) = chainSigs a ++ chainSigs b := by
  simp [chainSigs, List.flatMap_append]

theorem all2_nil_right {α β : Type} {R : α → β → Prop} {l : List β} (h : All₂ R [] l) : l = [] := by
  cases h; rfl

theorem chain_kinds {m : Member} {c : AClause} (h : c ∈ chainOf m) :
    (∃ e, c = .audits e) ∨ (∃ a, c = .assign a ∧ a ∈ m.assigns) ∨ (∃ md e, c = .expects md e) := by
  simp only [chainOf, List.mem_append, List.mem_map] at h
  rcases h with (h | ⟨a, ha, rfl⟩) | h
  · cases hm : m.active with
    | none => simp [hm] at h
    | some e => simp [hm] at h; exact Or.inl ⟨e, h⟩
  · exact Or.inr (Or.inl ⟨a, rfl, ha⟩)
  · cases hm : m.expects with
    | none => simp [hm] at h
    | some x => obtain ⟨md, e⟩ := x; simp [hm] at h; exact Or.inr (Or.inr ⟨md, e, h⟩)

/-- an auditor clause is emitted and loaded -/
theorem step_chain {mt : String → Act → Bool} {c0 : Cfg} {ms : List Member} {undef : List String}
    {pre post : List Pend} {p : Pend} {cur : Cfg} {c c' : AClause} {rest : List AClause}
    (hst : AudStatic c0 ms) (hinv : RInv c0 ms undef (pre ++ p :: post) cur)
    (hpre : ∀ q ∈ pre, q.mentioned = true) (hc : p.chain = c :: rest) (hr : ready undef c = true)
    (hcc : c.Equiv c') :
    ∃ cur', stepAud cur p.name c' = some cur' ∧
      RInv c0 ms (afterPrint undef c) (pre ++ ⟨p.name, rest, p.free, true⟩ :: post) cur' := by
  obtain ⟨mpre, m, mpost, hms, hapre, ⟨hname, doneC, doneF, hch, hfr, hq⟩, hapost⟩ := hinv.rel.split_right
  have hm : m ∈ ms := by rw [hms]; exact List.mem_append_right _ List.mem_cons_self
  rw [hc] at hch
  have hcm : c ∈ chainOf m := by rw [hch]; simp
  have hgn : (getMember cur m.name).name = m.name := getMember_name cur m.name
  rcases chain_kinds hcm with ⟨e, rfl⟩ | ⟨a, rfl, ham⟩ | ⟨md, e, rfl⟩
  · -- audits
    cases c' with
    | audits e' =>
      have hee : e.Equiv e' := hcc
      obtain ⟨hd, hact⟩ := split_audits hch
      subst hd
      have hvars := exVars_ok hst hinv hm hcm (c := .audits e) rfl rfl hr hee
      have hq0a : (getMember cur m.name).active = none := hq.active0 rfl
      refine ⟨_, by rw [hname]; exact pAudits_eq hq0a hvars, ?_⟩
      have hund : afterPrint undef (.audits e) = undef := rfl
      rw [hund]
      refine rinv_put_same (p' := ⟨p.name, rest, p.free, true⟩) hms hst.names hinv hapre hapost hname hpre rfl rfl ?_ _ hgn rfl ?_
      · simp [hc, assignsIn]
      · refine ⟨[.audits e], doneF, by simpa using hch, hfr, ?_⟩
        have ha0 : (getMember cur m.name).assigns = [] := all2_nil_right hq.assigns
        have he0 : (getMember cur m.name).expects = none := by
          have := hq.expects
          simp only [expectsIn] at this
          cases hx : (getMember cur m.name).expects with
          | none => rfl
          | some x => rw [hx] at this; exact this.elim
        exact {
          name := hgn
          bad := hq.bad
          good := hq.good
          active0 := fun h => by cases h
          active1 := fun _ => ⟨by rw [hact]; rfl, by rw [hact]; exact hee⟩
          assigns := by simp only [assignsIn, ha0]; exact .nil
          expects := by simp only [expectsIn, he0]; trivial
          obsNodup := nodup_addSigs _ _ hq.obsNodup
          obs := by
            intro v
            simp only [mem_addSigs, hq.obs v, chainSigs, List.flatMap_cons, List.flatMap_nil, exSigs, exOf,
              List.append_nil, List.not_mem_nil, false_or]
            rw [exSigs_equiv hee v]
            exact or_comm
          ylabel := hq.ylabel
          noplot := hq.noplot }
    | _ => cases hcc
  · -- computes / collects
    cases c' with
    | assign a' =>
      obtain ⟨hvar, hmode, hee⟩ : a.Equiv a' := hcc
      obtain ⟨hdne, hsome⟩ := split_other (hst.m3 m hm) (c := .assign a) (by intro e h; cases h) hch
      obtain ⟨_, hact⟩ := hq.active1 hdne
      obtain ⟨x, hx⟩ : ∃ x, (getMember cur m.name).active = some x := by
        cases hma : m.active with
        | none => rw [hma] at hsome; cases hsome
        | some e0 =>
          rw [hma] at hact
          cases hqa : (getMember cur m.name).active with
          | none => rw [hqa] at hact; exact hact.elim
          | some x => exact ⟨x, rfl⟩
      have hvars := exVars_ok hst hinv hm hcm (c := .assign a) rfl rfl hr hee
      have hok : okAssign a' = true := by
        have := hst.assignOk m hm a ham
        simp only [okAssign, ← hmode] at this ⊢
        exact this
      have hpendv : a.var ∈ undef := by
        apply hinv.pend
        simp [pendVars_append, pendVars_cons, hc, assignsIn]
      have hnew : a'.var ∉ definedVars cur := by
        rw [← hvar, mem_definedVars]
        rintro (h | h)
        · refine hst.targets.2 a.var ?_ h
          simp only [targetsOf, List.mem_flatMap, List.mem_map]
          exact ⟨m, hm, a, ham, rfl⟩
        · exact ((hinv.defd a.var).mp h).2 hpendv
      refine ⟨_, by rw [hname]; simp only [stepAud, needCond_eq hx]; exact pAssign_eq hok hvars hnew, ?_⟩
      have hund : afterPrint undef (.assign a) = undef.filter (· ≠ a.var) := rfl
      rw [hund]
      refine rinv_put_assign hms hst.names hinv hapre hapost hname hpre hc hvar.symm ham _ hgn rfl ?_
      refine ⟨doneC ++ [.assign a], doneF, by simpa using hch, hfr, ?_⟩
      exact {
        name := hgn
        bad := hq.bad
        good := hq.good
        active0 := fun h => by simp at h
        active1 := fun _ => hq.active1 hdne
        assigns := by
          simp only [assignsIn_append, assignsIn]
          exact All₂.append hq.assigns (.cons ⟨hvar, hmode, hee⟩ .nil)
        expects := by
          have := hq.expects
          have h2 : expectsIn (doneC ++ [AClause.assign a]) = expectsIn doneC := by
            clear this hq hch hdne
            induction doneC with
            | nil => rfl
            | cons d ds ih => cases d <;> simp [expectsIn, ih]
          rw [h2]; exact this
        obsNodup := nodup_addSigs _ _ hq.obsNodup
        obs := by
          intro v
          simp only [mem_addSigs, hq.obs v, chainSigs_append, List.mem_append]
          simp only [chainSigs, List.flatMap_cons, List.flatMap_nil, exSigs, exOf, List.append_nil]
          rw [exSigs_equiv hee v]
          constructor
          · rintro ((h | h) | h)
            · exact Or.inl (Or.inl h)
            · exact Or.inr h
            · exact Or.inl (Or.inr h)
          · rintro ((h | h) | h)
            · exact Or.inl (Or.inl h)
            · exact Or.inr h
            · exact Or.inl (Or.inr h)
        ylabel := hq.ylabel
        noplot := hq.noplot }
    | _ => cases hcc
  · -- expects
    cases c' with
    | expects md' e' =>
      obtain ⟨hmd, hee⟩ : md = md' ∧ e.Equiv e' := hcc
      obtain ⟨hdne, hsome⟩ := split_other (hst.m3 m hm) (c := .expects md e) (by intro e h; cases h) hch
      obtain ⟨hdc, hrest, hmexp⟩ := split_expects hch
      obtain ⟨_, hact⟩ := hq.active1 hdne
      obtain ⟨x, hx⟩ : ∃ x, (getMember cur m.name).active = some x := by
        cases hma : m.active with
        | none => rw [hma] at hsome; cases hsome
        | some e0 =>
          rw [hma] at hact
          cases hqa : (getMember cur m.name).active with
          | none => rw [hqa] at hact; exact hact.elim
          | some x => exact ⟨x, rfl⟩
      have hvars := exVars_ok hst hinv hm hcm (c := .expects md e) rfl rfl hr hee
      have hnoexp : expectsIn doneC = none := by
        rw [hdc]; exact expectsIn_noexp _ (chainHead_noexp m)
      have he0 : (getMember cur m.name).expects = none := by
        have := hq.expects
        rw [hnoexp] at this
        cases hxx : (getMember cur m.name).expects with
        | none => rfl
        | some y => rw [hxx] at this; exact this.elim
      refine ⟨_, by rw [hname]; simp only [stepAud, needCond_eq hx]; exact pExpects_eq he0 hvars, ?_⟩
      have hund : afterPrint undef (.expects md e) = undef := rfl
      rw [hund]
      refine rinv_put_same (p' := ⟨p.name, rest, p.free, true⟩) hms hst.names hinv hapre hapost hname hpre rfl rfl ?_ _ hgn rfl ?_
      · simp [hc, assignsIn]
      · refine ⟨doneC ++ [.expects md e], doneF, by simpa using hch, hfr, ?_⟩
        exact {
          name := hgn
          bad := hq.bad
          good := hq.good
          active0 := fun h => by simp at h
          active1 := fun _ => hq.active1 hdne
          assigns := by
            simp only [assignsIn_append, assignsIn, List.append_nil]
            exact hq.assigns
          expects := by
            rw [hdc, expectsIn_append_noexp _ _ (chainHead_noexp m)]
            exact ⟨hmd, hee⟩
          obsNodup := nodup_addSigs _ _ hq.obsNodup
          obs := by
            intro v
            simp only [mem_addSigs, hq.obs v, chainSigs_append, List.mem_append]
            simp only [chainSigs, List.flatMap_cons, List.flatMap_nil, exSigs, exOf, List.append_nil]
            rw [exSigs_equiv hee v]
            constructor
            · rintro ((h | h) | h)
              · exact Or.inl (Or.inl h)
              · exact Or.inr h
              · exact Or.inl (Or.inr h)
            · rintro ((h | h) | h)
              · exact Or.inl (Or.inl h)
              · exact Or.inr h
              · exact Or.inl (Or.inr h)
          ylabel := hq.ylabel
          noplot := hq.noplot }
    | _ => cases hcc

theorem addObs_name (m : Member) (v : Var) : (addObs m v).name = m.name := by
  simp only [addObs]; split <;> rfl
theorem addObs_active (m : Member) (v : Var) : (addObs m v).active = m.active := by
  simp only [addObs]; split <;> rfl
theorem addObs_assigns (m : Member) (v : Var) : (addObs m v).assigns = m.assigns := by
  simp only [addObs]; split <;> rfl
theorem addObs_expects (m : Member) (v : Var) : (addObs m v).expects = m.expects := by
  simp only [addObs]; split <;> rfl
theorem addObs_ylabel (m : Member) (v : Var) : (addObs m v).ylabel = m.ylabel := by
  simp only [addObs]; split <;> rfl
theorem addObs_noplot (m : Member) (v : Var) : (addObs m v).noplot = m.noplot := by
  simp only [addObs]; split <;> rfl
theorem addObs_bad (m : Member) (v : Var) : (addObs m v).bad = m.bad := by
  simp only [addObs]; split <;> rfl
theorem addObs_good (m : Member) (v : Var) : (addObs m v).good = m.good := by
  simp only [addObs]; split <;> rfl

theorem free_kinds {m : Member} {c : AClause} (h : c ∈ freeOf m) :
    (∃ v ∈ m.obs, c = watchClause v) ∨ (c = .measures m.ylabel ∧ m.ylabel ≠ "") ∨ c = .onlyHelps := by
  simp only [freeOf, List.mem_append, List.mem_map] at h
  rcases h with (⟨v, hv, rfl⟩ | h) | h
  · exact Or.inl ⟨v, hv, rfl⟩
  · split at h
    · cases h
    · rename_i hne; simp at h; exact Or.inr (Or.inl ⟨h, hne⟩)
  · split at h
    · simp at h; exact Or.inr (Or.inr h)
    · cases h

theorem watchClause_inj {v w : Var} (h : watchClause v = watchClause w) : v = w := by
  cases v <;> cases w <;> simp [watchClause] at h
  · rw [h]
  · obtain ⟨h1, h2⟩ := h; rw [h1, h2]

theorem watchClause_ne_measures (v : Var) (l : String) : watchClause v ≠ .measures l := by
  cases v <;> simp [watchClause]

theorem watchClause_ne_helps (v : Var) : watchClause v ≠ .onlyHelps := by
  cases v <;> simp [watchClause]

/-- a `watches` / `measures` / `only helps` clause is emitted and loaded -/
theorem step_free {mt : String → Act → Bool} {c0 : Cfg} {ms : List Member} {undef : List String}
    {pre post : List Pend} {p : Pend} {cur : Cfg} {c c' : AClause} {f1 f2 : List AClause}
    (hst : AudStatic c0 ms) (hinv : RInv c0 ms undef (pre ++ p :: post) cur)
    (hpre : ∀ q ∈ pre, q.mentioned = true) (hc : p.free = f1 ++ c :: f2) (hr : ready undef c = true)
    (hcc : c.Equiv c') :
    ∃ cur', stepAud cur p.name c' = some cur' ∧
      RInv c0 ms undef (pre ++ ⟨p.name, p.chain, f1 ++ f2, true⟩ :: post) cur' := by
  obtain ⟨mpre, m, mpost, hms, hapre, ⟨hname, doneC, doneF, hch, hfr, hq⟩, hapost⟩ := hinv.rel.split_right
  have hm : m ∈ ms := by rw [hms]; exact List.mem_append_right _ List.mem_cons_self
  have hcm : c ∈ freeOf m := (hfr c).mpr (Or.inr (by rw [hc]; simp))
  have hgn : (getMember cur m.name).name = m.name := getMember_name cur m.name
  have hfr' : ∀ x, x ∈ freeOf m ↔ x ∈ doneF ++ [c] ∨ x ∈ f1 ++ f2 := by
    intro x
    rw [hfr x, hc]
    simp only [List.mem_append, List.mem_cons, List.mem_singleton, List.not_mem_nil, or_false]
    constructor
    · rintro (h | h | h | h)
      · exact Or.inl (Or.inl h)
      · exact Or.inr (Or.inl h)
      · exact Or.inl (Or.inr h)
      · exact Or.inr (Or.inr h)
    · rintro ((h | h) | h | h)
      · exact Or.inl h
      · exact Or.inr (Or.inr (Or.inl h))
      · exact Or.inr (Or.inl h)
      · exact Or.inr (Or.inr (Or.inr h))
  rcases free_kinds hcm with ⟨v, hv, rfl⟩ | ⟨rfl, hne⟩ | rfl
  · -- watches
    have hvs := (hst.obs m hm).2 v hv
    have hq1 : ∀ q1 : Member, q1 = addObs (getMember cur m.name) v →
        RInv c0 ms undef (pre ++ ⟨p.name, p.chain, f1 ++ f2, true⟩ :: post) (putMember cur q1) := by
      intro q1 hq1
      refine rinv_put_same (p' := ⟨p.name, p.chain, f1 ++ f2, true⟩) hms hst.names hinv hapre hapost hname hpre
        rfl rfl rfl q1 (by rw [hq1, addObs_name]; exact hgn)
        (by rw [hq1, addObs_assigns]) ?_
      refine ⟨doneC, doneF ++ [watchClause v], hch, hfr', ?_⟩
      exact {
        name := by rw [hq1, addObs_name]; exact hgn
        bad := by rw [hq1, addObs_bad]; exact hq.bad
        good := by rw [hq1, addObs_good]; exact hq.good
        active0 := fun h => by rw [hq1, addObs_active]; exact hq.active0 h
        active1 := fun h => by rw [hq1, addObs_active]; exact hq.active1 h
        assigns := by rw [hq1, addObs_assigns]; exact hq.assigns
        expects := by rw [hq1, addObs_expects]; exact hq.expects
        obsNodup := by rw [hq1]; exact nodup_addObs v hq.obsNodup
        obs := by
          intro x
          rw [hq1, mem_addObs, hq.obs x]
          simp only [List.mem_append, List.mem_singleton]
          constructor
          · rintro ((h | h) | rfl)
            · exact Or.inl h
            · exact Or.inr (Or.inl h)
            · exact Or.inr (Or.inr rfl)
          · rintro (h | h | h)
            · exact Or.inl (Or.inl h)
            · exact Or.inl (Or.inr h)
            · exact Or.inr (watchClause_inj h)
        ylabel := by
          rw [hq1, addObs_ylabel, hq.ylabel]
          simp only [List.mem_append, List.mem_singleton, (watchClause_ne_measures v m.ylabel).symm, or_false]
        noplot := by
          rw [hq1, addObs_noplot, hq.noplot]
          simp only [List.mem_append, List.mem_singleton, (watchClause_ne_helps v).symm, or_false] }
    cases v with
    | comp n =>
      have hcc' : c' = .watchVar n := by
        have : AClause.watchVar n = c' := hcc
        exact this.symm
      subst hcc'
      have hnu : n ∉ undef := by
        simp only [ready, watchClause, uses, List.all_cons, List.all_nil, Bool.and_true, Bool.not_eq_true',
          List.contains_eq_mem, decide_eq_false_iff_not] at hr
        exact hr
      have hok : VarOk cur (.comp n) := varOk_of_static hinv hvs (by intro k hk; injection hk with hk; rw [← hk]; exact hnu)
      refine ⟨_, by rw [hname]; exact pWatchVar_eq hok, hq1 _ rfl⟩
    | sig a s =>
      have hcc' : c' = .watchSig (.actor a) s := by
        have : AClause.watchSig (.actor a) s = c' := hcc
        exact this.symm
      subst hcc'
      have hok : VarOk cur (.sig a s) := varOk_of_static hinv hvs (by intro k hk; cases hk)
      refine ⟨_, by rw [hname]; exact pWatchActor_eq hok, hq1 _ rfl⟩
  · -- measures
    have hcc' : c' = .measures m.ylabel := by
      have : AClause.measures m.ylabel = c' := hcc
      exact this.symm
    subst hcc'
    refine ⟨putMember cur { (getMember cur m.name) with ylabel := m.ylabel }, ?_, ?_⟩
    · rw [hname]; simp only [stepAud, pMeasures, hne, if_false]
    · refine rinv_put_same (p' := ⟨p.name, p.chain, f1 ++ f2, true⟩) hms hst.names hinv hapre hapost hname hpre
        rfl rfl rfl _ hgn rfl ?_
      refine ⟨doneC, doneF ++ [.measures m.ylabel], hch, hfr', ?_⟩
      exact {
        name := hgn
        bad := hq.bad
        good := hq.good
        active0 := hq.active0
        active1 := hq.active1
        assigns := hq.assigns
        expects := hq.expects
        obsNodup := hq.obsNodup
        obs := by
          intro x
          rw [hq.obs x]
          simp only [List.mem_append, List.mem_singleton, watchClause_ne_measures x m.ylabel, or_false]
        ylabel := by simp
        noplot := by
          rw [hq.noplot]
          simp }
  · -- only helps
    have hcc' : c' = .onlyHelps := by
      have : AClause.onlyHelps = c' := hcc
      exact this.symm
    subst hcc'
    refine ⟨putMember cur { (getMember cur m.name) with noplot := true }, ?_, ?_⟩
    · rw [hname]; simp only [stepAud, pHelps]
    · refine rinv_put_same (p' := ⟨p.name, p.chain, f1 ++ f2, true⟩) hms hst.names hinv hapre hapost hname hpre
        rfl rfl rfl _ hgn rfl ?_
      refine ⟨doneC, doneF ++ [.onlyHelps], hch, hfr', ?_⟩
      exact {
        name := hgn
        bad := hq.bad
        good := hq.good
        active0 := hq.active0
        active1 := hq.active1
        assigns := hq.assigns
        expects := hq.expects
        obsNodup := hq.obsNodup
        obs := by
          intro x
          rw [hq.obs x]
          simp only [List.mem_append, List.mem_singleton, watchClause_ne_helps x, or_false]
        ylabel := by
          rw [hq.ylabel]
          simp
        noplot := by simp }

/-! ## the whole sequence -/

/-- the same member name, the same clause up to the order of the variables of its expression -/
def KEquiv (x y : String × AClause) : Prop := x.1 = y.1 ∧ x.2.Equiv y.2

theorem replay_run {mt : String → Act → Bool} {c0 : Cfg} {ms : List Member} (hst : AudStatic c0 ms)
    {undef : List String} {ps : List Pend} {T : List (String × AClause)} {u' : List String} {ps' : List Pend}
    (hrun : Run undef ps T u' ps') :
    ∀ {cur : Cfg} {T' : List (String × AClause)}, RInv c0 ms undef ps cur → All₂ KEquiv T T' →
      ∃ cur', loadFrom mt cur (T'.map fun k => Clause.aud k.1 k.2) = some cur' ∧ RInv c0 ms u' ps' cur' := by
  induction hrun with
  | nil u ps =>
    intro cur T' hinv hT
    cases hT
    exact ⟨cur, rfl, hinv⟩
  | cons he _ ih =>
    intro cur T' hinv hT
    cases hT with
    | cons hk hrest =>
      rename_i k' T''
      obtain ⟨hn, hcc⟩ := hk
      simp only at hn hcc
      cases he with
      | chain pre p post c rest hpre hc hr =>
        obtain ⟨cur1, h1, hinv1⟩ := step_chain (mt := mt) hst hinv hpre hc hr hcc
        obtain ⟨cur2, h2, hinv2⟩ := ih hinv1 hrest
        refine ⟨cur2, ?_, hinv2⟩
        simp only [List.map_cons, loadFrom, step, ← hn, h1]
        exact h2
      | free pre p post f1 c f2 hpre hc hr hd =>
        obtain ⟨cur1, h1, hinv1⟩ := step_free (mt := mt) hst hinv hpre hc hr hcc
        obtain ⟨cur2, h2, hinv2⟩ := ih hinv1 hrest
        refine ⟨cur2, ?_, hinv2⟩
        simp only [List.map_cons, loadFrom, step, ← hn, h1]
        exact h2

theorem pendVars_init (ms : List Member) : pendVars (ms.map pendOf) = targetsOf ms := by
  simp only [pendVars, targetsOf, List.flatMap_map, pendOf, assignsIn_chainOf]

theorem rinv_init {c0 : Cfg} {ms : List Member} (hst : AudStatic c0 ms) (hm0 : c0.members = []) :
    RInv c0 ms (targetsOf ms) (ms.map pendOf) c0 := by
  refine ⟨?_, ?_, ?_, ?_, ?_, ?_, ?_⟩
  · cases c0; simp only [Cfg.mk.injEq, true_and]
  · rw [hm0]
    have : (ms.map pendOf).filter (·.mentioned) = [] := by
      apply List.filter_eq_nil_iff.mpr
      intro p hp
      obtain ⟨m, _, rfl⟩ := List.mem_map.mp hp
      simp [pendOf]
    simp [this]
  · have : ∀ l : List Member, All₂ (PRel c0) l (l.map pendOf) := by
      intro l
      induction l with
      | nil => exact .nil
      | cons m l ih =>
        refine .cons ⟨rfl, ?_⟩ ih
        have : getMember c0 m.name = { name := m.name } := by simp [getMember, findMember, hm0]
        rw [this]; exact mrel_fresh m
    exact this ms
  · intro v; rw [hm0]; simp [targetsOf]
  · rw [pendVars_init]; exact hst.targets.1
  · intro v hv; rw [pendVars_init] at hv; exact hv
  · have : ∀ l : List Member, List.Pairwise (fun a b : Pend => b.mentioned = true → a.mentioned = true) (l.map pendOf) := by
      intro l
      induction l with
      | nil => exact List.Pairwise.nil
      | cons m l ih =>
        refine List.Pairwise.cons ?_ ih
        intro b hb hbm
        obtain ⟨x, _, rfl⟩ := List.mem_map.mp hb
        simp [pendOf] at hbm
    exact this ms

/-- the reloaded member before the interpretation clauses: everything but the interpretation,
which is the default one -/
structure MEq0 (a b : Member) : Prop where
  name : a.name = b.name
  active : OptEquiv Ex.Equiv a.active b.active
  assigns : All₂ Assign.Equiv a.assigns b.assigns
  expects : OptEquiv (fun x y => x.1 = y.1 ∧ x.2.Equiv y.2) a.expects b.expects
  obs : a.obs.Perm b.obs
  ylabel : a.ylabel = b.ylabel
  noplot : a.noplot = b.noplot
  bad : b.bad = .foulUpon
  good : b.good = .ignore

theorem chainSigs_sub {c0 : Cfg} {ms : List Member} (hst : AudStatic c0 ms) {m : Member} (hm : m ∈ ms)
    {v : Var} (hv : v ∈ chainSigs (chainOf m)) : v ∈ m.obs := by
  simp only [chainSigs, List.mem_flatMap, exSigs] at hv
  obtain ⟨c, hc, hvc⟩ := hv
  cases he : exOf c with
  | none => simp [he] at hvc
  | some e =>
    simp only [he, List.mem_filter] at hvc
    exact (hst.exVars m hm c hc e he v hvc.1).2 hvc.2

theorem meq0_of_mrel {c0 : Cfg} {ms : List Member} (hst : AudStatic c0 ms) {m : Member} (hm : m ∈ ms)
    {p : Pend} {q : Member} (hrel : MRel m p q) (hpc : p.chain = []) (hpf : p.free = []) : MEq0 m q := by
  obtain ⟨doneC, doneF, hch, hfr, hq⟩ := hrel
  rw [hpc, List.append_nil] at hch
  subst hch
  have hfr' : ∀ x, x ∈ freeOf m ↔ x ∈ doneF := by intro x; rw [hfr x, hpf]; simp
  refine ⟨hq.name.symm, ?_, ?_, ?_, ?_, ?_, ?_, hq.bad, hq.good⟩
  · by_cases hc : chainOf m = []
    · have ha : m.active = none := by
        cases hma : m.active with
        | none => rfl
        | some e => simp [chainOf, hma] at hc
      rw [ha, hq.active0 hc]; trivial
    · exact (hq.active1 hc).2
  · have := hq.assigns; rw [assignsIn_chainOf] at this; exact this
  · have := hq.expects; rw [expectsIn_chainOf] at this; exact this
  · apply (List.perm_ext_iff_of_nodup (hst.obs m hm).1 hq.obsNodup).mpr
    intro v
    rw [hq.obs v, ← hfr' (watchClause v)]
    constructor
    · intro h
      exact Or.inr (by simp only [freeOf, List.mem_append, List.mem_map]; exact Or.inl (Or.inl ⟨v, h, rfl⟩))
    · rintro (h | h)
      · exact chainSigs_sub hst hm h
      · rcases free_kinds h with ⟨w, hw, e⟩ | ⟨e, _⟩ | e
        · rw [watchClause_inj e]; exact hw
        · exact absurd e (watchClause_ne_measures v _)
        · exact absurd e (watchClause_ne_helps v)
  · rw [hq.ylabel]
    by_cases hy : m.ylabel = ""
    · have : AClause.measures m.ylabel ∉ doneF := by
        intro h
        rcases free_kinds ((hfr' _).mpr h) with ⟨w, _, e⟩ | ⟨_, hne⟩ | e
        · exact absurd e.symm (watchClause_ne_measures w _)
        · exact hne hy
        · cases e
      simp [this, hy]
    · have : AClause.measures m.ylabel ∈ doneF := by
        apply (hfr' _).mp
        simp [freeOf, hy]
      simp [this]
  · rw [hq.noplot]
    cases hn : m.noplot with
    | true =>
      have : AClause.onlyHelps ∈ doneF := by
        apply (hfr' _).mp
        simp [freeOf, hn]
      simp [this]
    | false =>
      have : AClause.onlyHelps ∉ doneF := by
        intro h
        have h := (hfr' _).mpr h
        simp only [freeOf, hn, List.mem_append, List.mem_map] at h
        rcases h with (⟨w, _, e⟩ | h) | h
        · exact absurd e (watchClause_ne_helps w)
        · split at h <;> simp at h
        · simp at h
      simp [this]

/-- two lists with the same names (no name twice) that are related name by name -/
theorem all2_of_names {R : Member → Member → Prop} : ∀ (ms qs : List Member),
    ms.map (·.name) = qs.map (·.name) → (ms.map (·.name)).Nodup →
    (∀ m ∈ ms, ∀ q, qs.find? (·.name == m.name) = some q → R m q) → All₂ R ms qs := by
  intro ms
  induction ms with
  | nil => intro qs h _ _; cases qs with
    | nil => exact .nil
    | cons _ _ => simp at h
  | cons m ms ih =>
    intro qs h hnd hr
    cases qs with
    | nil => simp at h
    | cons q qs =>
      simp only [List.map_cons, List.cons.injEq] at h
      have hmq : (q.name == m.name) = true := by simp [h.1]
      refine .cons (hr m List.mem_cons_self q (by simp [List.find?_cons, hmq])) ?_
      refine ih qs h.2 (List.nodup_cons.mp hnd).2 ?_
      intro m' hm' q' hq'
      refine hr m' (List.mem_cons_of_mem _ hm') q' ?_
      have hne : (q.name == m'.name) = false := by
        have h1 := (List.nodup_cons.mp hnd).1
        have : m'.name ≠ m.name := fun e => h1 (List.mem_map.mpr ⟨m', hm', e⟩)
        simp only [← h.1, beq_eq_false_iff_ne, ne_eq]
        exact fun e => this e.symm
      simp only [List.find?_cons, hne]
      exact hq'

theorem aud_reload (mt : String → Act → Bool) {c0 : Cfg} {ms : List Member} (hst : AudStatic c0 ms)
    (hm0 : c0.members = []) (hne : ∀ m ∈ ms, canon m ≠ []) {rk : String → AClause → Nat}
    (hr : Ranked ms rk) {T' : List (String × AClause)} (hT : All₂ KEquiv (sched ms) T') :
    ∃ qs, loadFrom mt c0 (T'.map fun k => Clause.aud k.1 k.2) = some { c0 with members := qs } ∧
      All₂ MEq0 ms qs := by
  obtain ⟨u', ps', hrun, hleft⟩ := sched_run hr hne
  obtain ⟨cur', hload, hinv⟩ := replay_run (mt := mt) hst hrun (rinv_init hst hm0) hT
  have hpinv := hrun.pinv (pinv_init ms)
  -- nothing is pending
  have hempty : ∀ p ∈ ps', p.chain = [] ∧ p.free = [] := by
    intro p hp
    have : ∀ c, c ∉ p.chain ++ p.free := by
      intro c hc
      have : (p.name, c) ∈ leftover ps' := mem_leftover.mpr ⟨p, hp, rfl, hc⟩
      rw [hleft] at this; cases this
    have h2 : p.chain ++ p.free = [] := List.eq_nil_iff_forall_not_mem.mpr this
    exact List.append_eq_nil_iff.mp h2
  -- hence everybody was mentioned
  have hment : ∀ p ∈ ps', p.mentioned = true := by
    intro p hp
    cases hpm : p.mentioned with
    | true => rfl
    | false =>
      exfalso
      obtain ⟨m, hm, _, _, _, hun⟩ := hpinv.align.mem_right hp
      obtain ⟨h1, h2⟩ := hun hpm
      obtain ⟨e1, e2⟩ := hempty p hp
      exact hne m hm (by simp [canon, ← h1, ← h2, e1, e2])
  refine ⟨cur'.members, by rw [hload, hinv.fields], ?_⟩
  have hnames : ms.map (·.name) = cur'.members.map (·.name) := by
    rw [hinv.names, List.filter_eq_self.mpr hment]
    exact (hinv.rel.names_eq fun _ _ h => h.1).symm
  refine all2_of_names ms cur'.members hnames hst.names ?_
  intro m hm q hq
  -- the member's pending record
  have : ∀ (l : List Member) (l' : List Pend), All₂ (PRel cur') l l' → m ∈ l →
      ∃ p ∈ l', MRel m p (getMember cur' m.name) := by
    intro l l' h
    induction h with
    | nil => intro h; cases h
    | cons hab _ ih =>
      intro hmem
      rcases List.mem_cons.mp hmem with rfl | hmem
      · exact ⟨_, List.mem_cons_self, hab.2⟩
      · obtain ⟨p, hp, hr⟩ := ih hmem
        exact ⟨p, List.mem_cons_of_mem _ hp, hr⟩
  obtain ⟨p, hp, hrel⟩ := this ms ps' hinv.rel hm
  have hg : getMember cur' m.name = q := by simp [getMember, findMember, hq]
  rw [hg] at hrel
  exact meq0_of_mrel hst hm hrel (hempty p hp).1 (hempty p hp).2

end Shk.Printer
