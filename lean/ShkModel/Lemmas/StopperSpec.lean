import ShkModel.Lemmas.StopperWorkers
/-! From the invariants to the rules of `LogOk`. -/
namespace Shk.Stopper

/-- everything proved about a reachable state -/
structure Inv (cap : Nat) (s : St) : Prop where
  capEq : s.cap = cap
  cnt : Cnt s
  ph : Ph s
  flags : FlagsInv s
  thr : ThreadsInv s
  lists : ListsInv s
  ids : IdsInv s
  bal : BalInv s
  stable : StableInv s
  cancel : CancelInv s
  kinv : KInv s
  evk : EvKindInv s
  workers : WorkersInv s

theorem inv_reach {cap : Nat} {s : St} (h : Reach cap s) : Inv cap s :=
  ⟨cap_reach h, cnt_reach h, ph_reach h, flags_reach h, threads_reach h, lists_reach h, ids_reach h, bal_reach h,
    stable_reach h, cancel_reach h, kinv_reach h, evkind_reach h, workers_reach h⟩

theorem allHave_iff (l : List Ev) (sel : Ev → Bool) (k : EK) :
    allHave l sel k = true ↔ ∀ p ∈ l, sel p = true → has l k p.id = true := by
  simp only [allHave, List.all_eq_true, Bool.or_eq_true, Bool.not_eq_true']
  constructor
  · intro h p hp hs
    rcases h p hp with h | h
    · rw [hs] at h; cases h
    · exact h
  · intro h p hp
    cases hs : sel p
    · exact Or.inl rfl
    · exact Or.inr (h p hp hs)

/-- the call behind a non-marker entry -/
theorem Inv.thread_of {cap s} (I : Inv cap s) {p : Ev} (hp : p ∈ s.log) (hm : p.k ≠ .mark) :
    ∃ t, s.threads[p.id]? = some t ∧ t.kind.code = p.c ∧ TInv s.log p.id t := by
  obtain ⟨t, ht, hc⟩ := I.evk p hp hm
  exact ⟨t, ht, hc, I.thr p.id t ht⟩

theorem Inv.not_inTask {cap s} (I : Inv cap s) (h0 : s.numTasks = 0) {j : Nat} {t : Thread} (ht : s.threads[j]? = some t) :
    inTask t = false := by
  have := I.cnt.tasks
  rw [h0] at this
  exact countP_zero_not this.symm (List.mem_of_getElem? ht)

/-- no task in flight ⇒ the log shows every body finished -/
theorem Inv.drained {cap s} (I : Inv cap s) (h0 : s.numTasks = 0) : drained s.log = true := by
  simp only [Shk.Stopper.drained, Bool.and_eq_true, allHave_iff]
  refine ⟨?_, ?_⟩
  · intro p hp hk
    simp at hk
    obtain ⟨t, ht, hc, ti⟩ := I.thread_of hp (by rw [hk]; decide)
    have hs : started t = true := by rw [← ti.bs, ← hk]; exact has_of_mem hp
    have hn := I.not_inTask h0 ht
    rw [ti.be]
    obtain ⟨kind, pc, ret⟩ := t
    cases pc <;> simp_all [started, bodyDone, inTask]
  · intro p hp hk
    simp at hk
    obtain ⟨⟨hk, hv⟩, htc⟩ := hk
    obtain ⟨t, ht, hc, ti⟩ := I.thread_of hp (by rw [hk]; decide)
    have hret : t.ret = true := by rw [← ti.ret, ← hk]; exact has_of_mem hp
    have hv' := ti.retv p.v (by rw [← hk]; exact hasV_of_mem hp)
    have hable := ti.retable hret
    have hn := I.not_inTask h0 ht
    have htask : t.kind.isTask = true := by rw [← isTaskCode_code, hc]; exact htc
    rw [ti.be]
    obtain ⟨kind, pc, ret⟩ := t
    cases pc <;> cases kind <;> simp_all [bodyDone, inTask, retVal, retCode, Kind.isTask]

theorem Inv.workersDone {cap s} (I : Inv cap s) (h5 : 5 ≤ s.sp.rank) : workersDone s.log = true := by
  simp only [Shk.Stopper.workersDone, allHave_iff]
  intro p hp hk
  simp at hk
  exact I.workers h5 p hp hk.1.1 hk.1.2 hk.2

theorem Inv.closersDone {cap s} (I : Inv cap s) (hall : calledPrefix s = s.closers) : closersDone s.log = true := by
  simp only [Shk.Stopper.closersDone, allHave_iff]
  intro p hp hk
  simp at hk
  obtain ⟨t, ht, hc, ti⟩ := I.thread_of hp (by rw [hk.1]; decide)
  have hkind : t.kind = .closer := code_inj (by rw [hc, hk.2]; rfl)
  have hret : t.ret = true := by rw [← ti.ret, ← hk.1]; exact has_of_mem hp
  have hable := ti.retable hret
  have hdone : t.pc = .done := by
    obtain ⟨kind, pc, ret⟩ := t
    simp only [] at hkind; subst hkind
    cases pc <;> simp_all [retVal]
  by_cases hm : p.id ∈ s.closers
  · rw [I.kinv.reg _ hm, hall]; simp [hm]
  · rw [I.kinv.imm _ t ht hkind hm, hdone]; rfl

theorem countP_lt_of_witness {α} {p q : α → Bool} {l : List α} (hpq : ∀ x ∈ l, p x = true → q x = true)
    {a : α} (ha : a ∈ l) (hqa : q a = true) (hpa : p a = false) : l.countP p + 1 ≤ l.countP q := by
  induction l with
  | nil => cases ha
  | cons x xs ih =>
    simp only [List.countP_cons]
    rcases List.mem_cons.mp ha with rfl | ha'
    · have hmono : xs.countP p ≤ xs.countP q :=
        List.countP_mono_left (fun y hy h => hpq y (List.mem_cons_of_mem _ hy) h)
      simp [hqa, hpa]; omega
    · have := ih (fun y hy h => hpq y (List.mem_cons_of_mem _ hy) h) ha'
      have hx := hpq x (List.mem_cons_self)
      cases hp : p x <;> cases hq : q x <;> simp_all <;> omega

/-- one slot per limited body in progress -/
theorem Inv.sem_lower {cap s} (I : Inv cap s) : Shk.Stopper.cnt s.log .bodyStart ≤ Shk.Stopper.cnt s.log .bodyEnd + s.sem := by
  have h1 := I.bal.body
  have h2 : s.threads.countP limRunning ≤ s.threads.countP holdsSem := by
    apply List.countP_mono_left
    intro t _ h
    obtain ⟨kind, pc, ret⟩ := t
    simp [limRunning, holdsSem] at h ⊢
    simp [h.1, h.2]
  rw [I.cnt.sem]; omega

/-- … and the body that is about to begin already holds its slot -/
theorem Inv.sem_lower_start {cap s} (I : Inv cap s) {i : Nat} {t : Thread} (ht : s.threads[i]? = some t)
    (hl : t.kind.isLimited = true) (hpc : t.pc = .accepted) :
    Shk.Stopper.cnt s.log .bodyStart + 1 ≤ Shk.Stopper.cnt s.log .bodyEnd + s.sem := by
  have h1 := I.bal.body
  have h2 : s.threads.countP limRunning + 1 ≤ s.threads.countP holdsSem := by
    apply countP_lt_of_witness (a := t)
    · intro x _ h
      obtain ⟨kind, pc, ret⟩ := x
      simp [limRunning, holdsSem] at h ⊢
      simp [h.1, h.2]
    · exact List.mem_of_getElem? ht
    · simp [holdsSem, hl, hpc]
    · simp [limRunning, hpc]
  rw [I.cnt.sem]; omega

/-- after the drain only calls that have not returned can hold a slot -/
theorem Inv.sem_upper {cap s} (I : Inv cap s) (h0 : s.numTasks = 0) : Shk.Stopper.cnt s.log .ret + s.sem ≤ Shk.Stopper.cnt s.log .call := by
  have h1 := I.bal.call
  have h2 : s.threads.countP holdsSem ≤ s.threads.countP limOpen := by
    apply List.countP_mono_left
    intro t hmem h
    obtain ⟨j, hj⟩ := List.getElem?_of_mem hmem
    have hn := I.not_inTask h0 hj
    have hable := (I.thr j t hj).retable
    obtain ⟨kind, pc, ret⟩ := t
    cases ret
    · simp [limOpen, holdsSem] at h ⊢; exact h.1
    · simp at hable
      cases pc <;> cases kind <;> simp_all [holdsSem, inTask, retVal, Kind.isLimited]
  rw [I.cnt.sem]; omega

end Shk.Stopper
