import ShkModel.Lemmas.Period
/-! An auditor whose activation condition depends on nothing and is true (`audits throughout`) opens its period in
the first round, whatever its other expressions mention (the repair of the "never woken" defect, C02). -/
namespace Shk.Aud
open Shk

/-- the condition of `m` reads no variable and is true -/
structure Unconditional (m : Member) : Prop where
  auditor : m.isAuditor = true
  nodeps : m.cond.deps = []
  holds : ∀ vals, eval vals m.cond = .ok (.sc (.bool true))

theorem visit_auditing_true (c : Cfg) (ts : Rat) (s : St) (m : Member) (hu : Unconditional m)
    (hab : s.abort = none) : ((visit c false ts s m).aud m.name).auditing = true := by
  have hc : condOf false s m = some (.ok true) := by
    simp [condOf, hasDeps, hu.nodeps, hu.holds]
  unfold visit
  simp only [hab, Option.isSome_none, Bool.false_eq_true, if_false, hc]
  cases ha : (s.aud m.name).auditing with
  | false =>
    simp only [Bool.true_and, Bool.not_false, if_true]
    rw [checkExpect_auditing, (assignAll_same c ts (startPeriod s m) m.assigns m.name).auditing]
    exact startPeriod_auditing s m
  | true =>
    simp only [Bool.not_true, Bool.and_false, Bool.false_eq_true, if_false, if_true]
    rw [checkExpect_auditing, (assignAll_same c ts s m.assigns m.name).auditing]
    exact ha

theorem rvisit_opens (c : Cfg) (ts : Rat) (s : St) (m : Member) (hu : Unconditional m)
    (hab : s.abort = none) : ((rvisit c false ts s m).aud m.name).auditing = true := by
  unfold rvisit
  cases ha : (s.aud m.name).auditing with
  | false =>
    have hv : visited false s m = true := by
      simp [visited, hu.auditor, ha, hu.nodeps]
    rw [if_pos hv]; exact visit_auditing_true c ts s m hu hab
  | true =>
    split
    · exact visit_auditing_true c ts s m hu hab
    · exact ha

/-- one pass of the member loop opens the period of every unconditional auditor (if the pass does not abort) -/
theorem fold_opens (c : Cfg) (ts : Rat) (m : Member) (hu : Unconditional m) :
    ∀ (ms : List Member) (s : St), (ms.map (·.name)).Nodup → m ∈ ms →
      (ms.foldl (rvisit c false ts) s).abort = none →
      ((ms.foldl (rvisit c false ts) s).aud m.name).auditing = true := by
  intro ms
  induction ms with
  | nil => intro s _ hm; cases hm
  | cons x ms ih =>
    intro s hnd hm h
    simp only [List.map_cons, List.nodup_cons, List.mem_map, not_exists, not_and] at hnd
    simp only [List.foldl_cons] at h ⊢
    have hab : s.abort = none := by
      cases hs : s.abort with
      | none => rfl
      | some a =>
        have := fold_abort_keep c false ts (x :: ms) s (by simp [hs])
        simp only [List.foldl_cons] at this
        rw [this, hs] at h; cases h
    rcases List.mem_cons.mp hm with rfl | hm'
    · -- `m` itself: opened now, left alone by the others
      have hothers : ∀ y ∈ ms, y.name ≠ m.name := fun y hy e => hnd.1 y hy e
      rw [(fold_same c false ts ms hothers _).auditing]
      exact rvisit_opens c ts s m hu hab
    · exact ih _ hnd.2 hm' h

/-- **the period of an `audits throughout` auditor is open from the start of the play** -/
theorem start_opens (c : Cfg) (hnd : (c.members.map (·.name)).Nodup) (m : Member) (hm : m ∈ c.members)
    (hu : Unconditional m) (h : (start c).abort = none) : ((start c).aud m.name).auditing = true := by
  unfold start at h ⊢
  rw [round_eq] at h ⊢
  simp only [Option.isSome_none, Bool.false_eq_true, if_false] at h ⊢
  exact fold_opens c 0 m hu c.members _ hnd hm h

end Shk.Aud

namespace Shk.Aud
open Shk

/-! ## the loop with the rule before this repair (for the witness of the defect) -/

def roundWoken (c : Cfg) (final : Bool) (ts : Rat) (samples : List Sample) (s : St) : St :=
  if s.abort.isSome then s else
  c.members.foldl (fun st m => if visitedWoken final st m then visit c final ts st m else st)
    (beginRound c ts samples s)

def stepEvWoken (c : Cfg) (s : St) : Ev → St
  | .mood ts m =>
    if m = s.mood then s else
    let s1 := roundWoken c false ts [] s
    if s1.abort.isSome then s1 else
    roundWoken c false ts [] { s1 with moodStart := some ts, mood := m }
  | .sig ts xs => roundWoken c false ts xs s

def runWoken (c : Cfg) (evs : List Ev) (tEnd : Rat) : St :=
  let s1 := evs.foldl (stepEvWoken c)
    (roundWoken c false 0 [] { ({} : St) with moodStart := some 0, mood := "clear" })
  let s2 := roundWoken c true tEnd [] { s1 with abort := none }
  { s2 with abort := s1.abort.or s2.abort }

/-- `q audits throughout`, `q expects eventually: [x s] > 100` — and the signal never comes -/
def exThroughout : Cfg := { members := [
  { name := "q", cond := .lit (.bool true), assigns := [],
    expect := some (exEventually, .bin .gt (.var exSig) (.lit (.num 100))), watches := [] }] }

end Shk.Aud

namespace Shk.Aud
open Shk

theorem round_opens (c : Cfg) (hnd : (c.members.map (·.name)).Nodup) (m : Member) (hm : m ∈ c.members)
    (hu : Unconditional m) (ts : Rat) (xs : List Sample) (s : St)
    (h : (round c false ts xs s).abort = none) : ((round c false ts xs s).aud m.name).auditing = true := by
  rw [round_eq] at h ⊢
  split at h
  · next hs => rw [if_pos hs] at *; cases hsa : s.abort <;> simp_all
  · next hs => rw [if_neg hs]; exact fold_opens c ts m hu c.members _ hnd hm h

theorem stepEv_open (c : Cfg) (hnd : (c.members.map (·.name)).Nodup) (m : Member) (hm : m ∈ c.members)
    (hu : Unconditional m) (s : St) (e : Ev)
    (hs : s.abort = none → ((s.aud m.name).auditing = true))
    (h : (stepEv c s e).abort = none) : ((stepEv c s e).aud m.name).auditing = true := by
  cases e with
  | sig ts xs => exact round_opens c hnd m hm hu ts xs s h
  | mood ts md =>
    simp only [stepEv] at h ⊢
    split at h
    · next he => rw [if_pos he]; exact hs h
    · next he =>
      rw [if_neg he]
      split at h
      · next ha => rw [if_pos ha]; rw [h] at ha; cases ha
      · next ha => rw [if_neg ha]; exact round_opens c hnd m hm hu ts [] _ h

/-- **the period of an `audits throughout` auditor stays open until the final round**: after the start round and
after every event, as long as nothing aborted -/
theorem preFinal_open (c : Cfg) (hnd : (c.members.map (·.name)).Nodup) (m : Member) (hm : m ∈ c.members)
    (hu : Unconditional m) (evs : List Ev) (h : (preFinal c evs).abort = none) :
    ((preFinal c evs).aud m.name).auditing = true := by
  unfold preFinal at h ⊢
  have key : ∀ (es : List Ev) (s : St), (s.abort = none → (s.aud m.name).auditing = true) →
      (es.foldl (stepEv c) s).abort = none → ((es.foldl (stepEv c) s).aud m.name).auditing = true := by
    intro es
    induction es with
    | nil => intro s hs h; exact hs h
    | cons e es ih =>
      intro s hs h
      simp only [List.foldl_cons] at h ⊢
      exact ih _ (fun h' => stepEv_open c hnd m hm hu s e hs h') h
  exact key evs (start c) (fun h' => start_opens c hnd m hm hu h') h

end Shk.Aud
