import ShkModel.Lemmas.PrinterBasic
import ShkModel.Lemmas.Story
/-! Helper lemmas for C10, part 4: loading what `printCfg` emits in front of the audience
(titles, roles, cast, script) rebuilds these parts. -/
set_option linter.unusedSimpArgs false
set_option linter.unusedVariables false
namespace Shk.Printer
open Shk.Story (Act)

/-! ## titles, authors, attention -/

theorem load_titles (mt : String → Act → Bool) : ∀ (l : List String) (c : Cfg),
    loadFrom mt c (l.map Clause.title) = some { c with titles := c.titles ++ l } := by
  intro l
  induction l with
  | nil => intro c; simp [loadFrom]
  | cons x l ih => intro c; simp only [List.map_cons, loadFrom, step]; rw [ih]; simp

theorem load_authors (mt : String → Act → Bool) : ∀ (l : List String) (c : Cfg),
    loadFrom mt c (l.map Clause.author) = some { c with authors := c.authors ++ l } := by
  intro l
  induction l with
  | nil => intro c; simp [loadFrom]
  | cons x l ih => intro c; simp only [List.map_cons, loadFrom, step]; rw [ih]; simp

theorem load_attn (mt : String → Act → Bool) : ∀ (l : List String) (c : Cfg),
    loadFrom mt c (l.map Clause.attention) = some { c with attn := c.attn ++ l } := by
  intro l
  induction l with
  | nil => intro c; simp [loadFrom]
  | cons x l ih => intro c; simp only [List.map_cons, loadFrom, step]; rw [ih]; simp

/-! ## roles -/

def RoleOk (r : Role) : Prop :=
  (r.actions.map (·.1)).Nodup ∧ (r.sigs.map (·.name)).Nodup ∧ (r.sigs ≠ [] → r.spotlight ≠ "")

theorem ritems_append : ∀ (a b : List RItem) (r : Role),
    ritems r (a ++ b) = (ritems r a).bind fun r' => ritems r' b := by
  intro a
  induction a with
  | nil => intro b r; rfl
  | cons x a ih =>
    intro b r
    simp only [List.cons_append, ritems]
    cases ritem r x with
    | none => rfl
    | some r' => exact ih b r'

theorem ritems_sigs : ∀ (ss : List Sig) (r : Role), ((r.sigs ++ ss).map (·.name)).Nodup →
    ritems r (ss.map RItem.signal) = some { r with sigs := r.sigs ++ ss } := by
  intro ss
  induction ss with
  | nil => intro r _; simp [ritems]
  | cons s ss ih =>
    intro r h
    have hnot : r.sigs.any (·.name == s.name) = false := by
      simp only [List.map_append, List.map_cons] at h
      have := (List.nodup_append.mp h).2.2
      simp only [List.any_eq_false, beq_iff_eq]
      intro x hx hxe
      exact this x.name (List.mem_map.mpr ⟨x, hx, rfl⟩) s.name (by simp) hxe
    simp only [List.map_cons, ritems, ritem, hnot, Bool.false_eq_true, if_false]
    rw [ih]
    · simp
    · simpa using h

theorem ritems_actions : ∀ (as : List (String × String)) (r : Role), ((r.actions ++ as).map (·.1)).Nodup →
    ritems r (as.map fun a => RItem.action a.1 a.2) = some { r with actions := r.actions ++ as } := by
  intro as
  induction as with
  | nil => intro r _; simp [ritems]
  | cons a as ih =>
    intro r h
    have hnot : r.actions.any (·.1 == a.1) = false := by
      simp only [List.map_append, List.map_cons] at h
      have := (List.nodup_append.mp h).2.2
      simp only [List.any_eq_false, beq_iff_eq]
      intro x hx hxe
      exact this x.1 (List.mem_map.mpr ⟨x, hx, rfl⟩) a.1 (by simp) hxe
    simp only [List.map_cons, ritems, ritem, hnot, Bool.false_eq_true, if_false]
    rw [ih]
    · simp
    · simpa using h

theorem step_printRole (mt : String → Act → Bool) (c : Cfg) (r : Role)
    (hnew : r.name ∉ c.roles.map (·.name)) (hok : RoleOk r) :
    step mt c (printRole r) = some { c with roles := c.roles ++ [r] } := by
  obtain ⟨ha, hs, hsp⟩ := hok
  have hany : c.roles.any (·.name == r.name) = false := by
    simp only [List.any_eq_false, beq_iff_eq]
    intro x hx hxe
    exact hnew (List.mem_map.mpr ⟨x, hx, hxe⟩)
  have hitems : ritems ⟨r.name, "", "", [], []⟩
      ((if r.cleanup = "" then [] else [RItem.cleanup r.cleanup]) ++
       (if r.spotlight = "" then [] else [RItem.spotlight r.spotlight]) ++
       r.sigs.map RItem.signal ++ r.actions.map fun a => RItem.action a.1 a.2) = some r := by
    rw [ritems_append, ritems_append, ritems_append]
    have h1 : ritems ⟨r.name, "", "", [], []⟩ (if r.cleanup = "" then [] else [RItem.cleanup r.cleanup]) =
        some ⟨r.name, r.cleanup, "", [], []⟩ := by
      split
      · rename_i h; simp [ritems, h]
      · simp [ritems, ritem]
    have h2 : ritems ⟨r.name, r.cleanup, "", [], []⟩ (if r.spotlight = "" then [] else [RItem.spotlight r.spotlight]) =
        some ⟨r.name, r.cleanup, r.spotlight, [], []⟩ := by
      split
      · rename_i h; simp [ritems, h]
      · simp [ritems, ritem]
    rw [h1]
    simp only [Option.bind_some, h2]
    rw [ritems_sigs r.sigs ⟨r.name, r.cleanup, r.spotlight, [], []⟩ (by simpa using hs)]
    simp only [Option.bind_some, List.nil_append]
    rw [ritems_actions r.actions ⟨r.name, r.cleanup, r.spotlight, r.sigs, []⟩ (by simpa using ha)]
    simp
  simp only [step, printRole, stepRole, hany, Bool.false_eq_true, if_false, roleBase, hitems]
  have hchk : (!r.sigs.isEmpty && r.spotlight == "") = false := by
    cases hsg : r.sigs with
    | nil => simp
    | cons s ss =>
      have := hsp (by rw [hsg]; simp)
      simp [this]
  simp [hchk]

theorem load_roles (mt : String → Act → Bool) : ∀ (rs : List Role) (c : Cfg),
    ((c.roles ++ rs).map (·.name)).Nodup → (∀ r ∈ rs, RoleOk r) →
    loadFrom mt c (rs.map printRole) = some { c with roles := c.roles ++ rs } := by
  intro rs
  induction rs with
  | nil => intro c _ _; simp [loadFrom]
  | cons r rs ih =>
    intro c hnd hok
    have hnew : r.name ∉ c.roles.map (·.name) := by
      simp only [List.map_append, List.map_cons] at hnd
      intro h
      exact (List.nodup_append.mp hnd).2.2 r.name h r.name (by simp) rfl
    simp only [List.map_cons, loadFrom, step_printRole mt c r hnew (hok r List.mem_cons_self)]
    rw [ih]
    · simp
    · simpa using hnd
    · exact fun x hx => hok x (List.mem_cons_of_mem _ hx)

/-! ## cast -/

theorem step_printActor (mt : String → Act → Bool) (c : Cfg) (a : Actor)
    (hnew : a.name ∉ c.actors.map (·.name)) (hrole : ∃ r, findRole c a.role = some r) :
    step mt c (printActor a) = some { c with actors := c.actors ++ [a] } := by
  obtain ⟨r, hr⟩ := hrole
  have hrn : r.name = a.role := by
    have := List.find?_some hr
    simpa using this
  have hany : c.actors.any (·.name == a.name) = false := by
    simp only [List.any_eq_false, beq_iff_eq]
    intro x hx hxe
    exact hnew (List.mem_map.mpr ⟨x, hx, hxe⟩)
  simp only [step, printActor, stepCast, hr, addActor, hany, Bool.false_eq_true, if_false, hrn]

theorem findRole_actors (c : Cfg) (as : List Actor) (n : String) :
    findRole { c with actors := as } n = findRole c n := rfl

theorem load_cast (mt : String → Act → Bool) : ∀ (as : List Actor) (c : Cfg),
    ((c.actors ++ as).map (·.name)).Nodup → (∀ a ∈ as, ∃ r, findRole c a.role = some r) →
    loadFrom mt c (as.map printActor) = some { c with actors := c.actors ++ as } := by
  intro as
  induction as with
  | nil => intro c _ _; simp [loadFrom]
  | cons a as ih =>
    intro c hnd hrole
    have hnew : a.name ∉ c.actors.map (·.name) := by
      simp only [List.map_append, List.map_cons] at hnd
      intro h
      exact (List.nodup_append.mp hnd).2.2 a.name h a.name (by simp) rfl
    simp only [List.map_cons, loadFrom, step_printActor mt c a hnew (hrole a List.mem_cons_self)]
    rw [ih]
    · simp
    · simpa using hnd
    · exact fun x hx => hrole x (List.mem_cons_of_mem _ hx)

/-! ## scenes -/

def SceneOk (c : Cfg) (s : Scene) : Prop :=
  Shk.Story.isShort s.ch = true ∧ (s.entails ≠ [] ∨ s.moodStart ≠ "" ∨ s.moodEnd ≠ "") ∧
  ∀ e ∈ s.entails, ∃ a r, findActor c e.1 = some a ∧ findRole c a.role = some r ∧
    e.2.all (hasAction r) = true

def blankScene (ch : Char) : Scene := ⟨ch, [], "", ""⟩

theorem upsert_absent (f : Scene → Scene) (ch : Char) : ∀ (l : List Scene), ch ∉ l.map (·.ch) →
    upsertScene f ch l = l ++ [f (blankScene ch)] := by
  intro l
  induction l with
  | nil => intro _; rfl
  | cons s l ih =>
    intro h
    simp only [List.map_cons, List.mem_cons, not_or] at h
    have h1 : ¬ s.ch = ch := fun e => h.1 e.symm
    simp only [upsertScene, h1, if_false, List.cons_append, ih h.2]

theorem upsert_last (f : Scene → Scene) (ch : Char) (t : Scene) (ht : t.ch = ch) : ∀ (l : List Scene),
    ch ∉ l.map (·.ch) → upsertScene f ch (l ++ [t]) = l ++ [f t] := by
  intro l
  induction l with
  | nil => intro _; simp [upsertScene, ht]
  | cons s l ih =>
    intro h
    simp only [List.map_cons, List.mem_cons, not_or] at h
    have h1 : ¬ s.ch = ch := fun e => h.1 e.symm
    simp only [List.cons_append, upsertScene, h1, if_false, ih h.2]

/-- the scene being rebuilt is the last one, or not there yet -/
def CurScene (l : List Scene) (t : Scene) (S : List Scene) : Prop :=
  S = l ++ [t] ∨ (S = l ∧ t = blankScene t.ch)

theorem upsert_cur {f : Scene → Scene} {l S : List Scene} {t : Scene} (h : CurScene l t S)
    (hl : t.ch ∉ l.map (·.ch)) : upsertScene f t.ch S = l ++ [f t] := by
  rcases h with rfl | ⟨rfl, ht⟩
  · exact upsert_last f t.ch t rfl l hl
  · rw [upsert_absent f t.ch S hl, ← ht]

theorem load_entails (mt : String → Act → Bool) (c : Cfg) (l : List Scene) (ch : Char)
    (hch : Shk.Story.isShort ch = true) (hl : ch ∉ l.map (·.ch)) :
    ∀ (es : List (String × List String)) (t : Scene) (S : List Scene), t.ch = ch → CurScene l t S →
      (∀ e ∈ es, ∃ a r, findActor c e.1 = some a ∧ findRole c a.role = some r ∧ e.2.all (hasAction r) = true) →
      ∃ S', loadFrom mt { c with scenes := S } (es.map fun e => Clause.entails ch (.actor e.1) e.2) =
          some { c with scenes := S' } ∧ CurScene l { t with entails := t.entails ++ es } S' := by
  intro es
  induction es with
  | nil => intro t S _ hcur _; exact ⟨S, rfl, by simpa using hcur⟩
  | cons e es ih =>
    intro t S ht hcur hok
    obtain ⟨a, r, ha, hr, hact⟩ := hok e List.mem_cons_self
    have han : a.name = e.1 := by
      have := List.find?_some ha
      simpa using this
    have hstep : step mt { c with scenes := S } (Clause.entails ch (.actor e.1) e.2) =
        some { c with scenes := l ++ [addEntails [e.1] e.2 t] } := by
      have hsel : selectActors { c with scenes := S } (.actor e.1) = some (r, [a]) := by
        simp only [selectActors]
        have h1 : findActor { c with scenes := S } e.1 = some a := ha
        have h2 : findRole { c with scenes := S } a.role = some r := hr
        rw [h1]; simp only [h2]
      simp only [step, hch, Bool.not_true, Bool.false_eq_true, if_false, hsel, hact, if_true, List.map_cons,
        List.map_nil, han]
      have := upsert_cur (f := addEntails [e.1] e.2) hcur (by rw [ht]; exact hl)
      rw [ht] at this
      rw [this]
    obtain ⟨S', h1, h2⟩ := ih (addEntails [e.1] e.2 t) (l ++ [addEntails [e.1] e.2 t]) (by simp [addEntails, ht])
      (Or.inl rfl) (fun x hx => hok x (List.mem_cons_of_mem _ hx))
    refine ⟨S', ?_, ?_⟩
    · simp only [List.map_cons, loadFrom, hstep]
      exact h1
    · simpa [addEntails, List.append_assoc] using h2

theorem step_mood (mt : String → Act → Bool) (c : Cfg) (l S : List Scene) (t : Scene) (starts : Bool)
    (m : String) (hm : m ≠ "") (hch : Shk.Story.isShort t.ch = true) (hl : t.ch ∉ l.map (·.ch))
    (hcur : CurScene l t S) :
    step mt { c with scenes := S } (Clause.mood t.ch starts m) =
      some { c with scenes := l ++ [setMood starts m t] } := by
  have hm' : (m == "") = false := by simpa using hm
  simp only [step, hch, hm', Bool.not_true, Bool.or_false, Bool.false_eq_true, if_false]
  rw [upsert_cur hcur hl]

theorem load_scene (mt : String → Act → Bool) (c : Cfg) (l : List Scene) (s : Scene)
    (hok : SceneOk c s) (hl : s.ch ∉ l.map (·.ch)) :
    loadFrom mt { c with scenes := l } (printScene s) = some { c with scenes := l ++ [s] } := by
  obtain ⟨hch, hne, hent⟩ := hok
  obtain ⟨S1, h1, hc1⟩ := load_entails mt c l s.ch hch hl s.entails (blankScene s.ch) l rfl
    (Or.inr ⟨rfl, rfl⟩) hent
  simp only [printScene]
  rw [loadFrom_append, loadFrom_append, h1]
  simp only [Option.bind_some, blankScene, List.nil_append] at hc1 ⊢
  -- the mood clauses
  let t1 : Scene := ⟨s.ch, s.entails, "", ""⟩
  have hc1' : CurScene l t1 S1 := hc1
  by_cases hs : s.moodStart = ""
  · by_cases he : s.moodEnd = ""
    · simp only [hs, he, if_true, loadFrom, Option.bind_some]
      rcases hc1' with h | ⟨_, h⟩
      · have : t1 = s := by cases s; simp_all [t1]
        rw [h, this]
      · exfalso
        have h' : s.entails = [] := by simp only [t1, blankScene, Scene.mk.injEq] at h; exact h.2.1
        rcases hne with h1 | h1 | h1
        · exact h1 h'
        · exact h1 hs
        · exact h1 he
    · simp only [hs, he, if_true, if_false, loadFrom, Option.bind_some]
      have := step_mood mt c l S1 t1 false s.moodEnd he hch hl hc1'
      simp only [t1] at this
      rw [this]
      have : setMood false s.moodEnd t1 = s := by cases s; simp_all [t1, setMood]
      simp only [t1] at this
      rw [this]
  · have h2 := step_mood mt c l S1 t1 true s.moodStart hs hch hl hc1'
    simp only [hs, if_false, loadFrom]
    simp only [t1] at h2
    rw [h2]
    simp only [Option.bind_some]
    by_cases he : s.moodEnd = ""
    · simp only [he, if_true, loadFrom]
      have : setMood true s.moodStart ⟨s.ch, s.entails, "", ""⟩ = s := by cases s; simp_all [setMood]
      rw [this]
    · simp only [he, if_false, loadFrom]
      have h3 := step_mood mt c l (l ++ [⟨s.ch, s.entails, s.moodStart, ""⟩])
        ⟨s.ch, s.entails, s.moodStart, ""⟩ false s.moodEnd he hch hl (Or.inl rfl)
      simp only [setMood, if_true]
      simp only at h3
      rw [h3]
      simp only [setMood, Bool.false_eq_true, if_false]

theorem load_scenes (mt : String → Act → Bool) (c : Cfg) : ∀ (scs l : List Scene),
    ((l ++ scs).map (·.ch)).Nodup → (∀ s ∈ scs, SceneOk c s) →
    loadFrom mt { c with scenes := l } (scs.flatMap printScene) = some { c with scenes := l ++ scs } := by
  intro scs
  induction scs with
  | nil => intro l _ _; simp [loadFrom]
  | cons s scs ih =>
    intro l hnd hok
    have hl : s.ch ∉ l.map (·.ch) := by
      simp only [List.map_append, List.map_cons] at hnd
      intro h
      exact (List.nodup_append.mp hnd).2.2 s.ch h s.ch (by simp) rfl
    simp only [List.flatMap_cons]
    rw [loadFrom_append, load_scene mt c l s (hok s List.mem_cons_self) hl]
    simp only [Option.bind_some]
    rw [ih (l ++ [s]) (by simpa using hnd) (fun x hx => hok x (List.mem_cons_of_mem _ hx))]
    simp

/-! ## the storyline -/

open Shk.Story in
theorem splitSp_nospace : ∀ (a : List Char), ' ' ∉ a → splitSp a = [a] := by
  intro a
  induction a with
  | nil => intro _; rfl
  | cons c a ih =>
    intro h
    simp only [List.mem_cons, not_or] at h
    have hc : ¬ c = ' ' := fun e => h.1 e.symm
    simp only [splitSp, hc, if_false, ih h.2, consHead]

open Shk.Story in
theorem splitSp_append_space : ∀ (a t : List Char), ' ' ∉ a →
    splitSp (a ++ ' ' :: t) = a :: splitSp t := by
  intro a
  induction a with
  | nil => intro t _; simp [splitSp]
  | cons c a ih =>
    intro t h
    simp only [List.mem_cons, not_or] at h
    have hc : ¬ c = ' ' := fun e => h.1 e.symm
    simp only [List.cons_append, splitSp, hc, if_false, ih t h.2, consHead]

open Shk.Story in
theorem splitSp_joinSp : ∀ (s : List Act), s ≠ [] → (∀ a ∈ s, ' ' ∉ a) → splitSp (joinSp s) = s := by
  intro s
  induction s with
  | nil => intro h; exact absurd rfl h
  | cons a s ih =>
    intro _ hsp
    cases s with
    | nil => simp only [joinSp]; exact splitSp_nospace a (hsp a (by simp))
    | cons b s' =>
      simp only [joinSp]
      rw [splitSp_append_space a _ (hsp a (by simp))]
      rw [ih (by simp) (fun x hx => hsp x (List.mem_cons_of_mem _ hx))]

theorem dropWhile_none {α : Type} (p : α → Bool) : ∀ (l : List α), (∀ x ∈ l, p x = false) → l.dropWhile p = l := by
  intro l
  induction l with
  | nil => intro _; rfl
  | cons x l _ => intro h; simp [List.dropWhile, h x List.mem_cons_self]

open Shk.Story in
theorem spaceLen_plain (c : Char) (rest : List Char) (h : isPlain c = true) : spaceLen (c :: rest) = 0 := by
  simp only [isPlain, Bool.and_eq_true, Bool.not_eq_true', decide_eq_true_eq] at h
  obtain ⟨h1, h2⟩ := h
  unfold spaceLen
  simp only [h1, Bool.false_eq_true, if_false]
  split <;> first | rfl | (exfalso; omega)

open Shk.Story in
theorem spaceLenR_plain (c : Char) (rest : List Char) (h : isPlain c = true) : spaceLenR (c :: rest) = 0 := by
  simp only [isPlain, Bool.and_eq_true, Bool.not_eq_true', decide_eq_true_eq] at h
  obtain ⟨h1, h2⟩ := h
  unfold spaceLenR
  simp only [h1, Bool.false_eq_true, if_false]
  cases rest with
  | nil => rfl
  | cons d more =>
    have hc1 : (c.toNat == 0x85) = false := by simp; omega
    have hc2 : (c.toNat == 0xA0) = false := by simp; omega
    simp only [hc1, hc2, Bool.or_self, Bool.and_false, Bool.false_eq_true, if_false]
    cases more with
    | nil => rfl
    | cons e _ =>
      simp only
      have : spaceLen [e, d, c] ≠ 3 := by
        unfold spaceLen
        split
        · decide
        · split <;> (try split) <;> (try split) <;> simp_all <;> omega
      simp [this]

open Shk.Story in
theorem dropSpaces_fix (len : List Char → Nat) (f : Nat) (l : List Char) (h : len l = 0) : dropSpaces len f l = l := by
  cases f with
  | zero => rfl
  | succ f => simp [dropSpaces, h]

open Shk.Story in
theorem trim_plain (a : List Char) (hs : ∀ x ∈ a, isPlain x = true) : trim a = a := by
  unfold trim
  have h1 : dropSpaces spaceLen a.length a = a := by
    apply dropSpaces_fix
    cases a with
    | nil => rfl
    | cons c r => exact spaceLen_plain c r (hs c (by simp))
  rw [h1]
  have h2 : dropSpaces spaceLenR a.length a.reverse = a.reverse := by
    apply dropSpaces_fix
    cases hr : a.reverse with
    | nil => rfl
    | cons c r =>
      apply spaceLenR_plain c r
      apply hs c
      have : c ∈ a.reverse := by rw [hr]; simp
      exact List.mem_reverse.mp this
  rw [h2, List.reverse_reverse]

open Shk.Story in
theorem cleanPart_id (a : List Char) (hs : ∀ x ∈ a, isPlain x = true) (hu : '_' ∉ a) : cleanPart a = a := by
  simp only [cleanPart, trim_plain a hs]
  apply List.filter_eq_self.mpr
  intro x hx
  simp only [ne_eq, decide_eq_true_eq]
  exact fun e => hu (e ▸ hx)

/-- the table of C06 for the scenes of a configuration (only which scenes exist matters here) -/
def tblOf (c : Cfg) : Shk.Story.Table := fun ch => if sceneDefined c ch then some {} else none

theorem defd_tblOf (c : Cfg) : Shk.Story.defd (tblOf c) = sceneDefined c := by
  funext ch
  simp only [Shk.Story.defd, tblOf]
  cases sceneDefined c ch <;> rfl

/-- what `validateStoryLine` and `combineStoryLines` guarantee for `cfg.storyLine` -/
def StoryOk (c : Cfg) : Prop :=
  Shk.Story.ValidStory (tblOf c) c.story ∧
  ∀ a ∈ c.story, a ≠ [] ∧ ∀ x ∈ a, Shk.Story.isPlain x = true

open Shk.Story in
theorem validate_joinSp (c : Cfg) (hok : StoryOk c) (hne : c.story ≠ []) :
    validate (sceneDefined c) (joinSp c.story) = .ok c.story := by
  obtain ⟨hv, hs⟩ := hok
  rw [validate_iff]
  have hsp : ∀ a ∈ c.story, ' ' ∉ a := by
    intro a ha h
    have := (hs a ha).2 ' ' h
    revert this; decide
  refine ⟨?_, ?_⟩
  · rw [writtenActs_eq, splitSp_joinSp c.story hne hsp]
    have h1 : c.story.map cleanPart = c.story := by
      conv => rhs; rw [← List.map_id c.story]
      apply List.map_congr_left
      intro a ha
      exact cleanPart_id a (hs a ha).2 (fun h => ((hv a ha).2 '_' h).1 rfl)
    rw [h1]
    exact (List.filter_eq_self.mpr fun a ha => by simpa using (hs a ha).1).symm
  · intro a ha
    rw [validAct_iff]
    refine ⟨(hv a ha).1, fun x hx => ?_⟩
    have := ((hv a ha).2 x hx).2
    rw [← defd_tblOf]
    simpa [Shk.Story.defd] using this

theorem load_story (mt : String → Act → Bool) (c : Cfg) (hok : StoryOk c)
    (hrep : ∀ re, c.repFrom = some re → c.repAct = firstMatch mt re c.story)
    (c1 : Cfg) (h1s : c1.scenes = c.scenes) (h1st : c1.story = []) (h1r : c1.repFrom = none) :
    ∃ c2, loadFrom mt c1 (printStory c) = some c2 ∧
      c2 = { c1 with story := c2.story, repFrom := c2.repFrom, repAct := c2.repAct, repTime := c2.repTime,
                     repCount := c2.repCount } ∧
      c2.story = c.story ∧
      (c.story ≠ [] → ∀ re, c.repFrom = some re →
        c2.repFrom = some re ∧ c2.repAct = c.repAct ∧ c2.repTime = c.repTime ∧ c2.repCount = c.repCount) ∧
      (c.story ≠ [] → c.repFrom = none → c2.repFrom = none) := by
  by_cases hne : c.story = []
  · refine ⟨c1, by simp [printStory, hne, loadFrom], by cases c1; rfl, by rw [h1st, hne], fun h => absurd hne h,
      fun h => absurd hne h⟩
  · have hdef : sceneDefined c1 = sceneDefined c := by funext ch; simp [sceneDefined, h1s]
    have hst : step mt c1 (Clause.storyline (Shk.Story.joinSp c.story)) = some { c1 with story := c.story } := by
      simp only [step, hdef, validate_joinSp c hok hne, h1st, Shk.Story.combineStory, updateRepeat, h1r]
    simp only [printStory, hne, if_false, loadFrom, hst]
    cases hr : c.repFrom with
    | none =>
      simp only [loadFrom]
      refine ⟨_, rfl, ?_, rfl, ?_, ?_⟩
      · cases c1; simp
      · intro _ re h; cases h
      · intro _ _; exact h1r
    | some re =>
      simp only [loadFrom, step, updateRepeat]
      refine ⟨_, rfl, ?_, rfl, ?_, ?_⟩
      · cases c1; simp
      · intro _ re' h
        injection h with h
        subst h
        exact ⟨rfl, (hrep re hr).symm, rfl, rfl⟩
      · intro _ h; cases h

end Shk.Printer
