import ShkModel.Lemmas.PrinterReplay
/-! Helper lemmas for C10, part 5: the interpretation clauses printed after the audience put
the interpretation of every member that expects something back. -/
set_option linter.unusedSimpArgs false
set_option linter.unusedVariables false
namespace Shk.Printer
open Shk.Story (Act)

theorem find_mid {n : String} {q : Member} (hq : q.name = n) : ∀ (dq : List Member) (rest : List Member),
    (∀ x ∈ dq, x.name ≠ n) → (dq ++ q :: rest).find? (·.name == n) = some q := by
  intro dq
  induction dq with
  | nil => intro rest _; simp [List.find?_cons, hq]
  | cons x dq ih =>
    intro rest h
    have hx : (x.name == n) = false := by simpa using h x List.mem_cons_self
    simp only [List.cons_append, List.find?_cons, hx]
    exact ih rest fun y hy => h y (List.mem_cons_of_mem _ hy)

theorem putIn_mid {m' q : Member} (hq : q.name = m'.name) : ∀ (dq : List Member) (rest : List Member),
    (∀ x ∈ dq, x.name ≠ m'.name) → putIn m' (dq ++ q :: rest) = dq ++ m' :: rest := by
  intro dq
  induction dq with
  | nil => intro rest _; simp [putIn, hq]
  | cons x dq ih =>
    intro rest h
    have hx : ¬ x.name = m'.name := h x List.mem_cons_self
    simp only [List.cons_append, putIn, hx, if_false]
    rw [ih rest fun y hy => h y (List.mem_cons_of_mem _ hy)]

theorem step_set (mt : String → Act → Bool) (c0 : Cfg) (dq rest : List Member) (q : Member) (f : Foul)
    (good : Bool) (hdq : ∀ x ∈ dq, x.name ≠ q.name) :
    step mt { c0 with members := dq ++ q :: rest } (.interp (.set f q.name good)) =
      some { c0 with members := dq ++ setFoul good f q :: rest } := by
  have hname : (setFoul good f q).name = q.name := by simp only [setFoul]; split <;> rfl
  simp only [step, stepInterp, findMember, find_mid rfl dq rest hdq, putMember]
  rw [putIn_mid (m' := setFoul good f q) hname.symm dq rest (by rw [hname]; exact hdq)]

theorem meq0_equiv_of_none {m q : Member} (h : MEq0 m q) (he : m.expects = none) : Member.Equiv m q :=
  ⟨h.name, h.active, h.assigns, h.expects, h.obs, h.ylabel, h.noplot, by rw [he]; intro h; cases h⟩

theorem load_interp (mt : String → Act → Bool) (c0 : Cfg) : ∀ (ms qs dq : List Member), All₂ MEq0 ms qs →
    ((dq ++ qs).map (·.name)).Nodup →
    ∃ qs', loadFrom mt { c0 with members := dq ++ qs } (printInterp ms) =
        some { c0 with members := dq ++ qs' } ∧ All₂ Member.Equiv ms qs' := by
  intro ms
  induction ms with
  | nil =>
    intro qs dq h _
    cases h
    exact ⟨[], by simp [printInterp, loadFrom], .nil⟩
  | cons m ms ih =>
    intro qs dq h hnd
    cases h with
    | cons hmq hrest =>
      rename_i q qs'
      have hdq : ∀ x ∈ dq, x.name ≠ q.name := by
        intro x hx e
        simp only [List.map_append, List.map_cons] at hnd
        exact (List.nodup_append.mp hnd).2.2 x.name (List.mem_map.mpr ⟨x, hx, rfl⟩) q.name (by simp) e
      cases he : m.expects with
      | none =>
        obtain ⟨r, h1, h2⟩ := ih qs' (dq ++ [q]) hrest (by simpa using hnd)
        refine ⟨q :: r, ?_, .cons (meq0_equiv_of_none hmq he) h2⟩
        have : printInterp (m :: ms) = printInterp ms := by simp [printInterp, he]
        rw [this]
        simpa using h1
      | some x =>
        have hp : printInterp (m :: ms) =
            Clause.interp (.set m.bad m.name false) :: Clause.interp (.set m.good m.name true) :: printInterp ms := by
          simp [printInterp, he]
        rw [hp, hmq.name]
        have s1 := step_set mt c0 dq qs' q m.bad false hdq
        have hname1 : (setFoul false m.bad q).name = q.name := rfl
        have s2 := step_set mt c0 dq qs' (setFoul false m.bad q) m.good true (by rw [hname1]; exact hdq)
        rw [hname1] at s2
        let q2 : Member := setFoul true m.good (setFoul false m.bad q)
        have hq2n : q2.name = q.name := rfl
        obtain ⟨r, h1, h2⟩ := ih qs' (dq ++ [q2]) hrest (by simpa [hq2n] using hnd)
        refine ⟨q2 :: r, ?_, .cons ?_ h2⟩
        · simp only [loadFrom, s1, s2]
          simpa using h1
        · exact ⟨hmq.name, hmq.active, hmq.assigns, hmq.expects, hmq.obs, hmq.ylabel, hmq.noplot,
            fun _ => ⟨rfl, rfl⟩⟩

end Shk.Printer
