import ShkModel.Model.Printer
/-! Helper lemmas for C10, part 1: folds, association lists, `checkEx`. -/
namespace Shk.Printer
open Shk.Story (Act)

/-! ## `loadFrom` -/

theorem loadFrom_append (mt : String → Act → Bool) : ∀ (a b : List Clause) (c : Cfg),
    loadFrom mt c (a ++ b) = (loadFrom mt c a).bind fun c' => loadFrom mt c' b := by
  intro a
  induction a with
  | nil => intro b c; rfl
  | cons x a ih =>
    intro b c
    simp only [List.cons_append, loadFrom]
    cases h : step mt c x with
    | none => rfl
    | some c' => exact ih b c'

theorem loadFrom_cons (mt : String → Act → Bool) (x : Clause) (l : List Clause) (c : Cfg) :
    loadFrom mt c (x :: l) = (step mt c x).bind fun c' => loadFrom mt c' l := by
  simp only [loadFrom]
  cases step mt c x <;> rfl

/-! ## `All₂` -/

theorem All₂.refl {α : Type} {R : α → α → Prop} (h : ∀ a, R a a) : ∀ l : List α, All₂ R l l
  | [] => .nil
  | a :: l => .cons (h a) (All₂.refl h l)

theorem All₂.length_eq {α β : Type} {R : α → β → Prop} {l₁ : List α} {l₂ : List β}
    (h : All₂ R l₁ l₂) : l₁.length = l₂.length := by
  induction h with
  | nil => rfl
  | cons _ _ ih => simp [ih]

theorem All₂.append {α β : Type} {R : α → β → Prop} {a₁ a₂ : List α} {b₁ b₂ : List β}
    (h₁ : All₂ R a₁ b₁) (h₂ : All₂ R a₂ b₂) : All₂ R (a₁ ++ a₂) (b₁ ++ b₂) := by
  induction h₁ with
  | nil => simpa using h₂
  | cons h _ ih => exact .cons h ih

theorem All₂.map_eq {α β γ : Type} {R : α → β → Prop} {f : α → γ} {g : β → γ}
    (hfg : ∀ a b, R a b → f a = g b) {l₁ : List α} {l₂ : List β} (h : All₂ R l₁ l₂) :
    l₁.map f = l₂.map g := by
  induction h with
  | nil => rfl
  | cons h _ ih => simp [hfg _ _ h, ih]

/-- split the left list of an `All₂` along an append on the right -/
theorem All₂.of_append_right {α β : Type} {R : α → β → Prop} :
    ∀ {l : List α} {b₁ b₂ : List β}, All₂ R l (b₁ ++ b₂) →
      ∃ a₁ a₂, l = a₁ ++ a₂ ∧ All₂ R a₁ b₁ ∧ All₂ R a₂ b₂ := by
  intro l b₁
  induction b₁ generalizing l with
  | nil => intro b₂ h; exact ⟨[], l, rfl, .nil, by simpa using h⟩
  | cons b b₁ ih =>
    intro b₂ h
    cases h with
    | cons hab hrest =>
      obtain ⟨a₁, a₂, rfl, h₁, h₂⟩ := ih hrest
      exact ⟨_ :: a₁, a₂, rfl, .cons hab h₁, h₂⟩

theorem Ex.Equiv.refl (e : Ex) : e.Equiv e := ⟨rfl, List.Perm.refl _⟩

theorem AClause.Equiv.refl : ∀ c : AClause, c.Equiv c
  | .audits e => Ex.Equiv.refl e
  | .assign a => ⟨rfl, rfl, Ex.Equiv.refl _⟩
  | .expects _ e => ⟨rfl, Ex.Equiv.refl e⟩
  | .expectsLike _ => rfl
  | .watchSig _ _ => rfl
  | .watchVar _ => rfl
  | .measures _ => rfl
  | .onlyHelps => rfl

/-! ## members as an association list -/

theorem find_putIn_same (m : Member) : ∀ l : List Member,
    (putIn m l).find? (·.name == m.name) = some m := by
  intro l
  induction l with
  | nil => simp [putIn]
  | cons x l ih =>
    simp only [putIn]
    split
    · simp
    · rename_i h
      simp only [List.find?_cons]
      have : (x.name == m.name) = false := by simpa using h
      rw [this]; exact ih

theorem find_putIn_other (m : Member) {n : String} (hn : n ≠ m.name) : ∀ l : List Member,
    (putIn m l).find? (·.name == n) = l.find? (·.name == n) := by
  intro l
  induction l with
  | nil =>
    simp only [putIn, List.find?_cons, List.find?_nil]
    have : (m.name == n) = false := by simpa using fun h => hn h.symm
    rw [this]
  | cons x l ih =>
    simp only [putIn]
    split
    · rename_i h
      simp only [List.find?_cons]
      have h1 : (x.name == n) = false := by simpa [h] using fun h' => hn h'.symm
      have h2 : (m.name == n) = false := by simpa using fun h' => hn h'.symm
      rw [h1, h2]
    · simp only [List.find?_cons]
      split
      · rfl
      · exact ih

theorem names_putIn (m : Member) : ∀ l : List Member,
    (putIn m l).map (·.name) =
      if m.name ∈ l.map (·.name) then l.map (·.name) else l.map (·.name) ++ [m.name] := by
  intro l
  induction l with
  | nil => simp [putIn]
  | cons x l ih =>
    simp only [putIn]
    split
    · rename_i h; simp [h]
    · rename_i h
      have hx : ¬ m.name = x.name := fun e => h e.symm
      simp only [List.map_cons, ih, List.mem_cons, hx, false_or]
      split <;> simp

/-- `putIn` replaces exactly the member that `find?` finds (the first of that name), or appends -/
theorem putIn_decomp (m : Member) : ∀ l : List Member,
    (l.find? (·.name == m.name) = none ∧ putIn m l = l ++ [m]) ∨
    (∃ pre old post, l = pre ++ old :: post ∧ old.name = m.name ∧ (∀ x ∈ pre, x.name ≠ m.name) ∧
      l.find? (·.name == m.name) = some old ∧ putIn m l = pre ++ m :: post) := by
  intro l
  induction l with
  | nil => left; simp [putIn]
  | cons x l ih =>
    by_cases hx : x.name = m.name
    · right
      refine ⟨[], x, l, rfl, hx, by simp, ?_, ?_⟩
      · simp [List.find?_cons, hx]
      · simp [putIn, hx]
    · have hb : (x.name == m.name) = false := by simpa using hx
      rcases ih with ⟨h1, h2⟩ | ⟨pre, old, post, rfl, h1, h2, h3, h4⟩
      · left
        refine ⟨by simp [List.find?_cons, hb, h1], ?_⟩
        simp [putIn, hx, h2]
      · right
        refine ⟨x :: pre, old, post, rfl, h1, ?_, ?_, ?_⟩
        · intro y hy
          rcases List.mem_cons.mp hy with rfl | hy
          · exact hx
          · exact h2 y hy
        · simp only [List.cons_append, List.find?_cons, hb]; exact h3
        · simp [putIn, hx, h4]

theorem mem_putIn_sub {m x : Member} {l : List Member} (h : x ∈ putIn m l) : x = m ∨ x ∈ l := by
  rcases putIn_decomp m l with ⟨_, h2⟩ | ⟨pre, old, post, rfl, _, _, _, h4⟩
  · rw [h2] at h
    rcases List.mem_append.mp h with h | h
    · exact Or.inr h
    · exact Or.inl (by simpa using h)
  · rw [h4] at h
    simp only [List.mem_append, List.mem_cons] at h ⊢
    rcases h with h | rfl | h
    · exact Or.inr (Or.inl h)
    · exact Or.inl rfl
    · exact Or.inr (Or.inr (Or.inr h))

end Shk.Printer
