import ShkModel.Model.Stopper
/-!
# Invariants of the stopper model (helper lemmas for C15)

Every invariant is proved for `Reach`, i.e. for every interleaving of any number of calls.
-/
namespace Shk.Stopper

/-! ## list and log helpers -/

theorem countP_set {α} (p : α → Bool) (l : List α) (i : Nat) (old new : α) (h : l[i]? = some old) :
    (l.set i new).countP p + (if p old then 1 else 0) = l.countP p + (if p new then 1 else 0) := by
  induction l generalizing i with
  | nil => simp at h
  | cons x xs ih =>
    cases i with
    | zero =>
      simp at h; subst h
      simp [List.countP_cons]; omega
    | succ j =>
      simp at h
      have := ih j h
      simp [List.countP_cons] at this ⊢; omega

theorem countP_set' {α} (p : α → Bool) (l : List α) (i : Nat) (old new : α) (h : l[i]? = some old) :
    (l.set i new).countP p = l.countP p + (if p new then 1 else 0) - (if p old then 1 else 0) := by
  have := countP_set p l i old new h
  omega

theorem getElem?_set_cases {α} (l : List α) (i j : Nat) (a b : α) (h : (l.set i a)[j]? = some b) :
    (j = i ∧ b = a ∧ i < l.length) ∨ (j ≠ i ∧ l[j]? = some b) := by
  by_cases hji : j = i
  · subst hji
    by_cases hl : j < l.length
    · simp [hl] at h
      exact Or.inl ⟨rfl, h.symm, hl⟩
    · simp [hl] at h
  · right
    refine ⟨hji, ?_⟩
    rwa [List.getElem?_set_ne (Ne.symm hji)] at h

theorem lt_length_of_getElem? {α} {l : List α} {i : Nat} {a : α} (h : l[i]? = some a) : i < l.length := by
  by_cases hl : i < l.length
  · exact hl
  · simp [hl] at h

@[simp] theorem has_nil (k : EK) (i : Nat) : has [] k i = false := rfl
@[simp] theorem has_append (l m : List Ev) (k : EK) (i : Nat) : has (l ++ m) k i = (has l k i || has m k i) := by
  simp [has]
@[simp] theorem hasV_append (l m : List Ev) (k : EK) (i v : Nat) :
    hasV (l ++ m) k i v = (hasV l k i v || hasV m k i v) := by
  simp [hasV]
@[simp] theorem has_cons (e : Ev) (m : List Ev) (k : EK) (i : Nat) :
    has (e :: m) k i = ((e.k == k && e.id == i) || has m k i) := by
  simp [has]
@[simp] theorem hasV_nil (k : EK) (i v : Nat) : hasV [] k i v = false := rfl
@[simp] theorem hasV_cons (e : Ev) (m : List Ev) (k : EK) (i v : Nat) :
    hasV (e :: m) k i v = ((e.k == k && e.id == i && e.v == v) || hasV m k i v) := by
  simp [hasV]

theorem has_of_mem {l : List Ev} {e : Ev} (h : e ∈ l) : has l e.k e.id = true := by
  simp only [has, List.any_eq_true]
  exact ⟨e, h, by simp⟩

theorem hasV_of_mem {l : List Ev} {e : Ev} (h : e ∈ l) : hasV l e.k e.id e.v = true := by
  simp only [hasV, List.any_eq_true]
  exact ⟨e, h, by simp⟩

theorem has_of_hasV {l : List Ev} {k i v} (h : hasV l k i v = true) : has l k i = true := by
  simp only [hasV, has, List.any_eq_true] at *
  obtain ⟨e, he, h⟩ := h
  exact ⟨e, he, by simp_all⟩

theorem exists_of_has {l : List Ev} {k i} (h : has l k i = true) : ∃ e ∈ l, e.k = k ∧ e.id = i := by
  simp only [has, List.any_eq_true] at h
  obtain ⟨e, he, h⟩ := h
  exact ⟨e, he, by simp_all⟩

/-- entries of kind `k'` made by mapping over a list of ids do not count for another kind -/
theorem has_map_other (ids : List Nat) (f : Nat → Ev) (k k' : EK) (i : Nat) (hk : ∀ c, (f c).k = k') (hne : k' ≠ k) :
    has (ids.map f) k i = false := by
  induction ids with
  | nil => rfl
  | cons c cs ih =>
    simp only [List.map_cons, has_cons, ih, Bool.or_false]
    have : ((f c).k == k) = false := by
      rw [hk c]; exact beq_false_of_ne hne
    simp [this]

theorem hasV_map_other (ids : List Nat) (f : Nat → Ev) (k k' : EK) (i v : Nat) (hk : ∀ c, (f c).k = k') (hne : k' ≠ k) :
    hasV (ids.map f) k i v = false := by
  induction ids with
  | nil => rfl
  | cons c cs ih =>
    simp only [List.map_cons, hasV_cons, ih, Bool.or_false]
    have : ((f c).k == k) = false := by
      rw [hk c]; exact beq_false_of_ne hne
    simp [this]

theorem has_map_self (ids : List Nat) (f : Nat → Ev) (k : EK) (i : Nat) (hk : ∀ c, (f c).k = k) (hid : ∀ c, (f c).id = c) :
    has (ids.map f) k i = decide (i ∈ ids) := by
  induction ids with
  | nil => simp
  | cons c cs ih =>
    simp only [List.map_cons, has_cons, ih, hk, hid, beq_self_eq_true, Bool.true_and, List.mem_cons]
    by_cases h : c = i
    · subst h; simp
    · have : (c == i) = false := beq_false_of_ne h
      have h' : ¬ i = c := fun e => h e.symm
      simp [this, h']

/-! `callOf` is stable once defined -/

theorem callOf_append_of_some {l : List Ev} {i : Nat} {e : Ev} (h : callOf l i = some e) (m : List Ev) :
    callOf (l ++ m) i = some e := by
  simp only [callOf] at h ⊢
  rw [List.find?_append, h]; rfl

theorem callOf_append_of_none {l : List Ev} {i : Nat} (h : callOf l i = none) (m : List Ev) :
    callOf (l ++ m) i = callOf m i := by
  simp only [callOf] at h ⊢
  rw [List.find?_append, h]; rfl

theorem callOf_mem {l : List Ev} {i : Nat} {e : Ev} (h : callOf l i = some e) : e ∈ l ∧ e.k = .call ∧ e.id = i := by
  simp only [callOf] at h
  have h1 := List.mem_of_find?_eq_some h
  have h2 := List.find?_some h
  simp at h2
  exact ⟨h1, h2.1, h2.2⟩

theorem callOf_none_of_not_has {l : List Ev} {i : Nat} (h : has l .call i = false) : callOf l i = none := by
  simp only [callOf, List.find?_eq_none]
  intro e he hc
  have := has_of_mem he
  simp at hc
  rw [hc.1, hc.2] at this
  simp [this] at h

/-! `cnt` -/

@[simp] theorem cnt_append (l m : List Ev) (k : EK) : cnt (l ++ m) k = cnt l k + cnt m k := by
  simp [cnt]
@[simp] theorem cnt_nil (k : EK) : cnt [] k = 0 := rfl
@[simp] theorem cnt_cons (e : Ev) (m : List Ev) (k : EK) :
    cnt (e :: m) k = cnt m k + (if e.k == k && isLimCode e.c then 1 else 0) := by
  simp [cnt, List.countP_cons]

theorem cnt_map_other (ids : List Nat) (f : Nat → Ev) (k k' : EK) (hk : ∀ c, (f c).k = k') (hne : k' ≠ k) :
    cnt (ids.map f) k = 0 := by
  induction ids with
  | nil => rfl
  | cons c cs ih =>
    have : ((f c).k == k) = false := by
      rw [hk c]; exact beq_false_of_ne hne
    simp [ih, this]

/-! `markSeq` -/

@[simp] theorem markSeq_append (l m : List Ev) : markSeq (l ++ m) = markSeq l ++ markSeq m := by
  simp [markSeq]
@[simp] theorem markSeq_nil : markSeq [] = [] := rfl
@[simp] theorem markSeq_cons (e : Ev) (m : List Ev) :
    markSeq (e :: m) = (if e.k == .mark then [e.v] else []) ++ markSeq m := by
  simp only [markSeq, List.filter_cons]
  split <;> simp

theorem markSeq_map_other (ids : List Nat) (f : Nat → Ev) (k' : EK) (hk : ∀ c, (f c).k = k') (hne : k' ≠ .mark) :
    markSeq (ids.map f) = [] := by
  induction ids with
  | nil => rfl
  | cons c cs ih =>
    have : ((f c).k == EK.mark) = false := by
      rw [hk c]; exact beq_false_of_ne hne
    simp [ih, this]

/-! ## `logOk` over appended entries -/

theorem logOkFrom_append (cap : Nat) (pre a b : List Ev) :
    logOkFrom cap pre (a ++ b) = (logOkFrom cap pre a && logOkFrom cap (pre ++ a) b) := by
  induction a generalizing pre with
  | nil => simp [logOkFrom]
  | cons e es ih =>
    simp only [List.cons_append, logOkFrom, ih, Bool.and_assoc]
    congr 2
    simp

theorem logOk_append (cap : Nat) (l es : List Ev) :
    logOk cap (l ++ es) = (logOk cap l && logOkFrom cap l es) := by
  simp [logOk, logOkFrom_append]

theorem logOkFrom_single (cap : Nat) (pre : List Ev) (e : Ev) : logOkFrom cap pre [e] = evOk cap pre e := by
  simp [logOkFrom]

/-! ## predicates on calls -/

def inTask (t : Thread) : Bool :=
  match t.pc with
  | .accepted | .running | .ended | .released => true
  | _ => false
def inWg (t : Thread) : Bool :=
  match t.pc with
  | .wAdded | .wRunning | .wEnded => true
  | _ => false
def holdsSem (t : Thread) : Bool :=
  t.kind.isLimited &&
  match t.pc with
  | .semHeld | .refHold | .accepted | .running | .ended => true
  | _ => false
/-- the body has begun -/
def started (t : Thread) : Bool :=
  t.kind.isTask &&
  match t.pc with
  | .running | .ended | .released | .done => true
  | _ => false
/-- the body has finished -/
def bodyDone (t : Thread) : Bool :=
  t.kind.isTask &&
  match t.pc with
  | .ended | .released | .done => true
  | _ => false
/-- runPrelude said yes -/
def wasAccepted (t : Thread) : Bool :=
  t.kind.isTask &&
  match t.pc with
  | .accepted | .running | .ended | .released | .done => true
  | _ => false
def wStarted (t : Thread) : Bool :=
  t.kind == .worker &&
  match t.pc with
  | .wRunning | .wEnded | .done => true
  | _ => false
def wDone (t : Thread) : Bool :=
  t.kind == .worker &&
  match t.pc with
  | .wEnded | .done => true
  | _ => false
def limRunning (t : Thread) : Bool := t.kind.isLimited && t.pc == .running
def limOpen (t : Thread) : Bool := t.kind.isLimited && !t.ret
def activeStop (t : Thread) : Bool := t.kind == .stop && t.pc == .sActive

def retCode (pc : Pc) : Nat := if pc = .failU then 1 else if pc = .failT then 2 else 0

def SP.rank : SP → Nat
  | .idle => 0 | .quiesce => 1 | .wait => 2 | .drained => 3 | .wg => 4 | .closers _ => 5 | .fin => 6

@[simp] theorem rank_idle : SP.rank .idle = 0 := rfl
@[simp] theorem rank_quiesce : SP.rank .quiesce = 1 := rfl
@[simp] theorem rank_wait : SP.rank .wait = 2 := rfl
@[simp] theorem rank_drained : SP.rank .drained = 3 := rfl
@[simp] theorem rank_wg : SP.rank .wg = 4 := rfl
@[simp] theorem rank_closers (k : Nat) : SP.rank (.closers k) = 5 := rfl
@[simp] theorem rank_fin : SP.rank .fin = 6 := rfl

/-- the closers that the effective Stop has already called -/
def calledPrefix (s : St) : List Nat :=
  match s.sp with
  | .closers k => s.closers.take k
  | .fin => s.closers
  | _ => []

theorem isLimCode_code (k : Kind) : isLimCode k.code = k.isLimited := by
  cases k <;> first | rfl | (rename_i w; cases w <;> rfl)
theorem isTaskCode_code (k : Kind) : isTaskCode k.code = k.isTask := by
  cases k <;> first | rfl | (rename_i w; cases w <;> rfl)
theorem ofCode_code (k : Kind) : Kind.ofCode k.code = some k := by
  cases k <;> first | rfl | (rename_i w; cases w <;> rfl)
theorem code_inj {a b : Kind} (h : a.code = b.code) : a = b := by
  have := ofCode_code a
  rw [h, ofCode_code b] at this
  exact (Option.some.inj this).symm

/-! ## case analysis of a step

`go_cases h` turns `h : goStep s i ⟨kind, pc, ret⟩ = some s'` into one goal per enabled branch, with `kind`,
`pc` replaced by constructors and `s'` replaced by its definition. -/

macro "go_cases " h:ident : tactic =>
  `(tactic| (
    unfold goStep at $h:ident
    split at $h:ident
    all_goals ((try simp only [] at *); subst_vars)
    all_goals (try simp only [prelude, postlude, stopStep] at $h:ident)
    all_goals (repeat' split at $h:ident)
    all_goals (first | (simp at $h:ident; done) | skip)
    all_goals (simp only [Option.some.injEq] at $h:ident; subst $h:ident)))

macro "alt_cases " h:ident : tactic =>
  `(tactic| (
    unfold altStep at $h:ident
    split at $h:ident
    all_goals ((try simp only [] at *); subst_vars)
    all_goals (repeat' split at $h:ident)
    all_goals (first | (simp at $h:ident; done) | skip)
    all_goals (simp only [Option.some.injEq] at $h:ident; subst $h:ident)))

theorem step_elim {s s' : St} {i : Nat} {a : Act} (h : step s i a = some s') :
    ∃ t, s.threads[i]? = some t ∧
      ((a = .go ∧ goStep s i t = some s') ∨ (a = .ret ∧ retStep s i t = some s') ∨ (a = .alt ∧ altStep s i t = some s')) := by
  unfold step at h
  split at h
  · cases h
  · rename_i t ht
    refine ⟨t, ht, ?_⟩
    cases a <;> simp_all

theorem retStep_elim {s s' : St} {i : Nat} {t : Thread} (h : retStep s i t = some s') :
    ∃ v, t.ret = false ∧ retVal t.kind t.pc = some v ∧ s' = s.upd i { t with ret := true } [s.ev .ret i t.kind.code v] := by
  unfold retStep at h
  split at h
  · cases h
  · split at h
    · rename_i v hv
      refine ⟨v, by simp_all, hv, ?_⟩
      simp at h; exact h.symm
    · cases h

end Shk.Stopper
