import ShkModel.Model.Template
import ShkModel.Lemmas.Regex
/-! Lemmas for clause templates: the matcher on a rendered line is deterministic. -/
namespace Shk.Tpl
open Shk.Re

theorem getElem?_of_drop {s : List Char} {p : Nat} {c : Char} {t : List Char} (h : s.drop p = c :: t) :
    s[p]? = some c := by
  have := List.getElem?_drop (xs := s) (i := p) (j := 0)
  simp [h] at this; exact this.symm

theorem getElem?_of_drop_nil {s : List Char} {p : Nat} (h : s.drop p = []) : s[p]? = none := by
  have := List.drop_eq_nil_iff.mp h
  exact List.getElem?_eq_none this

theorem drop_succ_of_drop {s : List Char} {p : Nat} {c : Char} {t : List Char} (h : s.drop p = c :: t) :
    s.drop (p + 1) = t := by
  have : s.drop (p + 1) = (s.drop p).drop 1 := by simp [List.drop_drop, Nat.add_comm]
  rw [this, h]; rfl

theorem length_of_drop {s : List Char} {p : Nat} {t : List Char} (h : s.drop p = t) (hp : p ≤ s.length) :
    s.length = p + t.length := by
  have := congrArg List.length h
  simp at this; omega

/-- a greedy repetition of a one-character class over a maximal run `w` of such characters, followed
by a continuation `G` that fails after every shorter run -/
theorem starN_run {β : Type} (s : List Char) (P : Nat → Bool) (G : St → List β) (c : Caps) :
    ∀ (w tail : List Char) (p fuel : Nat),
      s.drop p = w ++ tail → (∀ x ∈ w, P x.toNat = true) →
      (∀ ch t', tail = ch :: t' → P ch.toNat = false) → w.length ≤ fuel →
      (∀ k, k < w.length → G ⟨p + k, c⟩ = []) →
      (starN (stepChar s P) true fuel ⟨p, c⟩).flatMap G = G ⟨p + w.length, c⟩ := by
  intro w
  induction w with
  | nil =>
    intro tail p fuel hd _ htail _ _
    cases fuel with
    | zero => simp [starN]
    | succ n =>
      have hstep : stepChar s P ⟨p, c⟩ = [] := by
        unfold stepChar
        cases tail with
        | nil => rw [getElem?_of_drop_nil (by simpa using hd)]
        | cons ch t' =>
          have h1 : s[p]? = some ch := getElem?_of_drop (by simpa using hd)
          have h2 := htail ch t' rfl
          simp [h1, h2]
      simp [starN, hstep]
  | cons x w ih =>
    intro tail p fuel hd hall htail hfuel hG
    cases fuel with
    | zero => simp at hfuel
    | succ n =>
      have h1 : s[p]? = some x := getElem?_of_drop (by simpa using hd)
      have hx : P x.toNat = true := hall x (by simp)
      have hstep : stepChar s P ⟨p, c⟩ = [⟨p + 1, c⟩] := by
        unfold stepChar; simp [h1, hx]
      have hd' : s.drop (p + 1) = w ++ tail := drop_succ_of_drop (by simpa using hd)
      have hrec := ih tail (p + 1) n hd' (fun y hy => hall y (by simp [hy])) htail
        (by simp at hfuel; omega)
        (fun k hk => by
          have := hG (k + 1) (by simp; omega)
          rw [show p + (k + 1) = p + 1 + k by omega] at this; exact this)
      have h0 : G ⟨p, c⟩ = [] := by simpa using hG 0 (by simp)
      simp only [starN, if_true, hstep, List.filter_cons, List.filter_nil]
      simp only [show decide (p < p + 1) = true by simp, if_true, List.flatMap_cons, List.flatMap_nil,
        List.append_nil, List.flatMap_append, h0]
      rw [hrec]; simp [Nat.add_assoc, Nat.add_comm 1]

end Shk.Tpl

namespace Shk.Tpl
open Shk.Re

theorem ms_strThen (s : List Char) (K : Re) (c : Caps) : ∀ (w tail : List Char) (p : Nat),
    s.drop p = w ++ tail → ms s (Re.strThen (w.map Char.toNat) K) ⟨p, c⟩ = ms s K ⟨p + w.length, c⟩ := by
  intro w
  induction w with
  | nil => intro tail p _; simp [Re.strThen]
  | cons x w ih =>
    intro tail p hd
    have h1 : s[p]? = some x := getElem?_of_drop (by simpa using hd)
    have hd' : s.drop (p + 1) = w ++ tail := drop_succ_of_drop (by simpa using hd)
    simp only [List.map_cons, Re.strThen, ms, stepChar, h1, beq_self_eq_true, if_true, List.flatMap_cons,
      List.flatMap_nil, List.append_nil]
    rw [ih tail (p + 1) hd']
    simp [Nat.add_assoc, Nat.add_comm 1]

theorem isWS_not_isNS (ch : Char) (h : isWS ch = true) : isNS ch = false := by
  unfold isWS isNS inRanges WS NS at *
  simp only [List.any_cons, List.any_nil, Bool.or_false, Bool.or_eq_true, Bool.and_eq_true,
    decide_eq_true_eq] at h
  simp only [List.any_cons, List.any_nil, Bool.or_false, Bool.or_eq_false_iff, Bool.and_eq_false_iff,
    decide_eq_false_iff_not]
  omega

theorem isNS_not_isWS (ch : Char) (h : isNS ch = true) : isWS ch = false := by
  cases hw : isWS ch with
  | false => rfl
  | true => rw [isWS_not_isNS ch hw] at h; exact absurd h (by simp)

theorem space_isWS : isWS ' ' = true := by decide

end Shk.Tpl

namespace Shk.Tpl
open Shk.Re

theorem ms_cls (s : List Char) (rs : List (Nat × Nat)) (st : St) : ms s (.cls rs) st = stepChar s (inRanges rs) st := rfl

/-- `\s+` over exactly one blank -/
theorem ms_ws (s : List Char) (K : Re) (c : Caps) (p : Nat) (tail : List Char)
    (hd : s.drop p = ' ' :: tail) (hp : p ≤ s.length) (ht : headNotWS tail = true) :
    ms s (.cat (.plus true (.cls WS)) K) ⟨p, c⟩ = ms s K ⟨p + 1, c⟩ := by
  have h1 : s[p]? = some ' ' := getElem?_of_drop hd
  have hd' : s.drop (p + 1) = [] ++ tail := by simpa using drop_succ_of_drop hd
  have hstep : stepChar s (inRanges WS) ⟨p, c⟩ = [⟨p + 1, c⟩] := by
    unfold stepChar; simp [h1]; exact space_isWS
  have hlen := length_of_drop hd hp
  have := starN_run s (inRanges WS) (ms s K) c [] tail (p + 1) (s.length - (p + 1)) hd'
    (by simp) (by
      intro ch t' he; subst he
      simpa [headNotWS, isWS] using ht) (by simp) (by simp)
  simp only [ms, hstep, List.flatMap_cons, List.flatMap_nil, List.append_nil]
  have h2 : (fun st => stepChar s (inRanges WS) st) = stepChar s (inRanges WS) := rfl
  simpa using this

/-- what follows a word rejects a position that holds a non-blank character -/
theorem rejects (s : List Char) : ∀ (T : List Tok) (f : Fin), afterWord T f = true →
    ∀ (p : Nat) (c : Caps) (ch : Char), s[p]? = some ch → isNS ch = true → ms s (compile T f) ⟨p, c⟩ = [] := by
  intro T f haw p c ch hch hns
  have hlt : p < s.length := (List.getElem?_eq_some_iff.mp hch).1
  have hws : inRanges WS ch.toNat = false := isNS_not_isWS ch hns
  match T, f, haw with
  | [], .eot, _ =>
    simp only [compile, ms]; rw [if_neg (by omega)]
  | [], .wsEot, _ =>
    have hstep : stepChar s (inRanges WS) ⟨p, c⟩ = [] := by unfold stepChar; simp [hch, hws]
    simp only [compile, ms]
    cases hn : s.length - p with
    | zero => omega
    | succ n =>
      simp only [starN, if_true, hstep, List.filter_nil, List.flatMap_nil, List.nil_append,
        List.flatMap_cons, List.append_nil]
      rw [if_neg (by omega)]
  | .ws :: T', f, _ =>
    have hstep : stepChar s (inRanges WS) ⟨p, c⟩ = [] := by unfold stepChar; simp [hch, hws]
    simp [compile, ms, hstep]

/-- `([class]+)` over a maximal run of class characters (a class inside `\S`), followed by something that needs a
blank or the end -/
theorem ms_clsword (s : List Char) (rs : List (Nat × Nat)) (hsub : ∀ n, inRanges rs n = true → inRanges NS n = true)
    (T : List Tok) (f : Fin) (i : Nat) (nm : Option String) (c : Caps) (p : Nat)
    (w tail : List Char) (hd : s.drop p = w ++ tail) (hp : p ≤ s.length) (hne : w ≠ [])
    (hall : ∀ y ∈ w, inRanges rs y.toNat = true) (htail : ∀ ch t', tail = ch :: t' → inRanges rs ch.toNat = false)
    (haw : afterWord T f = true) :
    ms s (.cat (.group i nm (.plus true (.cls rs))) (compile T f)) ⟨p, c⟩
      = ms s (compile T f) ⟨p + w.length, (i, (p, p + w.length)) :: c⟩ := by
  cases w with
  | nil => exact absurd rfl hne
  | cons x w =>
    have hx : inRanges rs x.toNat = true := hall x (by simp)
    have hw : ∀ y ∈ w, inRanges rs y.toNat = true := fun y hy => hall y (by simp [hy])
    have h1 : s[p]? = some x := getElem?_of_drop (by simpa using hd)
    have hd' : s.drop (p + 1) = w ++ tail := drop_succ_of_drop (by simpa using hd)
    have hstep : stepChar s (inRanges rs) ⟨p, c⟩ = [⟨p + 1, c⟩] := by
      unfold stepChar; simp [h1, hx]
    have hlen := length_of_drop hd hp
    let G : St → List St := fun t => ms s (compile T f) { t with caps := (i, (p, t.pos)) :: t.caps }
    have hG : ∀ k, k < w.length → G ⟨p + 1 + k, c⟩ = [] := by
      intro k hk
      have hget : s[p + 1 + k]? = w[k]? := by
        have := List.getElem?_drop (xs := s) (i := p + 1) (j := k)
        rw [hd'] at this
        rw [← this, List.getElem?_append_left hk]
      have hwk : w[k]? = some w[k] := List.getElem?_eq_getElem hk
      exact rejects s T f haw (p + 1 + k) _ w[k] (by rw [hget, hwk]) (hsub _ (hw _ (List.getElem_mem hk)))
    have := starN_run s (inRanges rs) G c w tail (p + 1) (s.length - (p + 1)) hd' hw
      (by intro ch t' he; exact htail ch t' he) (by simp at hlen; omega) hG
    simp only [ms, hstep, List.flatMap_cons, List.flatMap_nil, List.append_nil, List.flatMap_map]
    simp only [G] at this
    rw [show (p + (x :: w).length) = p + 1 + w.length by simp; omega]
    simpa using this

theorem dg_sub_ns (n : Nat) (h : inRanges DG n = true) : inRanges NS n = true := by
  unfold inRanges DG NS at *
  simp only [List.any_cons, List.any_nil, Bool.or_false, Bool.or_eq_true, Bool.and_eq_true, decide_eq_true_eq] at h ⊢
  omega

theorem ms_word (s : List Char) (T : List Tok) (f : Fin) (i : Nat) (nm : Option String) (c : Caps) (p : Nat)
    (w tail : List Char) (hd : s.drop p = w ++ tail) (hp : p ≤ s.length) (hne : w ≠ [])
    (hall : w.all isNS = true) (htail : ∀ ch t', tail = ch :: t' → isNS ch = false)
    (haw : afterWord T f = true) :
    ms s (.cat (.group i nm (.plus true (.cls NS))) (compile T f)) ⟨p, c⟩
      = ms s (compile T f) ⟨p + w.length, (i, (p, p + w.length)) :: c⟩ :=
  ms_clsword s NS (fun _ h => h) T f i nm c p w tail hd hp hne
    (fun y hy => by simpa [isNS] using (List.all_eq_true.mp hall) y hy) htail haw

theorem ms_num (s : List Char) (T : List Tok) (f : Fin) (i : Nat) (nm : Option String) (c : Caps) (p : Nat)
    (w tail : List Char) (hd : s.drop p = w ++ tail) (hp : p ≤ s.length) (hne : w ≠ [])
    (hall : w.all isDG = true) (htail : ∀ ch t', tail = ch :: t' → isNS ch = false)
    (haw : afterWord T f = true) :
    ms s (.cat (.group i nm (.plus true (.cls DG))) (compile T f)) ⟨p, c⟩
      = ms s (compile T f) ⟨p + w.length, (i, (p, p + w.length)) :: c⟩ :=
  ms_clsword s DG dg_sub_ns T f i nm c p w tail hd hp hne
    (fun y hy => by simpa [isDG] using (List.all_eq_true.mp hall) y hy)
    (fun ch t' he => by
      have h := htail ch t' he
      cases hd : inRanges DG ch.toNat with
      | false => rfl
      | true => have := dg_sub_ns _ hd; simp [isNS, this] at h) haw

/-- `(.*)$` takes everything that is left -/
theorem ms_rest (s : List Char) (i : Nat) (nm : Option String) (c : Caps) (p : Nat) (r : List Char)
    (hd : s.drop p = r) (hp : p ≤ s.length) :
    ms s (.cat (.group i nm (.star true .any)) .eot) ⟨p, c⟩ = [⟨s.length, (i, (p, p + r.length)) :: c⟩] := by
  have hlen := length_of_drop hd hp
  let G : St → List St := fun t => ms s .eot { t with caps := (i, (p, t.pos)) :: t.caps }
  have hG : ∀ k, k < r.length → G ⟨p + k, c⟩ = [] := by
    intro k hk; simp only [G, ms]; rw [if_neg (by omega)]
  have := starN_run s (fun _ => true) G c r [] p (s.length - p) (by simpa using hd) (by simp)
    (by intro ch t' he; cases he) (by omega) hG
  simp only [ms, List.flatMap_map]
  simp only [G, ms] at this
  rw [hlen] at this ⊢
  simp only [Nat.add_sub_cancel_left, if_true] at this ⊢
  exact this

end Shk.Tpl

namespace Shk.Tpl
open Shk.Re

theorem drop_add_of_drop {s : List Char} {p : Nat} {w t : List Char} (h : s.drop p = w ++ t) :
    s.drop (p + w.length) = t := by
  have : s.drop (p + w.length) = (s.drop p).drop w.length := by simp [List.drop_drop, Nat.add_comm]
  rw [this, h]; simp

theorem tail_after_word (T : List Tok) (f : Fin) (ws : List (List Char)) (r : List Char)
    (haw : afterWord T f = true) : ∀ ch t', render T f ws r = ch :: t' → isNS ch = false := by
  intro ch t' he
  match T, f, haw with
  | [], .eot, _ => simp [render] at he
  | [], .wsEot, _ => simp [render] at he
  | .ws :: T', f, _ =>
    simp only [render, List.cons.injEq] at he
    rw [← he.1]; exact isWS_not_isNS ' ' space_isWS

/-- the matcher on a rendered clause line is deterministic: exactly one way, to the end of the line -/
theorem ms_compile (s : List Char) : ∀ (T : List Tok) (f : Fin) (words : List (List Char)) (r : List Char)
    (p : Nat) (c : Caps), Ok T f words r = true → s.drop p = render T f words r → p ≤ s.length →
    ms s (compile T f) ⟨p, c⟩ = [⟨s.length, capsOf T f words r p ++ c⟩] := by
  intro T
  induction T with
  | nil =>
    intro f words r p c _ hd hp
    cases f with
    | rest i nm =>
      simp only [render] at hd
      simpa [compile, capsOf] using ms_rest s i nm c p r hd hp
    | eot =>
      simp only [render] at hd
      have hlen := length_of_drop hd hp
      simp at hlen
      simp [compile, ms, capsOf, hlen]
    | wsEot =>
      simp only [render] at hd
      have hlen := length_of_drop hd hp
      simp at hlen
      simp [compile, ms, capsOf, hlen, starN]
  | cons tok T ih =>
    intro f words r p c hok hd hp
    cases tok with
    | lit w =>
      simp only [render] at hd
      simp only [Ok] at hok
      have hlen := length_of_drop hd hp
      simp at hlen
      simp only [compile, capsOf]
      rw [ms_strThen s _ c w _ p hd]
      exact ih f words r (p + w.length) c hok (drop_add_of_drop hd) (by omega)
    | ws =>
      simp only [render] at hd
      simp only [Ok, Bool.and_eq_true] at hok
      have hlen := length_of_drop hd hp
      simp at hlen
      simp only [compile, capsOf]
      rw [ms_ws s _ c p _ hd hp hok.1]
      exact ih f words r (p + 1) c hok.2 (drop_succ_of_drop hd) (by omega)
    | word i nm =>
      cases words with
      | nil => simp [Ok] at hok
      | cons w ws =>
        simp only [render] at hd
        simp only [Ok, Bool.and_eq_true, Bool.not_eq_true', List.isEmpty_eq_false_iff] at hok
        obtain ⟨⟨⟨hne, hall⟩, haw⟩, hok'⟩ := hok
        have hlen := length_of_drop hd hp
        simp at hlen
        simp only [compile, capsOf]
        rw [ms_word s T f i nm c p w _ hd hp hne hall (tail_after_word T f ws r haw) haw]
        rw [ih f ws r (p + w.length) _ hok' (drop_add_of_drop hd) (by omega)]
        simp [List.append_assoc]
    | num i nm =>
      cases words with
      | nil => simp [Ok] at hok
      | cons w ws =>
        simp only [render] at hd
        simp only [Ok, Bool.and_eq_true, Bool.not_eq_true', List.isEmpty_eq_false_iff] at hok
        obtain ⟨⟨⟨hne, hall⟩, haw⟩, hok'⟩ := hok
        have hlen := length_of_drop hd hp
        simp at hlen
        simp only [compile, capsOf]
        rw [ms_num s T f i nm c p w _ hd hp hne hall (tail_after_word T f ws r haw) haw]
        rw [ih f ws r (p + w.length) _ hok' (drop_add_of_drop hd) (by omega)]
        simp [List.append_assoc]

end Shk.Tpl

namespace Shk.Tpl
open Shk.Re

theorem capsOf_keys : ∀ (T : List Tok) (f : Fin) (words : List (List Char)) (r : List Char) (p : Nat),
    Ok T f words r = true → (capsOf T f words r p).map (·.1) = groupsOf T f := by
  intro T
  induction T with
  | nil => intro f words r p _; cases f <;> simp [capsOf, groupsOf]
  | cons tok T ih =>
    intro f words r p hok
    cases tok with
    | lit w => simp only [Ok] at hok; simpa [capsOf, groupsOf] using ih f words r _ hok
    | ws => simp only [Ok, Bool.and_eq_true] at hok; simpa [capsOf, groupsOf] using ih f words r _ hok.2
    | word i nm =>
      cases words with
      | nil => simp [Ok] at hok
      | cons w ws =>
        simp only [Ok, Bool.and_eq_true] at hok
        simp [capsOf, groupsOf, ih f ws r _ hok.2]
    | num i nm =>
      cases words with
      | nil => simp [Ok] at hok
      | cons w ws =>
        simp only [Ok, Bool.and_eq_true] at hok
        simp [capsOf, groupsOf, ih f ws r _ hok.2]

theorem fieldsOf_keys : ∀ (T : List Tok) (f : Fin) (words : List (List Char)) (r : List Char),
    Ok T f words r = true → (fieldsOf T f words r).map (·.1) = groupsOf T f := by
  intro T
  induction T with
  | nil => intro f words r _; cases f <;> simp [fieldsOf, groupsOf]
  | cons tok T ih =>
    intro f words r hok
    cases tok with
    | lit w => simp only [Ok] at hok; simpa [fieldsOf, groupsOf] using ih f words r hok
    | ws => simp only [Ok, Bool.and_eq_true] at hok; simpa [fieldsOf, groupsOf] using ih f words r hok.2
    | word i nm =>
      cases words with
      | nil => simp [Ok] at hok
      | cons w ws =>
        simp only [Ok, Bool.and_eq_true] at hok
        simp [fieldsOf, groupsOf, ih f ws r hok.2]
    | num i nm =>
      cases words with
      | nil => simp [Ok] at hok
      | cons w ws =>
        simp only [Ok, Bool.and_eq_true] at hok
        simp [fieldsOf, groupsOf, ih f ws r hok.2]

theorem slice_prefix {s : List Char} {p : Nat} {w t : List Char} (h : s.drop p = w ++ t) :
    slice s p (p + w.length) = w := by
  unfold slice; rw [h]; simp

/-- every capture span cuts its field out of the line -/
theorem caps_are_fields (s : List Char) : ∀ (T : List Tok) (f : Fin) (words : List (List Char)) (r : List Char)
    (p : Nat), Ok T f words r = true → s.drop p = render T f words r →
    (capsOf T f words r p).map (fun e => (e.1, slice s e.2.1 e.2.2)) = fieldsOf T f words r := by
  intro T
  induction T with
  | nil =>
    intro f words r p _ hd
    cases f with
    | rest i nm =>
      simp only [render] at hd
      have : slice s p (p + r.length) = r := slice_prefix (t := []) (by simpa using hd)
      simp [capsOf, fieldsOf, this]
    | eot => simp [capsOf, fieldsOf]
    | wsEot => simp [capsOf, fieldsOf]
  | cons tok T ih =>
    intro f words r p hok hd
    cases tok with
    | lit w =>
      simp only [render] at hd; simp only [Ok] at hok
      simpa [capsOf, fieldsOf] using ih f words r _ hok (drop_add_of_drop hd)
    | ws =>
      simp only [render] at hd; simp only [Ok, Bool.and_eq_true] at hok
      simpa [capsOf, fieldsOf] using ih f words r _ hok.2 (drop_succ_of_drop hd)
    | word i nm =>
      cases words with
      | nil => simp [Ok] at hok
      | cons w ws =>
        simp only [render] at hd; simp only [Ok, Bool.and_eq_true] at hok
        have := ih f ws r _ hok.2 (drop_add_of_drop hd)
        simp [capsOf, fieldsOf, this, slice_prefix hd]
    | num i nm =>
      cases words with
      | nil => simp [Ok] at hok
      | cons w ws =>
        simp only [render] at hd; simp only [Ok, Bool.and_eq_true] at hok
        have := ih f ws r _ hok.2 (drop_add_of_drop hd)
        simp [capsOf, fieldsOf, this, slice_prefix hd]

theorem lookup_of_mem_nodup {k : Nat} {v : Nat × Nat} : ∀ {l : Caps}, (l.map (·.1)).Nodup → (k, v) ∈ l →
    l.lookup k = some v := by
  intro l
  induction l with
  | nil => intro _ h; cases h
  | cons e l ih =>
    intro hnd hm
    obtain ⟨k', v'⟩ := e
    simp only [List.map_cons, List.nodup_cons] at hnd
    simp only [List.mem_cons, Prod.mk.injEq] at hm
    by_cases hk : k = k'
    · subst hk
      rcases hm with ⟨_, hv⟩ | hm
      · subst hv; simp [List.lookup]
      · exact absurd (List.mem_map.mpr ⟨(k, v), hm, rfl⟩) hnd.1
    · rcases hm with ⟨hk', _⟩ | hm
      · exact absurd hk' hk
      · have : (k == k') = false := by simp [hk]
        simp only [List.lookup, this]
        exact ih hnd.2 hm

end Shk.Tpl

namespace Shk.Tpl
open Shk.Re

theorem ngroups_strThen (w : List Nat) (K : Re) : ngroups (Re.strThen w K) = ngroups K := by
  induction w with
  | nil => rfl
  | cons c w ih => simp [Re.strThen, ngroups, ih]

theorem group_le_ngroups : ∀ (T : List Tok) (f : Fin) (i : Nat), i ∈ groupsOf T f → i ≤ ngroups (compile T f) := by
  intro T
  induction T with
  | nil => intro f i h; cases f <;> simp [groupsOf, compile, ngroups] at h ⊢; omega
  | cons tok T ih =>
    intro f i h
    cases tok with
    | lit w => simp only [groupsOf] at h; simpa [compile, ngroups_strThen] using ih f i h
    | ws => simp only [groupsOf] at h; have := ih f i h; simp [compile, ngroups]; omega
    | word j nm =>
      simp only [groupsOf, List.mem_append, List.mem_singleton] at h
      simp only [compile, ngroups]
      rcases h with h | h
      · have := ih f i h; omega
      · omega
    | num j nm =>
      simp only [groupsOf, List.mem_append, List.mem_singleton] at h
      simp only [compile, ngroups]
      rcases h with h | h
      · have := ih f i h; omega
      · omega

/-- `run` on a rendered line: the one way found by `ms_compile` -/
theorem run_render (T : List Tok) (f : Fin) (words : List (List Char)) (r : List Char)
    (hok : Ok T f words r = true) :
    run (re T f) (render T f words r)
      = some (spans (ngroups (re T f)) 0 ⟨(render T f words r).length, capsOf T f words r 0⟩) := by
  have h := ms_compile (render T f words r) T f words r 0 [] hok (by simp) (by simp)
  simp only [run, re, ms, if_true, List.flatMap_cons, List.flatMap_nil, List.append_nil, h]
  simp

end Shk.Tpl

namespace Shk.Tpl
open Shk.Re

/-- a greedy `[class]+` over a maximal run `w` of class characters, followed by a continuation that fails after
every shorter run -/
theorem ms_plus_run (s : List Char) (rs : List (Nat × Nat)) (K : Re) (c : Caps) (p : Nat)
    (w tail : List Char) (hd : s.drop p = w ++ tail) (hp : p ≤ s.length) (hne : w ≠ [])
    (hall : ∀ x ∈ w, inRanges rs x.toNat = true)
    (htail : ∀ ch t', tail = ch :: t' → inRanges rs ch.toNat = false)
    (hrej : ∀ k, 1 ≤ k → k < w.length → ms s K ⟨p + k, c⟩ = []) :
    ms s (.cat (.plus true (.cls rs)) K) ⟨p, c⟩ = ms s K ⟨p + w.length, c⟩ := by
  cases w with
  | nil => exact absurd rfl hne
  | cons x w =>
    have hx : inRanges rs x.toNat = true := hall x (by simp)
    have hw : ∀ y ∈ w, inRanges rs y.toNat = true := fun y hy => hall y (by simp [hy])
    have h1 : s[p]? = some x := getElem?_of_drop (by simpa using hd)
    have hd' : s.drop (p + 1) = w ++ tail := drop_succ_of_drop (by simpa using hd)
    have hstep : stepChar s (inRanges rs) ⟨p, c⟩ = [⟨p + 1, c⟩] := by
      unfold stepChar; simp [h1, hx]
    have hlen := length_of_drop hd hp
    have hG : ∀ k, k < w.length → ms s K ⟨p + 1 + k, c⟩ = [] := by
      intro k hk
      have := hrej (k + 1) (by omega) (by simp; omega)
      rw [show p + (k + 1) = p + 1 + k by omega] at this; exact this
    have := starN_run s (inRanges rs) (ms s K) c w tail (p + 1) (s.length - (p + 1)) hd' hw
      htail (by simp at hlen; omega) hG
    simp only [ms, hstep, List.flatMap_cons, List.flatMap_nil, List.append_nil]
    rw [show (p + (x :: w).length) = p + 1 + w.length by simp; omega]
    simpa using this

/-- `[class]+` fails where the first character is not in the class -/
theorem ms_plus_none (s : List Char) (rs : List (Nat × Nat)) (K : Re) (c : Caps) (p : Nat)
    (h : ∀ ch, s[p]? = some ch → inRanges rs ch.toNat = false) :
    ms s (.cat (.plus true (.cls rs)) K) ⟨p, c⟩ = [] := by
  have hstep : stepChar s (inRanges rs) ⟨p, c⟩ = [] := by
    unfold stepChar
    cases hc : s[p]? with
    | none => rfl
    | some ch => simp [h ch hc]
  simp [ms, hstep]

end Shk.Tpl

namespace Shk.Tpl
open Shk.Re

theorem compile_consLit (c : Char) (p : List Tok × Fin) :
    compile (consLit c p).1 (consLit c p).2 = .cat (.chr c.toNat) (compile p.1 p.2) := by
  obtain ⟨T, f⟩ := p
  cases T with
  | nil => simp [consLit, compile, Re.strThen]
  | cons t T =>
    cases t <;> simp [consLit, compile, Re.strThen]

theorem decompile_sound : ∀ (r : Re) (T : List Tok) (f : Fin), decompile r = some (T, f) → r = compile T f := by
  intro r
  induction r using decompile.induct with
  | case1 => intro T f h; simp [decompile] at h; obtain ⟨rfl, rfl⟩ := h; rfl
  | case2 i nm => intro T f h; simp [decompile] at h; obtain ⟨rfl, rfl⟩ := h; rfl
  | case3 => intro T f h; simp [decompile] at h; obtain ⟨rfl, rfl⟩ := h; rfl
  | case4 ws hws => intro T f h; simp [decompile, hws] at h
  | case5 K ih =>
    intro T f h
    simp only [decompile, if_true, Option.map_eq_some_iff] at h
    obtain ⟨p, hp, heq⟩ := h
    obtain ⟨T', f'⟩ := p
    simp only [Prod.mk.injEq] at heq
    obtain ⟨rfl, rfl⟩ := heq
    rw [ih T' f' hp]; rfl
  | case6 ws K hws => intro T f h; simp [decompile, hws] at h
  | case7 i nm K ih =>
    intro T f h
    simp only [decompile, if_true, Option.map_eq_some_iff] at h
    obtain ⟨p, hp, heq⟩ := h
    obtain ⟨T', f'⟩ := p
    simp only [Prod.mk.injEq] at heq
    obtain ⟨rfl, rfl⟩ := heq
    rw [ih T' f' hp]; rfl
  | case8 i nm K hne ih =>
    intro T f h
    simp only [decompile, hne, if_false, if_true, Option.map_eq_some_iff] at h
    obtain ⟨p, hp, heq⟩ := h
    obtain ⟨T', f'⟩ := p
    simp only [Prod.mk.injEq] at heq
    obtain ⟨rfl, rfl⟩ := heq
    rw [ih T' f' hp]; rfl
  | case9 i nm ns K hns hdg => intro T f h; simp [decompile, hns, hdg] at h
  | case10 c K hc ih =>
    intro T f h
    simp only [decompile, hc, if_true, Option.map_eq_some_iff] at h
    obtain ⟨p, hp, heq⟩ := h
    have := compile_consLit (Char.ofNat c) p
    rw [heq] at this
    simp only at this
    rw [this, hc, ← ih p.1 p.2 (by simpa using hp)]
  | case11 c K hc => intro T f h; simp [decompile, hc] at h
  | case12 t h1 h2 h3 h4 h5 h6 =>
    intro T f h
    unfold decompile at h
    split at h <;> first | (exfalso; first | exact h1 rfl | exact h2 _ _ rfl | exact h3 _ rfl | exact h4 _ _ rfl | exact h5 _ _ _ _ rfl | exact h6 _ _ rfl) | simp_all

theorem templateOf_sound (r : Re) (T : List Tok) (f : Fin) (h : templateOf r = some (T, f)) : r = re T f := by
  unfold templateOf at h
  split at h
  · rw [decompile_sound _ T f h]; rfl
  · cases h

end Shk.Tpl
