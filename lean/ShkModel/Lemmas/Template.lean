import ShkModel.Model.Template
import ShkModel.Lemmas.Regex
/-! Lemmas for clause templates: the matcher on a rendered line is deterministic. -/
namespace Shk.Tpl
open Shk.Re

theorem getElem?_of_drop {s : List Char} {p : Nat} {c : Char} {t : List Char} (h : s.drop p = c :: t) :
    s[p]? = some c := by
  have := List.getElem?_drop (xs := s) (i := p) (j := 0)
  simp [h] at this; exact this.symm

theorem getElem?_of_drop_nil {s : List Char} {p : Nat} (h : s.drop p = []) : s[p]? = none := by
  have := List.drop_eq_nil_iff.mp h
  exact List.getElem?_eq_none this

theorem drop_succ_of_drop {s : List Char} {p : Nat} {c : Char} {t : List Char} (h : s.drop p = c :: t) :
    s.drop (p + 1) = t := by
  have : s.drop (p + 1) = (s.drop p).drop 1 := by simp [List.drop_drop, Nat.add_comm]
  rw [this, h]; rfl

theorem length_of_drop {s : List Char} {p : Nat} {t : List Char} (h : s.drop p = t) (hp : p ≤ s.length) :
    s.length = p + t.length := by
  have := congrArg List.length h
  simp at this; omega

/-- a greedy repetition of a one-character class over a maximal run `w` of such characters, followed
by a continuation `G` that fails after every shorter run -/
theorem starN_run {β : Type} (s : List Char) (P : Nat → Bool) (G : St → List β) (c : Caps) :
    ∀ (w tail : List Char) (p fuel : Nat),
      s.drop p = w ++ tail → (∀ x ∈ w, P x.toNat = true) →
      (∀ ch t', tail = ch :: t' → P ch.toNat = false) → w.length ≤ fuel →
      (∀ k, k < w.length → G ⟨p + k, c⟩ = []) →
      (starN (stepChar s P) true fuel ⟨p, c⟩).flatMap G = G ⟨p + w.length, c⟩ := by
  intro w
  induction w with
  | nil =>
    intro tail p fuel hd _ htail _ _
    cases fuel with
    | zero => simp [starN]
    | succ n =>
      have hstep : stepChar s P ⟨p, c⟩ = [] := by
        unfold stepChar
        cases tail with
        | nil => rw [getElem?_of_drop_nil (by simpa using hd)]
        | cons ch t' =>
          have h1 : s[p]? = some ch := getElem?_of_drop (by simpa using hd)
          have h2 := htail ch t' rfl
          simp [h1, h2]
      simp [starN, hstep]
  | cons x w ih =>
    intro tail p fuel hd hall htail hfuel hG
    cases fuel with
    | zero => simp at hfuel
    | succ n =>
      have h1 : s[p]? = some x := getElem?_of_drop (by simpa using hd)
      have hx : P x.toNat = true := hall x (by simp)
      have hstep : stepChar s P ⟨p, c⟩ = [⟨p + 1, c⟩] := by
        unfold stepChar; simp [h1, hx]
      have hd' : s.drop (p + 1) = w ++ tail := drop_succ_of_drop (by simpa using hd)
      have hrec := ih tail (p + 1) n hd' (fun y hy => hall y (by simp [hy])) htail
        (by simp at hfuel; omega)
        (fun k hk => by
          have := hG (k + 1) (by simp; omega)
          rw [show p + (k + 1) = p + 1 + k by omega] at this; exact this)
      have h0 : G ⟨p, c⟩ = [] := by simpa using hG 0 (by simp)
      simp only [starN, if_true, hstep, List.filter_cons, List.filter_nil]
      simp only [show decide (p < p + 1) = true by simp, if_true, List.flatMap_cons, List.flatMap_nil,
        List.append_nil, List.flatMap_append, h0]
      rw [hrec]; simp [Nat.add_assoc, Nat.add_comm 1]

end Shk.Tpl
