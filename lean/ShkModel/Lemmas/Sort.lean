import ShkModel.Model.FuncSpec
/-!
# Insertion sorts over `Rat`: sortedness, permutation, uniqueness (helper lemmas for C11)
-/
namespace Shk.Sort
open Shk Shk.FuncSpec

/-! ## `insertAsc` / `sortAsc` -/

theorem insertAsc_perm (x : Rat) (l : List Rat) : (insertAsc x l).Perm (x :: l) := by
  induction l with
  | nil => simp [insertAsc]
  | cons y ys ih =>
    simp only [insertAsc]; split
    · exact .refl _
    · exact (List.Perm.cons y ih).trans (List.Perm.swap x y ys)

theorem mem_insertAsc {x a : Rat} {l : List Rat} : a ∈ insertAsc x l ↔ a = x ∨ a ∈ l := by
  rw [(insertAsc_perm x l).mem_iff]; simp

theorem insertAsc_sorted (x : Rat) (l : List Rat) (h : l.Pairwise (· ≤ ·)) :
    (insertAsc x l).Pairwise (· ≤ ·) := by
  induction l with
  | nil => simp [insertAsc]
  | cons y ys ih =>
    simp only [insertAsc]; split
    · rename_i hxy
      refine List.Pairwise.cons ?_ h
      intro a ha
      rcases List.mem_cons.1 ha with rfl | ha
      · exact hxy
      · exact Rat.le_trans hxy (List.rel_of_pairwise_cons h ha)
    · rename_i hxy
      have hyx : y ≤ x := Rat.le_of_lt (Rat.not_le.1 hxy)
      refine List.Pairwise.cons ?_ (ih h.tail)
      intro a ha
      rcases mem_insertAsc.1 ha with rfl | ha
      · exact hyx
      · exact List.rel_of_pairwise_cons h ha

theorem sortAsc_cons (x : Rat) (l : List Rat) : sortAsc (x :: l) = insertAsc x (sortAsc l) := rfl

theorem sortAsc_perm (l : List Rat) : (sortAsc l).Perm l := by
  induction l with
  | nil => exact .refl _
  | cons x xs ih => rw [sortAsc_cons]; exact (insertAsc_perm x _).trans (ih.cons x)

theorem sortAsc_sorted (l : List Rat) : (sortAsc l).Pairwise (· ≤ ·) := by
  induction l with
  | nil => simp [sortAsc]
  | cons x xs ih => rw [sortAsc_cons]; exact insertAsc_sorted x _ ih

theorem sortAsc_length (l : List Rat) : (sortAsc l).length = l.length := (sortAsc_perm l).length_eq

/-- a sorted permutation is unique -/
theorem sorted_unique {a b : List Rat} (ha : a.Pairwise (· ≤ ·)) (hb : b.Pairwise (· ≤ ·))
    (h : a.Perm b) : a = b :=
  List.Perm.eq_of_pairwise (fun _ _ _ _ h1 h2 => Rat.le_antisymm h1 h2) ha hb h

theorem sortAsc_eq_of_perm {a b : List Rat} (h : a.Perm b) : sortAsc a = sortAsc b :=
  sorted_unique (sortAsc_sorted a) (sortAsc_sorted b)
    ((sortAsc_perm a).trans (h.trans (sortAsc_perm b).symm))

theorem sortAsc_eq_self {a : List Rat} (h : a.Pairwise (· ≤ ·)) : sortAsc a = a :=
  sorted_unique (sortAsc_sorted a) h (sortAsc_perm a)

/-! ## `sortDesc` -/

theorem sortDesc_perm (l : List Rat) : (sortDesc l).Perm l :=
  (List.reverse_perm _).trans (sortAsc_perm l)

theorem sortDesc_sorted (l : List Rat) : (sortDesc l).Pairwise (· ≥ ·) := by
  unfold sortDesc; rw [List.pairwise_reverse]; exact sortAsc_sorted l

theorem sortDesc_length (l : List Rat) : (sortDesc l).length = l.length := (sortDesc_perm l).length_eq

theorem sortedDesc_unique {a b : List Rat} (ha : a.Pairwise (· ≥ ·)) (hb : b.Pairwise (· ≥ ·))
    (h : a.Perm b) : a = b :=
  List.Perm.eq_of_pairwise (fun _ _ _ _ h1 h2 => Rat.le_antisymm h2 h1) ha hb h

/-- in a sorted list every element of a prefix is related to every element of the rest -/
theorem take_drop_rel {R : Rat → Rat → Prop} {l : List Rat} (h : l.Pairwise R) (n : Nat) :
    ∀ a ∈ l.take n, ∀ b ∈ l.drop n, R a b := by
  have h' : (l.take n ++ l.drop n).Pairwise R := by rw [List.take_append_drop]; exact h
  exact (List.pairwise_append.1 h').2.2

/-! ## the insertions of `collectFns` on plain rationals -/

/-- `insertDesc` without the `Sc.num` wrapper: after the elements `≥ x` -/
def insDesc (x : Rat) : List Rat → List Rat
  | [] => [x]
  | y :: ys => if y ≥ x then y :: insDesc x ys else x :: y :: ys

/-- `insertAscSc` without the `Sc.num` wrapper: after the elements `≤ x` -/
def insAsc (x : Rat) : List Rat → List Rat
  | [] => [x]
  | y :: ys => if y ≤ x then y :: insAsc x ys else x :: y :: ys

theorem insertDesc_map (x : Rat) (l : List Rat) :
    insertDesc x (l.map Sc.num) = (insDesc x l).map Sc.num := by
  induction l with
  | nil => rfl
  | cons y ys ih => simp only [List.map_cons, insertDesc, insDesc]; split <;> simp [ih]

theorem insertAscSc_map (x : Rat) (l : List Rat) :
    insertAscSc x (l.map Sc.num) = (insAsc x l).map Sc.num := by
  induction l with
  | nil => rfl
  | cons y ys ih => simp only [List.map_cons, insertAscSc, insAsc]; split <;> simp [ih]

theorem insDesc_perm (x : Rat) (l : List Rat) : (insDesc x l).Perm (x :: l) := by
  induction l with
  | nil => simp [insDesc]
  | cons y ys ih =>
    simp only [insDesc]; split
    · exact (List.Perm.cons y ih).trans (List.Perm.swap x y ys)
    · exact .refl _

theorem insAsc_perm (x : Rat) (l : List Rat) : (insAsc x l).Perm (x :: l) := by
  induction l with
  | nil => simp [insAsc]
  | cons y ys ih =>
    simp only [insAsc]; split
    · exact (List.Perm.cons y ih).trans (List.Perm.swap x y ys)
    · exact .refl _

theorem insDesc_sorted (x : Rat) (l : List Rat) (h : l.Pairwise (· ≥ ·)) :
    (insDesc x l).Pairwise (· ≥ ·) := by
  induction l with
  | nil => simp [insDesc]
  | cons y ys ih =>
    simp only [insDesc]; split
    · rename_i hyx
      refine List.Pairwise.cons ?_ (ih h.tail)
      intro a ha
      rcases List.mem_cons.1 ((insDesc_perm x ys).mem_iff.1 ha) with rfl | ha
      · exact hyx
      · exact List.rel_of_pairwise_cons h ha
    · rename_i hyx
      have hxy : y ≤ x := Rat.le_of_lt (Rat.not_le.1 hyx)
      refine List.Pairwise.cons ?_ h
      intro a ha
      rcases List.mem_cons.1 ha with rfl | ha
      · exact hxy
      · exact Rat.le_trans (List.rel_of_pairwise_cons h ha) hxy

theorem insAsc_sorted (x : Rat) (l : List Rat) (h : l.Pairwise (· ≤ ·)) :
    (insAsc x l).Pairwise (· ≤ ·) := by
  induction l with
  | nil => simp [insAsc]
  | cons y ys ih =>
    simp only [insAsc]; split
    · rename_i hyx
      refine List.Pairwise.cons ?_ (ih h.tail)
      intro a ha
      rcases List.mem_cons.1 ((insAsc_perm x ys).mem_iff.1 ha) with rfl | ha
      · exact hyx
      · exact List.rel_of_pairwise_cons h ha
    · rename_i hyx
      have hxy : x ≤ y := Rat.le_of_lt (Rat.not_le.1 hyx)
      refine List.Pairwise.cons ?_ h
      intro a ha
      rcases List.mem_cons.1 ha with rfl | ha
      · exact hxy
      · exact Rat.le_trans hxy (List.rel_of_pairwise_cons h ha)

/-- inserting into the descending sort = the descending sort of the longer history -/
theorem insDesc_sortDesc (v : Rat) (ns : List Rat) :
    insDesc v (sortDesc ns) = sortDesc (ns ++ [v]) :=
  sortedDesc_unique (insDesc_sorted v _ (sortDesc_sorted ns)) (sortDesc_sorted _)
    ((insDesc_perm v _).trans (((sortDesc_perm ns).cons v).trans
      ((List.perm_append_singleton v ns).symm.trans (sortDesc_perm _).symm)))

theorem insAsc_sortAsc (v : Rat) (ns : List Rat) :
    insAsc v (sortAsc ns) = sortAsc (ns ++ [v]) :=
  sorted_unique (insAsc_sorted v _ (sortAsc_sorted ns)) (sortAsc_sorted _)
    ((insAsc_perm v _).trans (((sortAsc_perm ns).cons v).trans
      ((List.perm_append_singleton v ns).symm.trans (sortAsc_perm _).symm)))

/-- truncating before the insertion does not change the truncated result -/
theorem take_insDesc_take (v : Rat) (n : Nat) (l : List Rat) :
    (insDesc v (l.take n)).take n = (insDesc v l).take n := by
  induction l generalizing n with
  | nil => simp
  | cons d ds ih =>
    cases n with
    | zero => simp
    | succ n =>
      simp only [List.take_succ_cons, insDesc]; split
      · simp [ih]
      · cases n with
        | zero => simp
        | succ k => simp [List.take_take]

theorem take_insAsc_take (v : Rat) (n : Nat) (l : List Rat) :
    (insAsc v (l.take n)).take n = (insAsc v l).take n := by
  induction l generalizing n with
  | nil => simp
  | cons d ds ih =>
    cases n with
    | zero => simp
    | succ n =>
      simp only [List.take_succ_cons, insAsc]; split
      · simp [ih]
      · cases n with
        | zero => simp
        | succ k => simp [List.take_take]

end Shk.Sort
