import ShkModel.Lemmas.StopperCnt
/-! Log invariants of the stopper model: sampled flags. -/
namespace Shk.Stopper

theorem Ph.s_q {s : St} (p : Ph s) (h : s.sClosed = true) : s.quiescing = true := by
  have := p.sclosed; rw [h] at this
  exact p.quiescing (by simp at this; omega)
theorem Ph.d_s {s : St} (p : Ph s) (h : s.dClosed = true) : s.sClosed = true := by
  have h1 := p.dclosed; rw [h] at h1
  rw [p.sclosed]; simp at h1 ⊢; omega
theorem Ph.s_tasks {s : St} (p : Ph s) (h : s.sClosed = true) : s.numTasks = 0 := by
  have := p.sclosed; rw [h] at this
  exact p.drained (by simp at this; omega)

/-- what every entry of a log says about the channels is below the given flags, nested, and within capacity -/
def FlagsOn (l : List Ev) (q s d : Bool) (cap : Nat) : Prop :=
  ∀ e ∈ l, (e.q = true → q = true) ∧ (e.s = true → s = true) ∧ (e.d = true → d = true) ∧
    (e.d = true → e.s = true) ∧ (e.s = true → e.q = true) ∧ e.n ≤ cap

theorem flagsOn_append {l m : List Ev} {q s d cap} (h1 : FlagsOn l q s d cap) (h2 : FlagsOn m q s d cap) :
    FlagsOn (l ++ m) q s d cap := by
  intro e he
  rcases List.mem_append.mp he with he | he
  · exact h1 e he
  · exact h2 e he

theorem flagsOn_nil {q s d cap} : FlagsOn [] q s d cap := by
  intro e he; cases he

theorem flagsOn_mono {l : List Ev} {q s d q' s' d' cap} (h : FlagsOn l q s d cap)
    (hq : q = true → q' = true) (hs : s = true → s' = true) (hd : d = true → d' = true) : FlagsOn l q' s' d' cap := by
  intro e he
  obtain ⟨a, b, c, r⟩ := h e he
  exact ⟨fun x => hq (a x), fun x => hs (b x), fun x => hd (c x), r⟩

theorem flagsOn_single {e : Ev} {q s d cap} (h : (e.q = true → q = true) ∧ (e.s = true → s = true) ∧ (e.d = true → d = true) ∧
    (e.d = true → e.s = true) ∧ (e.s = true → e.q = true) ∧ e.n ≤ cap) : FlagsOn [e] q s d cap := by
  intro e' he; simp at he; subst he; exact h

theorem flagsOn_map {ids : List Nat} {f : Nat → Ev} {q s d cap}
    (h : ∀ c, (((f c).q = true → q = true) ∧ ((f c).s = true → s = true) ∧ ((f c).d = true → d = true) ∧
    ((f c).d = true → (f c).s = true) ∧ ((f c).s = true → (f c).q = true) ∧ (f c).n ≤ cap)) :
    FlagsOn (ids.map f) q s d cap := by
  intro e he
  obtain ⟨c, _, rfl⟩ := List.mem_map.mp he
  exact h c

def FlagsInv (s : St) : Prop := FlagsOn s.log s.quiescing s.sClosed s.dClosed s.cap

macro "flags_finish " ih:ident p:ident : tactic =>
  `(tactic| (
    simp only [St.upd, St.quiesceEvs, St.cancelEvs, FlagsInv]
    repeat' (apply flagsOn_append)
    all_goals first
      | exact flagsOn_nil
      | exact $ih
      | (refine flagsOn_mono $ih ?_ ?_ ?_ <;> simp)
      | (apply flagsOn_single; have hsq := Ph.s_q $p; have hds := Ph.d_s $p; have hcap := Ph.semcap $p; have hq2 := Ph.quiescing $p; have hsc := Ph.sclosed $p
         simp [St.ev] at *; simp_all)
      | (apply flagsOn_map; intro c; have hsq := Ph.s_q $p; have hds := Ph.d_s $p; have hcap := Ph.semcap $p; have hq2 := Ph.quiescing $p; have hsc := Ph.sclosed $p
         simp [St.ev] at *; simp_all)
      | (split <;> first | exact flagsOn_nil | (apply flagsOn_single; have hsq := Ph.s_q $p; have hds := Ph.d_s $p; have hcap := Ph.semcap $p; have hq2 := Ph.quiescing $p; have hsc := Ph.sclosed $p
                                                simp [St.ev] at *; simp_all))))

theorem flags_go {s s' : St} {i : Nat} {t : Thread}
    (h : goStep s i t = some s') (p : Ph s) (ih : FlagsInv s) : FlagsInv s' := by
  obtain ⟨kind, pc, ret⟩ := t
  unfold FlagsInv at ih
  go_cases h
  all_goals (flags_finish ih p)

theorem flags_step {s s' : St} {i : Nat} {a : Act} (h : step s i a = some s') (p : Ph s) (ih : FlagsInv s) :
    FlagsInv s' := by
  obtain ⟨t, ht, ⟨_, hg⟩ | ⟨_, hg⟩ | ⟨_, hg⟩⟩ := step_elim h
  · exact flags_go hg p ih
  · obtain ⟨v, _, _, rfl⟩ := retStep_elim hg
    unfold FlagsInv at ih
    flags_finish ih p
  · obtain ⟨kind, pc, ret⟩ := t
    unfold FlagsInv at ih
    alt_cases hg
    all_goals (flags_finish ih p)

theorem flags_reach {cap : Nat} {s : St} (h : Reach cap s) : FlagsInv s := by
  induction h with
  | init => exact flagsOn_nil
  | spawn s k hr ih =>
    have p := ph_reach hr
    unfold FlagsInv at ih
    simp only [spawn, FlagsInv]
    refine flagsOn_append ih (flagsOn_single ?_)
    have hsq := Ph.s_q p; have hds := Ph.d_s p; have hcap := Ph.semcap p
    simp [St.ev] at *; simp_all
  | step s s' i a hr hs ih => exact flags_step hs (ph_reach hr) ih

end Shk.Stopper
