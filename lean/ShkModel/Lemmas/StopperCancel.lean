import ShkModel.Lemmas.StopperStable
/-! Contexts obtained from WithCancelOnQuiesce / WithCancelOnStop are cancelled once the channel is closed. -/
namespace Shk.Stopper

structure CInv (s : St) (j : Nat) (t : Thread) : Prop where
  q : t.kind = .wcq → t.pc ≠ .init → has s.log .cancelled j = true ∨ (j ∈ s.qCancels ∧ s.quiescing = false)
  sc : t.kind = .wcs → t.pc ≠ .init → has s.log .cancelled j = true ∨ (j ∈ s.sCancels ∧ s.sClosed = false)

def CancelInv (s : St) : Prop := ∀ j t, s.threads[j]? = some t → CInv s j t

theorem cinv_frame {s s' : St} {i j : Nat} {ti t : Thread} (hji : j ≠ i) (m : Mono s s') (sm : ListSum s s' i ti)
    (h : CInv s j t) : CInv s' j t := by
  obtain ⟨es, hl, _⟩ := m.news
  refine ⟨?_, ?_⟩
  · intro hk hp
    rcases h.q hk hp with h1 | ⟨h1, h2⟩
    · left; rw [hl, has_append, h1]; rfl
    · rcases m.qfire with hq | hq
      · right
        refine ⟨?_, by rw [hq]; exact h2⟩
        rcases sm.qc with e | ⟨e, _⟩ | e
        · rw [e]; exact h1
        · rw [e]; exact List.mem_append_left _ h1
        · rw [e]; exact (List.mem_erase_of_ne hji).mpr h1
      · left; exact hq j h1
  · intro hk hp
    rcases h.sc hk hp with h1 | ⟨h1, h2⟩
    · left; rw [hl, has_append, h1]; rfl
    · rcases m.sfire with hq | hq
      · right
        refine ⟨?_, by rw [hq]; exact h2⟩
        rcases sm.sc with e | ⟨e, _⟩ | e
        · rw [e]; exact h1
        · rw [e]; exact List.mem_append_left _ h1
        · rw [e]; exact (List.mem_erase_of_ne hji).mpr h1
      · left; exact hq j h1

theorem cinv_own_go {s s' : St} {i : Nat} {t : Thread} (h : goStep s i t = some s')
    (ih : CInv s i t) : ∃ t', s'.threads = s.threads.set i t' ∧ CInv s' i t' := by
  obtain ⟨h1, h2⟩ := ih
  obtain ⟨kind, pc, ret⟩ := t
  go_cases h
  all_goals (
    refine ⟨_, rfl, ?_⟩
    constructor <;> simp_all [St.upd, St.ev])

theorem cinv_own_alt {s s' : St} {i : Nat} {t : Thread} (h : altStep s i t = some s') :
    ∃ t', s'.threads = s.threads.set i t' ∧ CInv s' i t' := by
  obtain ⟨kind, pc, ret⟩ := t
  alt_cases h
  all_goals (
    refine ⟨_, rfl, ?_⟩
    constructor <;> simp [St.upd, St.ev])

theorem cancel_step {s s' : St} {i : Nat} {a : Act} (h : step s i a = some s') (p : Ph s)
    (ih : CancelInv s) : CancelInv s' := by
  have m := mono_step h p
  obtain ⟨t0, ht0, sm⟩ := listSum_step h
  obtain ⟨t, ht, ⟨_, hg⟩ | ⟨_, hg⟩ | ⟨_, hg⟩⟩ := step_elim h
  · obtain ⟨t', hthr, hown⟩ := cinv_own_go hg (ih i t ht)
    intro j tj hj
    rw [hthr] at hj
    rcases getElem?_set_cases _ _ _ _ _ hj with ⟨rfl, rfl, _⟩ | ⟨hne, hj⟩
    · exact hown
    · exact cinv_frame hne m sm (ih j tj hj)
  · obtain ⟨v, hr, hv, rfl⟩ := retStep_elim hg
    intro j tj hj
    simp only [St.upd] at hj
    rcases getElem?_set_cases _ _ _ _ _ hj with ⟨rfl, rfl, _⟩ | ⟨hne, hj⟩
    · obtain ⟨h1, h2⟩ := ih j t ht
      refine ⟨?_, ?_⟩
      · intro hk hp
        rcases h1 hk hp with h | h
        · left; simp [St.upd, h]
        · right; exact h
      · intro hk hp
        rcases h2 hk hp with h | h
        · left; simp [St.upd, h]
        · right; exact h
    · exact cinv_frame hne m sm (ih j tj hj)
  · obtain ⟨t', hthr, hown⟩ := cinv_own_alt hg
    intro j tj hj
    rw [hthr] at hj
    rcases getElem?_set_cases _ _ _ _ _ hj with ⟨rfl, rfl, _⟩ | ⟨hne, hj⟩
    · exact hown
    · exact cinv_frame hne m sm (ih j tj hj)

theorem cancel_reach {cap : Nat} {s : St} (h : Reach cap s) : CancelInv s := by
  induction h with
  | init => intro j t hj; simp [init] at hj
  | spawn s k hr ih =>
    intro j tj hj
    simp only [spawn] at hj
    by_cases hlt : j < s.threads.length
    · rw [List.getElem?_append_left hlt] at hj
      obtain ⟨h1, h2⟩ := ih j tj hj
      refine ⟨?_, ?_⟩
      · intro hk hp
        rcases h1 hk hp with h | h
        · left; simp [spawn, h]
        · right; exact h
      · intro hk hp
        rcases h2 hk hp with h | h
        · left; simp [spawn, h]
        · right; exact h
    · rw [List.getElem?_append_right (by omega)] at hj
      have : tj = { kind := k } := by
        by_cases h0 : j - s.threads.length = 0
        · rw [h0] at hj; simp at hj; exact hj.symm
        · have : ([({ kind := k } : Thread)])[j - s.threads.length]? = none := by
            apply List.getElem?_eq_none; simp; omega
          rw [this] at hj; cases hj
      subst this
      constructor <;> simp
  | step s s' i a hr hs ih => exact cancel_step hs (ph_reach hr) ih

end Shk.Stopper
