import ShkModel.Model.Audition
/-!
# Helper lemmas for C02: per-auditor marker streams and the period automata

`markers n s` is what the trace of `s` shows for the auditor named `n`.  Two recognisers read it:
`bstep` (brackets only: `(start (rep|err)* stop)*`) and `pstep` (brackets + the table states: every
`start` resets the tracked state to `T.start`, every report must be the `Table.fire` step of its
ghost label from the tracked state, `stop` must come right after the `end` report).
Both are shown to be *step invariants*: every piece of the audit loop (`visit`, `round`, `stepEv`,
`run`) extends the marker stream by a word that drives the recogniser from the auditor's state
before to the auditor's state after.
-/
namespace Shk.Aud
open Shk

/-! ## markers -/

/-- the per-auditor view of the model trace, with the ghost label of each report -/
inductive Mk | start | rep (lbl : Nat) (r : Rep) | err | stop
deriving DecidableEq, Repr

def mkOf (n : String) : Out → Option Mk
  | .start a => if a = n then some .start else none
  | .rep _ a r l => if a = n then some (.rep l r) else none
  | .repErr _ a => if a = n then some .err else none
  | .stop a => if a = n then some .stop else none
  | .obs .. => none

def proj (n : String) (l : List Out) : List Mk := l.filterMap (mkOf n)

/-- markers of auditor `n` in the trace of `s`, in emission order -/
def markers (n : String) (s : St) : List Mk := proj n s.out.reverse

/-! ## a tiny automaton runner -/

def runA {σ α : Type} (δ : σ → α → Option σ) : σ → List α → Option σ
  | p, [] => some p
  | p, a :: l =>
    match δ p a with
    | some p' => runA δ p' l
    | none => none

theorem runA_append {σ α : Type} (δ : σ → α → Option σ) (p : σ) (l1 l2 : List α) :
    runA δ p (l1 ++ l2) = (runA δ p l1).bind (fun p' => runA δ p' l2) := by
  induction l1 generalizing p with
  | nil => simp [runA]
  | cons a l ih =>
    simp only [List.cons_append, runA]
    cases δ p a with
    | none => simp
    | some p' => simpa using ih p'

theorem runA_append_of {σ α : Type} {δ : σ → α → Option σ} {p p' : σ} {l1 l2 : List α}
    (h : runA δ p l1 = some p') : runA δ p (l1 ++ l2) = runA δ p' l2 := by
  rw [runA_append, h]; rfl

/-- brackets only: state = inside a period? -/
def bstep : Bool → Mk → Option Bool
  | false, .start => some true
  | true, .rep _ _ => some true
  | true, .err => some true
  | true, .stop => some false
  | _, _ => none

/-- recogniser of `(start (rep|err)* stop)*` possibly followed by one open period;
the result is `some inside?` on acceptance. -/
def scan : Bool → List Mk → Option Bool := runA bstep

/-- state of the tracking recogniser -/
inductive PS | out | ins (q : Nat) | ended
deriving DecidableEq, Repr

/-- brackets + table states.  With a table: `start` enters the period in `T.start`; a report with
label 0/1 must be the `fire` step from the tracked state; the report with label 2 (`end`) must be
the `fire` step too and must be followed by `stop`.  Without a table (no `expects`): `start stop`
only. -/
def startOf : Option Table → Nat
  | some T => T.start
  | none => 0

def pstep (T? : Option Table) : PS → Mk → Option PS
  | .out, .start => some (.ins (startOf T?))
  | .ins q, .rep l r =>
    match T? with
    | none => none
    | some T =>
      if r = (T.fire q l).2 then
        (if l = 2 then some .ended else if l < 2 then some (.ins (T.fire q l).1) else none)
      else none
  | .ins q, .err => if T?.isSome then some (.ins q) else none
  | .ins _, .stop => if T?.isSome then none else some .out
  | .ended, .stop => some .out
  | _, _ => none

def track (T? : Option Table) : PS → List Mk → Option PS := runA (pstep T?)

def Member.table? (m : Member) : Option Table := m.expect.map (·.1)

/-- where the tracking recogniser should be, given the auditor's state -/
def psOf (m : Member) (a : AudSt) : PS :=
  if a.auditing then .ins (if m.expect.isSome then a.fsm else 0) else .out

/-! ## basic facts on markers -/

@[simp] theorem markers_emit (n : String) (s : St) (o : Out) :
    markers n (s.emit o) = markers n s ++ (mkOf n o).toList := by
  simp only [markers, proj, St.emit, List.reverse_cons, List.filterMap_append]
  cases h : mkOf n o <;> simp [List.filterMap, h]

@[simp] theorem markers_setAud (n k : String) (s : St) (a : AudSt) :
    markers n (setAud s k a) = markers n s := rfl

@[simp] theorem setAud_aud_self (s : St) (k : String) (a : AudSt) : (setAud s k a).aud k = a := by
  simp [setAud]

theorem setAud_aud_other (s : St) (k n : String) (a : AudSt) (h : n ≠ k) :
    (setAud s k a).aud n = s.aud n := by
  simp [setAud, h]

@[simp] theorem emit_aud (s : St) (o : Out) : (s.emit o).aud = s.aud := rfl
@[simp] theorem emit_abort (s : St) (o : Out) : (s.emit o).abort = s.abort := rfl
@[simp] theorem emit_vals (s : St) (o : Out) : (s.emit o).vals = s.vals := rfl
@[simp] theorem setAud_abort (s : St) (k : String) (a : AudSt) : (setAud s k a).abort = s.abort := rfl
@[simp] theorem setAud_vals (s : St) (k : String) (a : AudSt) : (setAud s k a).vals = s.vals := rfl

/-! ## `Same n`: nothing that concerns auditor `n`'s periods changed -/

structure Same (n : String) (s s' : St) : Prop where
  mks : markers n s' = markers n s
  auditing : (s'.aud n).auditing = (s.aud n).auditing
  fsm : (s'.aud n).fsm = (s.aud n).fsm

theorem Same.rfl' (n : String) (s : St) : Same n s s := ⟨rfl, rfl, rfl⟩

theorem Same.trans {n : String} {a b d : St} (h1 : Same n a b) (h2 : Same n b d) : Same n a d :=
  ⟨h2.mks.trans h1.mks, h2.auditing.trans h1.auditing, h2.fsm.trans h1.fsm⟩

theorem same_abort (n : String) (s : St) (a : Option Abort) : Same n s { s with abort := a } :=
  ⟨rfl, rfl, rfl⟩

theorem setVar_same (c : Cfg) (s : St) (ts : Rat) (typ : Typ) (v : VarName) (val : Val)
    (cc : Bool) (n : String) : Same n s (setVar c s ts typ v val cc) := by
  unfold setVar
  split
  · exact Same.rfl' n s
  · split
    · exact ⟨rfl, rfl, rfl⟩
    · refine ⟨?_, ?_, ?_⟩
      · simp only [markers]
        split
        · simp [proj, mkOf, List.filterMap_append]
        · rfl
      · simp only; split <;> rfl
      · simp only; split <;> rfl

theorem assignOne_same (c : Cfg) (ts : Rat) (s : St) (a : Assign) (n : String) :
    Same n s (assignOne c ts s a) := by
  unfold assignOne
  split
  · exact Same.rfl' n s
  · split
    · exact Same.rfl' n s
    · split
      · exact same_abort n s _
      · exact same_abort n s _
      · split
        · exact setVar_same ..
        · split
          · exact same_abort n s _
          · split
            · exact same_abort n s _
            · exact setVar_same ..

theorem assignAll_same (c : Cfg) (ts : Rat) (s : St) (as : List Assign) (n : String) :
    Same n s (assignAll c ts s as) := by
  unfold assignAll
  induction as generalizing s with
  | nil => exact Same.rfl' n s
  | cons a as ih => exact (assignOne_same c ts s a n).trans (ih _)

/-! ## operations of a member with another name leave auditor `n` alone -/

theorem mkOf_other_start {n k : String} (h : k ≠ n) : mkOf n (.start k) = none := by simp [mkOf, h]
theorem mkOf_other_stop {n k : String} (h : k ≠ n) : mkOf n (.stop k) = none := by simp [mkOf, h]
theorem mkOf_other_rep {n k : String} (h : k ≠ n) (ts : Rat) (r : Rep) (l : Nat) :
    mkOf n (.rep ts k r l) = none := by simp [mkOf, h]
theorem mkOf_other_err {n k : String} (h : k ≠ n) (ts : Rat) : mkOf n (.repErr ts k) = none := by
  simp [mkOf, h]

theorem startPeriod_same {n : String} (s : St) (m : Member) (h : m.name ≠ n) :
    Same n s (startPeriod s m) := by
  have h' : n ≠ m.name := fun e => h e.symm
  refine ⟨?_, ?_, ?_⟩ <;> simp [startPeriod, mkOf_other_start h, setAud_aud_other _ _ _ _ h']

theorem fireExpect_same {n : String} (s : St) (ts : Rat) (k : String) (T : Table) (l : Nat)
    (h : k ≠ n) : Same n s (fireExpect s ts k T l) := by
  have h' : n ≠ k := fun e => h e.symm
  refine ⟨?_, ?_, ?_⟩ <;> simp [fireExpect, mkOf_other_rep h, setAud_aud_other _ _ _ _ h']

theorem checkExpect_same {n : String} (s : St) (ts : Rat) (m : Member) (h : m.name ≠ n) :
    Same n s (checkExpect s ts m) := by
  unfold checkExpect
  split
  · exact Same.rfl' n s
  · split
    · exact Same.rfl' n s
    · split
      · exact Same.rfl' n s
      · split
        · exact ⟨by simp [mkOf_other_err h], rfl, rfl⟩
        · exact same_abort n s _
        · exact fireExpect_same _ _ _ _ _ h
        · exact fireExpect_same _ _ _ _ _ h

theorem endJudge_same {n : String} (s : St) (ts : Rat) (m : Member) (h : m.name ≠ n) :
    Same n s (endJudge s ts m) := by
  unfold endJudge
  split
  · exact fireExpect_same _ _ _ _ _ h
  · exact Same.rfl' n s

theorem stopPeriod_same {n : String} (s : St) (m : Member) (h : m.name ≠ n) :
    Same n s (stopPeriod s m) := by
  have h' : n ≠ m.name := fun e => h e.symm
  refine ⟨?_, ?_, ?_⟩ <;> simp [stopPeriod, mkOf_other_stop h, setAud_aud_other _ _ _ _ h']

theorem endPeriod_same {n : String} (s : St) (ts : Rat) (m : Member) (h : m.name ≠ n) :
    Same n s (endPeriod s ts m) := by
  unfold endPeriod
  split
  · exact Same.rfl' n s
  · exact (endJudge_same s ts m h).trans (stopPeriod_same _ m h)

theorem visit_same {n : String} (c : Cfg) (final : Bool) (ts : Rat) (s : St) (m : Member)
    (h : m.name ≠ n) : Same n s (visit c final ts s m) := by
  unfold visit
  split
  · exact Same.rfl' n s
  · split
    · exact Same.rfl' n s
    · exact same_abort n s _
    · split
      · exact ((startPeriod_same s m h).trans (assignAll_same ..)).trans (checkExpect_same _ _ _ h)
      · split
        · exact Same.rfl' n s
        · split
          · exact (assignAll_same ..).trans (checkExpect_same _ _ _ h)
          · exact ((assignAll_same ..).trans (checkExpect_same _ _ _ h)).trans
              (endPeriod_same _ _ _ h)

/-! ## `Delta`: the step relation "the new markers drive the recogniser from the old view to the new" -/

def Delta {σ : Type} (δ : σ → Mk → Option σ) (view : St → σ) (n : String) (s s' : St) : Prop :=
  ∃ d, markers n s' = markers n s ++ d ∧ runA δ (view s) d = some (view s')

theorem Delta.rfl' {σ : Type} {δ : σ → Mk → Option σ} {view : St → σ} {n : String} (s : St) :
    Delta δ view n s s := ⟨[], by simp, rfl⟩

theorem Delta.trans {σ : Type} {δ : σ → Mk → Option σ} {view : St → σ} {n : String} {a b d : St}
    (h1 : Delta δ view n a b) (h2 : Delta δ view n b d) : Delta δ view n a d := by
  obtain ⟨d1, e1, r1⟩ := h1
  obtain ⟨d2, e2, r2⟩ := h2
  exact ⟨d1 ++ d2, by rw [e2, e1, List.append_assoc], by rw [runA_append_of r1, r2]⟩

theorem Delta.of_eq {σ : Type} {δ : σ → Mk → Option σ} {view : St → σ} {n : String} {s s' : St}
    (hm : markers n s' = markers n s) (hv : view s' = view s) : Delta δ view n s s' :=
  ⟨[], by simp [hm], by simp [runA, hv]⟩

theorem Delta.one {σ : Type} {δ : σ → Mk → Option σ} {view : St → σ} {n : String} {s s' : St}
    (k : Mk) (hm : markers n s' = markers n s ++ [k]) (hv : δ (view s) k = some (view s')) :
    Delta δ view n s s' :=
  ⟨[k], hm, by simp [runA, hv]⟩

/-- the bracket relation for the auditor *name* `n` -/
abbrev DeltaB (n : String) : St → St → Prop := Delta bstep (fun s => (s.aud n).auditing) n

/-- the tracking relation for member `m` -/
abbrev DeltaP (m : Member) : St → St → Prop :=
  Delta (pstep m.table?) (fun s => psOf m (s.aud m.name)) m.name

theorem Same.deltaB {n : String} {s s' : St} (h : Same n s s') : DeltaB n s s' :=
  Delta.of_eq h.mks h.auditing

theorem Same.deltaP {m : Member} {s s' : St} (h : Same m.name s s') : DeltaP m s s' :=
  Delta.of_eq h.mks (by simp [psOf, h.auditing, h.fsm])

/-! ## the operations of the member itself -/

theorem startPeriod_deltaB (s : St) (m : Member) (h : (s.aud m.name).auditing = false) :
    DeltaB m.name s (startPeriod s m) := by
  refine Delta.one .start (by simp [startPeriod, mkOf]) ?_
  simp [h, bstep, startPeriod]

theorem startPeriod_deltaP (s : St) (m : Member) (h : (s.aud m.name).auditing = false) :
    DeltaP m s (startPeriod s m) := by
  refine Delta.one .start (by simp [startPeriod, mkOf]) ?_
  cases he : m.expect with
  | none => simp [psOf, h, pstep, startPeriod, Member.table?, he, startOf]
  | some p => simp [psOf, h, pstep, startPeriod, Member.table?, he, startOf]

@[simp] theorem startPeriod_auditing (s : St) (m : Member) :
    ((startPeriod s m).aud m.name).auditing = true := by simp [startPeriod]

theorem fireExpect_auditing (s : St) (ts : Rat) (k : String) (T : Table) (l : Nat) (n : String) :
    ((fireExpect s ts k T l).aud n).auditing = (s.aud n).auditing := by
  by_cases h : n = k
  · subst h; simp [fireExpect]
  · simp [fireExpect, setAud_aud_other _ _ _ _ h]

theorem checkExpect_auditing (s : St) (ts : Rat) (m : Member) (n : String) :
    ((checkExpect s ts m).aud n).auditing = (s.aud n).auditing := by
  unfold checkExpect
  split
  · rfl
  · split
    · rfl
    · split
      · rfl
      · split
        · rfl
        · rfl
        · exact fireExpect_auditing ..
        · exact fireExpect_auditing ..

theorem fireExpect_deltaB (s : St) (ts : Rat) (k : String) (T : Table) (l : Nat)
    (h : (s.aud k).auditing = true) : DeltaB k s (fireExpect s ts k T l) := by
  refine Delta.one (.rep l (T.fire (s.aud k).fsm l).2) (by simp [fireExpect, mkOf]) ?_
  simp [h, bstep, fireExpect]

theorem fireExpect_deltaP (s : St) (ts : Rat) (m : Member) (T : Table) (e : Expr) (l : Nat)
    (he : m.expect = some (T, e)) (hl : l < 2)
    (h : (s.aud m.name).auditing = true) : DeltaP m s (fireExpect s ts m.name T l) := by
  refine Delta.one (.rep l (T.fire (s.aud m.name).fsm l).2) (by simp [fireExpect, mkOf]) ?_
  have : l ≠ 2 := by omega
  simp [h, psOf, pstep, fireExpect, Member.table?, he, hl, this]

theorem checkExpect_deltaB (s : St) (ts : Rat) (m : Member) (h : (s.aud m.name).auditing = true) :
    DeltaB m.name s (checkExpect s ts m) := by
  unfold checkExpect
  split
  · exact Delta.rfl' s
  · split
    · exact Delta.rfl' s
    · split
      · exact Delta.rfl' s
      · split
        · exact Delta.one .err (by simp [mkOf]) (by simp [h, bstep])
        · exact (same_abort _ s _).deltaB
        · exact fireExpect_deltaB _ _ _ _ _ h
        · exact fireExpect_deltaB _ _ _ _ _ h

theorem checkExpect_deltaP (s : St) (ts : Rat) (m : Member) (h : (s.aud m.name).auditing = true) :
    DeltaP m s (checkExpect s ts m) := by
  unfold checkExpect
  split
  · exact Delta.rfl' s
  · split
    · exact Delta.rfl' s
    · next T e he =>
      split
      · exact Delta.rfl' s
      · split
        · exact Delta.one .err (by simp [mkOf]) (by simp [h, psOf, pstep, Member.table?, he])
        · exact (same_abort _ s _).deltaP
        · exact fireExpect_deltaP _ _ _ _ e _ he (by omega) h
        · exact fireExpect_deltaP _ _ _ _ e _ he (by omega) h

theorem endPeriod_deltaB (s : St) (ts : Rat) (m : Member) (h : (s.aud m.name).auditing = true) :
    DeltaB m.name s (endPeriod s ts m) := by
  unfold endPeriod
  split
  · exact Delta.rfl' s
  · have h1 : DeltaB m.name s (endJudge s ts m) ∧ ((endJudge s ts m).aud m.name).auditing = true := by
      unfold endJudge
      split
      · exact ⟨fireExpect_deltaB _ _ _ _ _ h, by rw [fireExpect_auditing]; exact h⟩
      · exact ⟨Delta.rfl' s, h⟩
    refine h1.1.trans (Delta.one .stop (by simp [stopPeriod, mkOf]) ?_)
    simp [h1.2, bstep, stopPeriod]

theorem endPeriod_deltaP (s : St) (ts : Rat) (m : Member) (h : (s.aud m.name).auditing = true) :
    DeltaP m s (endPeriod s ts m) := by
  unfold endPeriod
  split
  · exact Delta.rfl' s
  · cases he : m.expect with
    | none =>
      refine Delta.one .stop (by simp [stopPeriod, endJudge, he, mkOf]) ?_
      simp [h, psOf, pstep, stopPeriod, endJudge, Member.table?, he]
    | some p =>
      obtain ⟨T, e⟩ := p
      refine ⟨[.rep 2 (T.fire (s.aud m.name).fsm 2).2, .stop], ?_, ?_⟩
      · simp [stopPeriod, endJudge, he, fireExpect, mkOf]
      · simp [h, psOf, pstep, stopPeriod, endJudge, fireExpect, Member.table?, he, runA]

theorem endPeriod_closes (s : St) (ts : Rat) (m : Member) (h : (endPeriod s ts m).abort = none) :
    ((endPeriod s ts m).aud m.name).auditing = false := by
  unfold endPeriod at h ⊢
  split
  · next h' => simp [h'] at h; simp [h] at h'
  · simp [stopPeriod]

/-! ## `visit` -/

theorem visit_deltaB_self (c : Cfg) (final : Bool) (ts : Rat) (s : St) (m : Member) :
    DeltaB m.name s (visit c final ts s m) := by
  unfold visit
  split
  · exact Delta.rfl' s
  · split
    · exact Delta.rfl' s
    · exact (same_abort _ s _).deltaB
    · split
      · next h =>
        simp only [Bool.and_eq_true, Bool.not_eq_true'] at h
        refine ((startPeriod_deltaB s m h.2).trans (assignAll_same ..).deltaB).trans
          (checkExpect_deltaB _ _ _ ?_)
        rw [(assignAll_same ..).auditing]; simp
      · split
        · exact Delta.rfl' s
        · next _ h =>
          simp only [Bool.not_eq_true', Bool.not_eq_false] at h
          have h2 : ((assignAll c ts s m.assigns).aud m.name).auditing = true := by
            rw [(assignAll_same ..).auditing]; exact h
          split
          · exact (assignAll_same ..).deltaB.trans (checkExpect_deltaB _ _ _ h2)
          · refine ((assignAll_same ..).deltaB.trans (checkExpect_deltaB _ _ _ h2)).trans
              (endPeriod_deltaB _ _ _ ?_)
            rw [checkExpect_auditing]; exact h2

theorem visit_deltaP (c : Cfg) (final : Bool) (ts : Rat) (s : St) (m : Member) :
    DeltaP m s (visit c final ts s m) := by
  unfold visit
  split
  · exact Delta.rfl' s
  · split
    · exact Delta.rfl' s
    · exact (same_abort _ s _).deltaP
    · split
      · next h =>
        simp only [Bool.and_eq_true, Bool.not_eq_true'] at h
        refine ((startPeriod_deltaP s m h.2).trans (assignAll_same ..).deltaP).trans
          (checkExpect_deltaP _ _ _ ?_)
        rw [(assignAll_same ..).auditing]; simp
      · split
        · exact Delta.rfl' s
        · next _ h =>
          simp only [Bool.not_eq_true', Bool.not_eq_false] at h
          have h2 : ((assignAll c ts s m.assigns).aud m.name).auditing = true := by
            rw [(assignAll_same ..).auditing]; exact h
          split
          · exact (assignAll_same ..).deltaP.trans (checkExpect_deltaP _ _ _ h2)
          · refine ((assignAll_same ..).deltaP.trans (checkExpect_deltaP _ _ _ h2)).trans
              (endPeriod_deltaP _ _ _ ?_)
            rw [checkExpect_auditing]; exact h2

/-- whatever member is visited, the brackets of *every* name are preserved -/
theorem visit_deltaB (n : String) (c : Cfg) (final : Bool) (ts : Rat) (s : St) (m : Member) :
    DeltaB n s (visit c final ts s m) := by
  by_cases h : m.name = n
  · subst h; exact visit_deltaB_self ..
  · exact (visit_same c final ts s m h).deltaB

theorem visit_abort_keep (c : Cfg) (final : Bool) (ts : Rat) (s : St) (m : Member)
    (h : s.abort.isSome = true) : visit c final ts s m = s := by
  simp [visit, h]

/-- a final visit that does not abort closes the member -/
theorem visit_final_closes (c : Cfg) (ts : Rat) (s : St) (m : Member)
    (h : (visit c true ts s m).abort = none) :
    ((visit c true ts s m).aud m.name).auditing = false := by
  by_cases hab : s.abort.isSome = true
  · rw [visit_abort_keep _ _ _ _ _ hab] at h; simp [h] at hab
  · unfold visit at h ⊢
    simp only [hab, condOf, if_true] at h ⊢
    by_cases ha : (s.aud m.name).auditing = true
    · simp only [ha, Bool.false_and, Bool.not_true, Bool.false_eq_true, if_false] at h ⊢
      exact endPeriod_closes _ _ _ h
    · simp at ha
      simp [ha]

/-! ## rounds, events, runs: a generic invariance principle -/

/-- one iteration of the member loop of `round` -/
def rvisit (c : Cfg) (final : Bool) (ts : Rat) (st : St) (m : Member) : St :=
  if visited final st m then visit c final ts st m else st

theorem round_eq (c : Cfg) (final : Bool) (ts : Rat) (xs : List Sample) (s : St) :
    round c final ts xs s =
      if s.abort.isSome then s else c.members.foldl (rvisit c final ts) (beginRound c ts xs s) := rfl

theorem beginRound_same (c : Cfg) (ts : Rat) (xs : List Sample) (s : St) (n : String) :
    Same n s (beginRound c ts xs s) := by
  unfold beginRound
  extract_lets s0 s1 s2 moodt s3
  have h0 : Same n s s0 := ⟨rfl, rfl, rfl⟩
  have h3 : Same n s s3 := ((h0.trans (setVar_same ..)).trans (setVar_same ..)).trans (setVar_same ..)
  refine h3.trans ?_
  clear h3 h0
  clear_value s3
  induction xs generalizing s3 with
  | nil => exact Same.rfl' n s3
  | cons x xs ih =>
    simp only [List.foldl_cons]
    refine Same.trans ?_ (ih _)
    split
    · exact Same.rfl' n s3
    · refine (setVar_same c s3 ts x.typ x.v x.val false n).trans ⟨?_, rfl, rfl⟩
      simp [mkOf]

/-- a relation on states that every step of the audit loop respects, as far as auditor `n` is
concerned -/
structure Stable (c : Cfg) (n : String) (R : St → St → Prop) : Prop where
  refl : ∀ s, R s s
  trans : ∀ {a b d}, R a b → R b d → R a d
  same : ∀ {s s'}, Same n s s' → R s s'
  visit : ∀ final ts s m, m ∈ c.members → visited final s m = true → R s (Aud.visit c final ts s m)

namespace Stable
variable {c : Cfg} {n : String} {R : St → St → Prop}

theorem rvisit (h : Stable c n R) (final : Bool) (ts : Rat) (s : St) (m : Member)
    (hm : m ∈ c.members) : R s (Aud.rvisit c final ts s m) := by
  unfold Aud.rvisit
  split
  · next hv => exact h.visit final ts s m hm hv
  · exact h.refl s

theorem fold (h : Stable c n R) (final : Bool) (ts : Rat) (ms : List Member)
    (hms : ∀ m ∈ ms, m ∈ c.members) (s : St) : R s (ms.foldl (Aud.rvisit c final ts) s) := by
  induction ms generalizing s with
  | nil => exact h.refl s
  | cons m ms ih =>
    simp only [List.foldl_cons]
    exact h.trans (h.rvisit final ts s m (hms m (by simp)))
      (ih (fun m' hm' => hms m' (by simp [hm'])) _)

theorem round (h : Stable c n R) (final : Bool) (ts : Rat) (xs : List Sample) (s : St) :
    R s (Aud.round c final ts xs s) := by
  rw [round_eq]
  split
  · exact h.refl s
  · exact h.trans (h.same (beginRound_same c ts xs s n)) (h.fold final ts _ (fun _ hm => hm) _)

theorem stepEv (h : Stable c n R) (s : St) (e : Ev) : R s (Aud.stepEv c s e) := by
  cases e with
  | sig ts xs => exact h.round false ts xs s
  | mood ts m =>
    simp only [Aud.stepEv]
    split
    · exact h.refl s
    · split
      · exact h.round false ts [] s
      · refine h.trans (h.round false ts [] s) (h.trans (h.same ?_) (h.round false ts [] _))
        exact ⟨rfl, rfl, rfl⟩

theorem steps (h : Stable c n R) (evs : List Ev) (s : St) : R s (evs.foldl (Aud.stepEv c) s) := by
  induction evs generalizing s with
  | nil => exact h.refl s
  | cons e evs ih => exact h.trans (h.stepEv s e) (ih _)

end Stable

/-- the state after the events, before the deferred final round -/
def preFinal (c : Cfg) (evs : List Ev) : St := evs.foldl (stepEv c) (start c)

/-- the state after the deferred final round, with the final round's own abort flag -/
def finalRound (c : Cfg) (evs : List Ev) (tEnd : Rat) : St :=
  round c true tEnd [] { preFinal c evs with abort := none }

theorem run_eq (c : Cfg) (evs : List Ev) (tEnd : Rat) :
    run c evs tEnd = { finalRound c evs tEnd with
      abort := (preFinal c evs).abort.or (finalRound c evs tEnd).abort } := rfl

namespace Stable
variable {c : Cfg} {n : String} {R : St → St → Prop}

theorem preFinal (h : Stable c n R) (evs : List Ev) : R {} (Aud.preFinal c evs) := by
  unfold Aud.preFinal Aud.start
  refine h.trans (h.trans (h.same ?_) (h.round false 0 [] _)) (h.steps evs _)
  exact ⟨rfl, rfl, rfl⟩

theorem finalRound (h : Stable c n R) (evs : List Ev) (tEnd : Rat) :
    R {} (Aud.finalRound c evs tEnd) :=
  h.trans (h.preFinal evs) (h.trans (h.same (same_abort n _ none)) (h.round true tEnd [] _))

theorem run (h : Stable c n R) (evs : List Ev) (tEnd : Rat) : R {} (Aud.run c evs tEnd) := by
  rw [run_eq]
  exact h.trans (h.finalRound evs tEnd) (h.same (same_abort n _ _))

end Stable

/-! ## the three relations are stable -/

theorem eq_of_name_eq {l : List Member} (h : (l.map (·.name)).Nodup) {a b : Member}
    (ha : a ∈ l) (hb : b ∈ l) (e : a.name = b.name) : a = b := by
  induction l with
  | nil => cases ha
  | cons x l ih =>
    simp only [List.map_cons, List.nodup_cons, List.mem_map, not_exists, not_and] at h
    rcases List.mem_cons.1 ha with rfl | ha' <;> rcases List.mem_cons.1 hb with rfl | hb'
    · rfl
    · exact absurd e.symm (h.1 b hb')
    · exact absurd e (h.1 a ha')
    · exact ih h.2 ha' hb'

theorem stableB (c : Cfg) (n : String) : Stable c n (DeltaB n) where
  refl := Delta.rfl'
  trans := Delta.trans
  same := Same.deltaB
  visit := fun final ts s m _ _ => visit_deltaB n c final ts s m

theorem stableP (c : Cfg) (hnd : (c.members.map (·.name)).Nodup) (m : Member) (hm : m ∈ c.members) :
    Stable c m.name (DeltaP m) where
  refl := Delta.rfl'
  trans := Delta.trans
  same := Same.deltaP
  visit := by
    intro final ts s m' hm' _
    by_cases e : m'.name = m.name
    · have := eq_of_name_eq hnd hm' hm e
      subst this
      exact visit_deltaP ..
    · exact (visit_same c final ts s m' e).deltaP

/-- only members that have auditor state are ever auditing -/
def AudOK (m : Member) (s : St) : Prop := (s.aud m.name).auditing = true → m.isAuditor = true

theorem stableOK (c : Cfg) (hnd : (c.members.map (·.name)).Nodup) (m : Member) (hm : m ∈ c.members) :
    Stable c m.name (fun s s' => AudOK m s → AudOK m s') where
  refl := fun _ h => h
  trans := fun h1 h2 h => h2 (h1 h)
  same := fun hs h h' => h (hs.auditing ▸ h')
  visit := by
    intro final ts s m' hm' hv h
    by_cases e : m'.name = m.name
    · have := eq_of_name_eq hnd hm' hm e
      subst this
      intro _
      simp only [visited, Bool.and_eq_true] at hv
      exact hv.1
    · intro h'
      exact h ((visit_same c final ts s m' e).auditing ▸ h')

theorem audOK_init (m : Member) : AudOK m {} := by simp [AudOK]

theorem Delta.from_init {σ : Type} {δ : σ → Mk → Option σ} {view : St → σ} {n : String} {s : St}
    (h : Delta δ view n {} s) : runA δ (view {}) (markers n s) = some (view s) := by
  obtain ⟨d, e, r⟩ := h
  have : markers n ({} : St) = [] := rfl
  rw [e, this, List.nil_append]; exact r

/-! ## the final round closes every member -/

theorem fold_abort_keep (c : Cfg) (final : Bool) (ts : Rat) (ms : List Member) (s : St)
    (h : s.abort.isSome = true) : ms.foldl (rvisit c final ts) s = s := by
  induction ms with
  | nil => rfl
  | cons m ms ih =>
    have : rvisit c final ts s m = s := by
      unfold rvisit; split
      · exact visit_abort_keep _ _ _ _ _ h
      · rfl
    simp only [List.foldl_cons, this, ih]

theorem rvisit_same {n : String} (c : Cfg) (final : Bool) (ts : Rat) (s : St) (m : Member)
    (h : m.name ≠ n) : Same n s (rvisit c final ts s m) := by
  unfold rvisit; split
  · exact visit_same c final ts s m h
  · exact Same.rfl' n s

theorem fold_same {n : String} (c : Cfg) (final : Bool) (ts : Rat) (ms : List Member)
    (h : ∀ m ∈ ms, m.name ≠ n) (s : St) : Same n s (ms.foldl (rvisit c final ts) s) := by
  induction ms generalizing s with
  | nil => exact Same.rfl' n s
  | cons m ms ih =>
    simp only [List.foldl_cons]
    exact (rvisit_same c final ts s m (h m (by simp))).trans
      (ih (fun m' hm' => h m' (by simp [hm'])) _)

theorem rvisit_final_closes (c : Cfg) (ts : Rat) (s : St) (m : Member) (hok : AudOK m s)
    (h : (rvisit c true ts s m).abort = none) :
    ((rvisit c true ts s m).aud m.name).auditing = false := by
  unfold rvisit at h ⊢
  split
  · next hv => rw [if_pos hv] at h; exact visit_final_closes c ts s m h
  · next hv =>
    cases ha : (s.aud m.name).auditing with
    | false => rfl
    | true => simp [visited, ha, hok ha] at hv

theorem fold_final_closes (c : Cfg) (ts : Rat) (ms : List Member) (hnd : (ms.map (·.name)).Nodup)
    (s : St) (hok : ∀ m ∈ ms, AudOK m s)
    (h : (ms.foldl (rvisit c true ts) s).abort = none) :
    ∀ m ∈ ms, ((ms.foldl (rvisit c true ts) s).aud m.name).auditing = false := by
  induction ms generalizing s with
  | nil => intro m hm; cases hm
  | cons m ms ih =>
    simp only [List.map_cons, List.nodup_cons, List.mem_map, not_exists, not_and] at hnd
    simp only [List.foldl_cons] at h ⊢
    have h1 : (rvisit c true ts s m).abort = none := by
      cases hs : (rvisit c true ts s m).abort with
      | none => rfl
      | some a =>
        rw [fold_abort_keep _ _ _ _ _ (by simp [hs])] at h
        rw [hs] at h; cases h
    have hne : ∀ m' ∈ ms, m'.name ≠ m.name := fun m' hm' => hnd.1 m' hm'
    intro m' hm'
    rcases List.mem_cons.1 hm' with rfl | hm''
    · rw [(fold_same c true ts ms hne _).auditing]
      exact rvisit_final_closes c ts s m' (hok m' (by simp)) h1
    · refine ih hnd.2 _ (fun k hk hk' => hok k (by simp [hk]) ?_) h m' hm''
      have hsame := rvisit_same (n := k.name) c true ts s m (fun e => hne k hk e.symm)
      rw [← hsame.auditing]; exact hk'

/-! ## the final round as a fold; `AudOK` where it is needed -/

/-- the state of the final round after its head assignments, before the member loop -/
def finalBegin (c : Cfg) (evs : List Ev) (tEnd : Rat) : St :=
  beginRound c tEnd [] { preFinal c evs with abort := none }

theorem finalRound_eq_fold (c : Cfg) (evs : List Ev) (tEnd : Rat) :
    finalRound c evs tEnd = c.members.foldl (rvisit c true tEnd) (finalBegin c evs tEnd) := rfl

theorem audOK_finalBegin (c : Cfg) (hnd : (c.members.map (·.name)).Nodup) (evs : List Ev)
    (tEnd : Rat) (m : Member) (hm : m ∈ c.members) : AudOK m (finalBegin c evs tEnd) := by
  have st := stableOK c hnd m hm
  exact st.same (beginRound_same ..) (st.same (same_abort _ _ none) (st.preFinal evs (audOK_init m)))

/-! ## reading the periods off an accepted marker stream -/

def labelsOf (l : List Mk) : List Nat := l.filterMap fun | .rep lbl _ => some lbl | _ => none
def repsOf (l : List Mk) : List Rep := l.filterMap fun | .rep _ r => some r | _ => none

theorem track_split_start (T? : Option Table) (p p' : PS) (pre rest : List Mk)
    (h : track T? p (pre ++ .start :: rest) = some p') :
    track T? p pre = some .out ∧
      track T? (.ins (startOf T?)) rest = some p' := by
  unfold track at h ⊢
  rw [runA_append] at h
  cases hq : runA (pstep T?) p pre with
  | none => rw [hq] at h; cases h
  | some q =>
    rw [hq] at h
    cases q <;> simp [runA, pstep] at h
    exact ⟨rfl, h⟩

theorem lbl_of_lt_two {l : Nat} (h : l < 2) : Table.lbl (l == 0) = l := by
  have : l = 0 ∨ l = 1 := by omega
  rcases this with rfl | rfl <;> rfl

/-- a closed period, read from inside: labels `b₁ … b_k end`, reports = `T.period q bs`, the `end`
report is the last marker before `stop`. -/
theorem track_period (T : Table) : ∀ (body : List Mk) (q : Nat) (post : List Mk) (p' : PS),
    track (some T) (.ins q) (body ++ .stop :: post) = some p' →
    Mk.start ∉ body → Mk.stop ∉ body →
    ∃ bs : List Bool, labelsOf body = bs.map Table.lbl ++ [2] ∧ repsOf body = T.period q bs ∧
      (∃ b' r, body = b' ++ [Mk.rep 2 r]) ∧ track (some T) .out post = some p' := by
  intro body
  induction body with
  | nil => intro q post p' h; simp [track, runA, pstep] at h
  | cons k body ih =>
    intro q post p' h hs he
    simp only [List.mem_cons, not_or] at hs he
    cases k with
    | start => exact absurd rfl hs.1
    | stop => exact absurd rfl he.1
    | err =>
      simp only [track, List.cons_append, runA, pstep, Option.isSome_some, if_true] at h
      obtain ⟨bs, h1, h2, ⟨b', r, h3⟩, h4⟩ := ih q post p' h hs.2 he.2
      exact ⟨bs, by simpa [labelsOf] using h1, by simpa [repsOf] using h2,
        ⟨.err :: b', r, by simp [h3]⟩, h4⟩
    | rep l r =>
      simp only [track, List.cons_append, runA, pstep] at h
      by_cases hr : r = (T.fire q l).2
      · simp only [hr, if_true] at h
        by_cases h2 : l = 2
        · subst h2
          simp only [if_true] at h
          cases body with
          | nil =>
            simp only [List.nil_append, runA, pstep] at h
            exact ⟨[], by simp [labelsOf], by simp [repsOf, Table.period, hr],
              ⟨[], r, rfl⟩, h⟩
          | cons k' body' =>
            simp only [List.mem_cons, not_or] at he
            cases k' <;> simp [runA, pstep] at h
            exact absurd rfl he.2.1
        · simp only [h2, if_false] at h
          by_cases h3 : l < 2
          · simp only [h3, if_true] at h
            obtain ⟨bs, e1, e2, ⟨b', r', e3⟩, e4⟩ := ih _ post p' h hs.2 he.2
            refine ⟨(l == 0) :: bs, ?_, ?_, ⟨.rep l r :: b', r', by simp [e3]⟩, e4⟩
            · simp only [labelsOf, List.filterMap_cons, List.map_cons, List.cons_append,
                lbl_of_lt_two h3]
              exact congrArg _ e1
            · simp only [repsOf, List.filterMap_cons, Table.period, lbl_of_lt_two h3, hr]
              exact congrArg _ e2
          · simp [h3] at h
      · simp [hr] at h

/-- an open period, read from inside: the reports so far, completed by the `end` report that is still
due from the tracked state, form `T.period q bs`. -/
theorem track_open (T : Table) : ∀ (body : List Mk) (q : Nat) (p' : PS),
    track (some T) (.ins q) body = some p' → Mk.start ∉ body → Mk.stop ∉ body →
    (∃ q' bs, p' = .ins q' ∧ labelsOf body = bs.map Table.lbl ∧
        T.period q bs = repsOf body ++ [(T.fire q' 2).2]) ∨ p' = .ended := by
  intro body
  induction body with
  | nil =>
    intro q p' h _ _
    simp only [track, runA, Option.some.injEq] at h
    exact .inl ⟨q, [], h.symm, by simp [labelsOf], by simp [repsOf, Table.period]⟩
  | cons k body ih =>
    intro q p' h hs he
    simp only [List.mem_cons, not_or] at hs he
    cases k with
    | start => exact absurd rfl hs.1
    | stop => exact absurd rfl he.1
    | err =>
      simp only [track, runA, pstep, Option.isSome_some, if_true] at h
      rcases ih q p' h hs.2 he.2 with ⟨q', bs, h1, h2, h3⟩ | h4
      · exact .inl ⟨q', bs, h1, by simpa [labelsOf] using h2, by simpa [repsOf] using h3⟩
      · exact .inr h4
    | rep l r =>
      simp only [track, runA, pstep] at h
      by_cases hr : r = (T.fire q l).2
      · simp only [hr, if_true] at h
        by_cases h2 : l = 2
        · subst h2
          simp only [if_true] at h
          cases body with
          | nil => simp only [runA, Option.some.injEq] at h; exact .inr h.symm
          | cons k' body' =>
            simp only [List.mem_cons, not_or] at he
            cases k' <;> simp [runA, pstep] at h
            exact absurd rfl he.2.1
        · simp only [h2, if_false] at h
          by_cases h3 : l < 2
          · simp only [h3, if_true] at h
            rcases ih _ p' h hs.2 he.2 with ⟨q', bs, e1, e2, e3⟩ | h4
            · refine .inl ⟨q', (l == 0) :: bs, e1, ?_, ?_⟩
              · simp only [labelsOf, List.filterMap_cons, List.map_cons, lbl_of_lt_two h3]
                exact congrArg _ e2
              · simp only [repsOf, List.filterMap_cons, Table.period, lbl_of_lt_two h3, hr,
                  List.cons_append]
                exact congrArg _ e3
            · exact .inr h4
          · simp [h3] at h
      · simp [hr] at h

/-! ## the loop with the pre-fix visiting rule (for the witness of the C02 defect) -/

/-- the rule before the `fix:` commit: a member is visited only when one of its variables was
assigned in this round — in the final round too -/
def visitedOld (_final : Bool) (s : St) (m : Member) : Bool :=
  m.isAuditor && (s.aud m.name).activated

def roundOld (c : Cfg) (final : Bool) (ts : Rat) (samples : List Sample) (s : St) : St :=
  if s.abort.isSome then s else
  c.members.foldl (fun st m => if visitedOld final st m then visit c final ts st m else st)
    (beginRound c ts samples s)

def stepEvOld (c : Cfg) (s : St) : Ev → St
  | .mood ts m =>
    if m = s.mood then s else
    let s1 := roundOld c false ts [] s
    if s1.abort.isSome then s1 else
    roundOld c false ts [] { s1 with moodStart := some ts, mood := m }
  | .sig ts xs => roundOld c false ts xs s

def runOld (c : Cfg) (evs : List Ev) (tEnd : Rat) : St :=
  let s1 := evs.foldl (stepEvOld c)
    (roundOld c false 0 [] { ({} : St) with moodStart := some 0, mood := "clear" })
  let s2 := roundOld c true tEnd [] { s1 with abort := none }
  { s2 with abort := s1.abort.or s2.abort }

/-! ## concrete material for the non-vacuity examples -/

/-- the table of `eventually` as dumped from `pkg/cmd/pred_fsm.go` -/
def exEventually : Table :=
  ⟨0, ["checking", "good", "bad"], [[1, 0, 2, 0], [1, 1, 1, 0], [2, 2, 2, 0]]⟩
/-- the table of `always` -/
def exAlways : Table :=
  ⟨0, ["checking", "good", "bad"], [[0, 2, 1, 0], [1, 1, 1, 0], [2, 2, 2, 0]]⟩

def exSig : VarName := ⟨"x", "s"⟩
def exSample (q : Rat) : List Sample := [{ typ := .scalar, v := exSig, val := .sc (.num q) }]

/-- two members: `watch` is active while the mood is red and expects `eventually [x s] > 100`
(mood-based activation, signal-only predicate); `sig` is active while `[x s] > 0`, computes
`y = [x s] + 1` and expects `always [x s] < 50` (signal-only throughout). -/
def exCfg : Cfg := { members := [
  { name := "watch", cond := .bin .eq (.var ⟨"", "mood"⟩) (.lit (.str "red")), assigns := [],
    expect := some (exEventually, .bin .gt (.var exSig) (.lit (.num 100))), watches := [] },
  { name := "sig", cond := .bin .gt (.var exSig) (.lit (.num 0)),
    assigns := [{ target := "y", expr := .bin .add (.var exSig) (.lit (.num 1)), mode := .single, n := 0 }],
    expect := some (exAlways, .bin .lt (.var exSig) (.lit (.num 50))), watches := [] }] }

/-- two periods for each member; the second period of each is still open when the play ends -/
def exEvs : List Ev :=
  [.sig 1 (exSample 5), .mood 2 "red", .sig 3 (exSample 200), .mood 4 "blue", .sig 5 (exSample 0),
   .mood 6 "red", .sig 7 (exSample 7)]

/-- the minimised C02 finding: one auditor mentioning only `[x s]` -/
def exSigOnly : Cfg := { members := [
  { name := "sig", cond := .bin .gt (.var exSig) (.lit (.num 0)), assigns := [],
    expect := some (exEventually, .bin .gt (.var exSig) (.lit (.num 100))), watches := [] }] }

/-- a `computes` expression that fails from time 10 on (`-mood` is a type error): evaluated in the
closing round, it aborts that round -/
def exAbortCfg : Cfg := { members := [
  { name := "sig", cond := .bin .gt (.var exSig) (.lit (.num 0)),
    assigns := [{ target := "y", mode := .single, n := 0,
                  expr := .ite (.bin .lt (.var ⟨"", "t"⟩) (.lit (.num 10))) (.lit (.num 1))
                            (.neg (.var ⟨"", "mood"⟩)) }],
    expect := some (exEventually, .bin .gt (.var exSig) (.lit (.num 100))), watches := [] }] }

end Shk.Aud
