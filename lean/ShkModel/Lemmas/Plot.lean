import ShkModel.Model.Plot
/-! Helper lemmas for C19: every loop of `plot.go` is the filter / map / numbering the property
talks about. Core only. -/
namespace Shk.Plot

/-! ### rational arithmetic of the margin -/

theorem widenLo_eq (lo hi : Rat) : widenLo lo hi = lo - (hi - lo) / 20 := by
  simp only [widenLo]; grind

theorem widenHi_eq (lo hi : Rat) : widenHi lo hi = hi + (hi - lo) / 20 := by
  simp only [widenHi]; grind

/-! ### curves of one box -/

theorem eventCount_cons (w : Watched) (ws : List Watched) :
    eventCount (w :: ws) = (if w.isEvent then 1 else 0) + eventCount ws := by
  simp only [eventCount, List.filter_cons]
  cases w.isEvent <;> simp <;> omega

theorem curvesLoop_eq (ws : List Watched) (k n : Nat) (plots : List Curve) :
    curvesLoop ws (k + 1) n plots =
      (plots ++ specCurves k (ws.filter (·.hasData)), n + eventCount (ws.filter (·.hasData))) := by
  induction ws generalizing k n plots with
  | nil => simp [curvesLoop, specCurves, eventCount]
  | cons w ws ih =>
    obtain ⟨a, s, kd, d⟩ := w
    cases d with
    | false => simpa [curvesLoop] using ih k n plots
    | true =>
      cases kd with
      | event =>
        simp only [curvesLoop, Bool.not_true, Bool.false_eq_true, if_false, List.filter_cons, if_true]
        rw [ih (k + 1) (n + 1)]
        simp [specCurves, curveOf, Watched.isEvent, eventCount_cons]
        omega
      | scalar =>
        simp only [curvesLoop, Bool.not_true, Bool.false_eq_true, if_false, List.filter_cons, if_true]
        rw [ih k n]
        simp [specCurves, curveOf, Watched.isEvent, eventCount_cons]

theorem groupOf_eq (m : Member) : groupOf m = specBox m := by
  have h := curvesLoop_eq m.watched 0 0 []
  simp only [Nat.zero_add, List.nil_append] at h
  simp [groupOf, specBox, withData, h]

theorem specCurves_length (k : Nat) (ws : List Watched) : (specCurves k ws).length = ws.length := by
  induction ws generalizing k with
  | nil => rfl
  | cons w ws ih => simp [specCurves, ih]

/-- the i-th curve belongs to the i-th variable; an event's lane is 1 + the number of event
curves in front of it -/
theorem specCurves_get (k : Nat) (ws : List Watched) (i : Nat) (h : i < ws.length) :
    (specCurves k ws)[i]'(by rw [specCurves_length]; exact h) =
      curveOf ws[i] (k + eventCount (ws.take i)) := by
  induction ws generalizing k i with
  | nil => simp at h
  | cons w ws ih =>
    cases i with
    | zero => simp [specCurves, eventCount]
    | succ i =>
      simp only [specCurves, List.getElem_cons_succ, List.take_succ_cons]
      rw [ih _ i (by simpa using h), eventCount_cons]
      cases w.isEvent <;> simp <;> congr 1 <;> omega

/-- a variable curve is never mistaken for an audit curve -/
theorem specCurves_no_audit (k : Nat) (ws : List Watched) :
    Curve.faces ∉ specCurves k ws ∧ Curve.verdicts ∉ specCurves k ws := by
  induction ws generalizing k with
  | nil => simp [specCurves]
  | cons w ws ih =>
    obtain ⟨a, s, kd, d⟩ := w
    cases kd <;> simp [specCurves, curveOf, ih]

/-! ### boxes -/

theorem groupsLoop_eq (ms : List Member) :
    groupsLoop ms = (ms.filter fun m => m.hasData && !m.onlyHelps).map specBox := by
  induction ms with
  | nil => rfl
  | cons m ms ih =>
    obtain ⟨nm, oh, d, w, au⟩ := m
    cases d <;> cases oh <;> simp [groupsLoop, ih, groupOf_eq]

/-! ### lanes of the action box -/

theorem countActive_eq (as : List Actor) : countActive as = (as.filter (·.hasData)).length := by
  induction as with
  | nil => rfl
  | cons a as ih =>
    obtain ⟨nm, d⟩ := a
    cases d <;> simp [countActive, ih]

theorem lanesLoop_eq (as : List Actor) (n : Nat) :
    lanesLoop as n = ((as.filter (·.hasData)).map (·.name)).zipIdx n := by
  induction as generalizing n with
  | nil => rfl
  | cons a as ih =>
    obtain ⟨nm, d⟩ := a
    cases d <;> simp [lanesLoop, ih]

/-! ### act lines -/

theorem actLoop_eq (xmin : Rat) (as : List ActStart) :
    actLoop xmin as = (as.filter fun a => xmin ≤ a.ts).map (·.ts) := by
  induction as with
  | nil => rfl
  | cons a as ih =>
    by_cases h : a.ts < xmin
    · have : ¬ xmin ≤ a.ts := Rat.not_le.mpr h
      simp [actLoop, h, this, ih]
    · have : xmin ≤ a.ts := Rat.not_lt.mp h
      simp [actLoop, h, this, ih]

/-! ### mood bands -/

theorem bandsLoop_eq (xmin xmax : Rat) (ps : List Period) :
    bandsLoop xmin xmax ps = (ps.filter fun p => p.meets xmin xmax).map (specBand xmin xmax) := by
  induction ps with
  | nil => rfl
  | cons p ps ih =>
    by_cases h1 : xmax ≤ p.start
    · have : ¬ p.start < xmax := Rat.not_lt.mpr h1
      simp [bandsLoop, h1, Period.meets, this, ih]
    · have h1' : p.start < xmax := Rat.not_le.mp h1
      by_cases h2 : p.stop ≤ xmin
      · have : ¬ xmin < p.stop := Rat.not_lt.mpr h2
        simp [bandsLoop, h2, Period.meets, this, ih]
      · have h2' : xmin < p.stop := Rat.not_le.mp h2
        have e1 : (if xmin ≤ p.start then Edge.at p.start else Edge.left) =
            (if p.start < xmin then Edge.left else Edge.at p.start) := by
          by_cases h : xmin ≤ p.start
          · simp [h, Rat.not_lt.mpr h]
          · simp [h, Rat.not_le.mp h]
        have e2 : (if p.stop ≤ xmax then Edge.at p.stop else Edge.right) =
            (if xmax < p.stop then Edge.right else Edge.at p.stop) := by
          by_cases h : p.stop ≤ xmax
          · simp [h, Rat.not_lt.mpr h]
          · simp [h, Rat.not_le.mp h]
        simp [bandsLoop, h1, h2, Period.meets, h1', h2', ih, specBand, e1, e2]

/-! ### one script -/

theorem subPlots_eq (f : Facts) (lo hi : Rat) : subPlots f lo hi = specSub f lo hi := by
  have hl : (if countActive f.cast = 0 then [] else lanesLoop f.cast 1) = (activeActors f).zipIdx 1 := by
    rw [countActive_eq, lanesLoop_eq]
    by_cases h : (f.cast.filter (·.hasData)).length = 0
    · have : f.cast.filter (·.hasData) = [] := List.eq_nil_of_length_eq_zero h
      simp [activeActors, this]
    · simp [h, activeActors]
  simp only [subPlots, specSub]
  rw [hl]
  simp only [widenLo_eq, widenHi_eq, groupsLoop_eq, actLoop_eq, bandsLoop_eq,
    countActive_eq, activeActors, List.length_map]
  congr 1
  omega

/-! ### the time range of the result -/

theorem sanitize_fst_le (mn mx : Rat) : (sanitize mn mx).1 ≤ 0 := by
  simp only [sanitize, clampLo]
  split <;> grind

theorem sanitize_width (mn mx : Rat) : (sanitize mn mx).1 + 1 ≤ (sanitize mn mx).2 := by
  simp only [sanitize, atLeastOne]
  split <;> grind

theorem sanitize_covers (mn mx t : Rat) (h1 : mn ≤ t) (h2 : t ≤ mx) :
    (sanitize mn mx).1 ≤ t ∧ t ≤ (sanitize mn mx).2 := by
  simp only [sanitize, atLeastOne, clampLo, clampHi, swapLo, swapHi]
  constructor <;> (repeat' split) <;> grind

/-! ### `expandTimeRange` over all collected instants -/

/-- what the two bounds are after some instants: both unset, or both set, ordered, and around
every instant seen -/
def RangeInv (seen : List Rat) (r : Option Rat × Option Rat) : Prop :=
  match r with
  | (none, none) => seen = []
  | (some mn, some mx) => mn ≤ mx ∧ ∀ t ∈ seen, mn ≤ t ∧ t ≤ mx
  | _ => False

theorem expand_inv (seen : List Rat) (r : Option Rat × Option Rat) (t : Rat) (h : RangeInv seen r) :
    RangeInv (seen ++ [t]) (expand r t) := by
  obtain ⟨a, b⟩ := r
  cases a <;> cases b <;> simp only [RangeInv] at h
  · subst h
    simp only [expand, RangeInv, List.nil_append, List.mem_singleton]
    exact ⟨Rat.le_refl, fun u hu => by subst hu; exact ⟨Rat.le_refl, Rat.le_refl⟩⟩
  · rename_i mn mx
    obtain ⟨h1, h2⟩ := h
    simp only [expand]
    by_cases ha : t < mn <;> by_cases hb : mx < t <;> simp only [ha, hb, if_true, if_false, RangeInv] <;>
      refine ⟨by grind, fun u hu => ?_⟩ <;>
      (rcases List.mem_append.mp hu with hu | hu
       · have := h2 u hu; constructor <;> grind
       · simp only [List.mem_singleton] at hu; subst hu; constructor <;> grind)

theorem foldl_expand_inv (ts seen : List Rat) (r : Option Rat × Option Rat) (h : RangeInv seen r) :
    RangeInv (seen ++ ts) (ts.foldl expand r) := by
  induction ts generalizing seen r with
  | nil => simpa using h
  | cons t ts ih =>
    have := ih (seen ++ [t]) (expand r t) (expand_inv seen r t h)
    simpa using this

theorem rangeOf_cases (ts : List Rat) :
    (ts = [] ∧ rangeOf ts = sanitize 0 0) ∨
    (∃ mn mx, rangeOf ts = sanitize mn mx ∧ mn ≤ mx ∧ ∀ t ∈ ts, mn ≤ t ∧ t ≤ mx) := by
  have h := foldl_expand_inv ts [] (none, none) (by simp [RangeInv])
  simp only [List.nil_append] at h
  generalize hr : ts.foldl expand (none, none) = r at h
  obtain ⟨a, b⟩ := r
  cases a <;> cases b <;> simp only [RangeInv] at h
  · left; subst h; exact ⟨rfl, by simp [rangeOf, expand]⟩
  · right; rename_i mn mx
    exact ⟨mn, mx, by simp [rangeOf, hr], h.1, h.2⟩

/-! ### the start of the zoomed plot -/

/-- one round of the search loop on the starts of the repeated act only -/
def repStep (st : Option Rat × Option Rat) (t : Rat) : Option Rat × Option Rat := (st.2, some t)

theorem repeatLoop_eq (n : Nat) (as : List ActStart) (st : Option Rat × Option Rat) :
    repeatLoop n as st = (((as.filter fun a => a.num = n).map (·.ts))).foldl repStep st := by
  induction as generalizing st with
  | nil => rfl
  | cons a as ih =>
    by_cases h : a.num = n
    · simp [repeatLoop, h, ih, repStep]
    · simp [repeatLoop, h, ih]

theorem foldl_repStep_concat (l : List Rat) (x : Rat) (st : Option Rat × Option Rat) :
    (l ++ [x]).foldl repStep st = ((l.foldl repStep st).2, some x) := by
  simp [List.foldl_append, repStep]

/-! ### mood periods recorded by the audition -/

theorem mem_moodStep_periods (st : MoodState) (c : Rat × String) (p : Period) (h : p ∈ st.periods) :
    p ∈ (moodStep st c).periods := by
  simp only [moodStep]
  split
  · exact h
  · simp only
    split
    · exact List.mem_append_left _ h
    · exact h

theorem mem_foldl_moodStep (cs : List (Rat × String)) (st : MoodState) (p : Period) (h : p ∈ st.periods) :
    p ∈ (cs.foldl moodStep st).periods := by
  induction cs generalizing st with
  | nil => exact h
  | cons c cs ih => exact ih _ (mem_moodStep_periods st c p h)

theorem mem_moodFinal (st : MoodState) (e : Rat) (p : Period) (h : p ∈ st.periods) : p ∈ moodFinal st e := by
  simp only [moodFinal]
  split
  · exact List.mem_append_left _ h
  · exact h

/-- a period that is open at instant `x`, with every further change later than `x`, is recorded
with its own start and an end after `x` -/
theorem open_period_recorded (cs : List (Rat × String)) (st : MoodState) (x e : Rat)
    (hcur : st.cur ≠ "clear") (hx : x < e) (hlate : ∀ c ∈ cs, x < c.1) :
    ∃ p ∈ moodFinal (cs.foldl moodStep st) e, p.mood = st.cur ∧ p.start = st.start ∧ x < p.stop := by
  induction cs generalizing st with
  | nil =>
    refine ⟨⟨st.start, e, st.cur⟩, ?_, rfl, rfl, hx⟩
    simp [moodFinal, hcur]
  | cons c cs ih =>
    simp only [List.foldl_cons]
    by_cases hc : c.2 = st.cur
    · have : moodStep st c = st := by simp [moodStep, hc]
      rw [this]
      exact ih st hcur (fun d hd => hlate d (List.mem_cons_of_mem _ hd))
    · refine ⟨⟨st.start, c.1, st.cur⟩, ?_, rfl, rfl, hlate c (List.mem_cons_self)⟩
      apply mem_moodFinal
      apply mem_foldl_moodStep
      simp [moodStep, hc, hcur]

theorem moodAt_cons_le (cur : String) (c : Rat × String) (cs : List (Rat × String)) (x : Rat) (h : c.1 ≤ x) :
    moodAt cur (c :: cs) x = moodAt c.2 cs x := by
  simp only [moodAt, List.filter_cons, h, decide_true, if_true]
  cases hf : cs.filter (fun c => decide (c.1 ≤ x)) with
  | nil => simp
  | cons d ds =>
    cases hl : (d :: ds).getLast? with
    | none => simp at hl
    | some y => simp [hl]

theorem moodAt_all_late (cur : String) (cs : List (Rat × String)) (x : Rat) (h : ∀ c ∈ cs, x < c.1) :
    moodAt cur cs x = cur := by
  have : cs.filter (fun c => decide (c.1 ≤ x)) = [] := by
    apply List.filter_eq_nil_iff.mpr
    intro c hc
    have := h c hc
    simp [Rat.not_le.mpr this]
  simp [moodAt, this]

/-- the induction behind `periods_cover` -/
theorem periods_cover_from (cs : List (Rat × String)) (st : MoodState) (x e : Rat)
    (hs : cs.Pairwise fun a b => a.1 ≤ b.1) (hx : x < e)
    (hst : st.cur ≠ "clear" → st.start ≤ x) (hm : moodAt st.cur cs x ≠ "clear") :
    ∃ p ∈ moodFinal (cs.foldl moodStep st) e, p.mood = moodAt st.cur cs x ∧ p.start ≤ x ∧ x < p.stop := by
  induction cs generalizing st with
  | nil =>
    have hc : st.cur ≠ "clear" := by simpa [moodAt] using hm
    obtain ⟨p, hp, h1, h2, h3⟩ := open_period_recorded [] st x e hc hx (by simp)
    exact ⟨p, hp, by simpa [moodAt] using h1, by rw [h2]; exact hst hc, h3⟩
  | cons c cs ih =>
    obtain ⟨hc1, hs'⟩ := List.pairwise_cons.mp hs
    by_cases hle : c.1 ≤ x
    · rw [moodAt_cons_le _ _ _ _ hle] at hm ⊢
      simp only [List.foldl_cons]
      by_cases hc : c.2 = st.cur
      · have e1 : moodStep st c = st := by simp [moodStep, hc]
        rw [e1]
        have := ih st hs' hst (by rw [← hc]; exact hm)
        rw [← hc] at this
        exact this
      · have e1 : (moodStep st c).cur = c.2 := by simp [moodStep, hc]
        have e2 : (moodStep st c).start = c.1 := by simp [moodStep, hc]
        have := ih (moodStep st c) hs' (by intro _; rw [e2]; exact hle) (by rw [e1]; exact hm)
        rw [e1] at this
        exact this
    · have hlt : x < c.1 := Rat.not_le.mp hle
      have hlate : ∀ d ∈ c :: cs, x < d.1 := by
        intro d hd
        rcases List.mem_cons.mp hd with rfl | hd
        · exact hlt
        · have := hc1 d hd; grind
      rw [moodAt_all_late _ _ _ hlate] at hm ⊢
      obtain ⟨p, hp, h1, h2, h3⟩ := open_period_recorded (c :: cs) st x e hm hx hlate
      exact ⟨p, hp, h1, by rw [h2]; exact hst hm, h3⟩

end Shk.Plot
