import ShkModel.Lemmas.StopperSpec
/-! Every entry a step appends is allowed by `evOk`. -/
namespace Shk.Stopper

theorem rank_six {sp : SP} (h : sp.rank = 6) : sp = .fin := by
  cases sp <;> simp at h ⊢

theorem Inv.kindOf {cap s} (I : Inv cap s) {i : Nat} {t : Thread} (ht : s.threads[i]? = some t) :
    Shk.Stopper.kindOf s.log i = some t.kind.code := by
  obtain ⟨e, h1, h2, _⟩ := (I.thr i t ht).call
  simp [Shk.Stopper.kindOf, h1, h2]

theorem Inv.callQ_false {cap s} (I : Inv cap s) {i : Nat} {t : Thread} (ht : s.threads[i]? = some t)
    (ha : wasAccepted t = true) : callQ s.log i = false := by
  obtain ⟨e, h1, _, h3⟩ := (I.thr i t ht).call
  simp [callQ, h1, h3 ha]

theorem Inv.flagsOk {cap s} (I : Inv cap s) (e : Ev)
    (hq : s.quiescing = true → e.q = true) (hs : s.sClosed = true → e.s = true) (hd : s.dClosed = true → e.d = true)
    (n1 : e.d = true → e.s = true) (n2 : e.s = true → e.q = true) : Shk.Stopper.flagsOk s.log e = true := by
  simp only [Shk.Stopper.flagsOk, Bool.and_eq_true, Bool.or_eq_true, Bool.not_eq_true', List.all_eq_true]
  refine ⟨⟨?_, ?_⟩, ?_⟩
  · cases h : e.d
    · exact Or.inl rfl
    · exact Or.inr (n1 h)
  · cases h : e.s
    · exact Or.inl rfl
    · exact Or.inr (n2 h)
  · intro p hp
    obtain ⟨f1, f2, f3, _⟩ := I.flags p hp
    refine ⟨⟨?_, ?_⟩, ?_⟩
    · cases h : p.q
      · exact Or.inl rfl
      · exact Or.inr (hq (f1 h))
    · cases h : p.s
      · exact Or.inl rfl
      · exact Or.inr (hs (f2 h))
    · cases h : p.d
      · exact Or.inl rfl
      · exact Or.inr (hd (f3 h))

theorem Inv.globalOk_intro {cap s} (I : Inv cap s) (e : Ev)
    (hq : s.quiescing = true → e.q = true) (hs : s.sClosed = true → e.s = true) (hd : s.dClosed = true → e.d = true)
    (n1 : e.d = true → e.s = true) (n2 : e.s = true → e.q = true)
    (h0 : e.s = true → s.numTasks = 0)
    (h5 : e.d = true → 5 ≤ s.sp.rank ∧ calledPrefix s = s.closers)
    (hn : e.n = s.sem)
    (hb : Shk.Stopper.cnt (s.log ++ [e]) .bodyStart ≤ Shk.Stopper.cnt s.log .bodyEnd + s.sem) :
    globalOk cap s.log e = true := by
  have hcap : s.sem ≤ cap := I.capEq ▸ I.ph.semcap
  simp only [globalOk, Bool.and_eq_true, Bool.or_eq_true, Bool.not_eq_true', decide_eq_true_eq]
  refine ⟨⟨⟨⟨⟨I.flagsOk e hq hs hd n1 n2, ?_⟩, ?_⟩, ?_⟩, ?_⟩, ?_⟩
  · cases h : e.s
    · exact Or.inl rfl
    · exact Or.inr (I.drained (h0 h))
  · cases h : e.d
    · exact Or.inl rfl
    · exact Or.inr ⟨I.workersDone (h5 h).1, I.closersDone (h5 h).2⟩
  · omega
  · omega
  · cases h : e.s
    · exact Or.inl rfl
    · right; have := I.sem_upper (h0 h); omega

/-- an entry sampled in the current state passes the global rules (a limited body start needs its slot, see below) -/
theorem Inv.globalOk_ev {cap s} (I : Inv cap s) (k : EK) (i c v : Nat)
    (hb : Shk.Stopper.cnt (s.log ++ [s.ev k i c v]) .bodyStart ≤ Shk.Stopper.cnt s.log .bodyEnd + s.sem) :
    globalOk cap s.log (s.ev k i c v) = true := by
  refine I.globalOk_intro _ (fun h => h) (fun h => h) (fun h => h) I.ph.d_s I.ph.s_q I.ph.s_tasks ?_ rfl hb
  intro hd
  have h6 : s.sp.rank = 6 := by
    have := I.ph.dclosed
    simp only [St.ev] at hd
    rw [hd] at this; simpa using this
  refine ⟨by omega, ?_⟩
  simp [calledPrefix, rank_six h6]

theorem Inv.globalOk_ev' {cap s} (I : Inv cap s) (k : EK) (i c v : Nat) (hk : (k == .bodyStart && isLimCode c) = false) :
    globalOk cap s.log (s.ev k i c v) = true := by
  apply I.globalOk_ev
  have := I.sem_lower
  simp only [cnt_append, cnt_cons, cnt_nil, St.ev, hk]
  simp; omega

theorem nodup_take_not_mem {l : List Nat} (hn : l.Nodup) {k c : Nat} (hc : l[k]? = some c) : c ∉ l.take k := by
  induction l generalizing k with
  | nil => simp at hc
  | cons x xs ih =>
    cases k with
    | zero => simp
    | succ k =>
      simp at hc
      have hn' := List.nodup_cons.mp hn
      simp only [List.take_succ_cons, List.mem_cons, not_or]
      refine ⟨?_, ih hn'.2 hc⟩
      intro e; subst e
      exact hn'.1 (List.mem_of_getElem? hc)

/-! ### rules by kind, for the entries a call makes about itself -/

theorem Inv.sClosed_false_of_inTask {cap s} (I : Inv cap s) {i : Nat} {t : Thread} (ht : s.threads[i]? = some t)
    (h : inTask t = true) : s.sClosed = false := by
  cases hs : s.sClosed
  · rfl
  · have := I.not_inTask (I.ph.s_tasks hs) ht
    rw [h] at this; cases this

theorem hasV_false_of_retv {l : List Ev} {i : Nat} {pc : Pc} (h : ∀ v, hasV l .ret i v = true → v = retCode pc) (v : Nat)
    (hv : v ≠ retCode pc) : hasV l .ret i v = false := by
  apply Bool.eq_false_iff.mpr
  intro hh; exact hv (h v hh)

theorem Inv.ok_bodyStart {cap s} (I : Inv cap s) {i : Nat} {t : Thread} (ht : s.threads[i]? = some t)
    (hk : t.kind.isTask = true) (hpc : t.pc = .accepted) :
    evOk cap s.log (s.ev .bodyStart i t.kind.code 0) = true := by
  have ti := I.thr i t ht
  have hns : s.sClosed = false := I.sClosed_false_of_inTask ht (by simp [inTask, hpc])
  have hg : globalOk cap s.log (s.ev .bodyStart i t.kind.code 0) = true := by
    apply I.globalOk_ev
    simp only [cnt_append, cnt_cons, cnt_nil, St.ev, isLimCode_code]
    cases hl : t.kind.isLimited
    · have := I.sem_lower; simp; omega
    · have := I.sem_lower_start ht hl hpc; simp; omega
  have h1 : has s.log .bodyStart i = false := by rw [ti.bs]; simp [started, hpc]
  have h2 : hasV s.log .ret i 1 = false := hasV_false_of_retv ti.retv 1 (by simp [retCode, hpc])
  have h3 : hasV s.log .ret i 2 = false := hasV_false_of_retv ti.retv 2 (by simp [retCode, hpc])
  have h4 : callQ s.log i = false := I.callQ_false ht (by simp [wasAccepted, hk, hpc])
  simp only [evOk, hg, Bool.true_and]
  simp [kindOk, St.ev, I.kindOf ht, isTaskCode_code, hk, h1, h2, h3, h4, hns]

theorem Inv.ok_bodyEnd {cap s} (I : Inv cap s) {i : Nat} {t : Thread} (ht : s.threads[i]? = some t)
    (hk : t.kind.isTask = true) (hpc : t.pc = .running) :
    evOk cap s.log (s.ev .bodyEnd i t.kind.code 0) = true := by
  have ti := I.thr i t ht
  have hns : s.sClosed = false := I.sClosed_false_of_inTask ht (by simp [inTask, hpc])
  have hg := I.globalOk_ev' .bodyEnd i t.kind.code 0 (by simp)
  have h1 : has s.log .bodyStart i = true := by rw [ti.bs]; simp [started, hk, hpc]
  have h2 : has s.log .bodyEnd i = false := by rw [ti.be]; simp [bodyDone, hpc]
  simp only [evOk, hg, Bool.true_and]
  simp [kindOk, St.ev, I.kindOf ht, h1, h2, hns]

theorem Inv.ok_wStart {cap s} (I : Inv cap s) {i : Nat} {t : Thread} (ht : s.threads[i]? = some t)
    (hk : t.kind = .worker) (hpc : t.pc = .wAdded) :
    evOk cap s.log (s.ev .wStart i t.kind.code 0) = true := by
  have ti := I.thr i t ht
  have hg := I.globalOk_ev' .wStart i t.kind.code 0 (by simp)
  have h1 : has s.log .wStart i = false := by rw [ti.ws]; simp [wStarted, hpc]
  simp only [evOk, hg, Bool.true_and]
  simp [kindOk, St.ev, I.kindOf ht, h1, hk, Kind.code]

theorem Inv.ok_wEnd {cap s} (I : Inv cap s) {i : Nat} {t : Thread} (ht : s.threads[i]? = some t)
    (hk : t.kind = .worker) (hpc : t.pc = .wRunning) :
    evOk cap s.log (s.ev .wEnd i t.kind.code 0) = true := by
  have ti := I.thr i t ht
  have hg := I.globalOk_ev' .wEnd i t.kind.code 0 (by simp)
  have h1 : has s.log .wStart i = true := by rw [ti.ws]; simp [wStarted, hk, hpc]
  have h2 : has s.log .wEnd i = false := by rw [ti.we]; simp [wDone, hpc]
  simp only [evOk, hg, Bool.true_and]
  simp [kindOk, St.ev, I.kindOf ht, h1, h2]

/-- the immediate call of a closer added after the stop channel closed -/
theorem Inv.ok_closerImm {cap s} (I : Inv cap s) {i : Nat} {t : Thread} (ht : s.threads[i]? = some t)
    (hk : t.kind = .closer) (hpc : t.pc = .cImm) (hs : s.sClosed = true) :
    evOk cap s.log (s.ev .closer i t.kind.code 0) = true := by
  have ti := I.thr i t ht
  have hg := I.globalOk_ev' .closer i t.kind.code 0 (by simp)
  have hfresh := I.lists.fresh i t ht hk (Or.inr hpc)
  have h1 : has s.log .closer i = false := by rw [I.kinv.imm i t ht hk hfresh, hpc]; rfl
  have h2 : has s.log .ret i = false := by
    rw [ti.ret]
    cases hr : t.ret
    · rfl
    · have := ti.retable hr; simp [hk, hpc, retVal] at this
  simp only [evOk, hg, Bool.true_and]
  simp [kindOk, St.ev, I.kindOf ht, h1, h2, hk, Kind.code, hs]

/-- a registered closer called by the effective Stop -/
theorem Inv.ok_closerLoop {cap s} (I : Inv cap s) {k c : Nat} (hsp : s.sp = .closers k) (hc : s.closers[k]? = some c) :
    evOk cap s.log (s.ev .closer c 5 0) = true := by
  have hm : c ∈ s.closers := List.mem_of_getElem? hc
  obtain ⟨t, ht, hk, hpc⟩ := I.lists.closers_thr c hm
  have hg := I.globalOk_ev' .closer c 5 0 (by simp)
  have hs : s.sClosed = true := by rw [I.ph.sclosed, hsp]; simp
  have hd : s.dClosed = false := by rw [I.ph.dclosed, hsp]; simp
  have h1 : has s.log .closer c = false := by
    rw [I.kinv.reg c hm]
    simp only [calledPrefix, hsp, decide_eq_false_iff_not]
    exact nodup_take_not_mem I.lists.nodup hc
  have hw := I.workersDone (by rw [hsp]; simp)
  have hkind : Shk.Stopper.kindOf s.log c = some 5 := by rw [I.kindOf ht, hk]; rfl
  simp only [evOk, hg, Bool.true_and]
  simp [kindOk, St.ev, hkind, h1, hs, hd, hw]

theorem Inv.ok_cancelOwn {cap s} (I : Inv cap s) {i : Nat} {t : Thread} (ht : s.threads[i]? = some t)
    (hk : t.kind = .wcq ∨ t.kind = .wcs) :
    evOk cap s.log (s.ev .cancelled i t.kind.code 0) = true := by
  have hg := I.globalOk_ev' .cancelled i t.kind.code 0 (by simp)
  simp only [evOk, hg, Bool.true_and]
  rcases hk with hk | hk <;> simp [kindOk, St.ev, I.kindOf ht, hk, Kind.code]

theorem Inv.ok_fin {cap s} (I : Inv cap s) {i : Nat} {t : Thread} (ht : s.threads[i]? = some t)
    (hk : t.kind = .probe) :
    evOk cap s.log (s.ev .fin i t.kind.code 0) = true := by
  have hg := I.globalOk_ev' .fin i t.kind.code 0 (by simp)
  have cq : ∀ (c : Nat) (kd : Kind), (kd = .wcq ∨ kd = .wcs) → c = kd.code →
      ((kd = .wcq → s.quiescing = true) ∧ (kd = .wcs → s.sClosed = true)) →
      allHave s.log (fun p => p.k == .ret && p.c == c) .cancelled = true := by
    intro c kd hkd hcode hclosed
    rw [allHave_iff]
    intro p hp hsel
    simp at hsel
    obtain ⟨tp, htp, hc, ti⟩ := I.thread_of hp (by rw [hsel.1]; decide)
    have hkind : tp.kind = kd := code_inj (by rw [hc, hsel.2, hcode])
    have hret : tp.ret = true := by rw [← ti.ret, ← hsel.1]; exact has_of_mem hp
    have hable := ti.retable hret
    have hni : tp.pc ≠ .init := by
      intro h0; rw [h0, hkind] at hable
      rcases hkd with h | h <;> simp [h, retVal] at hable
    have ci := I.cancel p.id tp htp
    rcases hkd with h | h
    · rcases ci.q (hkind.trans h) hni with g | ⟨_, g⟩
      · exact g
      · rw [hclosed.1 h] at g; cases g
    · rcases ci.sc (hkind.trans h) hni with g | ⟨_, g⟩
      · exact g
      · rw [hclosed.2 h] at g; cases g
  have h6 : s.quiescing = true → allHave s.log (fun p => p.k == .ret && p.c == 6) .cancelled = true :=
    fun hq => cq 6 .wcq (Or.inl rfl) rfl (And.intro (fun _ => hq) (fun h => by cases h))
  have h7 : s.sClosed = true → allHave s.log (fun p => p.k == .ret && p.c == 7) .cancelled = true :=
    fun hq => cq 7 .wcs (Or.inr rfl) rfl (And.intro (fun h => by cases h) (fun _ => hq))
  simp only [evOk, hg, Bool.true_and]
  simp only [kindOk, St.ev, I.kindOf ht, hk, Kind.code, Bool.true_and]
  cases hq : s.quiescing <;> cases hs : s.sClosed <;> simp_all

end Shk.Stopper
