import ShkModel.Model.Regex
/-! Lemmas about the regexp matcher: every listed way is a match (soundness), every match is
listed (completeness), where capture registers come from. -/
namespace Shk.Re

/-! ### Star -/

theorem Star.single {P : Nat → Nat → Prop} {i j : Nat} (h : P i j) : Star P i j :=
  .cons h (.nil j)

theorem Star.trans {P : Nat → Nat → Prop} {i k j : Nat} (h1 : Star P i k) (h2 : Star P k j) :
    Star P i j := by
  induction h1 with
  | nil _ => exact h2
  | cons h _ ih => exact .cons h (ih h2)

theorem Star.le {P : Nat → Nat → Prop} (hP : ∀ a b, P a b → a ≤ b) {i j : Nat}
    (h : Star P i j) : i ≤ j := by
  induction h with
  | nil _ => exact Nat.le_refl _
  | cons h _ ih => exact Nat.le_trans (hP _ _ h) ih

theorem Star.bound {P : Nat → Nat → Prop} {L : Nat} (hP : ∀ a b, P a b → a ≤ L → b ≤ L)
    {i j : Nat} (h : Star P i j) : i ≤ L → j ≤ L := by
  induction h with
  | nil _ => exact id
  | cons h _ ih => exact fun hi => ih (hP _ _ h hi)

/-- pieces that all consume something -/
inductive StarNE (P : Nat → Nat → Prop) : Nat → Nat → Prop
  | nil (i : Nat) : StarNE P i i
  | cons {i k j : Nat} : i < k → P i k → StarNE P k j → StarNE P i j

theorem Star.toNE {P : Nat → Nat → Prop} (hP : ∀ a b, P a b → a ≤ b) {i j : Nat}
    (h : Star P i j) : StarNE P i j := by
  induction h with
  | nil _ => exact .nil _
  | @cons i k j h _ ih =>
    by_cases hik : i < k
    · exact .cons hik h ih
    · have : i = k := Nat.le_antisymm (hP _ _ h) (Nat.le_of_not_lt hik)
      subst this; exact ih

/-! ### positions -/

theorem chrAt_lt {s : List Char} {p : Nat → Bool} {i j : Nat} (h : chrAt s p i j) :
    j = i + 1 ∧ i < s.length := by
  obtain ⟨hj, c, hc, _⟩ := h
  exact ⟨hj, (List.getElem?_eq_some_iff.mp hc).1⟩

theorem M_le (s : List Char) : ∀ (r : Re) (i j : Nat), M s r i j → i ≤ j := by
  intro r
  induction r with
  | empty => intro i j h; simp only [M] at h; omega
  | chr n => intro i j h; have := chrAt_lt h; omega
  | cls rs => intro i j h; have := chrAt_lt h; omega
  | any => intro i j h; have := chrAt_lt h; omega
  | anyNoNL => intro i j h; have := chrAt_lt h; omega
  | cat a b iha ihb =>
    intro i j h; obtain ⟨k, h1, h2⟩ := h
    exact Nat.le_trans (iha _ _ h1) (ihb _ _ h2)
  | alt a b iha ihb => intro i j h; exact h.elim (iha _ _) (ihb _ _)
  | star g r ih => intro i j h; exact Star.le ih h
  | plus g r ih =>
    intro i j h; obtain ⟨k, h1, h2⟩ := h
    exact Nat.le_trans (ih _ _ h1) (Star.le ih h2)
  | opt g r ih => intro i j h; exact h.elim (fun e => by omega) (ih _ _)
  | group _ _ r ih => intro i j h; exact ih _ _ h
  | bot => intro i j h; simp only [M] at h; omega
  | eot => intro i j h; simp only [M] at h; omega

theorem M_bound (s : List Char) : ∀ (r : Re) (i j : Nat), M s r i j → i ≤ s.length → j ≤ s.length := by
  intro r
  induction r with
  | empty => intro i j h; simp only [M] at h; omega
  | chr n => intro i j h; have := chrAt_lt h; omega
  | cls rs => intro i j h; have := chrAt_lt h; omega
  | any => intro i j h; have := chrAt_lt h; omega
  | anyNoNL => intro i j h; have := chrAt_lt h; omega
  | cat a b iha ihb =>
    intro i j h hi; obtain ⟨k, h1, h2⟩ := h
    exact ihb _ _ h2 (iha _ _ h1 hi)
  | alt a b iha ihb => intro i j h; exact h.elim (iha _ _) (ihb _ _)
  | star g r ih => intro i j h; exact Star.bound ih h
  | plus g r ih =>
    intro i j h hi; obtain ⟨k, h1, h2⟩ := h
    exact Star.bound ih h2 (ih _ _ h1 hi)
  | opt g r ih => intro i j h; exact h.elim (fun e => by omega) (ih _ _)
  | group _ _ r ih => intro i j h; exact ih _ _ h
  | bot => intro i j h; simp only [M] at h; omega
  | eot => intro i j h; simp only [M] at h; omega

/-! ### the repetition loop -/

theorem self_mem_starN (step : St → List St) (g : Bool) (n : Nat) (st : St) :
    st ∈ starN step g n st := by
  cases n with
  | zero => simp [starN]
  | succ n => cases g <;> simp [starN]

theorem mem_starN_succ {step : St → List St} {g : Bool} {n : Nat} {st t : St} :
    t ∈ starN step g (n + 1) st ↔
      t = st ∨ ∃ u, (u ∈ step st ∧ st.pos < u.pos) ∧ t ∈ starN step g n u := by
  cases g
  · simp [starN, List.mem_flatMap, List.mem_filter]
  · simp [starN, List.mem_flatMap, List.mem_filter]
    constructor <;> intro h <;> exact h.symm

/-- whatever relation holds along a step and is reflexive and transitive holds along the loop -/
theorem starN_rel {R : St → St → Prop} (hr : ∀ a, R a a) (ht : ∀ a b c, R a b → R b c → R a c)
    {step : St → List St} (hs : ∀ u t, t ∈ step u → R u t) (g : Bool) :
    ∀ (n : Nat) (st t : St), t ∈ starN step g n st → R st t := by
  intro n
  induction n with
  | zero => intro st t h; simp [starN] at h; subst h; exact hr _
  | succ n ih =>
    intro st t h
    rcases mem_starN_succ.mp h with h | ⟨u, ⟨hu, _⟩, htu⟩
    · subst h; exact hr _
    · exact ht _ _ _ (hs _ _ hu) (ih _ _ htu)

theorem starN_complete {P : Nat → Nat → Prop} {L : Nat} {step : St → List St} (g : Bool)
    (hc : ∀ a b, P a b → a ≤ L → ∀ u : St, u.pos = a → ∃ t ∈ step u, t.pos = b)
    (hb : ∀ a b, P a b → a ≤ L → b ≤ L) {i j : Nat} (h : StarNE P i j) :
    ∀ (n : Nat) (st : St), st.pos = i → i ≤ L → L - i ≤ n → ∃ t ∈ starN step g n st, t.pos = j := by
  induction h with
  | nil i => intro n st hst _ _; exact ⟨st, self_mem_starN _ _ _ _, hst⟩
  | @cons i k j hik hP _ ih =>
    intro n st hst hi hn
    have hk : k ≤ L := hb _ _ hP hi
    obtain ⟨m, rfl⟩ : ∃ m, n = m + 1 := ⟨n - 1, by omega⟩
    obtain ⟨u, hu, hupos⟩ := hc _ _ hP hi st hst
    obtain ⟨t, ht, htpos⟩ := ih m u hupos hk (by omega)
    exact ⟨t, mem_starN_succ.mpr (Or.inr ⟨u, ⟨hu, by omega⟩, ht⟩), htpos⟩

/-! ### soundness: every listed way is a match -/

theorem mem_stepChar {s : List Char} {p : Nat → Bool} {st t : St} :
    t ∈ stepChar s p st ↔ t = { st with pos := st.pos + 1 } ∧ ∃ c, s[st.pos]? = some c ∧ p c.toNat = true := by
  unfold stepChar
  cases hc : s[st.pos]? with
  | none => simp
  | some c =>
    by_cases hp : p c.toNat = true <;> simp [hp]

theorem stepChar_sound {s : List Char} {p : Nat → Bool} {st t : St} (h : t ∈ stepChar s p st) :
    chrAt s p st.pos t.pos ∧ t.caps = st.caps := by
  obtain ⟨rfl, c, hc, hp⟩ := mem_stepChar.mp h
  exact ⟨⟨rfl, c, hc, hp⟩, rfl⟩

theorem ms_sound (s : List Char) : ∀ (r : Re) (st t : St), t ∈ ms s r st → M s r st.pos t.pos := by
  intro r
  induction r with
  | empty => intro st t h; simp [ms] at h; subst h; simp [M]
  | chr n => intro st t h; exact (stepChar_sound h).1
  | cls rs => intro st t h; exact (stepChar_sound h).1
  | any => intro st t h; exact (stepChar_sound h).1
  | anyNoNL => intro st t h; exact (stepChar_sound h).1
  | cat a b iha ihb =>
    intro st t h
    simp only [ms, List.mem_flatMap] at h
    obtain ⟨u, hu, ht⟩ := h
    exact ⟨u.pos, iha _ _ hu, ihb _ _ ht⟩
  | alt a b iha ihb =>
    intro st t h
    simp only [ms, List.mem_append] at h
    exact h.elim (fun h => Or.inl (iha _ _ h)) (fun h => Or.inr (ihb _ _ h))
  | star g r ih =>
    intro st t h
    simp only [ms] at h
    exact starN_rel (R := fun a b => Star (M s r) a.pos b.pos) (fun _ => .nil _)
      (fun _ _ _ => Star.trans) (fun u t h => Star.single (ih u t h)) g _ _ _ h
  | plus g r ih =>
    intro st t h
    simp only [ms, List.mem_flatMap] at h
    obtain ⟨u, hu, ht⟩ := h
    exact ⟨u.pos, ih _ _ hu, starN_rel (R := fun a b => Star (M s r) a.pos b.pos) (fun _ => .nil _)
      (fun _ _ _ => Star.trans) (fun u t h => Star.single (ih u t h)) g _ _ _ ht⟩
  | opt g r ih =>
    intro st t h
    cases g <;> simp only [ms, List.mem_append, List.mem_cons, if_true,
      Bool.false_eq_true, if_false, List.not_mem_nil, or_false] at h
    · exact h.elim (fun e => Or.inl (by rw [e])) (fun h => Or.inr (ih _ _ h))
    · exact h.elim (fun h => Or.inr (ih _ _ h)) (fun e => Or.inl (by rw [e]))
  | group i nm r ih =>
    intro st t h
    simp only [ms, List.mem_map] at h
    obtain ⟨u, hu, rfl⟩ := h
    exact ih st u hu
  | bot =>
    intro st t h
    by_cases h0 : st.pos = 0 <;> simp [ms, h0] at h
    subst h; exact ⟨rfl, h0⟩
  | eot =>
    intro st t h
    by_cases h0 : st.pos = s.length <;> simp [ms, h0] at h
    subst h; exact ⟨rfl, h0⟩

theorem ms_le {s : List Char} {r : Re} {st t : St} (h : t ∈ ms s r st) : st.pos ≤ t.pos :=
  M_le s r _ _ (ms_sound s r st t h)

theorem ms_bound {s : List Char} {r : Re} {st t : St} (h : t ∈ ms s r st) (hi : st.pos ≤ s.length) :
    t.pos ≤ s.length :=
  M_bound s r _ _ (ms_sound s r st t h) hi

/-! ### completeness: every match is listed -/

theorem stepChar_complete {s : List Char} {p : Nat → Bool} {i j : Nat} (h : chrAt s p i j)
    (st : St) (hst : st.pos = i) : ∃ t ∈ stepChar s p st, t.pos = j := by
  obtain ⟨hj, c, hc, hp⟩ := h
  refine ⟨{ st with pos := st.pos + 1 }, mem_stepChar.mpr ⟨rfl, c, by rw [hst]; exact hc, hp⟩, ?_⟩
  simp [hst, hj]

theorem ms_complete (s : List Char) : ∀ (r : Re) (i j : Nat), M s r i j → i ≤ s.length →
    ∀ st : St, st.pos = i → ∃ t ∈ ms s r st, t.pos = j := by
  intro r
  induction r with
  | empty => intro i j h _ st hst; simp only [M] at h; exact ⟨st, by simp [ms], by omega⟩
  | chr n => intro i j h _ st hst; exact stepChar_complete h st hst
  | cls rs => intro i j h _ st hst; exact stepChar_complete h st hst
  | any => intro i j h _ st hst; exact stepChar_complete h st hst
  | anyNoNL => intro i j h _ st hst; exact stepChar_complete h st hst
  | cat a b iha ihb =>
    intro i j h hi st hst
    obtain ⟨k, h1, h2⟩ := h
    obtain ⟨u, hu, hupos⟩ := iha _ _ h1 hi st hst
    obtain ⟨t, ht, htpos⟩ := ihb _ _ h2 (M_bound s a _ _ h1 hi) u hupos
    exact ⟨t, by simp only [ms, List.mem_flatMap]; exact ⟨u, hu, ht⟩, htpos⟩
  | alt a b iha ihb =>
    intro i j h hi st hst
    rcases h with h | h
    · obtain ⟨t, ht, htpos⟩ := iha _ _ h hi st hst
      exact ⟨t, by simp only [ms, List.mem_append]; exact Or.inl ht, htpos⟩
    · obtain ⟨t, ht, htpos⟩ := ihb _ _ h hi st hst
      exact ⟨t, by simp only [ms, List.mem_append]; exact Or.inr ht, htpos⟩
  | star g r ih =>
    intro i j h hi st hst
    simp only [ms]
    exact starN_complete g (P := M s r) (L := s.length) (fun a b hab ha u hu => ih a b hab ha u hu)
      (fun a b hab ha => M_bound s r a b hab ha) (Star.toNE (M_le s r) h) _ st hst hi (by omega)
  | plus g r ih =>
    intro i j h hi st hst
    obtain ⟨k, h1, h2⟩ := h
    obtain ⟨u, hu, hupos⟩ := ih _ _ h1 hi st hst
    have hk : k ≤ s.length := M_bound s r _ _ h1 hi
    obtain ⟨t, ht, htpos⟩ := starN_complete g (P := M s r) (L := s.length)
      (fun a b hab ha u hu => ih a b hab ha u hu)
      (fun a b hab ha => M_bound s r a b hab ha) (Star.toNE (M_le s r) h2) (s.length - u.pos) u hupos hk (by omega)
    exact ⟨t, by simp only [ms, List.mem_flatMap]; exact ⟨u, hu, ht⟩, htpos⟩
  | opt g r ih =>
    intro i j h hi st hst
    rcases h with h | h
    · exact ⟨st, by cases g <;> simp [ms], by omega⟩
    · obtain ⟨t, ht, htpos⟩ := ih _ _ h hi st hst
      exact ⟨t, by cases g <;> simp [ms, ht], htpos⟩
  | group idx nm r ih =>
    intro i j h hi st hst
    obtain ⟨t, ht, htpos⟩ := ih _ _ h hi st hst
    exact ⟨{ t with caps := (idx, (st.pos, t.pos)) :: t.caps },
      by simp only [ms, List.mem_map]; exact ⟨t, ht, rfl⟩, htpos⟩
  | bot =>
    intro i j h _ st hst
    simp only [M] at h
    exact ⟨st, by simp [ms, hst, h.2], by omega⟩
  | eot =>
    intro i j h _ st hst
    simp only [M] at h
    exact ⟨st, by simp [ms, hst, h.2], by omega⟩

/-! ### capture registers -/

theorem Occ.refl (r : Re) : Occ r r := by
  cases r <;> simp [Occ]

/-- where an entry of the registers comes from: it was there before, or a group of the regexp
wrote it when its body had matched exactly that span -/
def CapOk (s : List Char) (r : Re) (e : Nat × (Nat × Nat)) : Prop :=
  e.2.1 ≤ s.length ∧ ∃ nm q, Occ (.group e.1 nm q) r ∧ M s q e.2.1 e.2.2

def CapRel (s : List Char) (r : Re) (a b : St) : Prop :=
  a.pos ≤ s.length → ∀ e ∈ b.caps, e ∈ a.caps ∨ CapOk s r e

theorem CapOk.mono {s : List Char} {r r' : Re} (h : ∀ q, Occ q r → Occ q r') {e : Nat × (Nat × Nat)}
    (he : CapOk s r e) : CapOk s r' e := by
  obtain ⟨h1, nm, q, hs, hm⟩ := he
  exact ⟨h1, nm, q, h _ hs, hm⟩

theorem ms_caps (s : List Char) : ∀ (r : Re) (st t : St), t ∈ ms s r st → CapRel s r st t := by
  intro r
  induction r with
  | empty => intro st t h; simp [ms] at h; subst h; intro _ e he; exact Or.inl he
  | chr n => intro st t h _ e he; rw [(stepChar_sound h).2] at he; exact Or.inl he
  | cls rs => intro st t h _ e he; rw [(stepChar_sound h).2] at he; exact Or.inl he
  | any => intro st t h _ e he; rw [(stepChar_sound h).2] at he; exact Or.inl he
  | anyNoNL => intro st t h _ e he; rw [(stepChar_sound h).2] at he; exact Or.inl he
  | cat a b iha ihb =>
    intro st t h hst e he
    simp only [ms, List.mem_flatMap] at h
    obtain ⟨u, hu, ht⟩ := h
    rcases ihb _ _ ht (ms_bound hu hst) e he with h1 | h1
    · rcases iha _ _ hu hst e h1 with h2 | h2
      · exact Or.inl h2
      · exact Or.inr (h2.mono fun q hq => by simp only [Occ]; exact Or.inr (Or.inl hq))
    · exact Or.inr (h1.mono fun q hq => by simp only [Occ]; exact Or.inr (Or.inr hq))
  | alt a b iha ihb =>
    intro st t h hst e he
    simp only [ms, List.mem_append] at h
    rcases h with h | h
    · exact (iha _ _ h hst e he).imp id (fun h2 => h2.mono fun q hq => by simp only [Occ]; exact Or.inr (Or.inl hq))
    · exact (ihb _ _ h hst e he).imp id (fun h2 => h2.mono fun q hq => by simp only [Occ]; exact Or.inr (Or.inr hq))
  | star g r ih =>
    intro st t h
    simp only [ms] at h
    have key : ∀ u t, t ∈ ms s r u → (u.pos ≤ s.length → t.pos ≤ s.length) ∧ CapRel s (.star g r) u t :=
      fun u t h => ⟨ms_bound h, fun hu e he => (ih u t h hu e he).imp id
        (fun h2 => h2.mono fun q hq => by simp only [Occ]; exact Or.inr hq)⟩
    exact (starN_rel (R := fun a b => (a.pos ≤ s.length → b.pos ≤ s.length) ∧ CapRel s (.star g r) a b)
      (fun a => ⟨id, fun _ e he => Or.inl he⟩)
      (fun a b c hab hbc => ⟨fun ha => hbc.1 (hab.1 ha), fun ha e he =>
        (hbc.2 (hab.1 ha) e he).elim (fun h1 => hab.2 ha e h1) Or.inr⟩)
      key g _ _ _ h).2
  | plus g r ih =>
    intro st t h hst e he
    simp only [ms, List.mem_flatMap] at h
    obtain ⟨u, hu, ht⟩ := h
    have key : ∀ u t, t ∈ ms s r u → (u.pos ≤ s.length → t.pos ≤ s.length) ∧ CapRel s (.plus g r) u t :=
      fun u t h => ⟨ms_bound h, fun hu e he => (ih u t h hu e he).imp id
        (fun h2 => h2.mono fun q hq => by simp only [Occ]; exact Or.inr hq)⟩
    have h2 := (starN_rel (R := fun a b => (a.pos ≤ s.length → b.pos ≤ s.length) ∧ CapRel s (.plus g r) a b)
      (fun a => ⟨id, fun _ e he => Or.inl he⟩)
      (fun a b c hab hbc => ⟨fun ha => hbc.1 (hab.1 ha), fun ha e he =>
        (hbc.2 (hab.1 ha) e he).elim (fun h1 => hab.2 ha e h1) Or.inr⟩)
      key g _ _ _ ht).2
    rcases h2 (ms_bound hu hst) e he with h3 | h3
    · exact (key st u hu).2 hst e h3
    · exact Or.inr h3
  | opt g r ih =>
    intro st t h hst e he
    have hm : t = st ∨ t ∈ ms s r st := by
      cases g <;> simp [ms] at h
      · exact h
      · exact h.symm
    rcases hm with h | h
    · subst h; exact Or.inl he
    · exact (ih _ _ h hst e he).imp id (fun h2 => h2.mono fun q hq => by simp only [Occ]; exact Or.inr hq)
  | group i nm r ih =>
    intro st t h hst e he
    simp only [ms, List.mem_map] at h
    obtain ⟨u, hu, rfl⟩ := h
    simp only [List.mem_cons] at he
    rcases he with he | he
    · subst he
      exact Or.inr ⟨hst, nm, r, Occ.refl _, ms_sound s r _ _ hu⟩
    · exact (ih _ _ hu hst e he).imp id (fun h2 => h2.mono fun q hq => by simp only [Occ]; exact Or.inr hq)
  | bot =>
    intro st t h _ e he
    by_cases h0 : st.pos = 0 <;> simp [ms, h0] at h
    subst h; exact Or.inl he
  | eot =>
    intro st t h _ e he
    by_cases h0 : st.pos = s.length <;> simp [ms, h0] at h
    subst h; exact Or.inl he

theorem mem_of_lookup {k : Nat} {v : Nat × Nat} : ∀ {l : Caps}, l.lookup k = some v → (k, v) ∈ l := by
  intro l
  induction l with
  | nil => intro h; simp [List.lookup] at h
  | cons x xs ih =>
    intro h
    obtain ⟨k', v'⟩ := x
    simp only [List.lookup] at h
    by_cases hk : k = k'
    · subst hk; simp at h; subst h; exact List.mem_cons_self
    · have : (k == k') = false := by simpa using hk
      rw [this] at h
      exact List.mem_cons_of_mem _ (ih h)

/-! ### what is consumed -/

theorem ms_consumes (s : List Char) : ∀ (r : Re) (st t : St), nullable r = false →
    t ∈ ms s r st → st.pos < t.pos := by
  intro r
  induction r with
  | empty => intro st t h; simp [nullable] at h
  | chr n => intro st t _ h; have := chrAt_lt (stepChar_sound h).1; omega
  | cls rs => intro st t _ h; have := chrAt_lt (stepChar_sound h).1; omega
  | any => intro st t _ h; have := chrAt_lt (stepChar_sound h).1; omega
  | anyNoNL => intro st t _ h; have := chrAt_lt (stepChar_sound h).1; omega
  | cat a b iha ihb =>
    intro st t hn h
    simp only [ms, List.mem_flatMap] at h
    obtain ⟨u, hu, ht⟩ := h
    have h1 := ms_le hu
    have h2 := ms_le ht
    simp only [nullable, Bool.and_eq_false_iff] at hn
    rcases hn with hn | hn
    · have := iha _ _ hn hu; omega
    · have := ihb _ _ hn ht; omega
  | alt a b iha ihb =>
    intro st t hn h
    simp only [ms, List.mem_append] at h
    simp only [nullable, Bool.or_eq_false_iff] at hn
    exact h.elim (iha _ _ hn.1) (ihb _ _ hn.2)
  | star g r _ => intro st t h; simp [nullable] at h
  | plus g r ih =>
    intro st t hn h
    have h1 := ms_sound s _ _ _ h
    obtain ⟨k, h2, h3⟩ := h1
    simp only [ms, List.mem_flatMap] at h
    obtain ⟨u, hu, ht⟩ := h
    have := ih _ _ (by simpa [nullable] using hn) hu
    have h4 := ms_le (r := .star g r) (s := s) (st := u) (t := t) (by simpa [ms] using ht)
    omega
  | opt g r _ => intro st t h; simp [nullable] at h
  | group i nm r ih =>
    intro st t hn h
    simp only [ms, List.mem_map] at h
    obtain ⟨u, hu, rfl⟩ := h
    exact ih st u (by simpa [nullable] using hn) hu
  | bot => intro st t h; simp [nullable] at h
  | eot => intro st t h; simp [nullable] at h

/-! ### anchored regexps -/

theorem endsEot_pos (s : List Char) : ∀ (r : Re) (st t : St), endsEot r = true →
    t ∈ ms s r st → t.pos = s.length := by
  intro r
  induction r with
  | cat a b _ ihb =>
    intro st t he h
    simp only [ms, List.mem_flatMap] at h
    obtain ⟨u, _, ht⟩ := h
    exact ihb _ _ (by simpa [endsEot] using he) ht
  | eot =>
    intro st t _ h
    by_cases h0 : st.pos = s.length <;> simp [ms, h0] at h
    subst h; exact h0
  | _ => intro st t he; simp [endsEot] at he

theorem find?_eq_head? {α : Type} {p : α → Bool} : ∀ {l : List α}, (∀ x ∈ l, p x = true) → l.find? p = l.head?
  | [], _ => rfl
  | x :: xs, h => by simp [List.find?, h x List.mem_cons_self]

theorem findFrom_none {s : List Char} {r : Re} : ∀ (n start : Nat),
    (∀ k, start ≤ k → ms s r ⟨k, []⟩ = []) → findFrom s r n start = none := by
  intro n
  induction n with
  | zero => intro _ _; rfl
  | succ n ih =>
    intro start h
    simp only [findFrom, h start (Nat.le_refl _), List.head?_nil]
    exact ih _ fun k hk => h k (by omega)

/-! ### literals -/

/-- the code points `w` stand in `s` from position `i` on -/
def LitAt (s : List Char) : List Nat → Nat → Prop
  | [], _ => True
  | c :: cs, i => (∃ ch, s[i]? = some ch ∧ ch.toNat = c) ∧ LitAt s cs (i + 1)

theorem LitAt_iff (s : List Char) : ∀ (w : List Nat) (i : Nat),
    LitAt s w i ↔ ((s.drop i).map Char.toNat).take w.length = w := by
  intro w
  induction w with
  | nil => intro i; simp [LitAt]
  | cons c cs ih =>
    intro i
    simp only [LitAt, ih, List.length_cons]
    cases hc : s[i]? with
    | none =>
      have : s.length ≤ i := by simpa using hc
      simp [List.drop_eq_nil_of_le this]
    | some ch =>
      obtain ⟨hlt, hget⟩ := List.getElem?_eq_some_iff.mp hc
      rw [List.drop_eq_getElem_cons hlt, hget]
      simp

theorem chrAt_eq {s : List Char} {c i j : Nat} :
    chrAt s (fun m => m == c) i j ↔ j = i + 1 ∧ ∃ ch, s[i]? = some ch ∧ ch.toNat = c := by
  simp [chrAt]

theorem litBody_iff (s : List Char) : ∀ (r : Re) (w : List Nat) (i j : Nat), litBody r = some w →
    (M s r i j ↔ j = s.length ∧ j = i + w.length ∧ LitAt s w i) := by
  intro r
  induction r with
  | eot =>
    intro w i j h
    simp only [litBody, Option.some.injEq] at h
    subst h
    simp only [M, LitAt, List.length_nil, Nat.add_zero, and_true]
    constructor <;> (intro h; omega)
  | cat a b _ ihb =>
    intro w i j h
    cases a with
    | chr c =>
      simp only [litBody, Option.map_eq_some_iff] at h
      obtain ⟨w', hw', rfl⟩ := h
      simp only [M, chrAt_eq, ihb w' _ _ hw', LitAt, List.length_cons]
      constructor
      · rintro ⟨k, ⟨rfl, hch⟩, h1, h2, h3⟩
        exact ⟨h1, by omega, hch, h3⟩
      · rintro ⟨h1, h2, hch, h3⟩
        exact ⟨i + 1, ⟨rfl, hch⟩, h1, by omega, h3⟩
    | _ => simp [litBody] at h
  | _ => intro w i j h; simp [litBody] at h

/-! ### words and blanks -/

theorem star_chr_span {s : List Char} {p : Nat → Bool} {a b : Nat} (h : Star (chrAt s p) a b) :
    a ≤ b ∧ ∀ k, a ≤ k → k < b → ∃ c, s[k]? = some c ∧ p c.toNat = true := by
  induction h with
  | nil i => exact ⟨Nat.le_refl _, fun k h1 h2 => by omega⟩
  | @cons i k j h _ ih =>
    obtain ⟨hk, c, hc, hp⟩ := h
    refine ⟨by omega, fun m h1 h2 => ?_⟩
    by_cases hm : m = i
    · subst hm; exact ⟨c, hc, hp⟩
    · exact ih.2 m (by omega) h2

/-- a run of one or more characters of a class -/
theorem plus_cls_span {s : List Char} {g : Bool} {rs : List (Nat × Nat)} {a b : Nat}
    (h : M s (.plus g (.cls rs)) a b) :
    a < b ∧ ∀ k, a ≤ k → k < b → ∃ c, s[k]? = some c ∧ inRanges rs c.toNat = true := by
  obtain ⟨k, h1, h2⟩ := h
  have h3 : Star (chrAt s (inRanges rs)) k b := h2
  have h4 := star_chr_span h3
  obtain ⟨hk, c, hc, hp⟩ := h1
  refine ⟨by omega, fun m hm1 hm2 => ?_⟩
  by_cases hm : m = a
  · subst hm; exact ⟨c, hc, hp⟩
  · exact h4.2 m (by omega) hm2

theorem splitLit_M (s : List Char) : ∀ (r : Re) (i j : Nat), M s r i j →
    LitAt s (splitLit r).1 i ∧ M s (splitLit r).2 (i + (splitLit r).1.length) j := by
  intro r
  induction r with
  | cat a b _ ihb =>
    intro i j h
    cases a with
    | chr c =>
      obtain ⟨k, h1, h2⟩ := h
      obtain ⟨hk, hch⟩ := chrAt_eq.mp h1
      subst hk
      obtain ⟨h3, h4⟩ := ihb _ _ h2
      simp only [splitLit, LitAt, List.length_cons]
      exact ⟨⟨hch, h3⟩, by rw [show i + ((splitLit b).1.length + 1) = i + 1 + (splitLit b).1.length by omega]; exact h4⟩
    | _ => exact ⟨trivial, h⟩
  | _ => intro i j h; exact ⟨trivial, h⟩

/-- position `k` of `s` holds a blank (`\s`) / a character that is not a blank (`\S`) -/
def BlankAt (s : List Char) (k : Nat) : Prop := ∃ c, s[k]? = some c ∧ inRanges WS c.toNat = true
def WordCharAt (s : List Char) (k : Nat) : Prop := ∃ c, s[k]? = some c ∧ inRanges NS c.toNat = true

end Shk.Re
