import ShkModel.Model.Audition
/-!
# Lemmas for C08 (forwarding): which `Out.obs` items the audit loop emits for signal samples

A variable with a non-empty actor is a signal of an actor; computed variables (`t`, `mood`,
`moodt`, assignment targets) have actor `""`.  Core only.
-/
namespace Shk.Aud
open Shk

/-- an observation of a signal sample (as opposed to a computed variable, a report, a marker) -/
def isSigObs : Out → Bool
  | .obs _ _ v _ => v.actor != ""
  | _ => false

/-- the signal observations of an output list -/
def sigObs (out : List Out) : List Out := out.filter isSigObs

/-- `o'` extends `o` (outputs are consed in front) by items none of which is a signal observation -/
def QuietExt (o o' : List Out) : Prop := ∃ added, o' = added ++ o ∧ sigObs added = []

theorem QuietExt.refl (o : List Out) : QuietExt o o := ⟨[], rfl, rfl⟩

theorem QuietExt.trans {a b c : List Out} (h1 : QuietExt a b) (h2 : QuietExt b c) : QuietExt a c := by
  obtain ⟨x, rfl, hx⟩ := h1
  obtain ⟨y, rfl, hy⟩ := h2
  exact ⟨y ++ x, by simp, by simp [sigObs, List.filter_append] at *; exact ⟨hy, hx⟩⟩

theorem QuietExt.sigObs_eq {a b : List Out} (h : QuietExt a b) : sigObs b = sigObs a := by
  obtain ⟨x, rfl, hx⟩ := h
  simp only [sigObs, List.filter_append] at *
  rw [hx]; rfl

/-- `setAndActivateVar` with `collectChange = false` emits nothing -/
theorem setVar_false_out (c : Cfg) (s : St) (ts : Rat) (typ : Typ) (v : VarName) (val : Val) :
    (setVar c s ts typ v val false).out = s.out := by
  unfold setVar
  split
  · rfl
  · split
    · rfl
    · simp

/-- `setAndActivateVar` on a computed variable emits no signal observation -/
theorem setVar_quiet (c : Cfg) (s : St) (ts : Rat) (typ : Typ) (v : VarName) (val : Val) (b : Bool)
    (h : v.actor = "") : QuietExt s.out (setVar c s ts typ v val b).out := by
  unfold setVar
  split
  · exact .refl _
  · split
    · exact .refl _
    · simp only []
      split
      · exact ⟨[.obs ts typ v val], rfl, by simp [sigObs, isSigObs, h]⟩
      · exact .refl _

theorem assignOne_quiet (c : Cfg) (ts : Rat) (s : St) (a : Assign) :
    QuietExt s.out (assignOne c ts s a).out := by
  unfold assignOne
  repeat' split
  all_goals first
    | exact .refl _
    | exact setVar_quiet c s ts _ ⟨"", a.target⟩ _ true rfl

theorem assignAll_quiet (c : Cfg) (ts : Rat) (s : St) (as : List Assign) :
    QuietExt s.out (assignAll c ts s as).out := by
  unfold assignAll
  induction as generalizing s with
  | nil => exact .refl _
  | cons a as ih => exact (assignOne_quiet c ts s a).trans (ih _)

theorem fireExpect_quiet (s : St) (ts : Rat) (name : String) (T : Table) (lbl : Nat) :
    QuietExt s.out (fireExpect s ts name T lbl).out :=
  ⟨[.rep ts name (T.fire (s.aud name).fsm lbl).2 lbl], rfl, rfl⟩

theorem checkExpect_quiet (s : St) (ts : Rat) (m : Member) :
    QuietExt s.out (checkExpect s ts m).out := by
  unfold checkExpect
  repeat' split
  all_goals first
    | exact .refl _
    | exact fireExpect_quiet ..
    | exact ⟨[.repErr ts m.name], rfl, rfl⟩

theorem startPeriod_quiet (s : St) (m : Member) : QuietExt s.out (startPeriod s m).out :=
  ⟨[.start m.name], rfl, rfl⟩

theorem endPeriod_quiet (s : St) (ts : Rat) (m : Member) : QuietExt s.out (endPeriod s ts m).out := by
  unfold endPeriod
  split
  · exact .refl _
  · unfold stopPeriod endJudge
    cases m.expect with
    | none => exact ⟨[.stop m.name], rfl, rfl⟩
    | some p => exact (fireExpect_quiet s ts m.name p.1 2).trans ⟨[.stop m.name], rfl, rfl⟩

/-- `checkEventForAuditor` emits no signal observation: its assignments target computed variables -/
theorem visit_quiet (c : Cfg) (final : Bool) (ts : Rat) (s : St) (m : Member) :
    QuietExt s.out (visit c final ts s m).out := by
  unfold visit
  repeat' split
  all_goals first
    | exact .refl _
    | exact ((startPeriod_quiet s m).trans (assignAll_quiet ..)).trans (checkExpect_quiet ..)
    | exact (assignAll_quiet ..).trans (checkExpect_quiet ..)
    | exact ((assignAll_quiet ..).trans (checkExpect_quiet ..)).trans (endPeriod_quiet ..)

theorem visits_quiet (c : Cfg) (final : Bool) (ts : Rat) (ms : List Member) (s : St) :
    QuietExt s.out
      (ms.foldl (fun st m => if visited final st m then visit c final ts st m else st) s).out := by
  induction ms generalizing s with
  | nil => exact .refl _
  | cons m ms ih =>
    simp only [List.foldl_cons]
    split
    · exact (visit_quiet c final ts s m).trans (ih _)
    · exact ih _

/-- the observation forwarded for a sample -/
def Sample.obs (ts : Rat) (x : Sample) : Out := .obs ts x.typ x.v x.val

/-- the forwarding loop at the head of `checkEvent`: one item per non-nil sample, consed in order -/
theorem forward_out (c : Cfg) (ts : Rat) (samples : List Sample) (st : St) :
    (samples.foldl (fun st x =>
        if x.val.isNil then st else
        (setVar c st ts x.typ x.v x.val false).emit (.obs ts x.typ x.v x.val)) st).out =
      ((samples.filter fun x => !x.val.isNil).map (Sample.obs ts)).reverse ++ st.out := by
  induction samples generalizing st with
  | nil => rfl
  | cons x xs ih =>
    simp only [List.foldl_cons]
    rw [ih]
    by_cases hx : x.val.isNil
    · simp [hx]
    · simp [hx, St.emit, setVar_false_out, Sample.obs]

/-- the three computed variables of a round emit no signal observation -/
theorem beginRound_out (c : Cfg) (ts : Rat) (samples : List Sample) (s : St) :
    ∃ pre, sigObs pre = [] ∧
      (beginRound c ts samples s).out =
        ((samples.filter fun x => !x.val.isNil).map (Sample.obs ts)).reverse ++ (pre ++ s.out) := by
  unfold beginRound
  simp only []
  rw [forward_out]
  have h := ((setVar_quiet c
      { s with aud := fun m => { s.aud m with activated := false },
               activated := fun v => if v.actor ≠ "" then false else s.activated v }
      ts .scalar ⟨"", "t"⟩ (.sc (.num ts)) true rfl).trans
    (setVar_quiet c _ ts .event ⟨"", "mood"⟩ (.sc (.str s.mood)) true rfl)).trans
    (setVar_quiet c _ ts .scalar ⟨"", "moodt"⟩
      (.sc (.num (match s.moodStart with | none => ts | some st => ts - st))) true rfl)
  obtain ⟨pre, hpre, hq⟩ := h
  exact ⟨pre, hq, congrArg (_ ++ ·) hpre⟩

theorem sigObs_append (a b : List Out) : sigObs (a ++ b) = sigObs a ++ sigObs b := by
  simp [sigObs]

theorem sigObs_map (ts : Rat) (samples : List Sample) :
    sigObs ((samples.filter fun x => !x.val.isNil).map (Sample.obs ts)) =
      (samples.filter fun x => !x.val.isNil && x.v.actor != "").map (Sample.obs ts) := by
  simp only [sigObs]
  induction samples with
  | nil => rfl
  | cons x xs ih =>
    by_cases hx : x.val.isNil
    · simpa [List.filter_cons, hx] using ih
    · by_cases ha : x.v.actor = ""
      · simpa [List.filter_cons, hx, ha, isSigObs, Sample.obs] using ih
      · simpa [List.filter_cons, hx, ha, isSigObs, Sample.obs] using ih

theorem sigObs_forwarded (ts : Rat) (samples : List Sample) :
    sigObs ((samples.filter fun x => !x.val.isNil).map (Sample.obs ts)).reverse =
      ((samples.filter fun x => !x.val.isNil && x.v.actor != "").map (Sample.obs ts)).reverse := by
  rw [← sigObs_map]
  simp [sigObs, List.filter_reverse]

/-! ## Rounds, events, the whole audition -/

/-- the signal observations a round must forward for its samples, in order -/
def fwd (ts : Rat) (samples : List Sample) : List Out :=
  (samples.filter fun x => !x.val.isNil && x.v.actor != "").map (Sample.obs ts)

theorem round_aborted (c : Cfg) (final : Bool) (ts : Rat) (samples : List Sample) (s : St)
    (h : s.abort.isSome = true) : round c final ts samples s = s := by
  simp [round, h]

/-- `checkEvent`: what is added to the output is `post ++ forwarded samples ++ pre`, with no signal
observation in `pre` (computed variables `t`, `mood`, `moodt`) nor in `post` (the auditors) -/
theorem round_out (c : Cfg) (final : Bool) (ts : Rat) (samples : List Sample) (s : St)
    (h : s.abort = none) :
    ∃ pre post, sigObs pre = [] ∧ sigObs post = [] ∧
      (round c final ts samples s).out =
        post ++ (((samples.filter fun x => !x.val.isNil).map (Sample.obs ts)).reverse ++ (pre ++ s.out)) := by
  obtain ⟨pre, hpre, hb⟩ := beginRound_out c ts samples s
  obtain ⟨post, hv, hpost⟩ := visits_quiet c final ts c.members (beginRound c ts samples s)
  refine ⟨pre, post, hpre, hpost, ?_⟩
  simp only [round, h, Option.isSome_none, Bool.false_eq_true, if_false]
  rw [hv, hb]

theorem sigObs_round (c : Cfg) (final : Bool) (ts : Rat) (samples : List Sample) (s : St) :
    sigObs (round c final ts samples s).out =
      (if s.abort.isSome then [] else (fwd ts samples).reverse) ++ sigObs s.out := by
  cases h : s.abort with
  | some a => rw [round_aborted c final ts samples s (by simp [h])]; simp
  | none =>
    obtain ⟨pre, post, hpre, hpost, ho⟩ := round_out c final ts samples s h
    rw [ho]
    simp [sigObs_append, hpre, hpost, sigObs_forwarded, fwd]

/-- the signal observations an event must produce -/
def Ev.fwd : Ev → List Out
  | .mood _ _ => []
  | .sig ts xs => Aud.fwd ts xs

theorem stepEv_aborted (c : Cfg) (s : St) (e : Ev) (h : s.abort.isSome = true) : stepEv c s e = s := by
  cases e with
  | sig ts xs => exact round_aborted c false ts xs s h
  | mood ts m =>
    simp only [stepEv]
    split
    · rfl
    · simp [round_aborted c false ts [] s h, h]

theorem sigObs_stepEv (c : Cfg) (s : St) (e : Ev) :
    sigObs (stepEv c s e).out = (if s.abort.isSome then [] else e.fwd.reverse) ++ sigObs s.out := by
  cases e with
  | sig ts xs => exact sigObs_round c false ts xs s
  | mood ts m =>
    simp only [stepEv, Ev.fwd]
    split
    · simp
    · split
      · rw [sigObs_round]; simp [fwd]
      · rw [sigObs_round, show ({ round c false ts [] s with moodStart := some ts, mood := m } : St).out
            = (round c false ts [] s).out from rfl, sigObs_round]
        simp [fwd]

theorem foldl_stepEv_aborted (c : Cfg) (s : St) (evs : List Ev) (h : s.abort.isSome = true) :
    evs.foldl (stepEv c) s = s := by
  induction evs with
  | nil => rfl
  | cons e es ih => simp only [List.foldl_cons, stepEv_aborted c s e h, ih]

/-- the events are processed up to the first abort; each processed event forwards its samples -/
theorem sigObs_events (c : Cfg) (s : St) (evs : List Ev) :
    ∃ k, k ≤ evs.length ∧
      (sigObs (evs.foldl (stepEv c) s).out).reverse = (sigObs s.out).reverse ++ (evs.take k).flatMap Ev.fwd ∧
      ((evs.foldl (stepEv c) s).abort = none → k = evs.length) := by
  induction evs generalizing s with
  | nil => exact ⟨0, Nat.le_refl _, by simp, fun _ => rfl⟩
  | cons e es ih =>
    cases h : s.abort with
    | some a =>
      have hs : s.abort.isSome = true := by simp [h]
      refine ⟨0, Nat.zero_le _, by rw [foldl_stepEv_aborted c s _ hs]; simp, ?_⟩
      rw [foldl_stepEv_aborted c s _ hs, h]
      intro hc; cases hc
    | none =>
      obtain ⟨k, hk, ho, ha⟩ := ih (stepEv c s e)
      refine ⟨k + 1, by simpa using hk, ?_, fun hn => by simpa using ha hn⟩
      simp only [List.foldl_cons, List.take_succ_cons, List.flatMap_cons]
      rw [ho, sigObs_stepEv]
      simp [h]

theorem sigObs_start (c : Cfg) : sigObs (start c).out = [] := by
  simp only [start]
  rw [sigObs_round]
  simp [fwd, sigObs]

end Shk.Aud
