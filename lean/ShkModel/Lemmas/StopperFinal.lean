import ShkModel.Lemmas.StopperOk
/-! `LogOk` holds of every reachable log. -/
namespace Shk.Stopper

theorem Inv.ok_ret {cap s} (I : Inv cap s) {i : Nat} {t : Thread} {v : Nat} (ht : s.threads[i]? = some t)
    (hr : t.ret = false) (hv : retVal t.kind t.pc = some v) :
    evOk cap s.log (s.ev .ret i t.kind.code v) = true := by
  have ti := I.thr i t ht
  have si := I.stable i t ht
  have hg := I.globalOk_ev' .ret i t.kind.code v (by simp)
  have h1 : has s.log .ret i = false := by rw [ti.ret, hr]
  have hcq : wasAccepted t = true → callQ s.log i = false := I.callQ_false ht
  have hbs := ti.bs
  have hbe := ti.be
  have hdr : s.numTasks = 0 → Shk.Stopper.drained s.log = true := I.drained
  obtain ⟨q1, q2, q3, q4, q5, q6⟩ := si
  simp only [evOk, hg, Bool.true_and]
  simp only [kindOk, St.ev, I.kindOf ht, h1]
  obtain ⟨kind, pc, ret⟩ := t
  simp only [] at *
  cases kind with
  | ltask w =>
    cases w <;> cases pc <;> simp [retVal] at hv <;> subst hv <;>
      simp_all [Kind.code, isTaskCode, wasAccepted, started, bodyDone, Kind.isTask]
  | _ =>
    cases pc <;> simp [retVal] at hv <;> subst hv <;>
      simp_all [Kind.code, isTaskCode, wasAccepted, started, bodyDone, Kind.isTask, otherStop]

theorem Inv.ok_call {cap s} (I : Inv cap s) (k : Kind) :
    evOk cap s.log (s.ev .call s.threads.length k.code 0) = true := by
  have hg := I.globalOk_ev' .call s.threads.length k.code 0 (by simp)
  have h1 : has s.log .call s.threads.length = false := by
    apply Bool.eq_false_iff.mpr
    intro hh
    obtain ⟨e, he, _, hid⟩ := exists_of_has hh
    have := I.ids e he
    omega
  simp only [evOk, hg, Bool.true_and]
  simp [kindOk, St.ev, h1, ofCode_code]

/-! ### phase markers -/

theorem evOk_mark {cap : Nat} {pre : List Ev} {e : Ev} (hk : e.k = .mark) (hg : globalOk cap pre e = true) :
    evOk cap pre e = true := by
  simp [evOk, hg, kindOk, hk]

theorem Inv.dfin {cap s} (I : Inv cap s) (hd : s.dClosed = true) : 5 ≤ s.sp.rank ∧ calledPrefix s = s.closers := by
  have h6 : s.sp.rank = 6 := by
    have := I.ph.dclosed
    rw [hd] at this; simpa using this
  exact ⟨by omega, by simp [calledPrefix, rank_six h6]⟩

theorem Inv.ok_mark0 {cap s} (I : Inv cap s) (who : Nat) :
    globalOk cap s.log ⟨.mark, who, 0, 0, true, s.sClosed, s.dClosed, s.sem⟩ = true := by
  refine I.globalOk_intro _ (fun _ => rfl) (fun h => h) (fun h => h) I.ph.d_s (fun _ => rfl) I.ph.s_tasks I.dfin rfl ?_
  have := I.sem_lower
  simp [St.ev]; omega

theorem Inv.ok_mark2 {cap s} (I : Inv cap s) (who : Nat) (hsp : s.sp = .drained) :
    globalOk cap s.log ⟨.mark, who, 0, 2, s.quiescing, true, s.dClosed, s.sem⟩ = true := by
  have hq : s.quiescing = true := I.ph.quiescing (by rw [hsp]; simp)
  have h0 : s.numTasks = 0 := I.ph.drained (by rw [hsp]; simp)
  have hd : s.dClosed = false := by rw [I.ph.dclosed, hsp]; simp
  refine I.globalOk_intro _ (fun h => h) (fun _ => rfl) (fun h => h) (fun _ => rfl) (fun _ => hq) (fun _ => h0) ?_ rfl ?_
  · intro h; simp only [St.ev] at h; rw [hd] at h; cases h
  · have := I.sem_lower
    simp [St.ev]; omega

theorem Inv.ok_mark4 {cap s} (I : Inv cap s) (who k : Nat) (hsp : s.sp = .closers k) (hk : s.closers[k]? = none) :
    globalOk cap s.log ⟨.mark, who, 0, 4, s.quiescing, s.sClosed, true, s.sem⟩ = true := by
  have hs : s.sClosed = true := by rw [I.ph.sclosed, hsp]; simp
  refine I.globalOk_intro _ (fun h => h) (fun h => h) (fun _ => rfl) (fun _ => hs) I.ph.s_q I.ph.s_tasks ?_ rfl ?_
  · intro _
    refine ⟨by rw [hsp]; simp, ?_⟩
    have : s.closers.length ≤ k := by simpa using hk
    simp [calledPrefix, hsp, List.take_of_length_le this]
  · have := I.sem_lower
    simp [St.ev]; omega

/-! ### the entries made when registered cancel functions fire -/

def CancelOnly (X : List Ev) : Prop := ∀ x ∈ X, x.k = .cancelled

theorem has_cancelOnly {X : List Ev} (hX : CancelOnly X) {k : EK} (hk : k ≠ .cancelled) (i : Nat) : has X k i = false := by
  apply Bool.eq_false_iff.mpr
  intro hh
  obtain ⟨e, he, hek, _⟩ := exists_of_has hh
  exact hk (hek ▸ hX e he)

theorem cnt_cancelOnly {X : List Ev} (hX : CancelOnly X) {k : EK} (hk : k ≠ .cancelled) : cnt X k = 0 := by
  simp only [cnt, List.countP_eq_zero]
  intro e he
  have := hX e he
  simp [this]
  intro h; exact absurd h.symm hk

theorem allHave_cancelOnly {pre X : List Ev} (hX : CancelOnly X) {sel : Ev → Bool} {k : EK}
    (hsel : ∀ p, p.k = .cancelled → sel p = false) (hk : k ≠ .cancelled) :
    allHave (pre ++ X) sel k = allHave pre sel k := by
  simp only [allHave, List.all_append, has_append, has_cancelOnly hX hk, Bool.or_false]
  have : (X.all fun p => !sel p || has pre k p.id) = true := by
    rw [List.all_eq_true]
    intro x hx
    simp [hsel x (hX x hx)]
  rw [this, Bool.and_true]

theorem callOf_cancelOnly {pre X : List Ev} (hX : CancelOnly X) (i : Nat) : callOf (pre ++ X) i = callOf pre i := by
  have hn : callOf X i = none := by
    simp only [callOf, List.find?_eq_none]
    intro e he
    simp [hX e he]
  simp only [callOf] at hn ⊢
  rw [List.find?_append, hn]; simp

theorem globalOk_cancelOnly {cap : Nat} {pre X : List Ev} {e : Ev} (hX : CancelOnly X)
    (hfl : ∀ x ∈ X, (x.q = true → e.q = true) ∧ (x.s = true → e.s = true) ∧ (x.d = true → e.d = true))
    (h : globalOk cap pre e = true) : globalOk cap (pre ++ X) e = true := by
  have e1 : drained (pre ++ X) = drained pre := by
    simp only [drained]
    rw [allHave_cancelOnly hX (by intro p hp; simp [hp]) (by decide),
      allHave_cancelOnly hX (by intro p hp; simp [hp]) (by decide)]
  have e2 : workersDone (pre ++ X) = workersDone pre := by
    simp only [workersDone]
    rw [allHave_cancelOnly hX (by intro p hp; simp [hp]) (by decide)]
  have e3 : closersDone (pre ++ X) = closersDone pre := by
    simp only [closersDone]
    rw [allHave_cancelOnly hX (by intro p hp; simp [hp]) (by decide)]
  have e4 : flagsOk (pre ++ X) e = (flagsOk pre e) := by
    simp only [flagsOk, List.all_append]
    have : (X.all fun p => (!p.q || e.q) && (!p.s || e.s) && (!p.d || e.d)) = true := by
      rw [List.all_eq_true]
      intro x hx
      obtain ⟨a, b, c⟩ := hfl x hx
      cases hq : x.q <;> cases hs : x.s <;> cases hd : x.d <;> simp_all
    rw [this, Bool.and_true]
  simp only [globalOk, e1, e2, e3, e4, cnt_append, cnt_cancelOnly hX (show EK.bodyStart ≠ .cancelled by decide),
    cnt_cancelOnly hX (show EK.bodyEnd ≠ .cancelled by decide), cnt_cancelOnly hX (show EK.ret ≠ .cancelled by decide),
    cnt_cancelOnly hX (show EK.call ≠ .cancelled by decide), Nat.add_zero] at h ⊢
  exact h

theorem Inv.ok_cancelEvs {cap s} (I : Inv cap s) (c : Nat) (hc : c = 6 ∨ c = 7) (ids : List Nat)
    (hk : ∀ x ∈ ids, Shk.Stopper.kindOf s.log x = some c) (X : List Ev) (hX : CancelOnly X)
    (hfl : ∀ x ∈ X, x.q = s.quiescing ∧ x.s = s.sClosed ∧ x.d = s.dClosed) :
    logOkFrom cap (s.log ++ X) (s.cancelEvs ids c) = true := by
  induction ids generalizing X with
  | nil => rfl
  | cons x xs ih =>
    simp only [St.cancelEvs, List.map_cons, logOkFrom, Bool.and_eq_true]
    refine ⟨?_, ?_⟩
    · have hg := I.globalOk_ev' .cancelled x c 0 (by simp)
      have hg' := globalOk_cancelOnly (X := X) hX (by
        intro y hy
        obtain ⟨a, b, d⟩ := hfl y hy
        simp [St.ev, a, b, d]) hg
      simp only [evOk, hg', Bool.true_and]
      have hkx := hk x (List.mem_cons_self)
      simp only [Shk.Stopper.kindOf] at hkx
      simp only [kindOk, Shk.Stopper.kindOf, callOf_cancelOnly hX, hkx, St.ev]
      rcases hc with rfl | rfl <;> simp
    · rw [List.append_assoc]
      apply ih (fun y hy => hk y (List.mem_cons_of_mem _ hy))
      · intro y hy
        rcases List.mem_append.mp hy with hy | hy
        · exact hX y hy
        · simp at hy; subst hy; rfl
      · intro y hy
        rcases List.mem_append.mp hy with hy | hy
        · exact hfl y hy
        · simp at hy; subst hy; simp [St.ev]

theorem cancelEvs_cancelOnly (s : St) (ids : List Nat) (c : Nat) : CancelOnly (s.cancelEvs ids c) := by
  intro e he
  obtain ⟨x, _, rfl⟩ := List.mem_map.mp he
  rfl

theorem cancelEvs_flags (s : St) (ids : List Nat) (c : Nat) :
    ∀ x ∈ s.cancelEvs ids c, x.q = s.quiescing ∧ x.s = s.sClosed ∧ x.d = s.dClosed := by
  intro e he
  obtain ⟨x, _, rfl⟩ := List.mem_map.mp he
  exact ⟨rfl, rfl, rfl⟩

/-- the first critical section of Quiesce -/
theorem Inv.ok_quiesceEvs {cap s} (I : Inv cap s) (who : Nat) : logOkFrom cap s.log (s.quiesceEvs who) = true := by
  unfold St.quiesceEvs
  rw [logOkFrom_append, Bool.and_eq_true]
  refine ⟨?_, ?_⟩
  · have := I.ok_cancelEvs 6 (Or.inl rfl) s.qCancels (by
      intro x hx
      obtain ⟨t, ht, hk⟩ := I.lists.q_thr x hx
      rw [I.kindOf ht, hk]; rfl) [] (by intro x hx; cases hx) (by intro x hx; cases hx)
    simpa using this
  · split
    · rfl
    · rw [logOkFrom_single]
      apply evOk_mark rfl
      apply globalOk_cancelOnly (cancelEvs_cancelOnly _ _ _) _ (I.ok_mark0 who)
      intro x hx
      obtain ⟨a, b, d⟩ := cancelEvs_flags _ _ _ x hx
      simp [St.ev, a, b, d]

/-- the critical section of Stop that closes the stop channel -/
theorem Inv.ok_stopEvs {cap s} (I : Inv cap s) (who : Nat) (hsp : s.sp = .drained) :
    logOkFrom cap s.log (s.cancelEvs s.sCancels 7 ++ [⟨.mark, who, 0, 2, s.quiescing, true, s.dClosed, s.sem⟩]) = true := by
  rw [logOkFrom_append, Bool.and_eq_true]
  refine ⟨?_, ?_⟩
  · have := I.ok_cancelEvs 7 (Or.inr rfl) s.sCancels (by
      intro x hx
      obtain ⟨t, ht, hk⟩ := I.lists.s_thr x hx
      rw [I.kindOf ht, hk]; rfl) [] (by intro x hx; cases hx) (by intro x hx; cases hx)
    simpa using this
  · rw [logOkFrom_single]
    apply evOk_mark rfl
    apply globalOk_cancelOnly (cancelEvs_cancelOnly _ _ _) _ (I.ok_mark2 who hsp)
    intro x hx
    obtain ⟨a, b, d⟩ := cancelEvs_flags _ _ _ x hx
    simp [St.ev, a, b, d]

theorem evOk_of_eq {cap : Nat} {pre : List Ev} {e e' : Ev} (h : evOk cap pre e' = true) (he : e = e') :
    evOk cap pre e = true := he ▸ h

theorem logOkFrom_nil (cap : Nat) (pre : List Ev) : logOkFrom cap pre [] = true := rfl

/-! ### every step appends allowed entries -/

theorem Inv.ok_go {cap s} (I : Inv cap s) {s' : St} {i : Nat} {t : Thread} (ht : s.threads[i]? = some t)
    (h : goStep s i t = some s') : ∃ es, s'.log = s.log ++ es ∧ logOkFrom cap s.log es = true := by
  obtain ⟨kind, pc, ret⟩ := t
  go_cases h
  all_goals (
    refine ⟨_, rfl, ?_⟩
    first
      | exact logOkFrom_nil cap s.log
      | exact I.ok_quiesceEvs i
      | (rename_i hsp; exact I.ok_stopEvs i hsp)
      | (rw [logOkFrom_single]; first
          | exact evOk_of_eq (I.ok_bodyStart ht rfl rfl) rfl
          | exact evOk_of_eq (I.ok_bodyEnd ht rfl rfl) rfl
          | exact evOk_of_eq (I.ok_wStart ht rfl rfl) rfl
          | exact evOk_of_eq (I.ok_wEnd ht rfl rfl) rfl
          | exact evOk_of_eq (I.ok_closerImm ht rfl rfl ((I.stable i _ ht).ci rfl)) rfl
          | exact evOk_of_eq (I.ok_cancelOwn ht (Or.inl rfl)) rfl
          | exact evOk_of_eq (I.ok_cancelOwn ht (Or.inr rfl)) rfl
          | exact evOk_of_eq (I.ok_fin ht rfl) rfl
          | exact evOk_of_eq (evOk_mark rfl (I.globalOk_ev' .mark i 0 1 (by simp))) rfl
          | exact evOk_of_eq (evOk_mark rfl (I.globalOk_ev' .mark i 0 3 (by simp))) rfl
          | (rename_i hsp _ _ hc; exact evOk_of_eq (I.ok_closerLoop hsp hc) rfl)
          | (rename_i hsp _ hc; exact evOk_of_eq (evOk_mark rfl (I.ok_mark4 i _ hsp hc)) rfl)))

theorem Inv.ok_alt {cap s} (I : Inv cap s) {s' : St} {i : Nat} {t : Thread} (ht : s.threads[i]? = some t)
    (h : altStep s i t = some s') : ∃ es, s'.log = s.log ++ es ∧ logOkFrom cap s.log es = true := by
  obtain ⟨kind, pc, ret⟩ := t
  alt_cases h
  all_goals (
    refine ⟨_, rfl, ?_⟩
    first
      | exact logOkFrom_nil cap s.log
      | (rw [logOkFrom_single]; first
          | exact evOk_of_eq (I.ok_cancelOwn ht (Or.inl rfl)) rfl
          | exact evOk_of_eq (I.ok_cancelOwn ht (Or.inr rfl)) rfl))

theorem Inv.ok_step {cap s} (I : Inv cap s) {s' : St} {i : Nat} {a : Act} (h : step s i a = some s') :
    ∃ es, s'.log = s.log ++ es ∧ logOkFrom cap s.log es = true := by
  obtain ⟨t, ht, ⟨_, hg⟩ | ⟨_, hg⟩ | ⟨_, hg⟩⟩ := step_elim h
  · exact I.ok_go ht hg
  · obtain ⟨v, hr, hv, rfl⟩ := retStep_elim hg
    exact ⟨_, rfl, by rw [logOkFrom_single]; exact I.ok_ret ht hr hv⟩
  · exact I.ok_alt ht hg

/-- **Every reachable log satisfies `LogOk`** — whatever the number of calls and their interleaving. -/
theorem logOk_reach {cap : Nat} {s : St} (h : Reach cap s) : logOk cap s.log = true := by
  induction h with
  | init => rfl
  | spawn s k hr ih =>
    simp only [spawn]
    rw [logOk_append, ih, logOkFrom_single, (inv_reach hr).ok_call k]; rfl
  | step s s' i a hr hs ih =>
    obtain ⟨es, hl, hok⟩ := (inv_reach hr).ok_step hs
    rw [hl, logOk_append, ih, hok]; rfl

end Shk.Stopper
