import ShkModel.Lemmas.StopperCancel
/-! Closers are called exactly once. -/
namespace Shk.Stopper

/-- how a step touches the closers -/
inductive CSum (s s' : St) (i : Nat) (t : Thread) : Prop
  | plain (hhas : ∀ x, has s'.log .closer x = has s.log .closer x) (hcl : s'.closers = s.closers)
      (hpre : calledPrefix s' = calledPrefix s)
      (hthr : ∃ t', s'.threads = s.threads.set i t' ∧ t'.kind = t.kind ∧ (t.kind = .closer → (t'.pc == .done) = (t.pc == .done)))
  | register (hhas : ∀ x, has s'.log .closer x = has s.log .closer x) (hcl : s'.closers = s.closers ++ [i])
      (hpre : calledPrefix s' = []) (hpre0 : calledPrefix s = []) (hk : t.kind = .closer) (hpc : t.pc = .init)
      (hthr : ∃ t', s'.threads = s.threads.set i t' ∧ t'.kind = t.kind)
  | imm (hk : t.kind = .closer) (hpc : t.pc = .cImm) (hlog : ∃ e, s'.log = s.log ++ [e] ∧ e.k = .closer ∧ e.id = i)
      (hcl : s'.closers = s.closers) (hpre : calledPrefix s' = calledPrefix s)
      (hthr : ∃ t', s'.threads = s.threads.set i t' ∧ t'.kind = t.kind ∧ t'.pc = .done)
  | loop (k c : Nat) (hsp : s.sp = .closers k) (hc : s.closers[k]? = some c) (hsp' : s'.sp = .closers (k + 1))
      (hcl : s'.closers = s.closers) (hlog : ∃ e, s'.log = s.log ++ [e] ∧ e.k = .closer ∧ e.id = c) (hk : t.kind = .stop)
      (hthr : ∃ t', s'.threads = s.threads.set i t' ∧ t'.kind = t.kind)

theorem has_closer_cancelEvs (s : St) (ids : List Nat) (c x : Nat) : has (s.cancelEvs ids c) .closer x = false :=
  has_cancelMap s ids c .closer x (by decide)
theorem has_closer_quiesceEvs (s : St) (who x : Nat) : has (s.quiesceEvs who) .closer x = false :=
  has_quiesceEvs s who .closer x (by decide) (by decide)

theorem csum_go {s s' : St} {i : Nat} {t : Thread} (h : goStep s i t = some s') (p : Ph s) : CSum s s' i t := by
  have hsc := p.sclosed
  have hidle := p.idle
  obtain ⟨kind, pc, ret⟩ := t
  go_cases h
  all_goals first
    | (refine CSum.plain ?_ rfl ?_ ⟨_, rfl, rfl, by first | (simp; done) | (intro _; simp only []; decide)⟩
       · intro x; simp [St.upd, St.ev, has_closer_cancelEvs, has_closer_quiesceEvs]
       · first
           | rfl
           | (simp [St.upd, calledPrefix]; done)
           | (simp_all [St.upd, calledPrefix, List.take_of_length_le]; done)
       done)
    | (refine CSum.register ?_ rfl ?_ ?_ rfl rfl ⟨_, rfl, rfl⟩
       · intro x; simp [St.upd]
       · simp_all [St.upd, calledPrefix]; split <;> simp_all
       · simp_all [calledPrefix]; split <;> simp_all
       done)
    | (exact CSum.imm rfl rfl ⟨_, rfl, rfl, rfl⟩ rfl rfl ⟨_, rfl, rfl, rfl⟩)
    | (exact CSum.loop _ _ (by assumption) (by assumption) rfl rfl ⟨_, rfl, rfl, rfl⟩ rfl ⟨_, rfl, rfl⟩)

theorem csum_alt {s s' : St} {i : Nat} {t : Thread} (h : altStep s i t = some s') : CSum s s' i t := by
  obtain ⟨kind, pc, ret⟩ := t
  alt_cases h
  all_goals (
    refine CSum.plain ?_ rfl rfl ⟨_, rfl, rfl, by simp⟩
    intro x; simp [St.upd, St.ev])

theorem csum_step {s s' : St} {i : Nat} {a : Act} (h : step s i a = some s') (p : Ph s) :
    ∃ t, s.threads[i]? = some t ∧ CSum s s' i t := by
  obtain ⟨t, ht, ⟨_, hg⟩ | ⟨_, hg⟩ | ⟨_, hg⟩⟩ := step_elim h
  · exact ⟨t, ht, csum_go hg p⟩
  · obtain ⟨v, _, _, rfl⟩ := retStep_elim hg
    refine ⟨t, ht, CSum.plain ?_ rfl rfl ⟨_, rfl, rfl, fun _ => rfl⟩⟩
    intro x; simp [St.upd, St.ev]
  · exact ⟨t, ht, csum_alt hg⟩

theorem has_snoc {l : List Ev} {e : Ev} {k : EK} (hk : e.k = k) (x : Nat) :
    has (l ++ [e]) k x = (has l k x || e.id == x) := by
  simp [hk]

structure KInv (s : St) : Prop where
  reg : ∀ c ∈ s.closers, has s.log .closer c = decide (c ∈ calledPrefix s)
  imm : ∀ j t, s.threads[j]? = some t → t.kind = .closer → j ∉ s.closers → has s.log .closer j = (t.pc == .done)

theorem take_succ_of_getElem? {l : List Nat} {k c : Nat} (h : l[k]? = some c) : l.take (k + 1) = l.take k ++ [c] := by
  rw [List.take_add_one, h]; rfl

theorem kinv_step {s s' : St} {i : Nat} {t : Thread} (ht : s.threads[i]? = some t) (cs : CSum s s' i t)
    (li : ListsInv s) (ih : KInv s) : KInv s' := by
  obtain ⟨r, m⟩ := ih
  cases cs with
  | plain hhas hcl hpre hthr =>
    obtain ⟨t', hthr, hk, hpc⟩ := hthr
    refine ⟨?_, ?_⟩
    · intro c hc; rw [hcl] at hc; rw [hhas, hpre]; exact r c hc
    · intro j tj hj hkj hnj
      rw [hcl] at hnj; rw [hhas]
      rw [hthr] at hj
      rcases getElem?_set_cases _ _ _ _ _ hj with ⟨rfl, rfl, _⟩ | ⟨hne, hj⟩
      · rw [hpc (hk ▸ hkj)]; exact m j t ht (hk ▸ hkj) hnj
      · exact m j tj hj hkj hnj
  | register hhas hcl hpre hpre0 hk hpc hthr =>
    obtain ⟨t', hthr, hk'⟩ := hthr
    have hfresh := li.fresh i t ht hk (Or.inl hpc)
    refine ⟨?_, ?_⟩
    · intro c hc
      rw [hcl] at hc; rw [hhas, hpre]
      rcases List.mem_append.mp hc with hc | hc
      · rw [r c hc, hpre0]
      · simp at hc; subst hc
        rw [m c t ht hk hfresh, hpc]; rfl
    · intro j tj hj hkj hnj
      rw [hcl] at hnj; rw [hhas]
      have hji : j ≠ i := by intro e; apply hnj; simp [e]
      have hnj' : j ∉ s.closers := fun e => hnj (List.mem_append_left _ e)
      rw [hthr] at hj
      rcases getElem?_set_cases _ _ _ _ _ hj with ⟨rfl, _⟩ | ⟨_, hj⟩
      · exact absurd rfl hji
      · exact m j tj hj hkj hnj'
  | imm hk hpc hlog hcl hpre hthr =>
    obtain ⟨e, hlog, hek, hid⟩ := hlog
    obtain ⟨t', hthr, hk', hpc'⟩ := hthr
    have hfresh := li.fresh i t ht hk (Or.inr hpc)
    refine ⟨?_, ?_⟩
    · intro c hc
      rw [hcl] at hc; rw [hlog, has_snoc hek, hpre, r c hc, hid]
      have : (i == c) = false := by
        apply beq_false_of_ne; intro e; subst e; exact hfresh hc
      simp [this]
    · intro j tj hj hkj hnj
      rw [hcl] at hnj; rw [hlog, has_snoc hek, hid]
      rw [hthr] at hj
      rcases getElem?_set_cases _ _ _ _ _ hj with ⟨rfl, rfl, _⟩ | ⟨hne, hj⟩
      · simp [hpc']
      · have : (i == j) = false := beq_false_of_ne (fun e => hne e.symm)
        rw [this, Bool.or_false]; exact m j tj hj hkj hnj
  | loop k c hsp hc hsp' hcl hlog hk hthr =>
    obtain ⟨e, hlog, hek, hid⟩ := hlog
    obtain ⟨t', hthr, hk'⟩ := hthr
    have hcm : c ∈ s.closers := List.mem_of_getElem? hc
    refine ⟨?_, ?_⟩
    · intro x hx
      rw [hcl] at hx
      rw [hlog, has_snoc hek, r x hx, hid]
      simp only [calledPrefix, hsp, hsp', hcl, take_succ_of_getElem? hc]
      by_cases hcx : c = x
      · subst hcx; simp
      · have : (c == x) = false := beq_false_of_ne hcx
        have hxc : ¬ x = c := fun e => hcx e.symm
        simp [this, hxc]
    · intro j tj hj hkj hnj
      rw [hcl] at hnj
      have hjc : (c == j) = false := beq_false_of_ne (fun e => hnj (e ▸ hcm))
      rw [hlog, has_snoc hek, hid, hjc, Bool.or_false]
      rw [hthr] at hj
      rcases getElem?_set_cases _ _ _ _ _ hj with ⟨rfl, rfl, _⟩ | ⟨hne, hj⟩
      · rw [hk', hk] at hkj; cases hkj
      · exact m j tj hj hkj hnj

theorem kinv_reach {cap : Nat} {s : St} (h : Reach cap s) : KInv s := by
  induction h with
  | init => constructor <;> simp [init]
  | spawn s k hr ih =>
    obtain ⟨r, m⟩ := ih
    refine ⟨?_, ?_⟩
    · intro c hc
      have : has (spawn s k).log .closer c = has s.log .closer c := by simp [spawn, St.ev]
      rw [this]; exact r c hc
    · intro j tj hj hkj hnj
      have : has (spawn s k).log .closer j = has s.log .closer j := by simp [spawn, St.ev]
      rw [this]
      simp only [spawn] at hj
      by_cases hlt : j < s.threads.length
      · rw [List.getElem?_append_left hlt] at hj
        exact m j tj hj hkj hnj
      · rw [List.getElem?_append_right (by omega)] at hj
        have : tj = { kind := k } := by
          by_cases h0 : j - s.threads.length = 0
          · rw [h0] at hj; simp at hj; exact hj.symm
          · have : ([({ kind := k } : Thread)])[j - s.threads.length]? = none := by
              apply List.getElem?_eq_none; simp; omega
            rw [this] at hj; cases hj
        subst this
        have hno : has s.log .closer j = false := by
          apply Bool.eq_false_iff.mpr
          intro hh
          obtain ⟨e, he, _, hid⟩ := exists_of_has hh
          have := ids_reach hr e he
          omega
        rw [hno]; rfl
  | step s s' i a hr hs ih =>
    obtain ⟨t, ht, cs⟩ := csum_step hs (ph_reach hr)
    exact kinv_step ht cs (lists_reach hr) ih

end Shk.Stopper
