import ShkModel.Model.Life
/-! counting lemmas for the life-cycle model (C07) -/
namespace Shk.Life

theorem count_init (n i : Nat) : (initEvs n).count (.initCleanup i) = if i < n then 1 else 0 := by
  unfold initEvs
  induction n with
  | zero => simp
  | succ n ih =>
    rw [List.range_succ, List.map_append, List.count_append, ih]
    by_cases h : n = i
    · subst h; simp
    · have : ¬ (Ev.initCleanup n = Ev.initCleanup i) := by simpa using h
      simp [this]
      split <;> split <;> omega

theorem count_final (n i : Nat) : (finalEvs n).count (.finalCleanup i) = if i < n then 1 else 0 := by
  unfold finalEvs
  induction n with
  | zero => simp
  | succ n ih =>
    rw [List.range_succ, List.map_append, List.count_append, ih]
    by_cases h : n = i
    · subst h; simp
    · have : ¬ (Ev.finalCleanup n = Ev.finalCleanup i) := by simpa using h
      simp [this]
      split <;> split <;> omega

theorem count_init_in_final (n i : Nat) : (finalEvs n).count (.initCleanup i) = 0 := by
  unfold finalEvs; induction n with
  | zero => simp
  | succ n ih => rw [List.range_succ, List.map_append, List.count_append, ih]; simp [List.count_cons]

theorem count_final_in_init (n i : Nat) : (initEvs n).count (.finalCleanup i) = 0 := by
  unfold initEvs; induction n with
  | zero => simp
  | succ n ih => rw [List.range_succ, List.map_append, List.count_append, ih]; simp [List.count_cons]


end Shk.Life
