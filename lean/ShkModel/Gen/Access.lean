import ShkModel.Model.Race
/-! GENERATED on every run by harness/cmd/vaccess from the SSA form of pkg/cmd in the working tree
(goroutine roots and accesses to shared memory; facts only).  Do not edit. -/
namespace Shk.Gen
open Shk.Race

def rootNames : List String := ["main", "app.runConduct#1", "app.runConduct#3", "app.runConduct#2", "app.prepareTerm#1", "prompter.startPrompter#1", "spotMgr.startSpotlights#1", "collector.startCollector#1", "audition.startAudition#1", "app.runForAllActors#1[runCleanup$1]", "prompter.runScene#1", "spotMgr.manageSpotlights#1", "actor.runActorCommandWithConsumer#1[runActorCommand$1]", "actor.runActorCommandWithConsumer#2[runActorCommand$1]", "runReaderAsync#1", "actor.runActorCommandWithConsumer#1[spotlight$1]", "actor.runActorCommandWithConsumer#2[spotlight$1]"]

def locNames : List String := [
  "Artifact.Children",
  "Artifact.Children[]",
  "Result.Artifacts",
  "Result.Artifacts[]",
  "Result.Diffs[]",
  "[]interface{}[]",
  "[]plotgroup[]",
  "actionReport.failOk",
  "actor.actionScripts[]",
  "actor.cleanupScript",
  "actor.hasData",
  "actor.spotlightScript",
  "actor.workDir",
  "app.isTerminal",
  "app.maxTime",
  "app.minTime",
  "app.startTime",
  "app.stopper",
  "app.terminalWidth",
  "audMember.auditor",
  "audMember.auditor[]",
  "audMember.mentioned",
  "audMember.observer",
  "audMember.observer[]",
  "auditionReport.output",
  "auditionReport.result",
  "auditionResults.actChanges",
  "auditionResults.actChanges[]",
  "auditionResults.moodPeriods",
  "auditionResults.moodPeriods[]",
  "auditionResults.numRepeats",
  "auditionState.auditorStates[]",
  "auditionState.curActivated[]",
  "auditionState.curMood",
  "auditionState.curMoodStart",
  "auditionState.curVals[]",
  "auditor.hasData",
  "auditor.name",
  "auditorState.activated",
  "auditorState.auditing",
  "collectedSignal.drawEvents",
  "collectedSignal.hasData",
  "collectorState.badCounts[]",
  "collectorState.errors",
  "collectorState.errors[]",
  "collectorState.goodCounts[]",
  "config.asciiOnly",
  "config.authors",
  "config.authors[]",
  "config.dataDir",
  "config.defines",
  "config.diffs",
  "config.diffs[]",
  "config.doPrint",
  "config.earlyExit",
  "config.extraInterpretation",
  "config.extraScript",
  "config.includePath",
  "config.includePath[]",
  "config.keepArtifacts",
  "config.pVarNames",
  "config.pVarNames[]",
  "config.pVars[]",
  "config.parseOnly",
  "config.play",
  "config.play[]",
  "config.quiet",
  "config.removeAll",
  "config.roleNames",
  "config.roleNames[]",
  "config.roles[]",
  "config.seeAlso",
  "config.seeAlso[]",
  "config.skipPlot",
  "config.subDir",
  "config.titleStrings",
  "config.titleStrings[]",
  "config.uploadURL",
  "config.varNames",
  "config.varNames[]",
  "config.vars[]",
  "errorCollection.errs",
  "errorCollection.errs[]",
  "exec.Cmd.Dir",
  "exec.Cmd.Stdin",
  "exec.Cmd.Stdout",
  "exec.Cmd.SysProcAttr",
  "fsm.edges",
  "fsm.labels",
  "fsm.name",
  "fsm.startState",
  "fsm.stateNames",
  "fsmEval.curState",
  "fsmEval.fsm",
  "fsmEval.labelMap",
  "local actor.runActorCommand.outbuf",
  "local actor.runActorCommandWithConsumer.stopRead",
  "local config.parseRole.parserNames[]",
  "local config.preprocReplace.err",
  "map[string]bool[]",
  "observer.hasData",
  "outputFiles.files[]",
  "outputFiles.writers[]",
  "parser.curLine",
  "pflag.Flag.NoOptDefVal",
  "plotgroup.plots[]",
  "reader.diffs[]",
  "reader.includePath",
  "reader.readers",
  "reader.readers[]",
  "role.actionCmds[]",
  "role.actionNames",
  "role.actionNames[]",
  "role.cleanupCmd",
  "role.sigNames",
  "role.sigNames[]",
  "role.sigParsers",
  "role.sigParsers[]",
  "role.spotlightCmd",
  "scene.concurrentLines",
  "scene.concurrentLines[]",
  "scene.waitUntil",
  "scriptLine.steps",
  "scriptLine.steps[]",
  "sigEvent.values",
  "sigEvent.values[]",
  "sink.lastVal",
  "subreader.lineno",
  "subreader.lines",
  "subreader.lines[]",
  "subreader.parent",
  "timeutil.Timer.Read",
  "var actionDefRe",
  "var activeRe",
  "var actorDefRe",
  "var actorsRe",
  "var adjList",
  "var advList",
  "var audienceRe",
  "var automata",
  "var cleanupDefRe",
  "var collectFns",
  "var collectsRe",
  "var computesRe",
  "var editRe",
  "var entailsRe",
  "var errAuditViolation",
  "var errInterrupted",
  "var evalFunctions",
  "var evalFunctions[]",
  "var expectsRe",
  "var expectsSameRe",
  "var foulRe",
  "var identRe",
  "var ignoreRe",
  "var init$guard",
  "var interpretationRe",
  "var measuresRe",
  "var moodChangeRe",
  "var narratorCtx",
  "var noPlotRe",
  "var nounsList",
  "var paramRe",
  "var parseDefRe",
  "var preprocRe",
  "var registry",
  "var repeatAlwaysRe",
  "var repeatCountRe",
  "var repeatRe",
  "var repeatTimeoutRe",
  "var roleRe",
  "var scriptRe",
  "var spotlightDefRe",
  "var storyLineRe",
  "var tempoRe",
  "var watchRe",
  "var watchVarRe",
  "variable.watcherNames",
  "variable.watcherNames[]",
  "variable.watchers[]",
  "workerRegistry.mu.numWorkers",
  "workerRegistry.mu.workers[]"
]

def lockNames : List String := ["workerRegistry.Mutex"]

/-- parents, multi, once, joined, joinBeforeDone, leaks -/
def roots : List Root := [
  ⟨[], false, false, false, [], []⟩,  -- 0 main (main ) func Run()
  ⟨[0], false, true, true, [], ["app.runConduct: return errors.Errorf(\"time limit reached, initiating hard shutdown\")"]⟩,  -- 1 app.runConduct#1 (worker run.go:264) runWorker(playCtx, ap.stopper, func(ctx context.Context) {
  ⟨[0], false, true, false, [], []⟩,  -- 2 app.runConduct#3 (go run.go:348) go func() {
  ⟨[0], false, false, false, [], []⟩,  -- 3 app.runConduct#2 (go run.go:286) go func() {
  ⟨[0], false, true, false, [], []⟩,  -- 4 app.prepareTerm#1 (go app.go:91) go ap.handleResize(stdout)
  ⟨[1], false, true, true, [1], []⟩,  -- 5 prompter.startPrompter#1 (worker conductor.go:259) runWorker(promptCtx, pr.stopper, func(ctx context.Context) {
  ⟨[1], false, true, true, [1], []⟩,  -- 6 spotMgr.startSpotlights#1 (worker conductor.go:321) runWorker(spotCtx, spm.stopper, func(ctx context.Context) {
  ⟨[1], false, true, true, [1], []⟩,  -- 7 collector.startCollector#1 (worker conductor.go:301) runWorker(colCtx, col.stopper, func(ctx context.Context) {
  ⟨[1], false, true, true, [1], []⟩,  -- 8 audition.startAudition#1 (worker conductor.go:281) runWorker(auCtx, au.stopper, func(ctx context.Context) {
  ⟨[1], true, false, true, [1], []⟩,  -- 9 app.runForAllActors#1[runCleanup$1] (worker conductor.go:376) runWorker(actCtx, ap.stopper, func(ctx context.Context) {
  ⟨[5], true, false, true, [5], []⟩,  -- 10 prompter.runScene#1 (task prompt.go:209) if err := runAsyncTask(lineCtx, pr.stopper, func(ctx context.Context) {
  ⟨[6], true, false, true, [6], []⟩,  -- 11 spotMgr.manageSpotlights#1 (worker spotlight.go:74) runWorker(spotCtx, spm.stopper, func(ctx context.Context) {
  ⟨[9, 10], false, false, true, [9, 10], []⟩,  -- 12 actor.runActorCommandWithConsumer#1[runActorCommand$1] (go commands.go:157) go func() {
  ⟨[9, 10], true, false, false, [], []⟩,  -- 13 actor.runActorCommandWithConsumer#2[runActorCommand$1] (go commands.go:226) go func() {
  ⟨[9, 10, 11], true, false, false, [], []⟩,  -- 14 runReaderAsync#1 (worker commands.go:384) runWorker(readCtx, stopper, func(ctx context.Context) {
  ⟨[11], false, true, true, [11], []⟩,  -- 15 actor.runActorCommandWithConsumer#1[spotlight$1] (go commands.go:157) go func() {
  ⟨[11], true, false, false, [], []⟩  -- 16 actor.runActorCommandWithConsumer#2[spotlight$1] (go commands.go:226) go func() {
]

namespace R
def «main» : Nat := 0
def «app.runConduct#1» : Nat := 1
def «app.runConduct#3» : Nat := 2
def «app.runConduct#2» : Nat := 3
def «app.prepareTerm#1» : Nat := 4
def «prompter.startPrompter#1» : Nat := 5
def «spotMgr.startSpotlights#1» : Nat := 6
def «collector.startCollector#1» : Nat := 7
def «audition.startAudition#1» : Nat := 8
def «app.runForAllActors#1[runCleanup$1]» : Nat := 9
def «prompter.runScene#1» : Nat := 10
def «spotMgr.manageSpotlights#1» : Nat := 11
def «actor.runActorCommandWithConsumer#1[runActorCommand$1]» : Nat := 12
def «actor.runActorCommandWithConsumer#2[runActorCommand$1]» : Nat := 13
def «runReaderAsync#1» : Nat := 14
def «actor.runActorCommandWithConsumer#1[spotlight$1]» : Nat := 15
def «actor.runActorCommandWithConsumer#2[spotlight$1]» : Nat := 16
end R

namespace M
def «workerRegistry.Mutex» : Nat := 0
end M

namespace L
def «Artifact.Children» : Nat := 0
def «Artifact.Children[]» : Nat := 1
def «Result.Artifacts» : Nat := 2
def «Result.Artifacts[]» : Nat := 3
def «Result.Diffs[]» : Nat := 4
def «[]interface{}[]» : Nat := 5
def «[]plotgroup[]» : Nat := 6
def «actionReport.failOk» : Nat := 7
def «actor.actionScripts[]» : Nat := 8
def «actor.cleanupScript» : Nat := 9
def «actor.hasData» : Nat := 10
def «actor.spotlightScript» : Nat := 11
def «actor.workDir» : Nat := 12
def «app.isTerminal» : Nat := 13
def «app.maxTime» : Nat := 14
def «app.minTime» : Nat := 15
def «app.startTime» : Nat := 16
def «app.stopper» : Nat := 17
def «app.terminalWidth» : Nat := 18
def «audMember.auditor» : Nat := 19
def «audMember.auditor[]» : Nat := 20
def «audMember.mentioned» : Nat := 21
def «audMember.observer» : Nat := 22
def «audMember.observer[]» : Nat := 23
def «auditionReport.output» : Nat := 24
def «auditionReport.result» : Nat := 25
def «auditionResults.actChanges» : Nat := 26
def «auditionResults.actChanges[]» : Nat := 27
def «auditionResults.moodPeriods» : Nat := 28
def «auditionResults.moodPeriods[]» : Nat := 29
def «auditionResults.numRepeats» : Nat := 30
def «auditionState.auditorStates[]» : Nat := 31
def «auditionState.curActivated[]» : Nat := 32
def «auditionState.curMood» : Nat := 33
def «auditionState.curMoodStart» : Nat := 34
def «auditionState.curVals[]» : Nat := 35
def «auditor.hasData» : Nat := 36
def «auditor.name» : Nat := 37
def «auditorState.activated» : Nat := 38
def «auditorState.auditing» : Nat := 39
def «collectedSignal.drawEvents» : Nat := 40
def «collectedSignal.hasData» : Nat := 41
def «collectorState.badCounts[]» : Nat := 42
def «collectorState.errors» : Nat := 43
def «collectorState.errors[]» : Nat := 44
def «collectorState.goodCounts[]» : Nat := 45
def «config.asciiOnly» : Nat := 46
def «config.authors» : Nat := 47
def «config.authors[]» : Nat := 48
def «config.dataDir» : Nat := 49
def «config.defines» : Nat := 50
def «config.diffs» : Nat := 51
def «config.diffs[]» : Nat := 52
def «config.doPrint» : Nat := 53
def «config.earlyExit» : Nat := 54
def «config.extraInterpretation» : Nat := 55
def «config.extraScript» : Nat := 56
def «config.includePath» : Nat := 57
def «config.includePath[]» : Nat := 58
def «config.keepArtifacts» : Nat := 59
def «config.pVarNames» : Nat := 60
def «config.pVarNames[]» : Nat := 61
def «config.pVars[]» : Nat := 62
def «config.parseOnly» : Nat := 63
def «config.play» : Nat := 64
def «config.play[]» : Nat := 65
def «config.quiet» : Nat := 66
def «config.removeAll» : Nat := 67
def «config.roleNames» : Nat := 68
def «config.roleNames[]» : Nat := 69
def «config.roles[]» : Nat := 70
def «config.seeAlso» : Nat := 71
def «config.seeAlso[]» : Nat := 72
def «config.skipPlot» : Nat := 73
def «config.subDir» : Nat := 74
def «config.titleStrings» : Nat := 75
def «config.titleStrings[]» : Nat := 76
def «config.uploadURL» : Nat := 77
def «config.varNames» : Nat := 78
def «config.varNames[]» : Nat := 79
def «config.vars[]» : Nat := 80
def «errorCollection.errs» : Nat := 81
def «errorCollection.errs[]» : Nat := 82
def «exec.Cmd.Dir» : Nat := 83
def «exec.Cmd.Stdin» : Nat := 84
def «exec.Cmd.Stdout» : Nat := 85
def «exec.Cmd.SysProcAttr» : Nat := 86
def «fsm.edges» : Nat := 87
def «fsm.labels» : Nat := 88
def «fsm.name» : Nat := 89
def «fsm.startState» : Nat := 90
def «fsm.stateNames» : Nat := 91
def «fsmEval.curState» : Nat := 92
def «fsmEval.fsm» : Nat := 93
def «fsmEval.labelMap» : Nat := 94
def «local actor.runActorCommand.outbuf» : Nat := 95
def «local actor.runActorCommandWithConsumer.stopRead» : Nat := 96
def «local config.parseRole.parserNames[]» : Nat := 97
def «local config.preprocReplace.err» : Nat := 98
def «map[string]bool[]» : Nat := 99
def «observer.hasData» : Nat := 100
def «outputFiles.files[]» : Nat := 101
def «outputFiles.writers[]» : Nat := 102
def «parser.curLine» : Nat := 103
def «pflag.Flag.NoOptDefVal» : Nat := 104
def «plotgroup.plots[]» : Nat := 105
def «reader.diffs[]» : Nat := 106
def «reader.includePath» : Nat := 107
def «reader.readers» : Nat := 108
def «reader.readers[]» : Nat := 109
def «role.actionCmds[]» : Nat := 110
def «role.actionNames» : Nat := 111
def «role.actionNames[]» : Nat := 112
def «role.cleanupCmd» : Nat := 113
def «role.sigNames» : Nat := 114
def «role.sigNames[]» : Nat := 115
def «role.sigParsers» : Nat := 116
def «role.sigParsers[]» : Nat := 117
def «role.spotlightCmd» : Nat := 118
def «scene.concurrentLines» : Nat := 119
def «scene.concurrentLines[]» : Nat := 120
def «scene.waitUntil» : Nat := 121
def «scriptLine.steps» : Nat := 122
def «scriptLine.steps[]» : Nat := 123
def «sigEvent.values» : Nat := 124
def «sigEvent.values[]» : Nat := 125
def «sink.lastVal» : Nat := 126
def «subreader.lineno» : Nat := 127
def «subreader.lines» : Nat := 128
def «subreader.lines[]» : Nat := 129
def «subreader.parent» : Nat := 130
def «timeutil.Timer.Read» : Nat := 131
def «var actionDefRe» : Nat := 132
def «var activeRe» : Nat := 133
def «var actorDefRe» : Nat := 134
def «var actorsRe» : Nat := 135
def «var adjList» : Nat := 136
def «var advList» : Nat := 137
def «var audienceRe» : Nat := 138
def «var automata» : Nat := 139
def «var cleanupDefRe» : Nat := 140
def «var collectFns» : Nat := 141
def «var collectsRe» : Nat := 142
def «var computesRe» : Nat := 143
def «var editRe» : Nat := 144
def «var entailsRe» : Nat := 145
def «var errAuditViolation» : Nat := 146
def «var errInterrupted» : Nat := 147
def «var evalFunctions» : Nat := 148
def «var evalFunctions[]» : Nat := 149
def «var expectsRe» : Nat := 150
def «var expectsSameRe» : Nat := 151
def «var foulRe» : Nat := 152
def «var identRe» : Nat := 153
def «var ignoreRe» : Nat := 154
def «var init$guard» : Nat := 155
def «var interpretationRe» : Nat := 156
def «var measuresRe» : Nat := 157
def «var moodChangeRe» : Nat := 158
def «var narratorCtx» : Nat := 159
def «var noPlotRe» : Nat := 160
def «var nounsList» : Nat := 161
def «var paramRe» : Nat := 162
def «var parseDefRe» : Nat := 163
def «var preprocRe» : Nat := 164
def «var registry» : Nat := 165
def «var repeatAlwaysRe» : Nat := 166
def «var repeatCountRe» : Nat := 167
def «var repeatRe» : Nat := 168
def «var repeatTimeoutRe» : Nat := 169
def «var roleRe» : Nat := 170
def «var scriptRe» : Nat := 171
def «var spotlightDefRe» : Nat := 172
def «var storyLineRe» : Nat := 173
def «var tempoRe» : Nat := 174
def «var watchRe» : Nat := 175
def «var watchVarRe» : Nat := 176
def «variable.watcherNames» : Nat := 177
def «variable.watcherNames[]» : Nat := 178
def «variable.watchers[]» : Nat := 179
def «workerRegistry.mu.numWorkers» : Nat := 180
def «workerRegistry.mu.workers[]» : Nat := 181
def «Artifact.ContentType» : Nat := 182
def «Artifact.FileName» : Nat := 183
def «Artifact.Icon» : Nat := 184
def «Artifact.IsDir» : Nat := 185
def «Artifact.Path» : Nat := 186
def «RepeatSection.StartTime» : Nat := 187
def «Result.Authors» : Nat := 188
def «Result.Config» : Nat := 189
def «Result.ConfigHTML» : Nat := 190
def «Result.ConfigHash» : Nat := 191
def «Result.ConfigHashHTML» : Nat := 192
def «Result.Diffs» : Nat := 193
def «Result.Error» : Nat := 194
def «Result.Foul» : Nat := 195
def «Result.MaxTime» : Nat := 196
def «Result.MinTime» : Nat := 197
def «Result.PlayDuration» : Nat := 198
def «Result.PlayDurationVerbose» : Nat := 199
def «Result.Repeat» : Nat := 200
def «Result.SeeAlso» : Nat := 201
def «Result.Steps» : Nat := 202
def «Result.StepsHTML» : Nat := 203
def «Result.Timestamp» : Nat := 204
def «Result.TimestampHTML» : Nat := 205
def «Result.Title» : Nat := 206
def «Result.Version» : Nat := 207
def «[]*logtags.Buffer[]» : Nat := 208
def «[]func()[]» : Nat := 209
def «[]reflect.Value[]» : Nat := 210
def «[]string[]» : Nat := 211
def «actChange.actNum» : Nat := 212
def «actChange.ts» : Nat := 213
def «actionGroup.actions» : Nat := 214
def «actionGroup.actions[]» : Nat := 215
def «actionGroup.actor» : Nat := 216
def «actionReport.action» : Nat := 217
def «actionReport.actor» : Nat := 218
def «actionReport.duration» : Nat := 219
def «actionReport.extOutput» : Nat := 220
def «actionReport.output» : Nat := 221
def «actionReport.result» : Nat := 222
def «actionReport.startTime» : Nat := 223
def «actor.actionScripts» : Nat := 224
def «actor.extraEnv» : Nat := 225
def «actor.name» : Nat := 226
def «actor.role» : Nat := 227
def «actor.shellPath» : Nat := 228
def «actor.sinkNames» : Nat := 229
def «actor.sinkNames[]» : Nat := 230
def «actor.sinks» : Nat := 231
def «actor.sinks[]» : Nat := 232
def «app.cfg» : Nat := 233
def «app.endCh» : Nat := 234
def «app.log» : Nat := 235
def «assignment.N» : Nat := 236
def «assignment.assignMode» : Nat := 237
def «assignment.targetVar» : Nat := 238
def «audClause.defines» : Nat := 239
def «audClause.text» : Nat := 240
def «audClause.uses» : Nat := 241
def «audClause.uses[]» : Nat := 242
def «audienceMember.name» : Nat := 243
def «auditError.auditor» : Nat := 244
def «auditError.error» : Nat := 245
def «auditError.ts» : Nat := 246
def «auditableValue.typ» : Nat := 247
def «auditableValue.val» : Nat := 248
def «audition.cfg» : Nat := 249
def «audition.collCh» : Nat := 250
def «audition.errCh» : Nat := 251
def «audition.eventCh» : Nat := 252
def «audition.logger» : Nat := 253
def «audition.r» : Nat := 254
def «audition.res» : Nat := 255
def «audition.stopper» : Nat := 256
def «auditionReport.auditor» : Nat := 257
def «auditionReport.ts» : Nat := 258
def «auditionState.auditorStates» : Nat := 259
def «auditionState.curActivated» : Nat := 260
def «auditionState.curVals» : Nat := 261
def «auditor.assignments» : Nat := 262
def «auditor.expectFsm» : Nat := 263
def «auditor.foulOnBad» : Nat := 264
def «auditor.foulOnGood» : Nat := 265
def «collector.cfg» : Nat := 266
def «collector.errCh» : Nat := 267
def «collector.eventCh» : Nat := 268
def «collector.logger» : Nat := 269
def «collector.r» : Nat := 270
def «collector.stopper» : Nat := 271
def «collectorState.badCounts» : Nat := 272
def «collectorState.goodCounts» : Nat := 273
def «config.actorNames» : Nat := 274
def «config.actorNames[]» : Nat := 275
def «config.actors» : Nat := 276
def «config.actors[]» : Nat := 277
def «config.audience» : Nat := 278
def «config.audienceNames» : Nat := 279
def «config.audienceNames[]» : Nat := 280
def «config.audience[]» : Nat := 281
def «config.avoidTimeProgress» : Nat := 282
def «config.defines[]» : Nat := 283
def «config.extraInterpretation[]» : Nat := 284
def «config.extraScript[]» : Nat := 285
def «config.gnuplotPath» : Nat := 286
def «config.narration» : Nat := 287
def «config.pVars» : Nat := 288
def «config.repeatActNum» : Nat := 289
def «config.repeatCount» : Nat := 290
def «config.repeatFrom» : Nat := 291
def «config.repeatTimeout» : Nat := 292
def «config.roles» : Nat := 293
def «config.sceneSpecChars» : Nat := 294
def «config.sceneSpecChars[]» : Nat := 295
def «config.sceneSpecs» : Nat := 296
def «config.sceneSpecs[]» : Nat := 297
def «config.shellPath» : Nat := 298
def «config.skipLoggingInit» : Nat := 299
def «config.storyLine» : Nat := 300
def «config.storyLine[]» : Nat := 301
def «config.tempo» : Nat := 302
def «config.textPlotHeight» : Nat := 303
def «config.textPlotTerm» : Nat := 304
def «config.textPlotWidth» : Nat := 305
def «config.vars» : Nat := 306
def «exec.Cmd.Args» : Nat := 307
def «exec.Cmd.Process» : Nat := 308
def «exec.Cmd.ProcessState» : Nat := 309
def «exec.Cmd.Stderr» : Nat := 310
def «expr.compiled» : Nat := 311
def «expr.deps» : Nat := 312
def «expr.deps[]» : Nat := 313
def «expr.src» : Nat := 314
def «fsm.edges[]» : Nat := 315
def «fsm.edges[][]» : Nat := 316
def «fsm.labels[]» : Nat := 317
def «fsm.stateNames[]» : Nat := 318
def «fsmEval.labelMap[]» : Nat := 319
def «govaluate.EvaluableExpression» : Nat := 320
def «local Run.cfg» : Nat := 321
def «local actor.runActorCommandWithConsumer.cmd» : Nat := 322
def «local actor.runActorCommandWithConsumer.consumer» : Nat := 323
def «local actor.runActorCommandWithConsumer.ctx» : Nat := 324
def «local actor.runActorCommandWithConsumer.interrupt» : Nat := 325
def «local actor.runActorCommandWithConsumer.killCmd» : Nat := 326
def «local actor.runActorCommandWithConsumer.lines» : Nat := 327
def «local actor.runActorCommandWithConsumer.readerDone» : Nat := 328
def «local actor.runActorCommandWithConsumer.stopRequested» : Nat := 329
def «local actor.runActorCommandWithConsumer.termCh» : Nat := 330
def «local actor.runActorCommandWithConsumer.waitDone» : Nat := 331
def «local app.collectArtifactsRec.ap» : Nat := 332
def «local app.collectArtifactsRec.dir» : Nat := 333
def «local app.removeNonUploadableFiles.ap» : Nat := 334
def «local app.runConduct.ap» : Nat := 335
def «local app.runConduct.ctx» : Nat := 336
def «local app.runConduct.errChan» : Nat := 337
def «local app.runConduct.infoCh» : Nat := 338
def «local app.runConduct.shutdownCtx» : Nat := 339
def «local app.runForAllActors.a» : Nat := 340
def «local app.runForAllActors.ap» : Nat := 341
def «local app.runForAllActors.errCh» : Nat := 342
def «local app.runForAllActors.pScript» : Nat := 343
def «local audition.startAudition.au» : Nat := 344
def «local collector.startCollector.col» : Nat := 345
def «local config.parseRole.parserNames» : Nat := 346
def «local config.parseRole.thisRole» : Nat := 347
def «local config.preprocReplace.cfg» : Nat := 348
def «local fw.cat» : Nat := 349
def «local prompter.runScene.a» : Nat := 350
def «local prompter.runScene.errCh» : Nat := 351
def «local prompter.runScene.pr» : Nat := 352
def «local prompter.runScene.steps» : Nat := 353
def «local prompter.runScene.stopOnError» : Nat := 354
def «local prompter.startPrompter.pr» : Nat := 355
def «local runAsyncTask.w» : Nat := 356
def «local runReaderAsync.lines» : Nat := 357
def «local runReaderAsync.rd» : Nat := 358
def «local runReaderAsync.readCtx» : Nat := 359
def «local runReaderAsync.readerDone» : Nat := 360
def «local runWorker.fullName» : Nat := 361
def «local runWorker.w» : Nat := 362
def «local spotMgr.manageSpotlights.a» : Nat := 363
def «local spotMgr.manageSpotlights.errCh» : Nat := 364
def «local spotMgr.manageSpotlights.spm» : Nat := 365
def «local spotMgr.manageSpotlights.spotCtx» : Nat := 366
def «local spotMgr.spotlight.a» : Nat := 367
def «local spotMgr.spotlight.ctx» : Nat := 368
def «local spotMgr.spotlight.spm» : Nat := 369
def «local spotMgr.startSpotlights.spm» : Nat := 370
def «map[string]string[]» : Nat := 371
def «moodChange.newMood» : Nat := 372
def «moodChange.ts» : Nat := 373
def «moodPeriod.endTime» : Nat := 374
def «moodPeriod.mood» : Nat := 375
def «moodPeriod.startTime» : Nat := 376
def «observation.ts» : Nat := 377
def «observation.typ» : Nat := 378
def «observation.val» : Nat := 379
def «observer.disablePlot» : Nat := 380
def «observer.obsVarNames» : Nat := 381
def «observer.obsVars» : Nat := 382
def «observer.obsVars[]» : Nat := 383
def «observer.ylabel» : Nat := 384
def «os.Process.Pid» : Nat := 385
def «outputFiles.files» : Nat := 386
def «outputFiles.writers» : Nat := 387
def «parser.re» : Nat := 388
def «pflag.Flag.Changed» : Nat := 389
def «pflag.Flag.Value» : Nat := 390
def «plot.fName» : Nat := 391
def «plot.opts» : Nat := 392
def «plot.title» : Nat := 393
def «plotgroup.numEvents» : Nat := 394
def «plotgroup.plots» : Nat := 395
def «plotgroup.title» : Nat := 396
def «plotgroup.ylabel» : Nat := 397
def «pos.lineno» : Nat := 398
def «pos.r» : Nat := 399
def «prompter.auditCh» : Nat := 400
def «prompter.cfg» : Nat := 401
def «prompter.collCh» : Nat := 402
def «prompter.errCh» : Nat := 403
def «prompter.numRepeats» : Nat := 404
def «prompter.r» : Nat := 405
def «prompter.stopper» : Nat := 406
def «prompter.termCh» : Nat := 407
def «reader.diffs» : Nat := 408
def «reader.includePath[]» : Nat := 409
def «role.actionCmds» : Nat := 410
def «role.name» : Nat := 411
def «sceneSpec.entails» : Nat := 412
def «sceneSpec.moodEnd» : Nat := 413
def «sceneSpec.moodStart» : Nat := 414
def «sceneSpec.name» : Nat := 415
def «scriptLine.actor» : Nat := 416
def «sigEvent.ts» : Nat := 417
def «sigParser.name» : Nat := 418
def «sigParser.re» : Nat := 419
def «sigParser.reGroup» : Nat := 420
def «sigParser.timeLayout» : Nat := 421
def «sigParser.typ» : Nat := 422
def «sink.observers» : Nat := 423
def «spotMgr.auditCh» : Nat := 424
def «spotMgr.cfg» : Nat := 425
def «spotMgr.errCh» : Nat := 426
def «spotMgr.logger» : Nat := 427
def «spotMgr.r» : Nat := 428
def «spotMgr.stopper» : Nat := 429
def «spotMgr.termCh» : Nat := 430
def «step.action» : Nat := 431
def «step.failOk» : Nat := 432
def «step.typ» : Nat := 433
def «struct{*os.PathError}.Err» : Nat := 434
def «subreader.f» : Nat := 435
def «subreader.file» : Nat := 436
def «subreader.rd» : Nat := 437
def «theater.auErrCh» : Nat := 438
def «theater.colErrCh» : Nat := 439
def «theater.prErrCh» : Nat := 440
def «theater.spotErrCh» : Nat := 441
def «time.Ticker.C» : Nat := 442
def «timeutil.Timer.C» : Nat := 443
def «ttycolor.Profile[]» : Nat := 444
def «var collectFns[]» : Nat := 445
def «varName.actorName» : Nat := 446
def «varName.sigName» : Nat := 447
def «variable.isArray» : Nat := 448
def «variable.watchers» : Nat := 449
def «workerRegistry.mu.workers» : Nat := 450
end L

private def A (r l : Nat) (w a : Bool) (ls : List Nat) (p : Bool) (rel : List (Nat × Rel)) : Access :=
  ⟨r, l, w, a, ls, p, rel⟩

/-- Artifact.Children -/
def g0 : List Access := [
  A 0 0 false false [] false [(1, .post), (2, .mid), (3, .mid), (4, .mid)],  -- app.collectArtifactsRec result.go:267 
  A 0 0 true false [] false [(1, .post), (2, .mid), (3, .mid), (4, .mid)]  -- app.collectArtifactsRec$1 result.go:262 
]

/-- Artifact.Children[] -/
def g1 : List Access := [
  A 0 1 false false [] false [(1, .post), (2, .mid), (3, .mid), (4, .mid)],  -- app.collectArtifacts result.go:223 
  A 0 1 true false [] false [(1, .post), (2, .mid), (3, .mid), (4, .mid)]  -- app.collectArtifactsRec$1 result.go:262 
]

/-- Result.Artifacts -/
def g2 : List Access := [
  A 0 2 false false [] false [(1, .post), (2, .mid), (3, .mid), (4, .mid)],  -- app.collectArtifacts result.go:223 
  A 0 2 true false [] false [(1, .post), (2, .mid), (3, .mid), (4, .mid)]  -- app.collectArtifacts result.go:223 
]

/-- Result.Artifacts[] -/
def g3 : List Access := [
  A 0 3 true false [] false [(1, .post), (2, .mid), (3, .mid), (4, .mid)]  -- app.collectArtifacts result.go:223 
]

/-- Result.Diffs[] -/
def g4 : List Access := [
  A 0 4 true false [] false [(1, .post), (2, .mid), (3, .mid), (4, .mid)]  -- app.assemble result.go:215 
]

/-- []interface{}[] -/
def g5 : List Access := [
  A 8 5 true false [] true [],  -- audition.processAssignments audit.go:515 
  A 8 5 false false [] true []  -- init$19 functions.go:317 
]

/-- []plotgroup[] -/
def g6 : List Access := [
  A 0 6 true false [] false [(1, .post), (2, .mid), (3, .mid), (4, .mid)]  -- app.subPlots plot.go:180 
]

/-- actionReport.failOk -/
def g7 : List Access := [
  A 7 7 false false [] true [],  -- collector.collectActionReport ? reflect
  A 10 7 true false [] true [(13, .mid), (14, .mid)]  -- prompter.runLine prompt.go:269 
]

/-- actor.actionScripts[] -/
def g8 : List Access := [
  A 0 8 true false [] false [(1, .pre), (2, .pre), (3, .pre), (4, .pre)],  -- actor.prepareActionCommands commands.go:279 
  A 10 8 false false [] true [(13, .mid), (14, .mid)]  -- actor.runAction prompt.go:352 
]

/-- actor.cleanupScript -/
def g9 : List Access := [
  A 1 9 false false [] true [(9, .mid)],  -- app.runCleanup$1 conductor.go:343 
  A 0 9 true false [] false [(1, .pre), (2, .pre), (3, .pre), (4, .pre)],  -- actor.prepareActionCommands commands.go:292 
  A 0 9 false false [] false [(1, .pre), (2, .pre), (3, .pre), (4, .pre)]  -- actor.prepareActionCommands commands.go:293 
]

/-- actor.hasData -/
def g10 : List Access := [
  A 7 10 true false [] true [],  -- collector.collectActionReport collector.go:437 
  A 0 10 false false [] false [(1, .post), (2, .mid), (3, .mid), (4, .mid)]  -- app.subPlots$1 plot.go:240 
]

/-- actor.spotlightScript -/
def g11 : List Access := [
  A 0 11 true false [] false [(1, .pre), (2, .pre), (3, .pre), (4, .pre)],  -- actor.prepareActionCommands commands.go:285 
  A 0 11 false false [] false [(1, .pre), (2, .pre), (3, .pre), (4, .pre)],  -- actor.prepareActionCommands commands.go:286 
  A 11 11 false false [] true [(14, .pre), (15, .pre), (16, .pre)]  -- spotMgr.spotlight spotlight.go:136 
]

/-- actor.workDir -/
def g12 : List Access := [
  A 9 12 false false [] true [(12, .pre), (13, .pre), (14, .pre)],  -- actor.makeShCmd commands.go:362 
  A 0 12 false false [] false [(1, .pre), (2, .pre), (3, .pre), (4, .pre)],  -- actor.prepareActionCommands commands.go:273 
  A 0 12 true false [] false [(1, .pre), (2, .pre), (3, .pre), (4, .pre)],  -- config.prepareDirs config.go:209 
  A 10 12 false false [] true [(13, .mid), (14, .mid)],  -- actor.makeShCmd commands.go:362 
  A 11 12 false false [] true [(14, .pre), (15, .pre), (16, .pre)]  -- actor.makeShCmd commands.go:362 
]

/-- app.isTerminal -/
def g13 : List Access := [
  A 15 13 false false [] true [],  -- app.witness app.go:174 
  A 8 13 false false [] true [],  -- app.judge app.go:195 
  A 7 13 false false [] true [],  -- app.narrate app.go:157 
  A 0 13 false false [] false [(1, .mid), (2, .mid), (3, .mid), (4, .mid)],  -- app.narrate app.go:157 
  A 0 13 true false [] false [(1, .pre), (2, .pre), (3, .pre), (4, .pre)],  -- app.prepareTerm app.go:88 
  A 0 13 false false [] false [(1, .pre), (2, .pre), (3, .pre), (4, .pre)],  -- app.prepareTerm app.go:90 
  A 10 13 false false [] true [(13, .mid), (14, .mid)],  -- app.narrate app.go:157 
  A 5 13 false false [] true [(10, .mid)],  -- app.narrate app.go:157 
  A 11 13 false false [] true [(14, .mid), (15, .post), (16, .mid)],  -- app.narrate app.go:157 
  A 11 13 false false [] true [(14, .mid), (15, .pre), (16, .pre)]  -- app.witness app.go:174 
]

/-- app.maxTime -/
def g14 : List Access := [
  A 7 14 false false [] true [],  -- app.expandTimeRange app.go:122 
  A 7 14 true false [] true [],  -- app.expandTimeRange app.go:123 
  A 0 14 false false [] false [(1, .post), (2, .mid), (3, .mid), (4, .mid)],  -- app.assemble result.go:115 
  A 0 14 true false [] false [(1, .post), (2, .mid), (3, .mid), (4, .mid)]  -- app.assemble result.go:120 
]

/-- app.minTime -/
def g15 : List Access := [
  A 7 15 false false [] true [],  -- app.expandTimeRange app.go:125 
  A 7 15 true false [] true [],  -- app.expandTimeRange app.go:126 
  A 0 15 false false [] false [(1, .post), (2, .mid), (3, .mid), (4, .mid)],  -- app.assemble result.go:119 
  A 0 15 true false [] false [(1, .post), (2, .mid), (3, .mid), (4, .mid)]  -- app.assemble result.go:120 
]

/-- app.startTime -/
def g16 : List Access := [
  A 15 16 false false [] true [],  -- app.epoch app.go:76 
  A 1 16 true false [] true [(5, .pre), (6, .pre), (7, .pre), (8, .pre)],  -- app.openDoors app.go:79 
  A 8 16 false false [] true [],  -- app.epoch app.go:76 
  A 0 16 false false [] false [(1, .post), (2, .mid), (3, .mid), (4, .mid)],  -- app.epoch app.go:76 
  A 10 16 false false [] true [(13, .mid), (14, .mid)],  -- app.epoch app.go:76 
  A 5 16 false false [] true [(10, .mid)],  -- app.epoch app.go:76 
  A 11 16 false false [] true [(14, .mid), (15, .pre), (16, .pre)]  -- app.epoch app.go:76 
]

/-- app.stopper -/
def g17 : List Access := [
  A 1 17 false false [] true [(5, .pre), (6, .pre), (7, .pre), (8, .pre)],  -- app.makeTheater conductor.go:203 
  A 1 17 false false [] true [(9, .mid)],  -- app.runForAllActors conductor.go:376 
  A 3 17 false false [] false [],  -- app.runConduct$2$1 run.go:288 
  A 2 17 false false [] false [],  -- app.runConduct$3 run.go:362 
  A 9 17 false false [] true [(12, .pre), (13, .pre), (14, .pre)],  -- app.runForAllActors$3 conductor.go:383 
  A 0 17 true false [] false [(1, .pre), (2, .pre), (3, .pre), (4, .mid)],  -- app.runConduct run.go:261 
  A 0 17 false false [] false [(1, .pre), (2, .pre), (3, .pre), (4, .mid)],  -- app.runConduct run.go:264 
  A 0 17 false false [] false [(1, .mid), (2, .pre), (3, .mid), (4, .mid)],  -- app.runConduct run.go:312 
  A 0 17 false false [] false [(1, .mid), (2, .mid), (3, .mid), (4, .mid)]  -- app.runConduct run.go:393 
]

/-- app.terminalWidth -/
def g18 : List Access := [
  A 15 18 false true [] true [],  -- app.witness app.go:173 
  A 4 18 true true [] false [],  -- app.setTerminalSize app.go:112 
  A 8 18 false true [] true [],  -- app.judge app.go:194 
  A 0 18 true true [] false [(1, .pre), (2, .pre), (3, .pre), (4, .pre)],  -- app.setTerminalSize app.go:112 
  A 11 18 false true [] true [(14, .mid), (15, .pre), (16, .pre)]  -- app.witness app.go:173 
]

/-- audMember.auditor -/
def g19 : List Access := [
  A 0 19 false false [] false [(2, .mid), (3, .mid), (4, .mid)],  -- config.printCfg config.go:553 
  A 0 19 true false [] false [(2, .mid), (3, .mid), (4, .mid)]  -- config.printCfg config.go:554 
]

/-- audMember.auditor[] -/
def g20 : List Access := [
  A 0 20 true false [] false [(2, .mid), (3, .mid), (4, .mid)]  -- config.printCfg config.go:501 
]

/-- audMember.mentioned -/
def g21 : List Access := [
  A 0 21 true false [] false [(2, .mid), (3, .mid), (4, .mid)],  -- config.printCfg config.go:569 
  A 0 21 false false [] false [(2, .mid), (3, .mid), (4, .mid)]  -- config.printCfg config.go:571 
]

/-- audMember.observer -/
def g22 : List Access := [
  A 0 22 false false [] false [(2, .mid), (3, .mid), (4, .mid)],  -- config.printCfg config.go:558 
  A 0 22 true false [] false [(2, .mid), (3, .mid), (4, .mid)]  -- config.printCfg config.go:566 
]

/-- audMember.observer[] -/
def g23 : List Access := [
  A 0 23 true false [] false [(2, .mid), (3, .mid), (4, .mid)],  -- config.printCfg config.go:519 
  A 0 23 false false [] false [(2, .mid), (3, .mid), (4, .mid)]  -- config.printCfg config.go:581 
]

/-- auditionReport.output -/
def g24 : List Access := [
  A 8 24 true false [] true [],  -- audition.processFsmStateChange audit.go:589 
  A 7 24 false false [] true []  -- collector.collectAuditionReport ? reflect
]

/-- auditionReport.result -/
def g25 : List Access := [
  A 8 25 true false [] true [],  -- audition.processFsmStateChange audit.go:592 
  A 7 25 false false [] true []  -- collector.collectAuditionReport ? reflect
]

/-- auditionResults.actChanges -/
def g26 : List Access := [
  A 8 26 false false [] true [],  -- audition.collectAndAuditActChange audit.go:273 
  A 8 26 true false [] true [],  -- audition.collectAndAuditActChange audit.go:273 
  A 0 26 false false [] false [(1, .post), (2, .mid), (3, .mid), (4, .mid)]  -- app.assemble result.go:107 
]

/-- auditionResults.actChanges[] -/
def g27 : List Access := [
  A 8 27 true false [] true [],  -- audition.collectAndAuditActChange audit.go:273 
  A 0 27 false false [] false [(1, .post), (2, .mid), (3, .mid), (4, .mid)]  -- app.assemble ? 
]

/-- auditionResults.moodPeriods -/
def g28 : List Access := [
  A 8 28 false false [] true [],  -- audition.checkFinal audit.go:262 
  A 8 28 true false [] true [],  -- audition.checkFinal audit.go:262 
  A 0 28 false false [] false [(1, .post), (2, .mid), (3, .mid), (4, .mid)]  -- app.assemble result.go:110 
]

/-- auditionResults.moodPeriods[] -/
def g29 : List Access := [
  A 8 29 true false [] true []  -- audition.checkFinal audit.go:262 
]

/-- auditionResults.numRepeats -/
def g30 : List Access := [
  A 0 30 false false [] false [(1, .post), (2, .mid), (3, .mid), (4, .mid)],  -- app.assemble result.go:208 
  A 5 30 true false [] true [(10, .pre)],  -- prompter.prompt prompt.go:49 
  A 5 30 false false [] true [],  -- prompter.prompt prompt.go:136 
  A 5 30 true false [] true []  -- prompter.prompt prompt.go:156 
]

/-- auditionState.auditorStates[] -/
def g31 : List Access := [
  A 1 31 true false [] true [(5, .pre), (6, .pre), (7, .pre), (8, .pre)],  -- makeAuditionState audit.go:151 
  A 8 31 false false [] true []  -- audition.checkEvent audit.go:358 
]

/-- auditionState.curActivated[] -/
def g32 : List Access := [
  A 1 32 true false [] true [(5, .pre), (6, .pre), (7, .pre), (8, .pre)],  -- makeAuditionState audit.go:155 
  A 8 32 false false [] true [],  -- audition.hasDeps expr.go:116 
  A 8 32 true false [] true []  -- audition.resetSigVars audit.go:173 
]

/-- auditionState.curMood -/
def g33 : List Access := [
  A 8 33 false false [] true [],  -- audition.checkEvent audit.go:326 
  A 8 33 true false [] true []  -- audition.processMoodChange audit.go:308 
]

/-- auditionState.curMoodStart -/
def g34 : List Access := [
  A 8 34 false false [] true [],  -- audition.checkEvent audit.go:332 
  A 8 34 true false [] true []  -- audition.processMoodChange audit.go:307 
]

/-- auditionState.curVals[] -/
def g35 : List Access := [
  A 1 35 false false [] true [(5, .pre), (6, .pre), (7, .pre), (8, .pre)],  -- makeAuditionState audit.go:157 
  A 1 35 true false [] true [(5, .pre), (6, .pre), (7, .pre), (8, .pre)],  -- makeAuditionState audit.go:162 
  A 8 35 false false [] true [],  -- audition.processAssignments audit.go:511 
  A 8 35 true false [] true []  -- audition.setAndActivateVar audit.go:650 
]

/-- auditor.hasData -/
def g36 : List Access := [
  A 1 36 false false [] true [(5, .post), (6, .post), (7, .post), (8, .post)],  -- collector.checkAuditViolations collector.go:225 
  A 7 36 false false [] true [],  -- collector.checkAuditViolations collector.go:225 
  A 7 36 true false [] true [],  -- collector.collectAuditionReport collector.go:350 
  A 0 36 false false [] false [(1, .post), (2, .mid), (3, .mid), (4, .mid)]  -- app.subPlots plot.go:169 
]

/-- auditor.name -/
def g37 : List Access := [
  A 1 37 false false [] true [(5, .post), (6, .post), (7, .post), (8, .post)],  -- collector.isPlayFouledByDisappointment collector.go:404 
  A 1 37 true false [] true [(5, .pre), (6, .pre), (7, .pre), (8, .pre)],  -- makeAuditionState audit.go:149 
  A 8 37 false false [] true [],  -- audition.processAssignments audit.go:501 
  A 7 37 false false [] true [],  -- collector.isPlayFouledByDisappointment collector.go:404 
  A 0 37 false false [] false [(2, .mid), (3, .mid), (4, .mid)]  -- auditor.fmtFoul config.go:818 
]

/-- auditorState.activated -/
def g38 : List Access := [
  A 8 38 false false [] true [],  -- audition.checkEvent audit.go:369 
  A 8 38 true false [] true []  -- audition.resetAuditors audit.go:180 
]

/-- auditorState.auditing -/
def g39 : List Access := [
  A 8 39 false false [] true [],  -- audition.checkEvent audit.go:368 
  A 8 39 true false [] true []  -- audition.checkEventForAuditor audit.go:473 
]

/-- collectedSignal.drawEvents -/
def g40 : List Access := [
  A 7 40 true false [] true [],  -- collector.collectObservation collector.go:310 
  A 0 40 false false [] false [(1, .post), (2, .mid), (3, .mid), (4, .mid)]  -- app.subPlots plot.go:153 
]

/-- collectedSignal.hasData -/
def g41 : List Access := [
  A 7 41 true false [] true [],  -- collector.collectObservation collector.go:306 
  A 0 41 false false [] false [(1, .post), (2, .mid), (3, .mid), (4, .mid)]  -- app.subPlots plot.go:141 
]

/-- collectorState.badCounts[] -/
def g42 : List Access := [
  A 1 42 false false [] true [(5, .post), (6, .post), (7, .post), (8, .post)],  -- collector.isPlayFouledByDisappointment collector.go:404 
  A 7 42 false false [] true [],  -- collector.isPlayFouledByDisappointment collector.go:404 
  A 7 42 true false [] true []  -- collector.processAuditResult collector.go:387 
]

/-- collectorState.errors -/
def g43 : List Access := [
  A 1 43 false false [] true [(5, .post), (6, .post), (7, .post), (8, .post)],  -- collector.checkAuditViolations collector.go:216 
  A 7 43 false false [] true [],  -- collector.checkAuditViolations collector.go:216 
  A 7 43 true false [] true []  -- collector.processAuditResult collector.go:379 
]

/-- collectorState.errors[] -/
def g44 : List Access := [
  A 7 44 true false [] true []  -- collector.processAuditResult collector.go:379 
]

/-- collectorState.goodCounts[] -/
def g45 : List Access := [
  A 1 45 false false [] true [(5, .post), (6, .post), (7, .post), (8, .post)],  -- collector.isPlayFouledBySatisfaction collector.go:417 
  A 7 45 false false [] true [],  -- collector.isPlayFouledBySatisfaction collector.go:417 
  A 7 45 true false [] true []  -- collector.processAuditResult collector.go:385 
]

/-- config.asciiOnly -/
def g46 : List Access := [
  A 15 46 false false [] true [],  -- app.witness app.go:170 
  A 8 46 false false [] true [],  -- app.judge app.go:191 
  A 7 46 false false [] true [],  -- app.narrate app.go:151 
  A 0 46 false false [] false [(1, .mid), (2, .mid), (3, .mid), (4, .mid)],  -- app.narrate app.go:151 
  A 0 46 false false [] false [(1, .post), (2, .mid), (3, .mid), (4, .mid)],  -- app.showArtifactDirRec app.go:252 
  A 0 46 true false [] false [(1, .pre), (2, .pre), (3, .pre), (4, .pre)],  -- config.initArgs config.go:138 ext:spf13/pflag.BoolVar
  A 10 46 false false [] true [(13, .mid), (14, .mid)],  -- app.narrate app.go:151 
  A 5 46 false false [] true [(10, .mid)],  -- app.narrate app.go:151 
  A 11 46 false false [] true [(14, .mid), (15, .post), (16, .mid)],  -- app.narrate app.go:151 
  A 11 46 false false [] true [(14, .mid), (15, .pre), (16, .pre)]  -- app.witness app.go:170 
]

/-- config.authors -/
def g47 : List Access := [
  A 0 47 false false [] false [(1, .post), (2, .mid), (3, .mid), (4, .mid)],  -- app.assemble result.go:149 
  A 0 47 false false [] false [(1, .pre), (2, .pre), (3, .pre), (4, .mid)],  -- app.intro app.go:212 
  A 0 47 false false [] false [(1, .pre), (2, .pre), (3, .pre), (4, .pre)],  -- config.parseCfg parsecfg.go:56 
  A 0 47 true false [] false [(1, .pre), (2, .pre), (3, .pre), (4, .pre)],  -- config.parseCfg parsecfg.go:56 
  A 0 47 false false [] false [(2, .mid), (3, .mid), (4, .mid)]  -- config.printCfg config.go:330 
]

/-- config.authors[] -/
def g48 : List Access := [
  A 0 48 true false [] false [(1, .pre), (2, .pre), (3, .pre), (4, .pre)],  -- config.parseCfg parsecfg.go:56 
  A 0 48 false false [] false [(2, .mid), (3, .mid), (4, .mid)]  -- config.printCfg ? 
]

/-- config.dataDir -/
def g49 : List Access := [
  A 7 49 false false [] true [],  -- collector.collect collector.go:153 
  A 0 49 false false [] false [(1, .post), (2, .mid), (3, .mid), (4, .mid)],  -- app.collectArtifacts result.go:222 
  A 0 49 false false [] false [(2, .mid), (3, .mid), (4, .mid)],  -- config.artifactsDir config.go:242 
  A 0 49 true false [] false [(1, .pre), (2, .pre), (3, .pre), (4, .pre)],  -- config.initArgs config.go:129 ext:spf13/pflag.StringVarP
  A 0 49 false false [] false [(1, .pre), (2, .pre), (3, .pre), (4, .pre)]  -- config.prepareDirs config.go:185 
]

/-- config.defines -/
def g50 : List Access := [
  A 0 50 true false [] false [(1, .pre), (2, .pre), (3, .pre), (4, .pre)],  -- config.initArgs config.go:144 ext:spf13/pflag.StringSliceVarP
  A 0 50 false false [] false [(1, .pre), (2, .pre), (3, .pre), (4, .pre)]  -- config.parseDefines config.go:250 
]

/-- config.diffs -/
def g51 : List Access := [
  A 0 51 false false [] false [(1, .pre), (2, .pre), (3, .pre), (4, .pre)],  -- Run$1 run.go:52 
  A 0 51 true false [] false [(1, .pre), (2, .pre), (3, .pre), (4, .pre)],  -- Run$1 run.go:53 
  A 0 51 false false [] false [(1, .post), (2, .mid), (3, .mid), (4, .mid)]  -- app.assemble result.go:158 
]

/-- config.diffs[] -/
def g52 : List Access := [
  A 0 52 true false [] false [(1, .pre), (2, .pre), (3, .pre), (4, .pre)],  -- Run$1 run.go:56 
  A 0 52 false false [] false [(1, .post), (2, .mid), (3, .mid), (4, .mid)]  -- app.assemble result.go:214 
]

/-- config.doPrint -/
def g53 : List Access := [
  A 0 53 false false [] false [(1, .pre), (2, .pre), (3, .pre), (4, .pre)],  -- Run run.go:117 
  A 0 53 true false [] false [(1, .pre), (2, .pre), (3, .pre), (4, .pre)]  -- config.initArgs config.go:133 ext:spf13/pflag.BoolVarP
]

/-- config.earlyExit -/
def g54 : List Access := [
  A 7 54 false false [] true [],  -- collector.processAuditResult collector.go:389 
  A 0 54 true false [] false [(1, .pre), (2, .pre), (3, .pre), (4, .pre)]  -- config.initArgs config.go:136 ext:spf13/pflag.BoolVarP
]

/-- config.extraInterpretation -/
def g55 : List Access := [
  A 0 55 false false [] false [(1, .pre), (2, .pre), (3, .pre), (4, .pre)],  -- Run run.go:102 
  A 0 55 true false [] false [(1, .pre), (2, .pre), (3, .pre), (4, .pre)]  -- config.initArgs config.go:143 ext:spf13/pflag.StringSliceVarP
]

/-- config.extraScript -/
def g56 : List Access := [
  A 0 56 false false [] false [(1, .pre), (2, .pre), (3, .pre), (4, .pre)],  -- Run run.go:80 
  A 0 56 true false [] false [(1, .pre), (2, .pre), (3, .pre), (4, .pre)]  -- config.initArgs config.go:142 ext:spf13/pflag.StringSliceVarP
]

/-- config.includePath -/
def g57 : List Access := [
  A 0 57 false false [] false [(1, .pre), (2, .pre), (3, .pre), (4, .pre)],  -- Run run.go:110 
  A 0 57 true false [] false [(1, .pre), (2, .pre), (3, .pre), (4, .pre)]  -- config.initArgs config.go:137 ext:spf13/pflag.StringSliceVarP
]

/-- config.includePath[] -/
def g58 : List Access := [
  A 0 58 true false [] false [(1, .pre), (2, .pre), (3, .pre), (4, .pre)]  -- config.initArgs config.go:168 
]

/-- config.keepArtifacts -/
def g59 : List Access := [
  A 0 59 true false [] false [(1, .pre), (2, .pre), (3, .pre), (4, .pre)],  -- config.initArgs config.go:132 ext:spf13/pflag.BoolVarP
  A 0 59 false false [] false [(1, .post), (2, .mid), (3, .mid), (4, .mid)]  -- config.run$4 run.go:208 
]

/-- config.pVarNames -/
def g60 : List Access := [
  A 0 60 false false [] false [(1, .pre), (2, .pre), (3, .pre), (4, .pre)],  -- config.parseCfg parsecfg.go:65 
  A 0 60 true false [] false [(1, .pre), (2, .pre), (3, .pre), (4, .pre)]  -- config.parseCfg parsecfg.go:65 
]

/-- config.pVarNames[] -/
def g61 : List Access := [
  A 0 61 true false [] false [(1, .pre), (2, .pre), (3, .pre), (4, .pre)]  -- config.parseCfg parsecfg.go:65 
]

/-- config.pVars[] -/
def g62 : List Access := [
  A 0 62 false false [] false [(1, .pre), (2, .pre), (3, .pre), (4, .pre)],  -- config.parseCfg parsecfg.go:63 
  A 0 62 true false [] false [(1, .pre), (2, .pre), (3, .pre), (4, .pre)]  -- config.parseCfg parsecfg.go:64 
]

/-- config.parseOnly -/
def g63 : List Access := [
  A 0 63 false false [] false [(1, .pre), (2, .pre), (3, .pre), (4, .pre)],  -- Run run.go:132 
  A 0 63 true false [] false [(1, .pre), (2, .pre), (3, .pre), (4, .pre)]  -- config.initArgs config.go:134 ext:spf13/pflag.BoolVarP
]

/-- config.play -/
def g64 : List Access := [
  A 0 64 false false [] false [(1, .post), (2, .mid), (3, .mid), (4, .mid)],  -- app.assemble result.go:207 
  A 0 64 false false [] false [(1, .pre), (2, .pre), (3, .pre), (4, .mid)],  -- app.intro app.go:229 
  A 0 64 true false [] false [(1, .pre), (2, .pre), (3, .pre), (4, .pre)],  -- config.compileV2 compile.go:30 
  A 0 64 false false [] false [(1, .pre), (2, .pre), (3, .pre), (4, .pre)],  -- config.compileV2 compile.go:119 
  A 0 64 false false [] false [(2, .mid), (3, .mid), (4, .mid)],  -- config.printSteps compile.go:133 
  A 5 64 false false [] true []  -- prompter.prompt prompt.go:53 
]

/-- config.play[] -/
def g65 : List Access := [
  A 0 65 true false [] false [(1, .pre), (2, .pre), (3, .pre), (4, .pre)],  -- config.compileV2 compile.go:119 
  A 0 65 false false [] false [(2, .mid), (3, .mid), (4, .mid)],  -- config.printSteps ? 
  A 5 65 false false [] true []  -- prompter.prompt prompt.go:53 
]

/-- config.quiet -/
def g66 : List Access := [
  A 15 66 false false [] true [],  -- app.witness app.go:166 
  A 8 66 false false [] true [],  -- app.judge app.go:187 
  A 7 66 false false [] true [],  -- app.narrate app.go:147 
  A 0 66 false false [] false [(1, .pre), (2, .pre), (3, .pre), (4, .pre)],  -- Run run.go:39 
  A 0 66 false false [] false [(1, .mid), (2, .mid), (3, .mid), (4, .mid)],  -- app.narrate app.go:147 
  A 0 66 true false [] false [(1, .pre), (2, .pre), (3, .pre), (4, .pre)],  -- config.initArgs config.go:135 ext:spf13/pflag.BoolVarP
  A 10 66 false false [] true [(13, .mid), (14, .mid)],  -- app.narrate app.go:147 
  A 5 66 false false [] true [(10, .mid)],  -- app.narrate app.go:147 
  A 11 66 false false [] true [(14, .mid), (15, .post), (16, .mid)],  -- app.narrate app.go:147 
  A 11 66 false false [] true [(14, .mid), (15, .pre), (16, .pre)]  -- app.witness app.go:166 
]

/-- config.removeAll -/
def g67 : List Access := [
  A 0 67 true false [] false [(1, .pre), (2, .pre), (3, .pre), (4, .pre)],  -- config.initArgs config.go:131 ext:spf13/pflag.BoolVar
  A 0 67 false false [] false [(1, .post), (2, .mid), (3, .mid), (4, .mid)]  -- config.run$2 run.go:172 
]

/-- config.roleNames -/
def g68 : List Access := [
  A 0 68 false false [] false [(1, .pre), (2, .pre), (3, .pre), (4, .pre)],  -- config.parseRole parsecfg.go:590 
  A 0 68 true false [] false [(1, .pre), (2, .pre), (3, .pre), (4, .pre)],  -- config.parseRole parsecfg.go:590 
  A 0 68 false false [] false [(2, .mid), (3, .mid), (4, .mid)]  -- config.printCfg config.go:344 
]

/-- config.roleNames[] -/
def g69 : List Access := [
  A 0 69 true false [] false [(1, .pre), (2, .pre), (3, .pre), (4, .pre)],  -- config.parseRole parsecfg.go:590 
  A 0 69 false false [] false [(2, .mid), (3, .mid), (4, .mid)]  -- config.printCfg ? 
]

/-- config.roles[] -/
def g70 : List Access := [
  A 0 70 false false [] false [(1, .pre), (2, .pre), (3, .pre), (4, .pre)],  -- config.parseRole parsecfg.go:567 
  A 0 70 true false [] false [(1, .pre), (2, .pre), (3, .pre), (4, .pre)],  -- config.parseRole parsecfg.go:589 
  A 0 70 false false [] false [(2, .mid), (3, .mid), (4, .mid)]  -- config.printCfg config.go:345 
]

/-- config.seeAlso -/
def g71 : List Access := [
  A 0 71 false false [] false [(1, .post), (2, .mid), (3, .mid), (4, .mid)],  -- app.assemble result.go:150 
  A 0 71 false false [] false [(1, .pre), (2, .pre), (3, .pre), (4, .mid)],  -- app.intro app.go:215 
  A 0 71 false false [] false [(1, .pre), (2, .pre), (3, .pre), (4, .pre)],  -- config.parseCfg parsecfg.go:53 
  A 0 71 true false [] false [(1, .pre), (2, .pre), (3, .pre), (4, .pre)],  -- config.parseCfg parsecfg.go:53 
  A 0 71 false false [] false [(2, .mid), (3, .mid), (4, .mid)]  -- config.printCfg config.go:333 
]

/-- config.seeAlso[] -/
def g72 : List Access := [
  A 0 72 false false [] false [(1, .pre), (2, .pre), (3, .pre), (4, .mid)],  -- app.intro ? 
  A 0 72 true false [] false [(1, .pre), (2, .pre), (3, .pre), (4, .pre)],  -- config.parseCfg parsecfg.go:53 
  A 0 72 false false [] false [(2, .mid), (3, .mid), (4, .mid)]  -- config.printCfg ? 
]

/-- config.skipPlot -/
def g73 : List Access := [
  A 0 73 true false [] false [(1, .pre), (2, .pre), (3, .pre), (4, .pre)],  -- config.initArgs config.go:139 ext:spf13/pflag.BoolVar
  A 0 73 false false [] false [(1, .post), (2, .mid), (3, .mid), (4, .mid)]  -- config.run run.go:233 
]

/-- config.subDir -/
def g74 : List Access := [
  A 0 74 true false [] false [(1, .pre), (2, .pre), (3, .pre), (4, .pre)],  -- config.initArgs config.go:173 
  A 0 74 false false [] false [(1, .pre), (2, .pre), (3, .pre), (4, .pre)]  -- config.prepareDirs config.go:197 
]

/-- config.titleStrings -/
def g75 : List Access := [
  A 0 75 false false [] false [(1, .post), (2, .mid), (3, .mid), (4, .mid)],  -- app.assemble result.go:148 
  A 0 75 false false [] false [(1, .pre), (2, .pre), (3, .pre), (4, .mid)],  -- app.intro app.go:209 
  A 0 75 false false [] false [(1, .pre), (2, .pre), (3, .pre), (4, .pre)],  -- config.parseCfg parsecfg.go:46 
  A 0 75 true false [] false [(1, .pre), (2, .pre), (3, .pre), (4, .pre)],  -- config.parseCfg parsecfg.go:46 
  A 0 75 false false [] false [(2, .mid), (3, .mid), (4, .mid)]  -- config.printCfg config.go:323 
]

/-- config.titleStrings[] -/
def g76 : List Access := [
  A 0 76 true false [] false [(1, .pre), (2, .pre), (3, .pre), (4, .pre)],  -- config.parseCfg parsecfg.go:46 
  A 0 76 false false [] false [(2, .mid), (3, .mid), (4, .mid)]  -- config.printCfg ? 
]

/-- config.uploadURL -/
def g77 : List Access := [
  A 0 77 false false [] false [(1, .post), (2, .mid), (3, .mid), (4, .mid)],  -- app.tryUpload upload.go:15 
  A 0 77 true false [] false [(1, .pre), (2, .pre), (3, .pre), (4, .pre)]  -- config.initArgs config.go:130 ext:spf13/pflag.StringVar
]

/-- config.varNames -/
def g78 : List Access := [
  A 0 78 false false [] false [(1, .pre), (2, .pre), (3, .pre), (4, .pre)],  -- config.maybeAddVar config.go:1050 
  A 0 78 true false [] false [(1, .pre), (2, .pre), (3, .pre), (4, .pre)],  -- config.maybeAddVar config.go:1050 
  A 0 78 false false [] false [(2, .mid), (3, .mid), (4, .mid)]  -- config.printCfg config.go:456 
]

/-- config.varNames[] -/
def g79 : List Access := [
  A 0 79 true false [] false [(1, .pre), (2, .pre), (3, .pre), (4, .pre)]  -- config.maybeAddVar config.go:1050 
]

/-- config.vars[] -/
def g80 : List Access := [
  A 1 80 false false [] true [(5, .pre), (6, .pre), (7, .pre), (8, .pre)],  -- makeAuditionState audit.go:154 
  A 8 80 false false [] true [],  -- audition.resetSigVars audit.go:171 
  A 7 80 false false [] true [],  -- collector.collectObservation collector.go:297 
  A 0 80 false false [] false [(1, .pre), (2, .pre), (3, .pre), (4, .pre)],  -- config.maybeAddVar config.go:1043 
  A 0 80 true false [] false [(1, .pre), (2, .pre), (3, .pre), (4, .pre)],  -- config.maybeAddVar config.go:1049 
  A 0 80 false false [] false [(2, .mid), (3, .mid), (4, .mid)]  -- config.printCfg config.go:457 
]

/-- errorCollection.errs -/
def g81 : List Access := [
  A 12 81 false false [] true [],  -- actor.runActorCommandWithConsumer$1 commands.go:202 
  A 12 81 true false [] true [],  -- actor.runActorCommandWithConsumer$1 commands.go:202 
  A 15 81 false false [] true [],  -- actor.runActorCommandWithConsumer$1 commands.go:202 
  A 15 81 true false [] true [],  -- actor.runActorCommandWithConsumer$1 commands.go:202 
  A 1 81 false false [] true [(5, .mid), (6, .mid), (7, .mid), (8, .mid)],  -- combineErrors errors.go:49 
  A 9 81 false false [] true [(12, .post), (13, .mid), (14, .mid)],  -- actor.runActorCommandWithConsumer commands.go:260 
  A 8 81 false false [] true [],  -- combineErrors errors.go:49 
  A 7 81 false false [] true [],  -- combineErrors errors.go:49 
  A 0 81 false false [] false [(1, .mid), (2, .mid), (3, .mid), (4, .mid)],  -- combineErrors errors.go:49 
  A 0 81 false false [] false [(1, .post), (2, .mid), (3, .mid), (4, .mid)],  -- isError errors.go:29 
  A 10 81 false false [] true [(13, .mid), (14, .mid)],  -- actor.runActorCommandWithConsumer commands.go:260 
  A 5 81 false false [] true [],  -- combineErrors errors.go:49 
  A 11 81 false false [] true [(14, .mid), (15, .post), (16, .mid)],  -- actor.runActorCommandWithConsumer commands.go:260 
  A 6 81 false false [] true []  -- combineErrors errors.go:49 
]

/-- errorCollection.errs[] -/
def g82 : List Access := [
  A 12 82 true false [] true [],  -- actor.runActorCommandWithConsumer$1 commands.go:202 
  A 15 82 true false [] true [],  -- actor.runActorCommandWithConsumer$1 commands.go:202 
  A 1 82 false false [] true [(5, .mid), (6, .mid), (7, .mid), (8, .mid)],  -- combineErrors errors.go:49 
  A 9 82 true false [] true [(12, .pre), (13, .pre), (14, .mid)],  -- actor.runActorCommandWithConsumer commands.go:117 
  A 9 82 false false [] true [(12, .post), (13, .mid), (14, .mid)],  -- actor.runActorCommandWithConsumer commands.go:267 
  A 8 82 false false [] true [],  -- combineErrors errors.go:49 
  A 7 82 false false [] true [],  -- combineErrors errors.go:49 
  A 0 82 false false [] false [(1, .mid), (2, .mid), (3, .mid), (4, .mid)],  -- combineErrors errors.go:49 
  A 0 82 false false [] false [(1, .post), (2, .mid), (3, .mid), (4, .mid)],  -- isError ? 
  A 10 82 true false [] true [(13, .mid), (14, .mid)],  -- actor.runActorCommandWithConsumer commands.go:117 
  A 10 82 false false [] true [(13, .mid), (14, .mid)],  -- actor.runActorCommandWithConsumer commands.go:267 
  A 5 82 false false [] true [],  -- combineErrors errors.go:49 
  A 11 82 true false [] true [(14, .mid), (15, .pre), (16, .pre)],  -- actor.runActorCommandWithConsumer commands.go:117 
  A 11 82 false false [] true [(14, .mid), (15, .post), (16, .mid)],  -- actor.runActorCommandWithConsumer commands.go:267 
  A 6 82 false false [] true []  -- combineErrors errors.go:49 
]

/-- exec.Cmd.Dir -/
def g83 : List Access := [
  A 9 83 true false [] true [(12, .pre), (13, .pre), (14, .pre)],  -- actor.makeShCmd commands.go:362 
  A 9 83 false false [] true [(12, .pre), (13, .pre), (14, .pre)],  -- actor.runActorCommandWithConsumer commands.go:73 
  A 0 83 true false [] false [(1, .post), (2, .mid), (3, .mid), (4, .mid)],  -- app.maybeRunGnuplot plot.go:340 
  A 10 83 true false [] true [(13, .mid), (14, .mid)],  -- actor.makeShCmd commands.go:362 
  A 10 83 false false [] true [(13, .mid), (14, .mid)],  -- actor.runActorCommandWithConsumer commands.go:73 
  A 11 83 true false [] true [(14, .pre), (15, .pre), (16, .pre)],  -- actor.makeShCmd commands.go:362 
  A 11 83 false false [] true [(14, .pre), (15, .pre), (16, .pre)]  -- actor.runActorCommandWithConsumer commands.go:73 
]

/-- exec.Cmd.Stdin -/
def g84 : List Access := [
  A 9 84 true false [] true [(12, .pre), (13, .pre), (14, .pre)],  -- actor.makeShCmd commands.go:361 
  A 10 84 true false [] true [(13, .mid), (14, .mid)],  -- actor.makeShCmd commands.go:361 
  A 11 84 true false [] true [(14, .pre), (15, .pre), (16, .pre)]  -- actor.makeShCmd commands.go:361 
]

/-- exec.Cmd.Stdout -/
def g85 : List Access := [
  A 9 85 true false [] true [(12, .pre), (13, .pre), (14, .pre)],  -- actor.runActorCommandWithConsumer commands.go:79 
  A 10 85 true false [] true [(13, .mid), (14, .mid)],  -- actor.runActorCommandWithConsumer commands.go:79 
  A 11 85 true false [] true [(14, .pre), (15, .pre), (16, .pre)]  -- actor.runActorCommandWithConsumer commands.go:79 
]

/-- exec.Cmd.SysProcAttr -/
def g86 : List Access := [
  A 9 86 true false [] true [(12, .pre), (13, .pre), (14, .pre)],  -- actor.makeShCmd commands.go:359 
  A 10 86 true false [] true [(13, .mid), (14, .mid)],  -- actor.makeShCmd commands.go:359 
  A 11 86 true false [] true [(14, .pre), (15, .pre), (16, .pre)]  -- actor.makeShCmd commands.go:359 
]

/-- fsm.edges -/
def g87 : List Access := [
  A 8 87 false false [] true [],  -- fsmEval.advance pred_fsm.go:45 
  A 0 87 true false [] false [(1, .pre), (2, .pre), (3, .pre), (4, .pre)]  -- init pred_fsm.go:72 
]

/-- fsm.labels -/
def g88 : List Access := [
  A 8 88 false false [] true [],  -- fsmEval.advance pred_fsm.go:43 
  A 0 88 true false [] false [(1, .pre), (2, .pre), (3, .pre), (4, .pre)]  -- init pred_fsm.go:71 
]

/-- fsm.name -/
def g89 : List Access := [
  A 0 89 false false [] false [(1, .post), (2, .mid), (3, .mid), (4, .mid)],  -- app.subPlots plot.go:133 
  A 0 89 false false [] false [(2, .mid), (3, .mid), (4, .mid)],  -- config.printCfg config.go:513 
  A 0 89 true false [] false [(1, .pre), (2, .pre), (3, .pre), (4, .pre)],  -- init pred_fsm.go:68 
  A 0 89 false false [] false [(1, .pre), (2, .pre), (3, .pre), (4, .pre)]  -- init$21 pred_fsm.go:62 
]

/-- fsm.startState -/
def g90 : List Access := [
  A 8 90 false false [] true [],  -- makeFsmEval pred_fsm.go:31 
  A 0 90 true false [] false [(1, .pre), (2, .pre), (3, .pre), (4, .pre)]  -- init pred_fsm.go:69 
]

/-- fsm.stateNames -/
def g91 : List Access := [
  A 8 91 false false [] true [],  -- fsmEval.state pred_fsm.go:35 
  A 0 91 true false [] false [(1, .pre), (2, .pre), (3, .pre), (4, .pre)]  -- init pred_fsm.go:70 
]

/-- fsmEval.curState -/
def g92 : List Access := [
  A 8 92 true false [] true [],  -- audition.startOfAuditPeriod audit.go:484 
  A 8 92 false false [] true []  -- fsmEval.advance pred_fsm.go:45 
]

/-- fsmEval.fsm -/
def g93 : List Access := [
  A 8 93 true false [] true [],  -- audition.startOfAuditPeriod audit.go:484 
  A 8 93 false false [] true []  -- fsmEval.advance pred_fsm.go:43 
]

/-- fsmEval.labelMap -/
def g94 : List Access := [
  A 8 94 true false [] true [],  -- audition.startOfAuditPeriod audit.go:484 
  A 8 94 false false [] true []  -- fsmEval.advance pred_fsm.go:39 
]

/-- local actor.runActorCommand.outbuf -/
def g95 : List Access := [
  A 12 95 true false [] true [],  -- actor.runActorCommand$1 commands.go:48 ext:(*bytes.Buffer).WriteString
  A 9 95 true false [] true [(12, .post), (13, .mid), (14, .mid)],  -- actor.runActorCommand commands.go:51 ext:(*bytes.Buffer).String
  A 9 95 true false [] true [(12, .pre), (13, .pre), (14, .mid)],  -- actor.runActorCommand$1 commands.go:48 ext:(*bytes.Buffer).WriteString
  A 10 95 true false [] true [(13, .mid), (14, .mid)]  -- actor.runActorCommand commands.go:51 ext:(*bytes.Buffer).String
]

/-- local actor.runActorCommandWithConsumer.stopRead -/
def g96 : List Access := [
  A 12 96 true false [] true [],  -- actor.runActorCommandWithConsumer$1 commands.go:174 
  A 12 96 false false [] true [],  -- actor.runActorCommandWithConsumer$1 commands.go:175 
  A 15 96 true false [] true [],  -- actor.runActorCommandWithConsumer$1 commands.go:174 
  A 15 96 false false [] true []  -- actor.runActorCommandWithConsumer$1 commands.go:175 
]

/-- local config.parseRole.parserNames[] -/
def g97 : List Access := [
  A 0 97 true false [] false [(1, .pre), (2, .pre), (3, .pre), (4, .pre)],  -- config.parseRole parsecfg.go:587 
  A 0 97 false false [] false [(1, .pre), (2, .pre), (3, .pre), (4, .pre)]  -- config.parseRole$1 parsecfg.go:630 
]

/-- local config.preprocReplace.err -/
def g98 : List Access := [
  A 0 98 false false [] false [(1, .pre), (2, .pre), (3, .pre), (4, .pre)],  -- config.preprocReplace parsecfg.go:1160 
  A 0 98 true false [] false [(1, .pre), (2, .pre), (3, .pre), (4, .pre)]  -- config.preprocReplace$1 parsecfg.go:1156 
]

/-- map[string]bool[] -/
def g99 : List Access := [
  A 0 99 true false [] false [(2, .mid), (3, .mid), (4, .mid)],  -- config.printCfg config.go:509 
  A 0 99 false false [] false [(2, .mid), (3, .mid), (4, .mid)]  -- config.printCfg$3 config.go:538 
]

/-- observer.hasData -/
def g100 : List Access := [
  A 7 100 true false [] true [],  -- collector.collectAuditionReport collector.go:349 
  A 0 100 false false [] false [(1, .post), (2, .mid), (3, .mid), (4, .mid)]  -- app.subPlots plot.go:116 
]

/-- outputFiles.files[] -/
def g101 : List Access := [
  A 7 101 false false [] true [],  -- outputFiles.CloseAll output_files.go:23 
  A 7 101 true false [] true []  -- outputFiles.getWriter output_files.go:42 
]

/-- outputFiles.writers[] -/
def g102 : List Access := [
  A 7 102 false false [] true [],  -- outputFiles.CloseAll output_files.go:24 
  A 7 102 true false [] true []  -- outputFiles.getWriter output_files.go:44 
]

/-- parser.curLine -/
def g103 : List Access := [
  A 0 103 false false [] false [(1, .pre), (2, .pre), (3, .pre), (4, .pre)],  -- parser.get parsecfg.go:1116 
  A 0 103 true false [] false [(1, .pre), (2, .pre), (3, .pre), (4, .pre)]  -- parser.m parsecfg.go:1111 
]

/-- pflag.Flag.NoOptDefVal -/
def g104 : List Access := [
  A 0 104 true false [] false [(1, .pre), (2, .pre), (3, .pre), (4, .pre)]  -- config.initArgs config.go:150 
]

/-- plotgroup.plots[] -/
def g105 : List Access := [
  A 0 105 true false [] false [(1, .post), (2, .mid), (3, .mid), (4, .mid)]  -- app.subPlots plot.go:165 
]

/-- reader.diffs[] -/
def g106 : List Access := [
  A 0 106 true false [] false [(1, .pre), (2, .pre), (3, .pre), (4, .pre)]  -- newReader reader.go:53 
]

/-- reader.includePath -/
def g107 : List Access := [
  A 0 107 true false [] false [(1, .pre), (2, .pre), (3, .pre), (4, .pre)],  -- Run run.go:110 
  A 0 107 false false [] false [(1, .pre), (2, .pre), (3, .pre), (4, .pre)]  -- subreader.readLine reader.go:255 
]

/-- reader.readers -/
def g108 : List Access := [
  A 0 108 false false [] false [(1, .pre), (2, .pre), (3, .pre), (4, .pre)],  -- reader.close reader.go:120 
  A 0 108 true false [] false [(1, .pre), (2, .pre), (3, .pre), (4, .pre)]  -- subreader.readLine reader.go:226 
]

/-- reader.readers[] -/
def g109 : List Access := [
  A 0 109 false false [] false [(1, .pre), (2, .pre), (3, .pre), (4, .pre)],  -- reader.close reader.go:121 
  A 0 109 true false [] false [(1, .pre), (2, .pre), (3, .pre), (4, .pre)]  -- subreader.readLine reader.go:262 
]

/-- role.actionCmds[] -/
def g110 : List Access := [
  A 0 110 false false [] false [(1, .pre), (2, .pre), (3, .pre), (4, .pre)],  -- actor.prepareActionCommands commands.go:277 
  A 0 110 true false [] false [(1, .pre), (2, .pre), (3, .pre), (4, .pre)],  -- config.parseRole$1 parsecfg.go:604 
  A 0 110 false false [] false [(2, .mid), (3, .mid), (4, .mid)]  -- config.printCfg config.go:357 
]

/-- role.actionNames -/
def g111 : List Access := [
  A 0 111 false false [] false [(1, .pre), (2, .pre), (3, .pre), (4, .pre)],  -- config.parseRole$1 parsecfg.go:602 
  A 0 111 true false [] false [(1, .pre), (2, .pre), (3, .pre), (4, .pre)],  -- config.parseRole$1 parsecfg.go:602 
  A 0 111 false false [] false [(2, .mid), (3, .mid), (4, .mid)]  -- config.printCfg config.go:356 
]

/-- role.actionNames[] -/
def g112 : List Access := [
  A 0 112 true false [] false [(1, .pre), (2, .pre), (3, .pre), (4, .pre)],  -- config.parseRole$1 parsecfg.go:602 
  A 0 112 false false [] false [(2, .mid), (3, .mid), (4, .mid)],  -- config.printCfg ? 
  A 0 112 false false [] false [(1, .pre), (2, .pre), (3, .pre), (4, .pre)]  -- role.clone config.go:619 
]

/-- role.cleanupCmd -/
def g113 : List Access := [
  A 0 113 false false [] false [(1, .pre), (2, .pre), (3, .pre), (4, .pre)],  -- actor.prepareActionCommands commands.go:291 
  A 0 113 true false [] false [(1, .pre), (2, .pre), (3, .pre), (4, .pre)],  -- config.parseRole$1 parsecfg.go:608 
  A 0 113 false false [] false [(2, .mid), (3, .mid), (4, .mid)]  -- config.printCfg config.go:347 
]

/-- role.sigNames -/
def g114 : List Access := [
  A 0 114 false false [] false [(1, .pre), (2, .pre), (3, .pre), (4, .pre)],  -- config.parseRole parsecfg.go:586 
  A 0 114 true false [] false [(1, .pre), (2, .pre), (3, .pre), (4, .pre)]  -- config.parseRole$1 parsecfg.go:678 
]

/-- role.sigNames[] -/
def g115 : List Access := [
  A 0 115 false false [] false [(1, .pre), (2, .pre), (3, .pre), (4, .pre)],  -- config.parseRole ? 
  A 0 115 true false [] false [(1, .pre), (2, .pre), (3, .pre), (4, .pre)]  -- config.parseRole$1 parsecfg.go:678 
]

/-- role.sigParsers -/
def g116 : List Access := [
  A 15 116 false false [] true [],  -- spotMgr.detectSignals spotlight.go:184 
  A 0 116 false false [] false [(1, .pre), (2, .pre), (3, .pre), (4, .pre)],  -- config.parseRole$1 parsecfg.go:677 
  A 0 116 true false [] false [(1, .pre), (2, .pre), (3, .pre), (4, .pre)],  -- config.parseRole$1 parsecfg.go:677 
  A 0 116 false false [] false [(2, .mid), (3, .mid), (4, .mid)],  -- config.printCfg config.go:353 
  A 11 116 false false [] true [(14, .mid), (15, .pre), (16, .pre)]  -- spotMgr.detectSignals spotlight.go:184 
]

/-- role.sigParsers[] -/
def g117 : List Access := [
  A 15 117 false false [] true [],  -- spotMgr.detectSignals ? 
  A 0 117 true false [] false [(1, .pre), (2, .pre), (3, .pre), (4, .pre)],  -- config.parseRole$1 parsecfg.go:677 
  A 0 117 false false [] false [(2, .mid), (3, .mid), (4, .mid)],  -- config.printCfg ? 
  A 0 117 false false [] false [(1, .pre), (2, .pre), (3, .pre), (4, .pre)],  -- role.clone config.go:620 
  A 11 117 false false [] true [(14, .mid), (15, .pre), (16, .pre)]  -- spotMgr.detectSignals ? 
]

/-- role.spotlightCmd -/
def g118 : List Access := [
  A 0 118 false false [] false [(1, .pre), (2, .pre), (3, .pre), (4, .pre)],  -- actor.prepareActionCommands commands.go:284 
  A 0 118 true false [] false [(1, .pre), (2, .pre), (3, .pre), (4, .pre)],  -- config.parseRole$1 parsecfg.go:606 
  A 0 118 false false [] false [(2, .mid), (3, .mid), (4, .mid)],  -- config.printCfg config.go:350 
  A 6 118 false false [] true [(11, .mid)]  -- spotMgr.manageSpotlights spotlight.go:65 
]

/-- scene.concurrentLines -/
def g119 : List Access := [
  A 0 119 false false [] false [(1, .pre), (2, .pre), (3, .pre), (4, .pre)],  -- config.compileV2 compile.go:60 
  A 0 119 true false [] false [(1, .pre), (2, .pre), (3, .pre), (4, .pre)],  -- config.compileV2 compile.go:60 
  A 0 119 false false [] false [(2, .mid), (3, .mid), (4, .mid)],  -- config.printSteps ? 
  A 5 119 false false [] true []  -- prompter.prompt ? 
]

/-- scene.concurrentLines[] -/
def g120 : List Access := [
  A 0 120 true false [] false [(1, .pre), (2, .pre), (3, .pre), (4, .pre)]  -- config.compileV2 compile.go:60 
]

/-- scene.waitUntil -/
def g121 : List Access := [
  A 0 121 true false [] false [(1, .pre), (2, .pre), (3, .pre), (4, .pre)],  -- config.compileV2 compile.go:97 
  A 0 121 false false [] false [(1, .pre), (2, .pre), (3, .pre), (4, .pre)],  -- config.compileV2 compile.go:106 
  A 0 121 false false [] false [(2, .mid), (3, .mid), (4, .mid)],  -- config.printSteps ? 
  A 5 121 false false [] true []  -- prompter.prompt ? 
]

/-- scriptLine.steps -/
def g122 : List Access := [
  A 0 122 false false [] false [(1, .pre), (2, .pre), (3, .pre), (4, .pre)],  -- config.compileV2 compile.go:72 
  A 0 122 true false [] false [(1, .pre), (2, .pre), (3, .pre), (4, .pre)],  -- config.compileV2 compile.go:69 
  A 0 122 false false [] false [(2, .mid), (3, .mid), (4, .mid)],  -- config.printSteps ? 
  A 5 122 false false [] true [(10, .mid)]  -- prompter.runScene ? 
]

/-- scriptLine.steps[] -/
def g123 : List Access := [
  A 0 123 true false [] false [(1, .pre), (2, .pre), (3, .pre), (4, .pre)]  -- config.compileV2 compile.go:69 
]

/-- sigEvent.values -/
def g124 : List Access := [
  A 15 124 false false [] true [],  -- spotMgr.detectSignals spotlight.go:264 
  A 15 124 true false [] true [],  -- spotMgr.detectSignals spotlight.go:264 
  A 8 124 false false [] true [],  -- audition.audit audit.go:234 
  A 11 124 false false [] true [(14, .mid), (15, .pre), (16, .pre)],  -- spotMgr.detectSignals spotlight.go:264 
  A 11 124 true false [] true [(14, .mid), (15, .pre), (16, .pre)]  -- spotMgr.detectSignals spotlight.go:264 
]

/-- sigEvent.values[] -/
def g125 : List Access := [
  A 15 125 true false [] true [],  -- spotMgr.detectSignals spotlight.go:264 
  A 11 125 true false [] true [(14, .mid), (15, .pre), (16, .pre)]  -- spotMgr.detectSignals spotlight.go:264 
]

/-- sink.lastVal -/
def g126 : List Access := [
  A 15 126 false false [] true [],  -- spotMgr.detectSignals spotlight.go:249 
  A 15 126 true false [] true [],  -- spotMgr.detectSignals spotlight.go:250 
  A 11 126 false false [] true [(14, .mid), (15, .pre), (16, .pre)],  -- spotMgr.detectSignals spotlight.go:249 
  A 11 126 true false [] true [(14, .mid), (15, .pre), (16, .pre)]  -- spotMgr.detectSignals spotlight.go:250 
]

/-- subreader.lineno -/
def g127 : List Access := [
  A 0 127 false false [] false [(1, .pre), (2, .pre), (3, .pre), (4, .pre)],  -- pos.wrapErr reader.go:175 
  A 0 127 true false [] false [(1, .pre), (2, .pre), (3, .pre), (4, .pre)]  -- subreader.readLine reader.go:205 
]

/-- subreader.lines -/
def g128 : List Access := [
  A 0 128 false false [] false [(1, .pre), (2, .pre), (3, .pre), (4, .pre)],  -- pos.wrapErr reader.go:150 
  A 0 128 true false [] false [(1, .pre), (2, .pre), (3, .pre), (4, .pre)]  -- subreader.readLine reader.go:201 
]

/-- subreader.lines[] -/
def g129 : List Access := [
  A 0 129 false false [] false [(1, .pre), (2, .pre), (3, .pre), (4, .pre)],  -- pos.wrapErr reader.go:154 
  A 0 129 true false [] false [(1, .pre), (2, .pre), (3, .pre), (4, .pre)]  -- subreader.readLine reader.go:201 
]

/-- subreader.parent -/
def g130 : List Access := [
  A 0 130 false false [] false [(1, .pre), (2, .pre), (3, .pre), (4, .pre)],  -- pos.wrapErr reader.go:170 
  A 0 130 true false [] false [(1, .pre), (2, .pre), (3, .pre), (4, .pre)]  -- subreader.readLine reader.go:261 
]

/-- timeutil.Timer.Read -/
def g131 : List Access := [
  A 7 131 true false [] true []  -- collector.collect collector.go:177 
]

/-- var actionDefRe -/
def g132 : List Access := [
  A 0 132 false false [] false [(1, .pre), (2, .pre), (3, .pre), (4, .pre)],  -- config.parseRole$1 parsecfg.go:593 
  A 0 132 true false [] false [(1, .pre), (2, .pre), (3, .pre), (4, .pre)]  -- init parsecfg.go:559 
]

/-- var activeRe -/
def g133 : List Access := [
  A 0 133 true false [] false [(1, .pre), (2, .pre), (3, .pre), (4, .pre)]  -- init parsecfg.go:240 
]

/-- var actorDefRe -/
def g134 : List Access := [
  A 0 134 true false [] false [(1, .pre), (2, .pre), (3, .pre), (4, .pre)]  -- init parsecfg.go:719 
]

/-- var actorsRe -/
def g135 : List Access := [
  A 0 135 false false [] false [(1, .pre), (2, .pre), (3, .pre), (4, .pre)],  -- config.parseCfg parsecfg.go:25 
  A 0 135 true false [] false [(1, .pre), (2, .pre), (3, .pre), (4, .pre)]  -- init parsecfg.go:718 
]

/-- var adjList -/
def g136 : List Access := [
  A 0 136 false false [] false [(1, .post), (2, .mid), (3, .mid), (4, .mid)],  -- GenName namegen.go:12 
  A 0 136 true false [] false [(1, .pre), (2, .pre), (3, .pre), (4, .pre)]  -- init words.go:1120 
]

/-- var advList -/
def g137 : List Access := [
  A 0 137 false false [] false [(1, .post), (2, .mid), (3, .mid), (4, .mid)],  -- GenName namegen.go:13 
  A 0 137 true false [] false [(1, .pre), (2, .pre), (3, .pre), (4, .pre)]  -- init words.go:3 
]

/-- var audienceRe -/
def g138 : List Access := [
  A 0 138 false false [] false [(1, .pre), (2, .pre), (3, .pre), (4, .pre)],  -- config.parseCfg parsecfg.go:27 
  A 0 138 true false [] false [(1, .pre), (2, .pre), (3, .pre), (4, .pre)]  -- init parsecfg.go:236 
]

/-- var automata -/
def g139 : List Access := [
  A 0 139 true false [] false [(1, .pre), (2, .pre), (3, .pre), (4, .pre)]  -- init pred_fsm.go:48 
]

/-- var cleanupDefRe -/
def g140 : List Access := [
  A 0 140 false false [] false [(1, .pre), (2, .pre), (3, .pre), (4, .pre)],  -- config.parseRole$1 parsecfg.go:607 
  A 0 140 true false [] false [(1, .pre), (2, .pre), (3, .pre), (4, .pre)]  -- init parsecfg.go:561 
]

/-- var collectFns -/
def g141 : List Access := [
  A 8 141 false false [] true [],  -- audition.processAssignments audit.go:518 
  A 0 141 true false [] false [(1, .pre), (2, .pre), (3, .pre), (4, .pre)]  -- init functions.go:270 
]

/-- var collectsRe -/
def g142 : List Access := [
  A 0 142 true false [] false [(1, .pre), (2, .pre), (3, .pre), (4, .pre)]  -- init parsecfg.go:241 
]

/-- var computesRe -/
def g143 : List Access := [
  A 0 143 true false [] false [(1, .pre), (2, .pre), (3, .pre), (4, .pre)]  -- init parsecfg.go:242 
]

/-- var editRe -/
def g144 : List Access := [
  A 0 144 true false [] false [(1, .pre), (2, .pre), (3, .pre), (4, .pre)]  -- init parsecfg.go:830 
]

/-- var entailsRe -/
def g145 : List Access := [
  A 0 145 true false [] false [(1, .pre), (2, .pre), (3, .pre), (4, .pre)]  -- init parsecfg.go:827 
]

/-- var errAuditViolation -/
def g146 : List Access := [
  A 1 146 false false [] true [(5, .post), (6, .post), (7, .post), (8, .post)],  -- app.conduct$3 conductor.go:49 
  A 7 146 false false [] true [],  -- collector.checkAuditViolations collector.go:260 
  A 0 146 true false [] false [(1, .pre), (2, .pre), (3, .pre), (4, .pre)]  -- init collector.go:213 
]

/-- var errInterrupted -/
def g147 : List Access := [
  A 0 147 false false [] false [(1, .mid), (2, .pre), (3, .mid), (4, .mid)],  -- app.runConduct run.go:323 
  A 0 147 false false [] false [(1, .post), (2, .mid), (3, .mid), (4, .mid)],  -- config.run$3 run.go:183 
  A 0 147 true false [] false [(1, .pre), (2, .pre), (3, .pre), (4, .pre)]  -- init run.go:402 
]

/-- var evalFunctions -/
def g148 : List Access := [
  A 0 148 true false [] false [(1, .pre), (2, .pre), (3, .pre), (4, .pre)],  -- init functions.go:30 
  A 0 148 false false [] false [(1, .pre), (2, .pre), (3, .pre), (4, .pre)]  -- init#1 functions.go:263 
]

/-- var evalFunctions[] -/
def g149 : List Access := [
  A 0 149 false false [] false [(1, .pre), (2, .pre), (3, .pre), (4, .pre)],  -- init#1 functions.go:263 
  A 0 149 true false [] false [(1, .pre), (2, .pre), (3, .pre), (4, .pre)]  -- init#1 functions.go:263 
]

/-- var expectsRe -/
def g150 : List Access := [
  A 0 150 true false [] false [(1, .pre), (2, .pre), (3, .pre), (4, .pre)]  -- init parsecfg.go:243 
]

/-- var expectsSameRe -/
def g151 : List Access := [
  A 0 151 true false [] false [(1, .pre), (2, .pre), (3, .pre), (4, .pre)]  -- init parsecfg.go:244 
]

/-- var foulRe -/
def g152 : List Access := [
  A 0 152 true false [] false [(1, .pre), (2, .pre), (3, .pre), (4, .pre)]  -- init parsecfg.go:173 
]

/-- var identRe -/
def g153 : List Access := [
  A 0 153 false false [] false [(1, .pre), (2, .pre), (3, .pre), (4, .pre)],  -- checkIdent parsecfg.go:1079 
  A 0 153 true false [] false [(1, .pre), (2, .pre), (3, .pre), (4, .pre)]  -- init parsecfg.go:1091 
]

/-- var ignoreRe -/
def g154 : List Access := [
  A 0 154 true false [] false [(1, .pre), (2, .pre), (3, .pre), (4, .pre)]  -- init parsecfg.go:172 
]

/-- var init$guard -/
def g155 : List Access := [
  A 0 155 false false [] false [(1, .pre), (2, .pre), (3, .pre), (4, .pre)],  -- init ? 
  A 0 155 true false [] false [(1, .pre), (2, .pre), (3, .pre), (4, .pre)]  -- init ? 
]

/-- var interpretationRe -/
def g156 : List Access := [
  A 0 156 false false [] false [(1, .pre), (2, .pre), (3, .pre), (4, .pre)],  -- config.parseCfg parsecfg.go:28 
  A 0 156 true false [] false [(1, .pre), (2, .pre), (3, .pre), (4, .pre)]  -- init parsecfg.go:171 
]

/-- var measuresRe -/
def g157 : List Access := [
  A 0 157 true false [] false [(1, .pre), (2, .pre), (3, .pre), (4, .pre)]  -- init parsecfg.go:239 
]

/-- var moodChangeRe -/
def g158 : List Access := [
  A 0 158 true false [] false [(1, .pre), (2, .pre), (3, .pre), (4, .pre)]  -- init parsecfg.go:828 
]

/-- var narratorCtx -/
def g159 : List Access := [
  A 7 159 false false [] true [],  -- app.narrate app.go:146 
  A 0 159 false false [] false [(1, .mid), (2, .mid), (3, .mid), (4, .mid)],  -- app.narrate app.go:146 
  A 0 159 true false [] false [(1, .pre), (2, .pre), (3, .pre), (4, .pre)],  -- init app.go:143 
  A 10 159 false false [] true [(13, .mid), (14, .mid)],  -- app.narrate app.go:146 
  A 5 159 false false [] true [(10, .mid)],  -- app.narrate app.go:146 
  A 11 159 false false [] true [(14, .mid), (15, .post), (16, .mid)]  -- app.narrate app.go:146 
]

/-- var noPlotRe -/
def g160 : List Access := [
  A 0 160 true false [] false [(1, .pre), (2, .pre), (3, .pre), (4, .pre)]  -- init parsecfg.go:245 
]

/-- var nounsList -/
def g161 : List Access := [
  A 0 161 false false [] false [(1, .post), (2, .mid), (3, .mid), (4, .mid)],  -- GenName namegen.go:11 
  A 0 161 true false [] false [(1, .pre), (2, .pre), (3, .pre), (4, .pre)]  -- init words.go:119 
]

/-- var paramRe -/
def g162 : List Access := [
  A 0 162 false false [] false [(1, .pre), (2, .pre), (3, .pre), (4, .pre)],  -- config.parseCfg parsecfg.go:57 
  A 0 162 true false [] false [(1, .pre), (2, .pre), (3, .pre), (4, .pre)]  -- init parsecfg.go:148 
]

/-- var parseDefRe -/
def g163 : List Access := [
  A 0 163 false false [] false [(1, .pre), (2, .pre), (3, .pre), (4, .pre)],  -- config.parseRole$1 parsecfg.go:609 
  A 0 163 true false [] false [(1, .pre), (2, .pre), (3, .pre), (4, .pre)]  -- init parsecfg.go:562 
]

/-- var preprocRe -/
def g164 : List Access := [
  A 0 164 false false [] false [(1, .pre), (2, .pre), (3, .pre), (4, .pre)],  -- config.preprocReplace parsecfg.go:1151 
  A 0 164 true false [] false [(1, .pre), (2, .pre), (3, .pre), (4, .pre)]  -- init parsecfg.go:1146 
]

/-- var registry -/
def g165 : List Access := [
  A 1 165 false false [] true [(5, .mid), (6, .mid), (7, .mid), (8, .mid), (9, .mid)],  -- runWorker workers.go:83 
  A 1 165 false false [] false [],  -- runWorker$1 workers.go:89 
  A 2 165 false false [] false [],  -- showRunning workers.go:68 
  A 9 165 false false [] true [(12, .pre), (13, .pre), (14, .mid)],  -- runWorker workers.go:83 
  A 9 165 false false [] false [(13, .mid), (14, .mid)],  -- runWorker$1 workers.go:89 
  A 8 165 false false [] false [],  -- runWorker$1 workers.go:89 
  A 7 165 false false [] false [],  -- runWorker$1 workers.go:89 
  A 0 165 true false [] false [(1, .pre), (2, .pre), (3, .pre), (4, .pre)],  -- init workers.go:38 
  A 0 165 false false [] false [(1, .mid), (2, .pre), (3, .pre), (4, .mid)],  -- runWorker workers.go:83 
  A 0 165 false false [] false [(1, .mid), (2, .pre), (3, .mid), (4, .mid)],  -- showRunning workers.go:68 
  A 10 165 false false [] true [(13, .mid), (14, .mid)],  -- runWorker workers.go:83 
  A 5 165 false false [] false [],  -- runWorker$1 workers.go:89 
  A 14 165 false false [] false [],  -- runWorker$1 workers.go:89 
  A 11 165 false false [] true [(14, .mid), (15, .pre), (16, .pre)],  -- runWorker workers.go:83 
  A 11 165 false false [] false [(14, .mid), (16, .mid)],  -- runWorker$1 workers.go:89 
  A 6 165 false false [] true [(11, .mid)],  -- runWorker workers.go:83 
  A 6 165 false false [] false []  -- runWorker$1 workers.go:89 
]

/-- var repeatAlwaysRe -/
def g166 : List Access := [
  A 0 166 true false [] false [(1, .pre), (2, .pre), (3, .pre), (4, .pre)]  -- init parsecfg.go:823 
]

/-- var repeatCountRe -/
def g167 : List Access := [
  A 0 167 true false [] false [(1, .pre), (2, .pre), (3, .pre), (4, .pre)]  -- init parsecfg.go:822 
]

/-- var repeatRe -/
def g168 : List Access := [
  A 0 168 true false [] false [(1, .pre), (2, .pre), (3, .pre), (4, .pre)]  -- init parsecfg.go:831 
]

/-- var repeatTimeoutRe -/
def g169 : List Access := [
  A 0 169 true false [] false [(1, .pre), (2, .pre), (3, .pre), (4, .pre)]  -- init parsecfg.go:824 
]

/-- var roleRe -/
def g170 : List Access := [
  A 0 170 false false [] false [(1, .pre), (2, .pre), (3, .pre), (4, .pre)],  -- config.parseCfg parsecfg.go:67 
  A 0 170 true false [] false [(1, .pre), (2, .pre), (3, .pre), (4, .pre)]  -- init parsecfg.go:558 
]

/-- var scriptRe -/
def g171 : List Access := [
  A 0 171 false false [] false [(1, .pre), (2, .pre), (3, .pre), (4, .pre)],  -- config.parseCfg parsecfg.go:26 
  A 0 171 true false [] false [(1, .pre), (2, .pre), (3, .pre), (4, .pre)]  -- init parsecfg.go:820 
]

/-- var spotlightDefRe -/
def g172 : List Access := [
  A 0 172 false false [] false [(1, .pre), (2, .pre), (3, .pre), (4, .pre)],  -- config.parseRole$1 parsecfg.go:605 
  A 0 172 true false [] false [(1, .pre), (2, .pre), (3, .pre), (4, .pre)]  -- init parsecfg.go:560 
]

/-- var storyLineRe -/
def g173 : List Access := [
  A 0 173 true false [] false [(1, .pre), (2, .pre), (3, .pre), (4, .pre)]  -- init parsecfg.go:829 
]

/-- var tempoRe -/
def g174 : List Access := [
  A 0 174 true false [] false [(1, .pre), (2, .pre), (3, .pre), (4, .pre)]  -- init parsecfg.go:821 
]

/-- var watchRe -/
def g175 : List Access := [
  A 0 175 true false [] false [(1, .pre), (2, .pre), (3, .pre), (4, .pre)]  -- init parsecfg.go:237 
]

/-- var watchVarRe -/
def g176 : List Access := [
  A 0 176 true false [] false [(1, .pre), (2, .pre), (3, .pre), (4, .pre)]  -- init parsecfg.go:238 
]

/-- variable.watcherNames -/
def g177 : List Access := [
  A 7 177 false false [] true [],  -- collector.collectObservation collector.go:302 
  A 0 177 false false [] false [(2, .mid), (3, .mid), (4, .mid)],  -- config.printCfg config.go:462 
  A 0 177 false false [] false [(1, .pre), (2, .pre), (3, .pre), (4, .pre)],  -- variable.maybeAddWatcher config.go:1067 
  A 0 177 true false [] false [(1, .pre), (2, .pre), (3, .pre), (4, .pre)]  -- variable.maybeAddWatcher config.go:1067 
]

/-- variable.watcherNames[] -/
def g178 : List Access := [
  A 7 178 false false [] true [],  -- collector.collectObservation ? 
  A 0 178 false false [] false [(2, .mid), (3, .mid), (4, .mid)],  -- config.printCfg ? 
  A 0 178 true false [] false [(1, .pre), (2, .pre), (3, .pre), (4, .pre)]  -- variable.maybeAddWatcher config.go:1067 
]

/-- variable.watchers[] -/
def g179 : List Access := [
  A 8 179 false false [] true [],  -- audition.setAndActivateVar audit.go:654 
  A 7 179 false false [] true [],  -- collector.collectObservation collector.go:303 
  A 0 179 false false [] false [(1, .pre), (2, .pre), (3, .pre), (4, .pre)],  -- variable.maybeAddWatcher config.go:1063 
  A 0 179 true false [] false [(1, .pre), (2, .pre), (3, .pre), (4, .pre)]  -- variable.maybeAddWatcher config.go:1066 
]

/-- workerRegistry.mu.numWorkers -/
def g180 : List Access := [
  A 1 180 false false [0] true [(5, .mid), (6, .mid), (7, .mid), (8, .mid), (9, .mid)],  -- workerRegistry.addWorker workers.go:28 
  A 1 180 true false [0] true [(5, .mid), (6, .mid), (7, .mid), (8, .mid), (9, .mid)],  -- workerRegistry.addWorker workers.go:28 
  A 1 180 false false [0] false [],  -- workerRegistry.delWorker workers.go:35 
  A 1 180 true false [0] false [],  -- workerRegistry.delWorker workers.go:35 
  A 2 180 false false [0] false [],  -- workerRegistry.String workers.go:48 
  A 9 180 false false [0] true [(12, .pre), (13, .pre), (14, .mid)],  -- workerRegistry.addWorker workers.go:28 
  A 9 180 true false [0] true [(12, .pre), (13, .pre), (14, .mid)],  -- workerRegistry.addWorker workers.go:28 
  A 9 180 false false [0] false [(13, .mid), (14, .mid)],  -- workerRegistry.delWorker workers.go:35 
  A 9 180 true false [0] false [(13, .mid), (14, .mid)],  -- workerRegistry.delWorker workers.go:35 
  A 8 180 false false [0] false [],  -- workerRegistry.delWorker workers.go:35 
  A 8 180 true false [0] false [],  -- workerRegistry.delWorker workers.go:35 
  A 7 180 false false [0] false [],  -- workerRegistry.delWorker workers.go:35 
  A 7 180 true false [0] false [],  -- workerRegistry.delWorker workers.go:35 
  A 0 180 false false [0] false [(1, .mid), (2, .pre), (3, .mid), (4, .mid)],  -- workerRegistry.String workers.go:48 
  A 0 180 false false [0] false [(1, .mid), (2, .pre), (3, .pre), (4, .mid)],  -- workerRegistry.addWorker workers.go:28 
  A 0 180 true false [0] false [(1, .mid), (2, .pre), (3, .pre), (4, .mid)],  -- workerRegistry.addWorker workers.go:28 
  A 10 180 false false [0] true [(13, .mid), (14, .mid)],  -- workerRegistry.addWorker workers.go:28 
  A 10 180 true false [0] true [(13, .mid), (14, .mid)],  -- workerRegistry.addWorker workers.go:28 
  A 5 180 false false [0] false [],  -- workerRegistry.delWorker workers.go:35 
  A 5 180 true false [0] false [],  -- workerRegistry.delWorker workers.go:35 
  A 14 180 false false [0] false [],  -- workerRegistry.delWorker workers.go:35 
  A 14 180 true false [0] false [],  -- workerRegistry.delWorker workers.go:35 
  A 11 180 false false [0] true [(14, .mid), (15, .pre), (16, .pre)],  -- workerRegistry.addWorker workers.go:28 
  A 11 180 true false [0] true [(14, .mid), (15, .pre), (16, .pre)],  -- workerRegistry.addWorker workers.go:28 
  A 11 180 false false [0] false [(14, .mid), (16, .mid)],  -- workerRegistry.delWorker workers.go:35 
  A 11 180 true false [0] false [(14, .mid), (16, .mid)],  -- workerRegistry.delWorker workers.go:35 
  A 6 180 false false [0] true [(11, .mid)],  -- workerRegistry.addWorker workers.go:28 
  A 6 180 true false [0] true [(11, .mid)],  -- workerRegistry.addWorker workers.go:28 
  A 6 180 false false [0] false [],  -- workerRegistry.delWorker workers.go:35 
  A 6 180 true false [0] false []  -- workerRegistry.delWorker workers.go:35 
]

/-- workerRegistry.mu.workers[] -/
def g181 : List Access := [
  A 1 181 false false [0] true [(5, .mid), (6, .mid), (7, .mid), (8, .mid), (9, .mid)],  -- workerRegistry.addWorker workers.go:27 
  A 1 181 true false [0] true [(5, .mid), (6, .mid), (7, .mid), (8, .mid), (9, .mid)],  -- workerRegistry.addWorker workers.go:27 
  A 1 181 false false [0] false [],  -- workerRegistry.delWorker workers.go:34 
  A 1 181 true false [0] false [],  -- workerRegistry.delWorker workers.go:34 
  A 2 181 false false [0] false [],  -- workerRegistry.String workers.go:53 
  A 9 181 false false [0] true [(12, .pre), (13, .pre), (14, .mid)],  -- workerRegistry.addWorker workers.go:27 
  A 9 181 true false [0] true [(12, .pre), (13, .pre), (14, .mid)],  -- workerRegistry.addWorker workers.go:27 
  A 9 181 false false [0] false [(13, .mid), (14, .mid)],  -- workerRegistry.delWorker workers.go:34 
  A 9 181 true false [0] false [(13, .mid), (14, .mid)],  -- workerRegistry.delWorker workers.go:34 
  A 8 181 false false [0] false [],  -- workerRegistry.delWorker workers.go:34 
  A 8 181 true false [0] false [],  -- workerRegistry.delWorker workers.go:34 
  A 7 181 false false [0] false [],  -- workerRegistry.delWorker workers.go:34 
  A 7 181 true false [0] false [],  -- workerRegistry.delWorker workers.go:34 
  A 0 181 false false [0] false [(1, .mid), (2, .pre), (3, .mid), (4, .mid)],  -- workerRegistry.String workers.go:53 
  A 0 181 false false [0] false [(1, .mid), (2, .pre), (3, .pre), (4, .mid)],  -- workerRegistry.addWorker workers.go:27 
  A 0 181 true false [0] false [(1, .mid), (2, .pre), (3, .pre), (4, .mid)],  -- workerRegistry.addWorker workers.go:27 
  A 10 181 false false [0] true [(13, .mid), (14, .mid)],  -- workerRegistry.addWorker workers.go:27 
  A 10 181 true false [0] true [(13, .mid), (14, .mid)],  -- workerRegistry.addWorker workers.go:27 
  A 5 181 false false [0] false [],  -- workerRegistry.delWorker workers.go:34 
  A 5 181 true false [0] false [],  -- workerRegistry.delWorker workers.go:34 
  A 14 181 false false [0] false [],  -- workerRegistry.delWorker workers.go:34 
  A 14 181 true false [0] false [],  -- workerRegistry.delWorker workers.go:34 
  A 11 181 false false [0] true [(14, .mid), (15, .pre), (16, .pre)],  -- workerRegistry.addWorker workers.go:27 
  A 11 181 true false [0] true [(14, .mid), (15, .pre), (16, .pre)],  -- workerRegistry.addWorker workers.go:27 
  A 11 181 false false [0] false [(14, .mid), (16, .mid)],  -- workerRegistry.delWorker workers.go:34 
  A 11 181 true false [0] false [(14, .mid), (16, .mid)],  -- workerRegistry.delWorker workers.go:34 
  A 6 181 false false [0] true [(11, .mid)],  -- workerRegistry.addWorker workers.go:27 
  A 6 181 true false [0] true [(11, .mid)],  -- workerRegistry.addWorker workers.go:27 
  A 6 181 false false [0] false [],  -- workerRegistry.delWorker workers.go:34 
  A 6 181 true false [0] false []  -- workerRegistry.delWorker workers.go:34 
]

def groups : List (List Access) := [
  g0, g1, g2, g3, g4, g5, g6, g7, g8, g9, g10, g11, g12, g13, g14, g15, 
  g16, g17, g18, g19, g20, g21, g22, g23, g24, g25, g26, g27, g28, g29, g30, g31, 
  g32, g33, g34, g35, g36, g37, g38, g39, g40, g41, g42, g43, g44, g45, g46, g47, 
  g48, g49, g50, g51, g52, g53, g54, g55, g56, g57, g58, g59, g60, g61, g62, g63, 
  g64, g65, g66, g67, g68, g69, g70, g71, g72, g73, g74, g75, g76, g77, g78, g79, 
  g80, g81, g82, g83, g84, g85, g86, g87, g88, g89, g90, g91, g92, g93, g94, g95, 
  g96, g97, g98, g99, g100, g101, g102, g103, g104, g105, g106, g107, g108, g109, g110, g111, 
  g112, g113, g114, g115, g116, g117, g118, g119, g120, g121, g122, g123, g124, g125, g126, g127, 
  g128, g129, g130, g131, g132, g133, g134, g135, g136, g137, g138, g139, g140, g141, g142, g143, 
  g144, g145, g146, g147, g148, g149, g150, g151, g152, g153, g154, g155, g156, g157, g158, g159, 
  g160, g161, g162, g163, g164, g165, g166, g167, g168, g169, g170, g171, g172, g173, g174, g175, 
  g176, g177, g178, g179, g180, g181]

/-- locations written, in some function, after a pointer to the object was sent on a channel there -/
def sentThenWritten : List Nat := []

def table : Table := ⟨roots, groups, sentThenWritten⟩

end Shk.Gen
