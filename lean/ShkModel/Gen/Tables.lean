import ShkModel.Model.Fsm
/-! GENERATED on every run by vlib/gen_tables.py from `VerifAutomata()` of the code built
from /repo's working tree (a run-time dump of `automata` in pkg/cmd/pred_fsm.go).
Do not edit. -/
namespace Shk.Gen

def tables : List (String × Table) := [
  ("always", ⟨0, ["checking", "good", "bad"], [[0, 2, 1, 0], [1, 1, 1, 0], [2, 2, 2, 0]]⟩),
  ("always eventually", ⟨0, ["start", "activated", "good", "bad"], [[1, 0, 3, 0], [1, 0, 2, 0], [2, 2, 2, 0], [3, 3, 3, 0]]⟩),
  ("at most once", ⟨0, ["notyet", "once", "good", "bad"], [[1, 0, 2, 0], [3, 1, 2, 0], [2, 2, 2, 0], [3, 3, 3, 1]]⟩),
  ("eventually", ⟨0, ["checking", "good", "bad"], [[1, 0, 2, 0], [1, 1, 1, 0], [2, 2, 2, 0]]⟩),
  ("eventually always", ⟨0, ["start", "good", "bad"], [[1, 0, 2, 0], [1, 2, 1, 0], [2, 2, 2, 0]]⟩),
  ("never", ⟨0, ["checking", "bad", "good"], [[1, 0, 2, 0], [1, 1, 1, 0], [2, 2, 2, 0]]⟩),
  ("not always", ⟨0, ["start", "good", "bad"], [[0, 1, 2, 0], [1, 1, 1, 0], [2, 2, 2, 0]]⟩),
  ("once", ⟨0, ["notyet", "good", "bad"], [[1, 0, 2, 0], [2, 1, 1, 1], [2, 2, 2, 1]]⟩),
  ("thrice", ⟨0, ["notyet", "once", "twice", "good", "bad"], [[1, 0, 4, 0], [2, 1, 4, 0], [3, 2, 4, 0], [4, 3, 3, 0], [4, 4, 4, 3]]⟩),
  ("twice", ⟨0, ["notyet", "once", "good", "bad"], [[1, 0, 3, 0], [2, 1, 3, 0], [3, 2, 2, 0], [3, 3, 3, 2]]⟩)
]

/-- label order of every table as dumped; the driver model relies on [t, f, end, reset] -/
def labels : List (List String) := [
  ["t", "f", "end", "reset"],
  ["t", "f", "end", "reset"],
  ["t", "f", "end", "reset"],
  ["t", "f", "end", "reset"],
  ["t", "f", "end", "reset"],
  ["t", "f", "end", "reset"],
  ["t", "f", "end", "reset"],
  ["t", "f", "end", "reset"],
  ["t", "f", "end", "reset"],
  ["t", "f", "end", "reset"]
]

def names : List String := tables.map (·.1)
def tbl (n : String) : Table := (tables.lookup n).getD ⟨0, [], []⟩
def labelsOk : Bool := labels.all (· == ["t", "f", "end", "reset"])

end Shk.Gen
