import ShkModel.Model.FuncSpec
import ShkModel.Driver.Aud
namespace Shk.Drv.C11
open Shk Shk.FuncSpec Shk.Drv.Aud

def scList (t : String) : Option (List Sc) := (commaList t).mapM parseSc

def parseValTok (t : String) : Option Val :=
  if t.startsWith "[" && t.endsWith "]" then
    let inner := ((t.drop 1).dropEnd 1).toString
    (if inner.isEmpty then some [] else (inner.splitOn ",").mapM parseSc).map Val.arr
  else (parseSc t).map Val.sc

def showRes : Res → String
  | .ok v => showVal v
  | .err => "err"
  | .unmodelled => "unmodelled"

def handle : List String → String
  -- model of the code
  | ["collect", m, n, vals] =>
    match parseMode m, n.toNat?, scList vals with
    | some mode, some k, some xs =>
      let r := xs.foldl (fun (acc : Option (List Sc)) x => acc.bind fun a => collectStep mode k a x) (some [])
      match r with
      | some l => showVal (.arr l)
      | none => "err"
    | _, _, _ => "bad-op"
  | ["func", f, vals] =>
    match unhex f, scList vals with
    | some fn, some xs => showRes (callFn fn xs)
    | _, _ => "bad-op"
  -- specification on a result produced by the real code
  | ["collectspec", m, n, vals, res] =>
    match parseMode m, n.toNat?, scList vals, parseValTok res with
    | some mode, some k, some xs, some r =>
      if r == .arr (collectSpec mode k xs) then "ok" else "FAIL expected " ++ showVal (.arr (collectSpec mode k xs))
    | _, _, _, _ => "bad-op"
  | ["funcspec", f, vals, res] =>
    match unhex f, scList vals, parseValTok res with
    | some fn, some xs, some r => if funcOk fn xs r then "ok" else "FAIL"
    | _, _, _ => "bad-op"
  | _ => "bad-op"

end Shk.Drv.C11
