import ShkModel.Model.Printer
import ShkModel.Model.Escape
import ShkModel.Driver.C09
import ShkModel.Model.TemplateTable
import ShkModel.Driver.Util
/-! Driver for C10.  A configuration is a list of clause tokens (see `vlib/cfggen.py`,
`clause_tok`): fields separated by `:`, strings hex-encoded, inner lists by `;`, `/`, `.`.

* `C10 print <clause>…`      → `rejected` | the clauses of `print (load L)`
* `C10 printold <clause>…`   → the same with the definitions of the pinned tree
* `C10 members <clause>…`    → the audience members of `load L`, in order
* `C10 selftest <clause>…`   → `load (print (load L))` against `load L`, and the second print
* `C10 param <name> <defines> <defaults>` (tables `xNAME:xVALUE,…`) → the value substituted for `~name~`
* `C10 oracle-fix <clause>… | <clause>…` → the specification `Shk.Printer.sameText` (decided form of `SameText`)
  on two printed texts, and the order in which members are first mentioned
-/
namespace Shk.Drv.C10
open Shk.Printer

def oneChar (t : String) : Option Char :=
  match unhexChars t with
  | some [c] => some c
  | _ => none

def parseVar (t : String) : Option Var :=
  match t.splitOn "." with
  | ["c", n] => (unhex n).map Var.comp
  | ["s", a, s] => do pure (.sig (← unhex a) (← unhex s))
  | _ => none

def parseEx (t : String) : Option Ex :=
  match t.splitOn "/" with
  | [s, vs] => do
    let src ← unhex s
    let vars ← (if vs == "-" then some [] else (vs.splitOn ";").mapM parseVar)
    pure ⟨src, vars⟩
  | _ => none

def parseTarget (t : String) : Option Target :=
  match t.splitOn "/" with
  | ["a", n] => (unhex n).map Target.actor
  | ["e", n] => (unhex n).map Target.every
  | _ => none

def parseKind : String → Option SigKind
  | "e" => some .event | "s" => some .scalar | "d" => some .delta | _ => none

def parseItem (t : String) : Option RItem :=
  match t.splitOn "/" with
  | ["a", n, c] => do pure (.action (← unhex n) (← unhex c))
  | ["s", c] => (unhex c).map RItem.spotlight
  | ["c", c] => (unhex c).map RItem.cleanup
  | ["g", n, k, r] => do pure (.signal ⟨← unhex n, ← parseKind k, ← unhex r⟩)
  | _ => none

def semiList {α} (f : String → Option α) (t : String) : Option (List α) :=
  if t == "-" then some [] else (t.splitOn ";").mapM f

def optNat (t : String) : Option (Option Nat) :=
  if t == "-" then some none else t.toNat?.map some

def parseFoul : String → Option Foul
  | "0" => some .ignore | "1" => some .foulUpon | "2" => some .require | _ => none

def parseGood : String → Option Bool
  | "s" => some true | "d" => some false | _ => none

/-- `edit s/c/repl/` for a single literal character -/
def substChar (c : Char) (repl : List Char) (l : List Char) : List Char :=
  l.flatMap fun x => if x = c then repl else [x]

def parseClause (t : String) : Option Clause :=
  match t.splitOn ":" with
  | ["T", s] => (unhex s).map Clause.title
  | ["U", s] => (unhex s).map Clause.author
  | ["N", s] => (unhex s).map Clause.attention
  | ["R", n, e, items] => do
    let ext ← (if e == "-" then some none else (unhex e).map some)
    pure (.role (← unhex n) ext (← semiList parseItem items))
  | ["K", n, m, r, e] => do pure (.cast (← unhex n) (← optNat m) (← unhex r) (← unhex e))
  | ["P", ns] => ns.toNat?.map Clause.tempo
  | ["E", c, tg, as] => do pure (.entails (← oneChar c) (← parseTarget tg) (← semiList unhex as))
  | ["M", c, w, m] => do pure (.mood (← oneChar c) (w == "s") (← unhex m))
  | ["S", s] => (unhexChars s).map Clause.storyline
  | ["D", c, r] => do pure (.edit (substChar (← oneChar c) (← unhexChars r)))
  | ["F", re] => (unhex re).map Clause.repeatFrom
  | ["H", d] => (optNat d).map Clause.repeatTime
  | ["O", n] => (optNat n).map Clause.repeatCount
  | ["I", "a", g] => (parseGood g).map fun b => Clause.interp (.ignoreAll b)
  | ["I", m, tg, g] => do pure (.interp (.set (← parseFoul m) (← unhex tg) (← parseGood g)))
  | ["A", m, "au", e] => do pure (.aud (← unhex m) (.audits (← parseEx e)))
  | ["A", m, "as", v, md, n, e] => do
    let k ← n.toNat?
    let mode ← (if md == "-" then some none else (unhex md).map fun s => some (s, k))
    pure (.aud (← unhex m) (.assign ⟨← unhex v, mode, ← parseEx e⟩))
  | ["A", m, "ex", md, e] => do pure (.aud (← unhex m) (.expects (← unhex md) (← parseEx e)))
  | ["A", m, "lk", tg] => do pure (.aud (← unhex m) (.expectsLike (← unhex tg)))
  | ["A", m, "ws", tg, s] => do pure (.aud (← unhex m) (.watchSig (← parseTarget tg) (← unhex s)))
  | ["A", m, "wv", v] => do pure (.aud (← unhex m) (.watchVar (← unhex v)))
  | ["A", m, "me", l] => do pure (.aud (← unhex m) (.measures (← unhex l)))
  | ["A", m, "oh"] => (unhex m).map fun n => Clause.aud n .onlyHelps
  | _ => none

def showVar : Var → String
  | .comp n => "c." ++ hex n
  | .sig a s => "s." ++ hex a ++ "." ++ hex s

def showEx (e : Ex) : String :=
  hex e.src ++ "/" ++ (if e.vars.isEmpty then "-" else ";".intercalate (e.vars.map showVar))

def showTarget : Target → String
  | .actor n => "a/" ++ hex n
  | .every n => "e/" ++ hex n

def showKind : SigKind → String
  | .event => "e" | .scalar => "s" | .delta => "d"

def showItem : RItem → String
  | .action n c => "a/" ++ hex n ++ "/" ++ hex c
  | .spotlight c => "s/" ++ hex c
  | .cleanup c => "c/" ++ hex c
  | .signal s => "g/" ++ hex s.name ++ "/" ++ showKind s.kind ++ "/" ++ hex s.re

def showSemi (l : List String) : String := if l.isEmpty then "-" else ";".intercalate l
def showOptNat : Option Nat → String
  | none => "-" | some n => toString n
def showFoul : Foul → String
  | .ignore => "0" | .foulUpon => "1" | .require => "2"
def showGood (b : Bool) : String := if b then "s" else "d"
def hexCh (c : Char) : String := hexOfChars [c]

def showAud (m : String) : AClause → String
  | .audits e => "A:" ++ hex m ++ ":au:" ++ showEx e
  | .assign a =>
    "A:" ++ hex m ++ ":as:" ++ hex a.var ++ ":" ++
      (match a.mode with | none => "-:0" | some (md, n) => hex md ++ ":" ++ toString n) ++ ":" ++ showEx a.ex
  | .expects md e => "A:" ++ hex m ++ ":ex:" ++ hex md ++ ":" ++ showEx e
  | .expectsLike t => "A:" ++ hex m ++ ":lk:" ++ hex t
  | .watchSig t s => "A:" ++ hex m ++ ":ws:" ++ showTarget t ++ ":" ++ hex s
  | .watchVar v => "A:" ++ hex m ++ ":wv:" ++ hex v
  | .measures l => "A:" ++ hex m ++ ":me:" ++ hex l
  | .onlyHelps => "A:" ++ hex m ++ ":oh"

def showClause : Clause → String
  | .title s => "T:" ++ hex s
  | .author s => "U:" ++ hex s
  | .attention s => "N:" ++ hex s
  | .role n e items =>
    "R:" ++ hex n ++ ":" ++ (match e with | none => "-" | some p => hex p) ++ ":" ++ showSemi (items.map showItem)
  | .cast n m r e => "K:" ++ hex n ++ ":" ++ showOptNat m ++ ":" ++ hex r ++ ":" ++ hex e
  | .tempo ns => "P:" ++ toString ns
  | .entails c t as => "E:" ++ hexCh c ++ ":" ++ showTarget t ++ ":" ++ showSemi (as.map hex)
  | .mood c w m => "M:" ++ hexCh c ++ ":" ++ (if w then "s" else "e") ++ ":" ++ hex m
  | .storyline s => "S:" ++ hexOfChars s
  | .edit _ => "D:?"
  | .repeatFrom re => "F:" ++ hex re
  | .repeatTime d => "H:" ++ showOptNat d
  | .repeatCount n => "O:" ++ showOptNat n
  | .aud m c => showAud m c
  | .interp (.ignoreAll g) => "I:a:" ++ showGood g
  | .interp (.set md t g) => "I:" ++ showFoul md ++ ":" ++ hex t ++ ":" ++ showGood g

def showClauses (l : List Clause) : String := if l.isEmpty then "-" else " ".intercalate (l.map showClause)

/-- the regular expressions the generator writes after `repeat from`: `c`, `c+`, `^c`, `[cd]`
(anything else matches nothing) -/
def matchRe (re : String) (act : Shk.Story.Act) : Bool :=
  match re.toList with
  | ['^', c] => act.head? == some c
  | [c] => act.contains c
  | [c, '+'] => act.contains c
  | '[' :: rest => rest.dropLast.any act.contains && rest.getLast? == some ']'
  | _ => false

def firstMentions (l : List Clause) : List String := (membersIn l).eraseDups

def splitBar (ts : List String) : List String × List String :=
  (ts.takeWhile (· ≠ "|"), (ts.dropWhile (· ≠ "|")).drop 1)

def parseAll (ts : List String) : Option (List Clause) :=
  if ts == ["-"] then some [] else ts.mapM parseClause

/-- `C10 esc xPRE xT xREST` (`old esc…` = before 6cb11bb): what `escapeNl` makes of the text `T`, and what the
reader's `gather` reads back from the physical lines of `PRE ++ escapeNl T`, newline, `REST`:
answer `xESC xLINE K` (`LINE` trimmed as `readLine` does, `K` physical lines consumed) or `xESC eof` / `xESC err`. -/
def escOp (old : Bool) (pre t rest : String) : String :=
  match Shk.Drv.C09.unhexN pre, Shk.Drv.C09.unhexN t, Shk.Drv.C09.unhexN rest with
  | some pre, some t, some rest =>
    let esc := if old then Shk.Escape.escapeNlOld t else Shk.Escape.escapeNl t
    let (ls, tl) := Shk.Drv.C09.splitLines rest
    match Shk.Reader.gather tl false [] (Shk.Escape.splitNl [] (pre ++ esc) ++ ls) 0 with
    | .line l _ k _ => s!"{Shk.Drv.C09.hexN esc} {Shk.Drv.C09.hexN (Shk.Reader.trimSpace l)} {k}"
    | .eofCont _ => s!"{Shk.Drv.C09.hexN esc} eof"
    | .readErr _ => s!"{Shk.Drv.C09.hexN esc} err"
  | _, _, _ => "bad-op"

/-- `C10 tpl xLINE`: for every template clause regexp that matches the line (model matcher): `name:ok` when the
line is the rendering of its own fields, `name:notimage` otherwise; `-` when none matches. -/
def tplOp (line : String) : String :=
  match Shk.Drv.C09.unhexN line with
  | none => "bad-op"
  | some bs =>
    match unhex line with
    | none => "not-utf8"
    | some str =>
      let s := str.toList
      let _ := bs
      let hits := Shk.Tpl.namedTemplates.filterMap fun e =>
        match Shk.Tpl.isImage s e.2 with
        | none => none
        | some true => some (e.1 ++ ":ok")
        | some false => some (e.1 ++ ":notimage")
      if hits.isEmpty then "-" else " ".intercalate hits

def handle : List String → String
  | ["tplnames"] => " ".intercalate (Shk.Tpl.namedTemplates.map (·.1))
  | ["tpl", line] => tplOp line
  | ["esc", pre, t, rest] => escOp false pre t rest
  | ["escold", pre, t, rest] => escOp true pre t rest
  | "print" :: ts =>
    match parseAll ts with
    | none => "bad-op"
    | some l =>
      match load matchRe l with
      | none => "rejected"
      | some c => showClauses (print c)
  | "printold" :: ts =>
    match parseAll ts with
    | none => "bad-op"
    | some l =>
      match loadOld matchRe l with
      | none => "rejected"
      | some c => showClauses (printOld c)
  | "members" :: ts =>
    match parseAll ts with
    | none => "bad-op"
    | some l =>
      match load matchRe l with
      | none => "rejected"
      | some c => showList (c.members.map fun m => hex m.name)
  | "selftest" :: ts =>
    match parseAll ts with
    | none => "bad-op"
    | some l =>
      match load matchRe l with
      | none => "rejected"
      | some c =>
        match load matchRe (print c) with
        | none => "FAIL reload-rejected"
        | some c' =>
          let same := { c' with members := [] , repTime := none, repCount := none, repFrom := none, repAct := 0 } ==
                      { c with members := [], repTime := none, repCount := none, repFrom := none, repAct := 0 }
          let names := c'.members.map (·.name) == c.members.map (·.name)
          let fix := sameText (print c') (print c)
          if same && names && fix then "ok" else s!"FAIL same={same} names={names} fixpoint={fix}"
  | ["param", n, ds, fs] =>
    let parseTbl (t : String) : Option (List (String × String)) :=
      (commaList t).mapM fun kv =>
        match kv.splitOn ":" with
        | [k, v] => do pure (← unhex k, ← unhex v)
        | _ => none
    match unhex n, parseTbl ds, parseTbl fs with
    | some name, some d, some f =>
      match lookupP (pVars d f) name with
      | some v => hex v
      | none => "-"
    | _, _, _ => "bad-op"
  | "oracle-fix" :: ts =>
    match parseAll (splitBar ts).1, parseAll (splitBar ts).2 with
    | some a, some b =>
      if sameText a b then
        (if firstMentions a == firstMentions b then "ok" else "FAIL member-order")
      else "FAIL differs"
    | _, _ => "bad-op"
  | _ => "bad-op"

end Shk.Drv.C10
