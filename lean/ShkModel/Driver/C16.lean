import ShkModel.Model.Log
import ShkModel.Driver.Util
/-! Driver for C16.  Entry token: `sev,year,month,day,hour,min,sec,micro,gid,xFILE,line,xMSG`
(file and message hex-encoded UTF-8); entry lists are `;`-separated, `-` = empty. -/
namespace Shk.Drv.C16
open Shk.Log

def semiList (t : String) : List String := if t == "-" then [] else t.splitOn ";"
def showSemi (l : List String) : String := if l.isEmpty then "-" else ";".intercalate l

def parseEntry (t : String) : Option Entry :=
  match t.splitOn "," with
  | [sv, y, mo, d, h, mi, s, us, g, f, ln, m] => do
    let sv ← sv.toInt?
    let y ← y.toNat?
    let mo ← mo.toNat?
    let d ← d.toNat?
    let h ← h.toNat?
    let mi ← mi.toNat?
    let s ← s.toNat?
    let us ← us.toNat?
    let g ← g.toInt?
    let f ← unhex f
    let ln ← ln.toInt?
    let m ← unhex m
    pure { sev := sv, year := y, month := mo, day := d, hour := h, minute := mi, second := s,
           micro := us, gid := g, file := f.toList, line := ln, msg := m.toList }
  | _ => none

def showEntry (e : Entry) : String :=
  ",".intercalate [toString e.sev, toString e.year, toString e.month, toString e.day,
    toString e.hour, toString e.minute, toString e.second, toString e.micro, toString e.gid,
    hex (String.ofList e.file), toString e.line, hex (String.ofList e.msg)]

def parseEntries (t : String) : Option (List Entry) := (semiList t).mapM parseEntry
def showEntries (l : List Entry) : String := showSemi (l.map showEntry)

def showRes (r : List Entry × Bool) : String :=
  showEntries r.1 ++ " " ++ (if r.2 then "err" else "ok")

/-- `len:now0:h0:now1:h1` — a message of the given formatted size; header entries are one item
of the given total size -/
def parseWr (idx : Nat) (t : String) : Option (Wr (Nat × Nat)) :=
  match (t.splitOn ":").mapM String.toNat? with
  | some [len, n0, h0, n1, h1] =>
    some { msg := (idx, len), now0 := n0, hdrs0 := [(1000000000, h0)], now1 := n1, hdrs1 := [(1000000000, h1)] }
  | _ => none

def parseWrs : Nat → List String → Option (List (Wr (Nat × Nat)))
  | _, [] => some []
  | i, t :: ts => do
    let w ← parseWr i t
    let r ← parseWrs (i + 1) ts
    pure (w :: r)

def showFiles (s : Rot (Nat × Nat)) : String :=
  showSemi (s.files.reverse.map fun f =>
    toString f.stamp ++ ":" ++ showList ((userMsgs f).map fun m => toString m.1))

def parseNats (t : String) : Option (List Nat) := (commaList t).mapM String.toNat?

/-- real files: `stamp:i,i,i;stamp:…` in name order -/
def parseRealFiles (t : String) : Option (List (Nat × List Nat)) :=
  (semiList t).mapM fun f =>
    match f.splitOn ":" with
    | [st, ms] => do
      let st ← st.toNat?
      let ms ← parseNats ms
      pure (st, ms)
    | _ => none

def increasing : List Nat → Bool
  | a :: b :: r => a < b && increasing (b :: r)
  | _ => true

/-- specification of GC selection: the newest is kept; any other file is kept iff the sizes from
the newest up to and including it add up to less than the bound -/
def gcSpec (bound : Nat) (sizes : List Nat) (kept : List Bool) : Bool :=
  kept.length == sizes.length &&
  (List.range sizes.length).all fun i =>
    kept[i]! == (i == 0 || decide ((sizes.take (i + 1)).sum < bound))

def handle : List String → String
  | ["fmt", es] =>
    match parseEntries es with
    | some l => showList (l.map fun e => hex (String.ofList (format e)))
    | none => "bad-op"
  | ["dec", cap, d] =>
    match cap.toNat?, unhex d with
    | some c, some s => showRes (decode c s.toList)
    | _, _ => "bad-op"
  | ["rt", cap, es] =>
    match cap.toNat?, parseEntries es with
    | some c, some l => showRes (decode c (l.flatMap format))
    | _, _ => "bad-op"
  | ["wf", cap, es] =>
    match cap.toNat?, parseEntries es with
    | some c, some l => if l.all wf && fits c l then "in" else "out"
    | _, _ => "bad-op"
  -- oracle: the round-trip specification on what the real code decoded
  | ["oracle-rt", cap, es, got, flag] =>
    match cap.toNat?, parseEntries es, parseEntries got with
    | some c, some l, some g =>
      -- the domain of the property: every entry well-formed and representable (fits the window)
      if !(l.all wf) then "skip"
      else if !(l.all fun e => (format e).length ≤ c) then "skip-window"
      else if flag == "ok" && g == l then "ok"
      else if fits c l then
        "FAIL decoded=" ++ toString g.length ++ " expected=" ++ toString l.length ++ " " ++ flag
      else
        "FAIL-LIMIT decoded=" ++ toString g.length ++ " expected=" ++ toString l.length ++ " " ++ flag
    | _, _, _ => "bad-op"
  | ["rot", max, ws] =>
    match max.toNat?, parseWrs 0 (commaList ws) with
    | some m, some l =>
      let s := run (fun (p : Nat × Nat) => p.2) m {} (l.map Op.write)
      showFiles s ++ " " ++ showList ((readBack s).map fun m => toString m.1)
    | _, _ => "bad-op"
  -- oracle: rotation is lossless and names increase (on the files the real logger left)
  | ["oracle-rot", n, fs] =>
    match n.toNat?, parseRealFiles fs with
    | some n, some l =>
      if !increasing (l.map (·.1)) then "FAIL names-not-increasing"
      else if l.flatMap (·.2) == List.range n then "ok"
      else "FAIL read-back-differs"
    | _, _ => "bad-op"
  -- oracle with GC running: what can be read back is a contiguous tail of what was logged
  | ["oracle-suffix", n, fs] =>
    match n.toNat?, parseRealFiles fs with
    | some n, some l =>
      let rb := l.flatMap (·.2)
      if !increasing (l.map (·.1)) then "FAIL names-not-increasing"
      else if rb == (List.range n).drop (n - rb.length) then "ok"
      else "FAIL not-a-suffix"
    | _, _ => "bad-op"
  | ["gc", b, sz] =>
    match b.toNat?, parseNats sz with
    | some b, some l => showBits (gcKeep b l)
    | _, _ => "bad-op"
  | ["oracle-gc", b, sz, kept] =>
    match b.toNat?, parseNats sz, bits kept with
    | some b, some l, some k => if gcSpec b l k then "ok" else "FAIL gc-selection"
    | _, _, _ => "bad-op"
  | _ => "bad-op"

end Shk.Drv.C16
