import ShkModel.Model.Story
import ShkModel.Driver.Util
/-! Driver for C06.  Tokens:

* byte strings: `x<hex>`; lists of them comma separated, `-` = empty list
* roles  `xROLE:xACT/xACT,…`      cast `xACTOR:xROLE,…`
* clauses `e:xC:a:xACTOR:<acts>` `e:xC:r:xROLE:<acts>` (`<acts>` = `xA/xB…` or `-`),
  `m:xC:s:xMOOD` `m:xC:e:xMOOD`, `s:xTEXT`, `d:xFROM:xTO` (edit = literal replace-all),
  `b:xTEXT` (oracle only: the storyline *is* this text from here on — the result of an edit)
* schedules: acts joined by `|`, effects by `;`: `<t>M<xmood>`, `<t>P<line>&<line>…` with
  line = `xACTOR:xACT!/xACT?…`, `<t>E`
-/
namespace Shk.Drv.C06
open Shk.Story

def hexList (t : String) : Option (List (List Char)) := (commaList t).mapM unhexChars
def showActs (l : List (List Char)) : String := showList (l.map hexOfChars)

def oneChar (t : String) : Option Char :=
  match unhexChars t with
  | some [c] => some c
  | _ => none

def slashList (t : String) : Option (List String) :=
  if t == "-" then some [] else (t.splitOn "/").mapM unhex

def parseRoles (t : String) : Option (List (String × List String)) :=
  (commaList t).mapM fun r =>
    match r.splitOn ":" with
    | [n, as] => do pure ((← unhex n), (← slashList as))
    | _ => none

def parseCast (t : String) : Option (List (String × String)) :=
  (commaList t).mapM fun r =>
    match r.splitOn ":" with
    | [a, r] => do pure ((← unhex a), (← unhex r))
    | _ => none

/-- literal replace-all (leftmost, non-overlapping), standing in for `edit s/from/to/` when
`from` has no regexp metacharacter and `to` no `$` -/
def replaceAll (pat rep : List Char) : Nat → List Char → List Char
  | 0, l => l
  | _ + 1, [] => []
  | fuel + 1, c :: rest =>
    if pat.isPrefixOf (c :: rest) then rep ++ replaceAll pat rep fuel ((c :: rest).drop pat.length)
    else c :: replaceAll pat rep fuel rest

def editFn (pat rep : List Char) (l : List Char) : List Char :=
  if pat.isEmpty then l else replaceAll pat rep (l.length + 1) l

inductive Tok
  | cl (c : Clause)
  | base (text : List Char)

def parseClause (t : String) : Option Tok :=
  match t.splitOn ":" with
  | ["e", c, "a", n, as] => do pure (.cl (.entails (← oneChar c) (.actor (← unhex n)) (← slashList as)))
  | ["e", c, "r", n, as] => do pure (.cl (.entails (← oneChar c) (.every (← unhex n)) (← slashList as)))
  | ["m", c, "s", m] => do pure (.cl (.mood (← oneChar c) true (← unhex m)))
  | ["m", c, "e", m] => do pure (.cl (.mood (← oneChar c) false (← unhex m)))
  | ["s", x] => do pure (.cl (.storyline (← unhexChars x)))
  | ["d", a, b] => do pure (.cl (.edit (editFn (← unhexChars a) (← unhexChars b))))
  | ["b", x] => do pure (.base (← unhexChars x))
  | _ => none

def showEffect : Nat × Effect → String
  | (t, .mood m) => toString t ++ "M" ++ hex m
  | (t, .endAct) => toString t ++ "E"
  | (t, .perform ls) => toString t ++ "P" ++ "&".intercalate (ls.map fun l =>
      hex l.1 ++ ":" ++ "/".intercalate (l.2.map fun s => hex s.1 ++ (if s.2 then "?" else "!")))

def showSched (s : Schedule) : String := ";".intercalate (s.map showEffect)
def showPlay (p : List Schedule) : String := if p.isEmpty then "-" else "|".intercalate (p.map showSched)

def showCols (cs : List (List Char)) : String :=
  if cs.isEmpty then "-" else ";".intercalate (cs.map fun c => if c.isEmpty then "." else String.ofList c)

def showVErr : VErr → String
  | .plusBegin => "plusBegin"
  | .plusEnd => "plusEnd"
  | .plusPlus => "plusPlus"
  | .undefinedScene _ => "undefined"

def clausesOnly (ts : List Tok) : Option (List Clause) :=
  ts.mapM fun | .cl c => some c | .base _ => none

/-- the oracle's walk over the *source* clauses: specification functions only -/
def specWalk (cfg : Cfg) : List Clause → List (List (List Char)) → List Tok →
    Option (List Clause × List (List (List Char)))
  | seen, cols, [] => some (seen, cols)
  | seen, cols, .cl (.storyline t) :: rest =>
    if (writtenActs t).all (validAct (specDefined cfg · seen)) then
      specWalk cfg seen (zipActs cols (clauseCols t)) rest
    else none
  | seen, _, .base t :: rest =>
    if (writtenActs t).all (validAct (specDefined cfg · seen)) then
      specWalk cfg seen (clauseCols t) rest
    else none
  | _, _, .cl (.edit _) :: _ => none
  | seen, cols, .cl (.mood c s m) :: rest =>
    -- a mood is named by an identifier (the lexical class is the parser's `identRe`)
    if isIdent m.toList then specWalk cfg (seen ++ [.mood c s m]) cols rest else none
  | seen, cols, .cl c :: rest => specWalk cfg (seen ++ [c]) cols rest

def specPlay (cfg : Cfg) (ts : List Tok) : String :=
  match specWalk cfg [] [] ts with
  | none => "err"
  | some (seen, cols) => showPlay (denote (specTable cfg seen) cfg.tempo cols)

def withCfg (tempo roles cast : String) (k : Cfg → String) : String :=
  match tempo.toNat?, parseRoles roles, parseCast cast with
  | some t, some r, some c => k ⟨r, c, t⟩
  | _, _, _ => "bad-op"

def handle : List String → String
  | ["comb", a, b] =>
    match unhexChars a, unhexChars b with
    | some x, some y => hexOfChars (comb x y)
    | _, _ => "bad-op"
  | ["combStory", a, b] =>
    match hexList a, hexList b with
    | some x, some y => showActs (combineStory x y)
    | _, _ => "bad-op"
  | ["validate", d, t] =>
    match unhexChars d, unhexChars t with
    | some ds, some text =>
      match validate (fun c => ds.contains c) text with
      | .ok acts => "ok " ++ showActs acts
      | .error e => "err " ++ showVErr e
    | _, _ => "bad-op"
  -- the specification's verdict on a validation result produced by the real code
  | ["oracle-validate", d, t, res] =>
    match unhexChars d, unhexChars t with
    | some ds, some text =>
      let parts := writtenActs text
      let want := if parts.all (validAct fun c => ds.contains c) then "ok:" ++ showActs parts else "err"
      if res == want then "ok" else "FAIL want=" ++ want
    | _, _ => "bad-op"
  | ["cols", a] =>
    match unhexChars a with
    | some x => showCols (columns x)
    | none => "bad-op"
  | ["samecols", a, b] =>
    match hexList a, hexList b with
    | some x, some y => if x.map columns == y.map columns then "ok" else "diff"
    | _, _ => "bad-op"
  -- oracle for the merge alone: columns of the real result = union of the columns of the inputs
  | ["oracle-comb", a, b, r] =>
    match hexList a, hexList b, hexList r with
    | some x, some y, some z =>
      if z.map columns == zipActs (x.map columns) (y.map columns) then "ok"
      else "FAIL want=" ++ "|".intercalate ((zipActs (x.map columns) (y.map columns)).map showCols)
    | _, _, _ => "bad-op"
  | "play" :: tempo :: roles :: cast :: cls =>
    withCfg tempo roles cast fun cfg =>
      match (cls.mapM parseClause).bind clausesOnly with
      | none => "bad-op"
      | some cs =>
        match run cfg cs with
        | none => "err parse"
        | some st =>
          match compile st.table cfg.tempo st.story with
          | none => "err compile"
          | some p => "ok " ++ showActs st.story ++ " " ++ showPlay (p.map flatten)
  | "denote" :: tempo :: roles :: cast :: cls =>
    withCfg tempo roles cast fun cfg =>
      match cls.mapM parseClause with
      | none => "bad-op"
      | some ts => specPlay cfg ts
  | "oracle" :: tempo :: roles :: cast :: real :: cls =>
    withCfg tempo roles cast fun cfg =>
      match cls.mapM parseClause with
      | none => "bad-op"
      | some ts => if specPlay cfg ts == real then "ok" else "FAIL want=" ++ specPlay cfg ts
  | _ => "bad-op"

end Shk.Drv.C06
