import ShkModel.Model.Reader
import ShkModel.Model.EditCmd
import ShkModel.Driver.Util
/-! Driver for C09 (and the reader part of C20).

`C09 run <old 0|1> <ipath> <defines> <main> <fs> <verdict>`
  ipath, defines : comma lists of hex strings (`-` = empty); main : hex;
  fs : comma list of `xNAME:ENTRY`, ENTRY = `d` (directory) | `m` (missing) | `e` (open error) |
       `fxCONTENT` (file);  a name that is not listed is unknown: the answer is `need xNAME`;
  verdict : `-` (the parser accepts every clause) | `r<k>` (rejects clause number k) | `a<k>` (aborts at k).
answer: `<outcome> | <clauses> | <table>` with
  outcome = `ok` | `abort` | `panic` | `running` | `need xNAME` |
            `err xFILE LINE LO HI NL CHAIN KIND` (CHAIN = `xFILE:LINE;…` or `-`),
  clauses = `xFILE:LINE:NPHYS:TBLLEN:INSEC:xTEXT,…` in reading order, table = `xNAME=xVALUE;…`.
The outcome is that of the model's `load` with the fuel `bound L` of theorem `reader_terminates`.

`C09 oracle-diag <fs> xFILE LINE CHAIN <clause 0|1>`: the specification of a truthful diagnostic
evaluated on a position reported by the real code. -/
namespace Shk.Drv.C09
open Shk.Reader Shk.Preproc

def toNats (bs : List UInt8) : Bytes := bs.map (·.toNat)
def hexN (b : Bytes) : String := hexOfBytes (b.map UInt8.ofNat)
def unhexN (t : String) : Option Bytes := (unhexBytes t).map toNats

def hexList (t : String) : Option (List Bytes) := (commaList t).mapM unhexN

/-- complete lines (without newline) and the unterminated remainder -/
def splitLines : Bytes → List Bytes × Bytes
  | [] => ([], [])
  | c :: rest =>
    match splitLines rest with
    | (ls, tl) =>
      if c == 10 then ([] :: ls, tl)
      else match ls with
        | [] => ([], c :: tl)
        | l :: ls' => ((c :: l) :: ls', tl)

def parseEntry (t : String) : Option Entry :=
  match t.toList with
  | ['d'] => some .dir
  | ['m'] => some .missing
  | ['e'] => some .denied
  | 'f' :: cs => (unhexN (String.ofList cs)).map fun c => .file (splitLines c).1 (splitLines c).2 false
  | _ => none

def parseFsEntry (t : String) : Option (Bytes × Entry) :=
  match t.splitOn ":" with
  | [n, e] => do
    let n ← unhexN n
    let e ← parseEntry e
    pure (n, e)
  | _ => none

abbrev FsTable := List (Bytes × Entry)

def parseFs (t : String) : Option FsTable := (commaList t).mapM parseFsEntry

def tableFind (tb : FsTable) (n : Bytes) : Option Entry :=
  match tb with
  | [] => none
  | (k, e) :: rest => if k = n then some e else tableFind rest n

/-- unknown names answer "open error": the run stops there and the driver asks for the name -/
def fsOf (tb : FsTable) : FS := fun n => (tableFind tb n).getD .denied

def maxLines (tb : FsTable) : Nat :=
  tb.foldl (fun m p => match p.2 with
    | .file b _ _ => max m b.length
    | _ => m) 0

/-! ### the stand-in for the clause parsers -/

def goSpace (c : Nat) : Bool := c == 9 || c == 10 || c == 12 || c == 13 || c == 32

/-- `\s+` -/
def spaces1 (s : Bytes) : Option Bytes :=
  match s with
  | c :: _ => if goSpace c then some (s.dropWhile goSpace) else none
  | [] => none

def kwParameter : Bytes := [112, 97, 114, 97, 109, 101, 116, 101, 114]
def kwDefaults : Bytes := [100, 101, 102, 97, 117, 108, 116, 115]
def kwTo : Bytes := [116, 111]
def kwEnd : Bytes := [101, 110, 100]
def pfxTitle : Bytes := [116, 105, 116, 108, 101, 32]
def pfxAttention : Bytes := [97, 116, 116, 101, 110, 116, 105, 111, 110, 32]
def pfxAuthor : Bytes := [97, 117, 116, 104, 111, 114, 32]

/-- `^parameter\s+(?P<name>\S+)\s+defaults\s+to\s+(?P<val>.*)$`, both groups through `TrimSpace` -/
def paramMatch (l : Bytes) : Option (Bytes × Bytes) := do
  let r ← stripPrefix? kwParameter l
  let r ← spaces1 r
  let name := r.takeWhile (fun c => !goSpace c)
  if name.isEmpty then none
  let r ← spaces1 (r.dropWhile (fun c => !goSpace c))
  let r ← stripPrefix? kwDefaults r
  let r ← spaces1 r
  let r ← stripPrefix? kwTo r
  let r ← spaces1 r
  pure (trimSpace name, trimSpace r)

structure DState where
  tbl : Table
  inSec : Bool
  idx : Nat
  rejectAt : Option Nat
  abortAt : Option Nat

def isPlain (l : Bytes) : Bool :=
  (stripPrefix? pfxTitle l).isSome || (stripPrefix? pfxAttention l).isSome || (stripPrefix? pfxAuthor l).isSome

/-- a clause the real parser accepted: `parameter` defines (top level only), any other top-level
clause that is not title/attention/author opens a section, `end` closes it -/
def accept (s : DState) (l : Bytes) : DState :=
  if s.inSec then { s with idx := s.idx + 1, inSec := !(l == kwEnd) }
  else if isPlain l then { s with idx := s.idx + 1 }
  else match paramMatch l with
    | some (n, v) => { s with idx := s.idx + 1, tbl := define s.tbl n v }
    | none => { s with idx := s.idx + 1, inSec := true }

def drvParser : Parser DState :=
  { classify := fun s l =>
      if s.rejectAt == some s.idx then .reject
      else if s.abortAt == some s.idx then .abort
      else .accept (accept s l),
    params := fun s => s.tbl }

structure ClauseRec where
  file : Bytes
  line : Nat
  nphys : Nat
  tblLen : Nat
  inSec : Bool
  text : Bytes

/-- the same loop as `run`, recording what `readLine` hands to the parser -/
def trace (old : Bool) (fs : FS) (ipath : List Name) :
    Nat → List Frame → DState → List ClauseRec → List ClauseRec
  | 0, _, _, acc => acc.reverse
  | n + 1, st, s, acc =>
    match readLineG old fs ipath s.tbl st with
    | .skip st' => trace old fs ipath n st' s acc
    | .clause text line r below =>
      match drvParser.classify s text with
      | .accept s' =>
        trace old fs ipath n (r :: below) s'
          ({ file := r.file, line := line, nphys := r.lineno - line, tblLen := s.tbl.length,
             inSec := s.inSec, text := text } :: acc)
      | _ => ({ file := r.file, line := line, nphys := r.lineno - line, tblLen := s.tbl.length,
                inSec := s.inSec, text := text } :: acc).reverse
    | _ => acc.reverse

def finalTable (old : Bool) (fs : FS) (ipath : List Name) :
    Nat → List Frame → DState → Table
  | 0, _, s => s.tbl
  | n + 1, st, s =>
    match readLineG old fs ipath s.tbl st with
    | .skip st' => finalTable old fs ipath n st' s
    | .clause text _ r below =>
      match drvParser.classify s text with
      | .accept s' => finalTable old fs ipath n (r :: below) s'
      | _ => s.tbl
    | _ => s.tbl

def showKind : ErrKind → String
  | .read => "read"
  | .eofCont => "eofCont"
  | .depth => "depth"
  | .undef ns => "undef:" ++ (if ns.isEmpty then "-" else ";".intercalate (ns.map hexN))
  | .notFound n => "notFound:" ++ hexN n
  | .openErr n => "openErr:" ++ hexN n
  | .isDir n => "isDir:" ++ hexN n
  | .clause => "clause"

def showChain (c : List (Name × Nat)) : String :=
  if c.isEmpty then "-" else ";".intercalate (c.map fun p => hexN p.1 ++ ":" ++ toString p.2)

def showDiag (d : Diag) : String :=
  "err " ++ hexN d.file ++ " " ++ toString d.line ++ " " ++ toString d.ctxLo ++ " " ++ toString d.ctxHi ++ " " ++
    toString d.nl ++ " " ++ showChain d.chain ++ " " ++ showKind d.kind

def showClause (c : ClauseRec) : String :=
  hexN c.file ++ ":" ++ toString c.line ++ ":" ++ toString c.nphys ++ ":" ++ toString c.tblLen ++ ":" ++
    (if c.inSec then "1" else "0") ++ ":" ++ hexN c.text

def showTable (t : Table) : String :=
  if t.isEmpty then "-" else ";".intercalate (t.map fun p => hexN p.1 ++ "=" ++ hexN p.2)

def parseVerdict (t : String) : Option (Option Nat × Option Nat) :=
  match t.toList with
  | ['-'] => some (none, none)
  | 'r' :: cs => (String.ofList cs).toNat?.map fun k => (some k, none)
  | 'a' :: cs => (String.ofList cs).toNat?.map fun k => (none, some k)
  | _ => none

def unknownName (tb : FsTable) (n : Bytes) : Bool := (tableFind tb n).isNone

def runOp (old : Bool) (ipath0 defs : List Bytes) (main : Bytes) (tb : FsTable)
    (v : Option Nat × Option Nat) : String :=
  let fs := fsOf tb
  let ipath := withLocalDir ipath0
  let fuel := bound (maxLines tb)
  let s0 : DState := { tbl := fromDefines defs, inSec := false, idx := 0, rejectAt := v.1, abortAt := v.2 }
  match search old fs main ipath with
  | .openErr c => if unknownName tb c then "need " ++ hexN c else "abort | - | " ++ showTable s0.tbl
  | .hit cand b t bad =>
    let st := [newFrame cand b t bad]
    let out := runG old drvParser fs ipath fuel st s0
    let tr := trace old fs ipath fuel st s0 []
    let ft := finalTable old fs ipath fuel st s0
    let tail := " | " ++ showList (tr.map showClause) ++ " | " ++ showTable ft
    match out with
    | .ok _ => "ok" ++ tail
    | .abort => "abort" ++ tail
    | .panic => "panic" ++ tail
    | .running => "running" ++ tail
    | .error d =>
      match d.kind with
      | .openErr c => if unknownName tb c then "need " ++ hexN c else showDiag d ++ tail
      | _ => showDiag d ++ tail
  | _ => "abort | - | " ++ showTable s0.tbl

/-! ### oracle: the specification of a truthful position, on what the real code reported -/

/-- first physical line of the clause that contains physical line `l` (1-based) -/
def clauseStart (body : List Bytes) : Nat → Nat
  | 0 => 0
  | 1 => 1
  | l + 2 => if endsBackslash (body.getD l []) then clauseStart body (l + 1) else l + 2

def isIncludeAt (body : List Bytes) (tail : Bytes) (l : Nat) : Bool :=
  match clauseAt body tail false l with
  | .line text _ _ _ => (includeArg (trimSpace text)).isSome
  | _ => false

def parseChain (t : String) : Option (List (Bytes × Nat)) :=
  if t == "-" then some [] else
  (t.splitOn ";").mapM fun e =>
    match e.splitOn ":" with
    | [f, l] => do
      let f ← unhexN f
      let l ← l.toNat?
      pure (f, l)
    | _ => none

def oracleChain (tb : FsTable) : List (Bytes × Nat) → String
  | [] => "ok"
  | (g, l) :: rest =>
    match tableFind tb g with
    | some (.file body tail _) =>
      if 1 ≤ l && l ≤ nphys body tail false && isIncludeAt body tail (clauseStart body l) then oracleChain tb rest
      else if 2 ≤ l && l - 1 ≤ nphys body tail false && isIncludeAt body tail (clauseStart body (l - 1)) then
        "FAIL chain-after-include " ++ hexN g ++ ":" ++ toString l
      else "FAIL chain-line " ++ hexN g ++ ":" ++ toString l
    | _ => "FAIL chain-file " ++ hexN g

def oracleDiag (tb : FsTable) (file : Bytes) (line : Nat) (chain : List (Bytes × Nat)) (isClause : Bool) : String :=
  match tableFind tb file with
  | some (.file body tail _) =>
    if !(1 ≤ line && line ≤ nphys body tail false) then "FAIL position " ++ hexN file ++ ":" ++ toString line
    else if isClause && clauseStart body line != line then "FAIL not-first-line " ++ toString (clauseStart body line)
    else if isClause && (match clauseAt body tail false line with
        | .line text _ _ _ => ignoreLine (trimSpace text)
        | _ => true) then "FAIL no-clause-there"
    else oracleChain tb chain
  | _ => "FAIL file " ++ hexN file

open Shk.EditCmd in
def handle : List String → String
  | ["run", old, ip, ds, main, fs, v] =>
    match hexList ip, hexList ds, unhexN main, parseFs fs, parseVerdict v with
    | some ip, some ds, some main, some tb, some v => runOp (old == "1") ip ds main tb v
    | _, _, _, _, _ => "bad-op"
  | ["oracle-diag", fs, file, line, chain, cl] =>
    match parseFs fs, unhexN file, line.toNat?, parseChain chain with
    | some tb, some f, some l, some ch => oracleDiag tb f l ch (cl == "1")
    | _, _, _, _ => "bad-op"
  | ["edit", old, cmd] =>
    match unhexN cmd with
    | some c =>
      match editCheck (old == "1") c with
      | .ok a b => "ok " ++ hexN a ++ " " ++ hexN b
      | .invalid => "invalid"
      | .panic => "panic"
    | none => "bad-op"
  | ["join", a, b] =>
    match unhexN a, unhexN b with
    | some a, some b => hexN (goJoin a b)
    | _, _ => "bad-op"
  | ["dir", a] =>
    match unhexN a with
    | some a => hexN (goDir a)
    | none => "bad-op"
  | ["trim", a] =>
    match unhexN a with
    | some a => hexN (trimSpace a)
    | none => "bad-op"
  | _ => "bad-op"

end Shk.Drv.C09
