import ShkModel.Model.Paths
import ShkModel.Driver.Util
namespace Shk.Drv.C12
open Shk.Paths

def toComp (s : String) : Comp String :=
  if s == "" then .empty else if s == "." then .dot else if s == ".." then .up else .nm s

def compStr : Comp String → String
  | .empty => ""
  | .dot => "."
  | .up => ".."
  | .nm a => a

/-- a slash separated path as the model sees it -/
def ofString (s : String) : P String := ⟨s.startsWith "/", (s.splitOn "/").map toComp⟩

def render (p : P String) : String :=
  if p.abs then "/" ++ "/".intercalate ((match p.comps with | .empty :: r => r | l => l).map compStr)
  else if p.comps.isEmpty then "." else "/".intercalate (p.comps.map compStr)

/-- the names of a clean absolute path (the current directory) -/
def cwdNames (s : String) : List String :=
  (clean (ofString s)).comps.filterMap fun c => match c with | .nm a => some a | _ => none

/-- `cfg.subDir`: "" and "." mean none; otherwise plain names -/
def subNames (s : String) : Option (List String) :=
  if s == "" || s == "." then some [] else
  (s.splitOn "/").mapM fun c => match toComp c with | .nm a => some a | _ => none

def b (t : String) : Bool := t == "1"
/-- the `--clear` flag: "1" given, "2" given as `--clear=false`, anything else: not given -/
def cl (t : String) : Option Bool := if t == "1" then some true else if t == "2" then some false else none
def sb (x : Bool) : String := if x then "1" else "0"

def ints (t : String) : Option (List Int) := (commaList t).mapM (·.toInt?)

def handle : List String → String
  | ["clean", p] =>
    match unhex p with
    | some s => hex (render (clean (ofString s)))
    | none => "bad-op"
  | ["join", a, c] =>
    match unhex a, unhex c with
    | some x, some y => hex (render (join (ofString x) (ofString y).comps))
    | _, _ => "bad-op"
  | ["dirs", ver, cwd, o, sub] =>
    match unhex cwd, unhex o, (unhex sub).bind subNames with
    | some c, some os, some sn =>
      let d := if ver == "old" then prepareDirsOld "latest" (ofString os) sn else prepareDirs "latest" (ofString os) sn
      let w := cwdNames c
      "run=" ++ hex (render d.runDir) ++ " alias=" ++ hex (render d.alias) ++ " target=" ++ hex (render d.target)
        ++ " resolved=" ++ hex (render (resolveLink w d.alias d.target))
        ++ " absrun=" ++ hex (render (absolutize w d.runDir))
    | _, _, _ => "bad-op"
  -- what `<o>/latest` is after prepareDirs given what it was before
  | ["slot", prev] =>
    let pv : Option (Slot String) := match prev with
      | "absent" => some .absent | "live" => some (.link ⟨false, names ["20250101000000"]⟩)
      | "dangling" => some (.link ⟨false, names ["20250101000000"]⟩) | "file" => some .file
      | "emptydir" => some .emptyDir | "fulldir" => some .fullDir | _ => none
    match pv with
    | none => "bad-op"
    | some pv =>
      match replaceLatest pv (⟨false, names ["new"]⟩ : P String) with
      | none => "error"
      | some (.link t) => if t == ⟨false, names ["new"]⟩ then "replaced" else "kept"
      | some _ => "other"
  | ["survive", k, c, u, s, p, i, pl, up] =>
    let o := runEnd ⟨b k, cl c, b u, b s⟩ ⟨b p, b i, b pl, b up⟩
    "exit=" ++ sb o.exitNonZero ++ " foul=" ++ sb o.foulFlag ++ " run=" ++ sb o.runDir ++ " art=" ++ sb o.artifacts
      ++ " plots=" ++ sb o.plots ++ " result=" ++ sb o.result ++ " uploaded=" ++ sb o.uploaded ++ " upart=" ++ sb o.uploadedArtifacts
  -- oracle: the survive specification on what the real program left on disk
  | ["oracle-survive", k, c, u, s, fouled, failed, art, run] =>
    if surviveSpec ⟨b k, cl c, b u, b s⟩ (b fouled) (b failed) (b art) (b run) then "ok"
    else "FAIL artifacts kept iff (the play failed or -k) and run directory kept; run directory erased iff (--clear, or an upload URL without an explicit --clear=false) and exit status 0"
  | ["range", ts] =>
    match ints ts with
    | some l => toString (normalise 10000 (record l)).1 ++ " " ++ toString (normalise 10000 (record l)).2
    | none => "bad-op"
  -- oracle: the range specification on MinTime/MaxTime of the real result.js and the recorded times
  | ["oracle-range", lo, hi, ts] =>
    match lo.toInt?, hi.toInt?, ints ts with
    | some l, some h, some t =>
      if rangeSpec 10000 t l h then "ok"
      else "FAIL " ++ (if decide (l ≤ 0) then "" else "MinTime>0 ") ++ (if decide (l + 10000 ≤ h) then "" else "MaxTime<MinTime+1 ")
        ++ showList ((t.filter fun x => !(decide (l ≤ x) && decide (x ≤ h))).map toString)
    | _, _, _ => "bad-op"
  | _ => "bad-op"

end Shk.Drv.C12
