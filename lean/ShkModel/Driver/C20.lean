import ShkModel.Model.Preproc
import ShkModel.Driver.C09
/-! Driver for C20.

`C20 preproc <table> xS`            → `xRESULT UNDEF` (UNDEF = `xNAME;…` or `-`): the model's `preprocReplace`
`C20 table <defines> <defaults>`    → the table after `-D` (comma list of hex `name=value`) and the
                                       `parameter` clauses (`xNAME=xVALUE;…`) in reading order
`C20 oracle-preproc <table> xS xRESULT UNDEF` → `ok` | `FAIL …`: the specification (walk of the input:
    a match of `~\w+~` wherever one starts, else one byte copied) evaluated on what the real code returned.
table = `xNAME=xVALUE;…` or `-`. -/
namespace Shk.Drv.C20
open Shk.Preproc Shk.Drv.C09

def parseTable (t : String) : Option Table :=
  if t == "-" then some [] else
  (t.splitOn ";").mapM fun e =>
    match e.splitOn "=" with
    | [n, v] => do
      let n ← unhexN n
      let v ← unhexN v
      pure (n, v)
    | _ => none

def showNames (ns : List Bytes) : String := if ns.isEmpty then "-" else ";".intercalate (ns.map hexN)

def parseNames (t : String) : Option (List Bytes) :=
  if t == "-" then some [] else (t.splitOn ";").mapM unhexN

def dropPrefix? : Bytes → Bytes → Option Bytes
  | [], s => some s
  | _ :: _, [] => none
  | a :: p, b :: s => if a = b then dropPrefix? p s else none

/-- the specification as a checker of (input, output, undefined names): `fuel` ≥ length of input -/
def checkSubst (t : Table) : Nat → Bytes → Bytes → List Bytes → Bool
  | 0, s, out, und => s.isEmpty && out.isEmpty && und.isEmpty
  | _ + 1, [], out, und => out.isEmpty && und.isEmpty
  | n + 1, c :: rest, out, und =>
    if c == tilde then
      match matchAt rest with
      | some w =>
        match lookup t w with
        | some v =>
          match dropPrefix? v out with
          | some out' => checkSubst t n (rest.drop (w.length + 1)) out' und
          | none => false
        | none =>
          match dropPrefix? (tilde :: w ++ [tilde]) out, und with
          | some out', u :: und' => u == w && checkSubst t n (rest.drop (w.length + 1)) out' und'
          | _, _ => false
      | none =>
        match out with
        | o :: out' => o == c && checkSubst t n rest out' und
        | [] => false
    else
      match out with
      | o :: out' => o == c && checkSubst t n rest out' und
      | [] => false

def handle : List String → String
  | ["preproc", tb, s] =>
    match parseTable tb, unhexN s with
    | some t, some s => hexN (preprocReplace t s).1 ++ " " ++ showNames (preprocReplace t s).2
    | _, _ => "bad-op"
  | ["table", ds, ps] =>
    match hexList ds, parseTable ps with
    | some ds, some ps => showTable (withDefaults (fromDefines ds) ps)
    | _, _ => "bad-op"
  | ["oracle-preproc", tb, s, r, u] =>
    match parseTable tb, unhexN s, unhexN r, parseNames u with
    | some t, some s, some r, some u =>
      if checkSubst t (s.length + 1) s r u then "ok" else "FAIL substitution is not the one of the specification"
    | _, _, _, _ => "bad-op"
  | _ => "bad-op"

end Shk.Drv.C20
