import ShkModel.Model.Verdict
import ShkModel.Driver.Util
namespace Shk.Drv.C03
open Shk.Verdict

def parseRes : String → Option Res
  | "d" => some .disappointment | "s" => some .satisfaction | _ => none
def parseMode : String → Option FoulCond
  | "0" => some .ignore | "1" => some .uponNonZero | "2" => some .uponZero | _ => none
def modeCode : FoulCond → String
  | .ignore => "0" | .uponNonZero => "1" | .uponZero => "2"

def parseOp (t : String) : Option Op :=
  match t.splitOn ":" with
  | ["M", h] => (unhex h).map Op.member
  | ["I", r] => (parseRes r).map Op.ignoreAll
  | ["S", m, h, r] => do pure (.set (← parseMode m) (← unhex h) (← parseRes r))
  | _ => none

def showTable (t : Table) : String :=
  showList (t.map fun p => hex p.1 ++ ":" ++ modeCode p.2.onBad ++ ":" ++ modeCode p.2.onGood)

def parseReport (t : String) : Option Report :=
  match t.splitOn ":" with
  | [h, c] => do pure { auditor := (← unhex h), code := (← c.toNat?) }
  | _ => none

def parseErr : String → Option (Option Err)
  | "nil" => some none
  | "err" => some (some {})
  | "cancel" => some (some { isCancel := true })
  | "audit" => some (some { isAudit := true })
  | _ => none

def handle : List String → String
  -- the parser's fold over the clauses
  | ["interp", ops] =>
    match (commaList ops).mapM parseOp with
    | some os => match applyOps [] os with
      | some t => showTable t
      | none => "rejected"
    | none => "bad-op"
  -- specification: mode of (auditor, result) by the last clause that addresses it
  | ["lastwins", ops, n, r] =>
    match (commaList ops).mapM parseOp, unhex n, parseRes r with
    | some os, some name, some res => modeCode (lastWins name res false (defaultOf res) os)
    | _, _, _ => "bad-op"
  -- the collector loop: `collect <ops> <earlyExit 0|1> <reports>` → consumed, fouls, tallies
  | ["collect", ops, ee, reps] =>
    match (commaList ops).mapM parseOp, (commaList reps).mapM parseReport with
    | some os, some rs =>
      match applyOps [] os with
      | none => "rejected"
      | some t =>
        let early := ee == "1"
        -- count consumed reports: run prefix by prefix
        let rec go (s : ColSt) (rs : List Report) (k : Nat) : ColSt × Nat × Bool :=
          match rs with
          | [] => (s, k, false)
          | r :: rest =>
            let x := collectReport t early s r
            if x.2 then (x.1, k + 1, true) else go x.1 rest (k + 1)
        let (s, k, stopped) := go {} rs 0
        let f := fouls t s.tally s.errors
        s!"consumed={k} stopped={stopped} fouls={f} errors={s.errors} " ++
          showList (t.map fun p => hex p.1 ++ ":" ++ toString (s.tally p.1).good ++ ":" ++ toString (s.tally p.1).bad ++ ":" ++ toString (s.tally p.1).hasData)
    | _, _ => "bad-op"
  -- the funnel: `conduct <pr> <sp> <au> <col> <first> <verdict 0|1> <cleanup>` → exit code
  | ["conduct", pr, sp, au, col, first, v, cl] =>
    match parseErr pr, parseErr sp, parseErr au, parseErr col, first.toNat?, parseErr cl with
    | some a, some b, some c, some d, some f, some e => toString (exitCode (conductErr a b c d f (v == "1") e))
    | _, _, _, _, _, _ => "bad-op"
  | _ => "bad-op"

end Shk.Drv.C03
