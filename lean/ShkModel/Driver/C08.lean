import ShkModel.Model.Spot
import ShkModel.Driver.Aud
import ShkModel.Model.Collect
namespace Shk.Drv.C08
open Shk Shk.Aud Shk.Spot Shk.Drv.Aud

def parseTs : String → Option TsKind
  | "now" => some .now | "deltasecs" => some .deltasecs | "rfc3339" => some .rfc3339
  | "log" => some .log | _ => none

def sigdef : P SigDef := do
  let t ← tok
  match t.splitOn ":" with
  | [n, tg, ty, ts] =>
    match unhex n, unhex tg, parseTyp ty, parseTs ts with
    | some name, some tag, some typ, some k => pure { name, tag, typ, ts := k }
    | _, _, _, _ => failure
  | [n, tg, ty, ts, ps] =>
    match unhex n, unhex tg, parseTyp ty, parseTs ts, ps.toNat? with
    | some name, some tag, some typ, some k, some pos => pure { name, tag, typ, ts := k, pos }
    | _, _, _, _, _ => failure
  | _ => failure

def lineP : P (String × List Char) := do
  let t ← tok
  match t.splitOn ":" with
  | [a, l] =>
    match unhex a, unhex l with
    | some actor, some line => pure (actor, line.toList)
    | _, _ => failure
  | _ => failure

def ratP : P Rat := do
  match parseRat (← tok) with
  | some q => pure q
  | none => failure

def showStamp : Stamp → String
  | .now => "now"
  | .at q => showRat q

/-- `points <epoch> <sigdef> <n> <actor:line>*` → the data points the lines denote for that
signal (specification `pointsOf`), as `stamp=value` items -/
def pointsReq : P String := do
  let epoch ← ratP
  let sd ← sigdef
  let lines ← rep (← num) lineP
  let pts := pointsOf epoch sd 0 (lines.map (·.2))
  pure (showList (pts.map fun p => showStamp p.stamp ++ "=" ++ showSc p.val))

/-- `pipeline <epoch> <nsig> sigdef* <nmembers> member* <nlines> line* <tEnd>`:
detectSignals → audit loop; answer in the format of `AUD run`.  Reception time stamps are
rendered as 10^9 + line index. -/
def pipelineReq : P String := do
  let epoch ← ratP
  let sigs ← rep (← num) sigdef
  let members ← rep (← num) member
  let lines ← rep (← num) lineP
  let tEnd ← ratP
  let c : Cfg := { members }
  let hasSink := fun (actor sig : String) => !(c.watchers ⟨actor, sig⟩).isEmpty
  let (_, evs, _) := lines.foldl (fun (acc : Lasts × List Ev × Nat) (al : String × List Char) =>
      let r := detectLine epoch sigs (hasSink al.1) al.1 acc.1 al.2
      let now : Rat := (1000000000 + acc.2.2 : Nat)
      (r.1, acc.2.1 ++ r.2.map (fun e => Ev.sig (match e.stamp with | .now => now | .at q => q) e.samples),
       acc.2.2 + 1)) (([] : Lasts), ([] : List Ev), 0)
  let s := run c evs tEnd
  let rows := Shk.Collect.collectAll c s.out.reverse
  let rowsTxt := rows.filter (fun r => r.actor != "") |>.map fun r =>
    s!"{hex r.observer}:{hex r.actor}:{hex r.sig}:{showRat r.ts}:{showVal r.val}"
  pure ("abort=" ++ showAbort s.abort ++ " | " ++ " | ".intercalate (s.out.reverse.map showOut) ++ " || " ++
        "rows=" ++ showList rowsTxt)

def handle : List String → String
  | "points" :: rest =>
    match pointsReq.run rest with
    | some (r, []) => r
    | _ => "bad-op"
  | "pipeline" :: rest =>
    match pipelineReq.run rest with
    | some (r, []) => r
    | _ => "bad-op"
  | _ => "bad-op"

end Shk.Drv.C08
