import ShkModel.Model.Retry
import ShkModel.Driver.Util
/-! Token protocol of C17.  Rationals travel as `num/den` (or a plain integer); the five option
tokens are `Initial Max Multiplier Randomization MaxRetries` as handed to `retry.Options`
(nanoseconds; zero = default, filled in by `Opts.norm` like `StartWithCtx` does). -/
namespace Shk.Drv.C17
open Shk.Retry

def parseRat (t : String) : Option Rat :=
  match t.splitOn "/" with
  | [a] => a.toInt?.map fun n => (n : Rat)
  | [a, b] =>
    match a.toInt?, b.toNat? with
    | some n, some d => if d = 0 then none else some (mkRat n d)
    | _, _ => none
  | _ => none

def parseOpts (i x m r k : String) : Option Opts :=
  match parseRat i, parseRat x, parseRat m, parseRat r, k.toInt? with
  | some i, some x, some m, some r, some k => some (Opts.norm ⟨i, x, m, r, k⟩)
  | _, _, _, _, _ => none

def parseFlags (t : String) : Option (Bool × Bool) :=
  match t.toList with
  | [a, b] => if (a == '0' || a == '1') && (b == '0' || b == '1') then some (a == '1', b == '1') else none
  | _ => none

/-- ops: `n` Next (timer elapses, draw 0 = the shortest delay), `nc` / `nx` Next during which the
closer / context fires, `h` NextCh (draw 0), `r` Reset, `c` close, `x` cancel -/
def parseOp (t : String) : Option Op :=
  if t == "n" then some (.next (.elapses 0))
  else if t == "nc" then some (.next .closerFires)
  else if t == "nx" then some (.next .ctxFires)
  else if t == "h" then some (.nextCh 0)
  else if t == "r" then some .reset
  else if t == "c" then some .close
  else if t == "x" then some .cancel
  else none

/-- property granularity: yielded or not, and the least delay (ns) in front of a yielded attempt -/
def showOut (o : Opts) : Out → String
  | .yieldNow => "t0"
  | .yieldAfter n u => "t" ++ toString (retryIn o n u)
  | .done => "f"
  | .halted => "f"
  | .chClosed => "cc"
  | .chTimer n u => "ct" ++ toString (retryIn o n u)
  | .chNil => "cn"
  | .ack => "a"

/-- events of a real run: `y<gap ns>` attempt yielded, `n` none yielded, `r` Reset, `s` closer /
context fired -/
def parseEv (t : String) : Option Ev :=
  match t.toList with
  | 'y' :: cs => (String.ofList cs).toInt?.map Ev.yield
  | ['n'] => some .noYield
  | ['r'] => some .reset
  | ['s'] => some .stop
  | _ => none

def showClause : Clause → String
  | .afterStop => "afterStop"
  | .tooMany => "tooMany"
  | .early => "early"
  | .firstMissing => "firstMissing"
  | .prematureEnd => "prematureEnd"

def parseEnv (t : String) : Option (Wait × Bool) :=
  match t.toList with
  | ['e', b] => if b == '1' then some (.elapses 0, true) else if b == '0' then some (.elapses 0, false) else none
  | ['c', b] => if b == '1' then some (.closerFires, true) else if b == '0' then some (.closerFires, false) else none
  | ['x', b] => if b == '1' then some (.ctxFires, true) else if b == '0' then some (.ctxFires, false) else none
  | _ => none

def handle : List String → String
  -- the model run: outputs per operation
  | ["run", i, x, m, r, k, fl, ops] =>
    match parseOpts i x m r k, parseFlags fl, (commaList ops).mapM parseOp with
    | some o, some (c, cx), some os => showList ((run o (start c cx) os).2.map (showOut o))
    | _, _, _ => "bad-op"
  -- the band of the property for wait number n (whole ns: floor of the lower edge, floor of the upper edge)
  | ["band", i, x, m, r, k, n] =>
    match parseOpts i x m r k, n.toNat? with
    | some o, some n => toString (bandLo o n).floor ++ " " ++ toString (bandHi o n).floor
    | _, _ => "bad-op"
  -- oracle: the monitor of the property on the events of a real run
  | ["oracle-trace", i, x, m, r, k, mode, st, slack, evs] =>
    match parseOpts i x m r k, parseRat slack, (commaList evs).mapM parseEv with
    | some o, some sl, some es =>
      match monRun o sl (mode == "lenient") (Mon.init (st == "1")) 0 es with
      | none => "ok"
      | some (at_, c) => "FAIL clause=" ++ showClause c ++ " at=" ++ toString at_
    | _, _, _ => "bad-op"
  -- the model of WithMaxAttempts
  | ["wma", i, x, m, r, k, n, fl, env] =>
    match parseOpts i x m r k, n.toInt?, parseFlags fl, (commaList env).mapM parseEnv with
    | some o, some n, some (c, cx), some es =>
      let res := withMaxAttempts o n c cx es
      toString res.calls ++ " " ++
        (match res.result with | some true => "nil" | some false => "err" | none => "running") ++ " " ++
        (if res.succeeded then "1" else "0")
    | _, _, _, _ => "bad-op"
  -- oracle: the WithMaxAttempts clause on what the real call did
  | ["oracle-wma", n, before, calls, isNil, succ] =>
    match n.toInt?, calls.toNat? with
    | some n, some c =>
      if wmaSpec n (before == "1") c (isNil == "1") (succ == "1") then "ok"
      else "FAIL " ++ (if (c : Int) > n then "too-many-calls" else if (isNil == "1") != (succ == "1") then "nil-iff-success" else "no-call")
    | _, _ => "bad-op"
  | _ => "bad-op"

end Shk.Drv.C17
