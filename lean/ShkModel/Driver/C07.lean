import ShkModel.Model.Runner
import ShkModel.Driver.Util
namespace Shk.Drv.C07
open Shk.Runner

def parseEv : String → Option Ev
  | "line" => some .line | "eof" => some .eof | "exit" => some .exit | "stop" => some .stop
  | "cancel" => some .cancel | "term" => some .term | "twoSec" => some .twoSec | _ => none

/-- `runner <interruptible> <hasTerm> <watcher> <events>` → the state reached -/
def handle : List String → String
  | ["runner", i, t, w, evs] =>
    match (commaList evs).mapM parseEv with
    | some es =>
      let p : Params := ⟨i == "1", t == "1", w == "1"⟩
      let s := run p es
      s!"phase={repr s.phase} alive={s.alive} hup={s.hup} killed={s.killed} asked={s.asked p} late={s.lateSignal}"
    | none => "bad-op"
  | _ => "bad-op"

end Shk.Drv.C07
