import ShkModel.Model.Runner
import ShkModel.Model.Life
import ShkModel.Driver.Util
namespace Shk.Drv.C07
open Shk.Runner

def parseEv : String → Option Ev
  | "line" => some .line | "eof" => some .eof | "exit" => some .exit | "exitKeep" => some .exitKeep | "stop" => some .stop
  | "cancel" => some .cancel | "term" => some .term | "twoSec" => some .twoSec | _ => none

/-- `runner <interruptible> <hasTerm> <watcher> <events>` → the state reached -/
def handle : List String → String
  | ["runner", i, t, w, evs] =>
    match (commaList evs).mapM parseEv with
    | some es =>
      let p : Params := ⟨i == "1", t == "1", w == "1"⟩
      let s := run p es
      s!"phase={repr s.phase} alive={s.alive} hup={s.hup} killed={s.killed} asked={s.asked p} late={s.lateSignal}"
    | none => "bad-op"
  -- `life <okInit bits> <okFinal bits> <bodyErr> <sig: none|int|term|hup>` → cleanup runs per phase, result
  | ["life", oi, ofi, be, sg] =>
    let bi := oi.toList.map (· == '1')
    let bf := ofi.toList.map (· == '1')
    let sig : Option (Option Shk.Life.Sig) := match sg with
      | "none" => some none | "int" => some (some .int) | "term" => some (some .term) | "hup" => some (some .hup)
      | _ => none
    match sig with
    | none => "bad-op"
    | some g =>
      if bi.length != bf.length then "bad-op" else
      let sc : Shk.Life.Scenario := ⟨(bi.zip bf).map fun p => ⟨p.1, p.2⟩, be == "1", g⟩
      let r := Shk.Life.runConduct sc
      let ni := (r.1.filter fun e => match e with | .initCleanup _ => true | _ => false).length
      let nf := (r.1.filter fun e => match e with | .finalCleanup _ => true | _ => false).length
      let nb := (r.1.filter fun e => match e with | .body => true | _ => false).length
      s!"init={ni} final={nf} body={nb} fail={r.2}"
  | _ => "bad-op"

end Shk.Drv.C07
