import ShkModel.Model.Audition
import ShkModel.Gen.Tables
import ShkModel.Driver.Util
namespace Shk.Drv.C02
open Shk Shk.Aud

def parseMk (t : String) : Option RMk :=
  if t == "S" then some .start else if t == "E" then some .stop else t.toNat?.map RMk.rep

/-- `oracle <modality-hex|none> <markers>`: S = start, E = stop, digits = report codes -/
def handle : List String → String
  | ["oracle", m, mks] =>
    match (commaList mks).mapM parseMk with
    | none => "bad-op"
    | some l =>
      if m == "none" then (if explainPlain false l then "ok" else "FAIL not-bracketed-or-left-open")
      else match unhex m with
        | some n => if explain (Gen.tbl n) none l then "ok" else "FAIL periods-not-explainable-from-fresh-start-or-left-open"
        | none => "bad-op"
  | _ => "bad-op"

end Shk.Drv.C02
