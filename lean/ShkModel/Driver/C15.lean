import ShkModel.Model.Stopper
import ShkModel.Driver.Util
namespace Shk.Drv.C15
open Shk.Stopper

/-! Token protocol of C15.

* `seq <cap> <ops>`        settled-sequential run of the model (K-C15a).  ops: `c<code>` a new call of that
                           kind, `o<i>` open the gate of the body / worker of call `i`, `x<i>` call the cancel
                           function returned to call `i`.  After each op every call advances as far as it can
                           (bodies stay inside `f` until their gate is open).  Answer: one observation per op,
                           joined with `|`.
* `oracle-log <cap> <evs>` `LogOk` on a log recorded from the real Stopper (O-C15).  `ok` or `FAIL <index> <rule> <entry>`.
* `sim <cap> <seed> <n>`   a pseudo-random interleaving of the model, `n` scheduler decisions; answers
                           `ok <log length> <phase>` if the model's own log satisfies `LogOk` and the phase markers are in order.
* `simlog <cap> <seed> <n>` the log of that run (same encoding as `oracle-log`).
-/

def ekCode : EK → String
  | .call => "C" | .ret => "R" | .bodyStart => "B" | .bodyEnd => "E" | .wStart => "W" | .wEnd => "X"
  | .closer => "K" | .cancelled => "N" | .fin => "F" | .mark => "M"

def ekOf : String → Option EK
  | "C" => some .call | "R" => some .ret | "B" => some .bodyStart | "E" => some .bodyEnd
  | "W" => some .wStart | "X" => some .wEnd | "K" => some .closer | "N" => some .cancelled
  | "F" => some .fin | "M" => some .mark | _ => none

def b01 (b : Bool) : String := if b then "1" else "0"

def showEv (e : Ev) : String :=
  ".".intercalate [ekCode e.k, toString e.id, toString e.c, toString e.v, b01 e.q, b01 e.s, b01 e.d, toString e.n]

def parseEv (t : String) : Option Ev :=
  match t.splitOn "." with
  | [k, id, c, v, q, s, d, n] => do
    let k ← ekOf k
    let id ← id.toNat?
    let c ← c.toNat?
    let v ← v.toNat?
    let n ← n.toNat?
    pure ⟨k, id, c, v, q == "1", s == "1", d == "1", n⟩
  | _ => none

/-! ### settled-sequential runs -/

def gated (t : Thread) : Bool := t.pc == .running || t.pc == .wRunning

/-- the first call (in index order) that can move: it returns if it may, else takes one `go` step unless a
closed gate holds it inside its body.  Index order = the order in which the calls began, which is also the
order in which blocked senders are served by a Go channel. -/
def firstMove (gates : List Nat) (s : St) : Nat → Nat → Option St
  | _, 0 => none
  | i, f + 1 =>
    match s.threads[i]? with
    | none => none
    | some t =>
      match step s i .ret with
      | some s' => some s'
      | none =>
        if gated t && !gates.contains i then firstMove gates s (i + 1) f
        else match step s i .go with
          | some s' => some s'
          | none => firstMove gates s (i + 1) f

def settle (gates : List Nat) : St → Nat → St
  | s, 0 => s
  | s, f + 1 =>
    match firstMove gates s 0 (s.threads.length + 1) with
    | some s' => settle gates s' f
    | none => s

def retCode (pc : Pc) : Nat := if pc == .failU then 1 else if pc == .failT then 2 else 0

def obsThread (s : St) (i : Nat) (t : Thread) : String :=
  let r := if t.ret then toString (retCode t.pc) else "b"
  let body :=
    if t.kind.isTask then
      (if has s.log .bodyEnd i then "e" else if has s.log .bodyStart i then "s" else "-")
    else match t.kind with
      | .worker => if has s.log .wEnd i then "e" else if has s.log .wStart i then "s" else "-"
      | .closer => toString (s.log.countP fun e => e.k == .closer && e.id == i)
      | .wcq | .wcs => if has s.log .cancelled i then "c" else "o"
      | _ => "-"
  r ++ body

def obs (s : St) : String :=
  let hdr := ",".intercalate [b01 s.quiescing, b01 s.sClosed, b01 s.dClosed, toString s.numTasks, toString s.sem]
  let rec go (i : Nat) : List Thread → List String
    | [] => []
    | t :: ts => obsThread s i t :: go (i + 1) ts
  ";".intercalate (hdr :: go 0 s.threads)

inductive SOp | call (k : Kind) | openGate (i : Nat) | cancel (i : Nat)

def parseSOp (t : String) : Option SOp :=
  match t.toList with
  | 'c' :: cs => ((String.ofList cs).toNat?.bind Kind.ofCode).map SOp.call
  | 'o' :: cs => (String.ofList cs).toNat?.map SOp.openGate
  | 'x' :: cs => (String.ofList cs).toNat?.map SOp.cancel
  | _ => none

def seqRun : St → List Nat → List SOp → List String → List String
  | _, _, [], acc => acc.reverse
  | s, gates, op :: ops, acc =>
    let (s1, g1) := match op with
      | .call k => (spawn s k, gates)
      | .openGate i => (s, i :: gates)
      | .cancel i => ((step s i .alt).getD s, gates)
    let s2 := settle g1 s1 (40 * s1.threads.length + 100)
    seqRun s2 g1 ops (obs s2 :: acc)

/-! ### pseudo-random interleavings of the model itself -/

def lcg (x : Nat) : Nat := (x * 6364136223846793005 + 1442695040888963407) % 18446744073709551616

def simRun : St → Nat → Nat → St
  | s, _, 0 => s
  | s, r, f + 1 =>
    let r1 := lcg r
    let r2 := lcg r1
    let r3 := lcg r2
    let n := s.threads.length
    -- 1 in 5 (and always when empty): a new call
    if n == 0 || (r1 / 65536) % 5 == 0 then
      let k := (Kind.ofCode ((r2 / 65536) % 11)).getD .task
      simRun (spawn s k) r3 f
    else
      let i := (r2 / 65536) % n
      let a := match (r3 / 65536) % 6 with
        | 0 => Act.ret
        | 1 => Act.alt
        | _ => Act.go
      simRun ((step s i a).getD s) r3 f

def marksOk (s : St) : Bool := markSeq s.log == [0, 1, 2, 3, 4].take (phase s)

def handle : List String → String
  | ["seq", cap, ops] =>
    match cap.toNat?, (commaList ops).mapM parseSOp with
    | some c, some os => "|".intercalate (seqRun (init c) [] os [])
    | _, _ => "bad-op"
  | ["oracle-log", cap, evs] =>
    match cap.toNat?, (commaList evs).mapM parseEv with
    | some c, some l =>
      match firstBad c [] l with
      | none => if logOk c l then "ok" else "FAIL ? logOk"
      | some (i, why) => "FAIL " ++ toString i ++ " " ++ why ++ " " ++ ((l[i]?).map showEv).getD "?"
    | _, _ => "bad-op"
  | ["sim", cap, seed, n] =>
    match cap.toNat?, seed.toNat?, n.toNat? with
    | some c, some sd, some k =>
      let s := simRun (init c) sd k
      match firstBad c [] s.log with
      | none => if marksOk s then "ok " ++ toString s.log.length ++ " " ++ toString (phase s) else "FAIL marks"
      | some (i, why) => "FAIL " ++ toString i ++ " " ++ why ++ " " ++ ((s.log[i]?).map showEv).getD "?"
    | _, _, _ => "bad-op"
  | ["simlog", cap, seed, n] =>
    match cap.toNat?, seed.toNat?, n.toNat? with
    | some c, some sd, some k => showList ((simRun (init c) sd k).log.map showEv)
    | _, _, _ => "bad-op"
  | _ => "bad-op"

end Shk.Drv.C15
