import ShkModel.Model.Script
import ShkModel.Model.Paths
import ShkModel.Driver.Util
import ShkModel.Driver.C12
namespace Shk.Drv.C13
open Shk.Script

def optHex (t : String) : Option (Option String) :=
  if t == "-" then some none else (unhex t).map some

def parseActs (t : String) : Option (List (String × String)) :=
  if t == "-" then some [] else
  (t.splitOn "+").mapM fun kv =>
    match kv.splitOn "=" with
    | [k, v] => do pure ((← unhex k), (← unhex v))
    | _ => none

def parseRole (t : String) : Option RoleDef :=
  match t.splitOn ":" with
  | [n, p, s, c, a] => do
    pure { name := (← unhex n), parent := (← optHex p), actions := (← parseActs a), spotlight := (← optHex s), cleanup := (← optHex c) }
  | _ => none

def parseCast (t : String) : Option CastDef :=
  match t.splitOn ":" with
  | [bs, m, r, w] => do
    let mul ← if m == "-" then some none else m.toNat?.map some
    pure { base := (← unhex bs), mul := mul, role := (← unhex r), withText := (← unhex w) }
  | _ => none

/-- all actors of the cast in order, with the role each plays; `none` on a duplicate actor or unknown role -/
def actorsOf (shell : String) (wd : String → String) (roles : List (String × Role)) :
    List CastDef → List String → Option (List (Actor × Role))
  | [], _ => some []
  | c :: rest, seen =>
    match roleOfCast c roles with
    | none => none
    | some r =>
      let news := expandCast c
      if news.any (fun p => seen.contains p.1) then none else
      match actorsOf shell wd roles rest (seen ++ news.map (·.1)) with
      | none => none
      | some more => some (news.map (fun p => (⟨p.1, wd p.1, shell, p.2, c.withText⟩, r)) ++ more)

def showActor (a : Actor) (r : Role) : String :=
  "~".intercalate [hex a.name, hex a.workDir, hex (envText a.idx a.withText),
    (match a.idx with | none => "-" | some k => toString k),
    showList ((files a r).map fun f => hex f.1 ++ "=" ++ (match f.2 with | some ls => hex (text ls) | none => "-"))]

/-- split a real script into lines, given the `with` text and the command it must end with -/
def classify (txt wd act env cmd : String) : Option (List Line) :=
  let tail := (if env == "" then "" else env ++ "\n") ++ cmd ++ "\n"
  if !txt.endsWith tail then none else
  let head := (txt.take (txt.length - tail.length)).toString
  let hl := head.splitOn "\n"
  if hl.getLast? != some "" then none else
  let cls (s : String) : Line :=
    if s.startsWith "#!" then .shebang (s.drop 2).toString
    else if s == Line.setOpts.render then .setOpts
    else if s == (Line.cd wd).render then .cd wd
    else if s.startsWith "cd " then .cd (s.drop 3).toString
    else if s == Line.tmpHome.render then .tmpHome
    else if s == (Line.stamp act).render then .stamp act
    else if s == (Line.announce wd act).render then .announce wd act
    else if s == (Line.redirect act).render then .redirect act
    else if s.startsWith "exec " then .redirect s
    else if s == Line.trace.render then .trace
    else .other s
  some (hl.dropLast.map cls ++ (if env == "" then [] else [.env env]) ++ [.command cmd])

def handle : List String → String
  | ["scripts", shell, cwd, o, sub, roles, cast] =>
    match unhex shell, unhex cwd, unhex o, (unhex sub).bind C12.subNames,
          (commaList roles).mapM parseRole, (commaList cast).mapM parseCast with
    | some sh, some c, some os, some sn, some rs, some cs =>
      match defineRoles [] rs with
      | none => "rejected"
      | some known =>
        let run := (Shk.Paths.prepareDirs "latest" (C12.ofString os) sn).runDir
        let wd := fun (n : String) => C12.render (Shk.Paths.workDir (C12.cwdNames c) "artifacts" run n)
        match actorsOf sh wd known cs [] with
        | none => "rejected"
        | some as => if as.isEmpty then "-" else ";".intercalate (as.map fun p => showActor p.1 p.2)
    | _, _, _, _, _, _ => "bad-op"
  -- oracle: the layout specification on the text of a real script
  | ["oracle-layout", txt, spot, wd, act, env, cmd] =>
    match unhex txt, unhex wd, unhex act, unhex env, unhex cmd with
    | some t, some w, some a, some e, some c =>
      match classify t w a e c with
      | none => "FAIL the script does not end with the with-text and the command"
      | some ls => if layoutOk ls w a e c (spot == "1") then "ok" else "FAIL layout"
    | _, _, _, _, _ => "bad-op"
  | _ => "bad-op"

end Shk.Drv.C13
