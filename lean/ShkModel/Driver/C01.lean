import ShkModel.Model.Fsm
import ShkModel.Gen.Tables
import ShkModel.Driver.Util
namespace Shk.Drv.C01
open Shk

def specDistinguish (m : Modality) (T : Table) : Option (List Bool) :=
  match m with
  | .always => distinguish (implMon T) specAlways
  | .never => distinguish (implMon T) specNever
  | .notAlways => distinguish (implMon T) specNotAlways
  | .eventually => distinguish (implMon T) specEventually
  | .alwaysEventually => distinguish (implMon T) specAlwaysEventually
  | .eventuallyAlways => distinguish (implMon T) specEventuallyAlways
  | .once => distinguish (implMon T) (specCount 1)
  | .twice => distinguish (implMon T) (specCount 2)
  | .thrice => distinguish (implMon T) (specCount 3)
  | .atMostOnce => distinguish (implMon T) specAtMostOnce

def constFalse : Mon Unit := ⟨(), fun _ _ => (), fun _ => false⟩

def codes (l : List Rep) : String := showList (l.map fun r => toString r.code)

def handle : List String → String
  | ["names"] => showList (Gen.names.map hex)
  | ["period", m, w] =>
    match unhex m, bits w with
    | some n, some l => codes ((Gen.tbl n).period (Gen.tbl n).start l)
    | _, _ => "bad-op"
  | ["meaning", m, w] =>
    match (unhex m).bind Modality.ofName, bits w with
    | some md, some l => toString (meaning md l)
    | _, _ => "bad-op"
  | ["distinguish", m] =>
    match unhex m with
    | some n =>
      match Modality.ofName n with
      | some md =>
        match specDistinguish md (Gen.tbl n) with
        | some w => "word " ++ showBits w
        | none =>
          match distinguish (implEndMon (Gen.tbl n)) constFalse with
          | some w => "endword " ++ showBits w
          | none => "none"
      | none => "unknown-modality"
    | none => "bad-op"
  -- oracle: the Lean *specification* evaluated on what the real code reported
  | ["oracle", m, w, reps] =>
    match (unhex m).bind Modality.ofName, bits w with
    | some md, some l =>
      let rs := commaList reps
      let disappointed := rs.contains "2"
      let endsGood := rs.getLast? == some "0"
      if disappointed != !(meaning md l) then "FAIL disappointed=" ++ toString disappointed ++
        " meaning=" ++ toString (meaning md l)
      else if !disappointed && !endsGood then "FAIL no-disappointment-but-last-report-not-satisfaction"
      else "ok"
    | _, _ => "bad-op"
  | _ => "bad-op"

end Shk.Drv.C01
