import ShkModel.Model.Prompt
import ShkModel.Driver.Util
/-! Driver for C04 / C05: the prompter model and the trace specification on observed traces. -/
namespace Shk.Drv.C04
open Shk.Prompt

def parseStep (t : String) : Option Step :=
  if t.endsWith "?" then (unhex (t.dropEnd 1).toString).map fun a => ⟨a, true⟩
  else if t.endsWith "!" then (unhex (t.dropEnd 1).toString).map fun a => ⟨a, false⟩
  else none

def parseLine (t : String) : Option Line :=
  match t.splitOn "~" with
  | [a, st] => do
    let actor ← unhex a
    let steps ← (if st == "" then some [] else (st.splitOn ",").mapM parseStep)
    pure ⟨actor, steps⟩
  | _ => none

def parseScene (t : String) : Option Scene :=
  match t.splitOn ":" with
  | [w, ls] => do
    let wu ← w.toNat?
    let lines ← (if ls == "" then some [] else (ls.splitOn "|").mapM parseLine)
    pure ⟨wu, lines⟩
  | _ => none

def parsePlay (t : String) : Option Play :=
  if t == "-" then some [] else
  (t.splitOn "/").mapM fun a => (a.splitOn ";").mapM parseScene

def parsePos (t : String) : Option Pos :=
  match (t.splitOn ".").mapM String.toNat? with
  | some [ao, a, s, l, k] => some ⟨ao, a, s, l, k⟩
  | _ => none

def showPos (p : Pos) : String := s!"{p.actOcc}.{p.act}.{p.scene}.{p.line}.{p.step}"

def parseRec (t : String) : Option Rec :=
  match t.splitOn ":" with
  | [p, st, sp, ok] => do
    let pos ← parsePos p
    pure { pos, actor := "", action := "", start := (← st.toNat?), stop := (← sp.toNat?), ok := ok == "1", failOk := false }
  | _ => none

def parseRepeat (t : String) : Option Repeat :=
  match t.splitOn ":" with
  | [f, c, h] => do pure ⟨← f.toNat?, ← c.toInt?, h == "1"⟩
  | _ => none

/-- lower bound of the start of act occurrence `ao`: process start + nominal lengths of the
occurrences before it (an act lasts at least the `waitUntil` of its closing scene) -/
def actStartLB (play : Play) (t0 : Nat) (occActs : List Nat) (ao : Nat) : Nat :=
  t0 + ((occActs.take ao).map fun j => ((play[j]?).bind (·.getLast?)).map (·.waitUntil) |>.getD 0).sum

def handle : List String → String
  -- model: which positions are performed, and the result, when the listed positions fail
  -- `perform <play> <repeat> <failing positions (ao-independent: act.scene.line.step)> <timeouts after pass k>`
  | ["perform", pl, rp, fails, touts] =>
    match parsePlay pl, parseRepeat rp with
    | some play, some r =>
      let fl := (commaList fails)
      let to := (commaList touts).filterMap String.toNat?
      let env : Env := {
        occ := fun p => ⟨0, 1, !(fl.contains s!"{p.act}.{p.scene}.{p.line}.{p.step}")⟩
        sceneJitter := fun _ _ => 0
        actJitter := fun _ => 0
        timedOut := fun k => to.contains k }
      let x := perform env play r 200
      s!"ok={x.2.1} finished={x.2.2} " ++ showList (x.1.map fun r => showPos r.pos)
    | _, _ => "bad-op"
  -- specification on an observed trace: `traceok <play> <t0> <occActs> <records>`
  | ["traceok", pl, t0, occ, recs] =>
    match parsePlay pl, t0.toNat?, (commaList occ).mapM String.toNat?, (commaList recs).mapM parseRec with
    | some play, some t, some oa, some tr =>
      let b := barrierOk tr
      let l := lineOrderOk tr
      let tp := tempoOk play (actStartLB play t oa) tr
      if b && l && tp then "ok" else s!"FAIL barrier={b} lineOrder={l} tempo={tp}"
    | _, _, _, _ => "bad-op"
  -- the tempo inequality against act starts recorded by the program itself: `tempook <play> <actStarts> <records>`
  | ["tempook", pl, starts, recs] =>
    match parsePlay pl, (commaList starts).mapM String.toNat?, (commaList recs).mapM parseRec with
    | some play, some st, some tr =>
      if tempoOk play (fun ao => st.getD ao 0) tr then "ok"
      else
        let bad := tr.filter fun r => !(tempoOk play (fun ao => st.getD ao 0) [r])
        "FAIL ahead-of-tempo " ++ showList (bad.map fun r => showPos r.pos)
    | _, _, _ => "bad-op"
  | _ => "bad-op"

end Shk.Drv.C04
