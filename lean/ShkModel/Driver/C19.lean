import ShkModel.Model.Plot
import ShkModel.Driver.Util
/-!
Token protocol of C19.  Rationals travel as `num/den` (or a plain integer), strings hex-encoded.

facts (8 tokens): `MinTime MaxTime RepeatStart|- cast audience moodChanges elapsed acts`
* cast: `name:0|1,…`                            (1 = the actor has action rows)
* audience: `name:onlyHelps:hasData:audited:watched;…`, watched: `actor~sig~e|s~0|1|…` or `-`
* moodChanges: `instant:mood,…` as the audition saw them; `elapsed`: end of the audition
  (the driver turns them into periods with `periodsOf`, the model of audit.go)
* acts: `instant:actNum,…`

plot (model output, and the real script as parsed by vlib/c19.py):
`xmin xmax rows actLines lanes laneTop bands boxes` for `plot.gp`, then `-` or `Z` + the same eight
for `lastplot.gp`, then the `load` list and the page rows of `runme.gp`
* lanes: `actor:lane,…`; bands: `lo:hi:mood,…` with `L` = graph 0, `R` = graph 1
* boxes: `member:yTop|-:curves;…`, curves: `e~actor~sig~lane | l~actor~sig | f | v`, `|` separated
-/
namespace Shk.Drv.C19
open Shk.Plot

def parseRat (t : String) : Option Rat :=
  match t.splitOn "/" with
  | [a] => a.toInt?.map fun n => (n : Rat)
  | [a, b] =>
    match a.toInt?, b.toNat? with
    | some n, some d => if d = 0 then none else some (mkRat n d)
    | _, _ => none
  | _ => none

def showRat (q : Rat) : String := if q.den = 1 then toString q.num else toString q.num ++ "/" ++ toString q.den

def parseBool (t : String) : Option Bool := if t == "1" then some true else if t == "0" then some false else none

def sepList (sep : String) (t : String) : List String := if t == "-" then [] else t.splitOn sep
def showSep (sep : String) (l : List String) : String := if l.isEmpty then "-" else sep.intercalate l

/-! ### facts -/

def parseActor (t : String) : Option Actor :=
  match t.splitOn ":" with
  | [n, d] => do pure ⟨← unhex n, ← parseBool d⟩
  | _ => none

def parseWatched (t : String) : Option Watched :=
  match t.splitOn "~" with
  | [a, s, k, d] => do
    let kind ← if k == "e" then some Kind.event else if k == "s" then some Kind.scalar else none
    pure ⟨← unhex a, ← unhex s, kind, ← parseBool d⟩
  | _ => none

def parseMember (t : String) : Option Member :=
  match t.splitOn ":" with
  | [n, oh, hd, au, ws] => do
    pure ⟨← unhex n, ← parseBool oh, ← parseBool hd, ← (sepList "|" ws).mapM parseWatched, ← parseBool au⟩
  | _ => none

def parseChange (t : String) : Option (Rat × String) :=
  match t.splitOn ":" with
  | [ts, m] => do pure (← parseRat ts, ← unhex m)
  | _ => none

def parseAct (t : String) : Option ActStart :=
  match t.splitOn ":" with
  | [ts, n] => do pure ⟨← parseRat ts, ← n.toNat?⟩
  | _ => none

def parseFacts (mn mx rep cast aud changes elapsed acts : String) : Option Facts := do
  let r ← if rep == "-" then some none else (parseRat rep).map some
  pure { cast := ← (sepList "," cast).mapM parseActor
         audience := ← (sepList ";" aud).mapM parseMember
         moods := periodsOf (← (sepList "," changes).mapM parseChange) (← parseRat elapsed)
         acts := ← (sepList "," acts).mapM parseAct
         minTime := ← parseRat mn
         maxTime := ← parseRat mx
         repeatStart := r }

/-! ### plots -/

def showEdge : Edge → String
  | .left => "L"
  | .at t => showRat t
  | .right => "R"

def parseEdge (t : String) : Option Edge :=
  if t == "L" then some .left else if t == "R" then some .right else (parseRat t).map .at

def showCurve : Curve → String
  | .events a s l => "e~" ++ hex a ++ "~" ++ hex s ++ "~" ++ toString l
  | .line a s => "l~" ++ hex a ++ "~" ++ hex s
  | .faces => "f"
  | .verdicts => "v"

def parseCurve (t : String) : Option Curve :=
  match t.splitOn "~" with
  | ["e", a, s, l] => do pure (.events (← unhex a) (← unhex s) (← l.toNat?))
  | ["l", a, s] => do pure (.line (← unhex a) (← unhex s))
  | ["f"] => some .faces
  | ["v"] => some .verdicts
  | _ => none

def showBox (b : Box) : String :=
  hex b.member ++ ":" ++ (match b.yTop with | some n => toString n | none => "-") ++ ":" ++
    showSep "|" (b.curves.map showCurve)

def parseBox (t : String) : Option Box :=
  match t.splitOn ":" with
  | [m, y, cs] => do
    let yt ← if y == "-" then some none else y.toNat?.map some
    pure ⟨← unhex m, ← (sepList "|" cs).mapM parseCurve, yt⟩
  | _ => none

def showBand (b : Band) : String := showEdge b.lo ++ ":" ++ showEdge b.hi ++ ":" ++ hex b.mood

def parseBand (t : String) : Option Band :=
  match t.splitOn ":" with
  | [a, b, m] => do pure ⟨← parseEdge a, ← parseEdge b, ← unhex m⟩
  | _ => none

def parseLane (t : String) : Option (String × Nat) :=
  match t.splitOn ":" with
  | [a, n] => do pure (← unhex a, ← n.toNat?)
  | _ => none

def showSub (s : Sub) : List String :=
  [showRat s.xmin, showRat s.xmax, toString s.rows, showSep "," (s.actLines.map showRat),
   showSep "," (s.lanes.map fun p => hex p.1 ++ ":" ++ toString p.2), toString s.laneTop,
   showSep "," (s.bands.map showBand), showSep ";" (s.boxes.map showBox)]

def parseSub : List String → Option Sub
  | [a, b, r, acts, lanes, lt, bands, boxes] => do
    pure { xmin := ← parseRat a, xmax := ← parseRat b, rows := ← r.toNat?
           actLines := ← (sepList "," acts).mapM parseRat
           lanes := ← (sepList "," lanes).mapM parseLane
           laneTop := ← lt.toNat?
           bands := ← (sepList "," bands).mapM parseBand
           boxes := ← (sepList ";" boxes).mapM parseBox }
  | _ => none

def showPlot (p : Plot) : String :=
  " ".intercalate (showSub p.main ++ (match p.zoom with | none => ["-"] | some z => "Z" :: showSub z) ++
    [showSep "," (p.loads.map hex), toString p.pageRows])

def parsePlot (ts : List String) : Option Plot :=
  match ts.drop 8 with
  | ["-", loads, pr] => do
    pure ⟨← parseSub (ts.take 8), none, ← (sepList "," loads).mapM unhex, ← pr.toNat?⟩
  | "Z" :: rest => do
    match rest.drop 8 with
    | [loads, pr] =>
      pure ⟨← parseSub (ts.take 8), some (← parseSub (rest.take 8)), ← (sepList "," loads).mapM unhex, ← pr.toNat?⟩
    | _ => none
  | _ => none

/-! ### the oracle: the specification's plot against the script the real program wrote.
Numbers of the script have six decimals (`%f`): equal means within 10⁻⁶. -/

def closeRat (a b : Rat) : Bool := decide (a - b ≤ 1 / 1000000 ∧ b - a ≤ 1 / 1000000)

def closeEdge : Edge → Edge → Bool
  | .left, .left => true
  | .right, .right => true
  | .at a, .at b => closeRat a b
  | _, _ => false

def closeList {α : Type} (f : α → α → Bool) : List α → List α → Bool
  | [], [] => true
  | a :: as, b :: bs => f a b && closeList f as bs
  | _, _ => false

def sayCurve : Curve → String
  | .events a s l => "points " ++ a ++ " " ++ s ++ " on lane " ++ toString l
  | .line a s => "line " ++ a ++ " " ++ s
  | .faces => "audit faces"
  | .verdicts => "audit verdicts"

def sayBox (b : Box) : String := b.member ++ " [" ++ "; ".intercalate (b.curves.map sayCurve) ++ "]"

def sayBand (b : Band) : String := b.mood ++ " " ++ showEdge b.lo ++ ".." ++ showEdge b.hi

/-- first difference between what the specification asks for and what the script holds -/
def diffSub (nm : String) (want got : Sub) : Option String :=
  if !closeRat want.xmin got.xmin || !closeRat want.xmax got.xmax then
    some (nm ++ ": x range, specification [" ++ showRat want.xmin ++ ":" ++ showRat want.xmax ++ "]")
  else if want.lanes != got.lanes || want.laneTop != got.laneTop then
    some (nm ++ ": action lanes, specification " ++ showSep "," (want.lanes.map fun p => p.1 ++ "@" ++ toString p.2))
  else if want.boxes.map (·.member) != got.boxes.map (·.member) || want.rows != got.rows then
    some (nm ++ ": boxes, specification " ++ showSep "," (want.boxes.map (·.member)))
  else if want.boxes != got.boxes then
    some (nm ++ ": curves, specification " ++ showSep " | " (want.boxes.map sayBox))
  else if !closeList (fun a b => closeEdge a.lo b.lo && closeEdge a.hi b.hi && a.mood == b.mood) want.bands got.bands then
    some (nm ++ ": mood bands, specification " ++ showSep " | " (want.bands.map sayBand))
  else if !closeList closeRat want.actLines got.actLines then
    some (nm ++ ": act lines, specification " ++ showSep "," (want.actLines.map showRat))
  else none

def diffPlot (want got : Plot) : Option String :=
  match diffSub "plot.gp" want.main got.main with
  | some d => some d
  | none =>
    match want.zoom, got.zoom with
    | none, none => if want.loads != got.loads || want.pageRows != got.pageRows then some "runme.gp" else none
    | some a, some b =>
      match diffSub "lastplot.gp" a b with
      | some d => some d
      | none => if want.loads != got.loads || want.pageRows != got.pageRows then some "runme.gp" else none
    | some _, none => some "lastplot.gp: the specification asks for a zoomed plot, there is none"
    | none, some _ => some "lastplot.gp: a zoomed plot without a repeated section"

def showPair (p : Rat × Rat) : String := showRat p.1 ++ " " ++ showRat p.2

def handle : List String → String
  | ["plot", mn, mx, rep, cast, aud, changes, elapsed, acts] =>
    match parseFacts mn mx rep cast aud changes elapsed acts with
    | some f => showPlot (plotModel f)
    | none => "bad-op"
  | ["spec", mn, mx, rep, cast, aud, changes, elapsed, acts] =>
    match parseFacts mn mx rep cast aud changes elapsed acts with
    | some f => showPlot (plotSpec f)
    | none => "bad-op"
  | "oracle" :: mn :: mx :: rep :: cast :: aud :: changes :: elapsed :: acts :: real =>
    match parseFacts mn mx rep cast aud changes elapsed acts, parsePlot real with
    | some f, some got =>
      match diffPlot (plotSpec f) got with
      | none => "ok"
      | some d => "FAIL " ++ d
    | _, _ => "bad-op"
  -- `Result.MinTime MaxTime` from the collected instants
  | ["range", instants] =>
    match (sepList "," instants).mapM parseRat with
    | some ts => showPair (rangeOf ts)
    | none => "bad-op"
  -- `Result.Repeat.StartTime` from the act starts
  | ["repeat", n, acts] =>
    match n.toNat?, (sepList "," acts).mapM parseAct with
    | some n, some as => (match repeatStartOf n as with | some s => showRat s | none => "none")
    | _, _ => "bad-op"
  -- the same by the specification
  | ["repeat-spec", n, acts] =>
    match n.toNat?, (sepList "," acts).mapM parseAct with
    | some n, some as => (match specRepeatStart n as with | some s => showRat s | none => "none")
    | _, _ => "bad-op"
  | ["periods", changes, elapsed] =>
    match (sepList "," changes).mapM parseChange, parseRat elapsed with
    | some cs, some e =>
      showSep "," ((periodsOf cs e).map fun p => showRat p.start ++ ":" ++ showRat p.stop ++ ":" ++ hex p.mood)
    | _, _ => "bad-op"
  | _ => "bad-op"

end Shk.Drv.C19
