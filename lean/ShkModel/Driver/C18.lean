import ShkModel.Model.Timeutil
import ShkModel.Driver.Util
namespace Shk.Drv.C18
open Shk.Timeutil

def parseOp (t : String) : Option Op :=
  match t.toList with
  | 'r' :: cs => (String.ofList cs).toNat?.map Op.reset
  | 't' :: cs => (String.ofList cs).toNat?.map Op.tick
  | ['v'] => some Op.recv
  | ['s'] => some Op.stop
  | _ => none

def showOut : Out → String
  | .ok => "ok"
  | .blocked => "blocked"
  | .got _ => "got"
  | .none => "none"
  | .stopped r => if r then "stopped-true" else "stopped-false"

def handle : List String → String
  | ["micros", s, n] =>
    match s.toInt?, n.toInt? with
    | some sec, some nsec => toString (toUnixMicros sec nsec)
    | _, _ => "bad-op"
  -- oracle: the specification (nearest, half up) against a value produced by the real code
  | ["oracle-micros", s, n, v] =>
    match s.toInt?, n.toInt?, v.toInt? with
    | some sec, some nsec, some val =>
      if val == nearestMicros sec nsec then "ok" else "FAIL nearest=" ++ toString (nearestMicros sec nsec)
    | _, _, _ => "bad-op"
  | ["from", u] =>
    match u.toInt? with
    | some us => toString (fromUnixMicros us).1 ++ " " ++ toString (fromUnixMicros us).2
    | none => "bad-op"
  | ["timer", ops] =>
    match (commaList ops).mapM parseOp with
    | some os => showList ((run {} os).2.map showOut)
    | none => "bad-op"
  | _ => "bad-op"

end Shk.Drv.C18
