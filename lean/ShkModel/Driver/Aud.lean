import ShkModel.Model.Audition
import ShkModel.Gen.Tables
import ShkModel.Driver.Util
/-! Token protocol for the audition model (shared by C02, C08, C11). -/
namespace Shk.Drv.Aud
open Shk Shk.Aud

abbrev P := StateT (List String) Option

def tok : P String := do
  match (← get) with
  | [] => failure
  | t :: ts => set ts; pure t

def parseRat (t : String) : Option Rat :=
  match t.splitOn "/" with
  | [a] => a.toInt?.map fun i => (i : Rat)
  | [a, b] => do
    let i ← a.toInt?
    let j ← b.toNat?
    if j == 0 then none else pure (mkRat i j)
  | _ => none

def parseSc (t : String) : Option Sc :=
  if t == "nil" then some .nil else
  match t.splitOn ":" with
  | ["n", q] => (parseRat q).map Sc.num
  | ["s", h] => (unhex h).map Sc.str
  | ["b", "t"] => some (.bool true)
  | ["b", "f"] => some (.bool false)
  | _ => none

def parseVar (t : String) : Option VarName :=
  match t.splitOn ":" with
  | ["v", a, s] => do pure ⟨← unhex a, ← unhex s⟩
  | _ => none

def parseOp : String → Option BinOp
  | "add" => some .add | "sub" => some .sub | "mul" => some .mul | "div" => some .div
  | "eq" => some .eq | "ne" => some .ne | "lt" => some .lt | "le" => some .le
  | "gt" => some .gt | "ge" => some .ge | "and" => some .and | "or" => some .or
  | _ => none

partial def expr : P Expr := do
  let t ← tok
  if t == "not" then return .not (← expr)
  if t == "neg" then return .neg (← expr)
  if t == "ite" then
    let c ← expr; let a ← expr; let b ← expr
    return .ite c a b
  match t.splitOn ":" with
  | ["op", o] =>
    match parseOp o with
    | some op => let a ← expr; let b ← expr; return .bin op a b
    | none => failure
  | ["c1", f] =>
    match unhex f with
    | some fn => return .call1 fn (← expr)
    | none => failure
  | ["c2", f] =>
    match unhex f with
    | some fn => let a ← expr; let b ← expr; return .call2 fn a b
    | none => failure
  | "v" :: _ =>
    match parseVar t with
    | some v => return .var v
    | none => failure
  | _ =>
    match parseSc t with
    | some s => return .lit s
    | none => failure

def parseMode : String → Option Mode
  | "single" => some .single | "first" => some .first | "last" => some .last
  | "top" => some .top | "bottom" => some .bottom | _ => none

def num : P Nat := do
  match (← tok).toNat? with
  | some n => pure n
  | none => failure

def rep {α} (n : Nat) (p : P α) : P (List α) := do
  let mut res := []
  for _ in [0:n] do
    res := (← p) :: res
  pure res.reverse

def assign : P Assign := do
  let t ← tok
  match t.splitOn ":" with
  | ["a", tg, md, n] =>
    match unhex tg, parseMode md, n.toNat? with
    | some target, some mode, some k => pure { target, expr := (← expr), mode, n := k }
    | _, _, _ => failure
  | _ => failure

def member : P Member := do
  let t ← tok
  match t.splitOn ":" with
  | ["m", h] =>
    match unhex h with
    | none => failure
    | some name =>
      let cond ← expr
      let assigns ← rep (← num) assign
      let et ← tok
      let expect ← (
        if et == "none" then pure none else
        match et.splitOn ":" with
        | ["x", mh] =>
          match unhex mh with
          | some mn => do let e ← expr; pure (some (Gen.tbl mn, e))
          | none => failure
        | _ => failure)
      let watches ← rep (← num) (do match parseVar (← tok) with | some v => pure v | none => failure)
      let bt ← tok
      pure { name, cond, assigns, expect, watches, borrowedExpect := bt == "borrowed" }
  | _ => failure

def parseTyp : String → Option Typ
  | "0" => some .event | "1" => some .scalar | "2" => some .delta | _ => none

def sample : P Sample := do
  let t ← tok
  match t.splitOn ":" with
  | [ty, a, s] =>
    match parseTyp ty, unhex a, unhex s with
    | some typ, some ac, some sg =>
      match parseSc (← tok) with
      | some v => pure { typ, v := ⟨ac, sg⟩, val := .sc v }
      | none => failure
    | _, _, _ => failure
  | _ => failure

def ev : P Ev := do
  let t ← tok
  match t.splitOn ":" with
  | ["mood", ts, h] =>
    match parseRat ts, unhex h with
    | some q, some m => pure (.mood q m)
    | _, _ => failure
  | ["sig", ts, k] =>
    match parseRat ts, k.toNat? with
    | some q, some n => pure (.sig q (← rep n sample))
    | _, _ => failure
  | _ => failure

def showRat (q : Rat) : String := toString q.num ++ "/" ++ toString q.den

def showSc : Sc → String
  | .nil => "nil"
  | .num q => "n:" ++ showRat q
  | .str s => "s:" ++ hex s
  | .bool b => if b then "b:t" else "b:f"

def showVal : Val → String
  | .sc s => showSc s
  | .arr l => "[" ++ ",".intercalate (l.map showSc) ++ "]"

def showOut : Out → String
  | .obs ts typ v val => s!"obs {showRat ts} {typ.code} {hex v.actor} {hex v.sig} {showVal val}"
  | .rep ts a r _ => s!"rep {showRat ts} {hex a} {r.code}"
  | .repErr ts a => s!"rep {showRat ts} {hex a} 1"
  | .start a => s!"start {hex a}"
  | .stop a => s!"stop {hex a}"

def showAbort : Option Abort → String
  | none => "none" | some .evalError => "evalError" | some .unmodelled => "unmodelled"

/-- `run <nmembers> member* <nevents> ev* <tEnd>` → `abort=… | out | out … || var=val …` -/
def runReq : P String := do
  let members ← rep (← num) member
  let evs ← rep (← num) ev
  let tEnd ← (do match parseRat (← tok) with | some q => pure q | none => failure)
  let c : Cfg := { members }
  let s := run c evs tEnd
  let targets := (members.flatMap fun m => m.assigns.map (·.target)).eraseDups
  let vars := targets.map fun t => hex t ++ "=" ++ showVal (s.vals ⟨"", t⟩)
  pure ("abort=" ++ showAbort s.abort ++ " | " ++ " | ".intercalate (s.out.reverse.map showOut) ++
        " || " ++ " ".intercalate vars)

def handle : List String → String
  | "run" :: rest =>
    match runReq.run rest with
    | some (r, []) => r
    | some (_, _) => "bad-op trailing"
    | none => "bad-op"
  | _ => "bad-op"

end Shk.Drv.Aud
