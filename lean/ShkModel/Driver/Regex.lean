import ShkModel.Model.Regex
import ShkModel.Gen.ClauseRe
import ShkModel.Driver.Util
/-! Driver ops for the clause regexps (K-RE, O-C09-syntax):

* `RE match <name> <hex bytes>`  →  `none` | `some a:b,-,a:b…`  — the model's `FindStringSubmatchIndex`
  (byte offsets; the string is decoded rune by rune the way Go's `regexp` does)
* `RE first <name,name,…> <hex bytes>`  →  the first regexp of the list that matches, or `-`
* `RE src <name>`  →  hex of the source literal the table was generated from
* `RE names`  →  the names of the table, in source order -/
namespace Shk.Drv.Regex
open Shk.Re

def showCaps : Option Captures → String
  | none => "none"
  | some c => "some " ++ ",".intercalate (c.map fun
      | none => "-"
      | some (a, b) => toString a ++ ":" ++ toString b)

def handle : List String → String
  | ["match", name, line] =>
    match Gen.all.lookup name, unhexBytes line with
    | some r, some bs => showCaps (findBytes r (bs.map (·.toNat)))
    | none, _ => "unknown-regexp"
    | _, none => "bad-op"
  | ["first", names, line] =>
    match unhexBytes line with
    | some bs =>
      let b := bs.map (·.toNat)
      match (commaList names).find? fun n =>
          match Gen.all.lookup n with
          | some r => (findBytes r b).isSome
          | none => false with
      | some n => n
      | none => "-"
    | none => "bad-op"
  | ["src", name] =>
    match Gen.sources.lookup name with
    | some s => hex s
    | none => "unknown-regexp"
  | ["names"] => showList (Gen.all.map (·.1))
  | _ => "bad-op"

end Shk.Drv.Regex
