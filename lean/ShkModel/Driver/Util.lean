/-! Token protocol helpers for the model driver (core only). -/
namespace Shk.Drv

def hexVal (c : Char) : Option Nat :=
  if '0' ≤ c ∧ c ≤ '9' then some (c.toNat - '0'.toNat)
  else if 'a' ≤ c ∧ c ≤ 'f' then some (c.toNat - 'a'.toNat + 10)
  else none

/-- `x<hex>` → bytes -/
def unhexBytes (t : String) : Option (List UInt8) :=
  match t.toList with
  | 'x' :: cs =>
    let rec go : List Char → List UInt8 → Option (List UInt8)
      | [], acc => some acc.reverse
      | a :: b :: rest, acc =>
        match hexVal a, hexVal b with
        | some x, some y => go rest (UInt8.ofNat (x * 16 + y) :: acc)
        | _, _ => none
      | _, _ => none
    go cs []
  | _ => none

/-- hex token → String (bytes must be UTF-8; otherwise none) -/
def unhex (t : String) : Option String := do
  let bs ← unhexBytes t
  String.fromUTF8? ⟨bs.toArray⟩

/-- hex token → list of byte values as `Char`s (Latin-1 view; used for byte-level models) -/
def unhexChars (t : String) : Option (List Char) := do
  let bs ← unhexBytes t
  pure (bs.map fun b => Char.ofNat b.toNat)

def hexDigit (n : Nat) : Char :=
  if n < 10 then Char.ofNat ('0'.toNat + n) else Char.ofNat ('a'.toNat + n - 10)

def hexOfBytes (bs : List UInt8) : String :=
  "x" ++ String.ofList (bs.flatMap fun b => [hexDigit (b.toNat / 16), hexDigit (b.toNat % 16)])

def hex (s : String) : String := hexOfBytes s.toUTF8.toList

def hexOfChars (cs : List Char) : String := hexOfBytes (cs.map fun c => UInt8.ofNat c.toNat)

/-- bit string over t/f, `-` for the empty word -/
def bits (t : String) : Option (List Bool) :=
  if t == "-" then some [] else
  t.toList.mapM fun c => if c == 't' then some true else if c == 'f' then some false else none

def showBits (l : List Bool) : String :=
  if l.isEmpty then "-" else String.ofList (l.map fun b => if b then 't' else 'f')

def joinWith (sep : String) (l : List String) : String := sep.intercalate l

/-- comma list, `-` for empty -/
def commaList (t : String) : List String := if t == "-" then [] else t.splitOn ","
def showList (l : List String) : String := if l.isEmpty then "-" else ",".intercalate l

def parseInt (t : String) : Option Int := t.toInt?

end Shk.Drv
